(** Completeness of the expression parser for the published grammar: every token
    list whose symbols are the canonical writing [flat_e e] of a ladder-shaped tree
    [e] is accepted, and the tree returned is [e] up to line numbers.  Hence the
    ladder-shaped tree of a token list is unique ([tree_unique]).

    Scheme (as in design_spikes/ParserSpike_Complete.v): strong induction on the
    size of the tree; inside, downward induction on the ladder level; a loop lemma
    for left spines ([ploop]) and one for suffix chains ([pcallloop]). *)
From Borno Require Import Base Num Token Ast Parser ParserEqs ParserMono Grammar ParserSC_Base.
From Coq Require Import Wellfounded Wf_nat.
Local Open Scope nat_scope.

Ltac lnorm := repeat (progress (rewrite <- ?app_assoc; cbn [app])).

Tactic Notation "spc" hyp(H) "as" ident(t) ident(ts') ident(St) :=
  apply SymPre_cons_inv in H; destruct H as (t & ts' & -> & St & H).
Tactic Notation "spa" hyp(H) "as" ident(mid) ident(H1) :=
  apply SymPre_app_inv in H; destruct H as (mid & H1 & H).

(** * Follow conditions *)

(** a token kind that cannot continue an expression of level [>= k] *)
Definition nofollow (k : nat) (kd : tkind) : Prop :=
  (forall j, op_level kd = Some j -> j < k) /\ kd <> TLEFT_PAREN /\ kd <> TLEFT_BRACKET /\ kd <> TDOT.
Definition hdok (k : nat) (r : list token) : Prop :=
  match r with [] => True | t :: _ => nofollow k (tk t) end.
Definition hdoke (r : list token) : Prop :=
  hdok 0 r /\ match r with t :: _ => tk t <> TEQUAL | [] => True end.

Lemma hdok_mono k k' r : k <= k' -> hdok k r -> hdok k' r.
Proof.
  destruct r as [|t r]; simpl; [auto|]. intros Hle (H & H1 & H2 & H3).
  split; [|auto]. intros j Hj. apply H in Hj. lia.
Qed.

Lemma follow_hdoke r : follow_ok r -> hdoke r.
Proof.
  destruct r as [|t r]; [intros _; split; exact I|].
  unfold follow_ok, expr_follow, hdoke, hdok, nofollow.
  destruct (op_level (tk t)) eqn:E; [intros H; discriminate H|]. intros H.
  split; [split; [intros j Hj; discriminate Hj|]|]; destruct (tk t); try discriminate H; repeat split; discriminate.
Qed.

Lemma hdoke_kind t r : expr_follow (tk t) = true -> hdoke (t :: r).
Proof. intros H. apply follow_hdoke. exact H. Qed.

Lemma hdok_equal k t r : tk t = TEQUAL -> hdok k (t :: r).
Proof.
  intros K. simpl. rewrite K. split; [|repeat split; discriminate].
  intros j Hj. vm_compute in Hj. discriminate.
Qed.

Lemma hdok_op k t r : op_level (tk t) = Some k -> hdok (S k) (t :: r).
Proof.
  intros H. simpl. destruct (op_level_not_sep _ _ H) as (H1 & H2 & H3 & _).
  split; [|auto]. intros j Hj. rewrite H in Hj. inv Hj. lia.
Qed.

Lemma starter_not_close k : starter_kind k = true ->
  k <> TRIGHT_PAREN /\ k <> TRIGHT_BRACKET /\ k <> TRIGHT_BRACE /\ k <> TSEMICOLON /\ k <> TCOMMA.
Proof. destruct k; intros H; try discriminate H; repeat split; discriminate. Qed.

Section Complete.
Variable eofl : N.

Notation pexpr := (Parser.pexpr eofl).
Notation plevel := (Parser.plevel eofl).
Notation ploop := (Parser.ploop eofl).
Notation punary := (Parser.punary eofl).
Notation pcallloop := (Parser.pcallloop eofl).
Notation pargs := (Parser.pargs eofl).
Notation pprimary := (Parser.pprimary eofl).
Notation pprops := (Parser.pprops eofl).
Notation consume := (Parser.consume eofl).

(** primary followed by its suffix chain (the [else] branch of [punary]) *)
Definition ppost (f : nat) (ts : list token) : pres expr :=
  pbind (pprimary f ts) (fun e r' => pcallloop f e r').

Lemma punary_post f t ts : is_unop (tk t) = false -> punary (S f) (t :: ts) = ppost f (t :: ts).
Proof. intros H. rewrite punary_S. unfold is_unop in H. rewrite H. reflexivity. Qed.

Lemma ppost_intro f ts e' r' a r ds :
  pprimary f ts = POk e' r' [] -> pcallloop f e' r' = POk a r ds -> ppost f ts = POk a r ds.
Proof. intros H1 H2. unfold ppost. rewrite (pbind_nil _ _ _ _ H1). exact H2. Qed.

Lemma pcallloop_stop f k e r : hdok k r -> pcallloop (S f) e r = POk e r [].
Proof.
  rewrite pcallloop_S. destruct r as [|t r']; [reflexivity|]. simpl. intros (_ & H1 & H2 & H3).
  destruct (tk t); try reflexivity; congruence.
Qed.

Lemma ploop_stop f k e r : k < nlev -> hdok k r -> ploop (S f) (lvl k) (skipn (S k) ladder) e r = POk e r [].
Proof.
  intros Hk H. rewrite ploop_S. destruct r as [|t r']; [reflexivity|].
  destruct (kind_in (tk t) (fst (lvl k))) eqn:Kin; [|reflexivity].
  apply (level_ops_spec _ _ Hk) in Kin. destruct H as (H & _). apply H in Kin. lia.
Qed.

Lemma pprimary_lit f t r v : sym_of t = flat_lit v -> pprimary (S f) (t :: r) = POk (ELit v (tline t)) r [].
Proof.
  intros H. rewrite pprimary_S.
  destruct v as [|[|]|x|s]; simpl in H.
  - rewrite (sym_of_kind _ _ H). reflexivity.
  - rewrite (sym_of_kind _ _ H). reflexivity.
  - rewrite (sym_of_kind _ _ H). reflexivity.
  - apply sym_of_SymNum in H. destruct H as (K & L). rewrite K, L. reflexivity.
  - apply sym_of_SymStr in H. destruct H as (K & L). rewrite K, L. reflexivity.
Qed.

Lemma pprimary_id f t r x : sym_of t = SymId x -> pprimary (S f) (t :: r) = POk (EId x (tline t)) r [].
Proof.
  intros H. rewrite pprimary_S. apply sym_of_SymId in H. destruct H as (K & L). rewrite K, L. reflexivity.
Qed.

(** the three statements proved together for a tree [e]: levels, suffix chains, full expressions *)
Definition StmtC (e : expr) : Prop :=
  (forall k ts rest, k <= nlev -> WFk k e -> SymPre (flat_e e) ts rest -> hdok k rest ->
     exists f e', plevel f (skipn k ladder) ts = POk e' rest [] /\ erase_e e' = erase_e e) /\
  (forall ts rest, WFk (S nlev) e -> SymPre (flat_e e) ts rest ->
     exists e', erase_e e' = erase_e e /\
       forall f a r ds, pcallloop f e' rest = POk a r ds -> exists f', ppost f' ts = POk a r ds) /\
  (forall ts rest, WFfull e -> SymPre (flat_e e) ts rest -> hdoke rest ->
     exists f e', pexpr f ts = POk e' rest [] /\ erase_e e' = erase_e e).

Lemma P_of_primary e ts rest :
  (exists e' F0, erase_e e' = erase_e e /\ forall F, F0 <= F -> pprimary (S F) ts = POk e' rest []) ->
  exists e', erase_e e' = erase_e e /\
    forall f a r ds, pcallloop f e' rest = POk a r ds -> exists f', ppost f' ts = POk a r ds.
Proof.
  intros (e' & F0 & Er & Hp). exists e'. split; [exact Er|].
  intros f a r ds Hc. exists (S (f + F0)). eapply ppost_intro; [apply Hp; lia|].
  eapply pcallloop_mono_ok; [exact Hc|lia].
Qed.

Lemma join_first a es : exists s, join_comma (map flat_e (a :: es)) = first_sym a :: s.
Proof.
  destruct (flat_first a) as (s & E). destruct es as [|b es].
  - exists s. simpl. exact E.
  - eexists. change (join_comma (map flat_e (a :: b :: es)))
      with (flat_e a ++ Sym TCOMMA :: join_comma (map flat_e (b :: es))).
    rewrite E. reflexivity.
Qed.

(** comma-separated expressions *)
Lemma args_complete n : (forall e, esize e <= n -> StmtC e) ->
  forall args ts rest, list_sum (map esize args) <= n -> Forall WFfull args -> args <> [] ->
  SymPre (join_comma (map flat_e args)) ts rest -> hdoke rest -> check TCOMMA rest = false ->
  exists f args', pargs f ts = POk args' rest [] /\ map erase_e args' = map erase_e args.
Proof.
  intros IH. induction args as [|a args IHa]; intros ts rest Hs HF Hne HP Hh Hc; [congruence|].
  apply Forall_cons_iff in HF. destruct HF as (Wa & Wargs). simpl in Hs.
  destruct (IH a ltac:(lia)) as (_ & _ & Ea).
  destruct args as [|b args].
  - cbn [map join_comma] in HP. destruct (Ea ts rest Wa HP Hh) as (f & a' & Hf & Era).
    exists (S f), [a']. split; [|cbn [map]; rewrite Era; reflexivity].
    rewrite pargs_S. rewrite (pbind_nil _ _ _ _ Hf). rewrite Hc. reflexivity.
  - change (join_comma (map flat_e (a :: b :: args)))
      with (flat_e a ++ Sym TCOMMA :: join_comma (map flat_e (b :: args))) in HP.
    spa HP as mid HPa. spc HP as tc ts2 Sc.
    assert (Kc : tk tc = TCOMMA) by (apply (sym_of_kind _ _ Sc)).
    assert (Hh1 : hdoke (tc :: ts2)) by (apply hdoke_kind; rewrite Kc; reflexivity).
    destruct (Ea ts (tc :: ts2) Wa HPa Hh1) as (f1 & a' & Hf1 & Era).
    assert (Hs2 : list_sum (map esize (b :: args)) <= n) by (simpl in *; lia).
    destruct (IHa ts2 rest Hs2 Wargs ltac:(discriminate) HP Hh Hc) as (f2 & more & Hf2 & Erm).
    exists (S (f1 + f2)), (a' :: more). split.
    + rewrite pargs_S. erewrite pbind_nil by (eapply pexpr_mono_ok; [exact Hf1|lia]).
      rewrite (check_hit _ _ _ Kc). cbn [tl]. erewrite pbind_nil by (eapply pargs_mono_ok; [exact Hf2|lia]).
      reflexivity.
    + cbn [map] in *. rewrite Era, Erm. reflexivity.
Qed.

(** a bracketed, possibly empty list: [( … )] of a call, [[ … ]] of an array literal *)
Lemma optargs_complete n close : (forall e, esize e <= n -> StmtC e) ->
  (close = TRIGHT_PAREN \/ close = TRIGHT_BRACKET) ->
  forall args ts tcl rest, list_sum (map esize args) <= n -> Forall WFfull args ->
  SymPre (join_comma (map flat_e args)) ts (tcl :: rest) -> tk tcl = close ->
  exists f args', (forall F, f <= F ->
     (if check close ts then POk [] ts [] else pargs F ts) = POk args' (tcl :: rest) []) /\
     map erase_e args' = map erase_e args.
Proof.
  intros IH Hcl args ts tcl rest Hs HF HP Kcl.
  destruct args as [|a args].
  - cbn [map join_comma] in HP. apply SymPre_nil_inv in HP. subst ts.
    exists 0, []. split; [|reflexivity]. intros F _. rewrite (check_hit _ _ _ Kcl). reflexivity.
  - assert (Hh : hdoke (tcl :: rest)).
    { apply hdoke_kind. rewrite Kcl. destruct Hcl as [->| ->]; reflexivity. }
    assert (Hc : check TCOMMA (tcl :: rest) = false).
    { apply check_miss. rewrite Kcl. destruct Hcl as [->| ->]; discriminate. }
    destruct (args_complete n IH (a :: args) ts (tcl :: rest) Hs HF ltac:(discriminate) HP Hh Hc)
      as (f & args' & Hf & Er).
    exists f, args'. split; [|exact Er]. intros F HF'.
    destruct (join_first a args) as (s & Es). rewrite Es in HP.
    spc HP as t0 ts0 S0.
    assert (K0 : tk t0 <> close).
    { rewrite (sym_of_kind _ _ S0). apply Forall_cons_iff in HF. destruct HF as (Wa & _).
      apply first_sym_full in Wa. apply starter_not_close in Wa.
      destruct Hcl as [->| ->]; tauto. }
    rewrite (check_miss _ _ _ K0). eapply pargs_mono_ok; [exact Hf|exact HF'].
Qed.

Definition flat_kv (kv : list N * expr) : list tsym := let '(k, v) := kv in SymId k :: Sym TCOLON :: flat_e v.

(** the entries of an object literal *)
Lemma props_complete n : (forall e, esize e <= n -> StmtC e) ->
  forall ps ts tcl rest acc, list_sum (map esize (map snd ps)) <= n -> Forall WFfull (map snd ps) ->
  SymPre (join_comma (map flat_kv ps)) ts (tcl :: rest) -> tk tcl = TRIGHT_BRACE ->
  exists f raw, pprops f acc ts = POk (fold_left put_kv raw acc) (tcl :: rest) [] /\
                map erase_kv raw = map erase_kv ps.
Proof.
  intros IH. induction ps as [|[k v] ps IHp]; intros ts tcl rest acc Hs HF HP Kcl.
  - cbn [map join_comma] in HP. apply SymPre_nil_inv in HP. subst ts.
    exists 1, []. split; [|reflexivity]. rewrite pprops_S. rewrite Kcl. reflexivity.
  - simpl in Hs. cbn [map snd] in HF.
    apply Forall_cons_iff in HF. destruct HF as (Wv & Wps).
    destruct (IH v ltac:(lia)) as (_ & _ & Ev).
    assert (Hh : hdoke (tcl :: rest)) by (apply hdoke_kind; rewrite Kcl; reflexivity).
    assert (Hc : check TCOMMA (tcl :: rest) = false) by (apply check_miss; rewrite Kcl; discriminate).
    destruct ps as [|kv2 ps].
    + cbn [map join_comma flat_kv] in HP.
      spc HP as tn ts1 Sn. spc HP as tc ts2 Sc.
      apply sym_of_SymId in Sn. destruct Sn as (Kn & Ln).
      assert (Kc : tk tc = TCOLON) by (apply (sym_of_kind _ _ Sc)).
      destruct (Ev ts2 (tcl :: rest) Wv HP Hh) as (f1 & v' & Hf1 & Erv).
      exists (S f1), [(k, v')]. split; [|cbn [map erase_kv]; rewrite Erv; reflexivity].
      rewrite pprops_S. rewrite Kn. cbn [tkind_eqb tkind_code N.eqb Pos.eqb].
      rewrite (pbind_nil _ _ _ _ (consume_hit eofl _ _ _ _ Kn)).
      rewrite (pbind_nil _ _ _ _ (consume_hit eofl _ _ _ _ Kc)).
      rewrite (pbind_nil _ _ _ _ Hf1). rewrite Hc. rewrite Ln. reflexivity.
    + change (join_comma (map flat_kv ((k, v) :: kv2 :: ps)))
        with ((SymId k :: Sym TCOLON :: flat_e v) ++ Sym TCOMMA :: join_comma (map flat_kv (kv2 :: ps))) in HP.
      cbn [app] in HP.
      spc HP as tn ts1 Sn. spc HP as tc ts2 Sc. spa HP as mid HPv. spc HP as tcm ts3 Scm.
      apply sym_of_SymId in Sn. destruct Sn as (Kn & Ln).
      assert (Kc : tk tc = TCOLON) by (apply (sym_of_kind _ _ Sc)).
      assert (Kcm : tk tcm = TCOMMA) by (apply (sym_of_kind _ _ Scm)).
      assert (Hh1 : hdoke (tcm :: ts3)) by (apply hdoke_kind; rewrite Kcm; reflexivity).
      destruct (Ev ts2 (tcm :: ts3) Wv HPv Hh1) as (f1 & v' & Hf1 & Erv).
      assert (Hs2 : list_sum (map esize (map snd (kv2 :: ps))) <= n) by (simpl in *; lia).
      destruct (IHp ts3 tcl rest (props_put acc k v') Hs2 Wps HP Kcl) as (f2 & raw & Hf2 & Err).
      exists (S (f1 + f2)), ((k, v') :: raw). split.
      * rewrite pprops_S. rewrite Kn. cbn [tkind_eqb tkind_code N.eqb Pos.eqb].
        rewrite (pbind_nil _ _ _ _ (consume_hit eofl _ _ _ _ Kn)).
        rewrite (pbind_nil _ _ _ _ (consume_hit eofl _ _ _ _ Kc)).
        erewrite pbind_nil by (eapply pexpr_mono_ok; [exact Hf1|lia]).
        rewrite (check_hit _ _ _ Kcm). cbn [tl]. rewrite Ln.
        eapply pprops_mono_ok; [exact Hf2|lia].
      * cbn [map erase_kv] in *. rewrite Erv, Err. reflexivity.
Qed.


Lemma flat_arrassign a i v ln :
  flat_e (EArrAssign a i v ln) = flat_e (EIndex a i 0%N) ++ Sym TEQUAL :: flat_e v.
Proof. cbn [flat_e]. lnorm. reflexivity. Qed.
Lemma flat_propassign o p v ln :
  flat_e (EPropAssign o p v ln) = flat_e (EProp o p 0%N) ++ Sym TEQUAL :: flat_e v.
Proof. cbn [flat_e]. lnorm. reflexivity. Qed.

Lemma complete_n : forall n e, esize e <= n -> StmtC e.
Proof.
  induction n as [|n IH]; intros e Hs. { pose proof (esize_pos e). lia. }
  (* P : primaries and suffix chains *)
  assert (P : forall ts rest, WFk (S nlev) e -> SymPre (flat_e e) ts rest ->
     exists e', erase_e e' = erase_e e /\
       forall f a r ds, pcallloop f e' rest = POk a r ds -> exists f', ppost f' ts = POk a r ds).
  { intros ts rest W HP. apply WFk_post_cases in W.
    destruct e as [v ln|x ln|e0 ln|op e0 ln|op l r ln|op l r|x nl v ln|a i v ln|o p v ln|c pl args|a i ln|o p ln|es|ps];
      try contradiction.
    - (* literal *)
      cbn [flat_e] in HP. spc HP as t ts1 St. apply SymPre_nil_inv in HP. subst ts1.
      apply P_of_primary. exists (ELit v (tline t)), 0. split; [reflexivity|].
      intros F _. apply pprimary_lit. exact St.
    - (* identifier *)
      cbn [flat_e] in HP. spc HP as t ts1 St. apply SymPre_nil_inv in HP. subst ts1.
      apply P_of_primary. exists (EId x (tline t)), 0. split; [reflexivity|].
      intros F _. apply pprimary_id. exact St.
    - (* group *)
      cbn [flat_e] in HP. cbn [esize] in Hs.
      spc HP as t1 ts1 S1. spa HP as mid HPe. spc HP as t2 ts2 S2. apply SymPre_nil_inv in HP. subst ts2.
      assert (K1 : tk t1 = TLEFT_PAREN) by (apply (sym_of_kind _ _ S1)).
      assert (K2 : tk t2 = TRIGHT_PAREN) by (apply (sym_of_kind _ _ S2)).
      destruct (IH e0 ltac:(lia)) as (_ & _ & Ee).
      assert (Hh : hdoke (t2 :: rest)) by (apply hdoke_kind; rewrite K2; reflexivity).
      destruct (Ee ts1 (t2 :: rest) W HPe Hh) as (f1 & e0' & Hf1 & Er0).
      apply P_of_primary. exists (EGroup e0' (tline t2)), f1. split; [cbn [erase_e]; rewrite Er0; reflexivity|].
      intros F HF. rewrite pprimary_S, K1. cbv beta iota.
      erewrite pbind_nil by (eapply pexpr_mono_ok; [exact Hf1|lia]).
      rewrite (pbind_nil _ _ _ _ (consume_hit eofl _ _ _ _ K2)). reflexivity.
    - (* call *)
      destruct W as (Wc & Wargs). cbn [flat_e] in HP. cbn [esize] in Hs.
      spa HP as mid1 HPc. spc HP as t1 ts1 S1. spa HP as mid2 HPa. spc HP as t2 ts2 S2.
      apply SymPre_nil_inv in HP. subst ts2.
      assert (K1 : tk t1 = TLEFT_PAREN) by (apply (sym_of_kind _ _ S1)).
      assert (K2 : tk t2 = TRIGHT_PAREN) by (apply (sym_of_kind _ _ S2)).
      destruct (IH c ltac:(lia)) as (_ & Pc & _).
      destruct (Pc ts (t1 :: ts1) Wc HPc) as (c' & Erc & Hc').
      assert (Hsa : list_sum (map esize args) <= n) by lia.
      destruct (optargs_complete n TRIGHT_PAREN IH (or_introl eq_refl) args ts1 t2 rest Hsa Wargs HPa K2)
        as (f2 & args' & Hf2 & Era).
      exists (ECall c' (tline t2) args'). split; [cbn [erase_e]; rewrite Erc, Era; reflexivity|].
      intros f a r ds Hloop. apply (Hc' (S (f + f2))). rewrite pcallloop_S. cbv beta iota. rewrite K1. cbv beta iota.
      rewrite (pbind_nil _ _ _ _ (Hf2 (f + f2) ltac:(lia))).
      rewrite (pbind_nil _ _ _ _ (consume_hit eofl _ _ _ _ K2)).
      eapply pcallloop_mono_ok; [exact Hloop|lia].
    - (* index *)
      destruct W as (Wa & Wi). cbn [flat_e] in HP. cbn [esize] in Hs.
      spa HP as mid1 HPa. spc HP as t1 ts1 S1. spa HP as mid2 HPi. spc HP as t2 ts2 S2.
      apply SymPre_nil_inv in HP. subst ts2.
      assert (K1 : tk t1 = TLEFT_BRACKET) by (apply (sym_of_kind _ _ S1)).
      assert (K2 : tk t2 = TRIGHT_BRACKET) by (apply (sym_of_kind _ _ S2)).
      destruct (IH a ltac:(lia)) as (_ & Pa & _).
      destruct (Pa ts (t1 :: ts1) Wa HPa) as (a' & Era & Ha').
      destruct (IH i ltac:(lia)) as (_ & _ & Ei).
      assert (Hh : hdoke (t2 :: rest)) by (apply hdoke_kind; rewrite K2; reflexivity).
      destruct (Ei ts1 (t2 :: rest) Wi HPi Hh) as (f2 & i' & Hf2 & Eri).
      exists (EIndex a' i' (tline t2)). split; [cbn [erase_e]; rewrite Era, Eri; reflexivity|].
      intros f b r ds Hloop. apply (Ha' (S (f + f2))). rewrite pcallloop_S. cbv beta iota. rewrite K1. cbv beta iota.
      erewrite pbind_nil by (eapply pexpr_mono_ok; [exact Hf2|lia]).
      rewrite (pbind_nil _ _ _ _ (consume_hit eofl _ _ _ _ K2)).
      eapply pcallloop_mono_ok; [exact Hloop|lia].
    - (* property *)
      cbn [flat_e] in HP. cbn [esize] in Hs.
      spa HP as mid1 HPo. spc HP as t1 ts1 S1. spc HP as t2 ts2 S2.
      apply SymPre_nil_inv in HP. subst ts2.
      assert (K1 : tk t1 = TDOT) by (apply (sym_of_kind _ _ S1)).
      apply sym_of_SymId in S2. destruct S2 as (K2 & L2).
      destruct (IH o ltac:(lia)) as (_ & Po & _).
      destruct (Po ts (t1 :: t2 :: rest) W HPo) as (o' & Ero & Ho').
      exists (EProp o' p (tline t2)). split; [cbn [erase_e]; rewrite Ero; reflexivity|].
      intros f b r ds Hloop. apply (Ho' (S f)). rewrite pcallloop_S. cbv beta iota. rewrite K1. cbv beta iota.
      rewrite (pbind_nil _ _ _ _ (consume_hit eofl _ _ _ _ K2)). rewrite L2.
      eapply pcallloop_mono_ok; [exact Hloop|lia].
    - (* array *)
      cbn [flat_e] in HP. cbn [esize] in Hs.
      spc HP as t1 ts1 S1. spa HP as mid HPe. spc HP as t2 ts2 S2. apply SymPre_nil_inv in HP. subst ts2.
      assert (K1 : tk t1 = TLEFT_BRACKET) by (apply (sym_of_kind _ _ S1)).
      assert (K2 : tk t2 = TRIGHT_BRACKET) by (apply (sym_of_kind _ _ S2)).
      assert (Hsa : list_sum (map esize es) <= n) by lia.
      destruct (optargs_complete n TRIGHT_BRACKET IH (or_intror eq_refl) es ts1 t2 rest Hsa W HPe K2)
        as (f2 & es' & Hf2 & Eres).
      apply P_of_primary. exists (EArray es'), f2. split; [cbn [erase_e]; rewrite Eres; reflexivity|].
      intros F HF. rewrite pprimary_S, K1. cbv beta iota.
      rewrite (pbind_nil _ _ _ _ (Hf2 F HF)).
      rewrite (pbind_nil _ _ _ _ (consume_hit eofl _ _ _ _ K2)). reflexivity.
    - (* object *)
      destruct W as (Hnd & Wps). cbn [flat_e] in HP. rewrite esize_object in Hs.
      spc HP as t1 ts1 S1. spa HP as mid HPe. spc HP as t2 ts2 S2. apply SymPre_nil_inv in HP. subst ts2.
      assert (K1 : tk t1 = TLEFT_BRACE) by (apply (sym_of_kind _ _ S1)).
      assert (K2 : tk t2 = TRIGHT_BRACE) by (apply (sym_of_kind _ _ S2)).
      assert (Hsa : list_sum (map esize (map snd ps)) <= n) by lia.
      destruct (props_complete n IH ps ts1 t2 rest [] Hsa Wps HPe K2) as (f2 & raw & Hf2 & Err).
      apply P_of_primary. exists (EObject (fold_left put_kv raw [])), f2. split.
      + rewrite !erase_object. f_equal. unfold erase_kv. rewrite (fold_put_map erase_e raw []).
        fold erase_kv. rewrite Err. cbn [map]. apply (fold_put_nodup (map erase_kv ps) []).
        cbn [app]. rewrite map_fst_erase. exact Hnd.
      + intros F HF. rewrite pprimary_S, K1. cbv beta iota.
        erewrite pbind_nil by (eapply pprops_mono_ok; [exact Hf2|exact HF]).
        rewrite (pbind_nil _ _ _ _ (consume_hit eofl _ _ _ _ K2)). reflexivity. }
  (* A : the ladder levels, by downward induction on the level *)
  assert (A : forall d k ts rest, nlev - k = d -> k <= nlev -> WFk k e -> SymPre (flat_e e) ts rest -> hdok k rest ->
     exists f e', plevel f (skipn k ladder) ts = POk e' rest [] /\ erase_e e' = erase_e e).
  { induction d as [|d IHd]; intros k ts rest Hd Hk W HP Hh.
    - (* the unary level *)
      assert (k = nlev) by lia. subst k. rewrite ladder_skipn_all.
      destruct (WFk_unary_cases e W) as [(op & e0 & ln & -> & Hun & We0)|Wp].
      + cbn [flat_e] in HP. cbn [esize] in Hs. spc HP as t ts1 St.
        assert (Kt : tk t = op) by (apply (sym_of_kind _ _ St)).
        destruct (IH e0 ltac:(lia)) as (Ae & _ & _).
        destruct (Ae nlev ts1 rest (le_n _) We0 HP Hh) as (f & e0' & Hf & Er0).
        destruct f as [|f]; [rewrite plevel_0 in Hf; discriminate Hf|].
        rewrite ladder_skipn_all, plevel_S in Hf.
        exists (S (S f)), (EUnary op e0' (tline t)). split.
        * rewrite plevel_S, punary_S. unfold is_unop in Hun. rewrite Kt, Hun.
          rewrite (pbind_nil _ _ _ _ Hf). reflexivity.
        * cbn [erase_e]. rewrite Er0. reflexivity.
      + destruct (P ts rest Wp HP) as (e' & Er & He').
        destruct (He' 1 e' rest [] (pcallloop_stop 0 nlev e' rest Hh)) as (f' & Hf').
        exists (S (S f')), e'. split; [|exact Er].
        rewrite plevel_S.
        destruct (flat_first e) as (s & Es). rewrite Es in HP. spc HP as t ts1 St.
        rewrite punary_post; [exact Hf'|]. apply pstarter_not_unop. rewrite (sym_of_kind _ _ St).
        apply first_sym_post. exact Wp.
    - (* a binary level *)
      assert (Hk' : k < nlev) by lia.
      assert (LP : forall e1, esize e1 <= esize e -> (esize e1 < esize e \/ e1 = e) -> WFk k e1 ->
                forall ts1 rest', SymPre (flat_e e1) ts1 rest' -> hdok (S k) rest' ->
                exists e1', erase_e e1' = erase_e e1 /\
                  forall f a r ds, ploop f (lvl k) (skipn (S k) ladder) e1' rest' = POk a r ds ->
                                   exists f', plevel f' (skipn k ladder) ts1 = POk a r ds).
      { induction e1 as [e1 IHe1] using (well_founded_induction (wf_inverse_image _ _ _ esize lt_wf)).
        intros Hle Hor W1 ts1 rest' HP1 Hh1.
        destruct (WFk_up _ _ W1 Hk') as [(op & l & r & ln & -> & Ho & Hlg & Wl & Wr)|[(op & l & r & -> & Ho & Hlg & Wl & Wr)|Wup]].
        + (* binary node of this level *)
          cbn [flat_e] in HP1.
          spa HP1 as mid HPl. spc HP1 as top ts2 Sop.
          assert (Kop : tk top = op) by (apply (sym_of_kind _ _ Sop)).
          assert (Szl : esize l < esize (EBinary op l r ln)) by (cbn [esize]; lia).
          assert (Szr : esize r < esize (EBinary op l r ln)) by (cbn [esize]; lia).
          assert (Ar : exists fr r', plevel fr (skipn (S k) ladder) ts2 = POk r' rest' [] /\ erase_e r' = erase_e r).
          { destruct (IH r ltac:(lia)) as (Ar & _ & _). apply Ar; auto. }
          destruct Ar as (fr & r' & Hfr & Err).
          assert (Hh2 : hdok (S k) (top :: ts2)) by (apply hdok_op; rewrite Kop; exact Ho).
          assert (Hor2 : esize l < esize e \/ l = e) by (left; destruct Hor as [Hlt| <-]; lia).
          destruct (IHe1 l Szl ltac:(lia) Hor2 Wl ts1 (top :: ts2) HPl Hh2) as (l' & Erl & Hl').
          exists (mk_bin (snd (lvl k)) top l' r'). split.
          * rewrite erase_mk_bin. change (snd (lvl k)) with (level_logical k). rewrite Hlg.
            cbn [erase_e]. rewrite Kop, Erl, Err. reflexivity.
          * intros f a r0 ds Hloop. apply (Hl' (S (f + fr))). rewrite ploop_S.
            assert (Kin : kind_in (tk top) (fst (lvl k)) = true)
              by (apply (level_ops_spec _ _ Hk'); rewrite Kop; exact Ho).
            rewrite Kin. erewrite pbind_nil by (eapply plevel_mono_ok; [exact Hfr|lia]).
            eapply ploop_mono_ok; [exact Hloop|lia].
        + (* logical node of this level *)
          cbn [flat_e] in HP1.
          spa HP1 as mid HPl. spc HP1 as top ts2 Sop.
          assert (Kop : tk top = op) by (apply (sym_of_kind _ _ Sop)).
          assert (Szl : esize l < esize (ELogical op l r)) by (cbn [esize]; lia).
          assert (Szr : esize r < esize (ELogical op l r)) by (cbn [esize]; lia).
          assert (Ar : exists fr r', plevel fr (skipn (S k) ladder) ts2 = POk r' rest' [] /\ erase_e r' = erase_e r).
          { destruct (IH r ltac:(lia)) as (Ar & _ & _). apply Ar; auto. }
          destruct Ar as (fr & r' & Hfr & Err).
          assert (Hh2 : hdok (S k) (top :: ts2)) by (apply hdok_op; rewrite Kop; exact Ho).
          assert (Hor2 : esize l < esize e \/ l = e) by (left; destruct Hor as [Hlt| <-]; lia).
          destruct (IHe1 l Szl ltac:(lia) Hor2 Wl ts1 (top :: ts2) HPl Hh2) as (l' & Erl & Hl').
          exists (mk_bin (snd (lvl k)) top l' r'). split.
          * rewrite erase_mk_bin. change (snd (lvl k)) with (level_logical k). rewrite Hlg.
            cbn [erase_e]. rewrite Kop, Erl, Err. reflexivity.
          * intros f a r0 ds Hloop. apply (Hl' (S (f + fr))). rewrite ploop_S.
            assert (Kin : kind_in (tk top) (fst (lvl k)) = true)
              by (apply (level_ops_spec _ _ Hk'); rewrite Kop; exact Ho).
            rewrite Kin. erewrite pbind_nil by (eapply plevel_mono_ok; [exact Hfr|lia]).
            eapply ploop_mono_ok; [exact Hloop|lia].
        + (* a tree of the next level *)
          assert (Au : exists fu e1', plevel fu (skipn (S k) ladder) ts1 = POk e1' rest' [] /\ erase_e e1' = erase_e e1).
          { destruct Hor as [Hlt| ->].
            - destruct (IH e1 ltac:(lia)) as (Ae & _ & _). apply Ae; auto.
            - apply (IHd (S k)); auto; lia. }
          destruct Au as (fu & e1' & Hfu & Er1). exists e1'. split; [exact Er1|].
          intros f a r ds Hloop. exists (S (f + fu)). rewrite plevel_S, (ladder_skipn k Hk').
          erewrite pbind_nil by (eapply plevel_mono_ok; [exact Hfu|lia]).
          eapply ploop_mono_ok; [exact Hloop|lia]. }
      destruct (LP e (le_n _) (or_intror eq_refl) W ts rest HP (hdok_mono k (S k) rest ltac:(lia) Hh))
        as (e' & Er & He').
      destruct (He' 1 e' rest [] (ploop_stop 0 k e' rest Hk' Hh)) as (f' & Hf').
      exists f', e'. split; assumption. }
  split; [|split; [exact P|]].
  - intros k ts rest Hk W HP Hh. apply (A (nlev - k) k ts rest eq_refl Hk W HP Hh).
  - (* E : full expressions *)
    intros ts rest W HP (Hh0 & Hne).
    assert (Lv : WFk 0 e -> exists f e', pexpr f ts = POk e' rest [] /\ erase_e e' = erase_e e).
    { intros W0. destruct (A (nlev - 0) 0 ts rest eq_refl (Nat.le_0_l _) W0 HP Hh0) as (f & e' & Hf & Er).
      exists (S f), e'. split; [|exact Er]. rewrite pexpr_S. change (skipn 0 ladder) with ladder in Hf.
      rewrite (pbind_nil _ _ _ _ Hf). destruct rest as [|t rest']; [reflexivity|].
      rewrite (tkind_eqb_neq _ _ Hne). reflexivity. }
    pose proof (WFfull_cases e W) as Wc.
    destruct e as [v ln|x ln|e0 ln|op e0 ln|op l r ln|op l r|x nl v ln|a i v ln|o p v ln|c pl args|a i ln|o p ln|es|ps];
      cbv beta iota in Wc; try (apply Lv; exact Wc); clear Lv.
    + (* x = v *)
      cbn [flat_e] in HP. cbn [esize] in Hs.
      spc HP as t1 ts1 S1. spc HP as t2 ts2 S2.
      assert (K2 : tk t2 = TEQUAL) by (apply (sym_of_kind _ _ S2)).
      pose proof (esize_pos v) as Hv.
      destruct (IH (EId x 0%N) ltac:(cbn [esize]; lia)) as (Ai & _ & _).
      destruct (Ai 0 (t1 :: t2 :: ts2) (t2 :: ts2) (Nat.le_0_l _) (WF_id 0 x 0%N)
                   (SymPre_one t1 _ _ S1) (hdok_equal 0 t2 ts2 K2)) as (f1 & e1' & Hf1 & Er1).
      cbn [erase_e] in Er1. destruct e1' as [| y yl| | | | | | | | |ai ii il|oo pp ol| |]; try discriminate Er1. injection Er1 as Ename.
      destruct (IH v ltac:(lia)) as (_ & _ & Ev).
      destruct (Ev ts2 rest Wc HP (conj Hh0 Hne)) as (f2 & v' & Hf2 & Erv).
      exists (S (f1 + f2)), (EAssign y yl v' (tline t2)). split.
      * rewrite pexpr_S. change ladder with (skipn 0 ladder) at 1.
        erewrite pbind_nil by (eapply plevel_mono_ok; [exact Hf1|lia]). cbv beta iota.
        rewrite K2, tkind_eqb_refl.
        erewrite pbind_nil by (eapply pexpr_mono_ok; [exact Hf2|lia]). reflexivity.
      * cbn [erase_e]. rewrite Ename, Erv. reflexivity.
    + (* a[i] = v *)
      destruct Wc as (Wa & Wi & Wv). rewrite flat_arrassign in HP. cbn [esize] in Hs.
      spa HP as mid HPt. spc HP as t2 ts2 S2.
      assert (K2 : tk t2 = TEQUAL) by (apply (sym_of_kind _ _ S2)).
      pose proof (esize_pos v) as Hv.
      destruct (IH (EIndex a i 0%N) ltac:(cbn [esize]; lia)) as (Ai & _ & _).
      destruct (Ai 0 ts (t2 :: ts2) (Nat.le_0_l _) (WF_index 0 a i 0%N Wa Wi) HPt (hdok_equal 0 t2 ts2 K2))
        as (f1 & e1' & Hf1 & Er1).
      cbn [erase_e] in Er1. destruct e1' as [| y yl| | | | | | | | |ai ii il|oo pp ol| |]; try discriminate Er1. injection Er1 as Ea Ei.
      destruct (IH v ltac:(lia)) as (_ & _ & Ev).
      destruct (Ev ts2 rest Wv HP (conj Hh0 Hne)) as (f2 & v' & Hf2 & Erv).
      exists (S (f1 + f2)), (EArrAssign ai ii v' (tline t2)). split.
      * rewrite pexpr_S. change ladder with (skipn 0 ladder) at 1.
        erewrite pbind_nil by (eapply plevel_mono_ok; [exact Hf1|lia]). cbv beta iota.
        rewrite K2, tkind_eqb_refl.
        erewrite pbind_nil by (eapply pexpr_mono_ok; [exact Hf2|lia]). reflexivity.
      * cbn [erase_e]. rewrite Ea, Ei, Erv. reflexivity.
    + (* o.p = v *)
      destruct Wc as (Wo & Wv). rewrite flat_propassign in HP. cbn [esize] in Hs.
      spa HP as mid HPt. spc HP as t2 ts2 S2.
      assert (K2 : tk t2 = TEQUAL) by (apply (sym_of_kind _ _ S2)).
      pose proof (esize_pos v) as Hv.
      destruct (IH (EProp o p 0%N) ltac:(cbn [esize]; lia)) as (Ai & _ & _).
      destruct (Ai 0 ts (t2 :: ts2) (Nat.le_0_l _) (WF_prop 0 o p 0%N Wo) HPt (hdok_equal 0 t2 ts2 K2))
        as (f1 & e1' & Hf1 & Er1).
      cbn [erase_e] in Er1. destruct e1' as [| y yl| | | | | | | | |ai ii il|oo pp ol| |]; try discriminate Er1. injection Er1 as Eo Ep.
      destruct (IH v ltac:(lia)) as (_ & _ & Ev).
      destruct (Ev ts2 rest Wv HP (conj Hh0 Hne)) as (f2 & v' & Hf2 & Erv).
      exists (S (f1 + f2)), (EPropAssign oo pp v' (tline t2)). split.
      * rewrite pexpr_S. change ladder with (skipn 0 ladder) at 1.
        erewrite pbind_nil by (eapply plevel_mono_ok; [exact Hf1|lia]). cbv beta iota.
        rewrite K2, tkind_eqb_refl.
        erewrite pbind_nil by (eapply pexpr_mono_ok; [exact Hf2|lia]). reflexivity.
      * cbn [erase_e]. rewrite Eo, Ep, Erv. reflexivity.
Qed.

End Complete.

(** * C. Completeness of the expression parser

    Remark on the statement.  The task sheet asked for
    [map sym_of ts = flat_e e ++ map sym_of r -> … pexpr f ts = POk e' r []]; that is
    false as written, because [map sym_of] forgets line numbers: [ts] determines the
    rest of the input only up to lines (counter-example: [ts = [1@5; ;@5]],
    [r = [;@7]]).  The true statement fixes the rest as a suffix of the input. *)

Theorem pexpr_complete_gen eofl e :
  WFfull e -> forall pre r, map sym_of pre = flat_e e -> follow_ok r ->
  exists f e', pexpr eofl f (pre ++ r) = POk e' r [] /\ erase_e e' = erase_e e.
Proof.
  intros W pre r Hpre Hf.
  destruct (complete_n eofl (esize e) e (le_n _)) as (_ & _ & E).
  apply (E (pre ++ r) r W).
  - exists pre. split; [reflexivity|exact Hpre].
  - apply follow_hdoke. exact Hf.
Qed.

(** every writing of a ladder-shaped, line-free tree [e], followed by a token that
    cannot continue an expression, is parsed (with enough fuel, without
    diagnostics) into [e] up to line numbers, leaving exactly the rest *)
Theorem pexpr_complete eofl e :
  WFfull e -> erase_e e = e ->
  forall pre r, map sym_of pre = flat_e e -> follow_ok r ->
  exists f e', pexpr eofl f (pre ++ r) = POk e' r [] /\ erase_e e' = e.
Proof.
  intros W He pre r Hpre Hf. destruct (pexpr_complete_gen eofl e W pre r Hpre Hf) as (f & e' & H & Er).
  exists f, e'. split; [exact H|]. rewrite Er. exact He.
Qed.

(** the same for an operand of level [k]; the follow condition is per level: the
    next token is not an operator of a level [>= k] and opens no suffix *)
Theorem plevel_complete eofl k e :
  k <= nlev -> WFk k e ->
  forall pre r, map sym_of pre = flat_e e -> hdok k r ->
  exists f e', plevel eofl f (skipn k ladder) (pre ++ r) = POk e' r [] /\ erase_e e' = erase_e e.
Proof.
  intros Hk W pre r Hpre Hh.
  destruct (complete_n eofl (esize e) e (le_n _)) as (A & _ & _).
  apply (A k (pre ++ r) r Hk W); [|exact Hh].
  exists pre. split; [reflexivity|exact Hpre].
Qed.

(** * E. Uniqueness of the ladder-shaped tree *)

Lemma good_Sym k : plain k = true -> good_sym (Sym k).
Proof. intros H E. inv E. discriminate H. Qed.

Lemma Forall_join_comma (P : tsym -> Prop) (l : list (list tsym)) :
  P (Sym TCOMMA) -> Forall (Forall P) l -> Forall P (join_comma l).
Proof.
  intros Hc. induction 1 as [|s l Hs Hl IH]; [constructor|].
  destruct l as [|s2 l]; [exact Hs|].
  change (join_comma (s :: s2 :: l)) with (s ++ Sym TCOMMA :: join_comma (s2 :: l)).
  apply Forall_app. split; [exact Hs|]. constructor; [exact Hc|exact IH].
Qed.

Lemma WF_good_syms_all :
  (forall e, WFfull e -> Forall good_sym (flat_e e)) /\ (forall k e, WFk k e -> Forall good_sym (flat_e e)).
Proof.
  assert (Hcomma : good_sym (Sym TCOMMA)) by (apply good_Sym; reflexivity).
  assert (Hsym : forall k, plain k = true -> good_sym (Sym k)) by apply good_Sym.
  assert (Hid : forall x, good_sym (SymId x)) by (intros x E; discriminate E).
  assert (H : forall n e, esize e <= n ->
              (WFfull e -> Forall good_sym (flat_e e)) /\ (forall k, WFk k e -> Forall good_sym (flat_e e))).
  { apply WF_ind_size; intros; cbn [flat_e];
      repeat first [ assumption
                   | apply Forall_app; split
                   | apply Forall_cons
                   | apply Forall_nil
                   | apply Hid
                   | apply Hsym; first [reflexivity | eapply op_level_plain; eassumption | apply is_unop_plain; assumption] ].
    - destruct v as [|[|]|x|s]; intros E; discriminate E.
    - apply Forall_join_comma; [exact Hcomma|]. apply Forall_map. assumption.
    - apply Forall_join_comma; [exact Hcomma|]. apply Forall_map. assumption.
    - apply Forall_join_comma; [exact Hcomma|]. apply Forall_forall. intros s Hin.
      apply in_map_iff in Hin. destruct Hin as ([k v] & <- & Hin).
      repeat apply Forall_cons; [apply Hid|apply Hsym; reflexivity|].
      match goal with HF : Forall _ (map snd ps) |- _ => rewrite Forall_forall in HF; apply HF end.
      apply in_map_iff. exists (k, v). split; [reflexivity|exact Hin]. }
  split.
  - intros e. apply (H (esize e) e (le_n _)).
  - intros k e. apply (H (esize e) e (le_n _)).
Qed.

(** two ladder-shaped trees with the same canonical writing are equal up to line numbers *)
Theorem tree_unique_gen e1 e2 :
  WFfull e1 -> WFfull e2 -> flat_e e1 = flat_e e2 -> erase_e e1 = erase_e e2.
Proof.
  intros W1 W2 E.
  pose (pre := map (tok_of_sym 0%N) (flat_e e1)).
  assert (Hpre : map sym_of pre = flat_e e1).
  { apply map_sym_of_tok_of_sym. apply WF_good_syms_all. exact W1. }
  destruct (pexpr_complete_gen 0%N e1 W1 pre [] Hpre I) as (f1 & a1 & H1 & Er1).
  rewrite E in Hpre.
  destruct (pexpr_complete_gen 0%N e2 W2 pre [] Hpre I) as (f2 & a2 & H2 & Er2).
  pose proof (pexpr_mono_ok _ _ (f1 + f2) _ _ _ _ H1 ltac:(lia)) as M1.
  pose proof (pexpr_mono_ok _ _ (f1 + f2) _ _ _ _ H2 ltac:(lia)) as M2.
  rewrite M1 in M2. injection M2 as <-. rewrite <- Er1, <- Er2. reflexivity.
Qed.

(** the ladder-shaped (line-free) tree of a token sequence is unique *)
Theorem tree_unique e1 e2 :
  WFfull e1 -> WFfull e2 -> erase_e e1 = e1 -> erase_e e2 = e2 -> flat_e e1 = flat_e e2 -> e1 = e2.
Proof.
  intros W1 W2 E1 E2 E. rewrite <- E1, <- E2. apply tree_unique_gen; assumption.
Qed.


(** * D. Completeness of the statement parser *)

Fixpoint ssize (s : stmt) : nat :=
  match s with
  | SBlock ss => S (list_sum (map ssize ss))
  | SIf _ t e => S (ssize t + match e with Some e => ssize e | None => 0 end)
  | SWhile _ b => S (ssize b)
  | SFor _ _ _ b => S (ssize b)
  | SFun _ _ body => S (list_sum (map ssize body))
  | _ => 1
  end.

Lemma ssize_in s ss : In s ss -> ssize s <= list_sum (map ssize ss).
Proof. intros H. apply list_sum_in. apply in_map, H. Qed.

Definition first_kind (s : stmt) : tkind :=
  match s with
  | SExpr e => kind_of_sym (first_sym e)
  | SPrint _ => TPRINT
  | SVar _ | SVarList _ => TVAR
  | SBlock _ => TLEFT_BRACE
  | SIf _ _ _ => TIF
  | SWhile _ _ => TWHILE
  | SFor _ _ _ _ => TFOR
  | SBreak _ => TBREAK
  | SContinue _ => TCONTINUE
  | SReturn _ _ => TRETURN
  | SFun _ _ _ => TFUN
  end.

Lemma flat_s_first s : exists x y, flat_s s = x :: y /\ kind_of_sym x = first_kind s.
Proof.
  destruct s; cbn [flat_s first_kind]; try (eexists; eexists; split; reflexivity).
  destruct (flat_first e) as (y & E). rewrite E. eexists; eexists; split; reflexivity.
Qed.

Lemma WFs_cases s : WFs s ->
  match s with
  | SExpr e => WFfull e /\ leftmost_obj e = false
  | SPrint e => WFfull e
  | SVar d => WFd d
  | SVarList ds => 2 <= length ds /\ Forall WFd ds
  | SBlock ss => Forall WFs ss
  | SIf c t None => WFfull c /\ WFs t /\ is_decl t = false
  | SIf c t (Some e) =>
      WFfull c /\ WFs t /\ is_decl t = false /\ open_if t = false /\ WFs e /\ is_decl e = false
  | SWhile c b => WFfull c /\ WFs b /\ is_decl b = false
  | SFor init c inc b => WFinit init /\ WFfull c /\ WFopt inc /\ WFs b /\ is_decl b = false
  | SBreak _ | SContinue _ => True
  | SReturn _ v => WFopt v
  | SFun name ps body => is_reserved name = false /\ length ps <= max_params /\ Forall WFs body
  end.
Proof. intros W. inv W; auto 10. Qed.

Lemma starter_not_kw k : starter_kind k = true ->
  k <> TRIGHT_BRACE /\ k <> TELSE /\ k <> TFUN /\ k <> TVAR /\ k <> TSEMICOLON /\ k <> TRIGHT_PAREN.
Proof. destruct k; intros H; try discriminate H; repeat split; discriminate. Qed.

Lemma stmt_start_props s : WFs s ->
  first_kind s <> TRIGHT_BRACE /\ first_kind s <> TELSE /\
  (is_decl s = false -> first_kind s <> TFUN /\ first_kind s <> TVAR).
Proof.
  intros W. apply WFs_cases in W.
  destruct s; cbn [first_kind is_decl]; try (repeat split; intros; discriminate).
  destruct W as (W & _). apply first_sym_full, starter_not_kw in W. tauto.
Qed.

Lemma first_sym_brace_k e : forall k, WFk k e -> leftmost_obj e = false -> kind_of_sym (first_sym e) <> TLEFT_BRACE.
Proof.
  induction e; intros k W LO; inv W; cbn [first_sym leftmost_obj kind_of_sym] in *; try discriminate; eauto.
  - destruct v as [|[|]|x|s]; discriminate.
  - intros ->. discriminate.
Qed.

Lemma first_sym_brace e : WFfull e -> leftmost_obj e = false -> kind_of_sym (first_sym e) <> TLEFT_BRACE.
Proof.
  intros W LO. inv W; cbn [first_sym leftmost_obj kind_of_sym] in *; try discriminate;
    eapply first_sym_brace_k; eassumption.
Qed.

(** ** Consumed prefixes whose tokens are all on line [L] *)

Definition SymPreL (L : N) (s : list tsym) (ts r : list token) : Prop :=
  exists pre, ts = pre ++ r /\ map sym_of pre = s /\ Forall (fun t => tline t = L) pre.

Lemma SymPreL_SymPre L s ts r : SymPreL L s ts r -> SymPre s ts r.
Proof. intros (pre & E & M & _). exists pre. auto. Qed.

Lemma SymPreL_nil_inv L ts r : SymPreL L [] ts r -> ts = r.
Proof. intros H. apply SymPreL_SymPre in H. apply SymPre_nil_inv, H. Qed.

Lemma SymPreL_cons_inv L x s ts r :
  SymPreL L (x :: s) ts r -> exists t ts', ts = t :: ts' /\ sym_of t = x /\ tline t = L /\ SymPreL L s ts' r.
Proof.
  intros (pre & -> & E & F). destruct pre as [|t pre]; [discriminate|]. simpl in E. inv E.
  apply Forall_cons_iff in F. destruct F as (Lt & F).
  exists t, (pre ++ r). split; [reflexivity|split; [reflexivity|split; [exact Lt|]]]. exists pre. auto.
Qed.

Lemma SymPreL_app_inv L s1 s2 ts r :
  SymPreL L (s1 ++ s2) ts r -> exists mid, SymPreL L s1 ts mid /\ SymPreL L s2 mid r.
Proof.
  intros (pre & -> & E & F). apply map_eq_app in E. destruct E as (p1 & p2 & -> & <- & <-).
  apply Forall_app in F. destruct F as (F1 & F2).
  exists (p2 ++ r). split.
  - exists p1. split; [rewrite app_assoc; reflexivity|auto].
  - exists p2. auto.
Qed.

Tactic Notation "splc" hyp(H) "as" ident(t) ident(ts') ident(St) ident(Lt) :=
  apply SymPreL_cons_inv in H; destruct H as (t & ts' & -> & St & Lt & H).
Tactic Notation "spla" hyp(H) "as" ident(mid) ident(H1) :=
  apply SymPreL_app_inv in H; destruct H as (mid & H1 & H).

(** "with enough fuel, [g] returns [a], the rest [r] and no diagnostics" *)
Definition Ev {A} (g : nat -> pres A) (a : A) (r : list token) : Prop :=
  exists f, forall F, f <= F -> g F = POk a r [].

Section CompleteStmt.
Variable eofl : N.
Variable L : N.   (* the line all tokens are on *)

Notation pexpr := (Parser.pexpr eofl).
Notation pvardecls := (Parser.pvardecls eofl).
Notation pvar := (Parser.pvar eofl).
Notation pexprstmt := (Parser.pexprstmt eofl).
Notation pparams := (Parser.pparams eofl).
Notation pdecl := (Parser.pdecl eofl).
Notation pstmt := (Parser.pstmt eofl).
Notation pblock := (Parser.pblock eofl).
Notation pprogram := (Parser.pprogram eofl).
Notation consume := (Parser.consume eofl).
Notation SymPreL := (SymPreL L).

Ltac pbc K := rewrite (pbind_nil _ _ _ _ (consume_hit eofl _ _ _ _ K)).

Lemma pdecl_stmt f t r : tk t <> TFUN -> tk t <> TVAR -> pdecl (S f) (t :: r) = pstmt f (t :: r).
Proof. intros H1 H2. rewrite pdecl_S. destruct (tk t); try reflexivity; congruence. Qed.

Lemma pstmt_expr f t r :
  starter_kind (tk t) = true -> tk t <> TLEFT_BRACE -> pstmt (S f) (t :: r) = pexprstmt f (t :: r).
Proof. intros H1 H2. rewrite pstmt_S. destruct (tk t); try reflexivity; try discriminate H1; congruence. Qed.

(** an expression clause followed by a token that cannot continue it *)
Lemma expr_clause e ts rest :
  WFfull e -> SymPreL (flat_e e) ts rest -> hdoke rest ->
  exists e', Ev (fun F => pexpr F ts) e' rest /\ erase_e e' = erase_e e.
Proof.
  intros W HP Hh. destruct (complete_n eofl (esize e) e (le_n _)) as (_ & _ & E).
  destruct (E ts rest W (SymPreL_SymPre _ _ _ _ HP) Hh) as (f & e' & Hf & Er).
  exists e'. split; [|exact Er]. exists f. intros F HF. eapply pexpr_mono_ok; [exact Hf|exact HF].
Qed.

(** the first token of an expression clause *)
Lemma expr_first e s ts rest :
  WFfull e -> SymPreL (flat_e e ++ s) ts rest ->
  exists t ts', ts = t :: ts' /\ starter_kind (tk t) = true /\ tk t = kind_of_sym (first_sym e).
Proof.
  intros W HP. destruct (flat_first e) as (y & E). rewrite E in HP. cbn [app] in HP.
  splc HP as t ts' St Lt. exists t, ts'. split; [reflexivity|].
  rewrite (sym_of_kind _ _ St). split; [apply first_sym_full; exact W|reflexivity].
Qed.

(** an optional expression clause, absent iff the next token is [stop] *)
Lemma opt_clause stop v ts tstop rest :
  (stop = TSEMICOLON \/ stop = TRIGHT_PAREN) -> WFopt v ->
  SymPreL (match v with Some e => flat_e e | None => [] end) ts (tstop :: rest) -> tk tstop = stop ->
  exists v', Ev (fun F => if check stop ts then POk None ts []
                          else pbind (pexpr F ts) (fun e r' => POk (Some e) r' [])) v' (tstop :: rest) /\
             option_map erase_e v' = option_map erase_e v.
Proof.
  intros Hstop W HP Ks. destruct v as [e|].
  - assert (Hh : hdoke (tstop :: rest)).
    { apply hdoke_kind. rewrite Ks. destruct Hstop as [->| ->]; reflexivity. }
    destruct (expr_clause e ts (tstop :: rest) W HP Hh) as (e' & (f & Hf) & Er).
    exists (Some e'). split; [|cbn [option_map]; rewrite Er; reflexivity].
    exists f. intros F HF.
    rewrite <- (app_nil_r (flat_e e)) in HP.
    destruct (expr_first e [] ts (tstop :: rest) W HP) as (t0 & ts0 & E0 & S0 & _).
    rewrite E0 in *. apply starter_not_kw in S0.
    rewrite check_miss by (destruct Hstop as [->| ->]; tauto).
    rewrite (pbind_nil _ _ _ _ (Hf F HF)). reflexivity.
  - apply SymPreL_nil_inv in HP. subst ts. exists None. split; [|reflexivity].
    exists 0. intros F _. rewrite (check_hit _ _ _ Ks). reflexivity.
Qed.

(** the declarators of a [ধরি] statement, up to the semicolon *)
Lemma decls_complete : forall ds ts tsc rest l0,
  Forall WFd ds -> ds <> [] -> l0 = L ->
  SymPreL (join_comma (map flat_d ds)) ts (tsc :: rest) -> tk tsc = TSEMICOLON -> tline tsc = L ->
  exists ds', Ev (fun F => pvardecls F l0 ts) ds' (tsc :: rest) /\ map erase_d ds' = map erase_d ds.
Proof.
  induction ds as [|[[x init] ln] ds IH]; intros ts tsc rest l0 W Hne Hl0 HP Ksc Lsc; [congruence|]. subst l0.
  apply Forall_cons_iff in W. destruct W as ((Rx & Wi) & Wds).
  (* the initializer clause, whatever follows ([nx]: a comma or the semicolon, on line L) *)
  assert (Init : forall ts1 nx rest1,
            SymPreL (match init with Some e => Sym TEQUAL :: flat_e e | None => [] end) ts1 (nx :: rest1) ->
            (tk nx = TCOMMA \/ tk nx = TSEMICOLON) ->
            exists init', Ev (fun F => if check TEQUAL ts1
                                       then pbind (pexpr F (tl ts1)) (fun e r => POk (Some e) r [])
                                       else POk None ts1 []) init' (nx :: rest1) /\
                          option_map erase_e init' = option_map erase_e init).
  { intros ts1 nx rest1 HP1 Knx. destruct init as [e|].
    - splc HP1 as teq ts2 Seq Leq. assert (Keq : tk teq = TEQUAL) by (apply (sym_of_kind _ _ Seq)).
      assert (Hh : hdoke (nx :: rest1)) by (apply hdoke_kind; destruct Knx as [->| ->]; reflexivity).
      destruct (expr_clause e ts2 (nx :: rest1) Wi HP1 Hh) as (e' & (f & Hf) & Er).
      exists (Some e'). split; [|cbn [option_map]; rewrite Er; reflexivity].
      exists f. intros F HF. rewrite (check_hit _ _ _ Keq). cbn [tl].
      rewrite (pbind_nil _ _ _ _ (Hf F HF)). reflexivity.
    - apply SymPreL_nil_inv in HP1. subst ts1. exists None. split; [|reflexivity].
      exists 0. intros F _. rewrite check_miss by (destruct Knx as [->| ->]; discriminate). reflexivity. }
  destruct ds as [|d2 ds].
  - cbn [map join_comma flat_d] in HP. splc HP as tn ts1 Sn Ln.
    apply sym_of_SymId in Sn. destruct Sn as (Kn & Lxn).
    destruct (Init ts1 tsc rest HP (or_intror Ksc)) as (init' & (f & Hf) & Eri).
    exists [(x, init', tline tn)]. split; [|cbn [map erase_d]; rewrite Eri; reflexivity].
    exists (S f). intros F HF. destruct F as [|F]; [lia|].
    rewrite pvardecls_S. pbc Kn. rewrite Lxn, Rx.
    rewrite (pbind_nil _ _ _ _ (Hf F ltac:(lia))). cbv zeta.
    unfold peek_line. rewrite Lsc, N.eqb_refl. cbn [negb]. rewrite andb_false_r.
    rewrite check_miss by (rewrite Ksc; discriminate). reflexivity.
  - change (join_comma (map flat_d ((x, init, ln) :: d2 :: ds)))
      with (flat_d (x, init, ln) ++ Sym TCOMMA :: join_comma (map flat_d (d2 :: ds))) in HP.
    cbn [flat_d app] in HP. splc HP as tn ts1 Sn Ln.
    apply sym_of_SymId in Sn. destruct Sn as (Kn & Lxn).
    spla HP as mid HPi. splc HP as tc ts2 Sc Lc.
    assert (Kc : tk tc = TCOMMA) by (apply (sym_of_kind _ _ Sc)).
    destruct (Init ts1 tc ts2 HPi (or_introl Kc)) as (init' & (f1 & Hf1) & Eri).
    destruct (IH ts2 tsc rest L Wds ltac:(discriminate) eq_refl HP Ksc Lsc) as (more & (f2 & Hf2) & Erm).
    exists ((x, init', tline tn) :: more). split; [|cbn [map erase_d] in *; rewrite Eri, Erm; reflexivity].
    exists (S (f1 + f2)). intros F HF. destruct F as [|F]; [lia|].
    rewrite pvardecls_S. pbc Kn. rewrite Lxn, Rx.
    rewrite (pbind_nil _ _ _ _ (Hf1 F ltac:(lia))). cbv zeta.
    unfold peek_line. rewrite Lc, N.eqb_refl. cbn [negb]. rewrite andb_false_r.
    rewrite (check_hit _ _ _ Kc). cbn [tl].
    rewrite (pbind_nil _ _ _ _ (Hf2 F ltac:(lia))). reflexivity.
Qed.

Definition var_stmt (ds : list vdecl) : stmt := match ds with [d] => SVar d | _ => SVarList ds end.

Lemma erase_var_stmt ds' ds :
  map erase_d ds' = map erase_d ds -> erase_s (var_stmt ds') = erase_s (var_stmt ds).
Proof.
  intros E. destruct ds' as [|a [|a2 l']]; destruct ds as [|b [|b2 l]]; try discriminate E.
  - reflexivity.
  - cbn [var_stmt erase_s]. cbn [map] in E. injection E as ->. reflexivity.
  - cbn [var_stmt erase_s]. rewrite E. reflexivity.
Qed.

(** a [ধরি] statement after its keyword *)
Lemma var_complete ds ts rest :
  ds <> [] -> Forall WFd ds ->
  SymPreL (join_comma (map flat_d ds) ++ [Sym TSEMICOLON]) ts rest ->
  exists ds', Ev (fun F => pvar F ts) (var_stmt ds') rest /\ map erase_d ds' = map erase_d ds.
Proof.
  intros Hne W HP. spla HP as mid HPd. splc HP as tsc ts2 Ssc Lsc. apply SymPreL_nil_inv in HP. subst ts2.
  assert (Ksc : tk tsc = TSEMICOLON) by (apply (sym_of_kind _ _ Ssc)).
  assert (Hl0 : peek_line eofl ts = L).
  { destruct ds as [|[[x init] ln] ds]; [congruence|].
    match type of HPd with context [join_comma ?l0] => assert (E : exists y, join_comma l0 = SymId x :: y) end.
    { destruct ds as [|d2 ds]; cbn [map join_comma flat_d]; [eexists; reflexivity|].
      eexists. cbn [app]. reflexivity. }
    destruct E as (y & E). pose proof HPd as HPd'. rewrite E in HPd'.
    apply SymPreL_cons_inv in HPd'. destruct HPd' as (tn & ts1 & -> & _ & Ln & _). exact Ln. }
  destruct (decls_complete ds ts tsc rest (peek_line eofl ts) W Hne Hl0 HPd Ksc Lsc) as (ds' & (f & Hf) & Er).
  exists ds'. split; [|exact Er]. exists f. intros F HF. unfold Parser.pvar.
  rewrite (pbind_nil _ _ _ _ (Hf F HF)). pbc Ksc.
  destruct ds' as [|a [|a2 l']]; reflexivity.
Qed.

(** the parameter list of a function *)
Lemma params_complete : forall ps n ts trp rest,
  ps <> [] -> n + length ps <= max_params ->
  SymPreL (join_comma (map (fun p => [SymId p]) ps)) ts (trp :: rest) -> tk trp = TRIGHT_PAREN ->
  Ev (fun F => pparams F n ts) ps (trp :: rest).
Proof.
  induction ps as [|p ps IH]; intros n ts trp rest Hne Hlen HP Krp; [congruence|].
  assert (Hn : Nat.leb max_params n = false) by (apply Nat.leb_gt; simpl in Hlen; lia).
  destruct ps as [|p2 ps].
  - cbn [map join_comma] in HP. splc HP as tp ts1 Sp Lp. apply SymPreL_nil_inv in HP. subst ts1.
    apply sym_of_SymId in Sp. destruct Sp as (Kp & Lxp).
    exists 1. intros F HF. destruct F as [|F]; [lia|].
    rewrite pparams_S, Hn. pbc Kp. rewrite check_miss by (rewrite Krp; discriminate).
    rewrite Lxp. reflexivity.
  - change (join_comma (map (fun p0 => [SymId p0]) (p :: p2 :: ps)))
      with ([SymId p] ++ Sym TCOMMA :: join_comma (map (fun p0 => [SymId p0]) (p2 :: ps))) in HP.
    cbn [app] in HP. splc HP as tp ts1 Sp Lp. splc HP as tc ts2 Sc Lc.
    apply sym_of_SymId in Sp. destruct Sp as (Kp & Lxp).
    assert (Kc : tk tc = TCOMMA) by (apply (sym_of_kind _ _ Sc)).
    destruct (IH (S n) ts2 trp rest ltac:(discriminate) ltac:(simpl in *; lia) HP Krp) as (f & Hf).
    exists (S f). intros F HF. destruct F as [|F]; [lia|].
    rewrite pparams_S, Hn. pbc Kp. rewrite (check_hit _ _ _ Kc). cbn [tl].
    rewrite (pbind_nil _ _ _ _ (Hf F ltac:(lia))). rewrite Lxp. reflexivity.
Qed.


Definition erase_init (i : option stmt) : option stmt :=
  match i with Some s => Some (erase_s s) | None => None end.

(** the initializer clause of [ফর] *)
Lemma init_clause init ts1 mid1 :
  WFinit init ->
  SymPreL (match init with Some s => flat_s s | None => [Sym TSEMICOLON] end) ts1 mid1 ->
  exists init',
    Ev (fun F => if check TSEMICOLON ts1 then POk None (tl ts1) []
                 else if check TVAR ts1 then pbind (pvar F (tl ts1)) (fun s r' => POk (Some s) r' [])
                 else pbind (pexprstmt F ts1) (fun s r' => POk (Some s) r' [])) init' mid1 /\
    erase_init init' = erase_init init.
Proof.
  intros Wi HP. destruct init as [s|].
  - destruct s as [e| |d|ds| | | | | | | |]; cbn [WFinit] in Wi; try contradiction.
    + (* expression statement *)
      cbn [flat_s] in HP.
      destruct (expr_first e _ _ _ Wi HP) as (t0 & ts0 & E0 & S0 & _).
      spla HP as mid HPe. splc HP as tsc ts2 Ssc Lsc. apply SymPreL_nil_inv in HP. subst ts2.
      assert (Ksc : tk tsc = TSEMICOLON) by (apply (sym_of_kind _ _ Ssc)).
      assert (Hh : hdoke (tsc :: mid1)) by (apply hdoke_kind; rewrite Ksc; reflexivity).
      destruct (expr_clause e ts1 (tsc :: mid1) Wi HPe Hh) as (e' & (f & Hf) & Er).
      exists (Some (SExpr e')). split; [|cbn [erase_init erase_s]; rewrite Er; reflexivity].
      exists f. intros F HF. subst ts1. apply starter_not_kw in S0.
      rewrite check_miss by tauto. rewrite check_miss by tauto.
      unfold Parser.pexprstmt. rewrite (pbind_nil _ _ _ _ (Hf F HF)).
      rewrite (consume_lenient_hit eofl _ _ _ _ Ksc). reflexivity.
    + (* one declarator *)
      cbn [flat_s] in HP. splc HP as tv ts2 Sv Lv.
      assert (Kv : tk tv = TVAR) by (apply (sym_of_kind _ _ Sv)).
      destruct (var_complete [d] ts2 mid1 ltac:(discriminate) (Forall_cons _ Wi (Forall_nil _)) HP)
        as (ds' & (f & Hf) & Er).
      exists (Some (var_stmt ds')). split.
      * exists f. intros F HF. rewrite check_miss by (rewrite Kv; discriminate).
        rewrite (check_hit _ _ _ Kv). cbn [tl]. rewrite (pbind_nil _ _ _ _ (Hf F HF)). reflexivity.
      * cbn [erase_init]. f_equal. apply (erase_var_stmt ds' [d] Er).
    + (* several declarators *)
      destruct Wi as (Hlen & Wds). cbn [flat_s] in HP. splc HP as tv ts2 Sv Lv.
      assert (Kv : tk tv = TVAR) by (apply (sym_of_kind _ _ Sv)).
      assert (Hne : ds <> []) by (intros ->; simpl in Hlen; lia).
      destruct (var_complete ds ts2 mid1 Hne Wds HP) as (ds' & (f & Hf) & Er).
      exists (Some (var_stmt ds')). split.
      * exists f. intros F HF. rewrite check_miss by (rewrite Kv; discriminate).
        rewrite (check_hit _ _ _ Kv). cbn [tl]. rewrite (pbind_nil _ _ _ _ (Hf F HF)). reflexivity.
      * cbn [erase_init]. f_equal. rewrite (erase_var_stmt ds' ds Er).
        destruct ds as [|d1 [|d2 ds0]]; [congruence|simpl in Hlen; lia|reflexivity].
  - splc HP as tsc ts2 Ssc Lsc. apply SymPreL_nil_inv in HP. subst ts2.
    assert (Ksc : tk tsc = TSEMICOLON) by (apply (sym_of_kind _ _ Ssc)).
    exists None. split; [|reflexivity]. exists 0. intros F _.
    rewrite (check_hit _ _ _ Ksc). reflexivity.
Qed.

(** what follows a statement inside a block is not [নাহয়] *)
Lemma block_tail_noelse ss mid rest :
  Forall WFs ss -> SymPreL (concat (map flat_s ss) ++ [Sym TRIGHT_BRACE]) mid rest -> check TELSE mid = false.
Proof.
  intros W HP. destruct ss as [|s2 ss].
  - cbn [map concat app] in HP. splc HP as tcl ts1 Scl Lcl.
    apply check_miss. rewrite (sym_of_kind _ _ Scl). discriminate.
  - apply Forall_cons_iff in W. destruct W as (W2 & _).
    destruct (flat_s_first s2) as (x & y & E & K). cbn [map concat] in HP. rewrite E in HP. cbn [app] in HP.
    splc HP as t0 ts0 S0 L0. apply check_miss. rewrite (sym_of_kind _ _ S0), K.
    apply stmt_start_props in W2. tauto.
Qed.

Definition DeclC (s : stmt) : Prop :=
  forall ts rest, SymPreL (flat_s s) ts rest -> (open_if s = true -> check TELSE rest = false) ->
  exists s', Ev (fun F => pdecl F ts) s' rest /\ erase_s s' = erase_s s.

(** the statements of a block, up to and including the closing brace *)
Lemma block_complete n : (forall s, ssize s <= n -> WFs s -> DeclC s) ->
  forall ss ts rest, list_sum (map ssize ss) <= n -> Forall WFs ss ->
  SymPreL (concat (map flat_s ss) ++ [Sym TRIGHT_BRACE]) ts rest ->
  exists ss', Ev (fun F => pblock F ts) ss' rest /\ map erase_s ss' = map erase_s ss.
Proof.
  intros IHn. induction ss as [|a ss IH]; intros ts rest Hs W HP.
  - cbn [map concat app] in HP. splc HP as tcl ts1 Scl Lcl. apply SymPreL_nil_inv in HP. subst ts1.
    assert (Kcl : tk tcl = TRIGHT_BRACE) by (apply (sym_of_kind _ _ Scl)).
    exists []. split; [|reflexivity]. exists 1. intros F HF. destruct F as [|F]; [lia|].
    rewrite pblock_S, Kcl, tkind_eqb_refl. reflexivity.
  - apply Forall_cons_iff in W. destruct W as (Wa & Wss). simpl in Hs.
    cbn [map concat] in HP. rewrite <- app_assoc in HP.
    destruct (flat_s_first a) as (x & y & Ea & Ka).
    assert (Hfirst : exists t0 ts0, ts = t0 :: ts0 /\ tk t0 = first_kind a).
    { pose proof HP as HP'. rewrite Ea in HP'. cbn [app] in HP'.
      apply SymPreL_cons_inv in HP'. destruct HP' as (t0 & ts0 & E0 & S0 & _).
      exists t0, ts0. split; [exact E0|]. rewrite (sym_of_kind _ _ S0). exact Ka. }
    spla HP as mid HPa.
    pose proof (block_tail_noelse ss mid rest Wss HP) as Hel.
    destruct (IHn a ltac:(lia) Wa ts mid HPa (fun _ => Hel)) as (a' & (f1 & Hf1) & Era).
    destruct (IH mid rest ltac:(lia) Wss HP) as (ss' & (f2 & Hf2) & Erss).
    exists (a' :: ss'). split; [|cbn [map]; rewrite Era, Erss; reflexivity].
    exists (S (f1 + f2)). intros F HF. destruct F as [|F]; [lia|].
    destruct Hfirst as (t0 & ts0 & E0 & K0). subst ts.
    rewrite pblock_S.
    rewrite (tkind_eqb_neq (tk t0) TRIGHT_BRACE) by (rewrite K0; apply stmt_start_props in Wa; tauto).
    rewrite (pbind_nil _ _ _ _ (Hf1 F ltac:(lia))). rewrite (pbind_nil _ _ _ _ (Hf2 F ltac:(lia))).
    reflexivity.
Qed.


Definition StmtC' (s : stmt) : Prop :=
  forall ts rest, SymPreL (flat_s s) ts rest -> (open_if s = true -> check TELSE rest = false) ->
  exists s', Ev (fun F => pstmt F ts) s' rest /\ erase_s s' = erase_s s.

Lemma stmt_complete_n : forall n s, ssize s <= n -> WFs s ->
  (is_decl s = false -> StmtC' s) /\ DeclC s.
Proof.
  induction n as [|n IH]; intros s Hs W. { destruct s; simpl in Hs; lia. }
  assert (IHd : forall s0, ssize s0 <= n -> WFs s0 -> DeclC s0) by (intros s0 H0 W0; apply IH; assumption).
  assert (IHs : forall s0, ssize s0 <= n -> WFs s0 -> is_decl s0 = false -> StmtC' s0)
    by (intros s0 H0 W0; apply IH; assumption).
  pose proof (WFs_cases s W) as Wc.
  assert (PS : is_decl s = false -> StmtC' s).
  { intros Hd ts rest HP Hel.
    destruct s as [e|e|d|ds|ss|c t [el|]|c b|init c inc b|ln|ln|ln v|name ps body];
      try discriminate Hd; cbn [flat_s] in HP.
    - (* expression statement *)
      destruct Wc as (We & Lo).
      destruct (expr_first e _ _ _ We HP) as (t0 & ts0 & E0 & S0 & K0).
      spla HP as mid HPe. splc HP as tsc ts2 Ssc Lsc. apply SymPreL_nil_inv in HP. subst ts2.
      assert (Ksc : tk tsc = TSEMICOLON) by (apply (sym_of_kind _ _ Ssc)).
      assert (Hh : hdoke (tsc :: rest)) by (apply hdoke_kind; rewrite Ksc; reflexivity).
      destruct (expr_clause e ts (tsc :: rest) We HPe Hh) as (e' & (f & Hf) & Er).
      exists (SExpr e'). split; [|cbn [erase_s]; rewrite Er; reflexivity].
      exists (S f). intros F HF. destruct F as [|F]; [lia|]. subst ts.
      rewrite pstmt_expr; [|exact S0|rewrite K0; apply first_sym_brace; assumption].
      unfold Parser.pexprstmt. rewrite (pbind_nil _ _ _ _ (Hf F ltac:(lia))).
      rewrite (consume_lenient_hit eofl _ _ _ _ Ksc). reflexivity.
    - (* print *)
      splc HP as tp ts1 Sp Lp. spla HP as mid HPe. splc HP as tsc ts2 Ssc Lsc.
      apply SymPreL_nil_inv in HP. subst ts2.
      assert (Kp : tk tp = TPRINT) by (apply (sym_of_kind _ _ Sp)).
      assert (Ksc : tk tsc = TSEMICOLON) by (apply (sym_of_kind _ _ Ssc)).
      assert (Hh : hdoke (tsc :: rest)) by (apply hdoke_kind; rewrite Ksc; reflexivity).
      destruct (expr_clause e ts1 (tsc :: rest) Wc HPe Hh) as (e' & (f & Hf) & Er).
      exists (SPrint e'). split; [|cbn [erase_s]; rewrite Er; reflexivity].
      exists (S f). intros F HF. destruct F as [|F]; [lia|].
      rewrite pstmt_S. cbv beta iota. rewrite Kp. cbv beta iota.
      rewrite (pbind_nil _ _ _ _ (Hf F ltac:(lia))).
      rewrite (consume_lenient_hit eofl _ _ _ _ Ksc). reflexivity.
    - (* block *)
      simpl in Hs. splc HP as tlb ts1 Slb Llb.
      assert (Klb : tk tlb = TLEFT_BRACE) by (apply (sym_of_kind _ _ Slb)).
      destruct (block_complete n IHd ss ts1 rest ltac:(lia) Wc HP) as (ss' & (f & Hf) & Er).
      exists (SBlock ss'). split; [|cbn [erase_s]; rewrite Er; reflexivity].
      exists (S f). intros F HF. destruct F as [|F]; [lia|].
      rewrite pstmt_S. cbv beta iota. rewrite Klb. cbv beta iota.
      rewrite (pbind_nil _ _ _ _ (Hf F ltac:(lia))). reflexivity.
    - (* if / else *)
      destruct Wc as (Wcnd & Wt & Dt & Ot & We & De). simpl in Hs.
      splc HP as tif ts1 Sif Lif. splc HP as tlp ts2 Slp Llp. spla HP as mid1 HPc.
      splc HP as trp ts3 Srp Lrp. spla HP as mid2 HPt. splc HP as tel ts4 Sel Lel.
      assert (Kif : tk tif = TIF) by (apply (sym_of_kind _ _ Sif)).
      assert (Klp : tk tlp = TLEFT_PAREN) by (apply (sym_of_kind _ _ Slp)).
      assert (Krp : tk trp = TRIGHT_PAREN) by (apply (sym_of_kind _ _ Srp)).
      assert (Kel : tk tel = TELSE) by (apply (sym_of_kind _ _ Sel)).
      assert (Hh : hdoke (trp :: ts3)) by (apply hdoke_kind; rewrite Krp; reflexivity).
      destruct (expr_clause c ts2 (trp :: ts3) Wcnd HPc Hh) as (c' & (f1 & Hf1) & Erc).
      destruct (IHs t ltac:(lia) Wt Dt ts3 (tel :: ts4) HPt ltac:(intros Habs; congruence))
        as (t' & (f2 & Hf2) & Ert).
      destruct (IHs el ltac:(lia) We De ts4 rest HP Hel) as (el' & (f3 & Hf3) & Ere).
      exists (SIf c' t' (Some el')). split; [|cbn [erase_s]; rewrite Erc, Ert, Ere; reflexivity].
      exists (S (f1 + f2 + f3)). intros F HF. destruct F as [|F]; [lia|].
      rewrite pstmt_S. cbv beta iota. rewrite Kif. cbv beta iota. pbc Klp.
      rewrite (pbind_nil _ _ _ _ (Hf1 F ltac:(lia))). pbc Krp.
      rewrite (pbind_nil _ _ _ _ (Hf2 F ltac:(lia))). rewrite (check_hit _ _ _ Kel). cbn [tl].
      rewrite (pbind_nil _ _ _ _ (Hf3 F ltac:(lia))). reflexivity.
    - (* if without else *)
      destruct Wc as (Wcnd & Wt & Dt). simpl in Hs. rewrite app_nil_r in HP.
      splc HP as tif ts1 Sif Lif. splc HP as tlp ts2 Slp Llp. spla HP as mid1 HPc.
      splc HP as trp ts3 Srp Lrp.
      assert (Kif : tk tif = TIF) by (apply (sym_of_kind _ _ Sif)).
      assert (Klp : tk tlp = TLEFT_PAREN) by (apply (sym_of_kind _ _ Slp)).
      assert (Krp : tk trp = TRIGHT_PAREN) by (apply (sym_of_kind _ _ Srp)).
      assert (Hh : hdoke (trp :: ts3)) by (apply hdoke_kind; rewrite Krp; reflexivity).
      destruct (expr_clause c ts2 (trp :: ts3) Wcnd HPc Hh) as (c' & (f1 & Hf1) & Erc).
      pose proof (Hel eq_refl) as Hne.
      destruct (IHs t ltac:(lia) Wt Dt ts3 rest HP (fun _ => Hne)) as (t' & (f2 & Hf2) & Ert).
      exists (SIf c' t' None). split; [|cbn [erase_s]; rewrite Erc, Ert; reflexivity].
      exists (S (f1 + f2)). intros F HF. destruct F as [|F]; [lia|].
      rewrite pstmt_S. cbv beta iota. rewrite Kif. cbv beta iota. pbc Klp.
      rewrite (pbind_nil _ _ _ _ (Hf1 F ltac:(lia))). pbc Krp.
      rewrite (pbind_nil _ _ _ _ (Hf2 F ltac:(lia))). rewrite Hne. reflexivity.
    - (* while *)
      destruct Wc as (Wcnd & Wb & Db). simpl in Hs.
      splc HP as twh ts1 Swh Lwh. splc HP as tlp ts2 Slp Llp. spla HP as mid1 HPc.
      splc HP as trp ts3 Srp Lrp.
      assert (Kwh : tk twh = TWHILE) by (apply (sym_of_kind _ _ Swh)).
      assert (Klp : tk tlp = TLEFT_PAREN) by (apply (sym_of_kind _ _ Slp)).
      assert (Krp : tk trp = TRIGHT_PAREN) by (apply (sym_of_kind _ _ Srp)).
      assert (Hh : hdoke (trp :: ts3)) by (apply hdoke_kind; rewrite Krp; reflexivity).
      destruct (expr_clause c ts2 (trp :: ts3) Wcnd HPc Hh) as (c' & (f1 & Hf1) & Erc).
      destruct (IHs b ltac:(lia) Wb Db ts3 rest HP Hel) as (b' & (f2 & Hf2) & Erb).
      exists (SWhile c' b'). split; [|cbn [erase_s]; rewrite Erc, Erb; reflexivity].
      exists (S (f1 + f2)). intros F HF. destruct F as [|F]; [lia|].
      rewrite pstmt_S. cbv beta iota. rewrite Kwh. cbv beta iota. pbc Klp.
      rewrite (pbind_nil _ _ _ _ (Hf1 F ltac:(lia))). pbc Krp.
      rewrite (pbind_nil _ _ _ _ (Hf2 F ltac:(lia))). reflexivity.
    - (* for *)
      destruct Wc as (Wi & Wcnd & Winc & Wb & Db). simpl in Hs.
      splc HP as tfor ts1 Sfor Lfor. splc HP as tlp ts2 Slp Llp.
      spla HP as mid1 HPi. spla HP as mid2 HPc. splc HP as tsc ts3 Ssc Lsc.
      spla HP as mid3 HPinc. splc HP as trp ts4 Srp Lrp.
      assert (Kfor : tk tfor = TFOR) by (apply (sym_of_kind _ _ Sfor)).
      assert (Klp : tk tlp = TLEFT_PAREN) by (apply (sym_of_kind _ _ Slp)).
      assert (Ksc : tk tsc = TSEMICOLON) by (apply (sym_of_kind _ _ Ssc)).
      assert (Krp : tk trp = TRIGHT_PAREN) by (apply (sym_of_kind _ _ Srp)).
      destruct (init_clause init ts2 mid1 Wi HPi) as (init' & (f1 & Hf1) & Eri).
      assert (Hh : hdoke (tsc :: ts3)) by (apply hdoke_kind; rewrite Ksc; reflexivity).
      destruct (expr_clause c mid1 (tsc :: ts3) Wcnd HPc Hh) as (c' & (f2 & Hf2) & Erc).
      assert (Hc1 : check TSEMICOLON mid1 = false).
      { rewrite <- (app_nil_r (flat_e c)) in HPc.
        destruct (expr_first c [] mid1 _ Wcnd HPc) as (t0 & ts0 & -> & S0 & _).
        apply starter_not_kw in S0. apply check_miss. tauto. }
      destruct (opt_clause TRIGHT_PAREN inc ts3 trp ts4 (or_intror eq_refl) Winc HPinc Krp)
        as (inc' & (f3 & Hf3) & Erinc).
      destruct (IHs b ltac:(lia) Wb Db ts4 rest HP Hel) as (b' & (f4 & Hf4) & Erb).
      exists (SFor init' c' inc' b'). split.
      + exists (S (f1 + f2 + f3 + f4)). intros F HF. destruct F as [|F]; [lia|].
        rewrite pstmt_S. cbv beta iota. rewrite Kfor. cbv beta iota. pbc Klp.
        rewrite (pbind_nil _ _ _ _ (Hf1 F ltac:(lia))).
        rewrite Hc1. rewrite (pbind_nil _ _ _ _ (Hf2 F ltac:(lia))).
        rewrite (pbind_nil _ _ _ (tsc :: ts3) eq_refl). pbc Ksc.
        rewrite (pbind_nil _ _ _ _ (Hf3 F ltac:(lia))). pbc Krp.
        rewrite (pbind_nil _ _ _ _ (Hf4 F ltac:(lia))). reflexivity.
      + change (erase_s (SFor init' c' inc' b'))
          with (SFor (erase_init init') (erase_e c') (option_map erase_e inc') (erase_s b')).
        change (erase_s (SFor init c inc b))
          with (SFor (erase_init init) (erase_e c) (option_map erase_e inc) (erase_s b)).
        rewrite Eri, Erc, Erinc, Erb. reflexivity.
    - (* break *)
      splc HP as tb ts1 Sb Lb. splc HP as tsc ts2 Ssc Lsc. apply SymPreL_nil_inv in HP. subst ts2.
      assert (Kb : tk tb = TBREAK) by (apply (sym_of_kind _ _ Sb)).
      assert (Ksc : tk tsc = TSEMICOLON) by (apply (sym_of_kind _ _ Ssc)).
      exists (SBreak (tline tsc)). split; [|reflexivity].
      exists 1. intros F HF. destruct F as [|F]; [lia|].
      rewrite pstmt_S. cbv beta iota. rewrite Kb. cbv beta iota. pbc Ksc. reflexivity.
    - (* continue *)
      splc HP as tb ts1 Sb Lb. splc HP as tsc ts2 Ssc Lsc. apply SymPreL_nil_inv in HP. subst ts2.
      assert (Kb : tk tb = TCONTINUE) by (apply (sym_of_kind _ _ Sb)).
      assert (Ksc : tk tsc = TSEMICOLON) by (apply (sym_of_kind _ _ Ssc)).
      exists (SContinue (tline tsc)). split; [|reflexivity].
      exists 1. intros F HF. destruct F as [|F]; [lia|].
      rewrite pstmt_S. cbv beta iota. rewrite Kb. cbv beta iota. pbc Ksc. reflexivity.
    - (* return *)
      splc HP as tr ts1 Sr Lr. spla HP as mid HPv. splc HP as tsc ts2 Ssc Lsc.
      apply SymPreL_nil_inv in HP. subst ts2.
      assert (Kr : tk tr = TRETURN) by (apply (sym_of_kind _ _ Sr)).
      assert (Ksc : tk tsc = TSEMICOLON) by (apply (sym_of_kind _ _ Ssc)).
      destruct (opt_clause TSEMICOLON v ts1 tsc rest (or_introl eq_refl) Wc HPv Ksc) as (v' & (f & Hf) & Erv).
      exists (SReturn (tline tr) v'). split; [|cbn [erase_s]; rewrite Erv; reflexivity].
      exists (S f). intros F HF. destruct F as [|F]; [lia|].
      rewrite pstmt_S. cbv beta iota. rewrite Kr. cbv beta iota.
      rewrite (pbind_nil _ _ _ _ (Hf F ltac:(lia))). pbc Ksc. reflexivity. }
  split; [exact PS|].
  intros ts rest HP Hel.
  destruct (is_decl s) eqn:D.
  - (* declarations *)
    destruct s as [e|e|d|ds|ss|c t el|c b|init c inc b|ln|ln|ln v|name ps body];
      try discriminate D; cbn [flat_s] in HP.
    + (* one declarator *)
      splc HP as tv ts1 Sv Lv. assert (Kv : tk tv = TVAR) by (apply (sym_of_kind _ _ Sv)).
      destruct (var_complete [d] ts1 rest ltac:(discriminate) (Forall_cons _ Wc (Forall_nil _)) HP)
        as (ds' & (f & Hf) & Er).
      exists (var_stmt ds'). split; [|apply (erase_var_stmt ds' [d] Er)].
      exists (S f). intros F HF. destruct F as [|F]; [lia|].
      rewrite pdecl_S. cbv beta iota. rewrite Kv. cbv beta iota. apply Hf. lia.
    + (* several declarators *)
      destruct Wc as (Hlen & Wds).
      splc HP as tv ts1 Sv Lv. assert (Kv : tk tv = TVAR) by (apply (sym_of_kind _ _ Sv)).
      assert (Hne : ds <> []) by (intros ->; simpl in Hlen; lia).
      destruct (var_complete ds ts1 rest Hne Wds HP) as (ds' & (f & Hf) & Er).
      exists (var_stmt ds'). split.
      * exists (S f). intros F HF. destruct F as [|F]; [lia|].
        rewrite pdecl_S. cbv beta iota. rewrite Kv. cbv beta iota. apply Hf. lia.
      * rewrite (erase_var_stmt ds' ds Er).
        destruct ds as [|d1 [|d2 ds0]]; [congruence|simpl in Hlen; lia|reflexivity].
    + (* function *)
      destruct Wc as (Rn & Lps & Wbody). simpl in Hs.
      splc HP as tfun ts1 Sfun Lfun. splc HP as tnm ts2 Snm Lnm. splc HP as tlp ts3 Slp Llp.
      spla HP as mid HPps. splc HP as trp ts4 Srp Lrp. splc HP as tlb ts5 Slb Llb.
      assert (Kfun : tk tfun = TFUN) by (apply (sym_of_kind _ _ Sfun)).
      apply sym_of_SymId in Snm. destruct Snm as (Knm & Lxnm).
      assert (Klp : tk tlp = TLEFT_PAREN) by (apply (sym_of_kind _ _ Slp)).
      assert (Krp : tk trp = TRIGHT_PAREN) by (apply (sym_of_kind _ _ Srp)).
      assert (Klb : tk tlb = TLEFT_BRACE) by (apply (sym_of_kind _ _ Slb)).
      assert (Hps : Ev (fun F => if check TRIGHT_PAREN ts3 then POk [] ts3 [] else pparams F 0 ts3) ps (trp :: tlb :: ts5)).
      { destruct ps as [|p ps].
        - cbn [map join_comma] in HPps. apply SymPreL_nil_inv in HPps. subst ts3.
          exists 0. intros F _. rewrite (check_hit _ _ _ Krp). reflexivity.
        - destruct (params_complete (p :: ps) 0 ts3 trp (tlb :: ts5) ltac:(discriminate) Lps HPps Krp) as (f & Hf).
          exists f. intros F HF.
          assert (E : exists y, join_comma (map (fun p0 => [SymId p0]) (p :: ps)) = SymId p :: y).
          { destruct ps as [|p2 ps]; cbn [map join_comma]; eexists; cbn [app]; reflexivity. }
          destruct E as (y & E). rewrite E in HPps. splc HPps as tp ts0 Sp Lp.
          rewrite check_miss by (rewrite (sym_of_kind _ _ Sp); discriminate). apply Hf. exact HF. }
      destruct Hps as (f1 & Hf1).
      destruct (block_complete n IHd body ts5 rest ltac:(lia) Wbody HP) as (body' & (f2 & Hf2) & Erb).
      exists (SFun name ps body'). split; [|cbn [erase_s]; rewrite Erb; reflexivity].
      exists (S (f1 + f2)). intros F HF. destruct F as [|F]; [lia|].
      rewrite pdecl_S. cbv beta iota. rewrite Kfun. cbv beta iota. pbc Knm. rewrite Lxnm, Rn. pbc Klp.
      rewrite (pbind_nil _ _ _ _ (Hf1 F ltac:(lia))). pbc Krp. pbc Klb.
      rewrite (pbind_nil _ _ _ _ (Hf2 F ltac:(lia))). reflexivity.
  - (* statements *)
    destruct (PS eq_refl ts rest HP Hel) as (s' & (f & Hf) & Er). exists s'. split; [|exact Er].
    exists (S f). intros F HF. destruct F as [|F]; [lia|].
    destruct (flat_s_first s) as (x & y & E & K). rewrite E in HP. splc HP as t0 ts0 S0 L0.
    pose proof (stmt_start_props s W) as (_ & _ & Hnd). specialize (Hnd D).
    rewrite pdecl_stmt; [apply Hf; lia| |]; rewrite (sym_of_kind _ _ S0), K; tauto.
Qed.

End CompleteStmt.

Lemma prog_complete_pre eofl L : forall ss ts,
  Forall WFs ss -> SymPreL L (concat (map flat_s ss)) ts [] ->
  exists ss', Ev (fun F => pprogram eofl F ts) ss' [] /\ map erase_s ss' = map erase_s ss.
Proof.
  induction ss as [|a ss IH]; intros ts W HP.
  - cbn [map concat] in HP. apply SymPreL_nil_inv in HP. subst ts.
    exists []. split; [|reflexivity]. exists 1. intros F HF. destruct F as [|F]; [lia|]. reflexivity.
  - apply Forall_cons_iff in W. destruct W as (Wa & Wss). cbn [map concat] in HP.
    destruct (flat_s_first a) as (x & y & Ea & Ka).
    assert (Hfirst : exists t0 ts0, ts = t0 :: ts0).
    { pose proof HP as HP'. rewrite Ea in HP'. cbn [app] in HP'.
      apply SymPreL_cons_inv in HP'. destruct HP' as (t0 & ts0 & E0 & _). eauto. }
    spla HP as mid HPa.
    assert (Hel : check TELSE mid = false).
    { destruct ss as [|s2 ss].
      - cbn [map concat] in HP. apply SymPreL_nil_inv in HP. subst mid. reflexivity.
      - apply Forall_cons_iff in Wss. destruct Wss as (W2 & _).
        destruct (flat_s_first s2) as (x2 & y2 & E2 & K2). pose proof HP as HP'.
        cbn [map concat] in HP'. rewrite E2 in HP'. cbn [app] in HP'.
        apply SymPreL_cons_inv in HP'. destruct HP' as (t1 & ts1 & -> & S1 & _).
        apply check_miss. rewrite (sym_of_kind _ _ S1), K2. apply stmt_start_props in W2. tauto. }
    destruct (stmt_complete_n eofl L (ssize a) a (le_n _) Wa) as (_ & Da).
    destruct (Da ts mid HPa (fun _ => Hel)) as (a' & (f1 & Hf1) & Era).
    destruct (IH mid Wss HP) as (ss' & (f2 & Hf2) & Erss).
    exists (a' :: ss'). split; [|cbn [map]; rewrite Era, Erss; reflexivity].
    exists (S (f1 + f2)). intros F HF. destruct F as [|F]; [lia|].
    destruct Hfirst as (t0 & ts0 & ->). rewrite pprogram_S.
    rewrite (pbind_nil _ _ _ _ (Hf1 F ltac:(lia))). rewrite (pbind_nil _ _ _ _ (Hf2 F ltac:(lia))).
    reflexivity.
Qed.

(** the [ধরি] line rule ("the token after a declarator is on the line of the first
    token after the keyword") is neutralised by putting all tokens on one line [L]
    (any line, not necessarily that of the end-of-input token) *)
Theorem pprogram_complete_gen eofl L ss :
  Forall WFs ss ->
  forall ts, map sym_of ts = flat_prog ss -> Forall (fun t => tline t = L) ts ->
  exists f ss', pprogram eofl f ts = POk ss' [] [] /\ map erase_s ss' = map erase_s ss.
Proof.
  intros W ts Hts HL.
  destruct (prog_complete_pre eofl L ss ts W) as (ss' & (f & Hf) & Er).
  { exists ts. split; [rewrite app_nil_r; reflexivity|split; [exact Hts|exact HL]]. }
  exists f, ss'. split; [apply Hf; lia|exact Er].
Qed.

(** ** D. every one-line token list whose symbols are the canonical writing of a
    list of well-formed, line-free statements is accepted without diagnostics and
    parsed into these statements (up to line numbers) *)
Theorem pprogram_complete eofl ss :
  Forall WFs ss -> map erase_s ss = ss ->
  forall ts, map sym_of ts = flat_prog ss -> Forall (fun t => tline t = eofl) ts ->
  exists f ss', pprogram eofl f ts = POk ss' [] [] /\ map erase_s ss' = ss.
Proof.
  intros W He ts Hts HL. destruct (pprogram_complete_gen eofl eofl ss W ts Hts HL) as (f & ss' & H & Er).
  exists f, ss'. split; [exact H|]. rewrite Er. exact He.
Qed.

(** [ফর (;;)]: an absent condition is read as the literal [সত্য] on line 0 *)
Lemma for_absent_condition eofl l :
  let tok k := mkTok k [] LNone l in
  pstmt eofl 10 [tok TFOR; tok TLEFT_PAREN; tok TSEMICOLON; tok TSEMICOLON; tok TRIGHT_PAREN;
                 tok TBREAK; tok TSEMICOLON]
  = POk (SFor None (ELit (LitBool true) 0%N) None (SBreak l)) [] [].
Proof. reflexivity. Qed.

(** ** Uniqueness of the statement list of a token sequence *)

Ltac gsyms :=
  repeat first [ assumption
               | apply Forall_nil
               | apply Forall_app; split
               | apply Forall_cons
               | (intros E0; discriminate E0)
               | apply good_Sym; reflexivity ].

Lemma WFfull_good e : WFfull e -> Forall good_sym (flat_e e).
Proof. apply WF_good_syms_all. Qed.

Lemma WFopt_good v : WFopt v -> Forall good_sym (match v with Some e => flat_e e | None => [] end).
Proof. destruct v; [apply WFfull_good|constructor]. Qed.

Lemma WFd_good d : WFd d -> Forall good_sym (flat_d d).
Proof.
  destruct d as [[x init] ln]. intros (_ & W). cbn [flat_d]. destruct init as [e|]; gsyms.
  apply WFfull_good, W.
Qed.

Lemma WFds_good ds : Forall WFd ds -> Forall good_sym (join_comma (map flat_d ds)).
Proof.
  intros W. apply Forall_join_comma; [apply good_Sym; reflexivity|].
  apply Forall_map. eapply Forall_impl; [|exact W]. intros d. apply WFd_good.
Qed.

Lemma concat_good (l : list (list tsym)) : Forall (Forall good_sym) l -> Forall good_sym (concat l).
Proof. induction 1; cbn [concat]; [constructor|apply Forall_app; split; assumption]. Qed.

Lemma WFs_good : forall n s, ssize s <= n -> WFs s -> Forall good_sym (flat_s s).
Proof.
  induction n as [|n IH]; intros s Hs W. { destruct s; simpl in Hs; lia. }
  assert (IHl : forall ss, list_sum (map ssize ss) <= n -> Forall WFs ss -> Forall good_sym (concat (map flat_s ss))).
  { intros ss Hss Wss. apply concat_good. apply Forall_map. apply Forall_forall. intros x Hx.
    rewrite Forall_forall in Wss. apply IH; [|apply Wss, Hx]. pose proof (ssize_in x ss Hx). lia. }
  pose proof (WFs_cases s W) as Wc.
  destruct s as [e|e|d|ds|ss|c t [el|]|c b|init c inc b|ln|ln|ln v|name ps body]; cbn [flat_s]; simpl in Hs.
  - destruct Wc as (We & _). gsyms. apply WFfull_good, We.
  - gsyms. apply WFfull_good, Wc.
  - gsyms. apply WFd_good, Wc.
  - destruct Wc as (_ & Wds). gsyms. apply WFds_good, Wds.
  - gsyms. apply IHl; [lia|exact Wc].
  - destruct Wc as (Wcnd & Wt & _ & _ & We & _). gsyms.
    + apply WFfull_good, Wcnd.
    + apply IH; [lia|exact Wt].
    + apply IH; [lia|exact We].
  - destruct Wc as (Wcnd & Wt & _). gsyms.
    + apply WFfull_good, Wcnd.
    + apply IH; [lia|exact Wt].
  - destruct Wc as (Wcnd & Wb & _). gsyms.
    + apply WFfull_good, Wcnd.
    + apply IH; [lia|exact Wb].
  - destruct Wc as (Wi & Wcnd & Winc & Wb & _). gsyms.
    + destruct init as [s0|]; [|gsyms].
      destruct s0 as [e0| |d0|ds0| | | | | | | |]; cbn [WFinit] in Wi; try contradiction; cbn [flat_s]; gsyms.
      * apply WFfull_good, Wi.
      * apply WFd_good, Wi.
      * apply WFds_good, Wi.
    + apply WFfull_good, Wcnd.
    + apply WFopt_good, Winc.
    + apply IH; [lia|exact Wb].
  - gsyms.
  - gsyms.
  - gsyms. apply WFopt_good, Wc.
  - destruct Wc as (_ & _ & Wb). gsyms.
    + apply Forall_join_comma; [apply good_Sym; reflexivity|]. apply Forall_map.
      apply Forall_forall. intros p _. gsyms.
    + apply IHl; [lia|exact Wb].
Qed.

Lemma WFprog_good ss : Forall WFs ss -> Forall good_sym (flat_prog ss).
Proof.
  intros W. apply concat_good. apply Forall_map. eapply Forall_impl; [|exact W].
  intros s Ws. apply (WFs_good (ssize s) s (le_n _) Ws).
Qed.

Theorem prog_unique_gen ss1 ss2 :
  Forall WFs ss1 -> Forall WFs ss2 -> flat_prog ss1 = flat_prog ss2 -> map erase_s ss1 = map erase_s ss2.
Proof.
  intros W1 W2 E.
  pose (ts := map (tok_of_sym 0%N) (flat_prog ss1)).
  assert (Hts : map sym_of ts = flat_prog ss1) by (apply map_sym_of_tok_of_sym, WFprog_good, W1).
  assert (HL : Forall (fun t => tline t = 0%N) ts).
  { apply Forall_map. apply Forall_forall. intros x _. apply tline_tok_of_sym. }
  destruct (pprogram_complete_gen 0%N 0%N ss1 W1 ts Hts HL) as (f1 & a1 & H1 & Er1).
  rewrite E in Hts.
  destruct (pprogram_complete_gen 0%N 0%N ss2 W2 ts Hts HL) as (f2 & a2 & H2 & Er2).
  pose proof (pprogram_mono_ok _ _ (f1 + f2) _ _ _ _ H1 ltac:(lia)) as M1.
  pose proof (pprogram_mono_ok _ _ (f1 + f2) _ _ _ _ H2 ltac:(lia)) as M2.
  rewrite M1 in M2. injection M2 as <-. rewrite <- Er1, <- Er2. reflexivity.
Qed.

(** two well-formed line-free programs with the same canonical writing are equal *)
Theorem prog_unique ss1 ss2 :
  Forall WFs ss1 -> Forall WFs ss2 -> map erase_s ss1 = ss1 -> map erase_s ss2 = ss2 ->
  flat_prog ss1 = flat_prog ss2 -> ss1 = ss2.
Proof. intros W1 W2 E1 E2 E. rewrite <- E1, <- E2. apply prog_unique_gen; assumption. Qed.

Print Assumptions pexpr_complete.
Print Assumptions tree_unique.
Print Assumptions pprogram_complete.
Print Assumptions prog_unique.
