(** Schedule independence (determinism).

    The model consults the oracle [sched] wherever the Go implementation ranges over a
    Go map (the listing built-ins [NKeys] / [NValues], through [iterate_sorted]):
    [sched (tick s) cell] is the order in which the host happens to enumerate the map.
    The repaired code sorts what it read.  This file proves that, as a consequence, a
    whole run does not depend on the schedule:

    - [objs_sorted]: every object cell is sorted by key; holds initially, preserved by
      all nine evaluator functions ([sorted_all]);
    - [schedule_independent_all]: under two schedules that merely enumerate the cell
      (permutations), all nine functions return *equal* results (value, signal, error,
      and final state including [tick]);
    - corollaries for [run_stmts], [run_source], [run_file], [repl], [main];
    - [literal_inits_in_source_order]: object-literal initialisers are evaluated left to
      right in source order, no oracle involved;
    - [listing_stable]: two listings of an unmodified object give equal element lists. *)
From Borno Require Import Base Num Unicode Token Lexer Ast Parser Value Eval Cli EvalEqs EnvLaws EvalInv HeapLaws.
From Coq Require Import Permutation.
Open Scope N_scope.

(* ================================================================ *)
(** * 1. The invariant: object cells are sorted by key *)

Definition objs_sorted (s : state) : Prop :=
  forall l ps, nth_error (objs s) l = Some ps -> sorted_keys ps.

Lemma objs_sorted_init stdin : objs_sorted (init_state stdin).
Proof. intros l ps H. destruct l; discriminate. Qed.

Lemma get_obj_sorted s l ps : objs_sorted s -> get_obj l s = Some ps -> sorted_keys ps.
Proof. intros H G. exact (H l ps G). Qed.

Lemma objs_sorted_same s s' : objs s' = objs s -> objs_sorted s -> objs_sorted s'.
Proof. intros E H l ps G. rewrite E in G. exact (H l ps G). Qed.

Lemma objs_sorted_emit ev s : objs_sorted s -> objs_sorted (emit ev s).
Proof. apply objs_sorted_same. reflexivity. Qed.
Lemma objs_sorted_set_arr l vs s : objs_sorted s -> objs_sorted (set_arr l vs s).
Proof. apply objs_sorted_same. reflexivity. Qed.
Lemma objs_sorted_set_inp i s : objs_sorted s -> objs_sorted (set_inp i s).
Proof. apply objs_sorted_same. reflexivity. Qed.
Lemma objs_sorted_bump_tick s : objs_sorted s -> objs_sorted (bump_tick s).
Proof. apply objs_sorted_same. reflexivity. Qed.

Lemma alloc_arr_objs vs s l s' : alloc_arr vs s = (l, s') -> objs s' = objs s.
Proof. unfold alloc_arr. intros E. injection E as _ <-. reflexivity. Qed.
Lemma alloc_fun_objs c s l s' : alloc_fun c s = (l, s') -> objs s' = objs s.
Proof. unfold alloc_fun. intros E. injection E as _ <-. reflexivity. Qed.
Lemma alloc_env_objs p s i s' : alloc_env p s = (i, s') -> objs s' = objs s.
Proof. unfold alloc_env. intros E. injection E as _ <-. reflexivity. Qed.

Lemma env_define_objs rho x v s s' : env_define rho x v s = Some s' -> objs s' = objs s.
Proof.
  unfold env_define. destruct (nth_error (envs s) rho) as [[b p]|]; [|discriminate].
  intros E. injection E as <-. reflexivity.
Qed.

Lemma env_assign_objs rho x v s s' : env_assign rho x v s = Some (Some s') -> objs s' = objs s.
Proof.
  intros H. destruct (env_assign_inv _ _ _ _ _ H) as (q & old & _ & D).
  eapply env_define_objs. exact D.
Qed.

Lemma bind_params_objs act : forall ps vs s s', bind_params act ps vs s = Some s' -> objs s' = objs s.
Proof.
  induction ps as [|p ps IH]; intros vs s s' H; simpl in H.
  - injection H as <-. reflexivity.
  - destruct vs as [|v vs]; [injection H as <-; reflexivity|].
    destruct (env_define act p v s) as [s1|] eqn:D; [|discriminate].
    rewrite (IH _ _ _ H). eapply env_define_objs. exact D.
Qed.

Lemma native_fail_objs n args s : objs (native_fail_state n args s) = objs s.
Proof.
  unfold native_fail_state. destruct n; try reflexivity.
  repeat match goal with |- context [match ?x with _ => _ end] => destruct x end; reflexivity.
Qed.

Lemma objs_sorted_native_fail n args s : objs_sorted s -> objs_sorted (native_fail_state n args s).
Proof. apply objs_sorted_same. apply native_fail_objs. Qed.

Lemma nth_error_set_nth_cases {A} (x : A) : forall l n m y,
  nth_error (set_nth n x l) m = Some y -> y = x \/ nth_error l m = Some y.
Proof.
  induction l as [|a l IH]; intros n m y H.
  - destruct n; simpl in H; destruct m; discriminate.
  - destruct n as [|n]; simpl in H.
    + destruct m as [|m]; simpl in H |- *; [injection H as <-; left; reflexivity|right; exact H].
    + destruct m as [|m]; simpl in H |- *; [right; exact H|]. eapply IH. exact H.
Qed.

(** rewriting a cell with a sorted content keeps the invariant *)
Lemma objs_sorted_set_obj l ps s : objs_sorted s -> sorted_keys ps -> objs_sorted (set_obj l ps s).
Proof.
  intros Hs Hp l0 ps0 G. unfold set_obj in G. cbn [objs] in G.
  destruct (nth_error_set_nth_cases _ _ _ _ _ G) as [->|G0]; [exact Hp|exact (Hs l0 ps0 G0)].
Qed.

(** so does allocating a cell with a sorted content *)
Lemma objs_sorted_alloc_obj ps s l s' :
  alloc_obj ps s = (l, s') -> sorted_keys ps -> objs_sorted s -> objs_sorted s'.
Proof.
  unfold alloc_obj. intros E Hp Hs. injection E as _ <-. intros l0 ps0 G. cbn [objs] in G.
  destruct (Nat.lt_ge_cases l0 (length (objs s))) as [Hl|Hl].
  - rewrite nth_error_app1 in G by exact Hl. exact (Hs l0 ps0 G).
  - rewrite nth_error_app2 in G by exact Hl.
    destruct (l0 - length (objs s))%nat as [|k]; simpl in G.
    + injection G as <-. exact Hp.
    + destruct k; discriminate.
Qed.

(** the built-ins: only কি_রিমুভ writes an object cell, and it removes one key of a sorted cell *)
Lemma call_native_sorted libm clock sched n args s v s' :
  objs_sorted s -> call_native libm clock sched n args s = NOk v s' -> objs_sorted s'.
Proof.
  intros Hs H.
  assert (n = NDelete \/ n <> NDelete) as [->|Hn]
    by (destruct n; first [left; reflexivity|right; discriminate]).
  - apply native_delete_inv in H.
    destruct H as (l & key & ps & old & _ & _ & G & _ & -> & _).
    apply objs_sorted_set_obj; [exact Hs|]. apply alist_remove_sorted. eapply get_obj_sorted; eauto.
  - apply objs_sorted_same with s; [|exact Hs]. eapply native_objs_unchanged; eauto.
Qed.

(** solves [objs_sorted s'] by walking back along the equations that produced [s'] *)
Ltac srt :=
  first
    [ assumption
    | match goal with
      | |- objs_sorted (emit _ _) => apply objs_sorted_emit; srt
      | |- objs_sorted (set_arr _ _ _) => apply objs_sorted_set_arr; srt
      | |- objs_sorted (native_fail_state _ _ _) => apply objs_sorted_native_fail; srt
      | G : get_obj ?l ?s0 = Some ?ps |- objs_sorted (set_obj ?l (sorted_put _ _ ?ps) ?s0) =>
          apply objs_sorted_set_obj;
            [srt | apply sorted_put_sorted; apply (get_obj_sorted s0 l ps); [srt|exact G]]
      | E : alloc_env _ ?s0 = (_, ?s) |- objs_sorted ?s =>
          apply (objs_sorted_same s0 s (alloc_env_objs _ _ _ _ E)); srt
      | E : alloc_fun _ ?s0 = (_, ?s) |- objs_sorted ?s =>
          apply (objs_sorted_same s0 s (alloc_fun_objs _ _ _ _ E)); srt
      | E : alloc_arr _ ?s0 = (_, ?s) |- objs_sorted ?s =>
          apply (objs_sorted_same s0 s (alloc_arr_objs _ _ _ _ E)); srt
      | E : alloc_obj (build_obj _) ?s0 = (_, ?s) |- objs_sorted ?s =>
          apply (objs_sorted_alloc_obj _ _ _ _ E (build_obj_sorted _)); srt
      | E : env_define _ _ _ ?s0 = Some ?s |- objs_sorted ?s =>
          apply (objs_sorted_same s0 s (env_define_objs _ _ _ _ _ E)); srt
      | E : env_assign _ _ _ ?s0 = Some (Some ?s) |- objs_sorted ?s =>
          apply (objs_sorted_same s0 s (env_assign_objs _ _ _ _ _ E)); srt
      | E : bind_params _ _ _ ?s0 = Some ?s |- objs_sorted ?s =>
          apply (objs_sorted_same s0 s (bind_params_objs _ _ _ _ _ E)); srt
      | E : call_native _ _ _ _ _ ?s0 = NOk _ ?s |- objs_sorted ?s =>
          eapply call_native_sorted; [ | exact E]; srt
      end ].

(* ================================================================ *)
(** * 2. The invariant is preserved by the evaluator (any schedule) *)

Section Sorted.
Variable libm : N -> f64 -> f64 -> f64.
Variable clock : f64.
Variable sched : N -> list (list N * value) -> list (list N * value).

Notation eval := (eval libm clock sched).
Notation eval_list := (eval_list libm clock sched).
Notation eval_props := (eval_props libm clock sched).
Notation exec := (exec libm clock sched).
Notation exec_var := (exec_var libm clock sched).
Notation exec_vars := (exec_vars libm clock sched).
Notation exec_list := (exec_list libm clock sched).
Notation exec_while := (exec_while libm clock sched).
Notation exec_for := (exec_for libm clock sched).
Notation run_stmts := (run_stmts libm clock sched).

Definition sorted_at (f : nat) : Prop :=
  (forall e rho s, objs_sorted s -> Good objs_sorted (eval f e rho s)) /\
  (forall es rho s, objs_sorted s -> Good objs_sorted (eval_list f es rho s)) /\
  (forall ps rho s, objs_sorted s -> Good objs_sorted (eval_props f ps rho s)) /\
  (forall repl st rho s, objs_sorted s -> Good objs_sorted (exec f repl st rho s)) /\
  (forall d rho s, objs_sorted s -> Good objs_sorted (exec_var f d rho s)) /\
  (forall ds rho s, objs_sorted s -> Good objs_sorted (exec_vars f ds rho s)) /\
  (forall repl ss rho s, objs_sorted s -> Good objs_sorted (exec_list f repl ss rho s)) /\
  (forall repl c b rho s, objs_sorted s -> Good objs_sorted (exec_while f repl c b rho s)) /\
  (forall repl c inc b rho s, objs_sorted s -> Good objs_sorted (exec_for f repl c inc b rho s)).

Lemma Good_bind_sorted {A B} (r : res A) (k : A -> state -> res B) :
  Good objs_sorted r -> (forall a s1, objs_sorted s1 -> Good objs_sorted (k a s1)) ->
  Good objs_sorted (bind r k).
Proof. destruct r; simpl; intros H1 H2; auto. Qed.

Ltac sg_go Hev Hel Hep Hex Hxv Hxvs Hxl Hxw Hxf :=
  repeat first
    [ first [apply Hev|apply Hel|apply Hep|apply Hex|apply Hxv|apply Hxvs|apply Hxl|apply Hxw|apply Hxf]; srt
    | match goal with |- Good _ (bind _ _) => apply Good_bind_sorted; [ | intros ? ? ? ] end
    | match goal with |- Good _ (match ?x with _ => _ end) => destruct x eqn:? end
    | progress unfold lift_ores
    | cbn [Good]; first [exact I | srt] ].

Lemma sorted_all : forall f, sorted_at f.
Proof.
  induction f as [|f IH].
  - unfold sorted_at. repeat split; intros;
      rewrite ?eval_0, ?eval_list_0, ?eval_props_0, ?exec_0, ?exec_var_0, ?exec_vars_0,
        ?exec_list_0, ?exec_while_0, ?exec_for_0; exact I.
  - destruct IH as (Hev & Hel & Hep & Hex & Hxv & Hxvs & Hxl & Hxw & Hxf).
    unfold sorted_at.
    split; [|split; [|split; [|split; [|split; [|split; [|split; [|split]]]]]]].
    + intros e rho s Hs. rewrite eval_S. destruct e; sg_go Hev Hel Hep Hex Hxv Hxvs Hxl Hxw Hxf.
    + intros es rho s Hs. rewrite eval_list_S. destruct es; sg_go Hev Hel Hep Hex Hxv Hxvs Hxl Hxw Hxf.
    + intros ps rho s Hs. rewrite eval_props_S. destruct ps as [|[k e] ps]; sg_go Hev Hel Hep Hex Hxv Hxvs Hxl Hxw Hxf.
    + intros repl st rho s Hs. rewrite exec_S. destruct st; sg_go Hev Hel Hep Hex Hxv Hxvs Hxl Hxw Hxf.
    + intros d rho s Hs. rewrite exec_var_S. destruct d as [[x init] line]; sg_go Hev Hel Hep Hex Hxv Hxvs Hxl Hxw Hxf.
    + intros ds rho s Hs. rewrite exec_vars_S. destruct ds; sg_go Hev Hel Hep Hex Hxv Hxvs Hxl Hxw Hxf.
    + intros repl ss rho s Hs. rewrite exec_list_S. destruct ss; sg_go Hev Hel Hep Hex Hxv Hxvs Hxl Hxw Hxf.
    + intros repl c b rho s Hs. rewrite exec_while_S. sg_go Hev Hel Hep Hex Hxv Hxvs Hxl Hxw Hxf.
    + intros repl c inc b rho s Hs. rewrite exec_for_S. sg_go Hev Hel Hep Hex Hxv Hxvs Hxl Hxw Hxf.
Qed.

(** the nine components, individually *)
Lemma sorted_eval f e rho s : objs_sorted s -> Good objs_sorted (eval f e rho s).
Proof. destruct (sorted_all f) as (H & _). apply H. Qed.
Lemma sorted_eval_list f es rho s : objs_sorted s -> Good objs_sorted (eval_list f es rho s).
Proof. destruct (sorted_all f) as (_ & H & _). apply H. Qed.
Lemma sorted_eval_props f ps rho s : objs_sorted s -> Good objs_sorted (eval_props f ps rho s).
Proof. destruct (sorted_all f) as (_ & _ & H & _). apply H. Qed.
Lemma sorted_exec f repl st rho s : objs_sorted s -> Good objs_sorted (exec f repl st rho s).
Proof. destruct (sorted_all f) as (_ & _ & _ & H & _). apply H. Qed.
Lemma sorted_exec_var f d rho s : objs_sorted s -> Good objs_sorted (exec_var f d rho s).
Proof. destruct (sorted_all f) as (_ & _ & _ & _ & H & _). apply H. Qed.
Lemma sorted_exec_vars f ds rho s : objs_sorted s -> Good objs_sorted (exec_vars f ds rho s).
Proof. destruct (sorted_all f) as (_ & _ & _ & _ & _ & H & _). apply H. Qed.
Lemma sorted_exec_list f repl ss rho s : objs_sorted s -> Good objs_sorted (exec_list f repl ss rho s).
Proof. destruct (sorted_all f) as (_ & _ & _ & _ & _ & _ & H & _). apply H. Qed.
Lemma sorted_exec_while f repl c b rho s : objs_sorted s -> Good objs_sorted (exec_while f repl c b rho s).
Proof. destruct (sorted_all f) as (_ & _ & _ & _ & _ & _ & _ & H & _). apply H. Qed.
Lemma sorted_exec_for f repl c inc b rho s : objs_sorted s -> Good objs_sorted (exec_for f repl c inc b rho s).
Proof. destruct (sorted_all f) as (_ & _ & _ & _ & _ & _ & _ & _ & H). apply H. Qed.

Lemma sorted_run_stmts f repl : forall ss s, objs_sorted s -> Good objs_sorted (run_stmts f repl ss s).
Proof.
  induction ss as [|st ss IH]; intros s Hs; simpl; [exact Hs|].
  apply Good_bind_sorted; [apply sorted_exec; exact Hs|].
  intros sig s1 H1. destruct sig; simpl; try exact H1. apply IH. exact H1.
Qed.

(** every state a program run ends in has sorted object cells *)
Theorem run_objs_sorted f repl ss stdin s' :
  final (run_stmts f repl ss (init_state stdin)) = Some s' -> objs_sorted s'.
Proof.
  apply Good_final. apply sorted_run_stmts. apply objs_sorted_init.
Qed.

End Sorted.

(* ================================================================ *)
(** * 3. Schedule independence *)

Section Det.
Variable libm : N -> f64 -> f64 -> f64.
Variable clock : f64.
Variables sched1 sched2 : N -> list (list N * value) -> list (list N * value).
(** all we know of the host's iteration order: it enumerates the cell *)
Hypothesis perm1 : forall n l, Permutation (sched1 n l) l.
Hypothesis perm2 : forall n l, Permutation (sched2 n l) l.

(** the listing built-ins are the only consumers of the oracle; on a sorted cell the
    sort undoes whatever order the host chose *)
Lemma call_native_det n args s :
  objs_sorted s -> call_native libm clock sched1 n args s = call_native libm clock sched2 n args s.
Proof.
  intros Hs. destruct n; try reflexivity.
  - unfold call_native. destruct args as [|a [|b r]]; try reflexivity. destruct a; try reflexivity.
    destruct (get_obj l s) as [ps|] eqn:G; [|reflexivity].
    rewrite (iterate_sorted_spec sched1 perm1 s ps), (iterate_sorted_spec sched2 perm2 s ps);
      [reflexivity| |]; eapply get_obj_sorted; eauto.
  - unfold call_native. destruct args as [|a [|b r]]; try reflexivity. destruct a; try reflexivity.
    destruct (get_obj l s) as [ps|] eqn:G; [|reflexivity].
    rewrite (iterate_sorted_spec sched1 perm1 s ps), (iterate_sorted_spec sched2 perm2 s ps);
      [reflexivity| |]; eapply get_obj_sorted; eauto.
Qed.

Lemma bind_det {A B} (r1 r2 : res A) (k1 k2 : A -> state -> res B) :
  r1 = r2 -> Good objs_sorted r2 -> (forall a s1, objs_sorted s1 -> k1 a s1 = k2 a s1) ->
  bind r1 k1 = bind r2 k2.
Proof. intros -> G K. destruct r2; simpl in *; auto. Qed.

Definition det_at (f : nat) : Prop :=
  (forall e rho s, objs_sorted s ->
     eval libm clock sched1 f e rho s = eval libm clock sched2 f e rho s) /\
  (forall es rho s, objs_sorted s ->
     eval_list libm clock sched1 f es rho s = eval_list libm clock sched2 f es rho s) /\
  (forall ps rho s, objs_sorted s ->
     eval_props libm clock sched1 f ps rho s = eval_props libm clock sched2 f ps rho s) /\
  (forall repl st rho s, objs_sorted s ->
     exec libm clock sched1 f repl st rho s = exec libm clock sched2 f repl st rho s) /\
  (forall d rho s, objs_sorted s ->
     exec_var libm clock sched1 f d rho s = exec_var libm clock sched2 f d rho s) /\
  (forall ds rho s, objs_sorted s ->
     exec_vars libm clock sched1 f ds rho s = exec_vars libm clock sched2 f ds rho s) /\
  (forall repl ss rho s, objs_sorted s ->
     exec_list libm clock sched1 f repl ss rho s = exec_list libm clock sched2 f repl ss rho s) /\
  (forall repl c b rho s, objs_sorted s ->
     exec_while libm clock sched1 f repl c b rho s = exec_while libm clock sched2 f repl c b rho s) /\
  (forall repl c inc b rho s, objs_sorted s ->
     exec_for libm clock sched1 f repl c inc b rho s = exec_for libm clock sched2 f repl c inc b rho s).

Ltac good_go :=
  repeat first
    [ first [apply sorted_eval|apply sorted_eval_list|apply sorted_eval_props|apply sorted_exec
            |apply sorted_exec_var|apply sorted_exec_vars|apply sorted_exec_list
            |apply sorted_exec_while|apply sorted_exec_for]; srt
    | match goal with |- Good _ (match ?x with _ => _ end) => destruct x eqn:? end
    | cbn [Good]; first [exact I | srt] ].

Ltac det_go Hev Hel Hep Hex Hxv Hxvs Hxl Hxw Hxf :=
  repeat first
    [ first [apply Hev|apply Hel|apply Hep|apply Hex|apply Hxv|apply Hxvs|apply Hxl|apply Hxw|apply Hxf]; srt
    | match goal with |- bind _ _ = bind _ _ => apply bind_det; [ | good_go | intros ? ? ? ] end
    | match goal with
      | |- context [call_native libm clock sched1 ?n ?a ?s] =>
          rewrite (call_native_det n a s) by srt
      end
    | match goal with |- match ?x with _ => _ end = match ?x with _ => _ end => destruct x eqn:? end
    | reflexivity ].

(** Under any two enumerating schedules the nine evaluator functions return equal
    results: same value / signal / error, same final state (the iteration counter
    [tick] included). *)
Theorem schedule_independent_all : forall f, det_at f.
Proof.
  induction f as [|f IH].
  - unfold det_at. repeat split; intros; reflexivity.
  - destruct IH as (Hev & Hel & Hep & Hex & Hxv & Hxvs & Hxl & Hxw & Hxf).
    unfold det_at.
    split; [|split; [|split; [|split; [|split; [|split; [|split; [|split]]]]]]].
    + intros e rho s Hs. rewrite !eval_S. destruct e; det_go Hev Hel Hep Hex Hxv Hxvs Hxl Hxw Hxf.
    + intros es rho s Hs. rewrite !eval_list_S. destruct es; det_go Hev Hel Hep Hex Hxv Hxvs Hxl Hxw Hxf.
    + intros ps rho s Hs. rewrite !eval_props_S. destruct ps as [|[k e] ps]; det_go Hev Hel Hep Hex Hxv Hxvs Hxl Hxw Hxf.
    + intros repl st rho s Hs. rewrite !exec_S. destruct st; det_go Hev Hel Hep Hex Hxv Hxvs Hxl Hxw Hxf.
    + intros d rho s Hs. rewrite !exec_var_S. destruct d as [[x init] line]; det_go Hev Hel Hep Hex Hxv Hxvs Hxl Hxw Hxf.
    + intros ds rho s Hs. rewrite !exec_vars_S. destruct ds; det_go Hev Hel Hep Hex Hxv Hxvs Hxl Hxw Hxf.
    + intros repl ss rho s Hs. rewrite !exec_list_S. destruct ss; det_go Hev Hel Hep Hex Hxv Hxvs Hxl Hxw Hxf.
    + intros repl c b rho s Hs. rewrite !exec_while_S. det_go Hev Hel Hep Hex Hxv Hxvs Hxl Hxw Hxf.
    + intros repl c inc b rho s Hs. rewrite !exec_for_S. det_go Hev Hel Hep Hex Hxv Hxvs Hxl Hxw Hxf.
Qed.

(** the nine components, individually *)
Corollary eval_schedule_independent f e rho s : objs_sorted s ->
  eval libm clock sched1 f e rho s = eval libm clock sched2 f e rho s.
Proof. destruct (schedule_independent_all f) as (H & _). apply H. Qed.
Corollary eval_list_schedule_independent f es rho s : objs_sorted s ->
  eval_list libm clock sched1 f es rho s = eval_list libm clock sched2 f es rho s.
Proof. destruct (schedule_independent_all f) as (_ & H & _). apply H. Qed.
Corollary eval_props_schedule_independent f ps rho s : objs_sorted s ->
  eval_props libm clock sched1 f ps rho s = eval_props libm clock sched2 f ps rho s.
Proof. destruct (schedule_independent_all f) as (_ & _ & H & _). apply H. Qed.
Corollary exec_schedule_independent f repl st rho s : objs_sorted s ->
  exec libm clock sched1 f repl st rho s = exec libm clock sched2 f repl st rho s.
Proof. destruct (schedule_independent_all f) as (_ & _ & _ & H & _). apply H. Qed.
Corollary exec_var_schedule_independent f d rho s : objs_sorted s ->
  exec_var libm clock sched1 f d rho s = exec_var libm clock sched2 f d rho s.
Proof. destruct (schedule_independent_all f) as (_ & _ & _ & _ & H & _). apply H. Qed.
Corollary exec_vars_schedule_independent f ds rho s : objs_sorted s ->
  exec_vars libm clock sched1 f ds rho s = exec_vars libm clock sched2 f ds rho s.
Proof. destruct (schedule_independent_all f) as (_ & _ & _ & _ & _ & H & _). apply H. Qed.
Corollary exec_list_schedule_independent f repl ss rho s : objs_sorted s ->
  exec_list libm clock sched1 f repl ss rho s = exec_list libm clock sched2 f repl ss rho s.
Proof. destruct (schedule_independent_all f) as (_ & _ & _ & _ & _ & _ & H & _). apply H. Qed.
Corollary exec_while_schedule_independent f repl c b rho s : objs_sorted s ->
  exec_while libm clock sched1 f repl c b rho s = exec_while libm clock sched2 f repl c b rho s.
Proof. destruct (schedule_independent_all f) as (_ & _ & _ & _ & _ & _ & _ & H & _). apply H. Qed.
Corollary exec_for_schedule_independent f repl c inc b rho s : objs_sorted s ->
  exec_for libm clock sched1 f repl c inc b rho s = exec_for libm clock sched2 f repl c inc b rho s.
Proof. destruct (schedule_independent_all f) as (_ & _ & _ & _ & _ & _ & _ & _ & H). apply H. Qed.

(** a whole program, from any store with sorted object cells *)
Theorem run_stmts_schedule_independent f repl : forall ss s, objs_sorted s ->
  run_stmts libm clock sched1 f repl ss s = run_stmts libm clock sched2 f repl ss s.
Proof.
  induction ss as [|st ss IH]; intros s Hs; simpl; [reflexivity|].
  apply bind_det; [apply exec_schedule_independent; exact Hs|apply sorted_exec; exact Hs|].
  intros sig s1 H1. destruct sig; try reflexivity. apply IH. exact H1.
Qed.

(** Running the same source on the same input gives the same result -- same output
    events, same final store, same first runtime diagnostic and line, same kind of
    outcome -- whatever the host's map iteration order. *)
Theorem run_source_schedule_independent fuel repl src stdin :
  run_source libm clock sched1 fuel repl src stdin = run_source libm clock sched2 fuel repl src stdin.
Proof.
  unfold run_source. cbv zeta.
  repeat (match goal with
          | |- match ?x with _ => _ end = match ?x with _ => _ end => destruct x
          end; try reflexivity).
  rewrite (run_stmts_schedule_independent fuel repl) by apply objs_sorted_init.
  reflexivity.
Qed.

Corollary run_file_schedule_independent fuel src stdin :
  run_file libm clock sched1 fuel src stdin = run_file libm clock sched2 fuel src stdin.
Proof. unfold run_file. rewrite run_source_schedule_independent. reflexivity. Qed.

Lemma repl_lines_schedule_independent fuel : forall ls,
  repl_lines libm clock sched1 fuel ls = repl_lines libm clock sched2 fuel ls.
Proof.
  induction ls as [|l ls IH]; simpl; [reflexivity|].
  rewrite run_source_schedule_independent, IH. reflexivity.
Qed.

Corollary repl_schedule_independent fuel stdin :
  repl libm clock sched1 fuel stdin = repl libm clock sched2 fuel stdin.
Proof. unfold repl. rewrite repl_lines_schedule_independent. reflexivity. Qed.

(** The process as a whole ([main]: script mode, REPL mode, usage errors): same stdout,
    same stderr items (hence same first diagnostic), same exit status. *)
Theorem main_schedule_independent fuel args fs stdin :
  main libm clock sched1 fuel args fs stdin = main libm clock sched2 fuel args fs stdin.
Proof.
  unfold main. destruct args as [|path [|b r]]; [apply repl_schedule_independent| |reflexivity].
  destruct (str_eqb (filepath_ext path) ext_bn); [|reflexivity].
  destruct (fs path); [apply run_file_schedule_independent|reflexivity].
Qed.

End Det.

(* ================================================================ *)
(** * 4. Object literals: initialisers run in source order, without the oracle *)

Section Literal.
Variable libm : N -> f64 -> f64 -> f64.
Variable clock : f64.
Variable sched : N -> list (list N * value) -> list (list N * value).

Notation eval := (eval libm clock sched).
Notation eval_props := (eval_props libm clock sched).
Notation call_native := (call_native libm clock sched).

(** [props_chain rho s ps kvs s']: the initialisers of [ps] were evaluated one after the
    other in list order, each from the state its predecessor left, giving [kvs], [s'] *)
Inductive props_chain (rho : nat) : state -> list (list N * expr) -> list (list N * value) -> state -> Prop :=
  | pc_nil s : props_chain rho s [] [] s
  | pc_cons s k e r f v s1 kvs s2 :
      eval f e rho s = Ok v s1 -> props_chain rho s1 r kvs s2 ->
      props_chain rho s ((k, e) :: r) ((k, v) :: kvs) s2.

Lemma eval_props_chain : forall f ps rho s kvs s',
  eval_props f ps rho s = Ok kvs s' -> props_chain rho s ps kvs s'.
Proof.
  induction f as [|f IH]; intros ps rho s kvs s' H; [rewrite eval_props_0 in H; discriminate|].
  rewrite eval_props_S in H. destruct ps as [|[k e] r].
  - injection H as <- <-. constructor.
  - bd H as v s1 E1. bd H as kvs1 s2 E2. injection H as <- <-.
    econstructor; [exact E1|]. eapply IH. exact E2.
Qed.

(** An object literal evaluates its initialisers by [eval_props] -- head first, then
    the tail from the head's final state: source order.  The only later step is the
    sorted insertion [build_obj]; [sched] does not occur on the right-hand sides. *)
Theorem literal_inits_in_source_order f ps rho s :
  eval (S f) (EObject ps) rho s =
    (let* (kvs, s1) := eval_props f ps rho s in
     let '(l, s2) := alloc_obj (build_obj kvs) s1 in Ok (VObj l) s2)
  /\ (forall k e r, eval_props (S f) ((k, e) :: r) rho s =
        (let* (v, s1) := eval f e rho s in
         let* (kvs, s2) := eval_props f r rho s1 in Ok ((k, v) :: kvs) s2))
  /\ (forall kvs s1, eval_props f ps rho s = Ok kvs s1 ->
        props_chain rho s ps kvs s1 /\ map fst kvs = map fst ps).
Proof.
  split; [rewrite eval_S; reflexivity|split; [intros k e r; rewrite eval_props_S; reflexivity|]].
  intros kvs s1 H. apply eval_props_chain in H. split; [exact H|].
  induction H as [s0|s0 k e r f0 v s2 kvs0 s3 E C IH]; simpl; [reflexivity|]. rewrite IH. reflexivity.
Qed.

(* ================================================================ *)
(** * 5. Listing an unmodified object twice gives the same elements *)

Hypothesis sched_perm : forall n l, Permutation (sched n l) l.

(** two listings of a cell with the same content, in any two states (any ticks) *)
Theorem listing_stable_general l ps s s' :
  sorted_keys ps -> get_obj l s = Some ps -> get_obj l s' = Some ps ->
  exists l1 s1 l2 s2 els,
    call_native NKeys [VObj l] s = NOk (VArr l1) s1 /\
    call_native NKeys [VObj l] s' = NOk (VArr l2) s2 /\
    get_arr l1 s1 = Some els /\ get_arr l2 s2 = Some els /\
    els = map (fun p => VStr (fst p)) ps.
Proof.
  intros Hp G G'.
  destruct (keys_spec libm clock sched sched_perm l s ps Hp G) as (s1 & _ & C1 & A1).
  destruct (keys_spec libm clock sched sched_perm l s' ps Hp G') as (s2 & _ & C2 & A2).
  exists (length (arrs s)), s1, (length (arrs s')), s2, (map (fun p => VStr (fst p)) ps).
  split; [exact C1|split; [exact C2|split; [exact A1|split; [exact A2|reflexivity]]]].
Qed.

(** two consecutive listings: the second call runs in the state the first one left
    (one more array cell, [tick] bumped); both arrays hold the same elements in that state *)
Theorem listing_stable l s v1 s1 v2 s2 :
  objs_sorted s ->
  call_native NKeys [VObj l] s = NOk v1 s1 ->
  call_native NKeys [VObj l] s1 = NOk v2 s2 ->
  exists l1 l2 els, v1 = VArr l1 /\ v2 = VArr l2 /\ l1 <> l2 /\
    get_arr l1 s1 = Some els /\ get_arr l1 s2 = Some els /\ get_arr l2 s2 = Some els.
Proof.
  intros Hs C1 C2.
  destruct (get_obj l s) as [ps|] eqn:G; [|unfold Eval.call_native in C1; rewrite G in C1; discriminate].
  pose proof (get_obj_sorted _ _ _ Hs G) as Hp.
  destruct (keys_spec libm clock sched sched_perm l s ps Hp G) as (s1' & E1 & C1' & A1).
  rewrite C1' in C1. injection C1 as <- <-.
  assert (G1 : get_obj l s1' = Some ps) by (rewrite E1; exact G).
  destruct (keys_spec libm clock sched sched_perm l s1' ps Hp G1) as (s2' & E2 & C2' & A2).
  rewrite C2' in C2. injection C2 as <- <-.
  exists (length (arrs s)), (length (arrs s1')), (map (fun p => VStr (fst p)) ps).
  assert (L : length (arrs s1') = S (length (arrs s)))
    by (rewrite E1; cbn; rewrite app_length; simpl; lia).
  split; [reflexivity|split; [reflexivity|split; [lia|split; [exact A1|split; [|exact A2]]]]].
  rewrite E2. unfold get_arr in A1 |- *. cbn. rewrite nth_error_app1 by lia. exact A1.
Qed.

End Literal.

(* ================================================================ *)
(** * 6. The drivers' concrete schedule is an enumeration *)

(** [Cli.rotate_sched] (Go's behaviour for small maps: a random start slot) satisfies the
    hypothesis of the theorems above, for every seed *)
Lemma rotate_sched_perm seed n l : Permutation (rotate_sched seed n l) l.
Proof.
  unfold rotate_sched. destruct l as [|p l]; [constructor|].
  set (k := N.to_nat ((seed + n * 7) mod N.of_nat (length (p :: l)))).
  eapply Permutation_trans; [apply Permutation_app_comm|]. rewrite firstn_skipn. apply Permutation_refl.
Qed.

(** the process behaves the same for every seed of the host's map iteration *)
Corollary main_seed_independent libm clock seed1 seed2 fuel args fs stdin :
  main libm clock (rotate_sched seed1) fuel args fs stdin = main libm clock (rotate_sched seed2) fuel args fs stdin.
Proof. apply main_schedule_independent; apply rotate_sched_perm. Qed.

(* ---------------------------------------------------------------- *)
Print Assumptions sorted_all.
Print Assumptions schedule_independent_all.
Print Assumptions run_source_schedule_independent.
Print Assumptions main_schedule_independent.
Print Assumptions literal_inits_in_source_order.
Print Assumptions listing_stable.
