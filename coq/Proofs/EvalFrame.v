(** The main inductive invariant of the evaluator, for every program and every fuel:
    scopes are append-only, parents never change, a scope's domain changes only by
    declarations executed directly in it, array cells keep their length, the heap
    only grows, and well-formedness of the store is preserved -- also in the state
    carried by a run-time error or a crash. *)
From Borno Require Import Base Num Unicode Token Ast Value Eval EvalEqs EnvLaws EvalInv.
Local Open Scope nat_scope.

Section Frame.
Variable libm : N -> f64 -> f64 -> f64.
Variable clock : f64.
Variable sched : N -> list (list N * value) -> list (list N * value).

Notation eval := (eval libm clock sched).
Notation eval_list := (eval_list libm clock sched).
Notation eval_props := (eval_props libm clock sched).
Notation exec := (exec libm clock sched).
Notation exec_var := (exec_var libm clock sched).
Notation exec_vars := (exec_vars libm clock sched).
Notation exec_list := (exec_list libm clock sched).
Notation exec_while := (exec_while libm clock sched).
Notation exec_for := (exec_for libm clock sched).
Notation call_native := (call_native libm clock sched).

(** the invariant at fuel [f].  It is stated for an arbitrary horizon [n] (scopes
    below [n] are the ones being watched) and an arbitrary permission [P] (the scopes
    whose domain may grow): an expression needs no permission at all; a statement run
    in [rho] needs it for [rho] only, and only if [rho] is below the horizon. *)
Definition InvAt (f : nat) : Prop :=
  (forall e rho s n (P : nat -> Prop), wf_state s -> rho < length (envs s) -> n <= length (envs s) ->
     G n P s (eval f e rho s)) /\
  (forall es rho s n (P : nat -> Prop), wf_state s -> rho < length (envs s) -> n <= length (envs s) ->
     G n P s (eval_list f es rho s)) /\
  (forall ps rho s n (P : nat -> Prop), wf_state s -> rho < length (envs s) -> n <= length (envs s) ->
     G n P s (eval_props f ps rho s)) /\
  (forall repl st rho s n (P : nat -> Prop), wf_state s -> rho < length (envs s) -> n <= length (envs s) ->
     (rho < n -> P rho) -> G n P s (exec f repl st rho s)) /\
  (forall d rho s n (P : nat -> Prop), wf_state s -> rho < length (envs s) -> n <= length (envs s) ->
     (rho < n -> P rho) -> G n P s (exec_var f d rho s)) /\
  (forall ds rho s n (P : nat -> Prop), wf_state s -> rho < length (envs s) -> n <= length (envs s) ->
     (rho < n -> P rho) -> G n P s (exec_vars f ds rho s)) /\
  (forall repl ss rho s n (P : nat -> Prop), wf_state s -> rho < length (envs s) -> n <= length (envs s) ->
     (rho < n -> P rho) -> G n P s (exec_list f repl ss rho s)) /\
  (forall repl c b rho s n (P : nat -> Prop), wf_state s -> rho < length (envs s) -> n <= length (envs s) ->
     (rho < n -> P rho) -> G n P s (exec_while f repl c b rho s)) /\
  (forall repl c inc b rho s n (P : nat -> Prop), wf_state s -> rho < length (envs s) -> n <= length (envs s) ->
     (rho < n -> P rho) -> G n P s (exec_for f repl c inc b rho s)).

Ltac facts F W L Ln :=
  pose proof (Fr_wf _ _ _ _ F) as W; pose proof (Fr_len _ _ _ _ F) as L; pose proof (Fr_n _ _ _ _ F) as Ln.

Ltac side := first [assumption | lia | (intros; lia)].

(** a result that ends in the current state *)
Ltac fin := unfold G, Good; first [exact I | apply Fr_refl; [assumption|lia]].

Tactic Notation "gbind" constr(IH) "as" ident(a) ident(s1) ident(E) ident(F) ident(W) ident(L) ident(Ln) :=
  apply G_bind; [apply IH; side | intros a s1 E F; facts F W L Ln].

Lemma alloc_arr_snd vs s l s' : alloc_arr vs s = (l, s') -> s' = snd (alloc_arr vs s).
Proof. intros H. rewrite H. reflexivity. Qed.
Lemma alloc_obj_snd ps s l s' : alloc_obj ps s = (l, s') -> s' = snd (alloc_obj ps s).
Proof. intros H. rewrite H. reflexivity. Qed.
Lemma alloc_fun_snd c s l s' : alloc_fun c s = (l, s') -> s' = snd (alloc_fun c s).
Proof. intros H. rewrite H. reflexivity. Qed.

Lemma inv_all : forall f, InvAt f.
Proof.
  induction f as [|f (IHe & IHl & IHp & IHs & IHv & IHvs & IHss & IHw & IHf)]; unfold InvAt.
  { repeat split; intros; exact I. }
  split; [|split; [|split; [|split; [|split; [|split; [|split; [|split]]]]]]].
  - (* eval *)
    intros e rho s n P W Hr Hn. rewrite eval_S.
    destruct e as [l ln|x ln|e' ln|op e' ln|op l r ln|op l r|x nl ve ln|ae ie ve ln|oe p ve ln|ce pl args|ae ie ln|oe p ln|es|ps];
      cbv beta iota.
    + fin.
    + destruct (env_get rho x s) as [[v|]|]; fin.
    + apply IHe; side.
    + gbind IHe as v s1 E1 F1 W1 L1 N1. unfold lift_ores. destruct (unop op v); fin.
    + gbind IHe as a s1 E1 F1 W1 L1 N1. gbind IHe as b s2 E2 F2 W2 L2 N2.
      unfold lift_ores. destruct (binop libm s2 op a b); fin.
    + gbind IHe as a s1 E1 F1 W1 L1 N1.
      destruct (tkind_eqb op TLOGICAL_OR), (truthy a); try fin; apply IHe; side.
    + gbind IHe as v s1 E1 F1 W1 L1 N1.
      destruct (env_assign rho x v s1) as [[s2|]|] eqn:EA; [|fin|fin].
      unfold G, Good. eapply Fr_assign; eauto.
    + gbind IHe as a s1 E1 F1 W1 L1 N1. gbind IHe as i s2 E2 F2 W2 L2 N2. gbind IHe as v s3 E3 F3 W3 L3 N3.
      destruct a; try fin. destruct (get_arr l s3) as [vs|] eqn:EG; [|fin].
      destruct (index_of vs i) as [[k|]|]; try fin.
      unfold G, Good. apply Fr_set_arr with vs; auto. apply set_nth_length.
    + gbind IHe as o s1 E1 F1 W1 L1 N1. destruct o; try fin.
      gbind IHe as v s2 E2 F2 W2 L2 N2. destruct (get_obj l s2) as [ps|]; [|fin].
      unfold G, Good. apply Fr_set_obj; auto.
    + (* call *)
      gbind IHe as c s1 E1 F1 W1 L1 N1. destruct c; try fin.
      * destruct (get_fun l s1) as [clo|] eqn:EF; [|fin].
        destruct (negb (Nat.eqb (length (c_params clo)) (length args))); [fin|].
        gbind IHl as vs s2 E2 F2 W2 L2 N2.
        assert (Hc : c_env clo < length (envs s2)).
        { destruct W1 as (_ & Wc). unfold get_fun in EF. apply Wc in EF. lia. }
        destruct (alloc_env (Some (c_env clo)) s2) as [act s3] eqn:EA.
        destruct (Fr_alloc_env n P (Some (c_env clo)) s2 act s3 W2 N2 EA) as (F3 & -> & L3).
        { intros q Hq. injection Hq as <-. exact Hc. }
        eapply G_trans; [exact F3|]. facts F3 W3 L3' N3.
        destruct (env_define (length (envs s2)) (c_name clo) (VFun l) s3) as [s4|] eqn:ED; [|fin].
        pose proof (Fr_define n P _ _ _ _ _ W3 N3 ED ltac:(intros; lia)) as F4.
        eapply G_trans; [exact F4|]. facts F4 W4 L4 N4.
        destruct (bind_params (length (envs s2)) (c_params clo) vs s4) as [s5|] eqn:EB; [|fin].
        pose proof (Fr_bind_params n P _ _ _ _ _ W4 N4 EB ltac:(intros; lia)) as F5.
        eapply G_trans; [exact F5|]. facts F5 W5 L5 N5.
        apply G_bind; [apply IHss; side|]. intros sig s6 E6 F6. facts F6 W6 L6 N6. fin.
      * destruct (negb (arity_ok (native_arity n0) (length args))); [fin|].
        gbind IHl as vs s2 E2 F2 W2 L2 N2.
        destruct (call_native n0 vs s2) as [v s3|why|] eqn:EN; unfold G, Good;
          [eapply Fr_call_native; eauto|apply Fr_native_fail; auto|exact I].
    + gbind IHe as a s1 E1 F1 W1 L1 N1. gbind IHe as i s2 E2 F2 W2 L2 N2.
      destruct a; try fin. destruct (get_arr l s2) as [vs|]; [|fin].
      destruct (index_of vs i) as [[k|]|]; try fin. destruct (nth_error vs k); fin.
    + gbind IHe as o s1 E1 F1 W1 L1 N1. destruct o; try fin.
      destruct (get_obj l s1) as [ps|]; [|fin]. destruct (assoc p ps); fin.
    + gbind IHl as vs s1 E1 F1 W1 L1 N1.
      destruct (alloc_arr vs s1) as [l s2] eqn:EA. apply alloc_arr_snd in EA. subst s2.
      unfold G, Good. apply Fr_alloc_arr; auto.
    + gbind IHp as kvs s1 E1 F1 W1 L1 N1.
      destruct (alloc_obj (build_obj kvs) s1) as [l s2] eqn:EA. apply alloc_obj_snd in EA. subst s2.
      unfold G, Good. apply Fr_alloc_obj; auto.
  - (* eval_list *)
    intros es rho s n P W Hr Hn. rewrite eval_list_S. destruct es as [|e r]; [fin|].
    gbind IHe as v s1 E1 F1 W1 L1 N1. gbind IHl as vs s2 E2 F2 W2 L2 N2. fin.
  - (* eval_props *)
    intros ps rho s n P W Hr Hn. rewrite eval_props_S. destruct ps as [|[k e] r]; [fin|].
    gbind IHe as v s1 E1 F1 W1 L1 N1. gbind IHp as kvs s2 E2 F2 W2 L2 N2. fin.
  - (* exec *)
    intros repl st rho s n P W Hr Hn HP. rewrite exec_S.
    destruct st as [e|e|d|ds|ss|c t e|c b|init c inc b|ln|ln|kw ve|name params body]; cbv beta iota.
    + gbind IHe as v s1 E1 F1 W1 L1 N1. destruct repl; [|fin].
      destruct (text_of s1 v); try fin. unfold G, Good. apply Fr_emit; auto.
    + gbind IHe as v s1 E1 F1 W1 L1 N1.
      destruct (text_of s1 v); try fin. unfold G, Good. apply Fr_emit; auto.
    + apply IHv; side.
    + apply IHvs; side.
    + destruct (alloc_env (Some rho) s) as [rho' s1] eqn:EA.
      destruct (Fr_alloc_env n P (Some rho) s rho' s1 W Hn EA) as (F1 & -> & L1).
      { intros q Hq. injection Hq as <-. exact Hr. }
      eapply G_trans; [exact F1|]. facts F1 W1 L1' N1. apply IHss; side.
    + gbind IHe as cv s1 E1 F1 W1 L1 N1.
      destruct (truthy cv); [apply IHs; side|]. destruct e as [e'|]; [apply IHs; side|fin].
    + apply IHw; side.
    + destruct (alloc_env (Some rho) s) as [rho' s1] eqn:EA.
      destruct (Fr_alloc_env n P (Some rho) s rho' s1 W Hn EA) as (F1 & -> & L1).
      { intros q Hq. injection Hq as <-. exact Hr. }
      eapply G_trans; [exact F1|]. facts F1 W1 L1' N1.
      apply G_bind; [destruct init as [i|]; [apply IHs; side|fin]|].
      intros sig s2 E2 F2. facts F2 W2 L2 N2. destruct sig; try fin. apply IHf; side.
    + fin.
    + fin.
    + destruct ve as [e|]; [|fin]. gbind IHe as v s1 E1 F1 W1 L1 N1. fin.
    + destruct (alloc_env (Some rho) s) as [cenv s1] eqn:EA.
      destruct (Fr_alloc_env n P (Some rho) s cenv s1 W Hn EA) as (F1 & -> & L1).
      { intros q Hq. injection Hq as <-. exact Hr. }
      eapply G_trans; [exact F1|]. facts F1 W1 L1' N1.
      destruct (alloc_fun (mkClo name params body (length (envs s))) s1) as [l s2] eqn:EF.
      pose proof (f_equal fst EF) as El. simpl in El. apply alloc_fun_snd in EF.
      assert (F2 : Fr n P s1 s2).
      { rewrite EF. apply Fr_alloc_fun; auto. simpl. lia. }
      eapply G_trans; [exact F2|]. facts F2 W2 L2 N2.
      destruct (env_define rho name (VFun l) s2) as [s3|] eqn:ED; [|fin].
      unfold G, Good. eapply Fr_define; eauto.
  - (* exec_var *)
    intros d rho s n P W Hr Hn HP. rewrite exec_var_S. destruct d as [[x init] ln].
    apply G_bind; [destruct init as [e|]; [apply IHe; side|fin]|].
    intros v s1 E1 F1. facts F1 W1 L1 N1.
    destruct (env_get_here rho x s1) as [[old|]|]; [fin| |fin].
    destruct (env_define rho x v s1) as [s2|] eqn:ED; [|fin].
    unfold G, Good. eapply Fr_define; eauto.
  - (* exec_vars *)
    intros ds rho s n P W Hr Hn HP. rewrite exec_vars_S. destruct ds as [|d r]; [fin|].
    gbind IHv as sg s1 E1 F1 W1 L1 N1. apply IHvs; side.
  - (* exec_list *)
    intros repl ss rho s n P W Hr Hn HP. rewrite exec_list_S. destruct ss as [|st r]; [fin|].
    gbind IHs as sg s1 E1 F1 W1 L1 N1. destruct sg; try fin. apply IHss; side.
  - (* exec_while *)
    intros repl c b rho s n P W Hr Hn HP. rewrite exec_while_S.
    gbind IHe as cv s1 E1 F1 W1 L1 N1. destruct (truthy cv); [|fin].
    gbind IHs as sg s2 E2 F2 W2 L2 N2. destruct sg; try fin; apply IHw; side.
  - (* exec_for *)
    intros repl c inc b rho s n P W Hr Hn HP. rewrite exec_for_S.
    gbind IHe as cv s1 E1 F1 W1 L1 N1. destruct (truthy cv); [|fin].
    gbind IHs as sg s2 E2 F2 W2 L2 N2.
    destruct sg; try fin;
      (apply G_bind; [destruct inc as [i|]; [apply IHe; side|fin]|];
       intros v3 s3 E3 F3; facts F3 W3 L3 N3; apply IHf; side).
Qed.

(* ---------------------------------------------------------------- *)
(** ** the theorems, in inversion form *)

Definition here (rho : nat) : nat -> Prop := fun i => i = rho.
Definition nowhere : nat -> Prop := fun _ : nat => False.

(** what [Fr] says when the horizon is the whole of [s]: scopes are append-only; every
    scope of [s] keeps its parent; its domain can only have grown at the end, and
    only if [P] allows; array cells keep their length, object cells and closures
    only grow in number, closures are never changed; [s'] is well-formed. *)
Definition framed (P : nat -> Prop) (s s' : state) : Prop :=
  length (envs s) <= length (envs s') /\
  (forall i, i < length (envs s) ->
     epar s' i = epar s i /\ (exists ext, edom s' i = edom s i ++ ext) /\ (~ P i -> edom s' i = edom s i)) /\
  heap_ext s s' /\ wf_state s'.

Lemma Fr_framed P s s' : Fr (length (envs s)) P s s' <-> framed P s s'.
Proof.
  unfold Fr, frameB, framed. split.
  - intros ((_ & A & B) & C & D). auto.
  - intros (A & B & C & D). auto.
Qed.

Theorem eval_frame_final f e rho s s' :
  wf_state s -> rho < length (envs s) -> final (eval f e rho s) = Some s' -> framed nowhere s s'.
Proof.
  intros W Hr H. destruct (inv_all f) as (IH & _).
  pose proof (IH e rho s (length (envs s)) nowhere W Hr (le_n _)) as HG.
  unfold G in HG. rewrite Good_final in HG. apply Fr_framed. apply HG. exact H.
Qed.

Theorem eval_list_frame_final f es rho s s' :
  wf_state s -> rho < length (envs s) -> final (eval_list f es rho s) = Some s' -> framed nowhere s s'.
Proof.
  intros W Hr H. destruct (inv_all f) as (_ & IH & _).
  pose proof (IH es rho s (length (envs s)) nowhere W Hr (le_n _)) as HG.
  unfold G in HG. rewrite Good_final in HG. apply Fr_framed. apply HG. exact H.
Qed.

Theorem exec_frame_final f repl st rho s s' :
  wf_state s -> rho < length (envs s) -> final (exec f repl st rho s) = Some s' -> framed (here rho) s s'.
Proof.
  intros W Hr H. destruct (inv_all f) as (_ & _ & _ & IH & _).
  pose proof (IH repl st rho s (length (envs s)) (here rho) W Hr (le_n _) (fun _ => eq_refl)) as HG.
  unfold G in HG. rewrite Good_final in HG. apply Fr_framed. apply HG. exact H.
Qed.

Theorem exec_list_frame_final f repl ss rho s s' :
  wf_state s -> rho < length (envs s) -> final (exec_list f repl ss rho s) = Some s' -> framed (here rho) s s'.
Proof.
  intros W Hr H. destruct (inv_all f) as (_ & _ & _ & _ & _ & _ & IH & _).
  pose proof (IH repl ss rho s (length (envs s)) (here rho) W Hr (le_n _) (fun _ => eq_refl)) as HG.
  unfold G in HG. rewrite Good_final in HG. apply Fr_framed. apply HG. exact H.
Qed.

(** B. The frame theorem for statements.  If [exec] ends in [s'] -- normally, with a
    run-time error, or with a crash -- then every scope of [s] still exists in [s'] with
    the same parent and the same domain, except that [rho] itself may have gained
    names at the end; the heap has only grown; and [s'] is well-formed. *)
Theorem exec_frame f repl st rho s sig s' :
  wf_state s -> rho < length (envs s) -> exec f repl st rho s = Ok sig s' ->
  length (envs s) <= length (envs s') /\
  (forall i, i < length (envs s) ->
     epar s' i = epar s i /\ (exists ext, edom s' i = edom s i ++ ext) /\ (i <> rho -> edom s' i = edom s i)) /\
  heap_ext s s' /\ wf_state s'.
Proof. intros W Hr H. apply (exec_frame_final f repl st rho s s' W Hr). rewrite H. reflexivity. Qed.

Theorem exec_frame_err f repl st rho s e l s' :
  wf_state s -> rho < length (envs s) -> exec f repl st rho s = Err e l s' ->
  length (envs s) <= length (envs s') /\
  (forall i, i < length (envs s) ->
     epar s' i = epar s i /\ (exists ext, edom s' i = edom s i ++ ext) /\ (i <> rho -> edom s' i = edom s i)) /\
  heap_ext s s' /\ wf_state s'.
Proof. intros W Hr H. apply (exec_frame_final f repl st rho s s' W Hr). rewrite H. reflexivity. Qed.

Theorem exec_frame_crash f repl st rho s s' :
  wf_state s -> rho < length (envs s) -> exec f repl st rho s = Crash s' ->
  length (envs s) <= length (envs s') /\
  (forall i, i < length (envs s) ->
     epar s' i = epar s i /\ (exists ext, edom s' i = edom s i ++ ext) /\ (i <> rho -> edom s' i = edom s i)) /\
  heap_ext s s' /\ wf_state s'.
Proof. intros W Hr H. apply (exec_frame_final f repl st rho s s' W Hr). rewrite H. reflexivity. Qed.

(** The frame theorem for expressions: no existing scope's parent or domain changes
    at all -- a call runs its body in a fresh activation, and a function body can only
    declare into its own activation. *)
Theorem eval_frame f e rho s s' :
  wf_state s -> rho < length (envs s) ->
  (exists v, eval f e rho s = Ok v s') \/ (exists er l, eval f e rho s = Err er l s') \/ eval f e rho s = Crash s' ->
  length (envs s) <= length (envs s') /\
  (forall i, i < length (envs s) -> epar s' i = epar s i /\ edom s' i = edom s i) /\
  heap_ext s s' /\ wf_state s'.
Proof.
  intros W Hr H.
  assert (Hf : final (eval f e rho s) = Some s').
  { destruct H as [[v H]|[[er [l H]]|H]]; rewrite H; reflexivity. }
  destruct (eval_frame_final f e rho s s' W Hr Hf) as (A & B & C & D).
  split; [exact A|split; [|split; [exact C|exact D]]].
  intros i Hi. destruct (B i Hi) as (b1 & _ & b3). split; [exact b1|]. apply b3. intros [].
Qed.

(** The whole program: [run_stmts] from any well-formed store *)
Theorem run_stmts_frame f repl ss : forall s s',
  wf_state s -> top_env < length (envs s) -> final (run_stmts libm clock sched f repl ss s) = Some s' ->
  framed (here top_env) s s'.
Proof.
  induction ss as [|st r IH]; intros s s' W Hr H; cbn [run_stmts] in H.
  - injection H as <-. apply Fr_framed. apply Fr_refl; auto.
  - destruct (exec f repl st top_env s) as [sig s1|e l s1| | |s1] eqn:E; cbn [bind] in H; try discriminate.
    + assert (F1 : framed (here top_env) s s1) by (apply (exec_frame_final f repl st top_env s s1 W Hr); rewrite E; reflexivity).
      apply Fr_framed in F1.
      assert (F2 : Fr (length (envs s)) (here top_env) s1 s').
      { pose proof (Fr_wf _ _ _ _ F1) as W1. pose proof (Fr_len _ _ _ _ F1) as L1.
        destruct sig; cbn [final] in H; try (injection H as <-; apply Fr_refl; [exact W1|lia]).
        eapply Fr_shrink; [apply Fr_framed; apply IH; [exact W1|lia|exact H]|lia|auto]. }
      apply Fr_framed. eapply Fr_trans; eauto.
    + injection H as <-. apply (exec_frame_final f repl st top_env s s1 W Hr). rewrite E. reflexivity.
    + injection H as <-. apply (exec_frame_final f repl st top_env s s1 W Hr). rewrite E. reflexivity.
Qed.

(* ---------------------------------------------------------------- *)
(** ** corollaries *)

(** A block shadows; it never adds a name to, or removes one from, an enclosing (or
    any other existing) scope, however it ends. *)
Theorem block_never_modifies_outer_domains f repl ss rho s s' :
  wf_state s -> rho < length (envs s) -> final (exec f repl (SBlock ss) rho s) = Some s' ->
  forall i, i < length (envs s) -> edom s' i = edom s i /\ epar s' i = epar s i.
Proof.
  intros W Hr H i Hi. destruct f as [|f]; [discriminate|]. rewrite exec_S in H.
  destruct (alloc_env (Some rho) s) as [rho' s1] eqn:EA.
  destruct (Fr_alloc_env (length (envs s)) nowhere (Some rho) s rho' s1 W (le_n _) EA) as (F1 & -> & L1).
  { intros q Hq. injection Hq as <-. exact Hr. }
  destruct (inv_all f) as (_ & _ & _ & _ & _ & _ & IH & _).
  pose proof (IH repl ss (length (envs s)) s1 (length (envs s)) nowhere (Fr_wf _ _ _ _ F1)
                ltac:(lia) ltac:(lia) ltac:(intros; lia)) as HG.
  unfold G in HG. rewrite Good_final in HG. specialize (HG s' H).
  destruct (Fr_trans _ _ _ _ _ F1 HG) as ((_ & _ & B) & _).
  destruct (B i Hi) as (b1 & _ & b3). split; [apply b3; intros []|exact b1].
Qed.

(** The scope a block allocates is fresh: its id is [length (envs s)], so no scope and no
    closure of [s] refers to it; it is a child of [rho]; and when the block has ended it
    is not on the chain of [rho] (nor of any other scope of [s]): what the block
    declared cannot be reached by name any more. *)
Theorem block_scope_is_fresh f repl ss rho s s' :
  wf_state s -> rho < length (envs s) -> final (exec (S f) repl (SBlock ss) rho s) = Some s' ->
  let b := length (envs s) in
  exec (S f) repl (SBlock ss) rho s = exec_list f repl ss b (snd (alloc_env (Some rho) s)) /\
  (forall i bi p, nth_error (envs s) i = Some (bi, Some p) -> p < b) /\
  (forall l c, nth_error (funs s) l = Some c -> c_env c < b) /\
  epar s' b = Some (Some rho) /\
  (forall i, i < b -> forall l, chain s' i l -> ~ In b l).
Proof.
  intros W Hr H b.
  pose proof (exec_frame_final (S f) repl (SBlock ss) rho s s' W Hr H) as (_ & _ & _ & (Wf' & _)).
  rewrite exec_S in H. rewrite exec_S.
  destruct (alloc_env (Some rho) s) as [rho' s1] eqn:EA. cbn [snd].
  destruct (alloc_env_fresh _ _ _ _ EA) as (Eb & Hnew & _ & Hl & _). subst rho'. fold b in Hnew, H |- *.
  destruct (Fr_alloc_env b nowhere (Some rho) s b s1 W (le_n _) EA) as (F1 & _ & _).
  { intros q Hq. injection Hq as <-. exact Hr. }
  split; [reflexivity|split; [|split; [|split]]].
  - intros i bi p Hi. destruct W as (W1 & _). pose proof (W1 _ _ _ Hi). apply nth_error_lt in Hi. unfold b. lia.
  - intros l c Hc. destruct W as (_ & W2). eapply W2; eauto.
  - destruct (exec_list_frame_final f repl ss b s1 s' (Fr_wf _ _ _ _ F1) ltac:(lia) H) as (_ & B & _).
    destruct (B b ltac:(lia)) as (b1 & _). rewrite b1. unfold epar. rewrite Hnew. reflexivity.
  - intros i Hi l C Hin. pose proof (chain_le _ _ _ Wf' C _ Hin). lia.
Qed.

(** [SFor] allocates exactly one scope, a child of [rho]; the initializer runs in it and
    so does the whole loop ([exec_for_S]: condition, body and increment all run in the
    environment [exec_for] is given). *)
Theorem for_scope_shared f repl init c inc b rho s :
  let rho' := length (envs s) in
  let s1 := snd (alloc_env (Some rho) s) in
  nth_error (envs s1) rho' = Some ([], Some rho) /\
  length (envs s1) = S (length (envs s)) /\
  exec (S f) repl (SFor init c inc b) rho s =
    bind (match init with Some i => exec f repl i rho' s1 | None => Ok SigNone s1 end)
      (fun sig s2 => match sig with SigNone => exec_for f repl c inc b rho' s2 | _ => Ok sig s2 end).
Proof.
  intros rho' s1.
  destruct (alloc_env_fresh (Some rho) s rho' s1 eq_refl) as (_ & Hnew & _ & Hl & _).
  split; [exact Hnew|split; [exact Hl|]]. rewrite exec_S. reflexivity.
Qed.

(** the state and environment a user function's body starts from: a function of the
    store after the arguments, the closure, its location and the argument values --
    the caller's environment does not occur *)
Definition call_start (s2 : state) (clo : closure) (l : nat) (vs : list value) : option (nat * state) :=
  let '(act, s3) := alloc_env (Some (c_env clo)) s2 in
  match env_define act (c_name clo) (VFun l) s3 with
  | Some s4 =>
      match bind_params act (c_params clo) vs s4 with
      | Some s5 => Some (act, s5)
      | None => None
      end
  | None => None
  end.

Lemma bind_params_some act : forall ps vs s,
  act < length (envs s) -> exists s', bind_params act ps vs s = Some s' /\ length (envs s') = length (envs s) /\
    (forall i, i <> act -> nth_error (envs s') i = nth_error (envs s) i) /\ epar s' act = epar s act.
Proof.
  induction ps as [|p ps IH]; intros vs s Ha; simpl.
  - exists s. auto.
  - destruct vs as [|v vs]; [exists s; auto|].
    destruct (env_define_some act p v s Ha) as [s1 D]. rewrite D.
    destruct (define_only_current _ _ _ _ _ D) as (_ & _ & Ho & _ & Hp & Hl & _).
    destruct (IH vs s1 ltac:(lia)) as (s' & B & Hl' & Ho' & Hp').
    exists s'. split; [exact B|split; [lia|split]].
    + intros i Hi. rewrite (Ho' i Hi). apply Ho. exact Hi.
    + rewrite Hp'. apply Hp.
Qed.

Lemma call_start_some s2 clo l vs :
  exists s5, call_start s2 clo l vs = Some (length (envs s2), s5) /\
    epar s5 (length (envs s2)) = Some (Some (c_env clo)) /\
    (forall i, i < length (envs s2) -> nth_error (envs s5) i = nth_error (envs s2) i) /\
    length (envs s5) = S (length (envs s2)).
Proof.
  unfold call_start. destruct (alloc_env (Some (c_env clo)) s2) as [act s3] eqn:EA.
  destruct (alloc_env_fresh _ _ _ _ EA) as (-> & Hnew & Hold & Hl & _).
  destruct (env_define_some (length (envs s2)) (c_name clo) (VFun l) s3 ltac:(lia)) as [s4 D]. rewrite D.
  destruct (define_only_current _ _ _ _ _ D) as (_ & _ & Ho & _ & Hp & Hl4 & _).
  destruct (bind_params_some (length (envs s2)) (c_params clo) vs s4 ltac:(lia)) as (s5 & B & Hl5 & Ho5 & Hp5).
  rewrite B. exists s5. split; [reflexivity|split; [|split; [|lia]]].
  - rewrite Hp5, Hp. unfold epar. rewrite Hnew. reflexivity.
  - intros i Hi. rewrite (Ho5 i ltac:(lia)), (Ho i ltac:(lia)). apply Hold. exact Hi.
Qed.

(** A call of a user function runs the body in a fresh activation [act] whose parent is
    the scope the closure captured, whatever the caller's environment is. *)
Theorem call_activation_chain f ce pline args rho s l s1 clo vs s2 :
  eval f ce rho s = Ok (VFun l) s1 -> get_fun l s1 = Some clo ->
  length (c_params clo) = length args -> eval_list f args rho s1 = Ok vs s2 ->
  let act := length (envs s2) in
  exists s5, call_start s2 clo l vs = Some (act, s5) /\
    epar s5 act = Some (Some (c_env clo)) /\
    (forall i, i < act -> nth_error (envs s5) i = nth_error (envs s2) i) /\
    length (envs s5) = S act /\
    eval (S f) (ECall ce pline args) rho s =
      bind (exec_list f false (c_body clo) act s5)
        (fun sig s6 => Ok (match sig with SigReturn _ v => v | _ => VNil end) s6).
Proof.
  intros E1 EF EL E2 act. destruct (call_start_some s2 clo l vs) as (s5 & CS & Hp & Ho & Hl).
  exists s5. split; [exact CS|split; [exact Hp|split; [exact Ho|split; [exact Hl|]]]].
  rewrite eval_S, E1. cbn [bind]. rewrite EF, EL, Nat.eqb_refl. cbn [negb]. rewrite E2. cbn [bind].
  unfold call_start in CS. fold act in CS.
  destruct (alloc_env (Some (c_env clo)) s2) as [act' s3].
  destruct (env_define act' (c_name clo) (VFun l) s3) as [s4|]; [|discriminate].
  destruct (bind_params act' (c_params clo) vs s4) as [s5'|]; [|discriminate].
  injection CS as -> ->. reflexivity.
Qed.

(** Two call sites -- different callers, different caller environments, different
    start states -- that arrive at the same closure, the same argument values and the
    same store run the same body from the same start: the results are equal. *)
Theorem call_ignores_caller_env f ce ce' pl pl' args args' rho rho' s s' l clo vs s1 s1' s2 :
  eval f ce rho s = Ok (VFun l) s1 -> get_fun l s1 = Some clo ->
  length (c_params clo) = length args -> eval_list f args rho s1 = Ok vs s2 ->
  eval f ce' rho' s' = Ok (VFun l) s1' -> get_fun l s1' = Some clo ->
  length (c_params clo) = length args' -> eval_list f args' rho' s1' = Ok vs s2 ->
  eval (S f) (ECall ce pl args) rho s = eval (S f) (ECall ce' pl' args') rho' s'.
Proof.
  intros A1 A2 A3 A4 B1 B2 B3 B4.
  destruct (call_activation_chain f ce pl args rho s l s1 clo vs s2 A1 A2 A3 A4) as (s5 & CS & _ & _ & _ & ->).
  destruct (call_activation_chain f ce' pl' args' rho' s' l s1' clo vs s2 B1 B2 B3 B4) as (s5' & CS' & _ & _ & _ & ->).
  rewrite CS in CS'. injection CS' as <-. reflexivity.
Qed.

(* ---------------------------------------------------------------- *)
(** ** which names a statement can add to its own scope *)

(** A [for] loop behaves like a block: everything in it runs in the loop's own scope, so
    no existing scope gains or loses a name. *)
Theorem for_never_modifies_outer_domains f repl init c inc b rho s s' :
  wf_state s -> rho < length (envs s) -> final (exec f repl (SFor init c inc b) rho s) = Some s' ->
  forall i, i < length (envs s) -> edom s' i = edom s i /\ epar s' i = epar s i.
Proof.
  intros W Hr H i Hi. destruct f as [|f]; [discriminate|]. rewrite exec_S in H.
  destruct (alloc_env (Some rho) s) as [rho' s1] eqn:EA.
  destruct (Fr_alloc_env (length (envs s)) nowhere (Some rho) s rho' s1 W (le_n _) EA) as (F1 & -> & L1).
  { intros q Hq. injection Hq as <-. exact Hr. }
  destruct (inv_all f) as (_ & _ & _ & IHs & _ & _ & _ & _ & IHf).
  assert (HG : G (length (envs s)) nowhere s1
             (bind (match init with Some i0 => exec f repl i0 (length (envs s)) s1 | None => Ok SigNone s1 end)
                (fun sig s2 => match sig with
                               | SigNone => exec_for f repl c inc b (length (envs s)) s2
                               | _ => Ok sig s2 end))).
  { pose proof (Fr_wf _ _ _ _ F1) as W1.
    apply G_bind; [destruct init as [i0|]; [apply IHs; side|fin]|].
    intros sig s2 E2 F2. facts F2 W2 L2 N2. destruct sig; try fin. apply IHf; side. }
  unfold G in HG. rewrite Good_final in HG. specialize (HG s' H).
  destruct (Fr_trans _ _ _ _ _ F1 HG) as ((_ & _ & B) & _).
  destruct (B i Hi) as (b1 & _ & b3). split; [apply b3; intros []|exact b1].
Qed.

(** the names a statement declares directly in the scope it runs in (not inside a
    block, a [for] loop or a function body, which have scopes of their own) *)
Fixpoint direct_decls (st : stmt) : list (list N) :=
  match st with
  | SVar d => [fst (fst d)]
  | SVarList ds => map (fun d : vdecl => fst (fst d)) ds
  | SFun name _ _ => [name]
  | SIf _ t e => direct_decls t ++ match e with Some e' => direct_decls e' | None => [] end
  | SWhile _ b => direct_decls b
  | _ => []
  end.

(** [rho] gained, at the end, only names from [D] *)
Definition gained (D : list (list N)) (rho : nat) (s s' : state) : Prop :=
  exists ext, edom s' rho = edom s rho ++ ext /\ incl ext D.

Definition Q (D : list (list N)) (rho : nat) (s s' : state) : Prop :=
  framed (here rho) s s' /\ gained D rho s s'.

Lemma framed_trans P s s1 s2 : framed P s s1 -> framed P s1 s2 -> framed P s s2.
Proof.
  intros A B. apply Fr_framed in A. apply Fr_framed in B. apply Fr_framed.
  eapply Fr_trans; [exact A|]. eapply Fr_shrink; [exact B|eapply Fr_len; exact A|auto].
Qed.

Lemma framed_weaken (P P' : nat -> Prop) s s' : framed P s s' -> (forall i, P i -> P' i) -> framed P' s s'.
Proof. intros A H. apply Fr_framed in A. apply Fr_framed. eapply Fr_shrink; [exact A|lia|auto]. Qed.

Lemma Q_refl D rho s : wf_state s -> Q D rho s s.
Proof.
  intros W. split; [apply Fr_framed; apply Fr_refl; auto|].
  exists []. rewrite app_nil_r. split; [reflexivity|intros y []].
Qed.

Lemma Q_trans D rho s s1 s2 : Q D rho s s1 -> Q D rho s1 s2 -> Q D rho s s2.
Proof.
  intros (A1 & (x1 & E1 & I1)) (A2 & (x2 & E2 & I2)). split; [eapply framed_trans; eauto|].
  exists (x1 ++ x2). split; [rewrite E2, E1, app_assoc; reflexivity|apply incl_app; assumption].
Qed.

Lemma Q_weaken D D' rho s s' : Q D rho s s' -> incl D D' -> Q D' rho s s'.
Proof. intros (A & (x & E & I)) H. split; [exact A|]. exists x. split; [exact E|eapply incl_tran; eauto]. Qed.

Lemma Q_same_dom D rho s s' : framed (here rho) s s' -> edom s' rho = edom s rho -> Q D rho s s'.
Proof. intros A E. split; [exact A|]. exists []. rewrite app_nil_r. split; [exact E|intros y []]. Qed.

Lemma Q_nowhere D rho s s' : rho < length (envs s) -> framed nowhere s s' -> Q D rho s s'.
Proof.
  intros Hr A. apply Q_same_dom; [eapply framed_weaken; [exact A|intros i []]|].
  destruct A as (_ & B & _). destruct (B rho Hr) as (_ & _ & b3). apply b3. intros [].
Qed.

Lemma Q_wf D rho s s' : Q D rho s s' -> wf_state s'.
Proof. intros ((_ & _ & _ & W) & _). exact W. Qed.
Lemma Q_len D rho s s' : Q D rho s s' -> length (envs s) <= length (envs s').
Proof. intros ((L & _) & _). exact L. Qed.

Lemma Q_bind {A B} D rho s (r : res A) (k : A -> state -> res B) :
  Good (Q D rho s) r -> (forall a s1, r = Ok a s1 -> Q D rho s s1 -> Good (Q D rho s1) (k a s1)) ->
  Good (Q D rho s) (bind r k).
Proof.
  intros H1 H2. eapply Good_bind; [exact H1|auto|].
  intros a s1 E F1. eapply Good_impl; [apply H2; eauto|]. intros s2 F2. eapply Q_trans; eauto.
Qed.

Lemma Q_eval D f e rho s : wf_state s -> rho < length (envs s) -> Good (Q D rho s) (eval f e rho s).
Proof.
  intros W Hr. apply Good_final. intros s' H. apply Q_nowhere; [exact Hr|].
  eapply eval_frame_final; eauto.
Qed.

Lemma Q_define D rho x v s s' :
  wf_state s -> env_define rho x v s = Some s' -> In x D -> Q D rho s s'.
Proof.
  intros W Dn Hx. split.
  - apply Fr_framed. eapply Fr_define; eauto. intros _. reflexivity.
  - destruct (define_only_current _ _ _ _ _ Dn) as (_ & _ & _ & Hd & _). unfold gained. rewrite Hd.
    destruct (bind_of s rho x).
    + exists []. rewrite app_nil_r. split; [reflexivity|intros y []].
    + exists [x]. split; [reflexivity|]. intros y [<-|[]]. exact Hx.
Qed.

Definition DeclAt (f : nat) : Prop :=
  (forall repl st rho s, wf_state s -> rho < length (envs s) ->
     Good (Q (direct_decls st) rho s) (exec f repl st rho s)) /\
  (forall d rho s, wf_state s -> rho < length (envs s) ->
     Good (Q [fst (fst d)] rho s) (exec_var f d rho s)) /\
  (forall ds rho s, wf_state s -> rho < length (envs s) ->
     Good (Q (map (fun d : vdecl => fst (fst d)) ds) rho s) (exec_vars f ds rho s)) /\
  (forall repl ss rho s, wf_state s -> rho < length (envs s) ->
     Good (Q (flat_map direct_decls ss) rho s) (exec_list f repl ss rho s)) /\
  (forall repl c b rho s, wf_state s -> rho < length (envs s) ->
     Good (Q (direct_decls b) rho s) (exec_while f repl c b rho s)).

Ltac qfin := unfold Good; first [exact I | apply Q_refl; assumption].
Ltac qfacts F W L := pose proof (Q_wf _ _ _ _ F) as W; pose proof (Q_len _ _ _ _ F) as L.

Lemma decl_all : forall f, DeclAt f.
Proof.
  induction f as [|f (IHs & IHv & IHvs & IHss & IHw)]; unfold DeclAt.
  { repeat split; intros; exact I. }
  split; [|split; [|split; [|split]]].
  - (* exec *)
    intros repl st rho s W Hr.
    destruct st as [e|e|d|ds|ss|c t e|c b|init c inc b|ln|ln|kw ve|name params body].
    + rewrite exec_S. apply Q_bind; [apply Q_eval; assumption|]. intros v s1 E1 F1. qfacts F1 W1 L1.
      destruct repl; [|qfin]. destruct (text_of s1 v); try qfin.
      unfold Good. apply Q_nowhere; [lia|]. apply Fr_framed. apply Fr_emit; auto.
    + rewrite exec_S. apply Q_bind; [apply Q_eval; assumption|]. intros v s1 E1 F1. qfacts F1 W1 L1.
      destruct (text_of s1 v); try qfin.
      unfold Good. apply Q_nowhere; [lia|]. apply Fr_framed. apply Fr_emit; auto.
    + rewrite exec_S. cbn [direct_decls]. apply IHv; assumption.
    + rewrite exec_S. cbn [direct_decls]. apply IHvs; assumption.
    + apply Good_final. intros s' H. apply Q_same_dom; [eapply exec_frame_final; eauto|].
      apply (block_never_modifies_outer_domains _ _ _ _ _ _ W Hr H rho Hr).
    + rewrite exec_S. cbn [direct_decls].
      apply Q_bind; [apply Q_eval; assumption|]. intros cv s1 E1 F1. qfacts F1 W1 L1.
      destruct (truthy cv).
      * eapply Good_impl; [apply IHs; [assumption|lia]|]. intros s2 F2. eapply Q_weaken; [exact F2|].
        apply incl_appl. apply incl_refl.
      * destruct e as [e'|]; [|qfin].
        eapply Good_impl; [apply IHs; [assumption|lia]|]. intros s2 F2. eapply Q_weaken; [exact F2|].
        apply incl_appr. apply incl_refl.
    + rewrite exec_S. cbn [direct_decls]. apply IHw; assumption.
    + apply Good_final. intros s' H. apply Q_same_dom; [eapply exec_frame_final; eauto|].
      apply (for_never_modifies_outer_domains _ _ _ _ _ _ _ _ _ W Hr H rho Hr).
    + rewrite exec_S. qfin.
    + rewrite exec_S. qfin.
    + rewrite exec_S. destruct ve as [e|]; [|qfin].
      apply Q_bind; [apply Q_eval; assumption|]. intros v s1 E1 F1. qfacts F1 W1 L1. qfin.
    + rewrite exec_S. cbn [direct_decls].
      destruct (alloc_env (Some rho) s) as [cenv s1] eqn:EA.
      destruct (Fr_alloc_env (length (envs s)) nowhere (Some rho) s cenv s1 W (le_n _) EA) as (F1 & -> & L1).
      { intros q Hq. injection Hq as <-. exact Hr. }
      pose proof (Fr_wf _ _ _ _ F1) as W1.
      destruct (alloc_fun (mkClo name params body (length (envs s))) s1) as [l s2] eqn:EF.
      apply alloc_fun_snd in EF.
      assert (F2 : Fr (length (envs s)) nowhere s1 s2).
      { rewrite EF. apply Fr_alloc_fun; auto; [lia|simpl; lia]. }
      pose proof (Fr_wf _ _ _ _ F2) as W2. pose proof (Fr_trans _ _ _ _ _ F1 F2) as F12.
      destruct (env_define rho name (VFun l) s2) as [s3|] eqn:ED; [|qfin].
      unfold Good. eapply Q_trans; [apply Q_nowhere; [exact Hr|apply Fr_framed; exact F12]|].
      eapply Q_define; eauto. left. reflexivity.
  - (* exec_var *)
    intros d rho s W Hr. rewrite exec_var_S. destruct d as [[x init] ln]. cbn [fst].
    apply Q_bind; [destruct init as [e|]; [apply Q_eval; assumption|qfin]|].
    intros v s1 E1 F1. qfacts F1 W1 L1.
    destruct (env_get_here rho x s1) as [[old|]|]; [qfin| |qfin].
    destruct (env_define rho x v s1) as [s2|] eqn:ED; [|qfin].
    unfold Good. eapply Q_define; eauto. left. reflexivity.
  - (* exec_vars *)
    intros ds rho s W Hr. rewrite exec_vars_S. destruct ds as [|d r]; [qfin|]. cbn [map].
    apply Q_bind.
    + eapply Good_impl; [apply IHv; assumption|]. intros s1 F1. eapply Q_weaken; [exact F1|].
      intros y [<-|[]]. left. reflexivity.
    + intros sg s1 E1 F1. qfacts F1 W1 L1.
      eapply Good_impl; [apply IHvs; [assumption|lia]|]. intros s2 F2. eapply Q_weaken; [exact F2|].
      apply incl_tl. apply incl_refl.
  - (* exec_list *)
    intros repl ss rho s W Hr. rewrite exec_list_S. destruct ss as [|st r]; [qfin|]. cbn [flat_map].
    apply Q_bind.
    + eapply Good_impl; [apply IHs; assumption|]. intros s1 F1. eapply Q_weaken; [exact F1|].
      apply incl_appl. apply incl_refl.
    + intros sg s1 E1 F1. qfacts F1 W1 L1. destruct sg; try qfin.
      eapply Good_impl; [apply IHss; [assumption|lia]|]. intros s2 F2. eapply Q_weaken; [exact F2|].
      apply incl_appr. apply incl_refl.
  - (* exec_while *)
    intros repl c b rho s W Hr. rewrite exec_while_S.
    apply Q_bind; [apply Q_eval; assumption|]. intros cv s1 E1 F1. qfacts F1 W1 L1.
    destruct (truthy cv); [|qfin].
    apply Q_bind; [apply IHs; [assumption|lia]|]. intros sg s2 E2 F2. qfacts F2 W2 L2.
    destruct sg; try qfin; apply IHw; solve [assumption|lia].
Qed.

(** The sharper form of (i): the names [rho] gains are among those the statement
    declares directly -- [ধরি] and function declarations not nested in a block, a [for]
    loop or a function body.  In particular expression statements, prints, blocks,
    [for] loops and returns (all the calls they make included) add nothing to [rho]. *)
Theorem exec_gains_only_direct_decls f repl st rho s s' :
  wf_state s -> rho < length (envs s) -> final (exec f repl st rho s) = Some s' ->
  exists ext, edom s' rho = edom s rho ++ ext /\ incl ext (direct_decls st).
Proof.
  intros W Hr H. destruct (decl_all f) as (IH & _).
  pose proof (IH repl st rho s W Hr) as HG. rewrite Good_final in HG. apply (HG s' H).
Qed.

Theorem exec_list_gains_only_direct_decls f repl ss rho s s' :
  wf_state s -> rho < length (envs s) -> final (exec_list f repl ss rho s) = Some s' ->
  exists ext, edom s' rho = edom s rho ++ ext /\ incl ext (flat_map direct_decls ss).
Proof.
  intros W Hr H. destruct (decl_all f) as (_ & _ & _ & IH & _).
  pose proof (IH repl ss rho s W Hr) as HG. rewrite Good_final in HG. apply (HG s' H).
Qed.

(** C4. Arrays never grow, shrink or disappear; object cells and closures only grow in
    number -- along any evaluation, however it ends. *)
Theorem eval_heap_ext f e rho s s' :
  wf_state s -> rho < length (envs s) -> final (eval f e rho s) = Some s' -> heap_ext s s'.
Proof. intros W Hr H. apply (eval_frame_final f e rho s s' W Hr H). Qed.

Theorem exec_heap_ext f repl st rho s s' :
  wf_state s -> rho < length (envs s) -> final (exec f repl st rho s) = Some s' -> heap_ext s s'.
Proof. intros W Hr H. apply (exec_frame_final f repl st rho s s' W Hr H). Qed.

End Frame.

Print Assumptions inv_all.
Print Assumptions exec_frame.
Print Assumptions block_never_modifies_outer_domains.
Print Assumptions block_scope_is_fresh.
Print Assumptions call_activation_chain.
Print Assumptions run_stmts_frame.
Print Assumptions exec_gains_only_direct_decls.
