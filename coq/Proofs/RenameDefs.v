(** Consistent renaming of user-chosen identifiers: definitions and the commutation
    lemmas for the primitives of Model/Value.v and for the operators, the value
    printer and the built-ins of Model/Eval.v.

    A renaming is a function [r] on names.  [ren_expr] / [ren_stmt] apply it to every
    variable occurrence, declared name, formal argument and function name of a program
    (property names and object-literal keys are data and stay as they are);
    [ren_state] applies it to the keys of every scope and to the name, parameters and
    body of every closure.  Values are untouched (they are locations or scalars).

    Hypotheses on [r]: it is injective and fixes the 17 built-in names.  A function
    value prints as [<function NAME>], so renaming a function NAME is observable;
    [nf_stmt] / [nfs] say that [r] fixes every function name of a program / store. *)
From Coq Require Import Lia.
From Borno Require Import Base Num Unicode Token Ast Value Eval EvalEqs EnvLaws EvalInv.
Local Open Scope nat_scope.

(* ---------------------------------------------------------------- *)
(** ** a structural "for all elements" that nested fixpoints may call *)

Section AllP.
Context {A : Type} (P : A -> Prop).
Fixpoint all_P (l : list A) : Prop :=
  match l with [] => True | x :: t => P x /\ all_P t end.

Lemma all_P_Forall l : all_P l <-> Forall P l.
Proof.
  induction l as [|x t IH]; simpl; split; intros H.
  - constructor.
  - exact I.
  - destruct H as [H1 H2]. constructor; [exact H1|apply IH; exact H2].
  - inversion H as [|? ? H1 H2]; subst. split; [exact H1|apply IH; exact H2].
Qed.
End AllP.

Lemma set_nth_map {A B} (g : A -> B) : forall n x l, map g (set_nth n x l) = set_nth n (g x) (map g l).
Proof.
  intros n x l. revert n. induction l as [|y l IH]; intros n; destruct n; simpl; try reflexivity.
  rewrite IH. reflexivity.
Qed.

Section Rename.
Variable r : list N -> list N.

(* ---------------------------------------------------------------- *)
(** ** renaming programs *)

Fixpoint ren_expr (e : expr) : expr :=
  match e with
  | ELit v line => ELit v line
  | EId x line => EId (r x) line
  | EGroup e' line => EGroup (ren_expr e') line
  | EUnary op e' line => EUnary op (ren_expr e') line
  | EBinary op a b line => EBinary op (ren_expr a) (ren_expr b) line
  | ELogical op a b => ELogical op (ren_expr a) (ren_expr b)
  | EAssign x nline v line => EAssign (r x) nline (ren_expr v) line
  | EArrAssign a i v line => EArrAssign (ren_expr a) (ren_expr i) (ren_expr v) line
  | EPropAssign o p v line => EPropAssign (ren_expr o) p (ren_expr v) line
  | ECall c pline args => ECall (ren_expr c) pline (map ren_expr args)
  | EIndex a i line => EIndex (ren_expr a) (ren_expr i) line
  | EProp o p line => EProp (ren_expr o) p line
  | EArray es => EArray (map ren_expr es)
  | EObject ps => EObject (map (fun kv => (fst kv, ren_expr (snd kv))) ps)
  end.

Definition ren_oexpr (o : option expr) : option expr :=
  match o with Some e => Some (ren_expr e) | None => None end.

Definition ren_vdecl (d : vdecl) : vdecl :=
  let '(x, init, line) := d in (r x, ren_oexpr init, line).

Fixpoint ren_stmt (st : stmt) : stmt :=
  match st with
  | SExpr e => SExpr (ren_expr e)
  | SPrint e => SPrint (ren_expr e)
  | SVar d => SVar (ren_vdecl d)
  | SVarList ds => SVarList (map ren_vdecl ds)
  | SBlock ss => SBlock (map ren_stmt ss)
  | SIf c t e => SIf (ren_expr c) (ren_stmt t) (match e with Some e' => Some (ren_stmt e') | None => None end)
  | SWhile c b => SWhile (ren_expr c) (ren_stmt b)
  | SFor init c inc b =>
      SFor (match init with Some i => Some (ren_stmt i) | None => None end)
           (ren_expr c) (ren_oexpr inc) (ren_stmt b)
  | SBreak line => SBreak line
  | SContinue line => SContinue line
  | SReturn kw v => SReturn kw (ren_oexpr v)
  | SFun name params body => SFun (r name) (map r params) (map ren_stmt body)
  end.

(* ---------------------------------------------------------------- *)
(** ** renaming stores and results *)

Definition ren_bindings (b : list (list N * value)) : list (list N * value) :=
  map (fun kv => (r (fst kv), snd kv)) b.

Definition ren_scope (sc : scope) : scope := (ren_bindings (fst sc), snd sc).

Definition ren_clo (c : closure) : closure :=
  mkClo (r (c_name c)) (map r (c_params c)) (map ren_stmt (c_body c)) (c_env c).

Definition ren_state (s : state) : state :=
  mkState (map ren_scope (envs s)) (arrs s) (objs s) (map ren_clo (funs s)) (out s) (inp s) (tick s).

Definition ren_res {A} (x : res A) : res A :=
  match x with
  | Ok a s => Ok a (ren_state s)
  | Err e l s => Err e l (ren_state s)
  | Fuel => Fuel
  | Stuck => Stuck
  | Crash s => Crash (ren_state s)
  end.

Definition ren_nres (x : nres) : nres :=
  match x with NOk v s => NOk v (ren_state s) | NFail why => NFail why | NStuck => NStuck end.

(* ---------------------------------------------------------------- *)
(** ** "the renaming fixes every function name" *)

Fixpoint nf_stmt (st : stmt) : Prop :=
  match st with
  | SBlock ss => all_P nf_stmt ss
  | SIf _ t e => nf_stmt t /\ match e with Some e' => nf_stmt e' | None => True end
  | SWhile _ b => nf_stmt b
  | SFor init _ _ b => match init with Some i => nf_stmt i | None => True end /\ nf_stmt b
  | SFun name _ body => r name = name /\ all_P nf_stmt body
  | _ => True
  end.

Definition nf_clo (c : closure) : Prop := r (c_name c) = c_name c /\ all_P nf_stmt (c_body c).

(** [names_fixed_state] *)
Definition nfs (s : state) : Prop := Forall nf_clo (funs s).

Lemma nfs_same s s' : funs s' = funs s -> nfs s -> nfs s'.
Proof. unfold nfs. intros ->. auto. Qed.

Lemma nfs_get_fun s l c : nfs s -> get_fun l s = Some c -> nf_clo c.
Proof.
  unfold nfs, get_fun. intros H G. rewrite Forall_forall in H. apply H. eapply nth_error_In; eauto.
Qed.

Lemma nfs_init stdin : nfs (init_state stdin).
Proof. constructor. Qed.

Lemma nfs_emit e s : nfs s -> nfs (emit e s).
Proof. apply nfs_same. reflexivity. Qed.
Lemma nfs_set_arr l vs s : nfs s -> nfs (set_arr l vs s).
Proof. apply nfs_same. reflexivity. Qed.
Lemma nfs_set_obj l ps s : nfs s -> nfs (set_obj l ps s).
Proof. apply nfs_same. reflexivity. Qed.

Lemma alloc_arr_funs vs s l s' : alloc_arr vs s = (l, s') -> funs s' = funs s.
Proof. unfold alloc_arr. intros E. injection E as _ <-. reflexivity. Qed.
Lemma alloc_obj_funs ps s l s' : alloc_obj ps s = (l, s') -> funs s' = funs s.
Proof. unfold alloc_obj. intros E. injection E as _ <-. reflexivity. Qed.
Lemma alloc_env_funs p s i s' : alloc_env p s = (i, s') -> funs s' = funs s.
Proof. unfold alloc_env. intros E. injection E as _ <-. reflexivity. Qed.

Lemma env_define_funs rho x v s s' : env_define rho x v s = Some s' -> funs s' = funs s.
Proof.
  unfold env_define. destruct (nth_error (envs s) rho) as [[b p]|]; [|discriminate].
  intros E. injection E as <-. reflexivity.
Qed.

Lemma env_assign_funs rho x v s s' : env_assign rho x v s = Some (Some s') -> funs s' = funs s.
Proof.
  intros H. destruct (env_assign_inv _ _ _ _ _ H) as (q & old & _ & D).
  eapply env_define_funs. exact D.
Qed.

Lemma bind_params_funs act : forall ps vs s s', bind_params act ps vs s = Some s' -> funs s' = funs s.
Proof.
  induction ps as [|p ps IH]; intros vs s s' H; simpl in H.
  - injection H as <-. reflexivity.
  - destruct vs as [|v vs]; [injection H as <-; reflexivity|].
    destruct (env_define act p v s) as [s1|] eqn:D; [|discriminate].
    rewrite (IH _ _ _ H). eapply env_define_funs. exact D.
Qed.

Lemma native_fail_funs n args s : funs (native_fail_state n args s) = funs s.
Proof.
  unfold native_fail_state. destruct n; try reflexivity.
  repeat match goal with |- context [match ?x with _ => _ end] => destruct x end; reflexivity.
Qed.

Lemma nfs_native_fail n args s : nfs s -> nfs (native_fail_state n args s).
Proof. apply nfs_same. apply native_fail_funs. Qed.

Lemma nfs_call_native libm clock sched n args s v s' :
  call_native libm clock sched n args s = NOk v s' -> nfs s -> nfs s'.
Proof.
  intros H. apply nfs_same. destruct (call_native_shape _ _ _ _ _ _ _ _ H) as (_ & E & _). exact E.
Qed.

Lemma nfs_alloc_fun c s l s' : alloc_fun c s = (l, s') -> nf_clo c -> nfs s -> nfs s'.
Proof.
  unfold alloc_fun, nfs. intros E Hc Hs. injection E as _ <-. cbn [funs].
  apply Forall_app. split; [exact Hs|]. constructor; [exact Hc|constructor].
Qed.

(* ---------------------------------------------------------------- *)
(** ** the primitives commute with the renaming *)

Hypothesis r_inj : forall a b, r a = r b -> a = b.

Lemma str_eqb_ren a b : str_eqb (r a) (r b) = str_eqb a b.
Proof.
  destruct (str_eqb a b) eqn:E.
  - apply str_eqb_eq in E. subst b. apply str_eqb_refl.
  - apply str_eqb_neq in E. apply str_eqb_neq. intros H. apply E. apply r_inj. exact H.
Qed.

Lemma assoc_ren x b : assoc (r x) (ren_bindings b) = assoc x b.
Proof.
  induction b as [|[k v] b IH]; simpl; [reflexivity|].
  rewrite str_eqb_ren. destruct (str_eqb x k); [reflexivity|exact IH].
Qed.

Lemma alist_set_ren x v b : alist_set (r x) v (ren_bindings b) = ren_bindings (alist_set x v b).
Proof.
  induction b as [|[k w] b IH]; simpl; [reflexivity|].
  rewrite str_eqb_ren. destruct (str_eqb x k); simpl; [reflexivity|].
  f_equal. exact IH.
Qed.

Lemma nth_envs_ren s rho : nth_error (envs (ren_state s)) rho = option_map ren_scope (nth_error (envs s) rho).
Proof. cbn [ren_state envs]. apply nth_error_map. Qed.

Lemma env_define_ren rho x v s :
  env_define rho (r x) v (ren_state s) = option_map ren_state (env_define rho x v s).
Proof.
  unfold env_define. rewrite nth_envs_ren.
  destruct (nth_error (envs s) rho) as [[b p]|]; cbn [option_map]; [|reflexivity].
  f_equal. unfold set_envs, ren_state. cbn [envs arrs objs funs out inp tick ren_scope fst snd].
  f_equal. rewrite set_nth_map. cbn [ren_scope fst snd]. rewrite alist_set_ren. reflexivity.
Qed.

Lemma env_get_here_ren rho x s : env_get_here rho (r x) (ren_state s) = env_get_here rho x s.
Proof.
  unfold env_get_here. rewrite nth_envs_ren.
  destruct (nth_error (envs s) rho) as [[b p]|]; cbn [option_map ren_scope fst snd]; [|reflexivity].
  rewrite assoc_ren. reflexivity.
Qed.

Lemma env_lookup_ren fuel : forall rho x s,
  env_lookup fuel rho (r x) (ren_state s) = env_lookup fuel rho x s.
Proof.
  induction fuel as [|fuel IH]; intros rho x s; [reflexivity|].
  cbn [env_lookup]. rewrite nth_envs_ren.
  destruct (nth_error (envs s) rho) as [[b p]|]; cbn [option_map ren_scope fst snd]; [|reflexivity].
  rewrite assoc_ren. destruct (assoc x b); [reflexivity|]. destruct p; [apply IH|reflexivity].
Qed.

Lemma length_envs_ren s : length (envs (ren_state s)) = length (envs s).
Proof. cbn [ren_state envs]. apply map_length. Qed.

Lemma env_get_ren rho x s : env_get rho (r x) (ren_state s) = env_get rho x s.
Proof. unfold env_get. rewrite length_envs_ren, env_lookup_ren. reflexivity. Qed.

Lemma env_assign_ren rho x v s :
  env_assign rho (r x) v (ren_state s) = option_map (option_map ren_state) (env_assign rho x v s).
Proof.
  unfold env_assign. rewrite length_envs_ren, env_lookup_ren.
  destruct (env_lookup (S (length (envs s))) rho x s) as [[[q old]|]|]; cbn [option_map]; try reflexivity.
  rewrite env_define_ren. destruct (env_define q x v s); reflexivity.
Qed.

Lemma bind_params_ren act : forall ps vs s,
  bind_params act (map r ps) vs (ren_state s) = option_map ren_state (bind_params act ps vs s).
Proof.
  induction ps as [|p ps IH]; intros vs s; [reflexivity|].
  destruct vs as [|v vs]; [reflexivity|]. cbn [map bind_params].
  rewrite env_define_ren. destruct (env_define act p v s) as [s1|]; cbn [option_map]; [apply IH|reflexivity].
Qed.

Lemma alloc_env_ren p s :
  alloc_env p (ren_state s) = (fst (alloc_env p s), ren_state (snd (alloc_env p s))).
Proof.
  unfold alloc_env, ren_state. cbn [fst snd envs arrs objs funs out inp tick].
  rewrite map_length, map_app. reflexivity.
Qed.

Lemma alloc_fun_ren name ps body cenv s :
  alloc_fun (mkClo (r name) (map r ps) (map ren_stmt body) cenv) (ren_state s) =
    (fst (alloc_fun (mkClo name ps body cenv) s), ren_state (snd (alloc_fun (mkClo name ps body cenv) s))).
Proof.
  unfold alloc_fun, ren_state. cbn [fst snd envs arrs objs funs out inp tick].
  rewrite map_length, map_app. reflexivity.
Qed.

Lemma alloc_arr_ren vs s :
  alloc_arr vs (ren_state s) = (fst (alloc_arr vs s), ren_state (snd (alloc_arr vs s))).
Proof. reflexivity. Qed.

Lemma alloc_obj_ren ps s :
  alloc_obj ps (ren_state s) = (fst (alloc_obj ps s), ren_state (snd (alloc_obj ps s))).
Proof. reflexivity. Qed.

Lemma get_arr_ren l s : get_arr l (ren_state s) = get_arr l s.
Proof. reflexivity. Qed.
Lemma get_obj_ren l s : get_obj l (ren_state s) = get_obj l s.
Proof. reflexivity. Qed.
Lemma get_fun_ren l s : get_fun l (ren_state s) = option_map ren_clo (get_fun l s).
Proof. unfold get_fun. cbn [ren_state funs]. apply nth_error_map. Qed.
Lemma set_arr_ren l vs s : set_arr l vs (ren_state s) = ren_state (set_arr l vs s).
Proof. reflexivity. Qed.
Lemma set_obj_ren l ps s : set_obj l ps (ren_state s) = ren_state (set_obj l ps s).
Proof. reflexivity. Qed.
Lemma emit_ren e s : emit e (ren_state s) = ren_state (emit e s).
Proof. reflexivity. Qed.
Lemma set_inp_ren i s : set_inp i (ren_state s) = ren_state (set_inp i s).
Proof. reflexivity. Qed.
Lemma bump_tick_ren s : bump_tick (ren_state s) = ren_state (bump_tick s).
Proof. reflexivity. Qed.

(* ---------------------------------------------------------------- *)
(** ** operators, value text and built-ins *)

Section Ops.
Variable libm : N -> f64 -> f64 -> f64.
Variable clock : f64.
Variable sched : N -> list (list N * value) -> list (list N * value).

Lemma val_eqb_ren s a b : val_eqb (ren_state s) a b = val_eqb s a b.
Proof. reflexivity. Qed.

Lemma binop_ren s op a b : binop libm (ren_state s) op a b = binop libm s op a b.
Proof. reflexivity. Qed.

(** the text of a value: the only place where a closure's name is read *)
Lemma text_in_ren s : nfs s -> forall fuel v, text_in fuel (ren_state s) v = text_in fuel s v.
Proof.
  intros Hs. induction fuel as [|fuel IH]; intros v; [reflexivity|].
  destruct v as [| b | x | t | l | l | l | n]; cbn [text_in]; try reflexivity.
  - rewrite get_arr_ren. destruct (get_arr l s) as [vs|]; [|reflexivity]. f_equal.
    induction vs as [|v vs IHvs]; [reflexivity|].
    destruct vs as [|w vs]; [apply IH|]. rewrite IH. rewrite IHvs. reflexivity.
  - rewrite get_obj_ren. destruct (get_obj l s) as [ps|]; [|reflexivity]. f_equal.
    induction ps as [|[k v] ps IHps]; [reflexivity|].
    destruct ps as [|w ps]; [rewrite IH; reflexivity|]. rewrite IH. rewrite IHps. reflexivity.
  - rewrite get_fun_ren. destruct (get_fun l s) as [c|] eqn:G; cbn [option_map]; [|reflexivity].
    destruct (nfs_get_fun _ _ _ Hs G) as [Hn _]. cbn [ren_clo c_name]. rewrite Hn. reflexivity.
Qed.

Lemma text_of_ren s v : nfs s -> text_of (ren_state s) v = text_of s v.
Proof.
  intros Hs. unfold text_of. destruct v; try reflexivity;
    change (print_fuel (ren_state s)) with (print_fuel s); apply text_in_ren; exact Hs.
Qed.

Lemma native_fail_state_ren n vs s :
  native_fail_state n vs (ren_state s) = ren_state (native_fail_state n vs s).
Proof.
  unfold native_fail_state. destruct n; try reflexivity.
  repeat match goal with |- context [match ?x with _ => _ end] => destruct x end; reflexivity.
Qed.

Lemma math1_ren fn vs s : math1 fn vs (ren_state s) = ren_nres (math1 fn vs s).
Proof.
  unfold math1. destruct vs as [|v [|w vs]]; try reflexivity. destruct (to_number v); reflexivity.
Qed.

Lemma min_max_ren m vs s : min_max m vs (ren_state s) = ren_nres (min_max m vs s).
Proof.
  unfold min_max. destruct vs as [|v vs]; [reflexivity|]. cbv zeta beta iota.
  unfold get_arr. cbn [arrs ren_state].
  match goal with |- _ = ren_nres (match ?x with _ => _ end) => destruct x as [[|w ws]|] end; try reflexivity.
  destruct (numbers_of (w :: ws)) as [[|x xs]|]; reflexivity.
Qed.

Ltac nat_tac :=
  repeat first
    [ reflexivity
    | progress rewrite ?get_arr_ren, ?get_obj_ren
    | match goal with |- _ = ren_nres (match ?x with _ => _ end) => destruct x end ].

(** the built-ins read and write array cells, object cells, the input, the output and
    the iteration counter -- never a scope or a closure *)
Lemma call_native_ren n vs s :
  call_native libm clock sched n vs (ren_state s) = ren_nres (call_native libm clock sched n vs s).
Proof.
  destruct n; cbn [call_native]; try apply math1_ren; try apply min_max_ren; try (nat_tac; fail).
  (* input *)
  destruct vs as [|v [|w vs]]; try reflexivity.
  - cbn [inp ren_state]. destruct (inp s) as [|c cs]; [reflexivity|].
    destruct (read_line (c :: cs)) as [line rest]. reflexivity.
  - destruct v; try reflexivity. cbn [inp emit ren_state]. destruct (inp s) as [|c cs]; [reflexivity|].
    destruct (read_line (c :: cs)) as [line rest]. reflexivity.
Qed.

End Ops.
End Rename.

(* ---------------------------------------------------------------- *)
Print Assumptions env_assign_ren.
Print Assumptions bind_params_ren.
Print Assumptions text_of_ren.
Print Assumptions call_native_ren.
