(** Meaning is invariant under consistent renaming of user-chosen identifiers
    (variables and parameters).

    For every injective renaming [r] of names that fixes the 17 built-in names and
    every function name of the program, running the renamed program from the renamed
    store gives the renamed result: same value / signal / diagnostic and line, same
    output, same input consumption, same iteration counter, same heap cells; the
    scopes and closures of the final store are the renamed scopes and closures.

    Function NAMES are excluded on purpose: a function value prints as
    [<function NAME>] ([text_in] on [VFun] reads [c_name]), so renaming a function
    changes printed text and string concatenations.

    Contents: 1. the store invariant [nfs] ("[r] fixes the name of every closure, and
    of every function declared in a closure body") is preserved by evaluation;
    2. the nine evaluator functions commute with the renaming; 3. programs
    ([rename_run], [rename_run_observables]); 4. the instance that swaps two names. *)
From Coq Require Import Lia.
From Borno Require Import Base Num Unicode Token Ast Value Eval EvalEqs EnvLaws EvalInv RenameDefs.
Local Open Scope nat_scope.

(** solves [nfs r s'] by walking back along the equations that produced [s'] *)
Ltac nfs_tac :=
  first
    [ assumption
    | match goal with
      | |- nfs _ (emit _ _) => apply nfs_emit; nfs_tac
      | |- nfs _ (set_arr _ _ _) => apply nfs_set_arr; nfs_tac
      | |- nfs _ (set_obj _ _ _) => apply nfs_set_obj; nfs_tac
      | |- nfs _ (native_fail_state _ _ _) => apply nfs_native_fail; nfs_tac
      | E : alloc_env _ ?s0 = (_, ?s) |- nfs ?r ?s =>
          apply (nfs_same r s0 s (alloc_env_funs _ _ _ _ E)); nfs_tac
      | E : alloc_arr _ ?s0 = (_, ?s) |- nfs ?r ?s =>
          apply (nfs_same r s0 s (alloc_arr_funs _ _ _ _ E)); nfs_tac
      | E : alloc_obj _ ?s0 = (_, ?s) |- nfs ?r ?s =>
          apply (nfs_same r s0 s (alloc_obj_funs _ _ _ _ E)); nfs_tac
      | E : alloc_fun ?c ?s0 = (_, ?s) |- nfs ?r ?s =>
          apply (nfs_alloc_fun r c s0 _ s E); [split; cbn [c_name c_body]; assumption | nfs_tac]
      | E : env_define _ _ _ ?s0 = Some ?s |- nfs ?r ?s =>
          apply (nfs_same r s0 s (env_define_funs _ _ _ _ _ E)); nfs_tac
      | E : env_assign _ _ _ ?s0 = Some (Some ?s) |- nfs ?r ?s =>
          apply (nfs_same r s0 s (env_assign_funs _ _ _ _ _ E)); nfs_tac
      | E : bind_params _ _ _ ?s0 = Some ?s |- nfs ?r ?s =>
          apply (nfs_same r s0 s (bind_params_funs _ _ _ _ _ E)); nfs_tac
      | E : call_native _ _ _ _ _ ?s0 = NOk _ ?s |- nfs ?r ?s =>
          apply (nfs_call_native r _ _ _ _ _ _ _ _ E); nfs_tac
      end ].

(** solves the syntactic side conditions [nf_stmt r st] / [all_P (nf_stmt r) ss] *)
Ltac nf_tac :=
  first
    [ assumption
    | exact I
    | match goal with
      | Hs : nfs ?r ?s, G : get_fun ?l ?s = Some ?c |- all_P _ (c_body ?c) =>
          exact (proj2 (nfs_get_fun r s l c Hs G))
      end ].

Section RenameProof.
Variable r : list N -> list N.
Hypothesis r_inj : forall a b, r a = r b -> a = b.
Hypothesis r_native : forall n, r (native_name n) = native_name n.

Variable libm : N -> f64 -> f64 -> f64.
Variable clock : f64.
Variable sched : N -> list (list N * value) -> list (list N * value).

Notation eval := (eval libm clock sched).
Notation eval_list := (eval_list libm clock sched).
Notation eval_props := (eval_props libm clock sched).
Notation exec := (exec libm clock sched).
Notation exec_var := (exec_var libm clock sched).
Notation exec_vars := (exec_vars libm clock sched).
Notation exec_list := (exec_list libm clock sched).
Notation exec_while := (exec_while libm clock sched).
Notation exec_for := (exec_for libm clock sched).
Notation run_stmts := (run_stmts libm clock sched).

Notation nfs := (nfs r).
Notation nf_stmt := (nf_stmt r).
Notation ren_expr := (ren_expr r).
Notation ren_oexpr := (ren_oexpr r).
Notation ren_vdecl := (ren_vdecl r).
Notation ren_stmt := (ren_stmt r).
Notation ren_state := (ren_state r).
Notation ren_res := (ren_res r).
Notation ren_props := (map (fun kv : list N * expr => (fst kv, ren_expr (snd kv)))).

(* ================================================================ *)
(** * 1. The invariant is preserved by the evaluator *)

Definition nf_at (f : nat) : Prop :=
  (forall e rho s, nfs s -> Good nfs (eval f e rho s)) /\
  (forall es rho s, nfs s -> Good nfs (eval_list f es rho s)) /\
  (forall ps rho s, nfs s -> Good nfs (eval_props f ps rho s)) /\
  (forall repl st rho s, nfs s -> nf_stmt st -> Good nfs (exec f repl st rho s)) /\
  (forall d rho s, nfs s -> Good nfs (exec_var f d rho s)) /\
  (forall ds rho s, nfs s -> Good nfs (exec_vars f ds rho s)) /\
  (forall repl ss rho s, nfs s -> all_P nf_stmt ss -> Good nfs (exec_list f repl ss rho s)) /\
  (forall repl c b rho s, nfs s -> nf_stmt b -> Good nfs (exec_while f repl c b rho s)) /\
  (forall repl c inc b rho s, nfs s -> nf_stmt b -> Good nfs (exec_for f repl c inc b rho s)).

Lemma Good_bind_nfs {A B} (x : res A) (k : A -> state -> res B) :
  Good nfs x -> (forall a s1, nfs s1 -> Good nfs (k a s1)) -> Good nfs (bind x k).
Proof. destruct x; simpl; intros H1 H2; auto. Qed.

Ltac split_nf :=
  cbn [RenameDefs.nf_stmt all_P] in *;
  repeat match goal with H : _ /\ _ |- _ => destruct H end.

Ltac g_go Hev Hel Hep Hex Hxv Hxvs Hxl Hxw Hxf :=
  repeat first
    [ first [ apply Hev; nfs_tac | apply Hel; nfs_tac | apply Hep; nfs_tac
            | apply Hex; [nfs_tac|nf_tac] | apply Hxv; nfs_tac | apply Hxvs; nfs_tac
            | apply Hxl; [nfs_tac|nf_tac] | apply Hxw; [nfs_tac|nf_tac] | apply Hxf; [nfs_tac|nf_tac] ]
    | match goal with |- Good _ (bind _ _) => apply Good_bind_nfs; [ | intros ? ? ? ] end
    | match goal with |- Good _ (match ?x with _ => _ end) => destruct x eqn:? end
    | progress unfold lift_ores
    | cbn [Good]; first [exact I | nfs_tac] ].

Lemma nf_all : forall f, nf_at f.
Proof.
  induction f as [|f IH].
  - unfold nf_at. repeat split; intros;
      rewrite ?eval_0, ?eval_list_0, ?eval_props_0, ?exec_0, ?exec_var_0, ?exec_vars_0,
        ?exec_list_0, ?exec_while_0, ?exec_for_0; exact I.
  - destruct IH as (Hev & Hel & Hep & Hex & Hxv & Hxvs & Hxl & Hxw & Hxf).
    unfold nf_at.
    split; [|split; [|split; [|split; [|split; [|split; [|split; [|split]]]]]]].
    + intros e rho s Hs. rewrite eval_S. destruct e; g_go Hev Hel Hep Hex Hxv Hxvs Hxl Hxw Hxf.
    + intros es rho s Hs. rewrite eval_list_S. destruct es; g_go Hev Hel Hep Hex Hxv Hxvs Hxl Hxw Hxf.
    + intros ps rho s Hs. rewrite eval_props_S. destruct ps as [|[k e] ps]; g_go Hev Hel Hep Hex Hxv Hxvs Hxl Hxw Hxf.
    + intros repl st rho s Hs Hst. rewrite exec_S.
      destruct st as [e|e|d|ds|ss|c t [el|]|c b|[i|] c inc b|line|line|kw v|name params body];
        split_nf; g_go Hev Hel Hep Hex Hxv Hxvs Hxl Hxw Hxf.
    + intros d rho s Hs. rewrite exec_var_S. destruct d as [[x init] line]; g_go Hev Hel Hep Hex Hxv Hxvs Hxl Hxw Hxf.
    + intros ds rho s Hs. rewrite exec_vars_S. destruct ds; g_go Hev Hel Hep Hex Hxv Hxvs Hxl Hxw Hxf.
    + intros repl ss rho s Hs Hss. rewrite exec_list_S. destruct ss; split_nf; g_go Hev Hel Hep Hex Hxv Hxvs Hxl Hxw Hxf.
    + intros repl c b rho s Hs Hb. rewrite exec_while_S. g_go Hev Hel Hep Hex Hxv Hxvs Hxl Hxw Hxf.
    + intros repl c inc b rho s Hs Hb. rewrite exec_for_S. g_go Hev Hel Hep Hex Hxv Hxvs Hxl Hxw Hxf.
Qed.

Lemma nf_eval f e rho s : nfs s -> Good nfs (eval f e rho s).
Proof. destruct (nf_all f) as (H & _). apply H. Qed.
Lemma nf_eval_list f es rho s : nfs s -> Good nfs (eval_list f es rho s).
Proof. destruct (nf_all f) as (_ & H & _). apply H. Qed.
Lemma nf_eval_props f ps rho s : nfs s -> Good nfs (eval_props f ps rho s).
Proof. destruct (nf_all f) as (_ & _ & H & _). apply H. Qed.
Lemma nf_exec f repl st rho s : nfs s -> nf_stmt st -> Good nfs (exec f repl st rho s).
Proof. destruct (nf_all f) as (_ & _ & _ & H & _). apply H. Qed.
Lemma nf_exec_var f d rho s : nfs s -> Good nfs (exec_var f d rho s).
Proof. destruct (nf_all f) as (_ & _ & _ & _ & H & _). apply H. Qed.
Lemma nf_exec_vars f ds rho s : nfs s -> Good nfs (exec_vars f ds rho s).
Proof. destruct (nf_all f) as (_ & _ & _ & _ & _ & H & _). apply H. Qed.
Lemma nf_exec_list f repl ss rho s : nfs s -> all_P nf_stmt ss -> Good nfs (exec_list f repl ss rho s).
Proof. destruct (nf_all f) as (_ & _ & _ & _ & _ & _ & H & _). apply H. Qed.
Lemma nf_exec_while f repl c b rho s : nfs s -> nf_stmt b -> Good nfs (exec_while f repl c b rho s).
Proof. destruct (nf_all f) as (_ & _ & _ & _ & _ & _ & _ & H & _). apply H. Qed.
Lemma nf_exec_for f repl c inc b rho s : nfs s -> nf_stmt b -> Good nfs (exec_for f repl c inc b rho s).
Proof. destruct (nf_all f) as (_ & _ & _ & _ & _ & _ & _ & _ & H). apply H. Qed.

Lemma nf_run_stmts f repl : forall ss s, nfs s -> all_P nf_stmt ss -> Good nfs (run_stmts f repl ss s).
Proof.
  induction ss as [|st ss IH]; intros s Hs Hss; simpl; [exact Hs|]. destruct Hss as [H1 H2].
  apply Good_bind_nfs; [apply nf_exec; assumption|].
  intros sig s1 Hs1. destruct sig; simpl; try exact Hs1. apply IH; assumption.
Qed.

(* ================================================================ *)
(** * 2. The evaluator commutes with the renaming *)

Lemma bind_ren {A B} (x' x : res A) (k' k : A -> state -> res B) :
  x' = ren_res x -> Good nfs x ->
  (forall a s1, nfs s1 -> k' a (ren_state s1) = ren_res (k a s1)) ->
  bind x' k' = ren_res (bind x k).
Proof. intros -> G K. destruct x; simpl in *; auto. Qed.

Definition ren_at (f : nat) : Prop :=
  (forall e rho s, nfs s ->
     eval f (ren_expr e) rho (ren_state s) = ren_res (eval f e rho s)) /\
  (forall es rho s, nfs s ->
     eval_list f (map ren_expr es) rho (ren_state s) = ren_res (eval_list f es rho s)) /\
  (forall ps rho s, nfs s ->
     eval_props f (ren_props ps) rho (ren_state s) = ren_res (eval_props f ps rho s)) /\
  (forall repl st rho s, nfs s -> nf_stmt st ->
     exec f repl (ren_stmt st) rho (ren_state s) = ren_res (exec f repl st rho s)) /\
  (forall d rho s, nfs s ->
     exec_var f (ren_vdecl d) rho (ren_state s) = ren_res (exec_var f d rho s)) /\
  (forall ds rho s, nfs s ->
     exec_vars f (map ren_vdecl ds) rho (ren_state s) = ren_res (exec_vars f ds rho s)) /\
  (forall repl ss rho s, nfs s -> all_P nf_stmt ss ->
     exec_list f repl (map ren_stmt ss) rho (ren_state s) = ren_res (exec_list f repl ss rho s)) /\
  (forall repl c b rho s, nfs s -> nf_stmt b ->
     exec_while f repl (ren_expr c) (ren_stmt b) rho (ren_state s) = ren_res (exec_while f repl c b rho s)) /\
  (forall repl c inc b rho s, nfs s -> nf_stmt b ->
     exec_for f repl (ren_expr c) (ren_oexpr inc) (ren_stmt b) rho (ren_state s) =
       ren_res (exec_for f repl c inc b rho s)).

Ltac good_go :=
  first
    [ apply nf_eval; nfs_tac | apply nf_eval_list; nfs_tac | apply nf_eval_props; nfs_tac
    | apply nf_exec; [nfs_tac|nf_tac] | apply nf_exec_var; nfs_tac | apply nf_exec_vars; nfs_tac
    | apply nf_exec_list; [nfs_tac|nf_tac] | apply nf_exec_while; [nfs_tac|nf_tac]
    | apply nf_exec_for; [nfs_tac|nf_tac]
    | match goal with |- Good _ (match ?x with _ => _ end) => destruct x; good_go end
    | cbn [Good]; first [exact I | nfs_tac] ].

Ltac r_rew :=
  rewrite ?(env_get_ren r r_inj), ?(env_assign_ren r r_inj), ?(env_define_ren r r_inj),
    ?(env_get_here_ren r r_inj), ?(bind_params_ren r r_inj), ?(alloc_env_ren r), ?(alloc_fun_ren r),
    ?(alloc_arr_ren r), ?(alloc_obj_ren r), ?(get_arr_ren r), ?(get_obj_ren r), ?(get_fun_ren r),
    ?(binop_ren r), ?(call_native_ren r), ?(native_fail_state_ren r), ?map_length.

Ltac r_cbn :=
  cbn [option_map fst snd RenameDefs.ren_res ren_nres ren_clo c_name c_params c_body c_env
       RenameDefs.ren_expr RenameDefs.ren_stmt RenameDefs.ren_vdecl RenameDefs.ren_oexpr map].

Ltac r_go Hev Hel Hep Hex Hxv Hxvs Hxl Hxw Hxf :=
  repeat first
    [ first [ apply Hev; nfs_tac | apply Hel; nfs_tac | apply Hep; nfs_tac
            | apply Hex; [nfs_tac|nf_tac] | apply Hxv; nfs_tac | apply Hxvs; nfs_tac
            | apply Hxl; [nfs_tac|nf_tac] | apply Hxw; [nfs_tac|nf_tac] | apply Hxf; [nfs_tac|nf_tac] ]
    | match goal with |- bind _ _ = ren_res (bind _ _) =>
        apply bind_ren; [ | good_go | intros ? ? ?; cbv beta ] end
    | progress r_rew
    | rewrite (text_of_ren r) by nfs_tac
    | progress r_cbn
    | match goal with |- _ = ren_res (match ?x with _ => _ end) => destruct x eqn:? end
    | progress unfold lift_ores
    | reflexivity ].

Theorem rename_all : forall f, ren_at f.
Proof.
  induction f as [|f IH].
  - unfold ren_at. repeat split; intros; reflexivity.
  - destruct IH as (Hev & Hel & Hep & Hex & Hxv & Hxvs & Hxl & Hxw & Hxf).
    unfold ren_at.
    split; [|split; [|split; [|split; [|split; [|split; [|split; [|split]]]]]]].
    + intros e rho s Hs. rewrite !eval_S. destruct e; r_cbn; r_go Hev Hel Hep Hex Hxv Hxvs Hxl Hxw Hxf.
    + intros es rho s Hs. rewrite !eval_list_S. destruct es; r_cbn; r_go Hev Hel Hep Hex Hxv Hxvs Hxl Hxw Hxf.
    + intros ps rho s Hs. rewrite !eval_props_S. destruct ps as [|[k e] ps]; r_cbn; r_go Hev Hel Hep Hex Hxv Hxvs Hxl Hxw Hxf.
    + intros repl st rho s Hs Hst. rewrite !exec_S.
      destruct st as [e|e|d|ds|ss|c t [el|]|c b|[i|] c inc b|line|line|kw v|name params body];
        split_nf; r_cbn; r_go Hev Hel Hep Hex Hxv Hxvs Hxl Hxw Hxf.
    + intros d rho s Hs. rewrite !exec_var_S. destruct d as [[x init] line]; r_cbn; r_go Hev Hel Hep Hex Hxv Hxvs Hxl Hxw Hxf.
    + intros ds rho s Hs. rewrite !exec_vars_S. destruct ds; r_cbn; r_go Hev Hel Hep Hex Hxv Hxvs Hxl Hxw Hxf.
    + intros repl ss rho s Hs Hss. rewrite !exec_list_S. destruct ss; split_nf; r_cbn; r_go Hev Hel Hep Hex Hxv Hxvs Hxl Hxw Hxf.
    + intros repl c b rho s Hs Hb. rewrite !exec_while_S. r_go Hev Hel Hep Hex Hxv Hxvs Hxl Hxw Hxf.
    + intros repl c inc b rho s Hs Hb. rewrite !exec_for_S. r_go Hev Hel Hep Hex Hxv Hxvs Hxl Hxw Hxf.
Qed.

(** the nine components, individually: evaluating the renamed phrase in the renamed
    store gives the renamed result *)
Theorem rename_eval f e rho s : nfs s ->
  eval f (ren_expr e) rho (ren_state s) = ren_res (eval f e rho s).
Proof. destruct (rename_all f) as (H & _). apply H. Qed.
Theorem rename_eval_list f es rho s : nfs s ->
  eval_list f (map ren_expr es) rho (ren_state s) = ren_res (eval_list f es rho s).
Proof. destruct (rename_all f) as (_ & H & _). apply H. Qed.
Theorem rename_eval_props f ps rho s : nfs s ->
  eval_props f (ren_props ps) rho (ren_state s) = ren_res (eval_props f ps rho s).
Proof. destruct (rename_all f) as (_ & _ & H & _). apply H. Qed.
Theorem rename_exec f repl st rho s : nfs s -> nf_stmt st ->
  exec f repl (ren_stmt st) rho (ren_state s) = ren_res (exec f repl st rho s).
Proof. destruct (rename_all f) as (_ & _ & _ & H & _). apply H. Qed.
Theorem rename_exec_var f d rho s : nfs s ->
  exec_var f (ren_vdecl d) rho (ren_state s) = ren_res (exec_var f d rho s).
Proof. destruct (rename_all f) as (_ & _ & _ & _ & H & _). apply H. Qed.
Theorem rename_exec_vars f ds rho s : nfs s ->
  exec_vars f (map ren_vdecl ds) rho (ren_state s) = ren_res (exec_vars f ds rho s).
Proof. destruct (rename_all f) as (_ & _ & _ & _ & _ & H & _). apply H. Qed.
Theorem rename_exec_list f repl ss rho s : nfs s -> all_P nf_stmt ss ->
  exec_list f repl (map ren_stmt ss) rho (ren_state s) = ren_res (exec_list f repl ss rho s).
Proof. destruct (rename_all f) as (_ & _ & _ & _ & _ & _ & H & _). apply H. Qed.
Theorem rename_exec_while f repl c b rho s : nfs s -> nf_stmt b ->
  exec_while f repl (ren_expr c) (ren_stmt b) rho (ren_state s) = ren_res (exec_while f repl c b rho s).
Proof. destruct (rename_all f) as (_ & _ & _ & _ & _ & _ & _ & H & _). apply H. Qed.
Theorem rename_exec_for f repl c inc b rho s : nfs s -> nf_stmt b ->
  exec_for f repl (ren_expr c) (ren_oexpr inc) (ren_stmt b) rho (ren_state s) =
    ren_res (exec_for f repl c inc b rho s).
Proof. destruct (rename_all f) as (_ & _ & _ & _ & _ & _ & _ & _ & H). apply H. Qed.

(* ================================================================ *)
(** * 3. Programs *)

(** A whole program, from any store whose closures have fixed names: the renamed
    program run from the renamed store ends in the renamed result. *)
Theorem rename_run f repl : forall ss s, nfs s -> Forall nf_stmt ss ->
  run_stmts f repl (map ren_stmt ss) (ren_state s) = ren_res (run_stmts f repl ss s).
Proof.
  induction ss as [|st ss IH]; intros s Hs Hss; cbn [map Eval.run_stmts]; [reflexivity|].
  inversion Hss as [|? ? H1 H2]; subst.
  apply bind_ren; [apply rename_exec; assumption|apply nf_exec; assumption|].
  intros sig s1 Hs1. destruct sig; try reflexivity. apply IH; assumption.
Qed.

(** the initial store contains only the built-ins, which the renaming fixes *)
Lemma ren_state_init stdin : ren_state (init_state stdin) = init_state stdin.
Proof.
  unfold init_state, RenameDefs.ren_state. cbn [envs arrs objs funs out inp tick map ren_scope fst snd].
  f_equal. f_equal.
  unfold globals_bindings, ren_scope, ren_bindings, all_natives. cbn [map fst snd]. rewrite !r_native. reflexivity.
Qed.

(** what a run of a program shows to the outside: how it ended (and, for a runtime
    error, which diagnostic at which line), what it wrote, how much input is left, how
    many map iterations it performed *)
Inductive ending := EndOk | EndErr (e : rterr) (line : N) | EndFuel | EndStuck | EndCrash.

Definition ending_of {A} (x : res A) : ending :=
  match x with
  | Ok _ _ => EndOk | Err e l _ => EndErr e l | Fuel => EndFuel | Stuck => EndStuck | Crash _ => EndCrash
  end.

Definition observables {A} (x : res A) : ending * option (list event * list N * N) :=
  (ending_of x, match final x with Some s => Some (out s, inp s, tick s) | None => None end).

Lemma observables_ren {A} (x : res A) : observables (ren_res x) = observables x.
Proof. destruct x; reflexivity. Qed.

(** A program and its renamed version, both run from the initial store on the same
    input: same ending (same diagnostic at the same line), same output, same unread
    input, same iteration count. *)
Corollary rename_run_observables f repl ss stdin : Forall nf_stmt ss ->
  observables (run_stmts f repl (map ren_stmt ss) (init_state stdin)) =
  observables (run_stmts f repl ss (init_state stdin)).
Proof.
  intros Hss. rewrite <- (ren_state_init stdin) at 1.
  rewrite rename_run; [apply observables_ren|apply nfs_init|exact Hss].
Qed.

(** ... and the heap cells (arrays, objects) of the final store are identical; scopes
    and closures are the renamed ones *)
Corollary rename_run_final f repl ss stdin s' : Forall nf_stmt ss ->
  final (run_stmts f repl ss (init_state stdin)) = Some s' ->
  final (run_stmts f repl (map ren_stmt ss) (init_state stdin)) = Some (ren_state s').
Proof.
  intros Hss H. rewrite <- (ren_state_init stdin).
  rewrite rename_run; [|apply nfs_init|exact Hss].
  destruct (run_stmts f repl ss (init_state stdin)); simpl in *; try discriminate; injection H as <-; reflexivity.
Qed.

End RenameProof.

Notation names_fixed_stmt := nf_stmt (only parsing).
Notation names_fixed_state := nfs (only parsing).

(* ================================================================ *)
(** * 4. Which renamings qualify; the swap of two names *)

(** The hypotheses are satisfiable: the identity qualifies (trivially), and so does
    every permutation of names that moves neither a built-in name nor a function
    name.  (Appending a fixed suffix to the names outside a given set is in general NOT
    injective: the suffixed name may itself be in the set.)  The basic permutation is the
    swap of two names; any finite renaming of variables and parameters to fresh names
    is a composition of swaps. *)
Lemma id_rename_ok :
  (forall a b : list N, (fun x => x) a = (fun x => x) b -> a = b) /\
  (forall n, (fun x : list N => x) (native_name n) = native_name n).
Proof. split; auto. Qed.

Definition swap (x y z : list N) : list N :=
  if str_eqb z x then y else if str_eqb z y then x else z.

Lemma swap_invol x y z : swap x y (swap x y z) = z.
Proof.
  unfold swap. destruct (str_eqb z x) eqn:E1.
  - apply str_eqb_eq in E1. subst z. destruct (str_eqb y x) eqn:E2.
    + apply str_eqb_eq in E2. exact E2.
    + rewrite str_eqb_refl. reflexivity.
  - destruct (str_eqb z y) eqn:E2.
    + apply str_eqb_eq in E2. subst z. rewrite str_eqb_refl. reflexivity.
    + rewrite E1, E2. reflexivity.
Qed.

Lemma swap_inj x y a b : swap x y a = swap x y b -> a = b.
Proof. intros H. rewrite <- (swap_invol x y a), <- (swap_invol x y b), H. reflexivity. Qed.

Lemma swap_fix x y z : z <> x -> z <> y -> swap x y z = z.
Proof.
  intros Hx Hy. unfold swap.
  apply str_eqb_neq in Hx. apply str_eqb_neq in Hy. rewrite Hx, Hy. reflexivity.
Qed.

Lemma swap_native x y : (forall n, native_name n <> x) -> (forall n, native_name n <> y) ->
  forall n, swap x y (native_name n) = native_name n.
Proof. intros Hx Hy n. apply swap_fix; auto. Qed.

Lemma swap_l x y : swap x y x = y.
Proof. unfold swap. rewrite str_eqb_refl. reflexivity. Qed.

Lemma swap_r x y : swap x y y = x.
Proof.
  unfold swap. destruct (str_eqb y x) eqn:E; [apply str_eqb_eq in E; auto|].
  rewrite str_eqb_refl. reflexivity.
Qed.

(** every function declared anywhere in the statement has a name satisfying [P] *)
Fixpoint fun_names_ok (P : list N -> Prop) (st : stmt) : Prop :=
  match st with
  | SBlock ss => all_P (fun_names_ok P) ss
  | SIf _ t e => fun_names_ok P t /\ match e with Some e' => fun_names_ok P e' | None => True end
  | SWhile _ b => fun_names_ok P b
  | SFor init _ _ b => match init with Some i => fun_names_ok P i | None => True end /\ fun_names_ok P b
  | SFun name _ body => P name /\ all_P (fun_names_ok P) body
  | _ => True
  end.

Fixpoint nf_stmt_of_ok (r : list N -> list N) (P : list N -> Prop) (H : forall n, P n -> r n = n)
    (st : stmt) {struct st} : fun_names_ok P st -> nf_stmt r st.
Proof.
  destruct st as [e|e|d|ds|ss|c t el|c b|init c inc b|line|line|kw v|name params body];
    cbn [fun_names_ok nf_stmt]; try (intros _; exact I).
  - induction ss as [|a ss IHss]; cbn [all_P]; [auto|].
    intros [H1 H2]. split; [exact (nf_stmt_of_ok r P H a H1)|exact (IHss H2)].
  - intros [H1 H2]. split; [exact (nf_stmt_of_ok r P H t H1)|].
    destruct el as [e'|]; [exact (nf_stmt_of_ok r P H e' H2)|exact I].
  - exact (nf_stmt_of_ok r P H b).
  - intros [H1 H2]. split; [|exact (nf_stmt_of_ok r P H b H2)].
    destruct init as [i|]; [exact (nf_stmt_of_ok r P H i H1)|exact I].
  - intros [H1 H2]. split; [exact (H name H1)|]. clear H1. revert H2.
    induction body as [|a body IHb]; cbn [all_P]; [auto|].
    intros [H1 H2]. split; [exact (nf_stmt_of_ok r P H a H1)|exact (IHb H2)].
Qed.

Section Swap.
Variable libm : N -> f64 -> f64 -> f64.
Variable clock : f64.
Variable sched : N -> list (list N * value) -> list (list N * value).
Variables x y : list N.
Hypothesis x_not_native : forall n, native_name n <> x.
Hypothesis y_not_native : forall n, native_name n <> y.

(** Exchanging two names that are neither built-ins nor function names, everywhere in
    a program (uses, declarations, parameters) and in the store it starts from, leaves
    the result unchanged up to the same exchange in the final scopes and closures. *)
Theorem rename_swap_run_state f repl ss s :
  nfs (swap x y) s -> Forall (nf_stmt (swap x y)) ss ->
  run_stmts libm clock sched f repl (map (ren_stmt (swap x y)) ss) (ren_state (swap x y) s) =
  ren_res (swap x y) (run_stmts libm clock sched f repl ss s).
Proof. apply rename_run. apply swap_inj. Qed.

(** ... and from the initial store: same ending, diagnostic, line, output, unread
    input and iteration count.  The side condition is stated on the program text: no
    function is called [x] or [y]. *)
Theorem rename_swap_run f repl ss stdin :
  Forall (fun_names_ok (fun n => n <> x /\ n <> y)) ss ->
  observables (run_stmts libm clock sched f repl (map (ren_stmt (swap x y)) ss) (init_state stdin)) =
  observables (run_stmts libm clock sched f repl ss (init_state stdin)).
Proof.
  intros Hss. apply rename_run_observables.
  - apply swap_inj.
  - apply swap_native; assumption.
  - eapply Forall_impl; [|exact Hss]. intros st Hst.
    apply (nf_stmt_of_ok (swap x y) (fun n => n <> x /\ n <> y)); [|exact Hst].
    intros n [Hx Hy]. apply swap_fix; assumption.
Qed.

End Swap.

(* ================================================================ *)
(** * 5. A concrete program, run both ways *)

Definition libm_d : N -> f64 -> f64 -> f64 := fun _ a _ => a.
Definition sched_d : N -> list (list N * value) -> list (list N * value) := fun _ l => l.

(**  ধরি a = "hi";  ফাংশন f(p) { ফেরত p + a; }  দেখাও f(a);  দেখাও f;
     (a = 97, b = 98, f = 102, g = 103, p = 112) *)
Definition demo : list stmt :=
  [ SVar ([97], Some (ELit (LitStr [104;105]) 1), 1)%N;
    SFun [102]%N [[112]%N] [SReturn 2%N (Some (EBinary TPLUS (EId [112]%N 2%N) (EId [97]%N 2%N) 2%N))];
    SPrint (ECall (EId [102]%N 3%N) 3%N [EId [97]%N 3%N]);
    SPrint (EId [102]%N 4%N) ].

(** the swap a <-> b really changes the program text ... *)
Example demo_renamed :
  map (ren_stmt (swap [97]%N [98]%N)) demo =
  [ SVar ([98], Some (ELit (LitStr [104;105]) 1), 1)%N;
    SFun [102]%N [[112]%N] [SReturn 2%N (Some (EBinary TPLUS (EId [112]%N 2%N) (EId [98]%N 2%N) 2%N))];
    SPrint (ECall (EId [102]%N 3%N) 3%N [EId [98]%N 3%N]);
    SPrint (EId [102]%N 4%N) ].
Proof. reflexivity. Qed.

(** ... its function names avoid a and b, so the theorem applies for every fuel, mode and input ... *)
Example demo_swap_ok : Forall (fun_names_ok (fun n => n <> [97]%N /\ n <> [98]%N)) demo.
Proof. repeat constructor; discriminate. Qed.

Example demo_invariant f repl stdin :
  observables (run_stmts libm_d f_zero sched_d f repl (map (ren_stmt (swap [97]%N [98]%N)) demo) (init_state stdin)) =
  observables (run_stmts libm_d f_zero sched_d f repl demo (init_state stdin)).
Proof.
  apply rename_swap_run; try exact demo_swap_ok; intros n; destruct n; discriminate.
Qed.

(** ... and running the model confirms it: both print "hihi" and "<function f>" *)
Example demo_runs :
  observables (run_stmts libm_d f_zero sched_d 20 false demo (init_state [])) =
    (EndOk, Some ([EvPrint [60;102;117;110;99;116;105;111;110;32;102;62]%N; EvPrint [104;105;104;105]%N], [], 0%N)) /\
  observables (run_stmts libm_d f_zero sched_d 20 false (map (ren_stmt (swap [97]%N [98]%N)) demo) (init_state [])) =
    (EndOk, Some ([EvPrint [60;102;117;110;99;116;105;111;110;32;102;62]%N; EvPrint [104;105;104;105]%N], [], 0%N)).
Proof. split; vm_compute; reflexivity. Qed.

(** Why function names are excluded: the swap f <-> g is injective and fixes the
    built-ins, but the renamed program prints "<function g>". *)
Example function_names_are_observable :
  observables (run_stmts libm_d f_zero sched_d 20 false (map (ren_stmt (swap [102]%N [103]%N)) demo) (init_state [])) <>
  observables (run_stmts libm_d f_zero sched_d 20 false demo (init_state [])).
Proof. vm_compute. discriminate. Qed.

(* ---------------------------------------------------------------- *)
Print Assumptions nf_all.
Print Assumptions rename_all.
Print Assumptions rename_eval.
Print Assumptions rename_exec.
Print Assumptions rename_run.
Print Assumptions rename_run_observables.
Print Assumptions rename_swap_run.
Print Assumptions demo_invariant.
