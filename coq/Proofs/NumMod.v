(** [f_mod] (Go's math.Mod) is the exact remainder of the truncated division, with
    the sign of the dividend. *)
From Coq Require Import ZArith NArith List Bool Lia Reals Lra.
From Flocq Require Import Core BinarySingleNaN.
From Borno Require Import Base Num NumInt NumFacts.
Import ListNotations.
Open Scope R_scope.

(** what [bounded] says about a mantissa/exponent pair of a double *)
Lemma bounded_facts : forall m e, SpecFloat.bounded prec emax m e = true ->
  (Z.pos m < 2 ^ 53)%Z /\ (-1074 <= e <= 971)%Z.
Proof.
  intros m e H. unfold SpecFloat.bounded in H.
  apply andb_true_iff in H. destruct H as [H1 H2].
  apply Z.leb_le in H2. unfold emax, prec in H2.
  unfold SpecFloat.canonical_mantissa in H1. apply Zeq_bool_eq in H1.
  rewrite Digits.Zpos_digits2_pos in H1.
  unfold SpecFloat.fexp, SpecFloat.emin, emax, prec in H1.
  assert (Hd : (Digits.Zdigits radix2 (Z.pos m) <= 53)%Z) by lia.
  apply (Digits.Zpower_gt_Zdigits radix2) in Hd.
  change (Z.pow radix2 53) with (2 ^ 53)%Z in Hd.
  split; [lia|lia].
Qed.

(** a small integer times a power of two above the subnormal threshold is a double *)
Lemma scaled_int_format : forall r e : Z, (Z.abs r < 2 ^ 53)%Z -> (-1074 <= e)%Z ->
  generic_format radix2 fexp64 (F2R (Float radix2 r e)).
Proof.
  intros r e Hr He. apply generic_format_FLT.
  apply (FLT_spec radix2 (-1074) 53 _ (Float radix2 r e)).
  - reflexivity.
  - cbn [Fnum]. exact Hr.
  - cbn [Fexp]. exact He.
Qed.

Lemma Ztrunc_div_pos : forall X Y : Z, (0 <= X)%Z -> (0 < Y)%Z ->
  Ztrunc (IZR X / IZR Y) = (X / Y)%Z.
Proof.
  intros X Y HX HY. rewrite Ztrunc_floor.
  - apply Zfloor_div. lia.
  - apply Rmult_le_pos; [apply IZR_le; exact HX|].
    apply Rlt_le, Rinv_0_lt_compat, IZR_lt. exact HY.
Qed.

Lemma Ztrunc_div_signed : forall sx sy (X Y : Z), (0 <= X)%Z -> (0 < Y)%Z ->
  Ztrunc (IZR (cond_Zopp sx X) / IZR (cond_Zopp sy Y)) = cond_Zopp (xorb sx sy) (X / Y)%Z.
Proof.
  intros sx sy X Y HX HY.
  assert (HYR : IZR Y <> 0) by (apply not_0_IZR; lia).
  destruct sx, sy; cbn [cond_Zopp xorb]; rewrite ?opp_IZR.
  - replace (- IZR X / - IZR Y) with (IZR X / IZR Y) by (field; exact HYR).
    apply Ztrunc_div_pos; assumption.
  - replace (- IZR X / IZR Y) with (- (IZR X / IZR Y)) by (field; exact HYR).
    rewrite Ztrunc_opp. f_equal. apply Ztrunc_div_pos; assumption.
  - replace (IZR X / - IZR Y) with (- (IZR X / IZR Y)) by (field; exact HYR).
    rewrite Ztrunc_opp. f_equal. apply Ztrunc_div_pos; assumption.
  - apply Ztrunc_div_pos; assumption.
Qed.

(** aligning a mantissa to a smaller exponent *)
Lemma align_exp : forall (m ex e : Z), (e <= ex)%Z ->
  IZR m * bpow radix2 ex = IZR (m * 2 ^ (ex - e)) * bpow radix2 e.
Proof.
  intros m ex e He. rewrite mult_IZR.
  rewrite <- (bpow_nonneg_IZR (ex - e)) by lia.
  rewrite Rmult_assoc, <- bpow_plus. f_equal. f_equal. lia.
Qed.

(** the model's [f_mod] on two finite non-zero doubles *)
Lemma f_mod_finite_eq : forall sx mx ex Hx sy my ey Hy,
  f_mod (B754_finite sx mx ex Hx) (B754_finite sy my ey Hy) =
  f_of_Z2 (cond_Zopp sx ((Z.pos mx * 2 ^ (ex - Z.min ex ey)) mod
                          (Z.pos my * 2 ^ (ey - Z.min ex ey)))) (Z.min ex ey) sx.
Proof. reflexivity. Qed.

(** Exactness of [f_mod] for a finite non-zero dividend and divisor. *)
Lemma f_mod_exact_finite : forall sx mx ex Hx sy my ey Hy,
  let x : f64 := B754_finite sx mx ex Hx in
  let y : f64 := B754_finite sy my ey Hy in
  is_finite (f_mod x y) = true /\
  B2R (f_mod x y) = B2R x - IZR (Ztrunc (B2R x / B2R y)) * B2R y /\
  Bsign (f_mod x y) = sx.
Proof.
  intros sx mx ex Hx sy my ey Hy x y. subst x y.
  rewrite f_mod_finite_eq, !B2R_finite.
  destruct (bounded_facts mx ex Hx) as [Hmx Hex].
  destruct (bounded_facts my ey Hy) as [Hmy Hey].
  set (e := Z.min ex ey).
  assert (Hee : (e <= ex)%Z /\ (e <= ey)%Z /\ (-1074 <= e)%Z) by (unfold e; lia).
  destruct Hee as (He1 & He2 & He3).
  pose proof (pow2_pos (ex - e) ltac:(lia)) as HPx.
  pose proof (pow2_pos (ey - e) ltac:(lia)) as HPy.
  set (X := (Z.pos mx * 2 ^ (ex - e))%Z).
  set (Y := (Z.pos my * 2 ^ (ey - e))%Z).
  assert (HX : (0 < X)%Z) by (unfold X; lia).
  assert (HY : (0 < Y)%Z) by (unfold Y; lia).
  pose proof (Z.div_mod X Y ltac:(lia)) as Hdm.
  pose proof (Z.mod_pos_bound X Y HY) as Hrb.
  set (q := (X / Y)%Z) in *. set (r := (X mod Y)%Z) in *.
  (* r has at most 53 bits: it is at most X and below Y, one of which is a mantissa *)
  assert (Hq : (0 <= q)%Z) by (unfold q; apply Z.div_pos; lia).
  assert (HrX : (r <= X)%Z) by nia.
  assert (Hr53 : (r < 2 ^ 53)%Z).
  { destruct (Z.le_ge_cases ex ey) as [Hc|Hc].
    - assert (Ee : e = ex) by (unfold e; lia).
      assert (X = Z.pos mx) by (unfold X; rewrite Ee, Z.sub_diag; simpl; lia). lia.
    - assert (Ee : e = ey) by (unfold e; lia).
      assert (Y = Z.pos my) by (unfold Y; rewrite Ee, Z.sub_diag; simpl; lia). lia. }
  (* the values of x and y over the common exponent e *)
  assert (Ex : IZR (cond_Zopp sx (Z.pos mx)) * bpow radix2 ex = IZR (cond_Zopp sx X) * bpow radix2 e).
  { rewrite (align_exp _ ex e He1). f_equal. f_equal. unfold X.
    rewrite cond_Zopp_mul. reflexivity. }
  assert (Ey : IZR (cond_Zopp sy (Z.pos my)) * bpow radix2 ey = IZR (cond_Zopp sy Y) * bpow radix2 e).
  { rewrite (align_exp _ ey e He2). f_equal. f_equal. unfold Y.
    rewrite cond_Zopp_mul. reflexivity. }
  rewrite Ex, Ey.
  assert (Hbe : bpow radix2 e <> 0) by (apply Rgt_not_eq, bpow_gt_0).
  assert (HYs : IZR (cond_Zopp sy Y) <> 0).
  { apply not_0_IZR. destruct sy; cbn [cond_Zopp]; lia. }
  replace (IZR (cond_Zopp sx X) * bpow radix2 e / (IZR (cond_Zopp sy Y) * bpow radix2 e))
    with (IZR (cond_Zopp sx X) / IZR (cond_Zopp sy Y)) by (field; split; assumption).
  rewrite (Ztrunc_div_signed sx sy X Y ltac:(lia) HY). fold q.
  (* the exact remainder as a real *)
  assert (Hval : F2R (Float radix2 (cond_Zopp sx r) e) =
                 IZR (cond_Zopp sx X) * bpow radix2 e -
                 IZR (cond_Zopp (xorb sx sy) q) * (IZR (cond_Zopp sy Y) * bpow radix2 e)).
  { unfold F2R. cbn [Fnum Fexp].
    assert (HXR : IZR X = IZR Y * IZR q + IZR r).
    { rewrite <- mult_IZR, <- plus_IZR. f_equal. exact Hdm. }
    destruct sx, sy; cbn [cond_Zopp xorb]; rewrite ?opp_IZR, HXR; ring. }
  rewrite <- Hval.
  (* Flocq: normalisation of an exactly representable value is exact *)
  unfold f_of_Z2.
  pose proof (binary_normalize_correct prec emax Hprec Hmax mode_NE (cond_Zopp sx r) e sx) as Hn.
  cbv zeta in Hn.
  change (round_mode mode_NE) with ZnearestE in Hn.
  change (SpecFloat.fexp prec emax) with (FLT_exp (-1074) 53) in Hn.
  change (bpow radix2 emax) with bmax in Hn.
  assert (Hfmt : generic_format radix2 fexp64 (F2R (Float radix2 (cond_Zopp sx r) e))).
  { apply scaled_int_format; [|exact He3]. rewrite abs_cond_Zopp. lia. }
  rewrite (round_generic radix2 fexp64 ZnearestE _ Hfmt) in Hn.
  assert (Hlt : Rabs (F2R (Float radix2 (cond_Zopp sx r) e)) < bmax).
  { rewrite <- F2R_Zabs, abs_cond_Zopp, Z.abs_eq by lia.
    apply Rle_lt_trans with (F2R (Float radix2 X e)).
    - apply F2R_le. exact HrX.
    - pose proof (bounded_lt_emax prec emax mx ex Hx) as Hb.
      change (bpow radix2 emax) with bmax in Hb.
      unfold F2R in *. cbn [Fnum Fexp] in *.
      rewrite (align_exp _ ex e He1) in Hb. exact Hb. }
  rewrite Rlt_bool_true in Hn by exact Hlt.
  destruct Hn as (Hn1 & Hn2 & Hn3).
  split; [exact Hn2|split; [exact Hn1|]].
  rewrite Hn3.
  destruct (Z.eq_dec r 0) as [Hr0|Hr0].
  - rewrite Hr0. replace (cond_Zopp sx 0) with 0%Z by (destruct sx; reflexivity).
    rewrite F2R_0, Rcompare_Eq; reflexivity.
  - destruct sx; cbn [cond_Zopp].
    + rewrite Rcompare_Lt; [reflexivity|]. apply F2R_lt_0. cbn [Fnum]. lia.
    + rewrite Rcompare_Gt; [reflexivity|]. apply F2R_gt_0. cbn [Fnum]. lia.
Qed.

(** [f_mod x y] for finite [x] and finite non-zero [y]: finite, and exactly
    [x - trunc(x / y) * y].  (No rounding happens: math.Mod is exact.) *)
Theorem f_mod_exact : forall x y : f64,
  is_finite x = true -> is_finite_strict y = true ->
  is_finite (f_mod x y) = true /\
  B2R (f_mod x y) = B2R x - IZR (Ztrunc (B2R x / B2R y)) * B2R y.
Proof.
  intros x y Hx Hy.
  destruct y as [sy|sy| |sy my ey Hby]; try discriminate.
  destruct x as [sx|sx| |sx mx ex Hbx]; try discriminate.
  - cbn [f_mod is_finite B2R]. split; [reflexivity|].
    unfold Rdiv. rewrite Rmult_0_l, Ztrunc_IZR. simpl. ring.
  - destruct (f_mod_exact_finite sx mx ex Hbx sy my ey Hby) as (H1 & H2 & _).
    split; assumption.
Qed.

(** the result has the sign of the dividend (also when it is a zero) *)
Theorem f_mod_sign : forall x y : f64,
  is_finite x = true -> is_finite_strict y = true -> Bsign (f_mod x y) = Bsign x.
Proof.
  intros x y Hx Hy.
  destruct y as [sy|sy| |sy my ey Hby]; try discriminate.
  destruct x as [sx|sx| |sx mx ex Hbx]; try discriminate.
  - reflexivity.
  - destruct (f_mod_exact_finite sx mx ex Hbx sy my ey Hby) as (_ & _ & H3). exact H3.
Qed.

(** the remainder is smaller in magnitude than the divisor, and not larger than the dividend *)
Theorem f_mod_bound : forall x y : f64,
  is_finite x = true -> is_finite_strict y = true ->
  Rabs (B2R (f_mod x y)) < Rabs (B2R y) /\ Rabs (B2R (f_mod x y)) <= Rabs (B2R x).
Proof.
  intros x y Hx Hy.
  destruct (f_mod_exact x y Hx Hy) as [_ HR].
  assert (Hy0 : B2R y <> 0) by (apply B2R_nonzero; exact Hy).
  set (a := B2R x) in *. set (b := B2R y) in *. set (t := a / b).
  assert (Ea : a = t * b) by (unfold t; field; exact Hy0).
  assert (Hm : B2R (f_mod x y) = (t - IZR (Ztrunc t)) * b).
  { rewrite HR. fold t. rewrite Ea at 1. ring. }
  rewrite Hm, Rabs_mult.
  assert (Hb : 0 < Rabs b) by (apply Rabs_pos_lt; exact Hy0).
  assert (Ht : Rabs (t - IZR (Ztrunc t)) < 1 /\ Rabs (t - IZR (Ztrunc t)) <= Rabs t).
  { destruct (Rle_or_lt 0 t) as [H0|H0].
    - rewrite Ztrunc_floor by exact H0.
      pose proof (Zfloor_lb t) as Hl. pose proof (Zfloor_ub t) as Hu.
      assert (0 <= IZR (Zfloor t)).
      { apply (IZR_le 0). apply Zfloor_lub. exact H0. }
      rewrite !Rabs_pos_eq by lra. lra.
    - rewrite Ztrunc_ceil by lra.
      pose proof (Zceil_ub t) as Hu.
      assert (Hl : IZR (Zceil t) < t + 1).
      { unfold Zceil. rewrite opp_IZR. pose proof (Zfloor_ub (- t)) as H1.
        pose proof (Zfloor_lb (- t)) as H2.
        destruct (Req_dec (IZR (Zfloor (- t))) (- t)) as [E|E]; [lra|lra]. }
      assert (IZR (Zceil t) <= 0).
      { apply (IZR_le _ 0). apply Zceil_glb. lra. }
      rewrite !Rabs_left1 by lra. lra. }
  destruct Ht as [Ht1 Ht2]. split.
  - rewrite <- (Rmult_1_l (Rabs b)) at 2. apply Rmult_lt_compat_r; assumption.
  - replace (Rabs a) with (Rabs t * Rabs b) by (rewrite <- Rabs_mult, <- Ea; reflexivity).
    apply Rmult_le_compat_r; [lra|exact Ht2].
Qed.

(** the remaining cases of [f_mod], as Go's math.Mod specifies them *)
Theorem f_mod_special : forall x y : f64,
  (is_nan x = true \/ is_nan y = true -> f_mod x y = B754_nan) /\
  (is_finite x = false -> f_mod x y = B754_nan) /\
  (forall s, y = B754_zero s -> f_mod x y = B754_nan) /\
  (forall s, is_finite x = true -> y = B754_infinity s -> f_mod x y = x).
Proof.
  intros x y. split; [|split; [|split]].
  - intros [H|H].
    + destruct x; try discriminate. reflexivity.
    + destruct y; try discriminate. destruct x as [s|s| |s m e Hb]; reflexivity.
  - intros H. destruct x as [s|s| |s m e Hb]; try discriminate.
    + destruct y; reflexivity.
    + reflexivity.
  - intros s ->. destruct x as [s'|s'| |s' m e Hb]; reflexivity.
  - intros s H ->. destruct x as [s'|s'| |s' m e Hb]; try discriminate; reflexivity.
Qed.

Print Assumptions f_mod_exact.
Print Assumptions f_mod_sign.
Print Assumptions f_mod_bound.
