(** Properties of the NFC model [Model/Nfc.v].

    Part A (generic in the tables): the canonical-ordering pass [reorder] is a stable sort of
    each run of marks ([reorder_perm], [reorder_canon], [reorder_ordered], [reorder_stable],
    [reorder_app_starter], [reorder_fixed]); the composition pass can be undone by
    decomposing and reordering again ([compose_undo]) provided a composed pair decomposes
    into its parts (the table lemma [compose_pair_decomp] of [NfcTables.v]).

    Part B (the concrete tables [the_tabs]): strings of "calm" characters are fixed by [nfc]
    ([nfc_calm], [nfc_ascii], the Bangla block); [decompose] is idempotent; NFC output is
    canonically equivalent to the input ([nfc_canon_equiv]); [nfc] is idempotent ([nfc_idem]).

    Part C: examples by computation. *)
From Coq Require Import FMapPositive Permutation.
From Borno Require Import Base GenNfc Nfc NfcTables.
Open Scope N_scope.

(* ================================================================== *)
(** * Part A: generic in the tables *)

Section Generic.
Variable T : tabs.
Notation cc := (ccc T).

Lemma decompose_cons : forall c s, decompose T (c :: s) = decompose1 T c ++ decompose T s.
Proof. reflexivity. Qed.

Lemma decompose_app : forall a b, decompose T (a ++ b) = decompose T a ++ decompose T b.
Proof. intros a b. unfold decompose. apply flat_map_app. Qed.

Lemma decompose_stable : forall l, Forall (fun m => decompose1 T m = [m]) l -> decompose T l = l.
Proof.
  induction l as [|c l IH]; intros H; [reflexivity|].
  inversion H as [|c' l' H1 H2]; subst. rewrite decompose_cons, H1, IH by exact H2. reflexivity.
Qed.

(** ** The reordering pass, one character at a time *)

Definition rstep (acc : list N) (c : N) : list N :=
  if cc c =? 0 then c :: acc else insert_mark T c (cc c) acc.

Lemma reorder_eq : forall s, reorder T s = rev (fold_left rstep s []).
Proof. intros s. unfold reorder. rewrite rev_append_rev, app_nil_r. reflexivity. Qed.

Lemma insert_mark_cons : forall c k p r,
  insert_mark T c k (p :: r) =
  if (0 <? cc p) && (k <? cc p) then p :: insert_mark T c k r else c :: p :: r.
Proof. reflexivity. Qed.

(** class of the most recent character of a reversed prefix *)
Definition headccc (rp : list N) : N := match rp with c :: _ => cc c | [] => 0 end.

(** [c] may follow a character of class [k] in canonical order *)
Definition okstep (k c : N) : Prop := cc c = 0 \/ k <= cc c.

(** canonical order: no mark is immediately preceded by a mark of strictly greater class *)
Fixpoint canon_from (k : N) (l : list N) : Prop :=
  match l with
  | [] => True
  | c :: r => okstep k c /\ canon_from (cc c) r
  end.
Definition canon (l : list N) : Prop := canon_from 0 l.

Lemma insert_stop : forall acc c, cc c <> 0 -> okstep (headccc acc) c ->
  insert_mark T c (cc c) acc = c :: acc.
Proof.
  intros [|p r] c Hc [H|H]; try reflexivity; try contradiction.
  rewrite insert_mark_cons. simpl in H.
  assert (E : cc c <? cc p = false) by (apply N.ltb_ge; exact H).
  rewrite E, andb_false_r. reflexivity.
Qed.

Lemma rstep_stop : forall acc c, okstep (headccc acc) c -> rstep acc c = c :: acc.
Proof.
  intros acc c H. unfold rstep. destruct (cc c =? 0) eqn:E; [reflexivity|].
  apply N.eqb_neq in E. now apply insert_stop.
Qed.

Lemma fold_canon : forall l acc, canon_from (headccc acc) l -> fold_left rstep l acc = rev l ++ acc.
Proof.
  induction l as [|c l IH]; intros acc H; [reflexivity|].
  destruct H as [H1 H2]. simpl. rewrite rstep_stop by exact H1.
  rewrite IH by exact H2. rewrite <- app_assoc. reflexivity.
Qed.

(** a canonically ordered string is left alone *)
Theorem reorder_fixed : forall s, canon s -> reorder T s = s.
Proof.
  intros s H. rewrite reorder_eq, fold_canon by exact H. rewrite app_nil_r. apply rev_involutive.
Qed.

(** ** The output of [reorder] is canonically ordered *)

Fixpoint rcanon (rp : list N) : Prop :=
  match rp with
  | [] => True
  | p :: r => okstep (headccc r) p /\ rcanon r
  end.

Lemma insert_head : forall r c,
  headccc (insert_mark T c (cc c) r) = cc c \/ headccc (insert_mark T c (cc c) r) = headccc r.
Proof.
  intros [|p r] c; [left; reflexivity|].
  rewrite insert_mark_cons. destruct ((0 <? cc p) && (cc c <? cc p)); [right|left]; reflexivity.
Qed.

Lemma insert_rcanon : forall r c, rcanon r -> rcanon (insert_mark T c (cc c) r).
Proof.
  induction r as [|p r IH]; intros c H.
  - simpl. split; [right; apply N.le_0_l|exact I].
  - rewrite insert_mark_cons. destruct H as [H1 H2].
    destruct ((0 <? cc p) && (cc c <? cc p)) eqn:B.
    + apply andb_true_iff in B. destruct B as [B1 B2]. apply N.ltb_lt in B1, B2.
      split; [|now apply IH].
      destruct (insert_head r c) as [E|E]; rewrite E.
      * right. lia.
      * exact H1.
    + split; [|split; assumption].
      right. simpl. apply andb_false_iff in B. destruct B as [B|B].
      * apply N.ltb_ge in B. lia.
      * apply N.ltb_ge in B. exact B.
Qed.

Lemma rstep_rcanon : forall acc c, rcanon acc -> rcanon (rstep acc c).
Proof.
  intros acc c H. unfold rstep. destruct (cc c =? 0) eqn:E.
  - apply N.eqb_eq in E. split; [now left|exact H].
  - now apply insert_rcanon.
Qed.

Lemma fold_rcanon : forall l acc, rcanon acc -> rcanon (fold_left rstep l acc).
Proof.
  induction l as [|c l IH]; intros acc H; [exact H|]. simpl. apply IH. now apply rstep_rcanon.
Qed.

Lemma rcanon_rev : forall rp l, rcanon rp -> canon_from (headccc rp) l -> canon (rev rp ++ l).
Proof.
  induction rp as [|p r IH]; intros l H1 H2; [exact H2|].
  simpl. rewrite <- app_assoc. simpl. destruct H1 as [H1 H1']. apply IH; [exact H1'|].
  split; [exact H1|exact H2].
Qed.

Theorem reorder_canon : forall s, canon (reorder T s).
Proof.
  intros s. rewrite reorder_eq. rewrite <- (app_nil_r (rev _)).
  apply rcanon_rev; [|exact I]. apply fold_rcanon. exact I.
Qed.

Lemma canon_adjacent : forall l1 k a b l2, canon_from k (l1 ++ a :: b :: l2) -> okstep (cc a) b.
Proof.
  induction l1 as [|x l1 IH]; intros k a b l2 H.
  - destruct H as [_ [H _]]. exact H.
  - destruct H as [_ H]. exact (IH _ _ _ _ H).
Qed.

(** in the output no character of class k > 0 is immediately preceded by one of class > k *)
Theorem reorder_ordered : forall s l1 a b l2,
  reorder T s = l1 ++ a :: b :: l2 -> cc b = 0 \/ cc a <= cc b.
Proof.
  intros s l1 a b l2 E. pose proof (reorder_canon s) as H. rewrite E in H.
  exact (canon_adjacent _ _ _ _ _ H).
Qed.

(** ** [reorder] permutes, stably, and never across a starter *)

Lemma insert_perm : forall r c k, Permutation (insert_mark T c k r) (c :: r).
Proof.
  induction r as [|p r IH]; intros c k; [apply Permutation_refl|].
  rewrite insert_mark_cons. destruct ((0 <? cc p) && (k <? cc p)); [|apply Permutation_refl].
  eapply Permutation_trans; [apply perm_skip; apply IH|apply perm_swap].
Qed.

Lemma rstep_perm : forall acc c, Permutation (rstep acc c) (c :: acc).
Proof.
  intros acc c. unfold rstep. destruct (cc c =? 0); [apply Permutation_refl|apply insert_perm].
Qed.

Lemma fold_perm : forall l acc, Permutation (fold_left rstep l acc) (rev l ++ acc).
Proof.
  induction l as [|c l IH]; intros acc; [apply Permutation_refl|].
  simpl. eapply Permutation_trans; [apply IH|].
  rewrite <- app_assoc. simpl. apply Permutation_app_head. apply rstep_perm.
Qed.

Theorem reorder_perm : forall s, Permutation (reorder T s) s.
Proof.
  intros s. rewrite reorder_eq.
  eapply Permutation_trans; [apply Permutation_sym; apply Permutation_rev|].
  eapply Permutation_trans; [apply fold_perm|]. rewrite app_nil_r.
  apply Permutation_sym. apply Permutation_rev.
Qed.

Lemma perm_Forall : forall (P : N -> Prop) l l', Permutation l l' -> Forall P l' -> Forall P l.
Proof.
  intros P l l' HP H. rewrite Forall_forall in *. intros x Hx. apply H.
  eapply Permutation_in; [exact HP|exact Hx].
Qed.

Lemma filter_rev' : forall (P : N -> bool) l, filter P (rev l) = rev (filter P l).
Proof.
  intros P. induction l as [|x l IH]; [reflexivity|].
  simpl. rewrite filter_app, IH. simpl. destruct (P x); [reflexivity|apply app_nil_r].
Qed.

Lemma insert_filter : forall j r c,
  filter (fun x => cc x =? j) (insert_mark T c (cc c) r) = filter (fun x => cc x =? j) (c :: r).
Proof.
  intros j. induction r as [|p r IH]; intros c; [reflexivity|].
  rewrite insert_mark_cons. destruct ((0 <? cc p) && (cc c <? cc p)) eqn:B; [|reflexivity].
  apply andb_true_iff in B. destruct B as [_ B]. apply N.ltb_lt in B.
  change (filter (fun x => cc x =? j) (p :: insert_mark T c (cc c) r))
    with (if cc p =? j then p :: filter (fun x => cc x =? j) (insert_mark T c (cc c) r)
          else filter (fun x => cc x =? j) (insert_mark T c (cc c) r)).
  rewrite IH. simpl.
  destruct (cc p =? j) eqn:Ep; destruct (cc c =? j) eqn:Ec; try reflexivity.
  apply N.eqb_eq in Ep, Ec. lia.
Qed.

Lemma fold_filter : forall j l acc,
  filter (fun x => cc x =? j) (fold_left rstep l acc) = filter (fun x => cc x =? j) (rev l ++ acc).
Proof.
  intros j. induction l as [|c l IH]; intros acc; [reflexivity|].
  simpl. rewrite IH. rewrite <- app_assoc. change ([c] ++ acc) with (c :: acc).
  rewrite !filter_app. f_equal.
  unfold rstep. destruct (cc c =? 0); [reflexivity|]. apply insert_filter.
Qed.

(** stability: the characters of each class keep their relative order (for class 0: the
    starters are exactly where they were, relative to each other) *)
Theorem reorder_stable : forall j s,
  filter (fun x => cc x =? j) (reorder T s) = filter (fun x => cc x =? j) s.
Proof.
  intros j s. rewrite reorder_eq, filter_rev', fold_filter, app_nil_r, filter_rev'.
  f_equal. apply rev_involutive.
Qed.

Lemma insert_app_starter : forall a1 c0 a2 x k, cc c0 = 0 ->
  insert_mark T x k (a1 ++ c0 :: a2) = insert_mark T x k a1 ++ c0 :: a2.
Proof.
  induction a1 as [|p a1 IH]; intros c0 a2 x k H.
  - simpl. rewrite H. reflexivity.
  - simpl. destruct ((0 <? cc p) && (k <? cc p)); [|reflexivity].
    simpl. f_equal. now apply IH.
Qed.

Lemma fold_app_starter : forall l a1 c0 a2, cc c0 = 0 ->
  fold_left rstep l (a1 ++ c0 :: a2) = fold_left rstep l a1 ++ c0 :: a2.
Proof.
  induction l as [|x l IH]; intros a1 c0 a2 H; [reflexivity|].
  simpl. unfold rstep at 2 4. destruct (cc x =? 0).
  - rewrite app_comm_cons. now apply IH.
  - rewrite insert_app_starter by exact H. now apply IH.
Qed.

(** marks never move across a starter: the pass works segment by segment *)
Theorem reorder_app_starter : forall s1 c s2, cc c = 0 ->
  reorder T (s1 ++ c :: s2) = reorder T s1 ++ c :: reorder T s2.
Proof.
  intros s1 c s2 H. rewrite !reorder_eq. rewrite fold_left_app. simpl.
  unfold rstep at 2. rewrite H. simpl.
  change (c :: fold_left rstep s1 []) with ([] ++ c :: fold_left rstep s1 []).
  rewrite fold_app_starter by exact H.
  rewrite rev_app_distr. simpl. rewrite <- app_assoc. reflexivity.
Qed.

(** ** Inserting a mark commutes with inserting marks of smaller class *)

Lemma insert_comm : forall r c1 c2, 0 < cc c1 -> cc c1 < cc c2 ->
  insert_mark T c1 (cc c1) (insert_mark T c2 (cc c2) r) =
  insert_mark T c2 (cc c2) (insert_mark T c1 (cc c1) r).
Proof.
  induction r as [|p r IH]; intros c1 c2 H0 H12.
  - simpl.
    assert (E1 : (0 <? cc c2) && (cc c1 <? cc c2) = true).
    { apply andb_true_iff. split; apply N.ltb_lt; lia. }
    assert (E2 : (0 <? cc c1) && (cc c2 <? cc c1) = false).
    { apply andb_false_iff. right. apply N.ltb_ge. lia. }
    rewrite E1, E2. reflexivity.
  - rewrite (insert_mark_cons c2), (insert_mark_cons c1 (cc c1) p r).
    destruct ((0 <? cc p) && (cc c2 <? cc p)) eqn:B2.
    + assert (B1 : (0 <? cc p) && (cc c1 <? cc p) = true).
      { apply andb_true_iff in B2. destruct B2 as [X Y]. apply N.ltb_lt in X, Y.
        apply andb_true_iff. split; apply N.ltb_lt; lia. }
      rewrite B1. rewrite !insert_mark_cons. rewrite B1, B2. f_equal. now apply IH.
    + assert (E1 : (0 <? cc c2) && (cc c1 <? cc c2) = true).
      { apply andb_true_iff. split; apply N.ltb_lt; lia. }
      rewrite (insert_mark_cons c1 (cc c1) c2). rewrite E1.
      rewrite (insert_mark_cons c1 (cc c1) p r).
      destruct ((0 <? cc p) && (cc c1 <? cc p)) eqn:B1.
      * rewrite insert_mark_cons. rewrite B2. reflexivity.
      * rewrite insert_mark_cons.
        assert (E2 : (0 <? cc c1) && (cc c2 <? cc c1) = false).
        { apply andb_false_iff. right. apply N.ltb_ge. lia. }
        rewrite E2. reflexivity.
Qed.

Lemma fold_insert_comm : forall M acc c, Forall (fun m => 0 < cc m < cc c) M ->
  fold_left rstep M (insert_mark T c (cc c) acc) = insert_mark T c (cc c) (fold_left rstep M acc).
Proof.
  induction M as [|m M IH]; intros acc c H; [reflexivity|].
  inversion H as [|m' M' [Hm1 Hm2] HM]; subst. simpl.
  assert (E : cc m =? 0 = false) by (apply N.eqb_neq; lia).
  unfold rstep at 2 4. rewrite E.
  rewrite insert_comm by assumption. now apply IH.
Qed.

(** a character that may stay at the end, inserted before marks of smaller class, ends up
    at the end anyway *)
Lemma fold_insert : forall D M c acc0, Forall (fun m => 0 < cc m < cc c) M ->
  okstep (headccc (fold_left rstep (D ++ M) acc0)) c ->
  fold_left rstep (D ++ c :: M) acc0 = c :: fold_left rstep (D ++ M) acc0.
Proof.
  intros D M c acc0 HM Hok. rewrite !fold_left_app in *. simpl.
  destruct (cc c =? 0) eqn:E.
  - destruct M as [|m M].
    + simpl. unfold rstep. rewrite E. reflexivity.
    + apply N.eqb_eq in E. inversion HM as [|m' M' Hm _]; subst. lia.
  - unfold rstep at 2. rewrite E. rewrite fold_insert_comm by exact HM.
    apply N.eqb_neq in E. now apply insert_stop.
Qed.

(** ** Composition *)

(** what [compose] would output if the input ended in this state *)
Definition out (st : cstate) : list N :=
  rev (c_done st) ++ match c_starter st with Some x => x :: rev (c_pend st) | None => [] end.

Lemma compose_out : forall s, compose T s = out (fold_left (compose_step T) s (mkC [] None [] 0)).
Proof.
  intros s. unfold compose, out. rewrite rev_append_rev, app_nil_r.
  destruct (c_starter _); [|now rewrite app_nil_r].
  rewrite rev_app_distr. simpl. rewrite <- app_assoc. reflexivity.
Qed.

(** characters that are never composed with what precedes: the pass is the identity *)
Lemma compose_nocomp_from : forall l d x,
  Forall (fun c => cc c = 0 /\ forall y, compose_pair T y c = None) l ->
  out (fold_left (compose_step T) l (mkC d (Some x) [] 0)) = rev d ++ x :: l.
Proof.
  induction l as [|c l IH]; intros d x H; [reflexivity|].
  inversion H as [|c' l' [Hc Hp] Hl]; subst.
  simpl. unfold compose_step at 2. simpl. rewrite Hp, Hc. simpl.
  rewrite IH by exact Hl. simpl. rewrite <- app_assoc. reflexivity.
Qed.

Lemma compose_nocomp : forall l,
  Forall (fun c => cc c = 0 /\ forall y, compose_pair T y c = None) l -> compose T l = l.
Proof.
  intros [|c l] H; [reflexivity|]. rewrite compose_out.
  inversion H as [|c' l' [Hc Hp] Hl]; subst.
  simpl. unfold compose_step at 2. simpl. rewrite Hc. simpl.
  now rewrite compose_nocomp_from.
Qed.

Lemma canon_zero : forall l k, Forall (fun c => cc c = 0) l -> canon_from k l.
Proof.
  induction l as [|c l IH]; intros k H; [exact I|].
  inversion H as [|c' l' Hc Hl]; subst. split; [now left|now apply IH].
Qed.

(** ** Undoing the composition pass *)

(** the table property used: a composed pair decomposes into its parts *)
Hypothesis Hcomp : forall a b x, validb b = true ->
  compose_pair T a b = Some x -> decompose1 T x = decompose1 T a ++ [b].

(** valid and not decomposable *)
Definition sg (c : N) : Prop := validb c = true /\ decompose1 T c = [c].

Definition pend_ok (rp : list N) (st : cstate) : Prop :=
  match c_starter st with
  | Some _ => Forall (fun m => decompose1 T m = [m] /\ 0 < cc m <= c_last st) (c_pend st)
              /\ c_last st <= headccc rp
  | None => True
  end.

(** [rp]: the input consumed so far, reversed; it is recovered from the output so far by
    decomposing and reordering *)
Definition Inv (rp : list N) (st : cstate) : Prop :=
  fold_left rstep (decompose T (out st)) [] = rp /\ pend_ok rp st.

Lemma fold_snoc_out : forall X rp c,
  fold_left rstep (decompose T X) [] = rp -> decompose1 T c = [c] -> okstep (headccc rp) c ->
  fold_left rstep (decompose T (X ++ [c])) [] = c :: rp.
Proof.
  intros X rp c H Hc Hok. rewrite decompose_app, decompose_cons, Hc. simpl.
  rewrite fold_left_app, H. simpl. now apply rstep_stop.
Qed.

Lemma out_some : forall d x p l, out (mkC d (Some x) p l) = rev d ++ x :: rev p.
Proof. reflexivity. Qed.

Lemma step_nocomp : forall rp d x p l c,
  Inv rp (mkC d (Some x) p l) -> okstep (headccc rp) c -> sg c ->
  Inv (c :: rp) (if cc c =? 0 then mkC (p ++ x :: d) (Some c) [] 0 else mkC d (Some x) (c :: p) (cc c)).
Proof.
  intros rp d x p l c [H1 H2] Hok [Hv Hs]. unfold pend_ok in H2. simpl in H2.
  destruct H2 as [HF HL]. rewrite out_some in H1.
  destruct (cc c =? 0) eqn:E.
  - split.
    + rewrite out_some. simpl rev at 2.
      assert (X : rev (p ++ x :: d) ++ [c] = (rev d ++ x :: rev p) ++ [c]).
      { rewrite rev_app_distr. simpl. rewrite <- !app_assoc. reflexivity. }
      rewrite X. now apply fold_snoc_out.
    + unfold pend_ok. simpl. split; [constructor|apply N.le_0_l].
  - apply N.eqb_neq in E. split.
    + rewrite out_some.
      assert (X : rev d ++ x :: rev (c :: p) = (rev d ++ x :: rev p) ++ [c]).
      { simpl. rewrite <- app_assoc. reflexivity. }
      rewrite X. now apply fold_snoc_out.
    + unfold pend_ok. simpl.
      assert (L : l <= cc c). { destruct Hok as [Z|Z]; [contradiction|lia]. }
      split; [|apply N.le_refl].
      constructor; [split; [exact Hs|lia]|].
      eapply Forall_impl; [|exact HF]. intros m [Hm1 Hm2]. split; [exact Hm1|lia].
Qed.

Lemma step_inv : forall rp st c,
  Inv rp st -> okstep (headccc rp) c -> sg c -> Inv (c :: rp) (compose_step T st c).
Proof.
  intros rp [d [x|] p l] c HI Hok Hsg.
  - unfold compose_step. simpl c_starter. simpl c_last. simpl c_done. simpl c_pend.
    destruct ((l <? cc c) || (l =? 0)) eqn:U.
    + destruct (compose_pair T x c) as [x'|] eqn:P; [|now apply (step_nocomp rp d x p l c)].
      destruct HI as [H1 H2]. unfold pend_ok in H2. simpl in H2. destruct H2 as [HF HL].
      destruct Hsg as [Hv Hs]. rewrite out_some in H1.
      assert (L : l < cc c \/ l = 0).
      { apply orb_true_iff in U. destruct U as [U|U]; [left; now apply N.ltb_lt|right; now apply N.eqb_eq]. }
      split.
      * rewrite out_some. rewrite decompose_app, decompose_cons in *.
        rewrite (Hcomp _ _ _ Hv P).
        assert (SP : decompose T (rev p) = rev p).
        { apply decompose_stable. apply Forall_rev. eapply Forall_impl; [|exact HF]. now intros m [Hm _]. }
        rewrite SP in *.
        assert (X : decompose T (rev d) ++ (decompose1 T x ++ [c]) ++ rev p
                    = (decompose T (rev d) ++ decompose1 T x) ++ c :: rev p).
        { rewrite <- !app_assoc. reflexivity. }
        rewrite X. rewrite app_assoc in H1.
        rewrite fold_insert.
        -- rewrite H1. reflexivity.
        -- apply Forall_rev. eapply Forall_impl; [|exact HF]. intros m [_ Hm]. lia.
        -- rewrite H1. exact Hok.
      * unfold pend_ok. simpl. split; [exact HF|]. lia.
    + now apply (step_nocomp rp d x p l c).
  - destruct HI as [H1 _]. destruct Hsg as [Hv Hs]. unfold compose_step. simpl c_starter. simpl c_done.
    unfold out in H1. simpl in H1. rewrite app_nil_r in H1.
    destruct (cc c =? 0) eqn:E.
    + split; [|unfold pend_ok; simpl; split; [constructor|apply N.le_0_l]].
      rewrite out_some. simpl rev at 2. now apply fold_snoc_out.
    + split; [|exact I]. unfold out. simpl. rewrite app_nil_r. now apply fold_snoc_out.
Qed.

Lemma compose_inv : forall l rp st,
  Inv rp st -> canon_from (headccc rp) l -> Forall sg l ->
  Inv (rev l ++ rp) (fold_left (compose_step T) l st).
Proof.
  induction l as [|c l IH]; intros rp st HI HC HS; [exact HI|].
  destruct HC as [HC1 HC2]. inversion HS as [|c' l' HS1 HS2]; subst.
  simpl. rewrite <- app_assoc. simpl. apply IH; [|exact HC2|exact HS2].
  now apply step_inv.
Qed.

(** On a canonically ordered string of valid, undecomposable characters, decomposing and
    reordering the composed string gives the string back. *)
Theorem compose_undo : forall u, canon u -> Forall sg u ->
  reorder T (decompose T (compose T u)) = u.
Proof.
  intros u HC HS. rewrite reorder_eq, compose_out.
  assert (I0 : Inv [] (mkC [] None [] 0)) by (split; [reflexivity|exact I]).
  destruct (compose_inv u [] _ I0 HC HS) as [H _].
  rewrite H, app_nil_r. apply rev_involutive.
Qed.

End Generic.

(* ================================================================== *)
(** * Part B: the concrete tables *)

(** ** Calm characters *)

Definition in_V (c : N) : bool := (VBase <=? c) && (c <? VBase + VCount).
Definition in_T (c : N) : bool := (TBase <? c) && (c <? TBase + TCount).

(** a valid code point that has no decomposition (in the table or as a Hangul syllable), has
    combining class 0, is not the second component of a primary composite, and is not a
    Hangul vowel or trailing-consonant jamo *)
Definition calm (c : N) : bool :=
  validb c && negb (is_syl c) && negb (has_nfd c) && (ccc TT c =? 0)
  && negb (is_second c) && negb (in_V c) && negb (in_T c).

Lemma calm_spec : forall c, calm c = true ->
  validb c = true /\ is_syl c = false /\ has_nfd c = false /\ ccc TT c = 0 /\
  is_second c = false /\ in_V c = false /\ in_T c = false.
Proof.
  intros c H. unfold calm in H.
  rewrite !andb_true_iff, !negb_true_iff, N.eqb_eq in H. tauto.
Qed.

Lemma calm_decompose1 : forall c, calm c = true -> decompose1 TT c = [c].
Proof.
  intros c H. apply calm_spec in H. destruct H as (_ & H1 & H2 & _).
  apply stableb_decompose1. unfold stableb. rewrite H1, (nfd_find_none _ H2). reflexivity.
Qed.

Lemma calm_compose_pair : forall c x, calm c = true -> compose_pair TT x c = None.
Proof.
  intros c x H. apply calm_spec in H. destruct H as (Hv & _ & _ & _ & H2 & HV & HT).
  unfold compose_pair.
  assert (E1 : (LBase <=? x) && (x <? LBase + LCount) && (VBase <=? c) && (c <? VBase + VCount) = false).
  { unfold in_V in HV. destruct (LBase <=? x), (x <? LBase + LCount); simpl; try reflexivity. exact HV. }
  assert (E2 : (SBase <=? x) && (x <? SBase + SCount) && ((x - SBase) mod TCount =? 0)
               && (TBase <? c) && (c <? TBase + TCount) = false).
  { unfold in_T in HT.
    destruct (SBase <=? x), (x <? SBase + SCount), ((x - SBase) mod TCount =? 0); simpl; try reflexivity.
    exact HT. }
  rewrite E1, E2. apply comp_find_none; [|exact H2].
  unfold validb in Hv. apply N.ltb_lt in Hv. lia.
Qed.

(** a string of calm characters is its own NFC *)
Theorem nfc_calm : forall s, forallb calm s = true -> nfc s = s.
Proof.
  intros s H. rewrite forallb_forall in H.
  change (nfc s) with (compose TT (reorder TT (decompose TT s))).
  assert (D : decompose TT s = s).
  { apply decompose_stable. apply Forall_forall. intros c Hc. apply calm_decompose1. now apply H. }
  rewrite D.
  assert (R : reorder TT s = s).
  { apply reorder_fixed. apply canon_zero. apply Forall_forall. intros c Hc.
    specialize (H _ Hc). apply calm_spec in H. tauto. }
  rewrite R.
  apply compose_nocomp. apply Forall_forall. intros c Hc. specialize (H _ Hc). split.
  - apply calm_spec in H. tauto.
  - intros y. now apply calm_compose_pair.
Qed.

Lemma calm_ascii_sweep : forallb calm (Nrange (N.to_nat 128) 0) = true.
Proof. vm_compute. reflexivity. Qed.

Lemma calm_ascii : forall c, c < 128 -> calm c = true.
Proof.
  intros c H. apply (Nrange_sweep calm 0 128 calm_ascii_sweep); [apply N.le_0_l|exact H].
Qed.

Theorem nfc_ascii : forall s, Forall (fun c => c < 128) s -> nfc s = s.
Proof.
  intros s H. apply nfc_calm. apply forallb_forall. intros c Hc.
  rewrite Forall_forall in H. apply calm_ascii. now apply H.
Qed.

(** The Bangla block U+0980..U+09FF: exactly these ten code points are not calm
    (nukta: class 7; aa and the au length mark: second components of U+09CB, U+09CC;
    o and au: decompose; virama: class 9; rra, rha, yya: decompose; U+09FE sandhi mark: class 230). *)
Definition bangla_not_calm : list N := [2492; 2494; 2507; 2508; 2509; 2519; 2524; 2525; 2527; 2558].

Lemma bangla_calm_sweep :
  filter (fun c => negb (calm c)) (Nrange 128 2432) = bangla_not_calm.
Proof. vm_compute. reflexivity. Qed.

Lemma filter_negb_not_in : forall (P : N -> bool) l c,
  In c l -> ~ In c (filter (fun x => negb (P x)) l) -> P c = true.
Proof.
  intros P l c Hc Hn. destruct (P c) eqn:E; [reflexivity|].
  exfalso. apply Hn. apply filter_In. split; [exact Hc|]. now rewrite E.
Qed.

Lemma bangla_calm : forall c, 2432 <= c -> c <= 2559 -> ~ In c bangla_not_calm -> calm c = true.
Proof.
  intros c H1 H2 Hn. apply (filter_negb_not_in calm (Nrange 128 2432)).
  - apply in_Nrange; [exact H1|]. simpl. lia.
  - rewrite bangla_calm_sweep. exact Hn.
Qed.

Lemma bangla_not_calm_spec : forall c, In c bangla_not_calm -> calm c = false.
Proof.
  intros c H. rewrite <- bangla_calm_sweep in H.
  destruct (proj1 (filter_In (fun c => negb (calm c)) c (Nrange 128 2432)) H) as [_ H'].
  apply negb_true_iff. exact H'.
Qed.

(** why each of the ten is not calm *)
Lemma bangla_not_calm_reasons :
  map (fun c => (c, ccc TT c, has_nfd c, is_second c)) bangla_not_calm =
  [ (2492, 7, false, false); (2494, 0, false, true); (2507, 0, true, false); (2508, 0, true, false);
    (2509, 9, false, false); (2519, 0, false, true); (2524, 0, true, false); (2525, 0, true, false);
    (2527, 0, true, false); (2558, 230, false, false) ].
Proof. vm_compute. reflexivity. Qed.

(** Bangla text without those ten code points (and ASCII) is untouched *)
Theorem nfc_bangla_calm : forall s,
  Forall (fun c => c < 128 \/ (2432 <= c /\ c <= 2559 /\ ~ In c bangla_not_calm)) s -> nfc s = s.
Proof.
  intros s H. apply nfc_calm. apply forallb_forall. intros c Hc.
  rewrite Forall_forall in H. destruct (H _ Hc) as [A|(B1 & B2 & B3)].
  - now apply calm_ascii.
  - now apply bangla_calm.
Qed.

(** ** [decompose] is idempotent *)

Lemma good_stable : forall l, forallb (good TT) l = true -> forallb (stableb TT) l = true.
Proof.
  intros l H. rewrite forallb_forall in *. intros x Hx. specialize (H _ Hx).
  unfold good in H. apply andb_true_iff in H. tauto.
Qed.

Lemma decompose1_stable : forall c, forallb (stableb TT) (decompose1 TT c) = true.
Proof.
  intros c. destruct (is_syl c) eqn:S.
  - apply good_stable. unfold is_syl in S. apply andb_true_iff in S. destruct S as [S1 S2].
    apply N.leb_le in S1. apply N.ltb_lt in S2.
    exact (Nrange_sweep (fun c => forallb (good TT) (decompose1 TT c)) SBase SCount syl_decomp_good c S1 S2).
  - destruct (PositiveMap.find (ckey c) (t_nfd TT)) as [d|] eqn:E.
    + assert (D : decompose1 TT c = d).
      { unfold decompose1. unfold is_syl in S. rewrite S. rewrite E. reflexivity. }
      rewrite D. apply nfd_find_some in E. apply good_stable.
      pose proof nfd_entries_good as G. rewrite forallb_forall in G. exact (G _ E).
    + assert (St : stableb TT c = true).
      { unfold stableb. rewrite S, E. reflexivity. }
      rewrite (stableb_decompose1 _ _ St). simpl. rewrite St. reflexivity.
Qed.

Lemma decompose_all_stable : forall s, Forall (fun m => decompose1 TT m = [m]) (decompose TT s).
Proof.
  induction s as [|c s IH]; [constructor|].
  rewrite decompose_cons. apply Forall_app. split; [|exact IH].
  apply Forall_forall. intros x Hx. apply stableb_decompose1.
  pose proof (decompose1_stable c) as H. rewrite forallb_forall in H. now apply H.
Qed.

(** every character produced by the decomposition pass is itself undecomposable *)
Theorem decompose_fixed : forall s, decompose TT (decompose TT s) = decompose TT s.
Proof. intros s. apply decompose_stable. apply decompose_all_stable. Qed.

(** ** Canonical equivalence of the output, idempotence *)

Definition valid (s : list N) : Prop := Forall (fun c => c < 1114112) s.

Lemma decompose_all_sg : forall s, valid s -> Forall (sg TT) (decompose TT s).
Proof.
  induction s as [|c s IH]; intros H; [constructor|].
  inversion H as [|c' s' Hc Hs]; subst.
  rewrite decompose_cons. apply Forall_app. split; [|now apply IH].
  apply Forall_forall. intros x Hx.
  assert (V : validb c = true) by (unfold validb; now apply N.ltb_lt).
  pose proof (decompose1_good c V) as G. rewrite forallb_forall in G. specialize (G _ Hx).
  unfold good in G. apply andb_true_iff in G. destruct G as [G1 G2].
  split; [exact G1|now apply stableb_decompose1].
Qed.

(** The NFD of the NFC of a string is the NFD of the string: [nfc] stays inside the
    canonical-equivalence class of its input.  (Valid code points only: see the note on
    [pair_key] in the report; [nfc [0; 136315648]] = [[192]] in the model.) *)
Theorem nfc_canon_equiv : forall s, valid s ->
  reorder TT (decompose TT (nfc s)) = reorder TT (decompose TT s).
Proof.
  intros s H. change (nfc s) with (compose TT (reorder TT (decompose TT s))).
  apply (compose_undo TT compose_pair_decomp).
  - apply reorder_canon.
  - eapply perm_Forall; [apply reorder_perm|]. now apply decompose_all_sg.
Qed.

(** canonically equivalent inputs have the same NFC *)
Theorem nfc_respects_equiv : forall s1 s2,
  reorder TT (decompose TT s1) = reorder TT (decompose TT s2) -> nfc s1 = nfc s2.
Proof.
  intros s1 s2 H.
  change (nfc s1) with (compose TT (reorder TT (decompose TT s1))).
  change (nfc s2) with (compose TT (reorder TT (decompose TT s2))).
  now rewrite H.
Qed.

Theorem nfc_idem : forall s, valid s -> nfc (nfc s) = nfc s.
Proof. intros s H. apply nfc_respects_equiv. now apply nfc_canon_equiv. Qed.


(** NFD as a function; the statements above in that vocabulary *)
Definition nfd (s : list N) : list N := reorder TT (decompose TT s).

Theorem nfd_idem : forall s, nfd (nfd s) = nfd s.
Proof.
  intros s. unfold nfd.
  assert (D : decompose TT (reorder TT (decompose TT s)) = reorder TT (decompose TT s)).
  { apply decompose_stable. eapply perm_Forall; [apply reorder_perm|]. apply decompose_all_stable. }
  rewrite D. apply reorder_fixed. apply reorder_canon.
Qed.

Theorem nfc_of_nfd : forall s, nfc (nfd s) = nfc s.
Proof. intros s. apply nfc_respects_equiv. apply nfd_idem. Qed.

Theorem nfd_of_nfc : forall s, valid s -> nfd (nfc s) = nfd s.
Proof. exact nfc_canon_equiv. Qed.

(** the decompositions of the table are listed in canonical order *)
Lemma nfd_entries_ordered :
  forallb (fun kv : N * list N => list_eqb (reorder TT (snd kv)) (snd kv)) gen_nfd = true.
Proof. vm_compute. reflexivity. Qed.

(** instances of the generic theorems at the concrete tables, for reference *)
Definition reorder_perm_TT := reorder_perm TT.
Definition reorder_canon_TT := reorder_canon TT.
Definition reorder_ordered_TT := reorder_ordered TT.
Definition reorder_stable_TT := reorder_stable TT.
Definition reorder_app_starter_TT := reorder_app_starter TT.
Definition reorder_fixed_TT := reorder_fixed TT.

(* ================================================================== *)
(** * Part C: examples *)

(** U+09DF is a composition exclusion: NFC prints it decomposed, and leaves the pair alone *)
Example ex_yya : nfc [2527] = [2479; 2492].            Proof. vm_compute. reflexivity. Qed.
Example ex_ya_nukta : nfc [2479; 2492] = [2479; 2492]. Proof. vm_compute. reflexivity. Qed.
Example ex_rra : nfc [2524] = [2465; 2492].            Proof. vm_compute. reflexivity. Qed.
Example ex_dda_nukta : nfc [2465; 2492] = [2465; 2492]. Proof. vm_compute. reflexivity. Qed.
(** the two-part vowel signs compose *)
Example ex_o : nfc [2503; 2494] = [2507].              Proof. vm_compute. reflexivity. Qed.
Example ex_au : nfc [2503; 2519] = [2508].             Proof. vm_compute. reflexivity. Qed.
Example ex_o_fixed : nfc [2507] = [2507].              Proof. vm_compute. reflexivity. Qed.
(** Latin *)
Example ex_e_acute : nfc [101; 769] = [233].           Proof. vm_compute. reflexivity. Qed.
Example ex_angstrom : nfc [8491] = [197].              Proof. vm_compute. reflexivity. Qed.
(** reordering of marks (dot above 230, dot below 220) *)
Example ex_reorder : nfc [113; 775; 803] = [113; 803; 775]. Proof. vm_compute. reflexivity. Qed.
(** two marks composed in turn; a second mark with no composite; a mark blocked by a kept
    mark of the same class (U+0363, class 230) *)
Example ex_two_marks : nfc [97; 803; 774] = [7863].    Proof. vm_compute. reflexivity. Qed.
Example ex_no_pair : nfc [97; 769; 768] = [225; 768].  Proof. vm_compute. reflexivity. Qed.
Example ex_blocked : nfc [97; 867; 769] = [97; 867; 769]. Proof. vm_compute. reflexivity. Qed.
Example ex_unblocked : nfc [97; 820; 769] = [225; 820]. Proof. vm_compute. reflexivity. Qed.
(** Hangul *)
Example ex_hangul_lvt : nfc [4352; 4449; 4520] = [44033]. Proof. vm_compute. reflexivity. Qed.
Example ex_hangul_lv : nfc [4352; 4449] = [44032].     Proof. vm_compute. reflexivity. Qed.
Example ex_hangul_dec : decompose TT [44033] = [4352; 4449; 4520]. Proof. vm_compute. reflexivity. Qed.
(** outside the code-point range [pair_key] is not injective *)
Example ex_invalid : nfc [0; 136315648] = [192].       Proof. vm_compute. reflexivity. Qed.


(** Twenty-two edge cases (multi-step composition, Hangul, blocking, leading marks, reordering
    across classes, exclusions, singletons, supplementary planes) on which the model's output
    equals what [norm.NFC.String] of golang.org/x/text v0.21.0 printed. *)
Definition go_cases : list (list N * list N) := [
  ([3270; 3266; 3285], [3275]); ([44032; 4520], [44033]); ([44032; 4519], [44032; 4519]);
  ([44033; 4520], [44033; 4520]); ([4352; 769; 4449], [4352; 769; 4449]);
  ([2503; 769; 2494], [2503; 769; 2494]); ([2503; 2494; 2492], [2507; 2492]); ([769; 65; 769], [769; 193]);
  ([97; 789; 768; 1454; 768; 98], [224; 1454; 768; 789; 98]); ([68; 775; 803], [7692; 775]);
  ([7690; 803], [7692; 775]); ([3953; 3954], [3953; 3954]); ([3955], [3953; 3954]); ([836], [776; 769]);
  ([8486; 8491; 63744; 194560], [937; 197; 35912; 20029]); ([4370; 4469; 4546; 4546], [55203; 4546]);
  ([65; 778; 769], [506]); ([4352; 4449; 769; 4520], [44032; 769; 4520]); ([71989; 71984], [71992]);
  ([119127; 119141], [119127; 119141]); ([2887; 2902; 2878], [2888; 2878]); ([97; 808; 769; 803], [261; 803; 769]) ].
Example ex_go_cases : forallb (fun p => list_eqb (nfc (fst p)) (snd p)) go_cases = true.
Proof. vm_compute. reflexivity. Qed.

(** A run of 31 marks.  This is UAX #15 NFC; x/text is "stream-safe" and inserts U+034F (847)
    after 30 non-starters, printing [225; 769 x 29; 847; 769] here: the model does not. *)
Example ex_long_run : nfc (97 :: repeat 769 31) = 225 :: repeat 769 30.
Proof. vm_compute. reflexivity. Qed.

Print Assumptions nfc_calm.
Print Assumptions nfc_ascii.
Print Assumptions nfc_bangla_calm.
Print Assumptions decompose_fixed.
Print Assumptions nfc_canon_equiv.
Print Assumptions nfc_idem.
