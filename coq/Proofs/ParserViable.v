(** Viable prefixes, part 2: the expression level.

    Every expression-parsing function satisfies [Via] (ParserViableDefs.v); the
    theorem [pexpr_viable] follows: when [pexpr] fails, the tokens consumed before
    the token named by the diagnostic can be completed to an accepted expression
    -- unless they contain an [=] after a non-assignable left side; then the text
    before that [=] can be completed and nothing that includes it can. *)
From Borno Require Import Base Num Token Ast Parser.
From Borno Require Import ParserEqs ParserMono Grammar ParserSC_Base ParserSound ParserPrefixDefs ParserViableDefs.
Open Scope nat_scope.

(** * An expression function issues at most one diagnostic, and none on success *)

Definition one {A} (r : pres A) : Prop :=
  match r with POk _ _ ds => ds = [] | PErr ds => exists d, ds = [d] | PFuel => True end.

Lemma one_bind {A B} (r : pres A) (k : A -> list token -> pres B) :
  one r -> (forall a rest, one (k a rest)) -> one (pbind r k).
Proof.
  destruct r as [a rest ds| ds|]; simpl; auto. intros -> Hk. specialize (Hk a rest).
  destruct (k a rest) as [b rest' ds'| ds'|]; simpl in *; auto.
Qed.

Ltac one_leaf :=
  lazymatch goal with
  | |- one (POk _ _ _) => reflexivity
  | |- one (PErr _) => eexists; reflexivity
  | |- one (Parser.perr_at _ _ _) => eexists; reflexivity
  | |- one _ => match goal with H : _ |- _ => apply H end
  end.
Ltac one_step :=
  lazymatch goal with
  | |- one (pbind (match _ with _ => _ end) _) => apply one_bind; [| intros ? ?; cbv beta zeta]
  | |- one (pbind _ _) => apply one_bind; [one_leaf | intros ? ?; cbv beta zeta]
  | |- one (match ?x with _ => _ end) => destruct x
  | |- one _ => one_leaf
  end.
Ltac one_all := cbv beta zeta; repeat one_step.

Section Viable.
Variable eofl : N.

Notation pexpr := (Parser.pexpr eofl).
Notation plevel := (Parser.plevel eofl).
Notation ploop := (Parser.ploop eofl).
Notation punary := (Parser.punary eofl).
Notation pcallloop := (Parser.pcallloop eofl).
Notation pargs := (Parser.pargs eofl).
Notation pprimary := (Parser.pprimary eofl).
Notation pprops := (Parser.pprops eofl).
Notation consume := (Parser.consume eofl).
Notation perr_at := (Parser.perr_at eofl).
Notation diag_at := (Parser.diag_at eofl).
Notation Via := (ParserViableDefs.Via eofl false).
Notation FN := (ParserViableDefs.FN eofl).
Notation FNw := (ParserViableDefs.FNw eofl).
Notation online := (ParserViableDefs.online eofl).
Notation mk := (ParserViableDefs.mk eofl).
Notation idtok := (ParserViableDefs.idtok eofl).

(** the tree of the completion identifier *)
Definition idE : expr := EId [120%N] eofl.

(** * Stops and the one-identifier completion *)

Lemma ploop_stop' g l lv e u : C_lv (l :: lv) u -> ploop (S g) l lv e u = POk e u [].
Proof.
  intros H. rewrite ploop_S. destruct u as [|t r]; [reflexivity|].
  rewrite (C_lv_head_out _ _ _ _ H). reflexivity.
Qed.

Lemma pcallloop_stop' g e u : C_post u -> pcallloop (S g) e u = POk e u [].
Proof.
  intros H. rewrite pcallloop_S. destruct u as [|t r]; [reflexivity|].
  unfold C_post, stopk, post_stop in H. destruct (tk t); try reflexivity; discriminate H.
Qed.

Lemma id_pprimary g u : pprimary (S g) (idtok :: u) = POk idE u [].
Proof. reflexivity. Qed.

Lemma id_punary g u : C_post u -> 2 <= g -> punary g (idtok :: u) = POk idE u [].
Proof.
  intros H Hg. destruct g as [|[|g]]; try lia. rewrite punary_S.
  change (kind_in (tk idtok) unary_ops) with false. cbv iota.
  rewrite id_pprimary, pb_ret. apply pcallloop_stop', H.
Qed.

Lemma id_plevel lv : forall g u, C_lv lv u -> length lv + 3 <= g -> plevel g lv (idtok :: u) = POk idE u [].
Proof.
  induction lv as [|l lv IH]; intros g u H Hg; (destruct g as [|g]; [simpl in Hg; lia|]); rewrite plevel_S.
  - apply id_punary; [eapply C_lv_post, H|simpl in Hg; lia].
  - rewrite IH; [|eapply C_lv_cons, H|simpl in Hg; lia]. rewrite pb_ret.
    destruct g as [|g]; [simpl in Hg; lia|]. apply ploop_stop', H.
Qed.

Lemma id_pexpr g u : C_e u -> 15 <= g -> pexpr g (idtok :: u) = POk idE u [].
Proof.
  intros H Hg. destruct g as [|g]; [lia|]. rewrite pexpr_S.
  rewrite id_plevel; [|apply C_e_lv, H|simpl; lia]. rewrite pb_ret.
  destruct u as [|t r]; [reflexivity|]. rewrite (C_e_not_eq _ _ H). reflexivity.
Qed.

Lemma id_pargs g u : C_args u -> 16 <= g -> pargs g (idtok :: u) = POk [idE] u [].
Proof.
  intros H Hg. destruct g as [|g]; [lia|]. rewrite pargs_S.
  rewrite id_pexpr; [|apply C_args_e, H|lia]. rewrite pb_ret. rewrite (C_args_not_comma _ H). reflexivity.
Qed.

Lemma online1 t : tline t = eofl -> online [t].
Proof. intros H. constructor; [exact H|constructor]. Qed.

Lemma FN_pexpr : FN C_e (fun g => pexpr g) [idtok].
Proof. split; [apply online1; reflexivity|]. intros u Cu. exists 15, idE. intros g Hg. apply id_pexpr; auto. Qed.
Lemma FN_plevel lv : FN (C_lv lv) (fun g => plevel g lv) [idtok].
Proof. split; [apply online1; reflexivity|]. intros u Cu. exists (length lv + 3), idE. intros g Hg. apply id_plevel; auto. Qed.
Lemma FN_punary : FN C_post (fun g => punary g) [idtok].
Proof. split; [apply online1; reflexivity|]. intros u Cu. exists 2, idE. intros g Hg. apply id_punary; auto. Qed.
Lemma FN_pargs : FN C_args (fun g => pargs g) [idtok].
Proof. split; [apply online1; reflexivity|]. intros u Cu. exists 16, [idE]. intros g Hg. apply id_pargs; auto. Qed.

(** loops complete from nothing by stopping *)
Lemma FNw_ploop l lv : FNw (C_lv lv) (C_lv (l :: lv)) (fun g e r => ploop g l lv e r) [].
Proof.
  split; [constructor|]. intros u Cu. split; [eapply C_lv_cons, Cu|].
  intros a. exists 1, a. intros g Hg. destruct g as [|g]; [lia|]. apply ploop_stop', Cu.
Qed.
Lemma FNw_pcallloop (C' : list token -> Prop) {A} (k : A -> expr) :
  (forall u, C_post u -> C' u) -> FNw C' C_post (fun g a r => pcallloop g (k a) r) [].
Proof.
  intros S. split; [constructor|]. intros u Cu. split; [apply S, Cu|].
  intros a. exists 1, (k a). intros g Hg. destruct g as [|g]; [lia|]. apply pcallloop_stop', Cu.
Qed.

(** * The main induction *)

(** the continuation of [pexpr] after its left side *)
Definition assignK (g : nat) (e : expr) (r : list token) : pres expr :=
  match r with
  | eq :: r1 =>
      if tkind_eqb (tk eq) TEQUAL then
        pbind (pexpr g r1) (fun v r2 =>
          match e with
          | EId name nline => POk (EAssign name nline v (tline eq)) r2 []
          | EIndex a i _ => POk (EArrAssign a i v (tline eq)) r2 []
          | EProp o p _ => POk (EPropAssign o p v (tline eq)) r2 []
          | _ => PErr [diag_tok eq PInvalidAssign]
          end)
      else POk e r []
  | [] => POk e r []
  end.
Lemma pexpr_S' g ts : pexpr (S g) ts = pbind (plevel g ladder ts) (assignK g).
Proof. reflexivity. Qed.

Lemma assignK_stop g e u : C_e u -> assignK g e u = POk e u [].
Proof. intros H. destruct u as [|t r]; [reflexivity|]. simpl. rewrite (C_e_not_eq _ _ H). reflexivity. Qed.

Lemma FNw_assignK : FNw (C_lv ladder) C_e assignK [].
Proof.
  split; [constructor|]. intros u Cu. split; [apply C_e_lv, Cu|].
  intros a. exists 0, a. intros g _. apply assignK_stop, Cu.
Qed.

Definition ViaE (f : nat) : Prop :=
  (forall ts, Via true C_e (fun g => pexpr g) f ts) /\
  (forall lv ts, Via true (C_lv lv) (fun g => plevel g lv) f ts) /\
  (forall l lv e ts, Via false (C_lv (l :: lv)) (fun g => ploop g l lv e) f ts) /\
  (forall ts, Via true C_post (fun g => punary g) f ts) /\
  (forall e ts, Via false C_post (fun g => pcallloop g e) f ts) /\
  (forall ts, Via true C_args (fun g => pargs g) f ts) /\
  (forall ts, Via true C_any (fun g => pprimary g) f ts) /\
  (forall acc ts, Via false C_props (fun g => pprops g acc) f ts).

Lemma viaE_pexpr f : ViaE f -> forall ts, Via true C_e (fun g => pexpr g) (S f) ts.
Proof.
  intros (Ie & Il & _) ts. apply Via_shift.
  eapply Via_ext_all; [intros g y; rewrite pexpr_S'; reflexivity|]. cbv beta.
  assert (Gen : (forall a r1, plevel f ladder ts = POk a r1 [] -> Via false C_e (fun g => assignK g a) f r1) ->
                Via true C_e (fun g x => pbind (plevel g ladder x) (assignK g)) f ts).
  { intros HY. apply (Via_bind eofl false true false (C_lv ladder) C_e (fun g => plevel g ladder) assignK f ts []).
    - apply Il.
    - intros a r1 EX _. apply HY, EX.
    - right. apply C_e_lv.
    - apply FNw_assignK. }
  destruct (plevel f ladder ts) as [e r1 [|d0 ds0]| ds0|] eqn:E1; try (apply Gen; intros a r1' EX; discriminate EX).
  destruct r1 as [|eq r1'].
  { apply Gen. intros a r EX. inv EX. apply (Via_stop_ok eofl false _ _ a).
    intros g y [S|Cy]; [same_head S; reflexivity|apply assignK_stop, Cy]. }
  destruct (tkind_eqb (tk eq) TEQUAL) eqn:Eq.
  2:{ apply Gen. intros a r EX. inv EX. apply (Via_stop_ok eofl false _ _ a).
      intros g y [S|Cy]; [same_head S; simpl; rewrite Eq; reflexivity|apply assignK_stop, Cy]. }
  destruct (is_target e) eqn:T.
  - apply Gen. intros a r EX. inv EX. apply Via_weaken.
    destruct a as [v ln|name line|e0 ln|op e0 ln|op l0 r0 ln|op l0 r0|x nl v ln|a1 a2 v ln|o p v ln|c pl args|a1 a2 ln|a p ln|es|ps];
      try discriminate T.
    + eapply (Via_cons eofl false true C_e _
                (fun g x => pbind (pexpr g x) (fun v r2 => POk (EAssign name line v (tline eq)) r2 [])) f eq r1' [idtok]).
      * intros g x. simpl. rewrite Eq. reflexivity.
      * apply (FN_map eofl C_e (fun g => pexpr g) (fun v => EAssign name line v (tline eq))), FN_pexpr.
      * apply (Via_map eofl false true C_e (fun g => pexpr g) (fun v => EAssign name line v (tline eq))), Ie.
    + eapply (Via_cons eofl false true C_e _
                (fun g x => pbind (pexpr g x) (fun v r2 => POk (EArrAssign a1 a2 v (tline eq)) r2 [])) f eq r1' [idtok]).
      * intros g x. simpl. rewrite Eq. reflexivity.
      * apply (FN_map eofl C_e (fun g => pexpr g) (fun v => EArrAssign a1 a2 v (tline eq))), FN_pexpr.
      * apply (Via_map eofl false true C_e (fun g => pexpr g) (fun v => EArrAssign a1 a2 v (tline eq))), Ie.
    + eapply (Via_cons eofl false true C_e _
                (fun g x => pbind (pexpr g x) (fun v r2 => POk (EPropAssign a p v (tline eq)) r2 [])) f eq r1' [idtok]).
      * intros g x. simpl. rewrite Eq. reflexivity.
      * apply (FN_map eofl C_e (fun g => pexpr g) (fun v => EPropAssign a p v (tline eq))), FN_pexpr.
      * apply (Via_map eofl false true C_e (fun g => pexpr g) (fun v => EPropAssign a p v (tline eq))), Ie.
  - (* the left side is not assignable *)
    pose proof (Il ladder ts) as V1. unfold ParserViableDefs.Via in V1. rewrite E1 in V1.
    destruct V1 as (p1 & Ets & Hne1 & R1).
    assert (EK : forall g x, assignK g e (eq :: x) = pbind (pexpr g x) (fun _ _ => PErr [diag_tok eq PInvalidAssign])).
    { intros g x. simpl. rewrite Eq. destruct e; try discriminate T; reflexivity. }
    assert (LB : LhsBad p1).
    { destruct (plevel_sound eofl f 0 ts e (eq :: r1') [] (Nat.le_0_l _) E1) as (_ & W & pre & Ets' & Y).
      rewrite Ets in Ets'. apply app_inv_tail in Ets'. subst pre.
      exists [], p1, (erase_e e). split; [reflexivity|]. split; [exact W|]. split; [exact Y|].
      rewrite is_target_erase. exact T. }
    (* nothing that starts with the left side and the [=] parses cleanly ... *)
    assert (NCeq : forall rem0, NC (fun g x => pbind (plevel g ladder x) (assignK g)) f p1 (eq :: rem0)).
    { intros rem0 g rem' Hg S. same_head S. rewrite R1; [|exact Hg|left; reflexivity]. rewrite pb_ret, EK.
      destruct (pexpr g r2) as [v' r' ds'| ds'|]; simpl; exact I. }
    (* ... but the left side on its own is an expression *)
    assert (Vp1 : Viab eofl C_e (fun g x => pbind (plevel g ladder x) (assignK g)) p1).
    { exists []. split; [constructor|]. intros u Cu.
      exists f, e. intros g Hg. cbn [app]. rewrite R1; [|exact Hg|right; apply C_e_lv, Cu].
      rewrite pb_ret. apply assignK_stop, Cu. }
    pose proof (Ie r1') as V2. unfold ParserViableDefs.Via in V2 |- *. cbv beta.
    rewrite E1, pb_ret, EK.
    assert (FDb : forall d, FDv eofl false C_e (fun g => pexpr g) f r1' d ->
                  FDv eofl false C_e (fun g x => pbind (plevel g ladder x) (assignK g)) f ts d).
    { intros d (pre3 & rem & Er & Ed & N3 & _). exists (p1 ++ eq :: pre3), rem.
      split; [subst ts r1'; rewrite <- app_assoc; reflexivity|]. split; [exact Ed|].
      split.
      { intros g rem' Hg S. rewrite <- app_assoc. cbn [app].
        rewrite R1; [|exact Hg|left; reflexivity]. rewrite pb_ret, EK. apply notclean_bind_l, N3; auto. }
      intros _. left. exists p1, eq, pre3. split; [reflexivity|].
      split; [left; split; [apply tkind_eqb_eq, Eq|exact LB]|]. split; [apply NCeq|intros _; exact Vp1]. }
    destruct (pexpr f r1') as [v r2 [|d ds]| [|d ds]|] eqn:E2; simpl; auto.
    exists p1, (eq :: r1'). split; [exact Ets|]. split; [reflexivity|].
    split; [apply NCeq|]. intros _. right. exact Vp1.
Qed.

Lemma viaE_plevel f : ViaE f -> forall lv ts, Via true (C_lv lv) (fun g => plevel g lv) (S f) ts.
Proof.
  intros (_ & Il & Ilo & Iu & _) lv ts. apply Via_shift. destruct lv as [|l lv'].
  - eapply Via_ext_all; [intros g y; rewrite plevel_S; reflexivity|].
    eapply Via_sub; [|apply Iu]. apply C_lv_post.
  - eapply Via_ext_all; [intros g y; rewrite plevel_S; reflexivity|]. cbv beta.
    apply (Via_bind eofl false true false (C_lv lv') (C_lv (l :: lv')) (fun g => plevel g lv')
             (fun g e r => ploop g l lv' e r) f ts []).
    + apply Il.
    + intros a r1 _ _. apply Ilo.
    + right. apply C_lv_cons.
    + apply FNw_ploop.
Qed.

Lemma viaE_ploop f : ViaE f -> forall l lv e ts, Via false (C_lv (l :: lv)) (fun g => ploop g l lv e) (S f) ts.
Proof.
  intros (_ & Il & Ilo & _) l lv' e ts. apply Via_shift. destruct ts as [|op r].
  { apply (Via_stop_ok eofl false _ _ e). intros g y [S|Cy]; [same_head S; reflexivity|apply ploop_stop', Cy]. }
  destruct (kind_in (tk op) (fst l)) eqn:K.
  - apply Via_weaken.
    eapply (Via_cons eofl false true _ _
              (fun g x => pbind (plevel g lv' x) (fun rhs r' => ploop g l lv' (mk_bin (snd l) op e rhs) r')) f op r [idtok]).
    + intros g x. rewrite ploop_S. cbv beta iota. rewrite K. reflexivity.
    + apply (FN_bind eofl (C_lv lv') (C_lv (l :: lv')) (fun g => plevel g lv')
               (fun g rhs r' => ploop g l lv' (mk_bin (snd l) op e rhs) r') [idtok] []).
      * apply FN_plevel.
      * split; [constructor|]. intros u Cu. split; [eapply C_lv_cons, Cu|].
        intros a. exists 1, (mk_bin (snd l) op e a). intros g Hg. destruct g as [|g]; [lia|]. apply ploop_stop', Cu.
    + apply (Via_bind eofl false true false (C_lv lv') (C_lv (l :: lv')) (fun g => plevel g lv')
               (fun g rhs r' => ploop g l lv' (mk_bin (snd l) op e rhs) r') f r []).
      * apply Il.
      * intros a r1 _ _. apply Ilo.
      * right. apply C_lv_cons.
      * split; [constructor|]. intros u Cu. split; [eapply C_lv_cons, Cu|].
        intros a. exists 1, (mk_bin (snd l) op e a). intros g Hg. destruct g as [|g]; [lia|]. apply ploop_stop', Cu.
  - apply (Via_stop_ok eofl false _ _ e). intros g y [S|Cy]; [|apply ploop_stop', Cy].
    same_head S. rewrite ploop_S. cbv beta iota. rewrite K. reflexivity.
Qed.

(** primary followed by its suffix chain *)
Definition ppostF (g : nat) (x : list token) : pres expr := pbind (pprimary g x) (fun e r' => pcallloop g e r').

Lemma viaE_punary f : ViaE f -> forall ts, Via true C_post (fun g => punary g) (S f) ts.
Proof.
  intros (_ & _ & _ & Iu & Ic & _ & Ipr & _) ts. apply Via_shift.
  assert (Post : forall ts0, Via true C_post ppostF f ts0).
  { intros ts0. apply (Via_bind eofl false true false C_any C_post (fun g => pprimary g)
                         (fun g e r' => pcallloop g e r') f ts0 []).
    - apply Ipr.
    - intros a r1 _ _. apply Ic.
    - right. intros; exact I.
    - apply (FNw_pcallloop C_any (fun e => e)). intros; exact I. }
  destruct ts as [|op r].
  { apply (Via_ext_head eofl false _ _ ppostF); [|apply Post]. intros g y _ S. same_head S. rewrite punary_S. reflexivity. }
  destruct (kind_in (tk op) unary_ops) eqn:U.
  - eapply (Via_cons eofl false true _ _
              (fun g x => pbind (punary g x) (fun e r' => POk (EUnary (tk op) e (tline op)) r' [])) f op r [idtok]).
    + intros g x. rewrite punary_S. cbv beta iota. rewrite U. reflexivity.
    + apply (FN_map eofl C_post (fun g => punary g) (fun e => EUnary (tk op) e (tline op))), FN_punary.
    + apply (Via_map eofl false true C_post (fun g => punary g) (fun e => EUnary (tk op) e (tline op))), Iu.
  - apply (Via_ext_head eofl false _ _ ppostF); [|apply Post]. intros g y _ S. same_head S.
    rewrite punary_S. cbv beta iota. rewrite U. reflexivity.
Qed.

(** an optional comma-separated list before its closer *)
Definition optl (close : tkind) (g : nat) (x : list token) : pres (list expr) :=
  if check close x then POk [] x [] else pargs g x.

Lemma via_optl f close r : (forall ts, Via true C_args (fun g => pargs g) f ts) -> a_stop close = true ->
  Via false (C_head close) (optl close) f r /\ FN (C_head close) (optl close) [].
Proof.
  intros Ia Hcl. split.
  - destruct (check close r) eqn:Ck.
    + apply (Via_stop_ok eofl false _ _ []). intros g y [S|Cy]; unfold optl.
      * rewrite (check_samehead close _ _ S), Ck. reflexivity.
      * rewrite (C_head_check _ _ Cy). reflexivity.
    + apply Via_weaken. apply (Via_ext_head eofl false _ _ (fun g => pargs g)).
      * intros g y _ S. unfold optl. rewrite (check_samehead close _ _ S), Ck. reflexivity.
      * eapply Via_sub; [|apply Ia]. intros u. apply C_head_args, Hcl.
  - split; [constructor|]. intros u Cu. exists 0, []. intros g _. unfold optl. cbn [app].
    rewrite (C_head_check _ _ Cu). reflexivity.
Qed.

Lemma viaE_pcallloop f : ViaE f -> forall e ts, Via false C_post (fun g => pcallloop g e) (S f) ts.
Proof.
  intros (Ie & _ & _ & _ & Ic & Ia & _) e ts. apply Via_shift. destruct ts as [|t r].
  { apply (Via_stop_ok eofl false _ _ e). intros g y [S|Cy]; [same_head S; reflexivity|apply pcallloop_stop', Cy]. }
  assert (HZ : forall (k : token -> expr) (t0 : token) u, C_post u -> EvOk (fun g => pcallloop g (k t0)) u u).
  { intros k t0 u Cu. exists 1, (k t0). intros g Hg. destruct g as [|g]; [lia|]. apply pcallloop_stop', Cu. }
  destruct (tk t) eqn:Etk;
    try (apply (Via_stop_ok eofl false _ _ e); intros g y [S|Cy];
         [same_head S; rewrite pcallloop_S; cbv beta iota; rewrite Etk; reflexivity|apply pcallloop_stop', Cy]).
  - (* call *)
    destruct (via_optl f TRIGHT_PAREN r Ia eq_refl) as (VX & FX).
    destruct (via_then_close eofl false false (C_head TRIGHT_PAREN) C_post (optl TRIGHT_PAREN) TRIGHT_PAREN PRParenAfterArgs
                (fun args g paren r2 => pcallloop g (ECall e (tline paren) args) r2) f r [] VX FX) as (V & F).
    + intros u. reflexivity.
    + intros a paren r2. apply Ic.
    + intros a t0 u Cu. apply (HZ (fun p => ECall e (tline p) a)), Cu.
    + apply Via_weaken. eapply (Via_cons eofl false true _ _ _ f t r _); [|exact F|exact V].
      intros g x. rewrite pcallloop_S. cbv beta iota. rewrite Etk. reflexivity.
  - (* index *)
    destruct (via_then_close eofl false true C_e C_post (fun g => pexpr g) TRIGHT_BRACKET PRBracketAfterIndex
                (fun i g rb r2 => pcallloop g (EIndex e i (tline rb)) r2) f r [idtok] (Ie r) FN_pexpr) as (V & F).
    + intros u. reflexivity.
    + intros a paren r2. apply Ic.
    + intros a t0 u Cu. apply (HZ (fun p => EIndex e a (tline p))), Cu.
    + apply Via_weaken. eapply (Via_cons eofl false true _ _ _ f t r _); [|exact F|exact V].
      intros g x. rewrite pcallloop_S. cbv beta iota. rewrite Etk. reflexivity.
  - (* property *)
    apply Via_weaken.
    eapply (Via_cons eofl false true _ _
              (fun g x => pbind (consume TIDENTIFIER PPropAfterDot x)
                            (fun nm r1 => pcallloop g (EProp e (tlex nm) (tline nm)) r1)) f t r [idtok]).
    + intros g x. rewrite pcallloop_S. cbv beta iota. rewrite Etk. reflexivity.
    + split; [apply online1; reflexivity|]. intros u Cu. exists 1. eexists. intros g Hg.
      destruct g as [|g]; [lia|]. cbn [app]. rewrite (consume_hit eofl TIDENTIFIER _ idtok u eq_refl), pb_ret.
      apply pcallloop_stop', Cu.
    + apply (Via_bind eofl false true false C_any C_post (fun _ x => consume TIDENTIFIER PPropAfterDot x)
               (fun g nm r1 => pcallloop g (EProp e (tlex nm) (tline nm)) r1) f r []).
      * apply Via_consume.
      * intros nm r1 _ _. apply Ic.
      * right. intros; exact I.
      * apply (FNw_pcallloop C_any (fun nm => EProp e (tlex nm) (tline nm))). intros; exact I.
Qed.

Lemma viaE_pargs f : ViaE f -> forall ts, Via true C_args (fun g => pargs g) (S f) ts.
Proof.
  intros (Ie & _ & _ & _ & _ & Ia & _) ts. apply Via_shift.
  eapply Via_ext_all; [intros g y; rewrite pargs_S; reflexivity|]. cbv beta.
  apply (Via_bind eofl false true false C_e C_args (fun g => pexpr g)
           (fun g a r => if check TCOMMA r then pbind (pargs g (tl r)) (fun more r' => POk (a :: more) r' [])
                         else POk [a] r []) f ts []).
  - apply Ie.
  - intros a r1 _ _. destruct (check TCOMMA r1) eqn:Cm.
    + destruct r1 as [|tc r']; [discriminate Cm|]. apply Via_weaken.
      eapply (Via_cons eofl false true _ _ (fun g x => pbind (pargs g x) (fun more r' => POk (a :: more) r' [])) f tc r' [idtok]).
      * intros g x. change (check TCOMMA (tc :: x)) with (check TCOMMA (tc :: r')). rewrite Cm. reflexivity.
      * apply (FN_map eofl C_args (fun g => pargs g) (fun more => a :: more)), FN_pargs.
      * apply (Via_map eofl false true C_args (fun g => pargs g) (fun more => a :: more)), Ia.
    + apply (Via_stop_ok eofl false _ _ [a]). intros g y [S|Cy].
      * rewrite (check_samehead TCOMMA _ _ S), Cm. reflexivity.
      * rewrite (C_args_not_comma _ Cy). reflexivity.
  - right. apply C_args_e.
  - split; [constructor|]. intros u Cu. split; [apply C_args_e, Cu|].
    intros a. exists 0, [a]. intros g _. cbn [app]. rewrite (C_args_not_comma _ Cu). reflexivity.
Qed.

Lemma pprops_stop g acc u : C_props u -> pprops (S g) acc u = POk acc u [].
Proof.
  intros H. rewrite pprops_S. destruct u as [|t r]; [reflexivity|]. simpl in H. rewrite H, tkind_eqb_refl. reflexivity.
Qed.

Lemma EvOk_ret {A} (a : A) u : EvOk (fun _ x => POk a x []) u u.
Proof. exists 0, a. reflexivity. Qed.

Lemma viaE_pprimary f : ViaE f -> forall ts, Via true C_any (fun g => pprimary g) (S f) ts.
Proof.
  intros (Ie & _ & _ & _ & _ & Ia & _ & Ipp) ts. apply Via_shift. destruct ts as [|t r].
  { apply (Via_fail_now eofl false _ _ _ _ _ PExpectExpr). intros g y S. same_head S. reflexivity. }
  destruct (tk t) eqn:Etk;
    try (apply (Via_fail_now eofl false _ _ _ _ _ PExpectExpr); intros g y S; same_head S;
         rewrite pprimary_S; cbv beta iota; rewrite Etk; reflexivity);
    try (eapply (Via_cons eofl false false C_any _ (fun _ x => POk _ x []) f t r []);
         [intros g x; rewrite pprimary_S; cbv beta iota; rewrite Etk; reflexivity|apply FN_ret|apply Via_ret; reflexivity]).
  - (* group *)
    destruct (via_then_close eofl false true C_e C_any (fun g => pexpr g) TRIGHT_PAREN PRParenAfterExpr
                (fun e _ rp r2 => POk (EGroup e (tline rp)) r2 []) f r [idtok] (Ie r) FN_pexpr) as (V & F).
    + intros u. reflexivity.
    + intros a paren r2. apply Via_ret. reflexivity.
    + intros a t0 u _. apply EvOk_ret.
    + eapply (Via_cons eofl false true _ _ _ f t r _); [|exact F|exact V].
      intros g x. rewrite pprimary_S. cbv beta iota. rewrite Etk. reflexivity.
  - (* object *)
    destruct (via_then_close eofl false false C_props C_any (fun g => pprops g []) TRIGHT_BRACE PRBraceAfterObject
                (fun ps _ _ r2 => POk (EObject ps) r2 []) f r [] (Ipp [] r)) as (V & F).
    + split; [constructor|]. intros u Cu. exists 1, []. intros g Hg. destruct g as [|g]; [lia|]. apply pprops_stop, Cu.
    + intros u. reflexivity.
    + intros a paren r2. apply Via_ret. reflexivity.
    + intros a t0 u _. apply EvOk_ret.
    + eapply (Via_cons eofl false true _ _ _ f t r _); [|exact F|exact V].
      intros g x. rewrite pprimary_S. cbv beta iota. rewrite Etk. reflexivity.
  - (* array *)
    destruct (via_optl f TRIGHT_BRACKET r Ia eq_refl) as (VX & FX).
    destruct (via_then_close eofl false false (C_head TRIGHT_BRACKET) C_any (optl TRIGHT_BRACKET) TRIGHT_BRACKET PRBracketAfterElems
                (fun es _ _ r2 => POk (EArray es) r2 []) f r [] VX FX) as (V & F).
    + intros u. reflexivity.
    + intros a paren r2. apply Via_ret. reflexivity.
    + intros a t0 u _. apply EvOk_ret.
    + eapply (Via_cons eofl false true _ _ _ f t r _); [|exact F|exact V].
      intros g x. rewrite pprimary_S. cbv beta iota. rewrite Etk. reflexivity.
Qed.

(** the tail of an object entry, after its value *)
Definition propsK (acc : list (list N * expr)) (nm : token) (g : nat) (v : expr) (r3 : list token) : pres (list (list N * expr)) :=
  if check TCOMMA r3 then pprops g (props_put acc (tlex nm) v) (tl r3) else POk (props_put acc (tlex nm) v) r3 [].

Lemma propsK_stop acc nm g v u : C_props u -> propsK acc nm g v u = POk (props_put acc (tlex nm) v) u [].
Proof. intros H. unfold propsK. rewrite (C_args_not_comma _ (C_props_args _ H)). reflexivity. Qed.

Lemma viaE_pprops f : ViaE f -> forall acc ts, Via false C_props (fun g => pprops g acc) (S f) ts.
Proof.
  intros (Ie & _ & _ & _ & _ & _ & _ & Ipp) acc ts. apply Via_shift. destruct ts as [|t r].
  { apply (Via_stop_ok eofl false _ _ acc). intros g y [S|Cy]; [same_head S; reflexivity|apply pprops_stop, Cy]. }
  destruct (tkind_eqb (tk t) TRIGHT_BRACE) eqn:E.
  { apply (Via_stop_ok eofl false _ _ acc). intros g y [S|Cy]; [|apply pprops_stop, Cy].
    same_head S. rewrite pprops_S. cbv beta iota. rewrite E. reflexivity. }
  pose (F := fun g x =>
    pbind (consume TIDENTIFIER PPropName x) (fun nm r1 =>
    pbind (consume TCOLON PColonAfterProp r1) (fun _c r2 =>
    pbind (pexpr g r2) (propsK acc nm g)))).
  apply Via_weaken. apply (Via_ext_head eofl false _ _ F).
  { intros g y _ S. same_head S. rewrite pprops_S. cbv beta iota. rewrite E. reflexivity. }
  (* the value and what follows it *)
  assert (HV : forall nm r2, Via true C_props (fun g x => pbind (pexpr g x) (propsK acc nm g)) f r2).
  { intros nm r2.
    apply (Via_bind eofl false true false C_e C_props (fun g => pexpr g) (fun g v r3 => propsK acc nm g v r3) f r2 []).
    - apply Ie.
    - intros v r3 _ _. destruct (check TCOMMA r3) eqn:Cm.
      + destruct r3 as [|tc r']; [discriminate Cm|]. apply Via_weaken.
        eapply (Via_cons eofl false false _ _ (fun g x => pprops g (props_put acc (tlex nm) v) x) f tc r' []).
        * intros g x. unfold propsK. change (check TCOMMA (tc :: x)) with (check TCOMMA (tc :: r')). rewrite Cm. reflexivity.
        * split; [constructor|]. intros u Cu. exists 1. eexists. intros g Hg. destruct g as [|g]; [lia|]. apply pprops_stop, Cu.
        * apply Ipp.
      + apply (Via_stop_ok eofl false _ _ (props_put acc (tlex nm) v)). intros g y [S|Cy]; [|apply propsK_stop, Cy].
        unfold propsK. rewrite (check_samehead TCOMMA _ _ S), Cm. reflexivity.
    - right. intros u Cu. apply C_args_e, C_props_args, Cu.
    - split; [constructor|]. intros u Cu. split; [apply C_args_e, C_props_args, Cu|].
      intros v. exists 0. eexists. intros g _. apply propsK_stop, Cu. }
  assert (HVn : forall nm u, C_props u -> EvOk (fun g x => pbind (pexpr g x) (propsK acc nm g)) ([idtok] ++ u) u).
  { intros nm u Cu. exists 15. eexists. intros g Hg. cbn [app].
    rewrite id_pexpr; [|apply C_args_e, C_props_args, Cu|exact Hg]. rewrite pb_ret. apply propsK_stop, Cu. }
  unfold F.
  apply (Via_bind eofl false true true C_any C_props (fun _ x => consume TIDENTIFIER PPropName x)
           (fun g nm r1 => pbind (consume TCOLON PColonAfterProp r1) (fun _c r2 => pbind (pexpr g r2) (propsK acc nm g)))
           f (t :: r) [mk TCOLON; idtok]).
  - apply Via_consume.
  - intros nm r1 _ _.
    apply (Via_bind eofl false true true C_any C_props (fun _ x => consume TCOLON PColonAfterProp x)
             (fun g _c r2 => pbind (pexpr g r2) (propsK acc nm g)) f r1 [idtok]).
    + apply Via_consume.
    + intros c r2 _ _. apply HV.
    + left. reflexivity.
    + split; [apply online1; reflexivity|]. intros u Cu. split; [exact I|]. intros c. apply HVn, Cu.
  - left. reflexivity.
  - apply (FNw_consume eofl C_any C_props TCOLON PColonAfterProp
             (fun nm g _c r2 => pbind (pexpr g r2) (propsK acc nm g)) (mk TCOLON) [idtok]).
    + reflexivity.
    + reflexivity.
    + apply online1. reflexivity.
    + intros; exact I.
    + intros nm c u Cu. apply HVn, Cu.
Qed.

Theorem viaE : forall f, ViaE f.
Proof.
  induction f as [|f IH].
  { unfold ViaE. split; [|split; [|split; [|split; [|split; [|split; [|split]]]]]]; intros; apply Via_fuel; reflexivity. }
  unfold ViaE. split; [|split; [|split; [|split; [|split; [|split; [|split]]]]]].
  - apply viaE_pexpr, IH.
  - apply viaE_plevel, IH.
  - apply viaE_ploop, IH.
  - apply viaE_punary, IH.
  - apply viaE_pcallloop, IH.
  - apply viaE_pargs, IH.
  - apply viaE_pprimary, IH.
  - apply viaE_pprops, IH.
Qed.

Lemma consume_one k pk ts : one (consume k pk ts).
Proof.
  unfold Parser.consume. destruct ts as [|t r]; [eexists; reflexivity|].
  destruct (tkind_eqb (tk t) k); [reflexivity|eexists; reflexivity].
Qed.

Lemma expr_one_all : forall f,
  (forall ts, one (pexpr f ts)) /\
  (forall lv ts, one (plevel f lv ts)) /\
  (forall l lv e ts, one (ploop f l lv e ts)) /\
  (forall ts, one (punary f ts)) /\
  (forall e ts, one (pcallloop f e ts)) /\
  (forall ts, one (pargs f ts)) /\
  (forall ts, one (pprimary f ts)) /\
  (forall acc ts, one (pprops f acc ts)).
Proof.
  induction f as [|f (Ie & Il & Ilo & Iu & Ic & Ia & Ipr & Ipp)].
  - split; [|split; [|split; [|split; [|split; [|split; [|split]]]]]]; intros; exact I.
  - pose proof consume_one as Hcons.
    split; [|split; [|split; [|split; [|split; [|split; [|split]]]]]].
    + intros ts. rewrite pexpr_S. one_all.
    + intros lv ts. rewrite plevel_S. one_all.
    + intros l lv e ts. rewrite ploop_S. one_all.
    + intros ts. rewrite punary_S. one_all.
    + intros e ts. rewrite pcallloop_S. one_all.
    + intros ts. rewrite pargs_S. one_all.
    + intros ts. rewrite pprimary_S. one_all.
    + intros acc ts. rewrite pprops_S. one_all.
Qed.

Lemma pexpr_one f ts : one (pexpr f ts).
Proof. apply (expr_one_all f). Qed.

(** * The expression-level theorem *)

(** [pre] can be completed (by tokens on the end-of-input line) to an accepted expression *)
Definition expr_viable (pre : list token) : Prop :=
  exists w, online w /\ exists f' e, pexpr f' (pre ++ w) = POk e [] [].
(** nothing that starts with [x] is read as an expression *)
Definition expr_hopeless (x : list token) : Prop :=
  forall y f' e r, pexpr f' (x ++ y) <> POk e r [].

Lemma NC_never pre rem f : NC (fun g => pexpr g) f pre rem ->
  forall rem', samehead rem rem' -> forall f' e r, pexpr f' (pre ++ rem') <> POk e r [].
Proof.
  intros N rem' S f' e r E.
  pose proof (pexpr_mono_ok eofl f' (max f f') _ _ _ _ E (Nat.le_max_r _ _)) as E'.
  specialize (N (max f f') rem' (Nat.le_max_l _ _) S). cbv beta in N. rewrite E' in N. exact N.
Qed.

Lemma Viab_expr pre : Viab eofl C_e (fun g => pexpr g) pre -> expr_viable pre.
Proof.
  intros (w & Ow & Hc). exists w. split; [exact Ow|]. destruct (Hc [] I) as (g0 & e & R). exists g0, e.
  specialize (R g0 (le_n _)). rewrite app_nil_r in R. exact R.
Qed.

(** When [pexpr] fails, its (only) diagnostic [d] was issued after consuming
    [pre], looking at the head of [rem] (for [PInvalidAssign]: at the [=]), and
    this position is exact: nothing that starts with [pre] and the first token of
    [rem] is an expression.  Then either [pre] is a viable prefix -- some
    completion [w], all on the end-of-input line, makes [pre ++ w] an accepted
    expression -- or the diagnostic is late: [pre] contains an [=] whose left
    side is complete but not assignable; the text up to that [=] is viable, the
    text including it is hopeless. *)
Theorem pexpr_viable f ts ds :
  pexpr f ts = PErr ds ->
  exists d pre rem, ds = [d] /\ ts = pre ++ rem /\ d = diag_at rem (pd_kind d) /\
    (forall rem', samehead rem rem' -> forall f' e r, pexpr f' (pre ++ rem') <> POk e r []) /\
    (expr_viable pre \/
     exists a' eq b, pre = a' ++ eq :: b /\ tk eq = TEQUAL /\ LhsBad a' /\
                     expr_viable a' /\ expr_hopeless (a' ++ [eq])).
Proof.
  intros E. pose proof (pexpr_one f ts) as O. rewrite E in O. destruct O as (d & ->).
  destruct (viaE f) as (Ie & _). specialize (Ie ts). unfold ParserViableDefs.Via in Ie. rewrite E in Ie.
  destruct Ie as (pre & rem & Ets & Ed & N & H). exists d, pre, rem.
  split; [reflexivity|]. split; [exact Ets|]. split; [exact Ed|]. split; [apply (NC_never _ _ f), N|].
  destruct pre as [|t0 pre'].
  - left. exists [idtok]. split; [apply online1; reflexivity|]. exists 15, idE. apply id_pexpr; [exact I|apply le_n].
  - destruct (H ltac:(discriminate)) as [(a' & eq & b & Ep & K & Na & Va)|V]; [right|left; apply Viab_expr, V].
    destruct K as [(K & LB)|(L & _)]; [|discriminate L].
    exists a', eq, b. split; [exact Ep|]. split; [exact K|]. split; [exact LB|]. split.
    { destruct a' as [|t1 a1]; [|apply Viab_expr, Va; discriminate].
      exists [idtok]. split; [apply online1; reflexivity|]. exists 15, idE. apply id_pexpr; [exact I|apply le_n]. }
    intros y f' e r. rewrite <- app_assoc. apply (NC_never _ _ f Na). reflexivity.
Qed.

(** the same, split according to whether the diagnostic names a token *)
Corollary pexpr_viable_token f ts ds :
  pexpr f ts = PErr ds ->
  exists d, ds = [d] /\
    let ok pre := expr_viable pre \/
                  exists a' eq b, pre = a' ++ eq :: b /\ tk eq = TEQUAL /\ LhsBad a' /\
                                  expr_viable a' /\ expr_hopeless (a' ++ [eq]) in
    (pd_where d = None /\ ok ts) \/
    (exists pre t w0, ts = pre ++ t :: w0 /\ d = diag_tok t (pd_kind d) /\ expr_hopeless (pre ++ [t]) /\ ok pre).
Proof.
  intros E. destruct (pexpr_viable f ts ds E) as (d & pre & rem & -> & -> & Ed & N & H). exists d. split; [reflexivity|].
  cbv zeta. destruct rem as [|t w0].
  - left. rewrite app_nil_r. split; [rewrite Ed; reflexivity|exact H].
  - right. exists pre, t, w0. split; [reflexivity|]. split; [exact Ed|]. split; [|exact H].
    intros y f' e r. rewrite <- app_assoc. apply N. reflexivity.
Qed.

End Viable.

(** * Examples (end-of-input line 1) *)

Definition vx_tok (k : tkind) (lex : list N) : token := mkTok k lex LNone 1%N.
Definition vx_id := vx_tok TIDENTIFIER [102%N].          (* f *)
Definition vx_lp := vx_tok TLEFT_PAREN [40%N].
Definition vx_rp := vx_tok TRIGHT_PAREN [41%N].
Definition vx_lb := vx_tok TLEFT_BRACKET [91%N].
Definition vx_rb := vx_tok TRIGHT_BRACKET [93%N].
Definition vx_plus := vx_tok TPLUS [43%N].
Definition vx_semi := vx_tok TSEMICOLON [59%N].
Definition vx_eq := vx_tok TEQUAL [61%N].
Definition vx_comma := vx_tok TCOMMA [44%N].

(** [f ( f + ;]: the parser stops at the [;]; the prefix [f ( f +] is completed by [x )] *)
Example vx_fails : pexpr 1%N 100 ([vx_id; vx_lp; vx_id; vx_plus] ++ [vx_semi]) = PErr [diag_tok vx_semi PExpectExpr].
Proof. vm_compute. reflexivity. Qed.
Example vx_completed :
  exists e, pexpr 1%N 100 ([vx_id; vx_lp; vx_id; vx_plus] ++ [idtok 1%N; mk 1%N TRIGHT_PAREN]) = POk e [] [].
Proof. eexists. vm_compute. reflexivity. Qed.

(** [f [ f , ]]: an index takes one expression; the prefix [f [ f] is completed by []] *)
Example vx_fails2 : pexpr 1%N 100 ([vx_id; vx_lb; vx_id] ++ [vx_comma; vx_rb]) = PErr [diag_tok vx_comma PRBracketAfterIndex].
Proof. vm_compute. reflexivity. Qed.
Example vx_completed2 : exists e, pexpr 1%N 100 ([vx_id; vx_lb; vx_id] ++ [mk 1%N TRIGHT_BRACKET]) = POk e [] [].
Proof. eexists. vm_compute. reflexivity. Qed.

(** the late diagnostic: [( f ) = f] is reported at the [=] after the right side
    has been read; the tokens before the [=] are an accepted expression *)
Example vx_fails3 : pexpr 1%N 100 ([vx_lp; vx_id; vx_rp] ++ [vx_eq; vx_id]) = PErr [diag_tok vx_eq PInvalidAssign].
Proof. vm_compute. reflexivity. Qed.
Example vx_completed3 : exists e, pexpr 1%N 100 ([vx_lp; vx_id; vx_rp] ++ []) = POk e [] [].
Proof. eexists. vm_compute. reflexivity. Qed.
(** ... but an error to the right of such an [=] is diagnosed where no completion exists:
    [( f ) = +] fails at [+], and nothing that starts with [( f ) =] is accepted *)
Example vx_fails4 : pexpr 1%N 100 ([vx_lp; vx_id; vx_rp; vx_eq] ++ [vx_plus]) = PErr [diag_tok vx_plus PExpectExpr].
Proof. vm_compute. reflexivity. Qed.
Example vx_bad4 : LhsBad [vx_lp; vx_id; vx_rp].
Proof.
  exists [], [vx_lp; vx_id; vx_rp], (EGroup (EId [102%N] 0%N) 0%N).
  split; [reflexivity|]. split; [constructor; apply WF_level; constructor|].
  split; [|reflexivity]. apply (Y_group (EId [102%N] 0%N) 0%N [SymId [102%N]]). constructor.
Qed.

Check pexpr_viable.
Check pexpr_viable_token.
Print Assumptions viaE.
Print Assumptions pexpr_viable.
