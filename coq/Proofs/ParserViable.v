(** Viable prefixes, part 2: the expression level.

    Every expression-parsing function satisfies [Via] (ParserViableDefs.v); the
    theorem [pexpr_viable] follows: when [pexpr] fails, the tokens consumed before
    the token named by the diagnostic can be completed to an accepted expression
    -- unless they contain an assignment to a non-assignable left side. *)
From Borno Require Import Base Num Token Ast Parser.
From Borno Require Import ParserEqs ParserMono Grammar ParserSC_Base ParserSound ParserPrefixDefs ParserViableDefs.
Open Scope nat_scope.

Section Viable.
Variable eofl : N.

Notation pexpr := (Parser.pexpr eofl).
Notation plevel := (Parser.plevel eofl).
Notation ploop := (Parser.ploop eofl).
Notation punary := (Parser.punary eofl).
Notation pcallloop := (Parser.pcallloop eofl).
Notation pargs := (Parser.pargs eofl).
Notation pprimary := (Parser.pprimary eofl).
Notation pprops := (Parser.pprops eofl).
Notation consume := (Parser.consume eofl).
Notation perr_at := (Parser.perr_at eofl).
Notation diag_at := (Parser.diag_at eofl).
Notation Via := (ParserViableDefs.Via eofl false).
Notation FN := (ParserViableDefs.FN eofl).
Notation FNw := (ParserViableDefs.FNw eofl).
Notation online := (ParserViableDefs.online eofl).
Notation mk := (ParserViableDefs.mk eofl).
Notation idtok := (ParserViableDefs.idtok eofl).

(** the tree of the completion identifier *)
Definition idE : expr := EId [120%N] eofl.

(** * Stops and the one-identifier completion *)

Lemma ploop_stop' g l lv e u : C_lv (l :: lv) u -> ploop (S g) l lv e u = POk e u [].
Proof.
  intros H. rewrite ploop_S. destruct u as [|t r]; [reflexivity|].
  rewrite (C_lv_head_out _ _ _ _ H). reflexivity.
Qed.

Lemma pcallloop_stop' g e u : C_post u -> pcallloop (S g) e u = POk e u [].
Proof.
  intros H. rewrite pcallloop_S. destruct u as [|t r]; [reflexivity|].
  unfold C_post, stopk, post_stop in H. destruct (tk t); try reflexivity; discriminate H.
Qed.

Lemma id_pprimary g u : pprimary (S g) (idtok :: u) = POk idE u [].
Proof. reflexivity. Qed.

Lemma id_punary g u : C_post u -> 2 <= g -> punary g (idtok :: u) = POk idE u [].
Proof.
  intros H Hg. destruct g as [|[|g]]; try lia. rewrite punary_S.
  change (kind_in (tk idtok) unary_ops) with false. cbv iota.
  rewrite id_pprimary, pb_ret. apply pcallloop_stop', H.
Qed.

Lemma id_plevel lv : forall g u, C_lv lv u -> length lv + 3 <= g -> plevel g lv (idtok :: u) = POk idE u [].
Proof.
  induction lv as [|l lv IH]; intros g u H Hg; (destruct g as [|g]; [simpl in Hg; lia|]); rewrite plevel_S.
  - apply id_punary; [eapply C_lv_post, H|simpl in Hg; lia].
  - rewrite IH; [|eapply C_lv_cons, H|simpl in Hg; lia]. rewrite pb_ret.
    destruct g as [|g]; [simpl in Hg; lia|]. apply ploop_stop', H.
Qed.

Lemma id_pexpr g u : C_e u -> 15 <= g -> pexpr g (idtok :: u) = POk idE u [].
Proof.
  intros H Hg. destruct g as [|g]; [lia|]. rewrite pexpr_S.
  rewrite id_plevel; [|apply C_e_lv, H|simpl; lia]. rewrite pb_ret.
  destruct u as [|t r]; [reflexivity|]. rewrite (C_e_not_eq _ _ H). reflexivity.
Qed.

Lemma id_pargs g u : C_args u -> 16 <= g -> pargs g (idtok :: u) = POk [idE] u [].
Proof.
  intros H Hg. destruct g as [|g]; [lia|]. rewrite pargs_S.
  rewrite id_pexpr; [|apply C_args_e, H|lia]. rewrite pb_ret. rewrite (C_args_not_comma _ H). reflexivity.
Qed.

Lemma online1 t : tline t = eofl -> online [t].
Proof. intros H. constructor; [exact H|constructor]. Qed.

Lemma FN_pexpr : FN C_e (fun g => pexpr g) [idtok].
Proof. split; [apply online1; reflexivity|]. intros u Cu. exists 15, idE. intros g Hg. apply id_pexpr; auto. Qed.
Lemma FN_plevel lv : FN (C_lv lv) (fun g => plevel g lv) [idtok].
Proof. split; [apply online1; reflexivity|]. intros u Cu. exists (length lv + 3), idE. intros g Hg. apply id_plevel; auto. Qed.
Lemma FN_punary : FN C_post (fun g => punary g) [idtok].
Proof. split; [apply online1; reflexivity|]. intros u Cu. exists 2, idE. intros g Hg. apply id_punary; auto. Qed.
Lemma FN_pargs : FN C_args (fun g => pargs g) [idtok].
Proof. split; [apply online1; reflexivity|]. intros u Cu. exists 16, [idE]. intros g Hg. apply id_pargs; auto. Qed.

(** loops complete from nothing by stopping *)
Lemma FNw_ploop l lv : FNw (C_lv lv) (C_lv (l :: lv)) (fun g e r => ploop g l lv e r) [].
Proof.
  split; [constructor|]. intros u Cu. split; [eapply C_lv_cons, Cu|].
  intros a. exists 1, a. intros g Hg. destruct g as [|g]; [lia|]. apply ploop_stop', Cu.
Qed.
Lemma FNw_pcallloop (C' : list token -> Prop) {A} (k : A -> expr) :
  (forall u, C_post u -> C' u) -> FNw C' C_post (fun g a r => pcallloop g (k a) r) [].
Proof.
  intros S. split; [constructor|]. intros u Cu. split; [apply S, Cu|].
  intros a. exists 1, (k a). intros g Hg. destruct g as [|g]; [lia|]. apply pcallloop_stop', Cu.
Qed.

(** * The main induction *)

(** the continuation of [pexpr] after its left side *)
Definition assignK (g : nat) (e : expr) (r : list token) : pres expr :=
  match r with
  | eq :: r1 =>
      if tkind_eqb (tk eq) TEQUAL then
        pbind (pexpr g r1) (fun v r2 =>
          match e with
          | EId name nline => POk (EAssign name nline v (tline eq)) r2 []
          | EIndex a i _ => POk (EArrAssign a i v (tline eq)) r2 []
          | EProp o p _ => POk (EPropAssign o p v (tline eq)) r2 []
          | _ => PErr [diag_tok eq PInvalidAssign]
          end)
      else POk e r []
  | [] => POk e r []
  end.
Lemma pexpr_S' g ts : pexpr (S g) ts = pbind (plevel g ladder ts) (assignK g).
Proof. reflexivity. Qed.

Lemma assignK_stop g e u : C_e u -> assignK g e u = POk e u [].
Proof. intros H. destruct u as [|t r]; [reflexivity|]. simpl. rewrite (C_e_not_eq _ _ H). reflexivity. Qed.

Lemma FNw_assignK : FNw (C_lv ladder) C_e assignK [].
Proof.
  split; [constructor|]. intros u Cu. split; [apply C_e_lv, Cu|].
  intros a. exists 0, a. intros g _. apply assignK_stop, Cu.
Qed.

Definition ViaE (f : nat) : Prop :=
  (forall ts, Via true C_e (fun g => pexpr g) f ts) /\
  (forall lv ts, Via true (C_lv lv) (fun g => plevel g lv) f ts) /\
  (forall l lv e ts, Via false (C_lv (l :: lv)) (fun g => ploop g l lv e) f ts) /\
  (forall ts, Via true C_post (fun g => punary g) f ts) /\
  (forall e ts, Via false C_post (fun g => pcallloop g e) f ts) /\
  (forall ts, Via true C_args (fun g => pargs g) f ts) /\
  (forall ts, Via true C_any (fun g => pprimary g) f ts) /\
  (forall acc ts, Via false C_props (fun g => pprops g acc) f ts).

Lemma viaE_pexpr f : ViaE f -> forall ts, Via true C_e (fun g => pexpr g) (S f) ts.
Proof.
  intros (Ie & Il & _) ts. apply Via_shift.
  eapply Via_ext_all; [intros g y; rewrite pexpr_S'; reflexivity|]. cbv beta.
  assert (Gen : (forall a r1, plevel f ladder ts = POk a r1 [] -> Via false C_e (fun g => assignK g a) f r1) ->
                Via true C_e (fun g x => pbind (plevel g ladder x) (assignK g)) f ts).
  { intros HY. apply (Via_bind eofl false true false (C_lv ladder) C_e (fun g => plevel g ladder) assignK f ts []).
    - apply Il.
    - intros a r1 EX _. apply HY, EX.
    - right. apply C_e_lv.
    - apply FNw_assignK. }
  destruct (plevel f ladder ts) as [e r1 [|d0 ds0]| ds0|] eqn:E1; try (apply Gen; intros a r1' EX; discriminate EX).
  destruct r1 as [|eq r1'].
  { apply Gen. intros a r EX. inv EX. apply (Via_stop_ok eofl false _ _ a).
    intros g y [S|Cy]; [same_head S; reflexivity|apply assignK_stop, Cy]. }
  destruct (tkind_eqb (tk eq) TEQUAL) eqn:Eq.
  2:{ apply Gen. intros a r EX. inv EX. apply (Via_stop_ok eofl false _ _ a).
      intros g y [S|Cy]; [same_head S; simpl; rewrite Eq; reflexivity|apply assignK_stop, Cy]. }
  destruct (is_target e) eqn:T.
  - apply Gen. intros a r EX. inv EX. apply Via_weaken.
    destruct a; try discriminate T.
    + eapply (Via_cons eofl false true C_e _
                (fun g x => pbind (pexpr g x) (fun v r2 => POk (EAssign name line v (tline eq)) r2 [])) f eq r1' [idtok]).
      * intros g x. simpl. rewrite Eq. reflexivity.
      * apply (FN_map eofl C_e (fun g => pexpr g) (fun v => EAssign name line v (tline eq))), FN_pexpr.
      * apply (Via_map eofl false true C_e (fun g => pexpr g) (fun v => EAssign name line v (tline eq))), Ie.
    + eapply (Via_cons eofl false true C_e _
                (fun g x => pbind (pexpr g x) (fun v r2 => POk (EArrAssign a1 a2 v (tline eq)) r2 [])) f eq r1' [idtok]).
      * intros g x. simpl. rewrite Eq. reflexivity.
      * apply (FN_map eofl C_e (fun g => pexpr g) (fun v => EArrAssign a1 a2 v (tline eq))), FN_pexpr.
      * apply (Via_map eofl false true C_e (fun g => pexpr g) (fun v => EArrAssign a1 a2 v (tline eq))), Ie.
    + eapply (Via_cons eofl false true C_e _
                (fun g x => pbind (pexpr g x) (fun v r2 => POk (EPropAssign a p v (tline eq)) r2 [])) f eq r1' [idtok]).
      * intros g x. simpl. rewrite Eq. reflexivity.
      * apply (FN_map eofl C_e (fun g => pexpr g) (fun v => EPropAssign a p v (tline eq))), FN_pexpr.
      * apply (Via_map eofl false true C_e (fun g => pexpr g) (fun v => EPropAssign a p v (tline eq))), Ie.
  - (* the left side is not assignable *)
    pose proof (Il ladder ts) as V1. unfold ParserViableDefs.Via in V1. rewrite E1 in V1.
    destruct V1 as (p1 & Ets & Hne1 & R1).
    assert (EK : forall g x, assignK g e (eq :: x) = pbind (pexpr g x) (fun _ _ => PErr [diag_tok eq PInvalidAssign])).
    { intros g x. simpl. rewrite Eq. destruct e; try discriminate T; reflexivity. }
    assert (Bad : forall pre3, BadAssign (p1 ++ eq :: pre3)).
    { intros pre3. destruct (plevel_sound eofl f 0 ts e (eq :: r1') [] (Nat.le_0_l _) E1) as (_ & W & pre & Ets' & Y).
      rewrite Ets in Ets'. apply app_inv_tail in Ets'. subst pre.
      exists [], p1, eq, pre3, (erase_e e). split; [reflexivity|]. split; [apply tkind_eqb_eq, Eq|].
      split; [exact W|]. split; [exact Y|]. rewrite is_target_erase. exact T. }
    pose proof (Ie r1') as V2. unfold ParserViableDefs.Via in V2 |- *. cbv beta.
    rewrite E1, pb_ret, EK.
    assert (FDb : forall d, FDv eofl false C_e (fun g => pexpr g) r1' d ->
                  FDv eofl false C_e (fun g x => pbind (plevel g ladder x) (assignK g)) ts d).
    { intros d (pre3 & rem & Er & Ed & _). exists (p1 ++ eq :: pre3), rem.
      split; [subst ts r1'; rewrite <- app_assoc; reflexivity|]. split; [exact Ed|].
      intros _. right; left. apply Bad. }
    destruct (pexpr f r1') as [v r2 [|d ds]| [|d ds]|] eqn:E2; simpl; auto.
    exists p1, (eq :: r1'). split; [exact Ets|]. split; [reflexivity|].
    intros _. right; right. exists []. split; [constructor|]. intros u Cu.
    exists f, e. intros g Hg. cbn [app]. rewrite R1; [|exact Hg|right; apply C_e_lv, Cu].
    rewrite pb_ret. apply assignK_stop, Cu.
Qed.

Lemma viaE_plevel f : ViaE f -> forall lv ts, Via true (C_lv lv) (fun g => plevel g lv) (S f) ts.
Proof.
  intros (_ & Il & Ilo & Iu & _) lv ts. apply Via_shift. destruct lv as [|l lv'].
  - eapply Via_ext_all; [intros g y; rewrite plevel_S; reflexivity|].
    eapply Via_sub; [|apply Iu]. apply C_lv_post.
  - eapply Via_ext_all; [intros g y; rewrite plevel_S; reflexivity|]. cbv beta.
    apply (Via_bind eofl false true false (C_lv lv') (C_lv (l :: lv')) (fun g => plevel g lv')
             (fun g e r => ploop g l lv' e r) f ts []).
    + apply Il.
    + intros a r1 _ _. apply Ilo.
    + right. apply C_lv_cons.
    + apply FNw_ploop.
Qed.

Lemma viaE_ploop f : ViaE f -> forall l lv e ts, Via false (C_lv (l :: lv)) (fun g => ploop g l lv e) (S f) ts.
Proof.
  intros (_ & Il & Ilo & _) l lv' e ts. apply Via_shift. destruct ts as [|op r].
  { apply (Via_stop_ok eofl false _ _ e). intros g y [S|Cy]; [same_head S; reflexivity|apply ploop_stop', Cy]. }
  destruct (kind_in (tk op) (fst l)) eqn:K.
  - apply Via_weaken.
    eapply (Via_cons eofl false true _ _
              (fun g x => pbind (plevel g lv' x) (fun rhs r' => ploop g l lv' (mk_bin (snd l) op e rhs) r')) f op r [idtok]).
    + intros g x. rewrite ploop_S. cbv beta iota. rewrite K. reflexivity.
    + apply (FN_bind eofl (C_lv lv') (C_lv (l :: lv')) (fun g => plevel g lv')
               (fun g rhs r' => ploop g l lv' (mk_bin (snd l) op e rhs) r') [idtok] []).
      * apply FN_plevel.
      * split; [constructor|]. intros u Cu. split; [eapply C_lv_cons, Cu|].
        intros a. exists 1, (mk_bin (snd l) op e a). intros g Hg. destruct g as [|g]; [lia|]. apply ploop_stop', Cu.
    + apply (Via_bind eofl false true false (C_lv lv') (C_lv (l :: lv')) (fun g => plevel g lv')
               (fun g rhs r' => ploop g l lv' (mk_bin (snd l) op e rhs) r') f r []).
      * apply Il.
      * intros a r1 _ _. apply Ilo.
      * right. apply C_lv_cons.
      * split; [constructor|]. intros u Cu. split; [eapply C_lv_cons, Cu|].
        intros a. exists 1, (mk_bin (snd l) op e a). intros g Hg. destruct g as [|g]; [lia|]. apply ploop_stop', Cu.
  - apply (Via_stop_ok eofl false _ _ e). intros g y [S|Cy]; [|apply ploop_stop', Cy].
    same_head S. rewrite ploop_S. cbv beta iota. rewrite K. reflexivity.
Qed.

(** primary followed by its suffix chain *)
Definition ppostF (g : nat) (x : list token) : pres expr := pbind (pprimary g x) (fun e r' => pcallloop g e r').

Lemma viaE_punary f : ViaE f -> forall ts, Via true C_post (fun g => punary g) (S f) ts.
Proof.
  intros (_ & _ & _ & Iu & Ic & _ & Ipr & _) ts. apply Via_shift.
  assert (Post : forall ts0, Via true C_post ppostF f ts0).
  { intros ts0. apply (Via_bind eofl false true false C_any C_post (fun g => pprimary g)
                         (fun g e r' => pcallloop g e r') f ts0 []).
    - apply Ipr.
    - intros a r1 _ _. apply Ic.
    - right. intros; exact I.
    - apply (FNw_pcallloop C_any (fun e => e)). intros; exact I. }
  destruct ts as [|op r].
  { apply (Via_ext_head eofl false _ _ ppostF); [|apply Post]. intros g y _ S. same_head S. rewrite punary_S. reflexivity. }
  destruct (kind_in (tk op) unary_ops) eqn:U.
  - eapply (Via_cons eofl false true _ _
              (fun g x => pbind (punary g x) (fun e r' => POk (EUnary (tk op) e (tline op)) r' [])) f op r [idtok]).
    + intros g x. rewrite punary_S. cbv beta iota. rewrite U. reflexivity.
    + apply (FN_map eofl C_post (fun g => punary g) (fun e => EUnary (tk op) e (tline op))), FN_punary.
    + apply (Via_map eofl false true C_post (fun g => punary g) (fun e => EUnary (tk op) e (tline op))), Iu.
  - apply (Via_ext_head eofl false _ _ ppostF); [|apply Post]. intros g y _ S. same_head S.
    rewrite punary_S. cbv beta iota. rewrite U. reflexivity.
Qed.

End Viable.
