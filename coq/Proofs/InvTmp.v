From Borno Require Import Base Num Unicode Token Lexer Ast Parser Value Eval Cli.
From Borno Require Import EvalEqs Grammar.
Open Scope N_scope.

(* ------------------------------------------------------------------ *)
(** * 5. Line numbers matter only in diagnostics *)

Definition erase_clo (c : closure) : closure :=
  mkClo (c_name c) (c_params c) (map erase_s (c_body c)) (c_env c).

(** the same store with the line numbers in the stored function bodies erased *)
Definition erase_st (s : state) : state :=
  mkState (envs s) (arrs s) (objs s) (map erase_clo (funs s)) (out s) (inp s) (tick s).

Definition erase_sig (g : signal) : signal :=
  match g with
  | SigNone => SigNone
  | SigBreak _ => SigBreak 0
  | SigContinue _ => SigContinue 0
  | SigReturn _ v => SigReturn 0 v
  end.

(** the same outcome with every line number erased: the line of a diagnostic, the lines in
    the final store's function bodies, and (through [h]) the line carried by a signal *)
Definition erase_res {A} (h : A -> A) (r : res A) : res A :=
  match r with
  | Ok a s => Ok (h a) (erase_st s)
  | Err e _ s => Err e 0 (erase_st s)
  | Fuel => Fuel
  | Stuck => Stuck
  | Crash s => Crash (erase_st s)
  end.

Definition idv {A} (a : A) : A := a.

Lemma erase_bind {A B} (h : A -> A) (g : B -> B) (r : res A) (k k' : A -> state -> res B) :
  (forall a s, k' (h a) (erase_st s) = erase_res g (k a s)) ->
  bind (erase_res h r) k' = erase_res g (bind r k).
Proof. intros H. destruct r; simpl; try reflexivity. apply H. Qed.

(** ** the store primitives commute with erasure *)

Lemma env_lookup_erase n : forall rho x s, env_lookup n rho x (erase_st s) = env_lookup n rho x s.
Proof.
  induction n as [|n IH]; intros rho x s; simpl; [reflexivity|].
  destruct (nth_error (envs s) rho) as [[b p]|]; [|reflexivity].
  destruct (assoc x b); [reflexivity|]. destruct p; [apply IH|reflexivity].
Qed.

Lemma env_get_erase rho x s : env_get rho x (erase_st s) = env_get rho x s.
Proof. unfold env_get. cbn [erase_st envs]. rewrite env_lookup_erase. reflexivity. Qed.

Lemma env_get_here_erase rho x s : env_get_here rho x (erase_st s) = env_get_here rho x s.
Proof. reflexivity. Qed.

Lemma env_define_erase rho x v s :
  env_define rho x v (erase_st s) = option_map erase_st (env_define rho x v s).
Proof. unfold env_define. cbn [erase_st envs]. destruct (nth_error (envs s) rho) as [[b p]|]; reflexivity. Qed.

Lemma env_assign_erase rho x v s :
  env_assign rho x v (erase_st s) = option_map (option_map erase_st) (env_assign rho x v s).
Proof.
  unfold env_assign. cbn [erase_st envs]. rewrite env_lookup_erase.
  destruct (env_lookup (S (length (envs s))) rho x s) as [[[q w]|]|]; try reflexivity.
  rewrite env_define_erase. destruct (env_define q x v s); reflexivity.
Qed.

Lemma bind_params_erase act : forall ps vs s,
  bind_params act ps vs (erase_st s) = option_map erase_st (bind_params act ps vs s).
Proof.
  induction ps as [|p ps IH]; intros vs s; simpl; [reflexivity|].
  destruct vs as [|v vs]; [reflexivity|]. rewrite env_define_erase.
  destruct (env_define act p v s) as [s1|]; simpl; [apply IH|reflexivity].
Qed.

Lemma get_arr_erase l s : get_arr l (erase_st s) = get_arr l s.
Proof. reflexivity. Qed.
Lemma get_obj_erase l s : get_obj l (erase_st s) = get_obj l s.
Proof. reflexivity. Qed.
Lemma get_fun_erase l s : get_fun l (erase_st s) = option_map erase_clo (get_fun l s).
Proof. unfold get_fun. cbn [erase_st funs]. apply nth_error_map. Qed.

Lemma text_in_erase n : forall s v, text_in n (erase_st s) v = text_in n s v.
Proof.
  induction n as [|n IH]; intros s v; [reflexivity|].
  destruct v as [| | | |l|l|l|nv]; cbn [text_in]; try reflexivity.
  - rewrite get_arr_erase. destruct (get_arr l s) as [vs|]; [|reflexivity]. f_equal.
    induction vs as [|v vs IHv]; [reflexivity|].
    destruct vs as [|v2 vs]; [apply IH|]. rewrite IH. destruct (text_in n s v); try reflexivity.
    rewrite IHv. reflexivity.
  - rewrite get_obj_erase. destruct (get_obj l s) as [ps|]; [|reflexivity]. f_equal.
    induction ps as [|[k v] ps IHp]; [reflexivity|].
    destruct ps as [|kv2 ps]; [rewrite IH; reflexivity|]. rewrite IH. destruct (text_in n s v); try reflexivity.
    rewrite IHp. reflexivity.
  - rewrite get_fun_erase. destruct (get_fun l s) as [c|]; reflexivity.
Qed.

Lemma text_of_erase s v : text_of (erase_st s) v = text_of s v.
Proof. unfold text_of, print_fuel. cbn [erase_st arrs objs]. destruct v; try reflexivity; apply text_in_erase. Qed.

Lemma alloc_env_erase p s :
  alloc_env p (erase_st s) = let '(r, s1) := alloc_env p s in (r, erase_st s1).
Proof. reflexivity. Qed.
Lemma alloc_arr_erase vs s :
  alloc_arr vs (erase_st s) = let '(r, s1) := alloc_arr vs s in (r, erase_st s1).
Proof. reflexivity. Qed.
Lemma alloc_obj_erase ps s :
  alloc_obj ps (erase_st s) = let '(r, s1) := alloc_obj ps s in (r, erase_st s1).
Proof. reflexivity. Qed.
Lemma alloc_fun_erase c s :
  alloc_fun (erase_clo c) (erase_st s) = let '(r, s1) := alloc_fun c s in (r, erase_st s1).
Proof. unfold alloc_fun, erase_st. cbn [funs envs arrs objs out inp tick]. rewrite map_length, map_app. reflexivity. Qed.
Lemma set_arr_erase l vs s : set_arr l vs (erase_st s) = erase_st (set_arr l vs s).
Proof. reflexivity. Qed.
Lemma set_obj_erase l ps s : set_obj l ps (erase_st s) = erase_st (set_obj l ps s).
Proof. reflexivity. Qed.
Lemma emit_erase ev s : emit ev (erase_st s) = erase_st (emit ev s).
Proof. reflexivity. Qed.

Section Erase.
Variable libm : N -> f64 -> f64 -> f64.
Variable clock : f64.
Variable sched : N -> list (list N * value) -> list (list N * value).

Notation eval := (Eval.eval libm clock sched).
Notation eval_list := (Eval.eval_list libm clock sched).
Notation eval_props := (Eval.eval_props libm clock sched).
Notation exec := (Eval.exec libm clock sched).
Notation exec_var := (Eval.exec_var libm clock sched).
Notation exec_vars := (Eval.exec_vars libm clock sched).
Notation exec_list := (Eval.exec_list libm clock sched).
Notation exec_while := (Eval.exec_while libm clock sched).
Notation exec_for := (Eval.exec_for libm clock sched).
Notation run_stmts := (Eval.run_stmts libm clock sched).
Notation call_native := (Eval.call_native libm clock sched).
Notation binop := (Eval.binop libm).

Lemma binop_erase s op a b : binop (erase_st s) op a b = binop s op a b.
Proof. reflexivity. Qed.

Definition erase_nres (r : nres) : nres :=
  match r with NOk v s => NOk v (erase_st s) | NFail w => NFail w | NStuck => NStuck end.

Ltac unerase :=
  repeat match goal with
  | |- context [get_arr ?l (erase_st ?s)] => change (get_arr l (erase_st s)) with (get_arr l s)
  | |- context [get_obj ?l (erase_st ?s)] => change (get_obj l (erase_st s)) with (get_obj l s)
  | |- context [inp (erase_st ?s)] => change (inp (erase_st s)) with (inp s)
  | |- context [tick (erase_st ?s)] => change (tick (erase_st s)) with (tick s)
  | |- context [arrs (erase_st ?s)] => change (arrs (erase_st s)) with (arrs s)
  | |- context [objs (erase_st ?s)] => change (objs (erase_st s)) with (objs s)
  | |- context [emit ?e (erase_st ?s)] => change (emit e (erase_st s)) with (erase_st (emit e s))
  end.

Lemma call_native_erase n vs s : call_native n vs (erase_st s) = erase_nres (call_native n vs s).
Proof.
  unfold Eval.call_native, math1, min_max, iterate_sorted, alloc_arr.
  destruct n;
  repeat (cbv beta iota; unerase;
    match goal with
    | |- context [match ?x with _ => _ end] => is_var x; destruct x
    | |- context [match ?x with _ => _ end] => destruct x eqn:?
    end); reflexivity.
Qed.

Lemma native_fail_state_erase n vs s : native_fail_state n vs (erase_st s) = erase_st (native_fail_state n vs s).
Proof.
  unfold native_fail_state. destruct n; try reflexivity.
  repeat match goal with |- context [match ?x with _ => _ end] => destruct x end; reflexivity.
Qed.

Local Notation erase_kv := (fun kv : list N * expr => let '(k, v) := kv in (k, erase_e v)).

Definition erase_at (f : nat) : Prop :=
  (forall e rho s, eval f (erase_e e) rho (erase_st s) = erase_res idv (eval f e rho s)) /\
  (forall es rho s, eval_list f (map erase_e es) rho (erase_st s) = erase_res idv (eval_list f es rho s)) /\
  (forall ps rho s, eval_props f (map erase_kv ps) rho (erase_st s) = erase_res idv (eval_props f ps rho s)) /\
  (forall rp st rho s, exec f rp (erase_s st) rho (erase_st s) = erase_res erase_sig (exec f rp st rho s)) /\
  (forall d rho s, exec_var f (erase_d d) rho (erase_st s) = erase_res erase_sig (exec_var f d rho s)) /\
  (forall ds rho s, exec_vars f (map erase_d ds) rho (erase_st s) = erase_res erase_sig (exec_vars f ds rho s)) /\
  (forall rp ss rho s, exec_list f rp (map erase_s ss) rho (erase_st s) = erase_res erase_sig (exec_list f rp ss rho s)) /\
  (forall rp c b rho s, exec_while f rp (erase_e c) (erase_s b) rho (erase_st s) =
                        erase_res erase_sig (exec_while f rp c b rho s)) /\
  (forall rp c inc b rho s, exec_for f rp (erase_e c) (option_map erase_e inc) (erase_s b) rho (erase_st s) =
                            erase_res erase_sig (exec_for f rp c inc b rho s)).

Ltac er_prims :=
  unerase; cbn [erase_clo c_params c_name c_env c_body]; rewrite ?map_length;
  repeat match goal with
  | |- context [alloc_fun (mkClo ?n ?p (map erase_s ?b) ?c) (erase_st ?s)] =>
      change (alloc_fun (mkClo n p (map erase_s b) c) (erase_st s))
        with (alloc_fun (erase_clo (mkClo n p b c)) (erase_st s))
  end;
  rewrite ?env_get_erase, ?env_assign_erase, ?env_define_erase, ?get_fun_erase, ?text_of_erase,
    ?call_native_erase, ?native_fail_state_erase, ?bind_params_erase, ?alloc_env_erase, ?alloc_arr_erase,
    ?alloc_obj_erase, ?alloc_fun_erase;
  repeat match goal with
  | |- context [binop (erase_st ?s) ?op ?a ?b] => change (binop (erase_st s) op a b) with (binop s op a b)
  | |- context [set_arr ?l ?v (erase_st ?s)] => change (set_arr l v (erase_st s)) with (erase_st (set_arr l v s))
  | |- context [set_obj ?l ?v (erase_st ?s)] => change (set_obj l v (erase_st s)) with (erase_st (set_obj l v s))
  | |- context [env_get_here ?r ?x (erase_st ?s)] => change (env_get_here r x (erase_st s)) with (env_get_here r x s)
  end.

Ltac er_bind :=
  match goal with
  | |- bind (erase_res _ _) _ = erase_res _ (bind _ _) =>
      let a := fresh "a" in let s0 := fresh "s0" in
      apply erase_bind; intros a s0
  end.

Ltac er_match :=
  match goal with
  | |- context [alloc_env ?p ?s] => destruct (alloc_env p s) eqn:?
  | |- context [alloc_arr ?p ?s] => destruct (alloc_arr p s) eqn:?
  | |- context [alloc_obj ?p ?s] => destruct (alloc_obj p s) eqn:?
  | |- context [alloc_fun ?p ?s] => destruct (alloc_fun p s) eqn:?
  | |- context [match option_map _ ?x with _ => _ end] => destruct x eqn:?; cbn [option_map]
  | |- context [erase_nres ?x] => destruct x eqn:?; cbn [erase_nres]
  | |- context [erase_sig ?x] => is_var x; destruct x; cbn [erase_sig]
  | |- context [match ?x with _ => _ end] => is_var x; destruct x
  | |- context [match ?x with _ => _ end] => destruct x eqn:?
  end.

Ltac er_ih := repeat match goal with H : forall _, _ |- _ => rewrite H end.

Ltac er_for :=
  match goal with
  | H : _ |- exec_for _ ?rp (erase_e ?c) (Some (erase_e ?e)) (erase_s ?b) ?rho (erase_st ?s) = _ =>
      exact (H rp c (Some e) b rho s)
  | H : _ |- exec_for _ ?rp (erase_e ?c) None (erase_s ?b) ?rho (erase_st ?s) = _ =>
      exact (H rp c None b rho s)
  end.

Ltac er_go :=
  unfold lift_ores;
  repeat (unfold idv; cbn [bind]; cbv beta iota; er_ih; er_prims; first [reflexivity | er_for | er_bind | er_match]).

Lemma erase_all : forall f, erase_at f.
Proof.
  induction f as [|f IH].
  - unfold erase_at. repeat split; intros; reflexivity.
  - destruct IH as (Hev & Hel & Hep & Hex & Hxv & Hxvs & Hxl & Hxw & Hxf).
    unfold erase_at.
    split; [|split; [|split; [|split; [|split; [|split; [|split; [|split]]]]]]].
    + intros e rho s. destruct e; cbn [erase_e]; rewrite !eval_S; er_go.
    + intros es rho s. destruct es; cbn [map]; rewrite !eval_list_S; er_go.
    + intros ps rho s. destruct ps as [|[k e] ps]; cbn [map]; rewrite !eval_props_S; er_go.
    + intros rp st rho s. destruct st; cbn [erase_s]; rewrite !exec_S; er_go.
    + intros d rho s. destruct d as [[x init] line]; cbn [erase_d]; rewrite !exec_var_S; er_go.
    + intros ds rho s. destruct ds; cbn [map]; rewrite !exec_vars_S; er_go.
    + intros rp ss rho s. destruct ss; cbn [map]; rewrite !exec_list_S; er_go.
    + intros rp c b rho s. rewrite !exec_while_S; er_go.
    + intros rp c inc b rho s. rewrite !exec_for_S; er_go.
Qed.

Lemma run_stmts_erase f rp : forall p s,
  run_stmts f rp (map erase_s p) (erase_st s) = erase_res idv (run_stmts f rp p s).
Proof.
  destruct (erase_all f) as (_ & _ & _ & Hex & _).
  induction p as [|st p IHp]; intros s; simpl; [reflexivity|].
  rewrite Hex. apply erase_bind. intros sig s0. destruct sig; cbn [erase_sig]; try reflexivity. apply IHp.
Qed.

Lemma erase_st_init stdin : erase_st (init_state stdin) = init_state stdin.
Proof. reflexivity. Qed.

(** Evaluation reads line numbers only to put them into diagnostics (and into the
    signals that become the stray-break/continue/return diagnostics): running the
    tree with all line fields erased, in the store with the stored function bodies
    erased, gives the same outcome -- same kind, same value, same output, input and
    store, same error kind -- with line 0 in place of every line. *)
Theorem lines_only_in_diagnostics f :
  (forall e rho s, eval f (erase_e e) rho (erase_st s) = erase_res idv (eval f e rho s)) /\
  (forall rp st rho s, exec f rp (erase_s st) rho (erase_st s) = erase_res erase_sig (exec f rp st rho s)) /\
  (forall rp p s, run_stmts f rp (map erase_s p) (erase_st s) = erase_res idv (run_stmts f rp p s)).
Proof.
  destruct (erase_all f) as (Hev & _ & _ & Hex & _).
  split; [exact Hev|]. split; [exact Hex|]. intros rp p s. apply run_stmts_erase.
Qed.

(** readable forms for expressions *)
Corollary erased_eval_ok f e rho s v s1 :
  eval f e rho s = Ok v s1 -> eval f (erase_e e) rho (erase_st s) = Ok v (erase_st s1).
Proof. intros H. destruct (erase_all f) as (Hev & _). rewrite Hev, H. reflexivity. Qed.

Corollary erased_eval_err f e rho s er l s1 :
  eval f e rho s = Err er l s1 -> eval f (erase_e e) rho (erase_st s) = Err er 0 (erase_st s1).
Proof. intros H. destruct (erase_all f) as (Hev & _). rewrite Hev, H. reflexivity. Qed.

(** what two outcomes have in common when they are equal after erasure *)
Definition same_but_lines {A} (r r' : res A) : Prop :=
  match r, r' with
  | Ok a s, Ok a' s' => a = a' /\ erase_st s = erase_st s'
  | Err e _ s, Err e' _ s' => e = e' /\ erase_st s = erase_st s'
  | Crash s, Crash s' => erase_st s = erase_st s'
  | Fuel, Fuel => True
  | Stuck, Stuck => True
  | _, _ => False
  end.

Lemma erase_res_same {A} (r r' : res A) : erase_res idv r = erase_res idv r' -> same_but_lines r r'.
Proof.
  destruct r, r'; unfold idv; simpl; intros H; try discriminate H; try exact I; inversion H; auto.
Qed.

Lemma erase_st_obs s s' : erase_st s = erase_st s' ->
  out s = out s' /\ inp s = inp s' /\ envs s = envs s' /\ arrs s = arrs s' /\ objs s = objs s' /\ tick s = tick s' /\
  length (funs s) = length (funs s').
Proof.
  unfold erase_st. intros H. inversion H as [[He Ha Ho Hf Hu Hi Ht]].
  repeat (split; [assumption|]). rewrite <- (map_length erase_clo (funs s)), Hf, map_length. reflexivity.
Qed.

(** Two programs that differ only in line fields behave alike: the same kind of outcome,
    the same output, the same unread input, the same store up to the lines in stored
    function bodies, the same error kind; only the line of the diagnostic may differ. *)
Theorem lines_only_in_diagnostics_prog f rp p q stdin :
  map erase_s p = map erase_s q ->
  same_but_lines (run_stmts f rp p (init_state stdin)) (run_stmts f rp q (init_state stdin)).
Proof.
  intros H. apply erase_res_same.
  rewrite <- !run_stmts_erase, H. reflexivity.
Qed.

End Erase.
