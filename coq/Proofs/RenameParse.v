(** Consistent renaming of identifiers, carried through the PARSER.

    [ren_tok r] renames the lexeme of every identifier token (kind, literal and line are
    kept; every other token is untouched).  Parsing the renamed token list gives the
    renamed tree, the renamed rest and the same diagnostics (same kind, same line, the
    quoted lexeme being the one of the renamed token) -- for every parser function, by
    one fuel induction in the style of Proofs/InvFacts.v ([ExprRel] / [StmtRel]).

    The tree-side renaming the parser induces is [ren_expr_all] / [ren_stmt_all]: it
    renames variable occurrences, assignment targets, declared names, function names
    and parameters (as [ren_expr] / [ren_stmt] of Proofs/RenameDefs.v do) AND property
    names ([o.k], [o.k = v]) and object-literal keys ([{k: 1}]), which are identifier
    tokens too.  Proofs/RenameParseRun.v restricts to renamings that fix the names in
    property / key position and connects with the evaluator theorem of Proofs/Rename.v.

    Hypotheses on [r]: injective ([props_put] compares keys), and it maps reserved
    names to reserved names and others to others ([pvardecls] / [pdecl] refuse to
    declare a reserved name).  The reserved names are the 17 built-in names and the
    ASCII word "input": [r_reserved_of_native] derives the second hypothesis from
    "[r] fixes the built-in names and input".

    One requested statement is false for the model and is replaced by a relational one:
    a diagnostic quotes the lexeme of the offending token whatever its kind, and only
    identifier tokens are renamed, so the diagnostics of the renamed list are NOT
    [option_map r] of the original ones ([map_pd_is_false] in Proofs/RenameParseRun.v).
    [rdiag] says exactly how they are related ([pprogram_rename], [parse_rename]); when
    [r] fixes the lexemes of the non-identifier tokens of the list the functional form
    [map_pres] / [map_pd] holds ([pprogram_rename_eq], [parse_rename_eq]). *)
From Coq Require Import Lia.
From Borno Require Import Base Num Unicode Token Ast Parser ParserEqs Value EnvLaws RenameDefs.
Local Open Scope N_scope.

(* ================================================================ *)
(** * 0. Facts that do not mention a renaming *)

Lemma tkind_eqb_eq a b : tkind_eqb a b = true <-> a = b.
Proof.
  unfold tkind_eqb. rewrite N.eqb_eq. split; [|intros ->; reflexivity].
  destruct a, b; intros H; try reflexivity; discriminate H.
Qed.

Lemma tkind_eqb_refl a : tkind_eqb a a = true.
Proof. apply tkind_eqb_eq. reflexivity. Qed.

Lemma is_reserved_In s : is_reserved s = true <-> In s reserved_names.
Proof.
  unfold is_reserved. rewrite existsb_exists. split.
  - intros (x & Hx & E). apply str_eqb_eq in E. subst x. exact Hx.
  - intros H. exists s. split; [exact H|apply str_eqb_refl].
Qed.

(** the ASCII word "input", reserved but not the name of a built-in *)
Definition input_ascii : list N := [105;110;112;117;116].

Lemma reserved_names_char x :
  In x reserved_names <-> x = input_ascii \/ exists n, x = native_name n.
Proof.
  split.
  - intros H. unfold reserved_names in H. cbn [In] in H.
    repeat (destruct H as [H|H];
            [ first [ left; symmetry; exact H
                    | right;
                      first [ exists NClock; symmetry; exact H | exists NLen; symmetry; exact H
                            | exists NAppend; symmetry; exact H | exists NRemove; symmetry; exact H
                            | exists NDelete; symmetry; exact H | exists NKeys; symmetry; exact H
                            | exists NValues; symmetry; exact H | exists NAbs; symmetry; exact H
                            | exists NSqrt; symmetry; exact H | exists NPow; symmetry; exact H
                            | exists NSin; symmetry; exact H | exists NCos; symmetry; exact H
                            | exists NTan; symmetry; exact H | exists NMin; symmetry; exact H
                            | exists NMax; symmetry; exact H | exists NRound; symmetry; exact H
                            | exists NInput; symmetry; exact H ] ] | ]).
    contradiction.
  - intros [->|[n ->]]; [|destruct n]; unfold reserved_names, input_ascii, native_name; cbn [In]; tauto.
Qed.

Lemma consume_inv eofl k pk ts t rest ds :
  consume eofl k pk ts = POk t rest ds -> ts = t :: rest /\ tk t = k /\ ds = [].
Proof.
  unfold consume, perr_at. destruct ts as [|t0 r0]; [discriminate|].
  destruct (tkind_eqb (tk t0) k) eqn:K; [|discriminate].
  intros H. inversion H; subst. apply tkind_eqb_eq in K. auto.
Qed.

Lemma consume_kind eofl k pk ts t rest ds : consume eofl k pk ts = POk t rest ds -> tk t = k.
Proof. intros H. apply consume_inv in H. tauto. Qed.

(* ================================================================ *)
(** * 1. Definitions *)

Section RenParse.
Variable r : list N -> list N.

(** rename the lexeme of an identifier token *)
Definition ren_tok (t : token) : token :=
  if tkind_eqb (tk t) TIDENTIFIER then mkTok (tk t) (r (tlex t)) (tlit t) (tline t) else t.

(** the renaming of trees that [ren_tok] induces through the parser: every name,
    property names and object-literal keys included *)
Fixpoint ren_expr_all (e : expr) : expr :=
  match e with
  | ELit v line => ELit v line
  | EId x line => EId (r x) line
  | EGroup e' line => EGroup (ren_expr_all e') line
  | EUnary op e' line => EUnary op (ren_expr_all e') line
  | EBinary op a b line => EBinary op (ren_expr_all a) (ren_expr_all b) line
  | ELogical op a b => ELogical op (ren_expr_all a) (ren_expr_all b)
  | EAssign x nline v line => EAssign (r x) nline (ren_expr_all v) line
  | EArrAssign a i v line => EArrAssign (ren_expr_all a) (ren_expr_all i) (ren_expr_all v) line
  | EPropAssign o p v line => EPropAssign (ren_expr_all o) (r p) (ren_expr_all v) line
  | ECall c pline args => ECall (ren_expr_all c) pline (map ren_expr_all args)
  | EIndex a i line => EIndex (ren_expr_all a) (ren_expr_all i) line
  | EProp o p line => EProp (ren_expr_all o) (r p) line
  | EArray es => EArray (map ren_expr_all es)
  | EObject ps => EObject (map (fun kv => (r (fst kv), ren_expr_all (snd kv))) ps)
  end.

Definition ren_props_all (ps : list (list N * expr)) : list (list N * expr) :=
  map (fun kv => (r (fst kv), ren_expr_all (snd kv))) ps.

Definition ren_vdecl_all (d : vdecl) : vdecl :=
  let '(x, init, line) := d in (r x, option_map ren_expr_all init, line).

Fixpoint ren_stmt_all (st : stmt) : stmt :=
  match st with
  | SExpr e => SExpr (ren_expr_all e)
  | SPrint e => SPrint (ren_expr_all e)
  | SVar d => SVar (ren_vdecl_all d)
  | SVarList ds => SVarList (map ren_vdecl_all ds)
  | SBlock ss => SBlock (map ren_stmt_all ss)
  | SIf c t e => SIf (ren_expr_all c) (ren_stmt_all t) (match e with Some e' => Some (ren_stmt_all e') | None => None end)
  | SWhile c b => SWhile (ren_expr_all c) (ren_stmt_all b)
  | SFor init c inc b =>
      SFor (match init with Some i => Some (ren_stmt_all i) | None => None end)
           (ren_expr_all c) (option_map ren_expr_all inc) (ren_stmt_all b)
  | SBreak line => SBreak line
  | SContinue line => SContinue line
  | SReturn kw v => SReturn kw (option_map ren_expr_all v)
  | SFun name params body => SFun (r name) (map r params) (map ren_stmt_all body)
  end.

(** the naive renaming of a diagnostic: rename the lexeme it quotes *)
Definition map_pd (d : pdiag) : pdiag := mkPD (pd_line d) (option_map r (pd_where d)) (pd_kind d).

(* ---------------------------------------------------------------- *)
(** ** tokens *)

Lemma tk_ren t : tk (ren_tok t) = tk t.
Proof. unfold ren_tok. destruct (tkind_eqb (tk t) TIDENTIFIER); reflexivity. Qed.
Lemma tlit_ren t : tlit (ren_tok t) = tlit t.
Proof. unfold ren_tok. destruct (tkind_eqb (tk t) TIDENTIFIER); reflexivity. Qed.
Lemma tline_ren t : tline (ren_tok t) = tline t.
Proof. unfold ren_tok. destruct (tkind_eqb (tk t) TIDENTIFIER); reflexivity. Qed.
Lemma tlex_ren_id t : tk t = TIDENTIFIER -> tlex (ren_tok t) = r (tlex t).
Proof. unfold ren_tok. intros ->. reflexivity. Qed.
Lemma tlex_ren_other t : tk t <> TIDENTIFIER -> ren_tok t = t.
Proof.
  unfold ren_tok. intros H. destruct (tkind_eqb (tk t) TIDENTIFIER) eqn:K; [|reflexivity].
  apply tkind_eqb_eq in K. contradiction.
Qed.

Lemma tl_ren ts : tl (map ren_tok ts) = map ren_tok (tl ts).
Proof. destruct ts; reflexivity. Qed.

(** [P] is a property of the tokens of the list being parsed (for instance "is a member
    of the list"); the diagnostics quote tokens with that property *)
Section Track.
Variable P : token -> Prop.

(** how the diagnostics of the renamed token list relate to the original ones: the same
    kind at the same line, quoting the renamed token (or "at end" in both) *)
Inductive rdiag : pdiag -> pdiag -> Prop :=
  | rd_tok t k : P t -> rdiag (diag_tok t k) (diag_tok (ren_tok t) k)
  | rd_end l k : rdiag (mkPD l None k) (mkPD l None k).

(** results related: the renamed value, the renamed rest, related diagnostics *)
Definition prel {A} (g : A -> A) (x x' : pres A) : Prop :=
  match x with
  | POk a rest ds =>
      Forall P rest /\ exists ds', x' = POk (g a) (map ren_tok rest) ds' /\ Forall2 rdiag ds ds'
  | PErr ds => exists ds', x' = PErr ds' /\ Forall2 rdiag ds ds'
  | PFuel => x' = PFuel
  end.

Lemma Forall_tl_P ts : Forall P ts -> Forall P (tl ts).
Proof. intros H. destruct H; simpl; [constructor|assumption]. Qed.

Lemma Forall_cons_P t ts : Forall P (t :: ts) -> P t /\ Forall P ts.
Proof. intros H. inversion H; subst. split; assumption. Qed.

Section WithEof.
Variable eofl : N.

Notation pexpr := (Parser.pexpr eofl).
Notation plevel := (Parser.plevel eofl).
Notation ploop := (Parser.ploop eofl).
Notation punary := (Parser.punary eofl).
Notation pcallloop := (Parser.pcallloop eofl).
Notation pargs := (Parser.pargs eofl).
Notation pprimary := (Parser.pprimary eofl).
Notation pprops := (Parser.pprops eofl).
Notation pvardecls := (Parser.pvardecls eofl).
Notation pparams := (Parser.pparams eofl).
Notation pdecl := (Parser.pdecl eofl).
Notation pstmt := (Parser.pstmt eofl).
Notation pblock := (Parser.pblock eofl).
Notation pprogram := (Parser.pprogram eofl).
Notation pvar := (Parser.pvar eofl).
Notation pexprstmt := (Parser.pexprstmt eofl).
Notation consume := (Parser.consume eofl).
Notation consume_lenient := (Parser.consume_lenient eofl).
Notation perr_at := (Parser.perr_at eofl).
Notation diag_at := (Parser.diag_at eofl).
Notation peek_line := (Parser.peek_line eofl).

Lemma check_ren k ts : check k (map ren_tok ts) = check k ts.
Proof. destruct ts as [|t ts]; simpl; [reflexivity|]. rewrite tk_ren. reflexivity. Qed.

Lemma peek_line_ren ts : peek_line (map ren_tok ts) = peek_line ts.
Proof. destruct ts as [|t ts]; simpl; [reflexivity|]. apply tline_ren. Qed.

Lemma rdiag_at ts k : Forall P ts -> rdiag (diag_at ts k) (diag_at (map ren_tok ts) k).
Proof.
  intros H. destruct ts as [|t ts]; simpl; [apply rd_end|apply (rd_tok t k)].
  apply Forall_cons_P in H. tauto.
Qed.

Lemma consume_P k pk ts t rest ds : consume k pk ts = POk t rest ds -> Forall P ts -> P t.
Proof. intros E H. apply consume_inv in E. destruct E as (-> & _). apply Forall_cons_P in H. tauto. Qed.

(* ---------------------------------------------------------------- *)
(** ** the result relation *)

Lemma prel_bind {A B} (g : A -> A) (h : B -> B) (x x' : pres A) (k k' : A -> list token -> pres B) :
  prel g x x' ->
  (forall a rest ds, x = POk a rest ds -> Forall P rest -> prel h (k a rest) (k' (g a) (map ren_tok rest))) ->
  prel h (pbind x k) (pbind x' k').
Proof.
  intros H K. destruct x as [a rest ds|ds|]; simpl in H.
  - destruct H as (HF & ds' & -> & Hd). specialize (K a rest ds eq_refl HF). simpl.
    destruct (k a rest) as [b r2 d2|d2|]; simpl in K |- *.
    + destruct K as (HF2 & d2' & -> & Hd2). split; [exact HF2|].
      eexists. split; [reflexivity|]. apply Forall2_app; assumption.
    + destruct K as (d2' & -> & Hd2). eexists. split; [reflexivity|]. apply Forall2_app; assumption.
    + rewrite K. reflexivity.
  - destruct H as (ds' & -> & Hd). simpl. eexists. split; [reflexivity|exact Hd].
  - rewrite H. reflexivity.
Qed.

Lemma prel_ok {A} (g : A -> A) a rest :
  Forall P rest -> prel g (POk a rest []) (POk (g a) (map ren_tok rest) []).
Proof. intros H. simpl. split; [exact H|]. eexists. split; [reflexivity|constructor]. Qed.

Lemma prel_ok_at {A} (g : A -> A) a rest ts k :
  Forall P rest -> Forall P ts ->
  prel g (POk a rest [diag_at ts k]) (POk (g a) (map ren_tok rest) [diag_at (map ren_tok ts) k]).
Proof.
  intros H H'. simpl. split; [exact H|]. eexists. split; [reflexivity|].
  constructor; [apply rdiag_at; exact H'|constructor].
Qed.

Lemma prel_perr_at {A} (g : A -> A) k ts : Forall P ts -> prel g (perr_at ts k) (perr_at (map ren_tok ts) k).
Proof.
  intros H. unfold Parser.perr_at. simpl. eexists. split; [reflexivity|].
  constructor; [apply rdiag_at; exact H|constructor].
Qed.

Lemma prel_perr_tok {A} (g : A -> A) k t : P t -> prel g (PErr [diag_tok t k]) (PErr [diag_tok (ren_tok t) k]).
Proof. intros H. simpl. eexists. split; [reflexivity|]. constructor; [apply rd_tok; exact H|constructor]. Qed.

Lemma prel_consume k pk ts : Forall P ts -> prel ren_tok (consume k pk ts) (consume k pk (map ren_tok ts)).
Proof.
  intros H. pose proof (prel_perr_at ren_tok pk ts H) as E.
  destruct ts as [|t ts]; [exact E|].
  unfold Parser.consume. cbn [map]. rewrite tk_ren.
  destruct (tkind_eqb (tk t) k); [apply prel_ok|exact E].
  apply Forall_cons_P in H. tauto.
Qed.

Lemma prel_lenient {A} (g : A -> A) k pk (a : A) ts : Forall P ts ->
  prel g (let '(r2, ds) := consume_lenient k pk ts in POk a r2 ds)
         (let '(r2, ds) := consume_lenient k pk (map ren_tok ts) in POk (g a) r2 ds).
Proof.
  intros H. pose proof (rdiag_at ts pk H) as D.
  destruct ts as [|t ts]; simpl.
  - split; [exact H|]. eexists. split; [reflexivity|]. constructor; [exact D|constructor].
  - rewrite tk_ren. destruct (tkind_eqb (tk t) k); simpl.
    + split; [apply Forall_cons_P in H; tauto|]. eexists. split; [reflexivity|constructor].
    + split; [exact H|]. eexists. split; [reflexivity|]. constructor; [exact D|constructor].
Qed.

(* ---------------------------------------------------------------- *)
(** ** the places where the parser looks at a lexeme *)

Hypothesis r_inj : forall a b, r a = r b -> a = b.
Hypothesis r_reserved : forall x, In (r x) reserved_names <-> In x reserved_names.

Lemma is_reserved_ren x : is_reserved (r x) = is_reserved x.
Proof.
  destruct (is_reserved x) eqn:E.
  - apply is_reserved_In. apply r_reserved. apply is_reserved_In. exact E.
  - destruct (is_reserved (r x)) eqn:E'; [|reflexivity].
    apply (proj1 (is_reserved_In _)) in E'. apply (proj1 (r_reserved _)) in E'.
    apply (proj2 (is_reserved_In _)) in E'. congruence.
Qed.

Lemma props_put_ren acc k v :
  props_put (ren_props_all acc) (r k) (ren_expr_all v) = ren_props_all (props_put acc k v).
Proof.
  induction acc as [|[k' v'] acc IH]; simpl; [reflexivity|].
  rewrite (str_eqb_ren r r_inj). destruct (str_eqb k k'); simpl; [reflexivity|].
  f_equal. exact IH.
Qed.

Lemma is_lit_container_ren o : is_lit_container (option_map ren_expr_all o) = is_lit_container o.
Proof. destruct o as [e|]; [destruct e|]; reflexivity. Qed.

Lemma mk_bin_ren b op e1 e2 :
  mk_bin b (ren_tok op) (ren_expr_all e1) (ren_expr_all e2) = ren_expr_all (mk_bin b op e1 e2).
Proof. unfold mk_bin. rewrite tk_ren, tline_ren. destruct b; reflexivity. Qed.

(* ================================================================ *)
(** * 2. Every parser function commutes with the renaming *)

(** the renaming of a parsed value, by its type *)
Ltac ren_for A :=
  lazymatch A with
  | token => constr:(ren_tok)
  | expr => constr:(ren_expr_all)
  | list expr => constr:(map ren_expr_all)
  | option expr => constr:(option_map ren_expr_all)
  | list (list N * expr) => constr:(ren_props_all)
  | list vdecl => constr:(map ren_vdecl_all)
  | list (list N * option expr * N) => constr:(map ren_vdecl_all)
  | list (list N) => constr:(map r)
  | stmt => constr:(ren_stmt_all)
  | option stmt => constr:(option_map ren_stmt_all)
  | list stmt => constr:(map ren_stmt_all)
  end.

Ltac tok_norm :=
  cbn [map];
  rewrite ?check_ren, ?peek_line_ren, ?tl_ren, ?tk_ren, ?tline_ren, ?tlit_ren;
  repeat match goal with
  | K : tk ?t = TIDENTIFIER |- context [tlex (ren_tok ?t)] => rewrite (tlex_ren_id t K)
  end;
  rewrite ?is_reserved_ren, ?is_lit_container_ren, ?mk_bin_ren, ?props_put_ren.

Ltac open_F :=
  repeat match goal with
  | H : Forall P (_ :: _) |- _ =>
      let Hp := fresh "Hp" in apply Forall_cons_P in H; destruct H as [Hp H]
  end.

Ltac p_side :=
  first [ assumption | apply Forall_tl_P; assumption | constructor; p_side ].

Ltac p_leaf :=
  first
  [ match goal with IH : forall _, _ |- prel _ _ _ => apply IH; p_side end
  | apply prel_consume; p_side
  | apply prel_perr_at; p_side
  | apply prel_perr_tok; p_side
  | match goal with |- prel ?g _ _ => apply (prel_lenient g); p_side end
  | match goal with |- prel ?g (POk ?a ?rest []) _ => refine (prel_ok g a rest _); p_side end
  | match goal with |- prel ?g (POk ?a ?rest [Parser.diag_at _ ?ts ?k]) _ =>
      refine (prel_ok_at g a rest ts k _ _); p_side end ].

Ltac p_step :=
  cbv zeta;
  match goal with
  | |- prel _ (@pbind ?A _ _ _) _ =>
      let g := ren_for A in
      let a := fresh "a" in let rest := fresh "rest" in let ds := fresh "ds" in let E := fresh "E" in
      let HF := fresh "HF" in
      eapply (prel_bind g);
        [ | intros a rest ds E HF;
            first [ (let Hp := fresh "Hp" in
                     assert (Hp : P a) by (eapply consume_P; [exact E | p_side]));
                    apply consume_kind in E
                  | clear E ];
            tok_norm ]
  | |- prel _ (match ?x with [] => _ | _ :: _ => _ end) (match map ren_tok ?x with [] => _ | _ :: _ => _ end) =>
      let t := fresh "t" in let rr := fresh "rr" in destruct x as [|t rr]; open_F; tok_norm
  | |- prel _ (match ?e with ELit _ _ => _ | _ => _ end) (match ren_expr_all ?e with ELit _ _ => _ | _ => _ end) =>
      destruct e; cbn [ren_expr_all]
  | |- prel _ (match ?ds with [] => _ | _ :: _ => _ end) (match map ren_vdecl_all ?ds with [] => _ | _ :: _ => _ end) =>
      let d := fresh "d" in let d2 := fresh "d2" in let dr := fresh "dr" in
      destruct ds as [|d [|d2 dr]]; cbn [map]
  | |- context [match option_map ren_expr_all ?c with Some _ => _ | None => _ end] =>
      destruct c; cbn [option_map]
  | |- prel _ (match ?x with _ => _ end) (match ?x with _ => _ end) =>
      let K := fresh "K" in destruct x eqn:K; tok_norm
  | |- prel _ (if ?x then _ else _) (if ?x then _ else _) =>
      let K := fresh "K" in destruct x eqn:K; tok_norm
  | |- prel _ _ _ => p_leaf
  end.

Ltac p_go := tok_norm; repeat p_step.

Definition ExprRen (f : nat) : Prop :=
  (forall ts, Forall P ts -> prel ren_expr_all (pexpr f ts) (pexpr f (map ren_tok ts))) /\
  (forall lv ts, Forall P ts -> prel ren_expr_all (plevel f lv ts) (plevel f lv (map ren_tok ts))) /\
  (forall l lv e ts, Forall P ts -> prel ren_expr_all (ploop f l lv e ts) (ploop f l lv (ren_expr_all e) (map ren_tok ts))) /\
  (forall ts, Forall P ts -> prel ren_expr_all (punary f ts) (punary f (map ren_tok ts))) /\
  (forall e ts, Forall P ts -> prel ren_expr_all (pcallloop f e ts) (pcallloop f (ren_expr_all e) (map ren_tok ts))) /\
  (forall ts, Forall P ts -> prel (map ren_expr_all) (pargs f ts) (pargs f (map ren_tok ts))) /\
  (forall ts, Forall P ts -> prel ren_expr_all (pprimary f ts) (pprimary f (map ren_tok ts))) /\
  (forall acc ts, Forall P ts -> prel ren_props_all (pprops f acc ts) (pprops f (ren_props_all acc) (map ren_tok ts))).

Lemma expr_ren_all : forall f, ExprRen f.
Proof.
  induction f as [|f IH].
  - unfold ExprRen. repeat split; intros; reflexivity.
  - destruct IH as (Ie & Il & Ilo & Iu & Ic & Ia & Ipr & Ipp).
    unfold ExprRen. split; [|split; [|split; [|split; [|split; [|split; [|split]]]]]].
    + intros ts H. rewrite !pexpr_S. p_go.
    + intros lv ts H. rewrite !plevel_S. p_go.
    + intros l lv e ts H. rewrite !ploop_S. p_go.
    + intros ts H. rewrite !punary_S. p_go.
    + intros e ts H. rewrite !pcallloop_S. p_go.
    + intros ts H. rewrite !pargs_S. p_go.
    + intros ts H. rewrite !pprimary_S. p_go.
    + intros acc ts H. rewrite !pprops_S. p_go.
Qed.

Lemma pexpr_ren f ts : Forall P ts -> prel ren_expr_all (pexpr f ts) (pexpr f (map ren_tok ts)).
Proof. apply (expr_ren_all f). Qed.

Lemma pvardecls_ren : forall f l0 ts, Forall P ts ->
  prel (map ren_vdecl_all) (pvardecls f l0 ts) (pvardecls f l0 (map ren_tok ts)).
Proof.
  induction f as [|f IH]; intros l0 ts H; [reflexivity|].
  pose proof (pexpr_ren f) as Ie. specialize (IH l0).
  rewrite !pvardecls_S. p_go.
Qed.

Lemma pvar_ren f ts : Forall P ts -> prel ren_stmt_all (pvar f ts) (pvar f (map ren_tok ts)).
Proof.
  intros H. pose proof (pvardecls_ren f) as Iv. unfold Parser.pvar. p_go.
Qed.

Lemma pexprstmt_ren f ts : Forall P ts -> prel ren_stmt_all (pexprstmt f ts) (pexprstmt f (map ren_tok ts)).
Proof.
  intros H. pose proof (pexpr_ren f) as Ie. unfold Parser.pexprstmt. p_go.
Qed.

Lemma pparams_ren : forall f n ts, Forall P ts -> prel (map r) (pparams f n ts) (pparams f n (map ren_tok ts)).
Proof.
  induction f as [|f IH]; intros n ts H; [reflexivity|].
  rewrite !pparams_S. p_go.
Qed.

Definition StmtRen (f : nat) : Prop :=
  (forall ts, Forall P ts -> prel ren_stmt_all (pdecl f ts) (pdecl f (map ren_tok ts))) /\
  (forall ts, Forall P ts -> prel ren_stmt_all (pstmt f ts) (pstmt f (map ren_tok ts))) /\
  (forall ts, Forall P ts -> prel (map ren_stmt_all) (pblock f ts) (pblock f (map ren_tok ts))).

Lemma stmt_ren_all : forall f, StmtRen f.
Proof.
  induction f as [|f IH].
  - unfold StmtRen. repeat split; intros; reflexivity.
  - destruct IH as (Id & Is & Ib).
    pose proof (pexpr_ren f) as Ie. pose proof (pvar_ren f) as Iv.
    pose proof (pexprstmt_ren f) as Ix. pose proof (pparams_ren f) as Ip.
    unfold StmtRen. split; [|split].
    + intros ts H. rewrite !pdecl_S. p_go.
    + intros ts H. rewrite !pstmt_S. p_go.
    + intros ts H. rewrite !pblock_S. p_go.
Qed.

Lemma pprogram_ren : forall f ts, Forall P ts ->
  prel (map ren_stmt_all) (pprogram f ts) (pprogram f (map ren_tok ts)).
Proof.
  induction f as [|f IH]; intros ts H; [reflexivity|].
  pose proof (proj1 (stmt_ren_all f)) as Id.
  rewrite !pprogram_S. p_go.
Qed.

End WithEof.

(** what [rdiag] says about the three fields *)
Lemma rdiag_spec d d' : rdiag d d' ->
  pd_line d' = pd_line d /\ pd_kind d' = pd_kind d /\
  (pd_where d' = pd_where d \/ pd_where d' = option_map r (pd_where d)).
Proof.
  intros H. destruct H as [t k _|l k]; unfold diag_tok; cbn [pd_line pd_kind pd_where option_map].
  - rewrite tline_ren. split; [reflexivity|]. split; [reflexivity|].
    destruct (tkind_eqb (tk t) TIDENTIFIER) eqn:K.
    + apply tkind_eqb_eq in K. right. rewrite (tlex_ren_id t K). reflexivity.
    + left. unfold ren_tok. rewrite K. reflexivity.
  - auto.
Qed.

Lemma rdiags_lines_kinds ds ds' : Forall2 rdiag ds ds' ->
  map pd_line ds' = map pd_line ds /\ map pd_kind ds' = map pd_kind ds.
Proof.
  induction 1 as [|d d' ds ds' Hd _ [IH1 IH2]]; [split; reflexivity|].
  destruct (rdiag_spec d d' Hd) as (H1 & H2 & _). cbn [map]. rewrite H1, H2, IH1, IH2. split; reflexivity.
Qed.

Lemma rdiags_nil_l ds' : Forall2 rdiag [] ds' -> ds' = [].
Proof. intros H. inversion H. reflexivity. Qed.
Lemma rdiags_nil_r ds : Forall2 rdiag ds [] -> ds = [].
Proof. intros H. inversion H. reflexivity. Qed.

(** when [r] fixes the lexeme of every token that has property [P] and is not an
    identifier, the related diagnostic is the naively renamed one *)
Definition nonid_fixed : Prop := forall t, P t -> tk t <> TIDENTIFIER -> r (tlex t) = tlex t.

Lemma rdiag_map_pd d d' : nonid_fixed -> rdiag d d' -> d' = map_pd d.
Proof.
  intros HP H. destruct H as [t k Ht|l k]; unfold map_pd, diag_tok; cbn [pd_line pd_kind pd_where option_map].
  - rewrite tline_ren. f_equal. f_equal.
    destruct (tkind_eqb (tk t) TIDENTIFIER) eqn:K.
    + apply tkind_eqb_eq in K. apply tlex_ren_id. exact K.
    + assert (K' : tk t <> TIDENTIFIER) by (intros E; apply tkind_eqb_eq in E; congruence).
      rewrite (tlex_ren_other t K'). symmetry. apply HP; assumption.
  - reflexivity.
Qed.

Lemma rdiags_map_pd ds ds' : nonid_fixed -> Forall2 rdiag ds ds' -> ds' = map map_pd ds.
Proof.
  intros HP. induction 1 as [|d d' ds ds' Hd _ IH]; [reflexivity|].
  cbn [map]. rewrite (rdiag_map_pd d d' HP Hd), IH. reflexivity.
Qed.

(** the renamed result, as a function of the original one *)
Definition map_pres {A} (g : A -> A) (x : pres A) : pres A :=
  match x with
  | POk a rest ds => POk (g a) (map ren_tok rest) (map map_pd ds)
  | PErr ds => PErr (map map_pd ds)
  | PFuel => PFuel
  end.

Definition prel_open {A} (g : A -> A) (x x' : pres A) : Prop :=
  match x with
  | POk a rest ds => exists ds', x' = POk (g a) (map ren_tok rest) ds' /\ Forall2 rdiag ds ds'
  | PErr ds => exists ds', x' = PErr ds' /\ Forall2 rdiag ds ds'
  | PFuel => x' = PFuel
  end.

Lemma prel_spec {A} (g : A -> A) x x' : prel g x x' -> prel_open g x x'.
Proof. destruct x; simpl; [tauto|auto|auto]. Qed.

Lemma prel_map_pres {A} (g : A -> A) x x' : nonid_fixed -> prel g x x' -> x' = map_pres g x.
Proof.
  intros HP H. destruct x as [a rest ds|ds|]; simpl in H |- *.
  - destruct H as (_ & ds' & -> & Hd). rewrite (rdiags_map_pd ds ds' HP Hd). reflexivity.
  - destruct H as (ds' & -> & Hd). rewrite (rdiags_map_pd ds ds' HP Hd). reflexivity.
  - exact H.
Qed.

End Track.

(* ================================================================ *)
(** * 3. The theorems, spelled out *)

Section Final.
Variable eofl : N.
Hypothesis r_inj : forall a b, r a = r b -> a = b.
Hypothesis r_reserved : forall x, In (r x) reserved_names <-> In x reserved_names.

Notation pexpr := (Parser.pexpr eofl).
Notation pdecl := (Parser.pdecl eofl).
Notation pprogram := (Parser.pprogram eofl).

Lemma Forall_In_self (ts : list token) : Forall (fun t => In t ts) ts.
Proof. apply Forall_forall. auto. Qed.

(** the diagnostics of the renamed list quote the renamed version of a token of [ts] *)
Notation rdiag_of ts := (rdiag (fun t => In t ts)).

(** (P1) Parsing the renamed token list: the renamed tree, the renamed rest, the same
    diagnostics about the renamed tokens; an expression ... *)
Theorem pexpr_rename f ts :
  match pexpr f ts with
  | POk e rest ds =>
      exists ds', pexpr f (map ren_tok ts) = POk (ren_expr_all e) (map ren_tok rest) ds' /\ Forall2 (rdiag_of ts) ds ds'
  | PErr ds => exists ds', pexpr f (map ren_tok ts) = PErr ds' /\ Forall2 (rdiag_of ts) ds ds'
  | PFuel => pexpr f (map ren_tok ts) = PFuel
  end.
Proof.
  assert (H : prel (fun t => In t ts) ren_expr_all (pexpr f ts) (pexpr f (map ren_tok ts)))
    by (apply pexpr_ren; first [assumption | apply Forall_In_self]).
  exact (prel_spec _ _ _ _ H).
Qed.

(** ... a declaration or statement ... *)
Theorem pdecl_rename f ts :
  match pdecl f ts with
  | POk s rest ds =>
      exists ds', pdecl f (map ren_tok ts) = POk (ren_stmt_all s) (map ren_tok rest) ds' /\ Forall2 (rdiag_of ts) ds ds'
  | PErr ds => exists ds', pdecl f (map ren_tok ts) = PErr ds' /\ Forall2 (rdiag_of ts) ds ds'
  | PFuel => pdecl f (map ren_tok ts) = PFuel
  end.
Proof.
  assert (H : prel (fun t => In t ts) ren_stmt_all (pdecl f ts) (pdecl f (map ren_tok ts)))
    by (apply stmt_ren_all; first [assumption | apply Forall_In_self]).
  exact (prel_spec _ _ _ _ H).
Qed.

(** ... a program *)
Theorem pprogram_rename f ts :
  match pprogram f ts with
  | POk ss rest ds =>
      exists ds', pprogram f (map ren_tok ts) = POk (map ren_stmt_all ss) (map ren_tok rest) ds' /\
                  Forall2 (rdiag_of ts) ds ds'
  | PErr ds => exists ds', pprogram f (map ren_tok ts) = PErr ds' /\ Forall2 (rdiag_of ts) ds ds'
  | PFuel => pprogram f (map ren_tok ts) = PFuel
  end.
Proof.
  assert (H : prel (fun t => In t ts) (map ren_stmt_all) (pprogram f ts) (pprogram f (map ren_tok ts)))
    by (apply pprogram_ren; first [assumption | apply Forall_In_self]).
  exact (prel_spec _ _ _ _ H).
Qed.

(** the equation asked for -- the renamed result is [map_pres] of the original one --
    holds when [r] fixes the lexemes of the tokens of [ts] that are not identifiers
    (punctuation, keywords, literals); without that hypothesis it is false
    ([map_pd_is_false] in Proofs/RenameParseRun.v) *)
Definition fixes_other_lexemes (ts : list token) : Prop :=
  forall t, In t ts -> tk t <> TIDENTIFIER -> r (tlex t) = tlex t.

Theorem pexpr_rename_eq f ts : fixes_other_lexemes ts ->
  pexpr f (map ren_tok ts) = map_pres ren_expr_all (pexpr f ts).
Proof.
  intros H.
  assert (R : prel (fun t => In t ts) ren_expr_all (pexpr f ts) (pexpr f (map ren_tok ts)))
    by (apply pexpr_ren; first [assumption | apply Forall_In_self]).
  exact (prel_map_pres _ _ _ _ H R).
Qed.

Theorem pprogram_rename_eq f ts : fixes_other_lexemes ts ->
  pprogram f (map ren_tok ts) = map_pres (map ren_stmt_all) (pprogram f ts).
Proof.
  intros H.
  assert (R : prel (fun t => In t ts) (map ren_stmt_all) (pprogram f ts) (pprogram f (map ren_tok ts)))
    by (apply pprogram_ren; first [assumption | apply Forall_In_self]).
  exact (prel_map_pres _ _ _ _ H R).
Qed.

(** the top-level entry point: the renamed tree (or none), related diagnostics, the
    same fuel flag *)
Theorem parse_rename ts :
  pr_prog (parse (map ren_tok ts) eofl) = option_map (map ren_stmt_all) (pr_prog (parse ts eofl)) /\
  Forall2 (rdiag_of ts) (pr_diags (parse ts eofl)) (pr_diags (parse (map ren_tok ts) eofl)) /\
  pr_fuel_out (parse (map ren_tok ts) eofl) = pr_fuel_out (parse ts eofl).
Proof.
  unfold parse.
  replace (parse_fuel (map ren_tok ts)) with (parse_fuel ts) by (unfold parse_fuel; rewrite map_length; reflexivity).
  pose proof (pprogram_rename (parse_fuel ts) ts) as H.
  destruct (pprogram (parse_fuel ts) ts) as [ss rest ds|ds|].
  - destruct H as (ds' & -> & Hd). cbn [pr_prog pr_diags pr_fuel_out option_map]. auto.
  - destruct H as (ds' & -> & Hd). cbn [pr_prog pr_diags pr_fuel_out option_map]. auto.
  - rewrite H. cbn [pr_prog pr_diags pr_fuel_out option_map]. split; [reflexivity|]. split; [constructor|reflexivity].
Qed.

Corollary parse_rename_diags ts :
  map pd_line (pr_diags (parse (map ren_tok ts) eofl)) = map pd_line (pr_diags (parse ts eofl)) /\
  map pd_kind (pr_diags (parse (map ren_tok ts) eofl)) = map pd_kind (pr_diags (parse ts eofl)).
Proof. destruct (parse_rename ts) as (_ & H & _). eapply rdiags_lines_kinds. exact H. Qed.

Corollary parse_rename_eq ts : fixes_other_lexemes ts ->
  pr_prog (parse (map ren_tok ts) eofl) = option_map (map ren_stmt_all) (pr_prog (parse ts eofl)) /\
  pr_diags (parse (map ren_tok ts) eofl) = map map_pd (pr_diags (parse ts eofl)) /\
  pr_fuel_out (parse (map ren_tok ts) eofl) = pr_fuel_out (parse ts eofl).
Proof.
  intros H. destruct (parse_rename ts) as (Hp & Hd & Hf).
  split; [exact Hp|]. split; [|exact Hf]. eapply rdiags_map_pd; [|exact Hd]. exact H.
Qed.

(** a token list is accepted with tree [prog]: no diagnostic, and a tree *)
Definition accepts (ts : list token) (prog : list stmt) : Prop :=
  pr_diags (parse ts eofl) = [] /\ pr_prog (parse ts eofl) = Some prog.

Theorem parse_rename_accepted ts prog :
  accepts ts prog -> accepts (map ren_tok ts) (map ren_stmt_all prog).
Proof.
  intros [Hd Hp]. destruct (parse_rename ts) as (Pp & D & _). split.
  - rewrite Hd in D. eapply rdiags_nil_l. exact D.
  - rewrite Pp, Hp. reflexivity.
Qed.

(** (P2) the renamed token list is accepted iff the original one is *)
Theorem parse_rename_accepts ts :
  (exists prog, accepts ts prog) <-> (exists prog', accepts (map ren_tok ts) prog').
Proof.
  split.
  - intros (prog & H). exists (map ren_stmt_all prog). apply parse_rename_accepted. exact H.
  - intros (prog' & Hd & Hp). destruct (parse_rename ts) as (Pp & D & _).
    rewrite Hd in D. apply rdiags_nil_r in D.
    rewrite Hp in Pp. destruct (pr_prog (parse ts eofl)) as [prog|] eqn:E; [|discriminate Pp].
    exists prog. split; [exact D|exact E].
Qed.

End Final.
End RenParse.

(** the reserved-name hypothesis follows from "[r] is injective and fixes the built-in
    names and the word input" *)
Lemma r_reserved_of_native (r : list N -> list N) :
  (forall a b, r a = r b -> a = b) ->
  (forall n, r (native_name n) = native_name n) ->
  r input_ascii = input_ascii ->
  forall x, In (r x) reserved_names <-> In x reserved_names.
Proof.
  intros Hinj Hnat Hin x. rewrite !reserved_names_char. split.
  - intros [H|[n H]].
    + left. apply Hinj. rewrite H, Hin. reflexivity.
    + right. exists n. apply Hinj. rewrite H, Hnat. reflexivity.
  - intros [->|[n ->]]; [left; exact Hin|right; exists n; apply Hnat].
Qed.

(* ---------------------------------------------------------------- *)
Print Assumptions expr_ren_all.
Print Assumptions stmt_ren_all.
Print Assumptions pexpr_rename.
Print Assumptions pprogram_rename.
Print Assumptions pprogram_rename_eq.
Print Assumptions parse_rename.
Print Assumptions parse_rename_accepts.
Print Assumptions r_reserved_of_native.
