(** One-token look-ahead, part 2: every parsing function satisfies [Det]
    (ParserPrefixDefs.v), and the "bad prefix" theorems that follow. *)
From Borno Require Import Base Num Token Ast Parser.
From Borno Require Import ParserEqs ParserMono ParserTotal ParserPrefixDefs.
Open Scope nat_scope.

Section Prefix.
Variable eofl : N.

Notation pexpr := (Parser.pexpr eofl).
Notation plevel := (Parser.plevel eofl).
Notation ploop := (Parser.ploop eofl).
Notation punary := (Parser.punary eofl).
Notation pcallloop := (Parser.pcallloop eofl).
Notation pargs := (Parser.pargs eofl).
Notation pprimary := (Parser.pprimary eofl).
Notation pprops := (Parser.pprops eofl).
Notation pvardecls := (Parser.pvardecls eofl).
Notation pparams := (Parser.pparams eofl).
Notation pdecl := (Parser.pdecl eofl).
Notation pstmt := (Parser.pstmt eofl).
Notation pblock := (Parser.pblock eofl).
Notation pprogram := (Parser.pprogram eofl).
Notation pvar := (Parser.pvar eofl).
Notation pexprstmt := (Parser.pexprstmt eofl).
Notation consume := (Parser.consume eofl).
Notation consume_lenient := (Parser.consume_lenient eofl).
Notation perr_at := (Parser.perr_at eofl).
Notation diag_at := (Parser.diag_at eofl).
Notation peek_line := (Parser.peek_line eofl).
Notation Det := (ParserPrefixDefs.Det eofl).

(** peel one [pbind]: first goal the first component, second goal the continuation *)
Tactic Notation "dbind" "as" ident(a) ident(r) :=
  apply Det_bind; [ | intros a r ? _; cbv beta ].

(** the true branch of an [if check k x then ... (tl x) ...]: consume the head *)
Ltac dtl C :=
  match goal with
  | |- ParserPrefixDefs.Det _ _ _ ?ts =>
      destruct ts as [|? ?]; [discriminate C|];
      eapply Det_cons; [intros ? ?; cbv beta iota delta [tl]; reflexivity|]; cbv beta
  end.

(** * The expression level *)

Definition DetE (f : nat) : Prop :=
  (forall ts, Det (fun g => pexpr g) f ts) /\
  (forall lv ts, Det (fun g => plevel g lv) f ts) /\
  (forall l lv e ts, Det (fun g => ploop g l lv e) f ts) /\
  (forall ts, Det (fun g => punary g) f ts) /\
  (forall e ts, Det (fun g => pcallloop g e) f ts) /\
  (forall ts, Det (fun g => pargs g) f ts) /\
  (forall ts, Det (fun g => pprimary g) f ts) /\
  (forall acc ts, Det (fun g => pprops g acc) f ts).

Lemma detE : forall f, DetE f.
Proof.
  induction f as [|f (Ie & Il & Ilo & Iu & Ic & Ia & Ipr & Ipp)]; unfold DetE.
  { split; [|split; [|split; [|split; [|split; [|split; [|split]]]]]]; intros; apply Det_fuel; reflexivity. }
  split; [|split; [|split; [|split; [|split; [|split; [|split]]]]]].
  - (* pexpr *) intros ts. apply Det_shift.
    eapply Det_ext; [intros g y _ _; rewrite pexpr_S; reflexivity|]. cbv beta.
    dbind as e r1; [apply Il|].
    destruct r1 as [|eq r'].
    { apply (Det_stop_ok eofl _ e). intros g y S. same_head S. reflexivity. }
    destruct (tkind_eqb (tk eq) TEQUAL) eqn:E.
    2:{ apply (Det_stop_ok eofl _ e). intros g y S. same_head S. cbv beta iota. rewrite E. reflexivity. }
    destruct e;
      try (eapply Det_ia; [intros g x; cbv beta iota; rewrite E; cbv beta iota; reflexivity
                          | reflexivity | reflexivity | apply Ie]).
    + eapply Det_cons; [intros g x; cbv beta iota; rewrite E; cbv beta iota; reflexivity|]. cbv beta.
      dbind as v r2; [apply Ie|]. apply Det_ret.
    + eapply Det_cons; [intros g x; cbv beta iota; rewrite E; cbv beta iota; reflexivity|]. cbv beta.
      dbind as v r2; [apply Ie|]. apply Det_ret.
    + eapply Det_cons; [intros g x; cbv beta iota; rewrite E; cbv beta iota; reflexivity|]. cbv beta.
      dbind as v r2; [apply Ie|]. apply Det_ret.
  - (* plevel *) intros lv ts. apply Det_shift. destruct lv as [|l lv'].
    + eapply Det_ext; [intros g y _ _; rewrite plevel_S; reflexivity|]. apply Iu.
    + eapply Det_ext; [intros g y _ _; rewrite plevel_S; reflexivity|]. cbv beta.
      dbind as e r1; [apply Il|]. apply Ilo.
  - (* ploop *) intros l lv' e ts. apply Det_shift. destruct ts as [|op r].
    { apply (Det_stop_ok eofl _ e). intros g y S. same_head S. rewrite ploop_S. reflexivity. }
    destruct (kind_in (tk op) (fst l)) eqn:K.
    + eapply Det_cons; [intros g x; rewrite ploop_S; cbv beta iota; rewrite K; reflexivity|]. cbv beta.
      dbind as rhs r1; [apply Il|]. apply Ilo.
    + apply (Det_stop_ok eofl _ e). intros g y S. same_head S. rewrite ploop_S. cbv beta iota. rewrite K. reflexivity.
  - (* punary *) intros ts. apply Det_shift.
    pose (PostF := fun g x => pbind (pprimary g x) (fun e r' => pcallloop g e r')).
    assert (Post : forall ts0, Det PostF f ts0).
    { intros ts0. unfold PostF. dbind as e r1; [apply Ipr|]. apply Ic. }
    destruct ts as [|op r].
    { apply (Det_ext eofl _ PostF); [|apply Post]. intros g y _ S. same_head S. rewrite punary_S. reflexivity. }
    destruct (kind_in (tk op) unary_ops) eqn:U.
    + eapply Det_cons; [intros g x; rewrite punary_S; cbv beta iota; rewrite U; reflexivity|]. cbv beta.
      dbind as e r1; [apply Iu|]. apply Det_ret.
    + apply (Det_ext eofl _ PostF); [|apply Post]. intros g y _ S. same_head S.
      rewrite punary_S. cbv beta iota. rewrite U. reflexivity.
  - (* pcallloop *) intros e ts. apply Det_shift. destruct ts as [|t r].
    { apply (Det_stop_ok eofl _ e). intros g y S. same_head S. rewrite pcallloop_S. reflexivity. }
    destruct (tk t) eqn:Etk;
      try (apply (Det_stop_ok eofl _ e); intros g y S; same_head S; rewrite pcallloop_S; cbv beta iota;
           rewrite Etk; reflexivity).
    + (* ( *) eapply Det_cons; [intros g x; rewrite pcallloop_S; cbv beta iota; rewrite Etk; cbv beta iota; reflexivity|].
      cbv beta. dbind as args r1; [apply Det_ifcheck; intros _; [apply Det_ret|apply Ia]|].
      dbind as paren r2; [apply Det_consume|]. apply Ic.
    + (* [ *) eapply Det_cons; [intros g x; rewrite pcallloop_S; cbv beta iota; rewrite Etk; cbv beta iota; reflexivity|].
      cbv beta. dbind as i r1; [apply Ie|].
      dbind as rb r2; [apply Det_consume|]. apply Ic.
    + (* . *) eapply Det_cons; [intros g x; rewrite pcallloop_S; cbv beta iota; rewrite Etk; cbv beta iota; reflexivity|].
      cbv beta. dbind as nm r1; [apply Det_consume|]. apply Ic.
  - (* pargs *) intros ts. apply Det_shift.
    eapply Det_ext; [intros g y _ _; rewrite pargs_S; reflexivity|]. cbv beta.
    dbind as a r1; [apply Ie|]. apply Det_ifcheck; intros C.
    + dtl C. dbind as more r2; [apply Ia|]. apply Det_ret.
    + apply Det_ret.
  - (* pprimary *) intros ts. apply Det_shift. destruct ts as [|t r].
    { apply (Det_stop_err eofl _ PExpectExpr). intros g y S. same_head S. rewrite pprimary_S. reflexivity. }
    destruct (tk t) eqn:Etk;
      try (apply (Det_stop_err eofl _ PExpectExpr); intros g y S; same_head S; rewrite pprimary_S; cbv beta iota;
           rewrite Etk; reflexivity);
      (eapply Det_cons; [intros g x; rewrite pprimary_S; cbv beta iota; rewrite Etk; cbv beta iota; reflexivity|]);
      cbv beta; try apply Det_ret.
    + (* ( *) dbind as e r1; [apply Ie|]. dbind as rp r2; [apply Det_consume|]. apply Det_ret.
    + (* { *) dbind as ps r1; [apply Ipp|]. dbind as rb r2; [apply Det_consume|]. apply Det_ret.
    + (* [ *) dbind as es r1; [apply Det_ifcheck; intros _; [apply Det_ret|apply Ia]|].
      dbind as rb r2; [apply Det_consume|]. apply Det_ret.
  - (* pprops *) intros acc ts. apply Det_shift. destruct ts as [|t r].
    { apply (Det_stop_ok eofl _ acc). intros g y S. same_head S. rewrite pprops_S. reflexivity. }
    destruct (tkind_eqb (tk t) TRIGHT_BRACE) eqn:E.
    { apply (Det_stop_ok eofl _ acc). intros g y S. same_head S. rewrite pprops_S. cbv beta iota. rewrite E. reflexivity. }
    pose (F := fun g x =>
      pbind (consume TIDENTIFIER PPropName x) (fun nm r1 =>
      pbind (consume TCOLON PColonAfterProp r1) (fun _c r2 =>
      pbind (pexpr g r2) (fun v r3 =>
        if check TCOMMA r3 then pprops g (props_put acc (tlex nm) v) (tl r3)
        else POk (props_put acc (tlex nm) v) r3 [])))).
    apply (Det_ext eofl _ F).
    { intros g y _ S. same_head S. rewrite pprops_S. cbv beta iota. rewrite E. reflexivity. }
    unfold F. dbind as nm r1; [apply Det_consume|]. dbind as c r2; [apply Det_consume|].
    dbind as v r3; [apply Ie|]. apply Det_ifcheck; intros C.
    + dtl C. apply Ipp.
    + apply Det_ret.
Qed.

(** * Declarators, parameters, the two wrappers *)

Lemma pbind_ret_l {A B} (a : A) r (k : A -> list token -> pres B) : pbind (POk a r []) k = k a r.
Proof. simpl. destruct (k a r); reflexivity. Qed.

(** an identifier is consumed and then rejected if it is a reserved name: the
    diagnostic names that identifier, so this is a decision on the head token *)
Lemma Det_consume_reserved {B} (K : nat -> token -> list token -> pres B) pk1 pk2 f ts :
  (forall nm r1, ts = nm :: r1 -> is_reserved (tlex nm) = false -> Det (fun g => K g nm) f r1) ->
  Det (fun g x => pbind (consume TIDENTIFIER pk1 x)
                    (fun nm r1 => if is_reserved (tlex nm) then PErr [diag_tok nm pk2] else K g nm r1)) f ts.
Proof.
  intros HK. destruct ts as [|t r].
  { apply (Det_stop_err eofl _ pk1). intros g y S. same_head S. reflexivity. }
  destruct (tkind_eqb (tk t) TIDENTIFIER) eqn:E.
  2:{ apply (Det_stop_err eofl _ pk1). intros g y S. same_head S. unfold Parser.consume. rewrite E. reflexivity. }
  destruct (is_reserved (tlex t)) eqn:R.
  - apply (Det_stop_err eofl _ pk2). intros g y S. same_head S. unfold Parser.consume. rewrite E.
    rewrite pbind_ret_l. rewrite R. reflexivity.
  - apply (Det_cons eofl _ (fun g => K g t)); [|apply HK; auto].
    intros g x. unfold Parser.consume. rewrite E. rewrite pbind_ret_l. rewrite R. reflexivity.
Qed.

Lemma det_pvardecls : forall f l0 ts, Det (fun g => pvardecls g l0) f ts.
Proof.
  induction f as [|f IH]; intros l0 ts; [apply Det_fuel; reflexivity|].
  destruct (detE f) as (Ie & _).
  apply Det_shift.
  eapply Det_ext; [intros g y _ _; rewrite pvardecls_S; reflexivity|]. cbv beta.
  apply Det_consume_reserved. intros nm r1 _ _.
  dbind as init r2.
  { apply Det_ifcheck; intros C.
    - dtl C. dbind as e r2; [apply Ie|]. apply Det_ret.
    - apply Det_ret. }
  cbv zeta.
  destruct (negb (is_lit_container init) && negb (N.eqb (peek_line r2) l0)) eqn:B.
  { apply (Det_stop_err eofl _ PSemiBeforeNewline). intros g y S.
    rewrite (peek_line_samehead eofl _ _ S), B. reflexivity. }
  eapply Det_ext; [intros g y _ S; rewrite (peek_line_samehead eofl _ _ S), B; reflexivity|]. cbv beta.
  apply Det_ifcheck; intros C.
  - dtl C. dbind as more r3; [apply IH|]. apply Det_ret.
  - apply Det_ret.
Qed.

Lemma det_pparams : forall f n ts, Det (fun g => pparams g n) f ts.
Proof.
  induction f as [|f IH]; intros n ts; [apply Det_fuel; reflexivity|].
  apply Det_shift. destruct (Nat.leb max_params n) eqn:L.
  { apply (Det_stop_err eofl _ PTooManyParams). intros g y S. rewrite pparams_S, L. reflexivity. }
  eapply Det_ext; [intros g y _ _; rewrite pparams_S, L; reflexivity|]. cbv beta.
  dbind as p r1; [apply Det_consume|]. apply Det_ifcheck; intros C.
  - dtl C. dbind as more r2; [apply IH|]. apply Det_ret.
  - apply Det_ret.
Qed.

Lemma det_pvar f ts : Det (fun g => pvar g) f ts.
Proof.
  eapply Det_ext.
  { intros g y _ S. unfold Parser.pvar. rewrite (peek_line_samehead eofl _ _ S). reflexivity. }
  cbv beta. dbind as ds r1; [apply det_pvardecls|]. dbind as s r2; [apply Det_consume|].
  destruct ds as [|d [|d2 ds']]; apply Det_ret.
Qed.

Lemma det_pexprstmt f ts : Det (fun g => pexprstmt g) f ts.
Proof.
  destruct (detE f) as (Ie & _).
  unfold Parser.pexprstmt. dbind as e r1; [apply Ie|]. apply Det_lenient.
Qed.

(** * The statement level *)

Definition DetS (f : nat) : Prop :=
  (forall ts, Det (fun g => pdecl g) f ts) /\
  (forall ts, Det (fun g => pstmt g) f ts) /\
  (forall ts, Det (fun g => pblock g) f ts).

Lemma detS : forall f, DetS f.
Proof.
  induction f as [|f (Id & Is & Ib)]; unfold DetS.
  { split; [|split]; intros; apply Det_fuel; reflexivity. }
  destruct (detE f) as (Ie & _).
  pose proof (det_pvar f) as Iv. pose proof (det_pexprstmt f) as Ix. pose proof (det_pparams f) as Ipa.
  split; [|split].
  - (* pdecl *) intros ts. apply Det_shift. destruct ts as [|t r].
    { apply (Det_ext eofl _ (fun g => pstmt g)); [|apply Is]. intros g y _ S. same_head S. rewrite pdecl_S. reflexivity. }
    destruct (tk t) eqn:Etk;
      try (apply (Det_ext eofl _ (fun g => pstmt g)); [|apply Is]; intros g y _ S; same_head S;
           rewrite pdecl_S; cbv beta iota; rewrite Etk; reflexivity);
      (eapply Det_cons; [intros g x; rewrite pdecl_S; cbv beta iota; rewrite Etk; cbv beta iota; reflexivity|]);
      cbv beta.
    + (* function *) apply Det_consume_reserved. intros nm r1 _ _.
      dbind as lp r2; [apply Det_consume|].
      dbind as ps r3; [apply Det_ifcheck; intros _; [apply Det_ret|apply Ipa]|].
      dbind as rp r4; [apply Det_consume|].
      dbind as lb r5; [apply Det_consume|].
      dbind as body r6; [apply Ib|]. apply Det_ret.
    + (* var *) apply Iv.
  - (* pstmt *) intros ts. apply Det_shift. destruct ts as [|t r].
    { apply (Det_ext eofl _ (fun g => pexprstmt g)); [|apply Ix]. intros g y _ S. same_head S. rewrite pstmt_S. reflexivity. }
    destruct (tk t) eqn:Etk;
      try (apply (Det_ext eofl _ (fun g => pexprstmt g)); [|apply Ix]; intros g y _ S; same_head S;
           rewrite pstmt_S; cbv beta iota; rewrite Etk; reflexivity);
      (eapply Det_cons; [intros g x; rewrite pstmt_S; cbv beta iota; rewrite Etk; cbv beta iota; reflexivity|]);
      cbv beta.
    + (* block *) dbind as ss r1; [apply Ib|]. apply Det_ret.
    + (* break *) dbind as s r1; [apply Det_consume|]. apply Det_ret.
    + (* continue *) dbind as s r1; [apply Det_consume|]. apply Det_ret.
    + (* for *) dbind as lp r1; [apply Det_consume|].
      dbind as init r2.
      { apply Det_ifcheck; intros C.
        - dtl C. apply Det_ret.
        - apply Det_ifcheck; intros C2.
          + dtl C2. dbind as s r2; [apply Iv|]. apply Det_ret.
          + dbind as s r2; [apply Ix|]. apply Det_ret. }
      dbind as c r3.
      { apply Det_ifcheck; intros _; [apply Det_ret|]. dbind as e r3; [apply Ie|]. apply Det_ret. }
      dbind as s r4; [apply Det_consume|].
      dbind as inc r5.
      { apply Det_ifcheck; intros _; [apply Det_ret|]. dbind as e r5; [apply Ie|]. apply Det_ret. }
      dbind as rp r6; [apply Det_consume|].
      dbind as b r7; [apply Is|]. apply Det_ret.
    + (* if *) dbind as lp r1; [apply Det_consume|].
      dbind as c r2; [apply Ie|].
      dbind as rp r3; [apply Det_consume|].
      dbind as th r4; [apply Is|].
      apply Det_ifcheck; intros C.
      * dtl C. dbind as el r5; [apply Is|]. apply Det_ret.
      * apply Det_ret.
    + (* print *) dbind as e r1; [apply Ie|]. apply Det_lenient.
    + (* return *) dbind as v r1.
      { apply Det_ifcheck; intros _; [apply Det_ret|]. dbind as e r1; [apply Ie|]. apply Det_ret. }
      dbind as s r2; [apply Det_consume|]. apply Det_ret.
    + (* while *) dbind as lp r1; [apply Det_consume|].
      dbind as c r2; [apply Ie|].
      dbind as rp r3; [apply Det_consume|].
      dbind as b r4; [apply Is|]. apply Det_ret.
  - (* pblock *) intros ts. apply Det_shift. destruct ts as [|t r].
    { apply (Det_stop_len eofl _ [] PRBraceAfterBlock). intros g y S. same_head S. rewrite pblock_S. reflexivity. }
    destruct (tkind_eqb (tk t) TRIGHT_BRACE) eqn:E.
    { eapply Det_cons; [intros g x; rewrite pblock_S; cbv beta iota; rewrite E; reflexivity|]. apply Det_ret. }
    pose (F := fun g x => pbind (pdecl g x) (fun s r1 => pbind (pblock g r1) (fun ss r2 => POk (s :: ss) r2 []))).
    apply (Det_ext eofl _ F).
    { intros g y _ S. same_head S. rewrite pblock_S. cbv beta iota. rewrite E. reflexivity. }
    unfold F. dbind as s r1; [apply Id|]. dbind as ss r2; [apply Ib|]. apply Det_ret.
Qed.

Lemma det_pprogram : forall f ts, Det (fun g => pprogram g) f ts.
Proof.
  induction f as [|f IH]; intros ts; [apply Det_fuel; reflexivity|].
  destruct (detS f) as (Id & _).
  apply Det_shift. destruct ts as [|t r].
  { apply (Det_stop_ok eofl _ []). intros g y S. same_head S. rewrite pprogram_S. reflexivity. }
  pose (F := fun g x => pbind (pdecl g x) (fun s r1 => pbind (pprogram g r1) (fun ss r2 => POk (s :: ss) r2 []))).
  apply (Det_ext eofl _ F).
  { intros g y _ S. same_head S. rewrite pprogram_S. reflexivity. }
  unfold F. dbind as s r1; [apply Id|]. dbind as ss r2; [apply IH|]. apply Det_ret.
Qed.

(** * Consequences for [pprogram] (and [pexpr]) *)

(** two terminating runs agree; enough fuel terminates *)
Lemma pprogram_fuel_det f f' ts :
  pprogram f ts <> PFuel -> pprogram f' ts <> PFuel -> pprogram f ts = pprogram f' ts.
Proof.
  intros H H'.
  rewrite <- (pprogram_mono eofl f (max f f') ts _ (Nat.le_max_l _ _) eq_refl H).
  rewrite <- (pprogram_mono eofl f' (max f f') ts _ (Nat.le_max_r _ _) eq_refl H'). reflexivity.
Qed.
Lemma pprogram_big g ts : parse_fuel ts <= g -> pprogram g ts <> PFuel.
Proof.
  intros Hg. rewrite (pprogram_mono eofl (parse_fuel ts) g ts _ Hg eq_refl (parse_total eofl ts)).
  apply parse_total.
Qed.

(** the first diagnostic of a result *)
Definition first_diag {A} (r : pres A) : option pdiag :=
  match r with POk _ _ ds | PErr ds => hd_error ds | PFuel => None end.

(** a text is rejected when any diagnostic is issued (fatal or lenient) *)
Definition rejects (ts : list token) : Prop :=
  exists f, (exists ds, pprogram f ts = PErr ds) \/
            (exists ss r ds, pprogram f ts = POk ss r ds /\ ds <> []).
Definition accepted (ts : list token) : Prop := exists f ss, pprogram f ts = POk ss [] [].

Lemma rejects_not_accepted ts : rejects ts -> ~ accepted ts.
Proof.
  intros (f & R) (f' & ss & Acc).
  assert (E : pprogram f ts = pprogram f' ts).
  { apply pprogram_fuel_det.
    - destruct R as [(ds & R)|(ss0 & r & ds & R & _)]; rewrite R; discriminate.
    - rewrite Acc. discriminate. }
  rewrite Acc in E.
  destruct R as [(ds & R)|(ss0 & r & ds & R & Hds)]; rewrite R in E; [discriminate|].
  inversion E. subst ds. apply Hds. reflexivity.
Qed.

Lemma fd_ok_rejects d g ts : fd_ok d (pprogram g ts) -> pprogram g ts <> PFuel -> rejects ts.
Proof.
  intros F NF. exists g. destruct (pprogram g ts) as [ss r ds| ds|] eqn:E.
  - right. exists ss, r, ds. split; auto. intros ->. exact F.
  - left. eauto.
  - exfalso. apply NF. reflexivity.
Qed.
Lemma fd_ok_first d g ts : fd_ok d (pprogram g ts) -> pprogram g ts <> PFuel -> pd_kind d <> PInvalidAssign ->
  first_diag (pprogram g ts) = Some d.
Proof.
  intros F NF K. destruct (pprogram g ts) as [ss r [|d' ds]| [|d' ds]|] eqn:E; simpl in *;
    try contradiction; try (exfalso; apply NF; reflexivity);
    destruct F as [->|F]; [reflexivity|contradiction|reflexivity|contradiction].
Qed.
Lemma first_diag_rejects f ts d : first_diag (pprogram f ts) = Some d -> rejects ts.
Proof.
  intros F. exists f. destruct (pprogram f ts) as [ss r ds| ds|]; simpl in F; [|eauto|discriminate].
  right. exists ss, r, ds. split; auto. intros ->. discriminate.
Qed.

(** ** Where the first diagnostic is issued

    Every diagnostic-issuing run has a point [ts = pre ++ rem] -- the first
    diagnostic [d] names the head of [rem] (or the end, when [rem = []]) -- such
    that every text [pre ++ rem'] whose [rem'] starts with the same token is
    rejected too; and unless [d] is the late [PInvalidAssign] its first
    diagnostic is again [d]. *)
Theorem first_diag_prefix_determined f ts d :
  first_diag (pprogram f ts) = Some d ->
  exists pre rem, ts = pre ++ rem /\ d = diag_at rem (pd_kind d) /\
    forall rem', samehead rem rem' ->
      rejects (pre ++ rem') /\
      (pd_kind d <> PInvalidAssign -> exists f', first_diag (pprogram f' (pre ++ rem')) = Some d).
Proof.
  intros F. pose proof (det_pprogram f ts) as D. unfold ParserPrefixDefs.Det in D.
  assert (FDc : FD eofl (fun g => pprogram g) f ts (d :: match pprogram f ts with POk _ _ ds | PErr ds => tl ds | PFuel => [] end)).
  { destruct (pprogram f ts) as [ss r [|d' ds]| [|d' ds]|]; simpl in F; try discriminate;
      inversion F; subst d'; destruct D as (_ & D); exact D. }
  simpl in FDc. destruct FDc as (pre & rem & -> & Ed & Dd). exists pre, rem. split; auto. split; auto.
  intros rem' S.
  set (g := max f (parse_fuel (pre ++ rem'))).
  assert (NF : pprogram g (pre ++ rem') <> PFuel) by (apply pprogram_big; apply Nat.le_max_r).
  specialize (Dd g rem' (Nat.le_max_l _ _) S). split.
  - eapply fd_ok_rejects; eauto.
  - intros K. exists g. apply fd_ok_first; auto.
Qed.

(** ** Theorem 1: the fatal diagnostic.  A run that ends with a fatal error has
    consumed some [pre] and fails looking at [t] (its last diagnostic names [t]),
    or at the end of the text; every text that starts with [pre ++ [t]] then ends
    with a fatal error too (not necessarily the same one: [PInvalidAssign]). *)
Theorem first_error_point f ts ds :
  pprogram f ts = PErr ds ->
  exists pre rem ds0 k, ts = pre ++ rem /\ ds = ds0 ++ [diag_at rem k] /\
    forall rem', samehead rem rem' -> exists f' ds', pprogram f' (pre ++ rem') = PErr ds'.
Proof.
  intros E. pose proof (det_pprogram f ts) as D. unfold ParserPrefixDefs.Det in D. rewrite E in D.
  destruct D as ((pre & rem & ds0 & k & -> & Eds & D) & _).
  exists pre, rem, ds0, k. split; auto. split; auto. intros rem' S.
  set (g := max f (parse_fuel (pre ++ rem'))).
  assert (NF : pprogram g (pre ++ rem') <> PFuel) by (apply pprogram_big; apply Nat.le_max_r).
  specialize (D g rem' (Nat.le_max_l _ _) S). exists g.
  destruct (pprogram g (pre ++ rem')) as [ss r ds'| ds'|]; [contradiction|eauto|exfalso; apply NF; reflexivity].
Qed.

Theorem first_error_prefix_determined f ts ds :
  pprogram f ts = PErr ds ->
  exists ds0 k,
    ds = ds0 ++ [mkPD eofl None k] \/
    exists pre t w, ts = pre ++ t :: w /\ ds = ds0 ++ [diag_tok t k] /\
      forall w', exists f' ds', pprogram f' (pre ++ t :: w') = PErr ds'.
Proof.
  intros E. destruct (first_error_point f ts ds E) as (pre & rem & ds0 & k & -> & Eds & D).
  exists ds0, k. destruct rem as [|t w]; [left; exact Eds|right].
  exists pre, t, w. split; auto. split; auto. intros w'. apply D. reflexivity.
Qed.

(** the same for an expression on its own *)
Lemma pexpr_big g ts : 15 + 40 * length ts <= g -> pexpr g ts <> PFuel.
Proof. intros Hg. eapply okLt_not_fuel. apply pexpr_total. exact Hg. Qed.

Theorem pexpr_bad_prefix f ts ds :
  pexpr f ts = PErr ds ->
  exists pre rem ds0 k, ts = pre ++ rem /\ ds = ds0 ++ [diag_at rem k] /\
    forall rem', samehead rem rem' -> exists f' ds', pexpr f' (pre ++ rem') = PErr ds'.
Proof.
  intros E. destruct (detE f) as (De & _). specialize (De ts). unfold ParserPrefixDefs.Det in De. rewrite E in De.
  destruct De as ((pre & rem & ds0 & k & -> & Eds & D) & _).
  exists pre, rem, ds0, k. split; auto. split; auto. intros rem' S.
  set (g := max f (15 + 40 * length (pre ++ rem'))).
  assert (NF : pexpr g (pre ++ rem') <> PFuel) by (apply pexpr_big; apply Nat.le_max_r).
  specialize (D g rem' (Nat.le_max_l _ _) S). exists g.
  destruct (pexpr g (pre ++ rem')) as [ss r ds'| ds'|]; [contradiction|eauto|exfalso; apply NF; reflexivity].
Qed.

(** ** Theorems 2 and 3, behaviourally.  "The parser complains about the token
    [t] after [pre]": cut just before [t] the text draws no diagnostic that names
    a token (at most one "at end"), cut just after [t] it does. *)
Definition names_token {A} (r : pres A) : Prop :=
  exists d, first_diag r = Some d /\ pd_where d <> None.
Definition quiet (l : list token) : Prop := forall f, ~ names_token (pprogram f l).
Definition rejects_at (ts pre : list token) (t : token) : Prop :=
  (exists w, ts = pre ++ t :: w) /\ quiet pre /\ exists f, names_token (pprogram f (pre ++ [t])).

(** a diagnostic that names a token cannot be cured by appending more text *)
Theorem token_diag_final f l : names_token (pprogram f l) -> forall w', rejects (l ++ w').
Proof.
  intros (d & F & W) w'.
  destruct (first_diag_prefix_determined f l d F) as (pre & rem & -> & Ed & D).
  destruct rem as [|t w]; [exfalso; apply W; rewrite Ed; reflexivity|].
  rewrite <- app_assoc. simpl. apply (D (t :: w ++ w')). reflexivity.
Qed.

Theorem bad_prefix pre t w : rejects_at (pre ++ t :: w) pre t -> forall w', rejects (pre ++ t :: w').
Proof.
  intros (_ & _ & f & N) w'. pose proof (token_diag_final f _ N w') as R.
  rewrite <- app_assoc in R. exact R.
Qed.

(** the end-of-input variant says nothing beyond the text itself *)
Theorem bad_prefix_at_end f ts d : first_diag (pprogram f ts) = Some d -> pd_where d = None -> rejects ts.
Proof. intros F _. eapply first_diag_rejects; eauto. Qed.

Theorem not_a_prefix_of_valid pre t w :
  rejects_at (pre ++ t :: w) pre t -> forall w', ~ accepted (pre ++ t :: w').
Proof. intros R w'. apply rejects_not_accepted. eapply bad_prefix; eauto. Qed.

(** ** Theorem 4: the first diagnostic itself is determined (this includes the
    lenient ones; only [PInvalidAssign] is excluded) *)
Lemma app_tail_cases {X} (p pre w : list X) (t2 t : X) :
  p ++ t2 :: w = pre ++ [t] ->
  (w = [] /\ p = pre /\ t2 = t) \/ (exists w0, w = w0 ++ [t] /\ pre = p ++ t2 :: w0).
Proof.
  intros E. destruct (@exists_last _ (t2 :: w) ltac:(discriminate)) as (l0 & x & El).
  destruct w as [|y w1].
  - left. change (p ++ [t2] = pre ++ [t]) in E. apply app_inj_tail in E. destruct E; auto.
  - right. destruct l0 as [|z l0]; [discriminate|]. simpl in El. inversion El as [[Ez Ew]]. subst z.
    rewrite Ew in E. change (p ++ t2 :: l0 ++ [x]) with (p ++ (t2 :: l0) ++ [x]) in E.
    rewrite app_assoc in E. apply app_inj_tail in E. destruct E as (E1 & ->).
    exists l0. split; auto.
Qed.

Theorem first_diag_at_token ts pre t :
  rejects_at ts pre t ->
  exists f d, first_diag (pprogram f (pre ++ [t])) = Some d /\
    (pd_kind d <> PInvalidAssign ->
       d = diag_tok t (pd_kind d) /\
       forall w', exists f', first_diag (pprogram f' (pre ++ t :: w')) = Some d).
Proof.
  intros (_ & Q & f & d & F & W). exists f, d. split; auto. intros K.
  destruct (first_diag_prefix_determined f _ d F) as (p & rem & E & Ed & D).
  destruct rem as [|t2 w2]; [exfalso; apply W; rewrite Ed; reflexivity|].
  symmetry in E. destruct (app_tail_cases _ _ _ _ _ E) as [(-> & -> & ->)|(w0 & -> & ->)].
  - split; [exact Ed|]. intros w'. apply (D (t :: w')); auto. reflexivity.
  - exfalso. destruct (D (t2 :: w0) ltac:(reflexivity)) as (_ & D2).
    destruct (D2 K) as (f' & F'). apply (Q f'). exists d. split; auto.
Qed.

Definition lenient_kind (k : pkind) : Prop := k = PSemiAfterValue \/ k = PRBraceAfterBlock.

(** a lenient first diagnostic, in terms of the point where it was issued *)
Theorem lenient_first_diag_determined f ts d :
  first_diag (pprogram f ts) = Some d -> lenient_kind (pd_kind d) ->
  exists pre rem, ts = pre ++ rem /\ d = diag_at rem (pd_kind d) /\
    forall rem', samehead rem rem' -> exists f', first_diag (pprogram f' (pre ++ rem')) = Some d.
Proof.
  intros F L. destruct (first_diag_prefix_determined f ts d F) as (pre & rem & -> & Ed & D).
  exists pre, rem. split; auto. split; auto. intros rem' S.
  apply (D rem' S). destruct L as [L|L]; rewrite L; discriminate.
Qed.

(** ** [rejects_at] exists: a text whose first diagnostic names a token has a
    first token the parser complains about (the least cut that draws such a
    diagnostic) *)
Lemma quiet_by_run f l :
  pprogram f l <> PFuel -> ~ names_token (pprogram f l) -> quiet l.
Proof.
  intros NF Q f' N. apply Q.
  assert (NF' : pprogram f' l <> PFuel).
  { intros E. rewrite E in N. destruct N as (d & N & _). discriminate. }
  rewrite (pprogram_fuel_det f f' l NF NF'). exact N.
Qed.

Lemma names_token_dec {A} (r : pres A) : names_token r \/ ~ names_token r.
Proof.
  unfold names_token. destruct (first_diag r) as [d|].
  - destruct (pd_where d) as [x|] eqn:W.
    + left. exists d. split; auto. rewrite W. discriminate.
    + right. intros (d' & E & W'). inversion E. subst d'. apply W'. exact W.
  - right. intros (d' & E & _). discriminate.
Qed.

Theorem rejects_at_exists f ts d :
  first_diag (pprogram f ts) = Some d -> pd_where d <> None ->
  exists pre t w, ts = pre ++ t :: w /\ rejects_at ts pre t.
Proof.
  intros F W.
  set (P := fun n => names_token (pprogram (parse_fuel (firstn n ts)) (firstn n ts))).
  assert (Pall : P (length ts)).
  { unfold P. rewrite firstn_all.
    assert (NF : pprogram f ts <> PFuel) by (intros E; rewrite E in F; discriminate).
    rewrite <- (pprogram_fuel_det f _ ts NF (pprogram_big _ ts (le_n _))). exists d. split; auto. }
  destruct (Wf_nat.dec_inh_nat_subset_has_unique_least_element P (fun n => names_token_dec _) (ex_intro _ _ Pall))
    as (m & (Pm & Least) & _).
  assert (Hm : m <= length ts) by (apply Least; exact Pall).
  destruct m as [|m'].
  { exfalso. unfold P in Pm. simpl in Pm. destruct Pm as (d' & E & _). discriminate. }
  assert (NPm : ~ P m') by (intros Q; specialize (Least m' Q); lia).
  pose proof (firstn_skipn m' ts) as Split.
  destruct (skipn m' ts) as [|t w] eqn:Sk.
  { exfalso. assert (L : length (skipn m' ts) = 0) by (rewrite Sk; reflexivity).
    rewrite skipn_length in L. lia. }
  set (pre := firstn m' ts) in *.
  assert (Lpre : length pre = m') by (unfold pre; apply firstn_length_le; lia).
  assert (E1 : firstn (S m') ts = pre ++ [t]).
  { rewrite <- Split at 1. replace (S m') with (length pre + 1) by lia. rewrite firstn_app_2. reflexivity. }
  exists pre, t, w. split; [symmetry; exact Split|].
  split; [exists w; symmetry; exact Split|]. split.
  - apply (quiet_by_run (parse_fuel pre)); [apply pprogram_big; apply le_n|exact NPm].
  - unfold P in Pm. rewrite E1 in Pm. eauto.
Qed.

(** the form the property clause needs: the first diagnostic names a token [t]
    of the text, and nothing that starts with the text up to and including [t]
    is a valid program *)
Corollary first_diag_token_bad_prefix f ts d :
  first_diag (pprogram f ts) = Some d -> pd_where d <> None ->
  exists pre t w, ts = pre ++ t :: w /\ d = diag_tok t (pd_kind d) /\
    forall w', ~ accepted (pre ++ t :: w').
Proof.
  intros F W. destruct (first_diag_prefix_determined f ts d F) as (pre & rem & -> & Ed & D).
  destruct rem as [|t w]; [exfalso; apply W; rewrite Ed; reflexivity|].
  exists pre, t, w. split; auto. split; [exact Ed|].
  intros w'. apply rejects_not_accepted. apply (D (t :: w')). reflexivity.
Qed.

End Prefix.

(** * The hypotheses are satisfiable: [x + ;] fails at its third token *)

Definition ex_x : token := mkTok TIDENTIFIER [120%N] LNone 1%N.
Definition ex_plus : token := mkTok TPLUS [43%N] LNone 1%N.
Definition ex_semi : token := mkTok TSEMICOLON [59%N] LNone 1%N.

Example ex_fails_at_third :
  pprogram 1%N 100 ([ex_x; ex_plus] ++ ex_semi :: []) = PErr [diag_tok ex_semi PExpectExpr].
Proof. vm_compute. reflexivity. Qed.

Example ex_extension_fails :
  pprogram 1%N 100 ([ex_x; ex_plus] ++ ex_semi :: [ex_x; ex_semi]) = PErr [diag_tok ex_semi PExpectExpr].
Proof. vm_compute. reflexivity. Qed.

(** cut before the [;] the only complaint is "at end" *)
Example ex_cut_before : pprogram 1%N 100 [ex_x; ex_plus] = PErr [mkPD 1%N None PExpectExpr].
Proof. vm_compute. reflexivity. Qed.

Example ex_rejects_at : rejects_at 1%N ([ex_x; ex_plus] ++ ex_semi :: []) [ex_x; ex_plus] ex_semi.
Proof.
  split; [exists []; reflexivity|]. split.
  - apply (quiet_by_run 1%N 100); rewrite ex_cut_before; [discriminate|].
    intros (d & F & W). inversion F. subst d. apply W. reflexivity.
  - exists 100. change ([ex_x; ex_plus] ++ [ex_semi]) with ([ex_x; ex_plus] ++ ex_semi :: []).
    rewrite ex_fails_at_third. exists (diag_tok ex_semi PExpectExpr). split; [reflexivity|discriminate].
Qed.

Example ex_bad_prefix : forall w', ~ accepted 1%N ([ex_x; ex_plus] ++ ex_semi :: w').
Proof. apply (not_a_prefix_of_valid 1%N _ _ []). exact ex_rejects_at. Qed.

Check first_error_prefix_determined.
Check first_error_point.
Check first_diag_prefix_determined.
Check pexpr_bad_prefix.
Check token_diag_final.
Check bad_prefix.
Check bad_prefix_at_end.
Check not_a_prefix_of_valid.
Check first_diag_at_token.
Check lenient_first_diag_determined.
Check rejects_at_exists.
Check first_diag_token_bad_prefix.

Print Assumptions first_error_prefix_determined.
Print Assumptions first_diag_prefix_determined.
Print Assumptions bad_prefix.
Print Assumptions not_a_prefix_of_valid.
Print Assumptions first_diag_at_token.
Print Assumptions pexpr_bad_prefix.
Print Assumptions rejects_at_exists.
