(** Well-formed stores: every location and scope id that occurs in the store is
    allocated, and every scope's parent is older than the scope.  This file has the
    definitions ([wf_value], [wf_state], [grows]) and the preservation lemmas for the
    store primitives, the built-ins, the operators and value printing.  The main
    theorem (the evaluator never reaches [Stuck]) is in Proofs/EvalSafe.v. *)
From Borno Require Import Base Num Unicode Token Ast Value Eval.
From Coq Require Import Lia List Arith.
Local Open Scope nat_scope.

Ltac inv H := inversion H; subst; clear H.

(* ---------------------------------------------------------------- *)
(** ** definitions *)

(** a value is well-formed in a store when the location it carries is allocated *)
Definition wf_value (s : state) (v : value) : Prop :=
  match v with
  | VArr l => l < length (arrs s)
  | VObj l => l < length (objs s)
  | VFun l => l < length (funs s)
  | _ => True
  end.

Definition wf_vals (s : state) (vs : list value) : Prop := Forall (wf_value s) vs.
Definition wf_binds (s : state) (b : list (list N * value)) : Prop :=
  Forall (fun kv => wf_value s (snd kv)) b.

Record wf_state (s : state) : Prop := mk_wf {
  (* every scope's parent is an older scope *)
  wf_parent : forall i b p, nth_error (envs s) i = Some (b, Some p) -> p < i;
  (* every stored value is well-formed *)
  wf_scopes : forall i b p, nth_error (envs s) i = Some (b, p) -> wf_binds s b;
  wf_arrs : forall l vs, nth_error (arrs s) l = Some vs -> wf_vals s vs;
  wf_objs : forall l ps, nth_error (objs s) l = Some ps -> wf_binds s ps;
  (* every closure's captured scope exists *)
  wf_funs : forall l c, nth_error (funs s) l = Some c -> c_env c < length (envs s)
}.

(** the store only grows: nothing is ever de-allocated *)
Definition grows (s s' : state) : Prop :=
  length (envs s) <= length (envs s') /\ length (arrs s) <= length (arrs s') /\
  length (objs s) <= length (objs s') /\ length (funs s) <= length (funs s').

Lemma grows_refl s : grows s s.
Proof. unfold grows; lia. Qed.
Lemma grows_trans a b c : grows a b -> grows b c -> grows a c.
Proof. unfold grows; lia. Qed.

Lemma wf_value_mono s s' v : grows s s' -> wf_value s v -> wf_value s' v.
Proof. intros (G1 & G2 & G3 & G4). destruct v; simpl; auto; lia. Qed.
Lemma wf_vals_mono s s' vs : grows s s' -> wf_vals s vs -> wf_vals s' vs.
Proof. intros G. apply Forall_impl. intros a; apply wf_value_mono; exact G. Qed.
Lemma wf_binds_mono s s' b : grows s s' -> wf_binds s b -> wf_binds s' b.
Proof. intros G. apply Forall_impl. intros a; apply wf_value_mono; exact G. Qed.

(** values without a location *)
Definition scalar (v : value) : Prop :=
  match v with VArr _ | VObj _ | VFun _ => False | _ => True end.
Lemma scalar_wf s v : scalar v -> wf_value s v.
Proof. destruct v; simpl; tauto. Qed.

(* ---------------------------------------------------------------- *)
(** ** list plumbing *)

Lemma nth_error_lt {A} (l : list A) i a : nth_error l i = Some a -> i < length l.
Proof. intros H. apply nth_error_Some. congruence. Qed.
Lemma nth_error_ex {A} (l : list A) i : i < length l -> exists a, nth_error l i = Some a.
Proof. intros H. destruct (nth_error l i) eqn:E; eauto. apply nth_error_None in E. lia. Qed.

Lemma nth_app_one {A} (l : list A) x i y :
  nth_error (l ++ [x]) i = Some y -> nth_error l i = Some y \/ (i = length l /\ y = x).
Proof.
  intros H. destruct (Nat.lt_ge_cases i (length l)) as [L|L].
  - rewrite nth_error_app1 in H by exact L. auto.
  - rewrite nth_error_app2 in H by exact L. right.
    destruct (i - length l) as [|k] eqn:E.
    + simpl in H. inv H. split; [lia|reflexivity].
    + destruct k; discriminate.
Qed.

Lemma set_nth_length {A} (x : A) : forall l n, length (set_nth n x l) = length l.
Proof. induction l as [|y r IH]; intros [|n]; simpl; auto. Qed.

Lemma nth_set_nth_inv {A} (x : A) : forall l n i y,
  nth_error (set_nth n x l) i = Some y -> (i = n /\ y = x) \/ nth_error l i = Some y.
Proof.
  induction l as [|z r IH]; intros [|n] [|i] y H; simpl in *; auto.
  - inv H. auto.
  - destruct (IH _ _ _ H) as [(-> & ->)|H']; auto.
Qed.

Lemma Forall_set_nth {A} (P : A -> Prop) x : forall l n, P x -> Forall P l -> Forall P (set_nth n x l).
Proof.
  induction l as [|z r IH]; intros [|n] Hx Hl; simpl; auto; inv Hl; constructor; auto.
Qed.
Lemma Forall_remove_nth {A} (P : A -> Prop) : forall l n, Forall P l -> Forall P (remove_nth n l).
Proof.
  induction l as [|z r IH]; intros [|n] Hl; simpl; auto; inv Hl; auto.
Qed.
Lemma Forall_nth_error {A} (P : A -> Prop) l n x : Forall P l -> nth_error l n = Some x -> P x.
Proof. intros H E. rewrite Forall_forall in H. apply H. eapply nth_error_In; eauto. Qed.

Section Alist.
Variable P : value -> Prop.
Let PB (kv : list N * value) := P (snd kv).

Lemma assoc_Forall k : forall (l : list (list N * value)) v, Forall PB l -> assoc k l = Some v -> P v.
Proof.
  induction l as [|[k' v'] r IH]; intros v H E; simpl in E; [discriminate|]. inv H.
  destruct (str_eqb k k'); [inv E; assumption|eauto].
Qed.
Lemma alist_set_Forall k v : forall l, P v -> Forall PB l -> Forall PB (alist_set k v l).
Proof.
  induction l as [|[k' v'] r IH]; intros Hv H; simpl.
  - constructor; auto.
  - inv H. destruct (str_eqb k k'); constructor; auto.
Qed.
Lemma sorted_put_Forall k v : forall l, P v -> Forall PB l -> Forall PB (sorted_put k v l).
Proof.
  induction l as [|[k' v'] r IH]; intros Hv H; simpl.
  - constructor; auto.
  - destruct (str_eqb k k'); [inv H; constructor; auto|].
    destruct (str_ltb k k'); [constructor; auto|]. inv H. constructor; auto.
Qed.
Lemma alist_remove_Forall k : forall l, Forall PB l -> Forall PB (alist_remove k l).
Proof.
  induction l as [|[k' v'] r IH]; intros H; simpl; auto.
  inv H. destruct (str_eqb k k'); auto.
Qed.
Lemma insert_prop_Forall p : forall l, PB p -> Forall PB l -> Forall PB (insert_prop p l).
Proof.
  induction l as [|q r IH]; intros Hp H; simpl.
  - constructor; auto.
  - destruct (str_ltb (fst q) (fst p)); [inv H; constructor; auto|constructor; auto].
Qed.
Lemma sort_props_Forall : forall l, Forall PB l -> Forall PB (sort_props l).
Proof.
  induction l as [|q r IH]; intros H; simpl; [constructor|]. inv H.
  apply insert_prop_Forall; auto.
Qed.
Lemma build_obj_Forall kvs : Forall PB kvs -> Forall PB (build_obj kvs).
Proof.
  unfold build_obj. assert (G : forall acc, Forall PB acc -> Forall PB kvs ->
     Forall PB (fold_left (fun acc kv => sorted_put (fst kv) (snd kv) acc) kvs acc)).
  { induction kvs as [|kv r IH]; intros acc Ha H; simpl; auto. inv H.
    apply IH; auto. apply sorted_put_Forall; auto. }
  intros H. apply G; auto.
Qed.
End Alist.

(* ---------------------------------------------------------------- *)
(** ** the store primitives preserve well-formedness *)

(** a store with the same scopes and cells is as well-formed (output, input, tick are irrelevant) *)
Lemma wf_state_same s s' :
  envs s' = envs s -> arrs s' = arrs s -> objs s' = objs s -> funs s' = funs s ->
  wf_state s -> wf_state s' /\ grows s s'.
Proof.
  intros E1 E2 E3 E4 W.
  assert (G : grows s s') by (unfold grows; rewrite E1, E2, E3, E4; lia).
  split; [|exact G]. destruct W as [A B C D E]. constructor; rewrite ?E1, ?E2, ?E3, ?E4.
  - exact A.
  - intros i b p H. eapply wf_binds_mono; eauto.
  - intros l vs H. eapply wf_vals_mono; eauto.
  - intros l ps H. eapply wf_binds_mono; eauto.
  - exact E.
Qed.

Lemma wf_emit e s : wf_state s -> wf_state (emit e s) /\ grows s (emit e s).
Proof. apply wf_state_same; reflexivity. Qed.
Lemma wf_set_inp i s : wf_state s -> wf_state (set_inp i s) /\ grows s (set_inp i s).
Proof. apply wf_state_same; reflexivity. Qed.
Lemma wf_bump_tick s : wf_state s -> wf_state (bump_tick s) /\ grows s (bump_tick s).
Proof. apply wf_state_same; reflexivity. Qed.

Lemma wf_alloc_env s par rho s' :
  wf_state s -> (forall p, par = Some p -> p < length (envs s)) ->
  alloc_env par s = (rho, s') ->
  wf_state s' /\ grows s s' /\ rho = length (envs s) /\ rho < length (envs s').
Proof.
  intros W Hp H. unfold alloc_env in H. inv H.
  match goal with |- wf_state ?t /\ _ => set (s' := t) end.
  assert (G : grows s s') by (unfold grows, s'; cbn [envs arrs objs funs]; rewrite app_length; simpl; lia).
  split; [|split; [exact G|split; [reflexivity|unfold s'; cbn [envs]; rewrite app_length; simpl; lia]]].
  destruct W as [A B C D E]. constructor; unfold s' at 1; cbn [envs arrs objs funs].
  - intros i b p H. apply nth_app_one in H as [H|[-> H]]; [eauto|]. inv H. apply Hp; reflexivity.
  - intros i b p H. apply nth_app_one in H as [H|[-> H]].
    + eapply wf_binds_mono; eauto.
    + inv H. constructor.
  - intros l vs H. eapply wf_vals_mono; eauto.
  - intros l ps H. eapply wf_binds_mono; eauto.
  - intros l c H. specialize (E _ _ H). destruct G as (G & _). lia.
Qed.

Lemma env_define_total rho x v s : rho < length (envs s) -> exists s', env_define rho x v s = Some s'.
Proof.
  intros H. unfold env_define. destruct (nth_error_ex _ _ H) as [[b p] E]. rewrite E. eauto.
Qed.

Lemma wf_env_define s rho x v s' :
  wf_state s -> wf_value s v -> env_define rho x v s = Some s' ->
  wf_state s' /\ grows s s' /\ length (envs s') = length (envs s).
Proof.
  intros W Hv H. unfold env_define in H.
  destruct (nth_error (envs s) rho) as [[b p]|] eqn:E; [|discriminate]. inv H.
  match goal with |- wf_state ?t /\ _ => set (s' := t) end.
  assert (L : length (envs s') = length (envs s)) by (unfold s'; cbn [set_envs envs]; apply set_nth_length).
  assert (G : grows s s') by (unfold grows; rewrite L; unfold s'; cbn [set_envs arrs objs funs]; lia).
  split; [|split; [exact G|exact L]].
  destruct W as [A B C D F]. constructor; unfold s' at 1; cbn [set_envs envs arrs objs funs].
  - intros i b' p' H. apply nth_set_nth_inv in H as [(-> & H)|H]; [|eauto]. inv H. eauto.
  - intros i b' p' H. apply nth_set_nth_inv in H as [(-> & H)|H].
    + inv H. apply alist_set_Forall; [eapply wf_value_mono; eauto|]. eapply wf_binds_mono; eauto.
    + eapply wf_binds_mono; eauto.
  - intros l vs H. eapply wf_vals_mono; eauto.
  - intros l ps H. eapply wf_binds_mono; eauto.
  - intros l c H. rewrite L. eauto.
Qed.

(** the chain walk: with parents older than children, [S (length (envs s))] steps always suffice *)
Lemma env_lookup_total s x : wf_state s ->
  forall fuel rho, rho < fuel -> rho < length (envs s) -> env_lookup fuel rho x s <> None.
Proof.
  intros W. induction fuel as [|f IH]; intros rho Hf Hr; [lia|]. cbn [env_lookup].
  destruct (nth_error_ex _ _ Hr) as [[b p] E]. rewrite E.
  destruct (assoc x b); [discriminate|]. destruct p as [q|]; [|discriminate].
  pose proof (wf_parent _ W _ _ _ E) as Hq. apply IH; lia.
Qed.

(** the bound used by [env_get]/[env_assign] is adequate: the walk never runs out of steps *)
Lemma env_lookup_adequate s rho x : wf_state s -> rho < length (envs s) ->
  env_lookup (S (length (envs s))) rho x s <> None.
Proof. intros W Hr. apply env_lookup_total; [exact W|lia|exact Hr]. Qed.

(** ... and its answer does not depend on the bound, once the bound exceeds the scope id:
    "undefined variable" is never an artefact of the fuel *)
Lemma env_lookup_fuel_indep s x : wf_state s ->
  forall f1 f2 rho, rho < f1 -> rho < f2 -> env_lookup f1 rho x s = env_lookup f2 rho x s.
Proof.
  intros W. induction f1 as [|f1 IH]; intros [|f2] rho H1 H2; try lia. cbn [env_lookup].
  destruct (nth_error (envs s) rho) as [[b p]|] eqn:E; [|reflexivity].
  destruct (assoc x b); [reflexivity|]. destruct p as [q|]; [|reflexivity].
  pose proof (wf_parent _ W _ _ _ E) as Hq. apply IH; lia.
Qed.

Lemma env_lookup_found s x : wf_state s ->
  forall fuel rho q v, env_lookup fuel rho x s = Some (Some (q, v)) ->
  q < length (envs s) /\ wf_value s v.
Proof.
  intros W. induction fuel as [|f IH]; intros rho q v H; cbn [env_lookup] in H; [discriminate|].
  destruct (nth_error (envs s) rho) as [[b p]|] eqn:E; [|discriminate].
  destruct (assoc x b) as [w|] eqn:A.
  - inv H. split; [eapply nth_error_lt; eauto|].
    eapply (assoc_Forall (wf_value s)); [|exact A]. eapply wf_scopes; eauto.
  - destruct p as [p|]; [eauto|discriminate].
Qed.

(** [env_get] never reports a dangling scope, and what it finds is well-formed *)
Lemma env_get_safe s rho x : wf_state s -> rho < length (envs s) ->
  match env_get rho x s with Some (Some v) => wf_value s v | Some None => True | None => False end.
Proof.
  intros W Hr. unfold env_get.
  pose proof (env_lookup_total s x W (S (length (envs s))) rho ltac:(lia) Hr) as T.
  destruct (env_lookup (S (length (envs s))) rho x s) as [[[q v]|]|] eqn:E; [|exact I|congruence].
  eapply env_lookup_found; eauto.
Qed.

Lemma env_assign_safe s rho x v : wf_state s -> rho < length (envs s) -> wf_value s v ->
  match env_assign rho x v s with
  | Some (Some s') => wf_state s' /\ grows s s'
  | Some None => True
  | None => False
  end.
Proof.
  intros W Hr Hv. unfold env_assign.
  pose proof (env_lookup_total s x W (S (length (envs s))) rho ltac:(lia) Hr) as T.
  destruct (env_lookup (S (length (envs s))) rho x s) as [[[q w]|]|] eqn:E; [|exact I|congruence].
  destruct (env_lookup_found s x W _ _ _ _ E) as (Hq & _).
  destruct (env_define_total q x v s Hq) as [s' D]. rewrite D.
  destruct (wf_env_define _ _ _ _ _ W Hv D) as (W' & G' & _). auto.
Qed.

Lemma env_get_here_total rho x s : rho < length (envs s) -> env_get_here rho x s <> None.
Proof.
  intros H. unfold env_get_here. destruct (nth_error_ex _ _ H) as [[b p] E]. rewrite E. discriminate.
Qed.

Lemma wf_alloc_arr s vs l s' :
  wf_state s -> wf_vals s vs -> alloc_arr vs s = (l, s') ->
  wf_state s' /\ grows s s' /\ wf_value s' (VArr l).
Proof.
  intros W Hv H. unfold alloc_arr in H. inv H.
  match goal with |- wf_state ?t /\ _ => set (s' := t) end.
  assert (G : grows s s') by (unfold grows, s'; cbn [envs arrs objs funs]; rewrite app_length; simpl; lia).
  split; [|split; [exact G|unfold s'; simpl; rewrite app_length; simpl; lia]].
  destruct W as [A B C D E]. constructor; unfold s' at 1; cbn [envs arrs objs funs].
  - exact A.
  - intros i b p H. eapply wf_binds_mono; eauto.
  - intros l vs' H. apply nth_app_one in H as [H|[-> ->]]; eapply wf_vals_mono; eauto.
  - intros l ps H. eapply wf_binds_mono; eauto.
  - exact E.
Qed.

Lemma wf_alloc_obj s ps l s' :
  wf_state s -> wf_binds s ps -> alloc_obj ps s = (l, s') ->
  wf_state s' /\ grows s s' /\ wf_value s' (VObj l).
Proof.
  intros W Hv H. unfold alloc_obj in H. inv H.
  match goal with |- wf_state ?t /\ _ => set (s' := t) end.
  assert (G : grows s s') by (unfold grows, s'; cbn [envs arrs objs funs]; rewrite app_length; simpl; lia).
  split; [|split; [exact G|unfold s'; simpl; rewrite app_length; simpl; lia]].
  destruct W as [A B C D E]. constructor; unfold s' at 1; cbn [envs arrs objs funs].
  - exact A.
  - intros i b p H. eapply wf_binds_mono; eauto.
  - intros l vs' H. eapply wf_vals_mono; eauto.
  - intros l ps' H. apply nth_app_one in H as [H|[-> ->]]; eapply wf_binds_mono; eauto.
  - exact E.
Qed.

Lemma wf_alloc_fun s c l s' :
  wf_state s -> c_env c < length (envs s) -> alloc_fun c s = (l, s') ->
  wf_state s' /\ grows s s' /\ wf_value s' (VFun l) /\ length (envs s') = length (envs s).
Proof.
  intros W Hc H. unfold alloc_fun in H. inv H.
  match goal with |- wf_state ?t /\ _ => set (s' := t) end.
  assert (G : grows s s') by (unfold grows, s'; cbn [envs arrs objs funs]; rewrite app_length; simpl; lia).
  split; [|split; [exact G|split; [unfold s'; simpl; rewrite app_length; simpl; lia|reflexivity]]].
  destruct W as [A B C D E]. constructor; unfold s' at 1; cbn [envs arrs objs funs].
  - exact A.
  - intros i b p H. eapply wf_binds_mono; eauto.
  - intros l vs' H. eapply wf_vals_mono; eauto.
  - intros l ps' H. eapply wf_binds_mono; eauto.
  - intros l c' H. apply nth_app_one in H as [H|[-> ->]]; eauto.
Qed.

Lemma wf_set_arr s l vs : wf_state s -> wf_vals s vs ->
  wf_state (set_arr l vs s) /\ grows s (set_arr l vs s).
Proof.
  intros W Hv.
  assert (G : grows s (set_arr l vs s)) by (unfold grows, set_arr; cbn [envs arrs objs funs]; rewrite set_nth_length; lia).
  split; [|exact G].
  destruct W as [A B C D E]. constructor; unfold set_arr at 1; cbn [envs arrs objs funs].
  - exact A.
  - intros i b p H. eapply wf_binds_mono; eauto.
  - intros l' vs' H. apply nth_set_nth_inv in H as [(-> & ->)|H]; eapply wf_vals_mono; eauto.
  - intros l' ps H. eapply wf_binds_mono; eauto.
  - exact E.
Qed.

Lemma wf_set_obj s l ps : wf_state s -> wf_binds s ps ->
  wf_state (set_obj l ps s) /\ grows s (set_obj l ps s).
Proof.
  intros W Hv.
  assert (G : grows s (set_obj l ps s)) by (unfold grows, set_obj; cbn [envs arrs objs funs]; rewrite set_nth_length; lia).
  split; [|exact G].
  destruct W as [A B C D E]. constructor; unfold set_obj at 1; cbn [envs arrs objs funs].
  - exact A.
  - intros i b p H. eapply wf_binds_mono; eauto.
  - intros l' vs' H. eapply wf_vals_mono; eauto.
  - intros l' ps' H. apply nth_set_nth_inv in H as [(-> & ->)|H]; eapply wf_binds_mono; eauto.
  - exact E.
Qed.

(** allocated locations can be dereferenced *)
Lemma get_arr_some s l : wf_value s (VArr l) -> exists vs, get_arr l s = Some vs.
Proof. simpl. apply nth_error_ex. Qed.
Lemma get_obj_some s l : wf_value s (VObj l) -> exists ps, get_obj l s = Some ps.
Proof. simpl. apply nth_error_ex. Qed.
Lemma get_fun_some s l : wf_value s (VFun l) -> exists c, get_fun l s = Some c.
Proof. simpl. apply nth_error_ex. Qed.

Lemma bind_params_total act : forall ps vs s, act < length (envs s) -> exists s', bind_params act ps vs s = Some s'.
Proof.
  induction ps as [|p ps IH]; intros [|v vs] s H; simpl; eauto.
  destruct (env_define_total act p v s H) as [s1 D]. rewrite D. apply IH.
  unfold env_define in D. destruct (nth_error (envs s) act) as [[b q]|]; [|discriminate]. inv D.
  cbn [set_envs envs]. rewrite set_nth_length. exact H.
Qed.

Lemma wf_bind_params act : forall ps vs s s', wf_state s -> wf_vals s vs ->
  bind_params act ps vs s = Some s' -> wf_state s' /\ grows s s'.
Proof.
  induction ps as [|p ps IH]; intros [|v vs] s s' W Hv H; simpl in H; try (inv H; auto using grows_refl; fail).
  destruct (env_define act p v s) as [s1|] eqn:D; [|discriminate]. inv Hv.
  destruct (wf_env_define _ _ _ _ _ W H2 D) as (W1 & G1 & _).
  destruct (IH vs s1 s' W1 ltac:(eapply wf_vals_mono; eauto) H) as (W2 & G2).
  split; [exact W2|exact (grows_trans _ _ _ G1 G2)].
Qed.

(** the initial store *)
Lemma wf_init stdin : wf_state (init_state stdin).
Proof.
  constructor; unfold init_state; cbn [envs arrs objs funs].
  - intros [|[|i]] b p H; simpl in H; try discriminate.
    + inv H. lia.
    + destruct i; discriminate.
  - intros [|[|i]] b p H; simpl in H.
    + inv H. unfold wf_binds, globals_bindings. apply Forall_forall. intros kv Hin.
      apply in_map_iff in Hin as (n & <- & _). exact I.
    + inv H. constructor.
    + destruct i; discriminate.
  - intros [|l] vs H; discriminate.
  - intros [|l] vs H; discriminate.
  - intros [|l] vs H; discriminate.
Qed.

Lemma top_env_init stdin : top_env < length (envs (init_state stdin)).
Proof. unfold top_env; simpl; lia. Qed.

(* ---------------------------------------------------------------- *)
(** ** operators, built-ins and printing *)

(** the two list renderers inside [text_in], as stand-alone functions *)
Section Renderers.
Variable tx : value -> tres.
Fixpoint arr_text (vs : list value) : tres :=
  match vs with
  | [] => TOk []
  | [v] => tx v
  | v :: r =>
      match tx v with
      | TOk t => match arr_text r with TOk t' => TOk (t ++ 32%N :: t') | x => x end
      | x => x
      end
  end.

Fixpoint obj_text (ps : list (list N * value)) : tres :=
  match ps with
  | [] => TOk []
  | [(k, v)] => match tx v with TOk t => TOk (k ++ 58%N :: t) | x => x end
  | (k, v) :: r =>
      match tx v with
      | TOk t => match obj_text r with TOk t' => TOk (k ++ 58%N :: t ++ 32%N :: t') | x => x end
      | x => x
      end
  end.
End Renderers.

Lemma text_in_0 s v : text_in 0 s v = TCycle.
Proof. reflexivity. Qed.

Lemma text_in_S f s v :
  text_in (S f) s v =
    match v with
    | VNil => TOk s_nil_nested
    | VBool b => TOk (if b then s_true else s_false)
    | VNum x => match text_num x with Some t => TOk t | None => TNoText end
    | VStr t => TOk t
    | VArr l => match get_arr l s with Some vs => wrap_arr (arr_text (text_in f s) vs) | None => TStuck end
    | VObj l => match get_obj l s with Some ps => wrap_obj (obj_text (text_in f s) ps) | None => TStuck end
    | VFun l =>
        match get_fun l s with
        | Some c => TOk ([60;102;117;110;99;116;105;111;110;32]%N ++ c_name c ++ [62]%N)
        | None => TStuck
        end
    | VNative n => TOk ([60;110;97;116;105;118;101;32;102;110]%N ++ native_label n ++ [62]%N)
    end.
Proof. reflexivity. Qed.

Lemma arr_text_not_stuck tx : forall vs, Forall (fun v => tx v <> TStuck) vs -> arr_text tx vs <> TStuck.
Proof.
  induction vs as [|v r IH]; intros H; [discriminate|]. inv H.
  destruct r as [|v' r']; [assumption|].
  change (arr_text tx (v :: v' :: r')) with
    (match tx v with
     | TOk t => match arr_text tx (v' :: r') with TOk t' => TOk (t ++ 32%N :: t') | x => x end
     | x => x end).
  specialize (IH H3).
  destruct (tx v); try congruence. destruct (arr_text tx (v' :: r')); congruence.
Qed.

Lemma obj_text_not_stuck tx : forall ps, Forall (fun kv => tx (snd kv) <> TStuck) ps -> obj_text tx ps <> TStuck.
Proof.
  induction ps as [|[k v] r IH]; intros H; [discriminate|]. inv H. simpl in H2.
  destruct r as [|kv' r'].
  - simpl. destruct (tx v); congruence.
  - change (obj_text tx ((k, v) :: kv' :: r')) with
      (match tx v with
       | TOk t => match obj_text tx (kv' :: r') with TOk t' => TOk (k ++ 58%N :: t ++ 32%N :: t') | x => x end
       | x => x end).
    specialize (IH H3).
    destruct (tx v); try congruence. destruct (obj_text tx (kv' :: r')); congruence.
Qed.

Lemma wrap_arr_not_stuck r : r <> TStuck -> wrap_arr r <> TStuck.
Proof. destruct r; simpl; congruence. Qed.
Lemma wrap_obj_not_stuck r : r <> TStuck -> wrap_obj r <> TStuck.
Proof. destruct r; simpl; congruence. Qed.

(** printing a well-formed value never dereferences a dangling location *)
Lemma text_in_not_stuck s : wf_state s -> forall f v, wf_value s v -> text_in f s v <> TStuck.
Proof.
  intros W. induction f as [|f IH]; intros v Hv; [rewrite text_in_0; discriminate|].
  rewrite text_in_S. destruct v as [|b|x|t|l|l|l|n]; try discriminate.
  - destruct (text_num x); discriminate.
  - destruct (get_arr_some _ _ Hv) as [vs E]. rewrite E.
    apply wrap_arr_not_stuck, arr_text_not_stuck.
    pose proof (wf_arrs _ W _ _ E) as Hvs. unfold wf_vals in Hvs.
    eapply Forall_impl; [|exact Hvs]. intros a Ha. apply IH; exact Ha.
  - destruct (get_obj_some _ _ Hv) as [ps E]. rewrite E.
    apply wrap_obj_not_stuck, obj_text_not_stuck.
    pose proof (wf_objs _ W _ _ E) as Hps. unfold wf_binds in Hps.
    eapply Forall_impl; [|exact Hps]. intros a Ha. apply IH; exact Ha.
  - destruct (get_fun_some _ _ Hv) as [c E]. rewrite E. discriminate.
Qed.

Lemma text_of_not_stuck s v : wf_state s -> wf_value s v -> text_of s v <> TStuck.
Proof.
  intros W Hv. unfold text_of. destruct v; try discriminate; apply text_in_not_stuck; assumption.
Qed.

Section WithOracles.
Variable libm : N -> f64 -> f64 -> f64.
Variable clock : f64.
Variable sched : N -> list (list N * value) -> list (list N * value).
(** the host's iteration order is an arbitrary function; all we need is that it
    invents no entries (a permutation of the map's content satisfies this) *)
Hypothesis sched_incl : forall n l x, In x (sched n l) -> In x l.

Notation binop := (binop libm).
Notation call_native := (call_native libm clock sched).

Lemma arith_scalar op a b v : arith libm op a b = OVal v -> scalar v.
Proof.
  unfold arith. destruct (to_number a); [|discriminate]. destruct (to_number b); [|discriminate].
  destruct op; try (intros H; inv H; exact I); destruct (f_is_zero f0); intros H; inv H; exact I.
Qed.
Lemma bitwise_scalar op a b v : bitwise op a b = OVal v -> scalar v.
Proof.
  unfold bitwise. destruct (to_int a); [|discriminate]. destruct (to_int b); [|discriminate].
  destruct op; try (intros H; inv H; exact I); destruct (z0 <? 0)%Z; intros H; inv H; exact I.
Qed.
Lemma add_scalar a b v : add a b = OVal v -> scalar v.
Proof.
  unfold add. destruct a; try discriminate.
  - destruct b; try (destruct (to_number _); intros H; inv H; exact I).
    destruct (num_text f); intros H; inv H; exact I.
  - destruct b; try discriminate; try (intros H; inv H; exact I).
    destruct (num_text f); intros H; inv H; exact I.
Qed.

(** operator results carry no location *)
Lemma binop_scalar s op a b v : binop s op a b = OVal v -> scalar v.
Proof.
  unfold Eval.binop. destruct op; try (intros H; inv H; exact I);
    first [apply add_scalar | apply arith_scalar | apply bitwise_scalar].
Qed.
Lemma unop_scalar op a v : unop op a = OVal v -> scalar v.
Proof.
  unfold unop. destruct op; try (intros H; inv H; exact I).
  - destruct (to_number a); intros H; inv H; exact I.
  - destruct (to_int a); intros H; inv H; exact I.
Qed.

(** outcome of a built-in from a well-formed store *)
Definition NGood (s : state) (r : nres) : Prop :=
  match r with
  | NOk v s' => wf_state s' /\ grows s s' /\ wf_value s' v
  | NFail _ => True
  | NStuck => False
  end.

Lemma NGood_same s v : wf_state s -> wf_value s v -> NGood s (NOk v s).
Proof. intros W H. simpl. auto using grows_refl. Qed.

Lemma math1_safe fn args s : wf_state s -> NGood s (math1 fn args s).
Proof.
  intros W. unfold math1. destruct args as [|v [|a' r]]; try exact I. destruct (to_number v); [|exact I]. apply NGood_same; [exact W|exact I].
Qed.

Lemma min_max_safe b args s : wf_state s -> wf_vals s args -> NGood s (min_max b args s).
Proof.
  intros W Ha. unfold min_max. destruct args as [|a r]; [exact I|].
  match goal with |- NGood _ (match ?t with _ => _ end) => assert (F : t <> None) end.
  { destruct a; try discriminate. destruct r; try discriminate. inv Ha.
    destruct (get_arr_some _ _ H1) as [vs E]. rewrite E. discriminate. }
  match goal with |- NGood _ (match ?t with _ => _ end) => destruct t as [[|x xs]|]; [exact I| |congruence] end.
  destruct (numbers_of (x :: xs)) as [[|y ys]|]; try exact I. apply NGood_same; [exact W|exact I].
Qed.

Lemma sched_wf s n ps : wf_binds s ps -> wf_binds s (sort_props (sched n ps)).
Proof.
  intros H. apply (sort_props_Forall (wf_value s)). apply Forall_forall. intros x Hx.
  apply sched_incl in Hx. unfold wf_binds in H. rewrite Forall_forall in H. apply H; exact Hx.
Qed.

(** every one of the 17 built-ins keeps the store well-formed and never meets a dangling location *)
Lemma call_native_safe n args s : wf_state s -> wf_vals s args -> NGood s (call_native n args s).
Proof.
  intros W Ha. destruct n; unfold Eval.call_native;
    try (apply math1_safe; exact W); try (apply min_max_safe; assumption).
  - (* clock *) apply NGood_same; [exact W|exact I].
  - (* len *) destruct args as [|a [|a' r]]; try exact I; destruct a as [|b|x|t|l|l|l|n]; try exact I. inv Ha. destruct (get_arr_some _ _ H1) as [vs E]. rewrite E.
    apply NGood_same; [exact W|exact I].
  - (* append *) destruct args as [|a [|v args]]; try exact I; destruct a as [|b|x|t|l|l|l|n]; try exact I. inv Ha. destruct (get_arr_some _ _ H1) as [vs E]. rewrite E.
    destruct (alloc_arr (vs ++ v :: args) s) as [l' s'] eqn:EA.
    eapply wf_alloc_arr; [exact W| |exact EA].
    apply Forall_app; split; [eapply wf_arrs; eauto|exact H2].
  - (* remove *) destruct args as [|a [|v0 [|a' r]]]; try exact I; destruct a as [|b|x|t|l|l|l|n]; try exact I. inv Ha. destruct (get_arr_some _ _ H1) as [vs E]. rewrite E.
    destruct (to_int v0); [|exact I].
    destruct ((z <? 0)%Z || (Z.of_nat (length vs) <=? z)%Z)%bool; [exact I|].
    destruct (alloc_arr (remove_nth (Z.to_nat z) vs) s) as [l' s'] eqn:EA.
    eapply wf_alloc_arr; [exact W| |exact EA].
    apply Forall_remove_nth. eapply wf_arrs; eauto.
  - (* delete *) destruct args as [|a [|v0 [|a' r]]]; try exact I; destruct a as [|b|x|t|l|l|l|n]; try exact I. inv Ha. destruct (get_obj_some _ _ H1) as [ps E]. rewrite E.
    destruct v0 as [|b|x|s0|l0|l0|l0|n]; try exact I. destruct (assoc s0 ps); [|exact I].
    destruct (wf_set_obj s l (alist_remove s0 ps) W) as (W' & G').
    { apply (alist_remove_Forall (wf_value s)). eapply wf_objs; eauto. }
    split; [exact W'|split; [exact G'|]]. apply (wf_value_mono s _ (VObj l) G' H1).
  - (* keys *) destruct args as [|a [|a' r]]; try exact I; destruct a as [|b|x|t|l|l|l|n]; try exact I. inv Ha. destruct (get_obj_some _ _ H1) as [ps E]. rewrite E.
    unfold iterate_sorted. destruct (wf_bump_tick s W) as (W1 & G1).
    destruct (alloc_arr (map (fun p => VStr (fst p)) (sort_props (sched (tick s) ps))) (bump_tick s)) as [l' s'] eqn:EA.
    assert (Hv : wf_vals (bump_tick s) (map (fun p => VStr (fst p)) (sort_props (sched (tick s) ps)))).
    { apply Forall_forall. intros x Hx. apply in_map_iff in Hx as (p & <- & _). exact I. }
    destruct (wf_alloc_arr _ _ _ _ W1 Hv EA) as (W2 & G2 & V2).
    simpl. split; [exact W2|split; [exact (grows_trans _ _ _ G1 G2)|exact V2]].
  - (* values *) destruct args as [|a [|a' r]]; try exact I; destruct a as [|b|x|t|l|l|l|n]; try exact I. inv Ha. destruct (get_obj_some _ _ H1) as [ps E]. rewrite E.
    unfold iterate_sorted. destruct (wf_bump_tick s W) as (W1 & G1).
    destruct (alloc_arr (map snd (sort_props (sched (tick s) ps))) (bump_tick s)) as [l' s'] eqn:EA.
    assert (Hv : wf_vals (bump_tick s) (map snd (sort_props (sched (tick s) ps)))).
    { pose proof (sched_wf s (tick s) ps (wf_objs _ W _ _ E)) as B.
      unfold wf_binds in B. rewrite Forall_forall in B. apply Forall_forall. intros x Hx.
      apply in_map_iff in Hx as (p & <- & Hp). eapply wf_value_mono; [exact G1|]. apply B; exact Hp. }
    destruct (wf_alloc_arr _ _ _ _ W1 Hv EA) as (W2 & G2 & V2).
    simpl. split; [exact W2|split; [exact (grows_trans _ _ _ G1 G2)|exact V2]].
  - (* pow *) destruct args as [|v [|v0 [|a' r]]]; try exact I. destruct (to_number v); [|exact I]. destruct (to_number v0); [|exact I].
    apply NGood_same; [exact W|exact I].
  - (* input *)
    destruct args as [|a [|a' r]]; [| |exact I]; cbv zeta.
    + destruct (inp s) eqn:EI; [exact I|]. destruct (read_line (n :: l)) as [line rest].
      destruct (wf_set_inp rest s W) as (W' & G'). simpl. auto.
    + destruct a as [|b|x|s0|l0|l0|l0|n0]; try exact I.
      destruct (wf_emit (EvPrompt s0) s W) as (W1 & G1).
      destruct (inp (emit (EvPrompt s0) s)) eqn:EI; [exact I|]. destruct (read_line (n :: l)) as [line rest].
      destruct (wf_set_inp rest _ W1) as (W' & G'). simpl. split; [exact W'|split; [exact (grows_trans _ _ _ G1 G')|exact I]].
Qed.

Lemma wf_native_fail_state n args s : wf_state s ->
  wf_state (native_fail_state n args s) /\ grows s (native_fail_state n args s).
Proof.
  intros W. unfold native_fail_state.
  destruct n; auto using grows_refl. destruct args as [|a [|b r]]; auto using grows_refl;
  destruct a as [|b0|x|t|l|l|l|n]; auto using grows_refl. apply wf_emit; exact W.
Qed.

End WithOracles.
