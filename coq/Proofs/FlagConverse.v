(** (T5) The converse of the refinement, up to fuel.

    If Eval, with fuel [f], ends otherwise than by running out of fuel, then FlagEval
    with every large enough fuel [g] ends too, in the outcome the simulation relation
    prescribes ([conv_all], [frun_converse]).  FlagEval may need MORE fuel than Eval: after
    an error it still walks through the remaining arguments / elements / statements of the
    enclosing lists (each step returns at once at the entry poll, but each costs one unit
    of fuel), which Eval never looks at.

    From a well-formed store (in particular the initial one) FlagEval is moreover never
    stuck (Proofs/FlagSafe.v), hence [frun_total]: whenever Eval ends normally or with a
    run-time error, FlagEval ends with [FOk] for every large enough fuel. *)
From Coq Require Import List Bool Lia Arith.
From Borno Require Import Base Num Unicode Token Ast Value Eval FlagEval EvalEqs FlagEqs
  FlagRefineDefs FlagRefine EvalSafeDefs FlagSafe.
Import ListNotations.
Open Scope N_scope.

(* ---------------------------------------------------------------- *)
(** ** silent continuation that does not run out of fuel *)

Definition afterT {A} (fs : fstate) (fr : fres A) : Prop :=
  match fr with
  | FOk _ fs' => ext fs fs'
  | FStuck => True
  | FFuel | FCrash _ => False
  end.

Lemma afterT_ret {A} (a : A) fs : fs_flag fs = true -> afterT fs (FOk a fs).
Proof. apply ext_refl. Qed.
Lemma afterT_report {A} (a : A) e l fs : afterT fs (FOk a (report e l fs)).
Proof. apply ext_report. Qed.
Lemma afterT_upd {A} (a : A) fs s : fs_flag fs = true -> obs_eq (fs_st fs) s -> afterT fs (FOk a (upd fs s)).
Proof. apply ext_upd. Qed.
Lemma afterT_stuck {A} fs : afterT (A:=A) fs FStuck.
Proof. exact I. Qed.

Lemma afterT_bind {A B} fs (fr : fres A) (fk : A -> fstate -> fres B) :
  afterT fs fr ->
  (forall a fs1, fs_flag fs1 = true -> afterT fs1 (fk a fs1)) ->
  afterT fs (fbind fr fk).
Proof.
  intros H K. destruct fr as [a fs1| | |fs1]; simpl in *; auto.
  assert (F : fs_flag fs1 = true) by (destruct H as (_ & F & _); exact F).
  specialize (K a fs1 F). destruct (fk a fs1) as [b fs2| | |fs2]; simpl in *; auto.
  eapply ext_trans; eassumption.
Qed.

(* ---------------------------------------------------------------- *)
(** ** [T r ds F]: the family [F] of outcomes of FlagEval, indexed by fuel, converges to an
    outcome that simulates [r] -- provided [r] is not [Fuel] *)

Definition T {A} (r : res A) (ds : list (rterr * N)) (F : nat -> fres A) : Prop :=
  r <> Fuel -> exists g0, forall g, (g0 <= g)%nat -> F g <> FFuel /\ sim r ds (F g).

Lemma T_fuel {A} ds (F : nat -> fres A) : T Fuel ds F.
Proof. intros N. exfalso; apply N; reflexivity. Qed.

Lemma T_const {A} (r : res A) ds fr : fr <> FFuel -> sim r ds fr -> T r ds (fun _ => fr).
Proof. intros N S _. exists 0%nat. intros g _. split; assumption. Qed.

Lemma T_ret {A} (a : A) fs s ds :
  fs_st fs = s -> fs_diags fs = ds -> fs_flag fs = false -> T (Ok a s) ds (fun _ => FOk a fs).
Proof. intros Hs Hd F. apply T_const; [discriminate|apply sim_ret; assumption]. Qed.

Lemma T_report {A} (a : A) e l fs s ds :
  fs_st fs = s -> fs_diags fs = ds -> T (A:=A) (Err e l s) ds (fun _ => FOk a (report e l fs)).
Proof. intros Hs Hd. apply T_const; [discriminate|apply sim_report; assumption]. Qed.

Lemma T_crash {A} fs s ds :
  fs_st fs = s -> fs_diags fs = ds -> fs_flag fs = false -> T (A:=A) (Crash s) ds (fun _ => FCrash fs).
Proof. intros Hs Hd F. apply T_const; [discriminate|apply sim_crash; assumption]. Qed.

Lemma T_stuck {A} ds : T (A:=A) Stuck ds (fun _ => FStuck).
Proof. apply T_const; [discriminate|apply sim_stuck]. Qed.

Lemma T_shift {A} (r : res A) ds (F : nat -> fres A) : T r ds (fun g => F (S g)) -> T r ds F.
Proof.
  intros H N. destruct (H N) as (g0 & H0). exists (S g0). intros g Hg.
  destruct g as [|g]; [lia|]. apply H0. lia.
Qed.

Lemma T_ext {A} (r : res A) ds (F F' : nat -> fres A) : (forall g, F g = F' g) -> T r ds F' -> T r ds F.
Proof.
  intros E H N. destruct (H N) as (g0 & H0). exists g0. intros g Hg. rewrite E. apply H0; exact Hg.
Qed.

Lemma T_bind {A B} (r : res A) (k : A -> state -> res B) ds
      (F : nat -> fres A) (FK : nat -> A -> fstate -> fres B) :
  T r ds F ->
  (forall a fs1, fs_flag fs1 = false -> T (k a (fs_st fs1)) (fs_diags fs1) (fun g => FK g a fs1)) ->
  (exists g0, forall g, (g0 <= g)%nat -> forall a fs1, fs_flag fs1 = true -> afterT fs1 (FK g a fs1)) ->
  T (bind r k) ds (fun g => fbind (F g) (FK g)).
Proof.
  intros H K1 (g3 & K2) N.
  assert (Nr : r <> Fuel) by (intros ->; apply N; reflexivity).
  destruct (H Nr) as (g1 & H1).
  destruct r as [a s1|e0 l0 s0| | |s1]; simpl in N |- *.
  - (* Ok: the outcome of [F g] is determined *)
    destruct (K1 a (mkF s1 false ds) eq_refl N) as (g2 & H2).
    exists (Nat.max g1 g2). intros g Hg.
    destruct (H1 g ltac:(lia)) as (NF & S1).
    destruct (sim_ok_inv _ _ _ _ _ S1 eq_refl) as (fs' & E & F' & St & D).
    assert (E' : fs' = mkF s1 false ds) by (destruct fs'; simpl in *; subst; reflexivity).
    subst fs'. rewrite E. simpl. apply H2. lia.
  - (* Err: whatever [F g] returns, the continuation is silent *)
    exists (Nat.max g1 g3). intros g Hg.
    destruct (H1 g ltac:(lia)) as (NF & S1).
    destruct (F g) as [a' fs'| | |fs'] eqn:EF; simpl in S1 |- *.
    + destruct (fs_flag fs') eqn:Fl.
      * destruct S1 as (e1 & l1 & s1 & more & R & O & D).
        inversion R; subst e1 l1 s1; clear R.
        assert (K := K2 g ltac:(lia) a' fs' Fl).
        destruct (FK g a' fs') as [b fs2| | |fs2]; simpl in K |- *; try contradiction.
        -- split; [discriminate|]. destruct K as (O2 & F2 & m2 & D2). rewrite F2.
           exists e0, l0, s0, (more ++ m2). split; [reflexivity|]. split; [eapply obs_trans; eassumption|].
           rewrite D2, D, <- app_assoc. reflexivity.
        -- split; [discriminate|]. right. eauto.
      * destruct S1 as (R & _); discriminate R.
    + exfalso; apply NF; reflexivity.
    + split; [discriminate|]. right. eauto.
    + destruct S1 as (_ & _ & R); discriminate R.
  - exfalso; apply Nr; reflexivity.
  - exists g1. intros g Hg. destruct (H1 g Hg) as (NF & S1).
    rewrite (sim_stuck_inv _ _ _ S1 eq_refl). simpl. split; [discriminate|left; reflexivity].
  - exists g1. intros g Hg. destruct (H1 g Hg) as (NF & S1).
    destruct (sim_crash_inv _ _ _ _ S1 eq_refl) as (fs' & E & F' & St & D).
    rewrite E. simpl. split; [discriminate|]. subst. auto.
Qed.

Section Converse.
Variable libm : N -> f64 -> f64 -> f64.
Variable clock : f64.
Variable sched : N -> list (list N * value) -> list (list N * value).

Notation eval := (eval libm clock sched).
Notation eval_list := (eval_list libm clock sched).
Notation eval_props := (eval_props libm clock sched).
Notation exec := (exec libm clock sched).
Notation exec_var := (exec_var libm clock sched).
Notation exec_vars := (exec_vars libm clock sched).
Notation exec_list := (exec_list libm clock sched).
Notation exec_while := (exec_while libm clock sched).
Notation exec_for := (exec_for libm clock sched).
Notation run_stmts := (run_stmts libm clock sched).
Notation feval := (feval libm clock sched).
Notation feval_list := (feval_list libm clock sched).
Notation feval_props := (feval_props libm clock sched).
Notation fexec := (fexec libm clock sched).
Notation fexec_var := (fexec_var libm clock sched).
Notation fexec_vars := (fexec_vars libm clock sched).
Notation fexec_list := (fexec_list libm clock sched).
Notation fexec_body := (fexec_body libm clock sched).
Notation fexec_while := (fexec_while libm clock sched).
Notation fexec_for := (fexec_for libm clock sched).
Notation frun_stmts := (frun_stmts libm clock sched).

(* ---------------------------------------------------------------- *)
(** ** entered with the flag up: how much fuel it takes to come back *)

Lemma feval_list_up : forall es g rho fs, (length es < g)%nat -> fs_flag fs = true ->
  exists vs, feval_list g es rho fs = FOk vs fs.
Proof.
  induction es as [|e r IH]; intros g rho fs Hg H; (destruct g as [|g]; [simpl in Hg; lia|]);
    rewrite feval_list_S.
  - eauto.
  - rewrite feval_flag by exact H. cbn [fbind].
    destruct (IH g rho fs ltac:(simpl in Hg; lia) H) as (vs & E). rewrite E. cbn [fbind]. eauto.
Qed.

Lemma feval_props_up : forall ps g rho fs, (length ps < g)%nat -> fs_flag fs = true ->
  exists kvs, feval_props g ps rho fs = FOk kvs fs.
Proof.
  induction ps as [|[k e] r IH]; intros g rho fs Hg H; (destruct g as [|g]; [simpl in Hg; lia|]);
    rewrite feval_props_S.
  - eauto.
  - rewrite feval_flag by exact H. cbn [fbind].
    destruct (IH g rho fs ltac:(simpl in Hg; lia) H) as (vs & E). rewrite E. cbn [fbind]. eauto.
Qed.

Lemma fexec_body_up : forall ss g rho fs, (length ss < g)%nat -> fs_flag fs = true ->
  fexec_body g ss rho fs = FOk SigNone fs.
Proof.
  induction ss as [|st r IH]; intros g rho fs Hg H; (destruct g as [|g]; [simpl in Hg; lia|]);
    rewrite fexec_body_S.
  - reflexivity.
  - rewrite fexec_flag by exact H. cbn [fbind]. apply IH; [simpl in Hg; lia|exact H].
Qed.

Lemma afterT_feval g e rho fs : fs_flag fs = true -> afterT fs (feval g e rho fs).
Proof. intros H. rewrite feval_flag by exact H. apply afterT_ret; exact H. Qed.
Lemma afterT_fexec g repl st rho fs : fs_flag fs = true -> afterT fs (fexec g repl st rho fs).
Proof. intros H. rewrite fexec_flag by exact H. apply afterT_ret; exact H. Qed.
Lemma afterT_fexec_var g d rho fs : fs_flag fs = true -> afterT fs (fexec_var g d rho fs).
Proof. intros H. rewrite fexec_var_flag by exact H. apply afterT_ret; exact H. Qed.
Lemma afterT_feval_list g es rho fs : (length es < g)%nat -> fs_flag fs = true -> afterT fs (feval_list g es rho fs).
Proof. intros Hg H. destruct (feval_list_up es g rho fs Hg H) as (vs & E). rewrite E. apply afterT_ret; exact H. Qed.
Lemma afterT_feval_props g ps rho fs : (length ps < g)%nat -> fs_flag fs = true -> afterT fs (feval_props g ps rho fs).
Proof. intros Hg H. destruct (feval_props_up ps g rho fs Hg H) as (vs & E). rewrite E. apply afterT_ret; exact H. Qed.
Lemma afterT_fexec_body g ss rho fs : (length ss < g)%nat -> fs_flag fs = true -> afterT fs (fexec_body g ss rho fs).
Proof. intros Hg H. rewrite fexec_body_up by assumption. apply afterT_ret; exact H. Qed.
Lemma afterT_fexec_vars g ds rho fs : (0 < g)%nat -> fs_flag fs = true -> afterT fs (fexec_vars g ds rho fs).
Proof.
  intros Hg H. destruct g as [|g]; [lia|]. rewrite fexec_vars_S. destruct ds as [|d r]; [apply afterT_ret; exact H|].
  rewrite fexec_var_flag by exact H. cbn [fbind]. rewrite H. apply afterT_ret; exact H.
Qed.
Lemma afterT_fexec_list g repl ss rho fs : (0 < g)%nat -> fs_flag fs = true -> afterT fs (fexec_list g repl ss rho fs).
Proof.
  intros Hg H. destruct g as [|g]; [lia|]. rewrite fexec_list_S. destruct ss as [|st r]; [apply afterT_ret; exact H|].
  rewrite fexec_flag by exact H. cbn [fbind]. rewrite H. apply afterT_ret; exact H.
Qed.
Lemma afterT_fexec_while g repl c b rho fs : (0 < g)%nat -> fs_flag fs = true -> afterT fs (fexec_while g repl c b rho fs).
Proof.
  intros Hg H. destruct g as [|g]; [lia|]. rewrite fexec_while_S. rewrite feval_flag by exact H.
  cbn [fbind truthy]. apply afterT_ret; exact H.
Qed.
Lemma afterT_fexec_for g repl c inc b rho fs : (0 < g)%nat -> fs_flag fs = true -> afterT fs (fexec_for g repl c inc b rho fs).
Proof.
  intros Hg H. destruct g as [|g]; [lia|]. rewrite fexec_for_S. rewrite feval_flag by exact H.
  cbn [fbind truthy]. apply afterT_ret; exact H.
Qed.

Ltac obs_tac :=
  first [ eapply alloc_arr_obs; eassumption
        | eapply alloc_obj_obs; eassumption
        | apply set_arr_obs
        | apply set_obj_obs
        | apply obs_refl ].

Ltac fuel_ok := simpl length in *; lia.

Ltac aftT_leaf :=
  first
    [ exact I
    | apply afterT_report
    | apply afterT_ret; assumption
    | apply afterT_upd; [assumption | obs_tac]
    | apply afterT_feval; assumption
    | apply afterT_fexec; assumption
    | apply afterT_fexec_var; assumption
    | apply afterT_feval_list; [fuel_ok | assumption]
    | apply afterT_feval_props; [fuel_ok | assumption]
    | apply afterT_fexec_body; [fuel_ok | assumption]
    | apply afterT_fexec_vars; [fuel_ok | assumption]
    | apply afterT_fexec_list; [fuel_ok | assumption]
    | apply afterT_fexec_while; [fuel_ok | assumption]
    | apply afterT_fexec_for; [fuel_ok | assumption] ].

Ltac aftT :=
  cbv beta;
  lazymatch goal with
  | |- afterT _ (fbind _ _) =>
      apply afterT_bind;
      [ aftT
      | let a := fresh "a" in let fs := fresh "fs" in let H := fresh "Hup" in
        intros a fs H; aftT ]
  | |- afterT _ (if fs_flag ?fs then _ else _) =>
      match goal with H : fs_flag fs = true |- _ => rewrite H end; aftT
  | |- afterT _ (if _ && negb (fs_flag ?fs) then _ else _) =>
      match goal with H : fs_flag fs = true |- _ => rewrite H, andb_false_r end; aftT
  | |- afterT _ (match ?x with _ => _ end) =>
      let E := fresh "E" in destruct x eqn:E; aftT
  | |- _ => aftT_leaf
  end.

(* ---------------------------------------------------------------- *)
(** ** the main induction, on Eval's fuel *)

Definition ConvAt (f : nat) : Prop :=
  (forall e rho fs s ds, fs_st fs = s -> fs_diags fs = ds -> fs_flag fs = false ->
     T (eval f e rho s) ds (fun g => feval g e rho fs)) /\
  (forall es rho fs s ds, fs_st fs = s -> fs_diags fs = ds -> fs_flag fs = false ->
     T (eval_list f es rho s) ds (fun g => feval_list g es rho fs)) /\
  (forall ps rho fs s ds, fs_st fs = s -> fs_diags fs = ds -> fs_flag fs = false ->
     T (eval_props f ps rho s) ds (fun g => feval_props g ps rho fs)) /\
  (forall repl st rho fs s ds, fs_st fs = s -> fs_diags fs = ds -> fs_flag fs = false ->
     T (exec f repl st rho s) ds (fun g => fexec g repl st rho fs)) /\
  (forall d rho fs s ds, fs_st fs = s -> fs_diags fs = ds -> fs_flag fs = false ->
     T (exec_var f d rho s) ds (fun g => fexec_var g d rho fs)) /\
  (forall dl rho fs s ds, fs_st fs = s -> fs_diags fs = ds -> fs_flag fs = false ->
     T (exec_vars f dl rho s) ds (fun g => fexec_vars g dl rho fs)) /\
  (forall repl ss rho fs s ds, fs_st fs = s -> fs_diags fs = ds -> fs_flag fs = false ->
     T (exec_list f repl ss rho s) ds (fun g => fexec_list g repl ss rho fs)) /\
  (forall ss rho fs s ds, fs_st fs = s -> fs_diags fs = ds -> fs_flag fs = false ->
     T (exec_list f false ss rho s) ds (fun g => fexec_body g ss rho fs)) /\
  (forall repl c b rho fs s ds, fs_st fs = s -> fs_diags fs = ds -> fs_flag fs = false ->
     T (exec_while f repl c b rho s) ds (fun g => fexec_while g repl c b rho fs)) /\
  (forall repl c inc b rho fs s ds, fs_st fs = s -> fs_diags fs = ds -> fs_flag fs = false ->
     T (exec_for f repl c inc b rho s) ds (fun g => fexec_for g repl c inc b rho fs)).

Ltac T_leaf :=
  first
    [ apply T_fuel
    | apply T_stuck
    | apply T_ret; [reflexivity | reflexivity | assumption]
    | apply T_report; [reflexivity | reflexivity]
    | apply T_crash; [reflexivity | reflexivity | assumption]
    | match goal with IH : _ |- _ => solve [eapply IH; [reflexivity | reflexivity | assumption]] end ].

(** [tgo B]: goals [T X ds (fun g => Y g)], [X] and [Y g] corresponding remainders of an arm;
    [B] is the fuel that the silent continuations of this arm need *)
Ltac tgo B :=
  cbv beta iota;
  lazymatch goal with
  | |- T (bind ?r ?k) ?ds (fun g => fbind (@?F g) (@?FK g)) =>
      apply (T_bind r k ds F FK);
      [ tgo B
      | let a := fresh "a" in let fs := fresh "fs" in let H := fresh "Hdn" in
        intros a fs H; tgo B
      | exists B;
        let g := fresh "g" in let Hg := fresh "Hg" in
        let a := fresh "a" in let fs := fresh "fs" in let H := fresh "Hup" in
        intros g Hg a fs H; aftT ]
  | |- T _ _ (fun g => if fs_flag ?fs then _ else _) =>
      match goal with H : fs_flag fs = false |- _ => rewrite H end; tgo B
  | |- T _ _ (fun g => if _ && negb (fs_flag ?fs) then _ else _) =>
      match goal with H : fs_flag fs = false |- _ => rewrite H end;
      cbn [negb]; rewrite andb_true_r; tgo B
  | |- T _ _ (fun g => match ?x with _ => _ end) =>
      let E := fresh "E" in destruct x eqn:E; tgo B
  | |- _ => T_leaf
  end.

Lemma conv_all : forall f, ConvAt f.
Proof.
  induction f as [|f IH].
  - unfold ConvAt. repeat apply conj; intros; apply T_fuel.
  - destruct IH as (IHe & IHl & IHp & IHx & IHv & IHvs & IHxl & IHb & IHw & IHf).
    unfold ConvAt. repeat apply conj.
    + (* feval *)
      intros e rho fs s ds Hs Hd Hdn. subst s ds.
      apply T_shift. eapply T_ext; [intros g; apply feval_S; exact Hdn|].
      rewrite eval_S. unfold funop, fbinop, lift_ores.
      destruct e as [l ln|x ln|e' ln|op e' ln|op l r ln|op l r|x nl ve ln|ae ie ve ln|oe p ve ln|ce pl args|ae ie ln|oe p ln|es|ps];
        try (tgo 1%nat).
      tgo (S (length args)).
    + (* feval_list *)
      intros es rho fs s ds Hs Hd Hdn. subst s ds.
      apply T_shift. eapply T_ext; [intros g; apply feval_list_S|].
      rewrite eval_list_S. destruct es as [|e r]; [tgo 1%nat | tgo (S (length r))].
    + (* feval_props *)
      intros ps rho fs s ds Hs Hd Hdn. subst s ds.
      apply T_shift. eapply T_ext; [intros g; apply feval_props_S|].
      rewrite eval_props_S. destruct ps as [|[k e] r]; [tgo 1%nat | tgo (S (length r))].
    + (* fexec *)
      intros repl st rho fs s ds Hs Hd Hdn. subst s ds.
      apply T_shift. eapply T_ext; [intros g; apply fexec_S; exact Hdn|].
      rewrite exec_S. unfold fprint.
      destruct st; tgo 1%nat.
    + (* fexec_var *)
      intros d rho fs s ds Hs Hd Hdn. subst s ds.
      apply T_shift. eapply T_ext; [intros g; apply fexec_var_S; exact Hdn|].
      rewrite exec_var_S. tgo 1%nat.
    + (* fexec_vars *)
      intros dl rho fs s ds Hs Hd Hdn. subst s ds.
      apply T_shift. eapply T_ext; [intros g; apply fexec_vars_S|].
      rewrite exec_vars_S. tgo 1%nat.
    + (* fexec_list *)
      intros repl ss rho fs s ds Hs Hd Hdn. subst s ds.
      apply T_shift. eapply T_ext; [intros g; apply fexec_list_S|].
      rewrite exec_list_S. tgo 1%nat.
    + (* fexec_body *)
      intros ss rho fs s ds Hs Hd Hdn. subst s ds.
      apply T_shift. eapply T_ext; [intros g; apply fexec_body_S|].
      rewrite exec_list_S. destruct ss as [|st r]; [tgo 1%nat | tgo (S (length r))].
    + (* fexec_while *)
      intros repl c b rho fs s ds Hs Hd Hdn. subst s ds.
      apply T_shift. eapply T_ext; [intros g; apply fexec_while_S|].
      rewrite exec_while_S. tgo 1%nat.
    + (* fexec_for *)
      intros repl c inc b rho fs s ds Hs Hd Hdn. subst s ds.
      apply T_shift. eapply T_ext; [intros g; apply fexec_for_S|].
      rewrite exec_for_S. tgo 1%nat.
Qed.

Lemma frun_conv f repl : forall ss fs s ds, fs_st fs = s -> fs_diags fs = ds -> fs_flag fs = false ->
  T (run_stmts f repl ss s) ds (fun g => frun_stmts g repl ss fs).
Proof.
  destruct (conv_all f) as (_ & _ & _ & IHx & _).
  induction ss as [|st r IHss]; intros fs s ds Hs Hd Hdn; subst s ds.
  - cbn [Eval.run_stmts FlagEval.frun_stmts]. T_leaf.
  - cbn [Eval.run_stmts FlagEval.frun_stmts]. tgo 1%nat.
Qed.

(** If Eval (fuel [f]) does not run out of fuel on a program, FlagEval does not either for
    every large enough fuel, and its outcome is the one the refinement prescribes. *)
Theorem frun_converse : forall f repl ss s,
  run_stmts f repl ss s <> Fuel ->
  exists f', forall f'', (f' <= f'')%nat ->
    frun_stmts f'' repl ss (fclean s) <> FFuel /\
    sim (run_stmts f repl ss s) [] (frun_stmts f'' repl ss (fclean s)).
Proof.
  intros f repl ss s N.
  exact (frun_conv f repl ss (fclean s) s [] eq_refl eq_refl eq_refl N).
Qed.

(** the same for an expression *)
Theorem feval_converse : forall f e rho fs, fs_flag fs = false ->
  eval f e rho (fs_st fs) <> Fuel ->
  exists g0, forall g, (g0 <= g)%nat ->
    feval g e rho fs <> FFuel /\ sim (eval f e rho (fs_st fs)) (fs_diags fs) (feval g e rho fs).
Proof.
  intros f e rho fs F N. destruct (conv_all f) as (H & _).
  exact (H e rho fs _ _ eq_refl eq_refl F N).
Qed.

(* ---------------------------------------------------------------- *)
(** ** with well-formedness: FlagEval is total wherever Eval is *)

Hypothesis sched_incl : forall n l x, In x (sched n l) -> In x l.

(** (T5) From a well-formed store, whenever Eval ends normally or with a run-time error,
    FlagEval ends with [FOk] for every large enough fuel. *)
Theorem frun_total : forall f repl ss s,
  wf_state s -> (top_env < length (envs s))%nat ->
  (exists a s', run_stmts f repl ss s = Ok a s') \/ (exists e l s', run_stmts f repl ss s = Err e l s') ->
  exists f', forall f'', (f' <= f'')%nat -> exists fs', frun_stmts f'' repl ss (fclean s) = FOk tt fs'.
Proof.
  intros f repl ss s W Ht H.
  assert (N : run_stmts f repl ss s <> Fuel).
  { destruct H as [(a & s' & E) | (e & l & s' & E)]; rewrite E; discriminate. }
  destruct (frun_converse f repl ss s N) as (f' & H').
  exists f'. intros f'' L. destruct (H' f'' L) as (NF & S).
  pose proof (frun_stmts_safe libm clock sched sched_incl f'' repl ss (fclean s) W Ht) as (NS & _).
  destruct (frun_stmts f'' repl ss (fclean s)) as [[] fs'| | |fs'].
  - eauto.
  - exfalso; apply NF; reflexivity.
  - exfalso; apply NS; reflexivity.
  - simpl in S. destruct S as (_ & _ & R).
    destruct H as [(a & s' & E) | (e & l & s' & E)]; rewrite E in R; discriminate R.
Qed.

Corollary frun_total_init : forall f repl ss stdin,
  (exists a s', run_stmts f repl ss (init_state stdin) = Ok a s') \/
  (exists e l s', run_stmts f repl ss (init_state stdin) = Err e l s') ->
  exists f', forall f'', (f' <= f'')%nat ->
    exists fs', frun_stmts f'' repl ss (fclean (init_state stdin)) = FOk tt fs'.
Proof. intros f repl ss stdin. apply frun_total; [apply wf_init|apply top_env_init]. Qed.

End Converse.

Print Assumptions conv_all.
Print Assumptions frun_converse.
Print Assumptions frun_total.
