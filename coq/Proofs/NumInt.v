(** Integer- and list-level facts about the number layer of the Borno model:
    digit classification and transliteration, decimal value of digit strings,
    two's-complement 64-bit integers.  Everything here is about [N]/[Z]/lists and
    is closed under the global context (no axioms): no lemma mentions [R]. *)
From Coq Require Import ZArith NArith List Bool Lia.
From Borno Require Import Base Unicode Num.
Import ListNotations.

(* ------------------------------------------------------------------ *)
(** * Digits and transliteration: only the ten Bangla digits are transliterated *)

Section Digits.
Open Scope N_scope.

(** [translit] maps U+09E6..U+09EF to '0'..'9' and is the identity elsewhere. *)
Theorem translit_spec : forall c,
  translit c = if (2534 <=? c) && (c <=? 2543) then c - 2534 + 48 else c.
Proof.
  intros c. unfold translit, bangla_digit_table, lookupN.
  repeat match goal with
         | |- context [ (c =? ?k) ] => destruct (N.eqb_spec c k) as [->|?]; [reflexivity|]
         end.
  destruct (N.leb_spec 2534 c) as [H1|H1], (N.leb_spec c 2543) as [H2|H2];
    simpl; try reflexivity; lia.
Qed.

Theorem translit_only_bangla : forall c, translit c <> c -> 2534 <= c <= 2543.
Proof.
  intros c H. rewrite translit_spec in H.
  destruct (N.leb_spec 2534 c) as [H1|H1], (N.leb_spec c 2543) as [H2|H2];
    simpl in H; try (exfalso; apply H; reflexivity). lia.
Qed.

Lemma translit_outside : forall c, ~ (2534 <= c <= 2543) -> translit c = c.
Proof.
  intros c H. rewrite translit_spec.
  destruct (N.leb_spec 2534 c) as [H1|H1], (N.leb_spec c 2543) as [H2|H2];
    simpl; try reflexivity; lia.
Qed.

Lemma translit_bangla : forall c, 2534 <= c <= 2543 -> translit c = c - 2534 + 48.
Proof.
  intros c H. rewrite translit_spec.
  destruct (N.leb_spec 2534 c) as [H1|H1], (N.leb_spec c 2543) as [H2|H2];
    simpl; try reflexivity; lia.
Qed.

Theorem is_digit_spec : forall c,
  is_digit c = true <-> (48 <= c <= 57 \/ 2534 <= c <= 2543).
Proof.
  intros c. unfold is_digit.
  rewrite orb_true_iff, !andb_true_iff, !N.leb_le. tauto.
Qed.

Lemma is_ascii_digit_spec : forall c, is_ascii_digit c = true <-> 48 <= c <= 57.
Proof.
  intros c. unfold is_ascii_digit. rewrite andb_true_iff, !N.leb_le. tauto.
Qed.

Theorem translit_ascii_digit : forall c,
  is_digit c = true -> is_ascii_digit (translit c) = true.
Proof.
  intros c H. apply is_digit_spec in H. apply is_ascii_digit_spec.
  destruct H as [H|H].
  - rewrite translit_outside by lia. exact H.
  - rewrite translit_bangla by exact H. lia.
Qed.

Theorem translit_idem : forall c, translit (translit c) = translit c.
Proof.
  intros c.
  destruct (N.leb_spec 2534 c) as [H1|H1]; [destruct (N.leb_spec c 2543) as [H2|H2]|].
  - rewrite (translit_bangla c) by lia. apply translit_outside. lia.
  - rewrite (translit_outside c) by lia. apply translit_outside. lia.
  - rewrite (translit_outside c) by lia. apply translit_outside. lia.
Qed.

(** A character that is already an ASCII digit is left alone. *)
Lemma translit_ascii_fix : forall c, is_ascii_digit c = true -> translit c = c.
Proof.
  intros c H. apply is_ascii_digit_spec in H. apply translit_outside. lia.
Qed.

(** A non-digit is never turned into something else (in particular not into a digit). *)
Lemma translit_non_digit : forall c, is_digit c = false -> translit c = c.
Proof.
  intros c H. apply translit_outside. intros H'.
  assert (E : is_digit c = true) by (apply is_digit_spec; right; exact H').
  rewrite E in H. discriminate.
Qed.

(** [c] and [d] denote the same decimal digit, possibly in different scripts. *)
Definition same_digit (c d : N) : Prop :=
  is_digit c = true /\ is_digit d = true /\ translit c = translit d.

Lemma same_digit_refl : forall c, is_digit c = true -> same_digit c c.
Proof. intros c H. unfold same_digit. auto. Qed.

Lemma same_digit_sym : forall c d, same_digit c d -> same_digit d c.
Proof. intros c d (H1 & H2 & H3). unfold same_digit. auto. Qed.

Lemma same_digit_trans : forall c d e, same_digit c d -> same_digit d e -> same_digit c e.
Proof.
  intros c d e (H1 & H2 & H3) (H4 & H5 & H6). unfold same_digit.
  split; [exact H1|split; [exact H5|congruence]].
Qed.

(** Each digit is the same digit as its ASCII transliteration. *)
Lemma same_digit_translit : forall c, is_digit c = true -> same_digit c (translit c).
Proof.
  intros c H. unfold same_digit. split; [exact H|split].
  - apply translit_ascii_digit in H. apply is_ascii_digit_spec in H.
    apply is_digit_spec. left. exact H.
  - symmetry. apply translit_idem.
Qed.

(** Explicit form: same digit iff equal, or they differ by the script offset 2486. *)
Lemma same_digit_cases : forall c d,
  same_digit c d <->
  is_digit c = true /\ is_digit d = true /\ (c = d \/ c = d + 2486 \/ d = c + 2486).
Proof.
  intros c d. unfold same_digit. split.
  - intros (H1 & H2 & H3). split; [exact H1|split; [exact H2|]].
    apply is_digit_spec in H1. apply is_digit_spec in H2.
    destruct H1 as [H1|H1], H2 as [H2|H2].
    + rewrite !translit_outside in H3 by lia. left. exact H3.
    + rewrite (translit_outside c), (translit_bangla d) in H3 by lia. right. right. lia.
    + rewrite (translit_outside d), (translit_bangla c) in H3 by lia. right. left. lia.
    + rewrite !translit_bangla in H3 by lia. left. lia.
  - intros (H1 & H2 & H3). split; [exact H1|split; [exact H2|]].
    apply is_digit_spec in H1. apply is_digit_spec in H2.
    destruct H3 as [->|[->| ->]]; [reflexivity| |].
    + rewrite (translit_bangla (d + 2486)), (translit_outside d) by lia. lia.
    + rewrite (translit_bangla (c + 2486)), (translit_outside c) by lia. lia.
Qed.

(** Two spellings of the same digit string transliterate to the same ASCII string. *)
Theorem script_invariance : forall ds ds',
  Forall2 same_digit ds ds' -> translit_str ds = translit_str ds'.
Proof.
  intros ds ds' H. unfold translit_str.
  induction H as [|c d l l' (_ & _ & Hcd) _ IH]; [reflexivity|].
  simpl. rewrite Hcd, IH. reflexivity.
Qed.

(** (The consequence for the lexer's literal value, [literal_value_script_invariance],
    is in Proofs/NumFacts.v: [literal_value] is defined through Flocq's division, whose
    correctness proof inside the definition brings the axioms of the real numbers.) *)

(** A transliterated digit string consists of ASCII digits. *)
Lemma translit_str_ascii : forall ds,
  Forall (fun c => is_digit c = true) ds ->
  Forall (fun c => is_ascii_digit c = true) (translit_str ds).
Proof.
  intros ds H. unfold translit_str.
  induction H as [|c l Hc _ IH]; simpl; constructor.
  - apply translit_ascii_digit. exact Hc.
  - exact IH.
Qed.

Lemma translit_str_length : forall ds, length (translit_str ds) = length ds.
Proof. intros ds. unfold translit_str. apply map_length. Qed.

Lemma translit_str_idem : forall ds, translit_str (translit_str ds) = translit_str ds.
Proof.
  intros ds. unfold translit_str. rewrite map_map.
  apply map_ext. intros c. apply translit_idem.
Qed.

End Digits.

(* ------------------------------------------------------------------ *)
(** * Decimal value of a digit string *)

Section DigitsVal.
Open Scope Z_scope.

Lemma digits_val_acc_snoc : forall ds acc d,
  digits_val_acc acc (ds ++ [d]) = 10 * digits_val_acc acc ds + Z.of_N (d - 48)%N.
Proof.
  induction ds as [|c r IH]; intros acc d; cbn [digits_val_acc app].
  - lia.
  - apply IH.
Qed.

Lemma digits_val_acc_nonneg : forall ds acc, 0 <= acc -> 0 <= digits_val_acc acc ds.
Proof.
  induction ds as [|c r IH]; intros acc H; cbn [digits_val_acc].
  - exact H.
  - apply IH. lia.
Qed.

Lemma digits_val_acc_app : forall ds es acc,
  digits_val_acc acc (ds ++ es) = digits_val_acc (digits_val_acc acc ds) es.
Proof.
  induction ds as [|c r IH]; intros es acc; cbn [digits_val_acc app]; [reflexivity|apply IH].
Qed.

Lemma digits_val_acc_shift : forall es acc,
  digits_val_acc acc es = acc * 10 ^ Z.of_nat (length es) + digits_val_acc 0 es.
Proof.
  induction es as [|c r IH]; intros acc.
  - simpl. lia.
  - cbn [digits_val_acc length]. rewrite IH, (IH (0 * 10 + _)).
    rewrite Nat2Z.inj_succ, Z.pow_succ_r by lia. ring.
Qed.

Lemma digits_val_nil : digits_val [] = 0.
Proof. reflexivity. Qed.

(** the decimal-value recurrence (holds for any code points; [d - 48] is the digit) *)
Lemma digits_val_snoc : forall ds d,
  digits_val (ds ++ [d]) = 10 * digits_val ds + Z.of_N (d - 48)%N.
Proof. intros ds d. apply digits_val_acc_snoc. Qed.

Lemma digits_val_nonneg : forall ds, 0 <= digits_val ds.
Proof. intros ds. apply digits_val_acc_nonneg. lia. Qed.

Lemma digits_val_app : forall ds es,
  digits_val (ds ++ es) = digits_val ds * 10 ^ Z.of_nat (length es) + digits_val es.
Proof.
  intros ds es. unfold digits_val. rewrite digits_val_acc_app. apply digits_val_acc_shift.
Qed.

Lemma ascii_digit_val : forall d, is_ascii_digit d = true -> 0 <= Z.of_N (d - 48)%N <= 9.
Proof. intros d H. apply is_ascii_digit_spec in H. lia. Qed.

(** For ASCII digit strings, [digits_val] is the decimal value: it satisfies the
    positional recurrence with a digit in 0..9, and is non-negative. *)
Theorem digits_val_spec : forall ds d,
  Forall (fun c => is_ascii_digit c = true) (ds ++ [d]) ->
  digits_val (ds ++ [d]) = 10 * digits_val ds + Z.of_N (d - 48)%N /\
  0 <= Z.of_N (d - 48)%N <= 9 /\
  0 <= digits_val ds /\ 0 <= digits_val (ds ++ [d]).
Proof.
  intros ds d H. split; [apply digits_val_snoc|].
  split; [|split; apply digits_val_nonneg].
  apply ascii_digit_val. rewrite Forall_forall in H. apply H.
  apply in_or_app. right. left. reflexivity.
Qed.

(** a string of [n] ASCII digits denotes a number below [10^n] *)
Lemma digits_val_bound : forall ds,
  Forall (fun c => is_ascii_digit c = true) ds ->
  0 <= digits_val ds < 10 ^ Z.of_nat (length ds).
Proof.
  intros ds. induction ds as [|d r IH] using rev_ind; intros H.
  - simpl. unfold digits_val. simpl. lia.
  - apply Forall_app in H. destruct H as [Hr Hd].
    specialize (IH Hr). rewrite digits_val_snoc, app_length. simpl length.
    assert (Hd' : 0 <= Z.of_N (d - 48)%N <= 9).
    { apply ascii_digit_val. inversion Hd as [|? ? Hx ?]. exact Hx. }
    replace (Z.of_nat (length r + 1)) with (Z.succ (Z.of_nat (length r))) by lia.
    rewrite Z.pow_succ_r by lia. lia.
Qed.

End DigitsVal.

(* ------------------------------------------------------------------ *)
(** * 64-bit two's-complement integers *)

Section Int64.
Open Scope Z_scope.

Lemma two64_two63 : two64 = 2 * two63.
Proof. reflexivity. Qed.
Lemma two63_pow : two63 = 2 ^ 63.
Proof. reflexivity. Qed.
Lemma two64_pow : two64 = 2 ^ 64.
Proof. reflexivity. Qed.

(** [wrap64] lands in the int64 range ... *)
Theorem wrap64_range : forall z, - two63 <= wrap64 z < two63.
Proof.
  intros z. unfold wrap64.
  pose proof (Z.mod_pos_bound (z + two63) two64 eq_refl) as H.
  rewrite two64_two63 in *. lia.
Qed.

(** ... is the identity on that range ... *)
Theorem wrap64_id : forall z, - two63 <= z < two63 -> wrap64 z = z.
Proof.
  intros z H. unfold wrap64. rewrite Z.mod_small; [lia|].
  rewrite two64_two63. lia.
Qed.

(** ... and differs from its argument by a multiple of 2^64. *)
Theorem wrap64_mod : forall z, (wrap64 z - z) mod two64 = 0.
Proof.
  intros z. unfold wrap64.
  replace ((z + two63) mod two64 - two63 - z)
    with (- ((z + two63) / two64) * two64).
  - apply Z.mod_mul. discriminate.
  - pose proof (Z.div_mod (z + two63) two64 ltac:(discriminate)) as H. lia.
Qed.

Lemma wrap64_eqm : forall z, wrap64 z mod two64 = z mod two64.
Proof.
  intros z. pose proof (wrap64_mod z) as H.
  replace (wrap64 z) with (z + (wrap64 z - z)) by lia.
  rewrite Z.add_mod by discriminate. rewrite H, Z.add_0_r. apply Z.mod_mod. discriminate.
Qed.

Lemma wrap64_idem : forall z, wrap64 (wrap64 z) = wrap64 z.
Proof. intros z. apply wrap64_id. apply wrap64_range. Qed.

(** being in [-2^n, 2^n) means all bits from [n] up are copies of the sign:
    equivalently, the arithmetic shift by [n] is 0 or -1 *)
Lemma range_shiftr : forall n z, 0 <= n ->
  (- 2 ^ n <= z < 2 ^ n) <-> (Z.shiftr z n = 0 \/ Z.shiftr z n = -1).
Proof.
  intros n z Hn. rewrite Z.shiftr_div_pow2 by exact Hn.
  assert (Hp : 0 < 2 ^ n) by (apply Z.pow_pos_nonneg; lia).
  pose proof (Z.div_mod z (2 ^ n) ltac:(lia)) as Hdm.
  pose proof (Z.mod_pos_bound z (2 ^ n) Hp) as Hb.
  remember (2 ^ n) as P. remember (z / P) as q. remember (z mod P) as r.
  split.
  - intros [H1 H2]. destruct (Z_lt_le_dec z 0) as [Hz|Hz].
    + right. nia.
    + left. nia.
  - intros [H| H]; rewrite H in Hdm; lia.
Qed.

Lemma bitop_range : forall (f : Z -> Z -> Z) n a b, 0 <= n ->
  (forall x y, Z.shiftr (f x y) n = f (Z.shiftr x n) (Z.shiftr y n)) ->
  f 0 0 = 0 \/ f 0 0 = -1 -> f 0 (-1) = 0 \/ f 0 (-1) = -1 ->
  f (-1) 0 = 0 \/ f (-1) 0 = -1 -> f (-1) (-1) = 0 \/ f (-1) (-1) = -1 ->
  - 2 ^ n <= a < 2 ^ n -> - 2 ^ n <= b < 2 ^ n -> - 2 ^ n <= f a b < 2 ^ n.
Proof.
  intros f n a b Hn Hs H00 H01 H10 H11 Ha Hb.
  apply range_shiftr in Ha; [|exact Hn]. apply range_shiftr in Hb; [|exact Hn].
  apply range_shiftr; [exact Hn|]. rewrite Hs.
  destruct Ha as [-> | ->], Hb as [-> | ->]; assumption.
Qed.

Theorem land_range : forall n a b, 0 <= n ->
  - 2 ^ n <= a < 2 ^ n -> - 2 ^ n <= b < 2 ^ n -> - 2 ^ n <= Z.land a b < 2 ^ n.
Proof.
  intros n a b Hn. apply bitop_range; [exact Hn|intros x y; apply Z.shiftr_land| | | |];
    cbv; auto.
Qed.

Theorem lor_range : forall n a b, 0 <= n ->
  - 2 ^ n <= a < 2 ^ n -> - 2 ^ n <= b < 2 ^ n -> - 2 ^ n <= Z.lor a b < 2 ^ n.
Proof.
  intros n a b Hn. apply bitop_range; [exact Hn|intros x y; apply Z.shiftr_lor| | | |];
    cbv; auto.
Qed.

Theorem lxor_range : forall n a b, 0 <= n ->
  - 2 ^ n <= a < 2 ^ n -> - 2 ^ n <= b < 2 ^ n -> - 2 ^ n <= Z.lxor a b < 2 ^ n.
Proof.
  intros n a b Hn. apply bitop_range; [exact Hn|intros x y; apply Z.shiftr_lxor| | | |];
    cbv; auto.
Qed.

(** the bitwise operators of the model keep int64 values in range (no wrap needed) *)
Theorem i64_and_range : forall a b,
  - two63 <= a < two63 -> - two63 <= b < two63 -> - two63 <= i64_and a b < two63.
Proof. intros a b. unfold i64_and. rewrite two63_pow. apply land_range. lia. Qed.

Theorem i64_or_range : forall a b,
  - two63 <= a < two63 -> - two63 <= b < two63 -> - two63 <= i64_or a b < two63.
Proof. intros a b. unfold i64_or. rewrite two63_pow. apply lor_range. lia. Qed.

Theorem i64_xor_range : forall a b,
  - two63 <= a < two63 -> - two63 <= b < two63 -> - two63 <= i64_xor a b < two63.
Proof. intros a b. unfold i64_xor. rewrite two63_pow. apply lxor_range. lia. Qed.

Theorem i64_not_spec : forall a, i64_not a = - a - 1.
Proof. intros a. unfold i64_not, Z.lnot. lia. Qed.

Theorem i64_not_range : forall a, - two63 <= a < two63 -> - two63 <= i64_not a < two63.
Proof. intros a H. rewrite i64_not_spec. lia. Qed.

(** bit-level meaning of the operators *)
Theorem i64_and_bits : forall a b i, Z.testbit (i64_and a b) i = Z.testbit a i && Z.testbit b i.
Proof. intros a b i. apply Z.land_spec. Qed.
Theorem i64_or_bits : forall a b i, Z.testbit (i64_or a b) i = Z.testbit a i || Z.testbit b i.
Proof. intros a b i. apply Z.lor_spec. Qed.
Theorem i64_xor_bits : forall a b i, Z.testbit (i64_xor a b) i = xorb (Z.testbit a i) (Z.testbit b i).
Proof. intros a b i. apply Z.lxor_spec. Qed.
Theorem i64_not_bits : forall a i, 0 <= i -> Z.testbit (i64_not a) i = negb (Z.testbit a i).
Proof. intros a i Hi. apply Z.lnot_spec. exact Hi. Qed.

(** left shift: multiply by 2^n and wrap (0 once everything is shifted out) *)
Theorem i64_shl_spec : forall a n, 0 <= n ->
  i64_shl a n = if 64 <=? n then 0 else wrap64 (a * 2 ^ n).
Proof. intros a n _. reflexivity. Qed.

Theorem i64_shl_range : forall a n, - two63 <= i64_shl a n < two63.
Proof.
  intros a n. unfold i64_shl. destruct (64 <=? n).
  - unfold two63. lia.
  - apply wrap64_range.
Qed.

(** the two branches of [i64_shl] agree: for n >= 64 the wrapped product is 0 anyway *)
Theorem i64_shl_wrap : forall a n, 0 <= n -> i64_shl a n = wrap64 (a * 2 ^ n).
Proof.
  intros a n Hn. unfold i64_shl. destruct (Z.leb_spec 64 n) as [H|H]; [|reflexivity].
  replace n with (64 + (n - 64)) by lia. rewrite Z.pow_add_r by lia.
  unfold wrap64. change (2 ^ 64) with two64.
  replace (a * (two64 * 2 ^ (n - 64)) + two63) with (two63 + (a * 2 ^ (n - 64)) * two64) by ring.
  rewrite Z.mod_add by discriminate. reflexivity.
Qed.

(** arithmetic right shift: floor division by 2^n, for every n >= 0 *)
Theorem i64_shr_spec : forall a n, 0 <= n -> - two63 <= a < two63 ->
  i64_shr a n = a / 2 ^ n.
Proof.
  intros a n Hn Ha. unfold i64_shr. destruct (Z.leb_spec 64 n) as [H|H].
  - assert (HP : two64 <= 2 ^ n).
    { rewrite two64_pow. apply Z.pow_le_mono_r; lia. }
    rewrite two64_two63 in HP.
    destruct (Z.ltb_spec a 0) as [Hz|Hz].
    + apply Z.div_unique with (a + 2 ^ n); lia.
    + symmetry. apply Z.div_small. lia.
  - apply Z.shiftr_div_pow2. exact Hn.
Qed.

Theorem i64_shr_range : forall a n, 0 <= n -> - two63 <= a < two63 ->
  - two63 <= i64_shr a n < two63.
Proof.
  intros a n Hn Ha. rewrite i64_shr_spec by assumption.
  assert (Hp : 0 < 2 ^ n) by (apply Z.pow_pos_nonneg; lia).
  assert (H1 : 1 <= 2 ^ n) by lia.
  pose proof (Z.div_mod a (2 ^ n) ltac:(lia)) as Hdm.
  pose proof (Z.mod_pos_bound a (2 ^ n) Hp) as Hb.
  remember (2 ^ n) as P. remember (a / P) as q. remember (a mod P) as r.
  unfold two63 in *. nia.
Qed.

End Int64.

Print Assumptions translit_spec.
Print Assumptions script_invariance.
Print Assumptions digits_val_spec.
Print Assumptions wrap64_mod.
Print Assumptions i64_and_range.
Print Assumptions i64_shr_spec.
