(** Layout invariance of the parser (property C18a), at the level of token lists.

    The parser reads line numbers in one place only: the rule "the token after a
    declarator must be on the line of the first token after ধরি" in [pvardecls].  That
    rule can only *reject*.  So:

    - [flat_pprogram]: whatever the parser accepts without diagnostics it also accepts,
      with the same tree up to line fields, when every token is moved to line 0 (and
      the end-of-input token too);
    - [accepted_trees_agree_upto_lines]: two token lists that are equal up to the lines
      of their tokens, and that are both accepted, give the same tree up to line fields;
    - [parse_agree_upto_lines]: the same for [parse].

    The proof does not go through the grammar ([ParserSound]/[ParserComplete]): the
    completeness theorem speaks about the canonical writing [flat_prog] of a tree, and an
    accepted text need not be canonical (repeated object keys, a trailing comma in an
    object literal, an omitted ফর condition).  Instead: one pass over the parser
    functions relating a run on [ts] to the run on [map zl ts]. *)
From Borno Require Import Base Num Token Ast Parser ParserEqs ParserMono ParserTotal Grammar ParserSC_Base.
From Borno Require Import InvFacts.
From Coq Require Import Lia.
Open Scope N_scope.

(** the token moved to line 0 *)
Definition zl (t : token) : token := mkTok (tk t) (tlex t) (tlit t) 0.
Notation flat := (map zl).

Definition erase_ds (ds : list vdecl) : list vdecl := map erase_d ds.

(** [x'] succeeds silently whenever [x] does, with the erased value and the flattened rest *)
Definition okflat {A} (h : A -> A) (x x' : pres A) : Prop :=
  forall a rest, x = POk a rest [] -> x' = POk (h a) (flat rest) [].

Lemma pbind_ok_nil' {A B} (x : pres A) (k : A -> list token -> pres B) b r :
  pbind x k = POk b r [] -> exists a r1, x = POk a r1 [] /\ k a r1 = POk b r [].
Proof.
  intros H. apply pbind_ok in H. destruct H as (a & r1 & d1 & d2 & E & H & Ed).
  symmetry in Ed. apply app_eq_nil in Ed. destruct Ed as (-> & ->). eauto.
Qed.

Lemma okflat_bind {A B} (h : A -> A) (g : B -> B) (x x' : pres A) (k k' : A -> list token -> pres B) :
  okflat h x x' -> (forall a rest, okflat g (k a rest) (k' (h a) (flat rest))) ->
  okflat g (pbind x k) (pbind x' k').
Proof.
  intros Hx Hk b r H. apply pbind_ok_nil' in H. destruct H as (a & r1 & E & H).
  rewrite (pbind_nil _ _ _ _ (Hx _ _ E)). exact (Hk _ _ _ _ H).
Qed.

Lemma okflat_leaf {A} (h : A -> A) (a : A) r ds a' r' :
  a' = h a -> r' = flat r -> okflat h (POk a r ds) (POk a' r' ds).
Proof. intros -> -> a0 r0 E. injection E as <- <- ->. reflexivity. Qed.

Lemma okflat_err {A} (h : A -> A) ds x' : okflat h (PErr ds) x'.
Proof. intros a r E. discriminate E. Qed.

Lemma okflat_fuel {A} (h : A -> A) x' : okflat h PFuel x'.
Proof. intros a r E. discriminate E. Qed.

Lemma check_flat k r : check k (flat r) = check k r.
Proof. destruct r; reflexivity. Qed.

Lemma tl_flat (r : list token) : tl (flat r) = flat (tl r).
Proof. destruct r; reflexivity. Qed.

Lemma peek_line_flat r : peek_line 0 (flat r) = 0.
Proof. destruct r; reflexivity. Qed.

Lemma is_lit_container_erase init : is_lit_container (option_map erase_e init) = is_lit_container init.
Proof. destruct init as [[]|]; reflexivity. Qed.

Lemma mk_bin_flat b op l r : mk_bin b (zl op) (erase_e l) (erase_e r) = erase_e (mk_bin b op l r).
Proof. destruct b; reflexivity. Qed.

Lemma props_put_erase acc k v :
  props_put (map erase_kv acc) k (erase_e v) = map erase_kv (props_put acc k v).
Proof. symmetry. apply (props_put_map erase_e). Qed.

Section Flat.
Variable eofl : N.

Lemma okflat_consume k pk ts : okflat zl (consume eofl k pk ts) (consume 0 k pk (flat ts)).
Proof.
  intros t r E. apply consume_ok in E. destruct E as (-> & <- & _).
  cbn [map]. apply consume_hit. reflexivity.
Qed.

Lemma okflat_lenient {A} (h : A -> A) k pk (a : A) r :
  okflat h (let '(r2, ds) := consume_lenient eofl k pk r in POk a r2 ds)
           (let '(r2, ds) := consume_lenient 0 k pk (flat r) in POk (h a) r2 ds).
Proof.
  destruct r as [|t r]; cbn [map consume_lenient].
  - intros a0 r0 E. discriminate E.
  - cbn [zl tk]. destruct (tkind_eqb (tk t) k).
    + apply okflat_leaf; reflexivity.
    + intros a0 r0 E. discriminate E.
Qed.

(** the canonical eraser of each result type *)
Ltac eraser A :=
  lazymatch A with
  | token => constr:(zl)
  | expr => constr:(erase_e)
  | list expr => constr:(map erase_e)
  | option expr => constr:(option_map erase_e)
  | list (list N * expr) => constr:(map erase_kv)
  | list vdecl => constr:(map erase_d)
  | stmt => constr:(erase_s)
  | list stmt => constr:(map erase_s)
  | option stmt => constr:(option_map erase_s)
  | list (list N) => constr:(fun x : list (list N) => x)
  end.

Ltac fl_norm :=
  cbv beta zeta;
  cbn [map option_map zl tk tlex tlit tline];
  rewrite ?check_flat, ?tl_flat, ?mk_bin_flat, ?props_put_erase.

Ltac fl_leaf :=
  first
  [ apply okflat_err
  | apply okflat_fuel
  | apply okflat_consume
  | match goal with IH : forall _, _ |- okflat _ _ _ => apply IH end
  | apply okflat_leaf; reflexivity
  | solve [ repeat match goal with
            | |- context [match option_map _ ?x with _ => _ end] => destruct x; cbn [option_map]
            end; apply okflat_leaf; reflexivity ]
  | apply (okflat_lenient erase_s)
  | (let a := fresh "a" in let r := fresh "r" in let E := fresh "E" in
     intros a r E; discriminate E) ].

Ltac fl_step :=
  fl_norm;
  lazymatch goal with
  | |- okflat _ (@pbind ?A _ _ _) (pbind _ _) =>
      let h := eraser A in
      let a := fresh "a" in let r := fresh "r" in
      eapply (okflat_bind h); [ | intros a r ]
  | |- okflat _ (match consume_lenient _ _ _ _ with _ => _ end) _ =>
      apply (okflat_lenient erase_s)
  | |- okflat _ (match tk ?t with _ => _ end) _ =>
      let K := fresh "K" in destruct (tk t) eqn:K
  | |- okflat _ (match ?x with _ => _ end) _ =>
      destruct x; cbn [erase_e]
  | |- okflat _ (if ?x then _ else _) _ =>
      let K := fresh "K" in destruct x eqn:K
  | |- okflat _ _ _ => fl_leaf
  end.

Ltac fl_go := repeat fl_step.

Definition ExprFlat (f : nat) : Prop :=
  (forall ts, okflat erase_e (pexpr eofl f ts) (pexpr 0 f (flat ts))) /\
  (forall lv ts, okflat erase_e (plevel eofl f lv ts) (plevel 0 f lv (flat ts))) /\
  (forall l lv a ts, okflat erase_e (ploop eofl f l lv a ts) (ploop 0 f l lv (erase_e a) (flat ts))) /\
  (forall ts, okflat erase_e (punary eofl f ts) (punary 0 f (flat ts))) /\
  (forall a ts, okflat erase_e (pcallloop eofl f a ts) (pcallloop 0 f (erase_e a) (flat ts))) /\
  (forall ts, okflat (map erase_e) (pargs eofl f ts) (pargs 0 f (flat ts))) /\
  (forall ts, okflat erase_e (pprimary eofl f ts) (pprimary 0 f (flat ts))) /\
  (forall acc ts, okflat (map erase_kv) (pprops eofl f acc ts) (pprops 0 f (map erase_kv acc) (flat ts))).

Lemma expr_flat_all : forall f, ExprFlat f.
Proof.
  induction f as [|f IH].
  - unfold ExprFlat. repeat split; intros; apply okflat_fuel.
  - destruct IH as (Ie & Il & Ilo & Iu & Ic & Ia & Ipr & Ipp).
    unfold ExprFlat. split; [|split; [|split; [|split; [|split; [|split; [|split]]]]]].
    + intros ts. rewrite !pexpr_S. fl_go.
    + intros lv ts. rewrite !plevel_S. fl_go.
    + intros l lv a ts. rewrite !ploop_S. fl_go.
    + intros ts. rewrite !punary_S. fl_go.
    + intros a ts. rewrite !pcallloop_S. fl_go.
    + intros ts. rewrite !pargs_S. fl_go.
    + intros ts. rewrite !pprimary_S. fl_go.
    + intros acc ts. rewrite !pprops_S. fl_go.
Qed.

Lemma pexpr_flat f ts : okflat erase_e (pexpr eofl f ts) (pexpr 0 f (flat ts)).
Proof. apply (expr_flat_all f). Qed.

(** here the line rule is met: on the flattened side the test always passes *)
Lemma pvardecls_flat : forall f l0 ts,
  okflat (map erase_d) (pvardecls eofl f l0 ts) (pvardecls 0 f 0 (flat ts)).
Proof.
  induction f as [|f IH]; intros l0 ts; [apply okflat_fuel|].
  pose proof (pexpr_flat f) as Ie. specialize (IH l0).
  rewrite !pvardecls_S. fl_step. { fl_go. } fl_step. { fl_go. }
  fl_step. { fl_go. }
  fl_norm. rewrite peek_line_flat, is_lit_container_erase. cbn [N.eqb negb]. rewrite Bool.andb_false_r.
  destruct (negb (is_lit_container a0) && negb (peek_line eofl r0 =? l0)); [apply okflat_err|].
  fl_go.
Qed.

Lemma pvar_flat f ts : okflat erase_s (pvar eofl f ts) (pvar 0 f (flat ts)).
Proof.
  pose proof (pvardecls_flat f) as Iv. unfold pvar. rewrite peek_line_flat.
  fl_step. { fl_go. } fl_step. { fl_go. }
  destruct a as [|d [|d2 ds]]; fl_go.
Qed.

Lemma pexprstmt_flat f ts : okflat erase_s (pexprstmt eofl f ts) (pexprstmt 0 f (flat ts)).
Proof. pose proof (pexpr_flat f) as Ie. unfold pexprstmt. fl_go. Qed.

Lemma pparams_flat : forall f n ts,
  okflat (fun x : list (list N) => x) (pparams eofl f n ts) (pparams 0 f n (flat ts)).
Proof.
  induction f as [|f IH]; intros n ts; [apply okflat_fuel|].
  rewrite !pparams_S. fl_go.
Qed.

Definition StmtFlat (f : nat) : Prop :=
  (forall ts, okflat erase_s (pdecl eofl f ts) (pdecl 0 f (flat ts))) /\
  (forall ts, okflat erase_s (pstmt eofl f ts) (pstmt 0 f (flat ts))) /\
  (forall ts, okflat (map erase_s) (pblock eofl f ts) (pblock 0 f (flat ts))).

Lemma stmt_flat_all : forall f, StmtFlat f.
Proof.
  induction f as [|f IH].
  - unfold StmtFlat. repeat split; intros; apply okflat_fuel.
  - destruct IH as (Id & Is & Ib).
    pose proof (pexpr_flat f) as Ie. pose proof (pvar_flat f) as Iv.
    pose proof (pexprstmt_flat f) as Ix. pose proof (pparams_flat f) as Ip.
    unfold StmtFlat. split; [|split].
    + intros ts. rewrite !pdecl_S. fl_go.
    + intros ts. rewrite !pstmt_S. fl_go.
    + intros ts. rewrite !pblock_S. fl_go.
Qed.

Lemma pprogram_flat : forall f ts, okflat (map erase_s) (pprogram eofl f ts) (pprogram 0 f (flat ts)).
Proof.
  induction f as [|f IH]; intros ts; [apply okflat_fuel|].
  pose proof (proj1 (stmt_flat_all f)) as Id.
  rewrite !pprogram_S. fl_go.
Qed.

End Flat.

(** Moving every token (and the end of input) to line 0 keeps a silent acceptance, and
    the tree up to line fields. *)
Theorem flat_pprogram eofl f ts ss r :
  pprogram eofl f ts = POk ss r [] -> pprogram 0 f (flat ts) = POk (map erase_s ss) (flat r) [].
Proof. apply pprogram_flat. Qed.

Theorem flat_pexpr eofl f ts e r :
  pexpr eofl f ts = POk e r [] -> pexpr 0 f (flat ts) = POk (erase_e e) (flat r) [].
Proof. apply pexpr_flat. Qed.

Lemma same_upto_line_zl t t' : same_upto_line t t' -> zl t = zl t'.
Proof. intros (K & X & L). unfold zl. rewrite K, X, L. reflexivity. Qed.

Lemma same_upto_line_flat ts ts' : Forall2 same_upto_line ts ts' -> flat ts = flat ts'.
Proof.
  induction 1 as [|t t' ts ts' Ht _ IH]; [reflexivity|].
  cbn [map]. rewrite (same_upto_line_zl _ _ Ht), IH. reflexivity.
Qed.

Lemma flat_same_upto_line ts : Forall2 same_upto_line ts (flat ts).
Proof. induction ts as [|t ts IH]; constructor; [unfold same_upto_line; auto|exact IH]. Qed.

(** the symbols the grammar sees do not contain the line *)
Lemma same_upto_line_sym t t' : same_upto_line t t' -> sym_of t = sym_of t'.
Proof. intros (K & X & L). unfold sym_of. rewrite K, X, L. reflexivity. Qed.

Lemma same_upto_line_syms ts ts' : Forall2 same_upto_line ts ts' -> map sym_of ts = map sym_of ts'.
Proof.
  induction 1 as [|t t' ts ts' Ht _ IH]; [reflexivity|].
  cbn [map]. rewrite (same_upto_line_sym _ _ Ht), IH. reflexivity.
Qed.

Lemma accepted_trees_agree_gen eofl eofl' f f' ts ts' ss ss' r r' :
  Forall2 same_upto_line ts ts' ->
  pprogram eofl f ts = POk ss r [] -> pprogram eofl' f' ts' = POk ss' r' [] ->
  map erase_s ss = map erase_s ss'.
Proof.
  intros HT H H'. apply flat_pprogram in H. apply flat_pprogram in H'.
  rewrite <- (same_upto_line_flat _ _ HT) in H'.
  pose proof (pprogram_mono_ok _ _ (f + f')%nat _ _ _ _ H ltac:(lia)) as M.
  pose proof (pprogram_mono_ok _ _ (f + f')%nat _ _ _ _ H' ltac:(lia)) as M'.
  rewrite M in M'. injection M' as E _. exact E.
Qed.

(** (L1) Two layouts of the same tokens that the parser both accepts are parsed into the
    same tree, up to the line fields.  (One of two layouts can be rejected -- a line
    break inside a ধরি declaration -- hence "both accepted".) *)
Theorem accepted_trees_agree_upto_lines eofl eofl' f f' ts ts' ss ss' :
  Forall2 same_upto_line ts ts' ->
  pprogram eofl f ts = POk ss [] [] -> pprogram eofl' f' ts' = POk ss' [] [] ->
  map erase_s ss = map erase_s ss'.
Proof. apply accepted_trees_agree_gen. Qed.

(** the same for expressions *)
Theorem accepted_exprs_agree_upto_lines eofl eofl' f f' ts ts' e e' r r' :
  Forall2 same_upto_line ts ts' ->
  pexpr eofl f ts = POk e r [] -> pexpr eofl' f' ts' = POk e' r' [] ->
  erase_e e = erase_e e' /\ Forall2 same_upto_line r r'.
Proof.
  intros HT H H'. apply flat_pexpr in H. apply flat_pexpr in H'.
  rewrite <- (same_upto_line_flat _ _ HT) in H'.
  pose proof (pexpr_mono_ok _ _ (f + f')%nat _ _ _ _ H ltac:(lia)) as M.
  pose proof (pexpr_mono_ok _ _ (f + f')%nat _ _ _ _ H' ltac:(lia)) as M'.
  rewrite M in M'. injection M' as E R. split; [exact E|].
  clear - R. revert r' R. induction r as [|t r IH]; intros [|t' r'] R; cbn [map] in R; try discriminate R; constructor.
  - assert (Rt : zl t = zl t') by congruence. unfold same_upto_line.
    split; [exact (f_equal tk Rt)|]. split; [exact (f_equal tlex Rt)|exact (f_equal tlit Rt)].
  - apply IH. congruence.
Qed.

(** (L2) the same at the level of [parse]: two accepted layouts, one tree up to lines *)
Theorem parse_agree_upto_lines ts ts' eofl eofl' p q :
  Forall2 same_upto_line ts ts' ->
  pr_diags (parse ts eofl) = [] -> pr_diags (parse ts' eofl') = [] ->
  pr_prog (parse ts eofl) = Some p -> pr_prog (parse ts' eofl') = Some q ->
  map erase_s p = map erase_s q.
Proof.
  unfold parse. intros HT.
  destruct (pprogram eofl (parse_fuel ts) ts) as [ss r ds|ds|] eqn:E; cbn [pr_diags pr_prog]; try discriminate.
  destruct (pprogram eofl' (parse_fuel ts') ts') as [ss' r' ds'|ds'|] eqn:E'; cbn [pr_diags pr_prog]; try discriminate.
  intros -> -> Hp Hq. injection Hp as <-. injection Hq as <-.
  eapply accepted_trees_agree_gen; eassumption.
Qed.

(** An accepted layout stays accepted when all its line breaks are removed (all tokens
    on one line): the converse of the carve-out.  Here "one line" is line 0. *)
Corollary parse_flat_accepts ts eofl p :
  pr_diags (parse ts eofl) = [] -> pr_prog (parse ts eofl) = Some p ->
  pr_diags (parse (flat ts) 0) = [] /\ pr_prog (parse (flat ts) 0) = Some (map erase_s p).
Proof.
  unfold parse, parse_fuel. rewrite map_length.
  destruct (pprogram eofl (40 * (length ts + 2)) ts) as [ss r ds|ds|] eqn:E; cbn [pr_diags pr_prog]; try discriminate.
  intros -> Hp. injection Hp as <-. rewrite (flat_pprogram _ _ _ _ _ E). split; reflexivity.
Qed.

Print Assumptions flat_pprogram.
Print Assumptions accepted_trees_agree_upto_lines.
Print Assumptions accepted_exprs_agree_upto_lines.
Print Assumptions parse_agree_upto_lines.
