(** Number-level theorems about the doubles of the Borno model (Model/Num.v):
    the model's [f64] operations are Flocq's IEEE-754 binary64 specification
    ([BinarySingleNaN] at (53, 1024), round to nearest even).  The theorems below
    mention [B2R]/[R]; they therefore depend on the axioms of the standard
    library's real numbers (listed by [Print Assumptions] at the end), and on
    nothing else.  The purely integer facts are in Proofs/NumInt.v. *)
From Coq Require Import ZArith NArith List Bool Lia Reals Lra.
From Flocq Require Import Core BinarySingleNaN.
From Borno Require Import Base Unicode Num NumInt.
Import ListNotations.
Open Scope R_scope.

(** the binary64 format and its round-to-nearest-even *)
Notation fexp64 := (FLT_exp (-1074) 53).
Notation rnd64 := (round radix2 (FLT_exp (-1074) 53) ZnearestE).
Notation bmax := (bpow radix2 1024).

#[local] Instance prec53_gt_0 : Prec_gt_0 53.
Proof. unfold Prec_gt_0. lia. Qed.
#[local] Instance fexp64_valid : Valid_exp fexp64 := FLT_exp_valid (-1074) 53.

(** the [3 - emax - prec] of the task statement is the same number *)
Lemma emin_eq : (3 - 1024 - 53 = -1074)%Z.
Proof. reflexivity. Qed.

Lemma fexp_eq : SpecFloat.fexp prec emax = FLT_exp (-1074) 53.
Proof. reflexivity. Qed.

Lemma B2SF_infinity : forall (v : f64) s, B2SF v = SpecFloat.S754_infinity s -> v = B754_infinity s.
Proof.
  intros v s H. destruct v as [s'|s'| |s' m e Hb]; simpl in H; try discriminate.
  inversion H. reflexivity.
Qed.

Lemma F2R_exp0 : forall m : Z, F2R (Float radix2 m 0) = IZR m.
Proof. intros m. unfold F2R. simpl. ring. Qed.

Lemma pow10_pos : forall k, (0 <= k)%Z -> (0 < pow10 k)%Z.
Proof. intros k Hk. unfold pow10. apply Z.pow_pos_nonneg; lia. Qed.

Lemma rnd64_0 : rnd64 0 = 0.
Proof. apply round_0. typeclasses eauto. Qed.

Lemma bmax_pos : 0 < bmax.
Proof. apply bpow_gt_0. Qed.

(* ------------------------------------------------------------------ *)
(** * float64(int64) and integers as doubles *)

(** General form: the nearest double (ties to even) unless that reaches 2^1024,
    in which case the infinity with the sign of [z]. *)
Theorem f_of_Z_correct_gen : forall z : Z,
  if Rlt_bool (Rabs (rnd64 (IZR z))) bmax
  then B2R (f_of_Z z) = rnd64 (IZR z) /\ is_finite (f_of_Z z) = true /\
       Bsign (f_of_Z z) = (z <? 0)%Z
  else f_of_Z z = B754_infinity (z <? 0)%Z.
Proof.
  intros z. unfold f_of_Z.
  pose proof (binary_normalize_correct prec emax Hprec Hmax mode_NE z 0 false) as H.
  cbv zeta in H. rewrite F2R_exp0 in H.
  change (round_mode mode_NE) with ZnearestE in H.
  change (SpecFloat.fexp prec emax) with (FLT_exp (-1074) 53) in H.
  change (bpow radix2 emax) with bmax in H.
  assert (Hs : Rlt_bool (IZR z) 0 = (z <? 0)%Z).
  { destruct (Z.ltb_spec z 0) as [Hz|Hz].
    - apply Rlt_bool_true. apply IZR_lt. exact Hz.
    - apply Rlt_bool_false. apply IZR_le. exact Hz. }
  destruct (Rlt_bool (Rabs (rnd64 (IZR z))) bmax).
  - destruct H as (H1 & H2 & H3). split; [exact H1|split; [exact H2|]].
    rewrite H3. destruct (Z.ltb_spec z 0) as [Hz|Hz].
    + rewrite Rcompare_Lt; [reflexivity|apply IZR_lt; exact Hz].
    + destruct (Z.eq_dec z 0) as [->|Hn].
      * rewrite Rcompare_Eq; reflexivity.
      * rewrite Rcompare_Gt; [reflexivity|apply IZR_lt; lia].
  - rewrite Hs in H. apply B2SF_infinity. exact H.
Qed.

(** the largest finite double, 2^1024 - 2^971 *)
Definition max_f64_Z : Z := (2 ^ 53 - 1) * 2 ^ 971.

Lemma max_f64_Z_eq : max_f64_Z = (2 ^ 1024 - 2 ^ 971)%Z.
Proof. reflexivity. Qed.

Lemma max_f64_format : generic_format radix2 fexp64 (IZR max_f64_Z).
Proof.
  apply generic_format_FLT.
  apply (FLT_spec radix2 (-1074) 53 _ (Float radix2 (2 ^ 53 - 1) 971)).
  - unfold F2R, max_f64_Z. cbn [Fnum Fexp]. rewrite mult_IZR.
    rewrite <- (IZR_Zpower radix2 971) by lia. reflexivity.
  - vm_compute. reflexivity.
  - cbn [Fexp]. lia.
Qed.

Lemma max_f64_lt : IZR max_f64_Z < bmax.
Proof.
  rewrite <- (IZR_Zpower radix2 1024) by lia. apply IZR_lt.
  rewrite max_f64_Z_eq. change (radix2 ^ 1024)%Z with (2 ^ 1024)%Z.
  assert (0 < 2 ^ 971)%Z by (apply Z.pow_pos_nonneg; lia). lia.
Qed.

Lemma rnd64_bound : forall r, Rabs r <= IZR max_f64_Z -> Rabs (rnd64 r) < bmax.
Proof.
  intros r Hr. apply Rle_lt_trans with (IZR max_f64_Z); [|apply max_f64_lt].
  apply abs_round_le_generic; [typeclasses eauto|typeclasses eauto|apply max_f64_format|exact Hr].
Qed.

(** float64(z) for |z| up to the largest finite double: correctly rounded and finite.
    (The bound [Z.abs z < 2^1024] of the first draft of this statement is not enough:
    see [f_of_Z_overflow_example] below.) *)
Theorem f_of_Z_correct : forall z : Z, (Z.abs z <= max_f64_Z)%Z ->
  B2R (f_of_Z z) = rnd64 (IZR z) /\ is_finite (f_of_Z z) = true.
Proof.
  intros z Hz. pose proof (f_of_Z_correct_gen z) as H.
  rewrite Rlt_bool_true in H.
  - destruct H as (H1 & H2 & _). split; assumption.
  - apply rnd64_bound. rewrite <- abs_IZR. apply IZR_le. exact Hz.
Qed.

(** 2^1024 - 1 < 2^1024, yet float64 of it is +Inf (it rounds up to 2^1024). *)
Lemma f_of_Z_overflow_example : f_of_Z (2 ^ 1024 - 1) = B754_infinity false.
Proof. vm_compute. reflexivity. Qed.

(** every int64 is far below the overflow threshold *)
Corollary f_of_Z_int64 : forall z : Z, (- two63 <= z < two63)%Z ->
  B2R (f_of_Z z) = rnd64 (IZR z) /\ is_finite (f_of_Z z) = true.
Proof.
  intros z Hz. apply f_of_Z_correct.
  assert (two63 <= max_f64_Z)%Z by (vm_compute; discriminate). lia.
Qed.

Lemma small_int_format : forall z : Z, (Z.abs z <= 2 ^ 53)%Z ->
  generic_format radix2 fexp64 (IZR z).
Proof.
  intros z Hz.
  destruct (Z.eq_dec (Z.abs z) (2 ^ 53)) as [He|Hne].
  - assert (Hb : generic_format radix2 fexp64 (bpow radix2 53)).
    { apply generic_format_FLT_bpow; [typeclasses eauto|lia]. }
    rewrite <- (IZR_Zpower radix2 53) in Hb by lia.
    change (radix2 ^ 53)%Z with (2 ^ 53)%Z in Hb.
    destruct (Z.abs_eq_or_opp z) as [E|E]; rewrite E in He.
    + rewrite He. exact Hb.
    + replace z with (- 2 ^ 53)%Z by lia. rewrite opp_IZR.
      apply generic_format_opp. exact Hb.
  - apply generic_format_FLT.
    apply (FLT_spec radix2 (-1074) 53 _ (Float radix2 z 0)).
    + symmetry. apply F2R_exp0.
    + cbn [Fnum]. change (radix2 ^ 53)%Z with (2 ^ 53)%Z. lia.
    + cbn [Fexp]. lia.
Qed.

(** integers up to 2^53 in magnitude are represented exactly *)
Theorem f_of_Z_exact : forall z : Z, (Z.abs z <= 2 ^ 53)%Z ->
  B2R (f_of_Z z) = IZR z /\ is_finite (f_of_Z z) = true.
Proof.
  intros z Hz.
  assert (Hm : (2 ^ 53 <= max_f64_Z)%Z) by (vm_compute; discriminate).
  destruct (f_of_Z_correct z ltac:(lia)) as [H1 H2]. split; [|exact H2].
  rewrite H1. apply round_generic; [typeclasses eauto|]. apply small_int_format. exact Hz.
Qed.

(* ------------------------------------------------------------------ *)
(** * Decimal to double *)

(** the exact real value of the decimal [n * 10^x] *)
Definition dec_real (n x : Z) : R :=
  if (0 <=? x)%Z then IZR (n * 10 ^ x) else IZR n / IZR (10 ^ (- x)).

Lemma dec_real_powerRZ : forall n x, dec_real n x = IZR n * powerRZ 10 x.
Proof.
  intros n x. unfold dec_real. destruct (Z.leb_spec 0 x) as [H|H].
  - rewrite mult_IZR. f_equal.
    rewrite <- (Z2Nat.id x) at 1 by exact H. rewrite <- pow_IZR.
    rewrite pow_powerRZ. rewrite Z2Nat.id by exact H. reflexivity.
  - unfold Rdiv. f_equal.
    replace x with (- (- x))%Z at 2 by lia.
    rewrite powerRZ_neg'. f_equal.
    rewrite <- (Z2Nat.id (- x)) at 1 by lia. rewrite <- pow_IZR.
    rewrite pow_powerRZ. rewrite Z2Nat.id by lia. reflexivity.
Qed.

(** [dec_div (Zpos p) k]: the quotient p / 10^k read through Flocq's division. *)
Theorem dec_div_correct : forall (p : positive) (k : Z), (0 <= k)%Z ->
  let r := IZR (Zpos p) / IZR (10 ^ k) in
  if Rlt_bool (Rabs (rnd64 r)) bmax
  then B2R (dec_div (Zpos p) k) = rnd64 r /\ is_finite (dec_div (Zpos p) k) = true
  else dec_div (Zpos p) k = B754_infinity false.
Proof.
  intros p k Hk r. unfold dec_div.
  pose proof (pow10_pos k Hk) as Hq. unfold pow10 in *.
  destruct (10 ^ k)%Z as [|q|q] eqn:Eq; try lia.
  pose proof (proj2 (Bdiv_correct_aux prec emax Hprec Hmax mode_NE false p 0 false q 0)) as Hr.
  cbv zeta in Hr. simpl cond_Zopp in Hr. rewrite !F2R_exp0 in Hr.
  change (round_mode mode_NE) with ZnearestE in Hr.
  change (SpecFloat.fexp prec emax) with (FLT_exp (-1074) 53) in Hr.
  change (bpow radix2 emax) with bmax in Hr.
  subst r.
  destruct (Rlt_bool (Rabs (rnd64 (IZR (Z.pos p) / IZR (Z.pos q)))) bmax).
  - destruct Hr as (Hr1 & Hr2 & _). split.
    + rewrite B2R_SF2B. exact Hr1.
    + rewrite is_finite_SF2B. exact Hr2.
  - apply B2SF_infinity. rewrite B2SF_SF2B. rewrite Hr. reflexivity.
Qed.

(** The decimal reader: [dec_to_f64 n x] is the double nearest to the exact decimal
    value [n * 10^x] (ties to even); overflow is detected and gives +Inf. *)
Theorem dec_to_f64_correct : forall n x : Z, (0 <= n)%Z ->
  let r := dec_real n x in
  if Rlt_bool (Rabs (rnd64 r)) bmax
  then B2R (dec_to_f64 n x) = rnd64 r /\ is_finite (dec_to_f64 n x) = true
  else dec_to_f64 n x = B754_infinity false.
Proof.
  intros n x Hn r. subst r. unfold dec_to_f64, dec_real.
  destruct (Z.leb_spec 0 x) as [Hx|Hx].
  - pose proof (f_of_Z_correct_gen (n * pow10 x)) as H. unfold pow10 in *.
    destruct (Rlt_bool (Rabs (rnd64 (IZR (n * 10 ^ x)))) bmax).
    + destruct H as (H1 & H2 & _). split; assumption.
    + rewrite H. f_equal. apply Z.ltb_ge.
      apply Z.mul_nonneg_nonneg; [exact Hn|]. apply Z.pow_nonneg. lia.
  - destruct n as [|p|p]; [| |lia].
    + (* n = 0 *)
      unfold Rdiv. rewrite Rmult_0_l, rnd64_0, Rabs_R0.
      rewrite Rlt_bool_true by apply bmax_pos.
      split; reflexivity.
    + apply (dec_div_correct p (- x)). lia.
Qed.

(** the same statement with the format written as in IEEE terms, [emin = 3 - emax - prec] *)
Corollary dec_to_f64_correct_emin : forall n x : Z, (0 < n)%Z ->
  let r := dec_real n x in
  if Rlt_bool (Rabs (round radix2 (FLT_exp (3 - 1024 - 53) 53) ZnearestE r)) (bpow radix2 1024)
  then B2R (dec_to_f64 n x) = round radix2 (FLT_exp (3 - 1024 - 53) 53) ZnearestE r /\
       is_finite (dec_to_f64 n x) = true
  else dec_to_f64 n x = B754_infinity false.
Proof. intros n x Hn. exact (dec_to_f64_correct n x ltac:(lia)). Qed.

(** The same in propositional form. *)
Corollary dec_to_f64_finite : forall n x : Z, (0 <= n)%Z ->
  Rabs (rnd64 (dec_real n x)) < bmax ->
  B2R (dec_to_f64 n x) = rnd64 (dec_real n x) /\ is_finite (dec_to_f64 n x) = true.
Proof.
  intros n x Hn Hb. pose proof (dec_to_f64_correct n x Hn) as H. cbv zeta in H.
  rewrite Rlt_bool_true in H by exact Hb. exact H.
Qed.

Corollary dec_to_f64_overflow : forall n x : Z, (0 <= n)%Z ->
  bmax <= Rabs (rnd64 (dec_real n x)) -> dec_to_f64 n x = B754_infinity false.
Proof.
  intros n x Hn Hb. pose proof (dec_to_f64_correct n x Hn) as H. cbv zeta in H.
  rewrite Rlt_bool_false in H by exact Hb. exact H.
Qed.

(** the result is never NaN, a negative number or -0 *)
Corollary dec_to_f64_nonneg : forall n x : Z, (0 <= n)%Z ->
  dec_to_f64 n x = B754_infinity false \/
  (is_finite (dec_to_f64 n x) = true /\ 0 <= B2R (dec_to_f64 n x)).
Proof.
  intros n x Hn. pose proof (dec_to_f64_correct n x Hn) as H. cbv zeta in H.
  destruct (Rlt_bool (Rabs (rnd64 (dec_real n x))) bmax); [right|left; exact H].
  destruct H as [H1 H2]. split; [exact H2|]. rewrite H1.
  rewrite <- rnd64_0. apply round_le; [typeclasses eauto|typeclasses eauto|].
  rewrite dec_real_powerRZ. apply Rmult_le_pos; [apply IZR_le; exact Hn|].
  apply Rlt_le. apply powerRZ_lt. lra.
Qed.

(* ------------------------------------------------------------------ *)
(** * Source literals *)

(** the exact value of the literal with integer digits [ip] and fraction digits [fp] *)
Definition literal_real (ip fp : list N) : R :=
  IZR (digits_val (ip ++ fp)) / IZR (10 ^ Z.of_nat (length fp)).

Lemma literal_real_dec : forall ip fp,
  dec_real (digits_val (ip ++ fp)) (- Z.of_nat (length fp)) = literal_real ip fp.
Proof.
  intros ip fp. unfold dec_real, literal_real.
  destruct (Z.leb_spec 0 (- Z.of_nat (length fp))) as [H|H].
  - replace (Z.of_nat (length fp)) with 0%Z by lia. simpl (- 0)%Z.
    rewrite Z.pow_0_r, Z.mul_1_r. unfold Rdiv. rewrite Rinv_1. ring.
  - rewrite Z.opp_involutive. reflexivity.
Qed.

(** A literal that is accepted denotes the double nearest (ties to even) to its exact
    decimal value; it is rejected exactly when that rounding reaches 2^1024. *)
Theorem literal_value_spec : forall ip fp v,
  literal_value ip fp = Some v ->
  is_finite v = true /\ B2R v = rnd64 (literal_real ip fp).
Proof.
  intros ip fp v H. unfold literal_value, f_is_finite in H.
  pose proof (dec_to_f64_correct (digits_val (ip ++ fp)) (- Z.of_nat (length fp))
                (digits_val_nonneg _)) as Hc.
  cbv zeta in Hc. rewrite literal_real_dec in Hc.
  destruct (Rlt_bool (Rabs (rnd64 (literal_real ip fp))) bmax).
  - destruct Hc as [H1 H2]. rewrite H2 in H. inversion H; subst v. split; assumption.
  - rewrite Hc in H. simpl in H. discriminate.
Qed.

Theorem literal_value_none : forall ip fp,
  literal_value ip fp = None <-> bmax <= Rabs (rnd64 (literal_real ip fp)).
Proof.
  intros ip fp. unfold literal_value, f_is_finite.
  pose proof (dec_to_f64_correct (digits_val (ip ++ fp)) (- Z.of_nat (length fp))
                (digits_val_nonneg _)) as Hc.
  cbv zeta in Hc. rewrite literal_real_dec in Hc.
  destruct (Rlt_bool_spec (Rabs (rnd64 (literal_real ip fp))) bmax) as [Hlt|Hge].
  - destruct Hc as [H1 H2]. rewrite H2. split; [discriminate|]. intros Hge. lra.
  - rewrite Hc. simpl. split; [intros _; exact Hge|reflexivity].
Qed.

Corollary literal_value_some : forall ip fp,
  Rabs (rnd64 (literal_real ip fp)) < bmax -> exists v, literal_value ip fp = Some v.
Proof.
  intros ip fp H. destruct (literal_value ip fp) as [v|] eqn:E; [exists v; reflexivity|].
  apply literal_value_none in E. lra.
Qed.

(** The literal 0, 00, 0.0, ... is +0. *)
Lemma literal_value_zero : forall ip fp,
  digits_val (ip ++ fp) = 0%Z -> literal_value ip fp = Some (B754_zero false).
Proof.
  intros ip fp H. unfold literal_value, dec_to_f64. rewrite H.
  destruct (0 <=? - Z.of_nat (length fp))%Z; reflexivity.
Qed.

(** Script invariance of the literal value computed by the lexer: a numeral spelled
    with Bangla digits, ASCII digits or a mixture has one value. *)
Theorem literal_value_script_invariance : forall ip ip' fp fp',
  Forall2 same_digit ip ip' -> Forall2 same_digit fp fp' ->
  literal_value (translit_str ip) (translit_str fp) =
  literal_value (translit_str ip') (translit_str fp').
Proof.
  intros ip ip' fp fp' Hi Hf.
  rewrite (script_invariance _ _ Hi), (script_invariance _ _ Hf). reflexivity.
Qed.

(* ------------------------------------------------------------------ *)
(** * Doubles that are integers *)

Lemma bpow_nonneg_IZR : forall e, (0 <= e)%Z -> bpow radix2 e = IZR (2 ^ e).
Proof. intros e He. symmetry. apply (IZR_Zpower radix2). exact He. Qed.

Lemma bpow_neg_IZR : forall e, (e < 0)%Z -> bpow radix2 e = / IZR (2 ^ (- e)).
Proof.
  intros e He. replace e with (- (- e))%Z at 1 by lia.
  rewrite bpow_opp. rewrite bpow_nonneg_IZR by lia. reflexivity.
Qed.

Lemma pow2_pos : forall e, (0 <= e)%Z -> (0 < 2 ^ e)%Z.
Proof. intros e He. apply Z.pow_pos_nonneg; lia. Qed.

Lemma B2R_finite : forall s m e (Hb : SpecFloat.bounded prec emax m e = true),
  B2R (B754_finite s m e Hb) = IZR (cond_Zopp s (Zpos m)) * bpow radix2 e.
Proof. reflexivity. Qed.

Lemma cond_Zopp_mul : forall s a b, cond_Zopp s (a * b) = (cond_Zopp s a * b)%Z.
Proof. intros [|] a b; simpl; lia. Qed.

(** [f_to_Z] accepts exactly the finite doubles whose value is an integer, and returns it. *)
Theorem f_to_Z_spec : forall (a : f64) (z : Z),
  f_to_Z a = Some z <-> is_finite a = true /\ B2R a = IZR z.
Proof.
  intros a z. destruct a as [s|s| |s m e Hb].
  - cbn [f_to_Z is_finite B2R]. split.
    + intros H. inversion H. split; reflexivity.
    + intros [_ H]. apply (eq_IZR 0 z) in H. rewrite H. reflexivity.
  - cbn [f_to_Z is_finite]. split; [discriminate|intros [H _]; discriminate].
  - cbn [f_to_Z is_finite]. split; [discriminate|intros [H _]; discriminate].
  - cbn [f_to_Z is_finite]. rewrite B2R_finite.
    set (M := cond_Zopp s (Z.pos m)).
    destruct (Z.leb_spec 0 e) as [He|He].
    + rewrite cond_Zopp_mul. fold M.
      rewrite bpow_nonneg_IZR by exact He. rewrite <- mult_IZR. split.
      * intros H. inversion H. split; reflexivity.
      * intros [_ H]. apply eq_IZR in H. rewrite H. reflexivity.
    + rewrite bpow_neg_IZR by exact He.
      pose proof (pow2_pos (- e) ltac:(lia)) as HP.
      set (P := (2 ^ (- e))%Z) in *.
      assert (HPR : IZR P <> 0) by (apply not_0_IZR; lia).
      destruct (Z.eqb_spec (Z.pos m mod P) 0) as [Hm|Hm].
      * assert (HM : M = (cond_Zopp s (Z.pos m / P) * P)%Z).
        { unfold M. rewrite <- cond_Zopp_mul. f_equal.
          pose proof (Z.div_mod (Z.pos m) P ltac:(lia)) as Hdm. lia. }
        rewrite HM, mult_IZR. split.
        -- intros H. inversion H. split; [reflexivity|]. field. exact HPR.
        -- intros [_ H]. f_equal. apply eq_IZR. rewrite <- H. field. exact HPR.
      * split; [discriminate|]. intros [_ H]. exfalso. apply Hm.
        assert (HM : M = (z * P)%Z).
        { apply eq_IZR. rewrite mult_IZR, <- H. field. exact HPR. }
        assert (HM' : Z.pos m = (cond_Zopp s z * P)%Z).
        { rewrite <- cond_Zopp_mul, <- HM. unfold M. destruct s; simpl; reflexivity. }
        rewrite HM'. apply Z.mod_mul. lia.
Qed.

Corollary f_to_Z_some_finite : forall (a : f64) z, f_to_Z a = Some z -> is_finite a = true.
Proof. intros a z H. apply f_to_Z_spec in H. apply H. Qed.

(** [to_int64] accepts exactly the integral doubles in [-2^63, 2^63). *)
Theorem to_int64_spec : forall (a : f64) (z : Z),
  to_int64 a = Some z <->
  is_finite a = true /\ B2R a = IZR z /\ (- two63 <= z < two63)%Z.
Proof.
  intros a z. unfold to_int64. destruct (f_to_Z a) as [z'|] eqn:E.
  - apply f_to_Z_spec in E. destruct E as [Ef Er].
    destruct (Z.leb_spec (- two63) z') as [H1|H1], (Z.ltb_spec z' two63) as [H2|H2];
      cbn [andb].
    + split.
      * intros H. inversion H; subst z'. split; [exact Ef|split; [exact Er|lia]].
      * intros (_ & Hr & _). f_equal. apply eq_IZR. congruence.
    + split; [discriminate|]. intros (_ & Hr & Hz).
      assert (z = z') by (apply eq_IZR; congruence). lia.
    + split; [discriminate|]. intros (_ & Hr & Hz).
      assert (z = z') by (apply eq_IZR; congruence). lia.
    + split; [discriminate|]. intros (_ & Hr & Hz).
      assert (z = z') by (apply eq_IZR; congruence). lia.
  - split; [discriminate|]. intros (Hf & Hr & _).
    assert (E' : f_to_Z a = Some z) by (apply f_to_Z_spec; split; assumption).
    congruence.
Qed.

(** round trip: an int64 that is exactly representable comes back *)
Corollary to_int64_of_Z : forall z, (Z.abs z <= 2 ^ 53)%Z -> to_int64 (f_of_Z z) = Some z.
Proof.
  intros z Hz. apply to_int64_spec. destruct (f_of_Z_exact z Hz) as [H1 H2].
  split; [exact H2|split; [exact H1|]].
  assert (2 ^ 53 < two63)%Z by reflexivity. lia.
Qed.

(* ------------------------------------------------------------------ *)
(** * Arithmetic is Flocq's IEEE-754 arithmetic, round to nearest even *)

Theorem f_add_correct : forall a b : f64, is_finite a = true -> is_finite b = true ->
  if Rlt_bool (Rabs (rnd64 (B2R a + B2R b))) bmax
  then B2R (f_add a b) = rnd64 (B2R a + B2R b) /\ is_finite (f_add a b) = true /\
       Bsign (f_add a b) =
         match Rcompare (B2R a + B2R b) 0 with
         | Eq => Bsign a && Bsign b | Lt => true | Gt => false end
  else f_add a b = B754_infinity (Bsign a) /\ Bsign a = Bsign b.
Proof.
  intros a b Ha Hb. unfold f_add.
  pose proof (Bplus_correct prec emax Hprec Hmax mode_NE a b Ha Hb) as H.
  change (round_mode mode_NE) with ZnearestE in H.
  change (SpecFloat.fexp prec emax) with (FLT_exp (-1074) 53) in H.
  change (bpow radix2 emax) with bmax in H.
  destruct (Rlt_bool (Rabs (rnd64 (B2R a + B2R b))) bmax).
  - exact H.
  - destruct H as [H1 H2]. split; [|exact H2]. apply B2SF_infinity. exact H1.
Qed.

Theorem f_sub_correct : forall a b : f64, is_finite a = true -> is_finite b = true ->
  if Rlt_bool (Rabs (rnd64 (B2R a - B2R b))) bmax
  then B2R (f_sub a b) = rnd64 (B2R a - B2R b) /\ is_finite (f_sub a b) = true /\
       Bsign (f_sub a b) =
         match Rcompare (B2R a - B2R b) 0 with
         | Eq => Bsign a && negb (Bsign b) | Lt => true | Gt => false end
  else f_sub a b = B754_infinity (Bsign a) /\ Bsign a = negb (Bsign b).
Proof.
  intros a b Ha Hb. unfold f_sub.
  pose proof (Bminus_correct prec emax Hprec Hmax mode_NE a b Ha Hb) as H.
  change (round_mode mode_NE) with ZnearestE in H.
  change (SpecFloat.fexp prec emax) with (FLT_exp (-1074) 53) in H.
  change (bpow radix2 emax) with bmax in H.
  destruct (Rlt_bool (Rabs (rnd64 (B2R a - B2R b))) bmax).
  - exact H.
  - destruct H as [H1 H2]. split; [|exact H2]. apply B2SF_infinity. exact H1.
Qed.

Theorem f_mul_correct : forall a b : f64,
  if Rlt_bool (Rabs (rnd64 (B2R a * B2R b))) bmax
  then B2R (f_mul a b) = rnd64 (B2R a * B2R b) /\
       is_finite (f_mul a b) = is_finite a && is_finite b /\
       (is_nan (f_mul a b) = false -> Bsign (f_mul a b) = xorb (Bsign a) (Bsign b))
  else f_mul a b = B754_infinity (xorb (Bsign a) (Bsign b)).
Proof.
  intros a b. unfold f_mul.
  pose proof (Bmult_correct prec emax Hprec Hmax mode_NE a b) as H.
  change (round_mode mode_NE) with ZnearestE in H.
  change (SpecFloat.fexp prec emax) with (FLT_exp (-1074) 53) in H.
  change (bpow radix2 emax) with bmax in H.
  destruct (Rlt_bool (Rabs (rnd64 (B2R a * B2R b))) bmax).
  - exact H.
  - apply B2SF_infinity. exact H.
Qed.

Theorem f_div_correct : forall a b : f64, B2R b <> 0 ->
  if Rlt_bool (Rabs (rnd64 (B2R a / B2R b))) bmax
  then B2R (f_div a b) = rnd64 (B2R a / B2R b) /\
       is_finite (f_div a b) = is_finite a /\
       (is_nan (f_div a b) = false -> Bsign (f_div a b) = xorb (Bsign a) (Bsign b))
  else f_div a b = B754_infinity (xorb (Bsign a) (Bsign b)).
Proof.
  intros a b Hb. unfold f_div.
  pose proof (Bdiv_correct prec emax Hprec Hmax mode_NE a b Hb) as H.
  change (round_mode mode_NE) with ZnearestE in H.
  change (SpecFloat.fexp prec emax) with (FLT_exp (-1074) 53) in H.
  change (bpow radix2 emax) with bmax in H.
  destruct (Rlt_bool (Rabs (rnd64 (B2R a / B2R b))) bmax).
  - exact H.
  - apply B2SF_infinity. exact H.
Qed.

(** a finite double has a non-zero value iff it is not a zero *)
Lemma B2R_nonzero : forall a : f64, B2R a <> 0 <-> is_finite_strict a = true.
Proof.
  intros a. split.
  - apply is_finite_strict_B2R.
  - destruct a as [s|s| |s m e Hb]; try discriminate. intros _.
    rewrite B2R_finite. apply Rmult_integral_contrapositive_currified.
    + apply not_0_IZR. destruct s; discriminate.
    + apply Rgt_not_eq. apply bpow_gt_0.
Qed.

Theorem f_sqrt_correct : forall a : f64,
  B2R (f_sqrt a) = rnd64 (sqrt (B2R a)) /\
  is_finite (f_sqrt a) =
    match a with B754_zero _ => true | B754_finite false _ _ _ => true | _ => false end /\
  (is_nan (f_sqrt a) = false -> Bsign (f_sqrt a) = Bsign a).
Proof.
  intros a. unfold f_sqrt.
  pose proof (Bsqrt_correct prec emax Hprec Hmax mode_NE a) as H.
  change (round_mode mode_NE) with ZnearestE in H.
  change (SpecFloat.fexp prec emax) with (FLT_exp (-1074) 53) in H.
  exact H.
Qed.

Theorem f_neg_correct : forall a : f64, B2R (f_neg a) = - B2R a.
Proof. intros a. unfold f_neg. apply B2R_Bopp. Qed.

Theorem f_neg_finite : forall a : f64, is_finite (f_neg a) = is_finite a.
Proof. intros a. unfold f_neg. apply is_finite_Bopp. Qed.

Theorem f_abs_correct : forall a : f64, B2R (f_abs a) = Rabs (B2R a).
Proof. intros a. unfold f_abs. apply B2R_Babs. Qed.

Theorem f_abs_finite : forall a : f64, is_finite (f_abs a) = is_finite a.
Proof. intros a. unfold f_abs. apply is_finite_Babs. Qed.

(* ------------------------------------------------------------------ *)
(** * Comparisons *)

Theorem f_cmp_correct : forall a b : f64, is_finite a = true -> is_finite b = true ->
  f_cmp a b = Some (Rcompare (B2R a) (B2R b)).
Proof. intros a b Ha Hb. unfold f_cmp. apply Bcompare_correct; assumption. Qed.

Theorem f_ltb_correct : forall a b : f64, is_finite a = true -> is_finite b = true ->
  f_ltb a b = Rlt_bool (B2R a) (B2R b).
Proof.
  intros a b Ha Hb. unfold f_ltb, Rlt_bool. rewrite (f_cmp_correct a b Ha Hb).
  destruct (Rcompare (B2R a) (B2R b)); reflexivity.
Qed.

Theorem f_leb_correct : forall a b : f64, is_finite a = true -> is_finite b = true ->
  f_leb a b = Rle_bool (B2R a) (B2R b).
Proof.
  intros a b Ha Hb. unfold f_leb, Rle_bool. rewrite (f_cmp_correct a b Ha Hb).
  destruct (Rcompare (B2R a) (B2R b)); reflexivity.
Qed.

Theorem f_gtb_correct : forall a b : f64, is_finite a = true -> is_finite b = true ->
  f_gtb a b = Rlt_bool (B2R b) (B2R a).
Proof.
  intros a b Ha Hb. unfold f_gtb, Rlt_bool. rewrite (f_cmp_correct a b Ha Hb).
  rewrite (Rcompare_sym (B2R b) (B2R a)).
  destruct (Rcompare (B2R a) (B2R b)); reflexivity.
Qed.

Theorem f_geb_correct : forall a b : f64, is_finite a = true -> is_finite b = true ->
  f_geb a b = Rle_bool (B2R b) (B2R a).
Proof.
  intros a b Ha Hb. unfold f_geb, Rle_bool. rewrite (f_cmp_correct a b Ha Hb).
  rewrite (Rcompare_sym (B2R b) (B2R a)).
  destruct (Rcompare (B2R a) (B2R b)); reflexivity.
Qed.

Theorem f_eqb_correct : forall a b : f64, is_finite a = true -> is_finite b = true ->
  f_eqb a b = Req_bool (B2R a) (B2R b).
Proof.
  intros a b Ha Hb. unfold f_eqb, Req_bool. rewrite (f_cmp_correct a b Ha Hb).
  destruct (Rcompare (B2R a) (B2R b)); reflexivity.
Qed.

(** NaN is unordered with everything, itself included *)
Theorem f_cmp_nan_l : forall x : f64, f_cmp B754_nan x = None.
Proof. intros x. destruct x; reflexivity. Qed.
Theorem f_cmp_nan_r : forall x : f64, f_cmp x B754_nan = None.
Proof. intros x. destruct x as [s|s| |s m e Hb]; try reflexivity; destruct s; reflexivity. Qed.

Theorem f_eqb_nan : forall x : f64, f_eqb B754_nan x = false.
Proof. intros x. unfold f_eqb. rewrite f_cmp_nan_l. reflexivity. Qed.
Theorem f_eqb_nan_r : forall x : f64, f_eqb x B754_nan = false.
Proof. intros x. unfold f_eqb. rewrite f_cmp_nan_r. reflexivity. Qed.
Theorem f_ltb_nan : forall x : f64, f_ltb B754_nan x = false /\ f_ltb x B754_nan = false.
Proof. intros x. unfold f_ltb. rewrite f_cmp_nan_l, f_cmp_nan_r. split; reflexivity. Qed.
Theorem f_leb_nan : forall x : f64, f_leb B754_nan x = false /\ f_leb x B754_nan = false.
Proof. intros x. unfold f_leb. rewrite f_cmp_nan_l, f_cmp_nan_r. split; reflexivity. Qed.

(** +0 and -0 are equal *)
Theorem f_eqb_zero : forall s s', f_eqb (B754_zero s) (B754_zero s') = true.
Proof. intros s s'. reflexivity. Qed.

Theorem f_eqb_sym : forall a b : f64, f_eqb a b = f_eqb b a.
Proof.
  intros a b. unfold f_eqb, f_cmp. rewrite (Bcompare_swap _ _ a b).
  destruct (Bcompare a b) as [[| |]|]; reflexivity.
Qed.

Theorem f_cmp_refl : forall a : f64, a <> B754_nan -> f_cmp a a = Some Eq.
Proof.
  intros a Ha. destruct a as [s|s| |s m e Hb].
  - reflexivity.
  - destruct s; reflexivity.
  - exfalso. apply Ha. reflexivity.
  - rewrite f_cmp_correct by reflexivity. rewrite Rcompare_Eq; reflexivity.
Qed.

Theorem f_eqb_refl : forall a : f64, a <> B754_nan -> f_eqb a a = true.
Proof. intros a Ha. unfold f_eqb. rewrite (f_cmp_refl a Ha). reflexivity. Qed.

(** on finite doubles [f_eqb] is equality of values *)
Corollary f_eqb_true_iff : forall a b : f64, is_finite a = true -> is_finite b = true ->
  (f_eqb a b = true <-> B2R a = B2R b).
Proof.
  intros a b Ha Hb. rewrite (f_eqb_correct a b Ha Hb).
  destruct (Req_bool_spec (B2R a) (B2R b)) as [H|H]; split; auto; discriminate.
Qed.

Corollary f_ltb_true_iff : forall a b : f64, is_finite a = true -> is_finite b = true ->
  (f_ltb a b = true <-> B2R a < B2R b).
Proof.
  intros a b Ha Hb. rewrite (f_ltb_correct a b Ha Hb).
  destruct (Rlt_bool_spec (B2R a) (B2R b)) as [H|H]; split; auto; try discriminate. lra.
Qed.

(* ------------------------------------------------------------------ *)
(** * math.Round *)

Lemma round_FIX0 : forall (rnd : R -> Z) (x : R), round radix2 (FIX_exp 0) rnd x = IZR (rnd x).
Proof.
  intros rnd x. unfold round, scaled_mantissa, cexp, FIX_exp.
  simpl (- 0)%Z. simpl (bpow radix2 0). rewrite Rmult_1_r. apply F2R_exp0.
Qed.

(** [f_round] rounds to the nearest integer, halves away from zero; it is exact
    (never overflows, the result is a double). *)
Theorem f_round_correct : forall a : f64,
  B2R (f_round a) = IZR (ZnearestA (B2R a)) /\ is_finite (f_round a) = is_finite a.
Proof.
  intros a. unfold f_round.
  destruct (Bnearbyint_correct prec emax Hmax mode_NA a) as (H1 & H2 & _).
  split; [|exact H2]. rewrite H1. apply round_FIX0.
Qed.

(** the sign is kept (so math.Round(-0.4) = -0) *)
Theorem f_round_sign : forall a : f64,
  is_nan (f_round a) = false -> Bsign (f_round a) = Bsign a.
Proof.
  intros a. unfold f_round.
  destruct (Bnearbyint_correct prec emax Hmax mode_NA a) as (_ & _ & H3). exact H3.
Qed.

(** what "nearest, halves away from zero" means *)
Lemma ZnearestA_spec : forall x : R,
  Rabs (x - IZR (ZnearestA x)) <= / 2 /\
  (Rabs (x - IZR (ZnearestA x)) = / 2 -> Rabs x <= Rabs (IZR (ZnearestA x))).
Proof.
  intros x. split; [apply Znearest_half|].
  intros Hh. unfold Znearest in *.
  pose proof (Zfloor_lb x) as Hl. pose proof (Zfloor_ub x) as Hu.
  destruct (Rcompare_spec (x - IZR (Zfloor x)) (/ 2)) as [Hc|Hc|Hc].
  - rewrite Rabs_pos_eq in Hh by lra. lra.
  - assert (Hne : IZR (Zfloor x) <> x) by lra.
    pose proof (Zceil_floor_neq x Hne) as Hce.
    destruct (Z.leb_spec 0 (Zfloor x)) as [Hz|Hz].
    + rewrite Hce, plus_IZR. apply IZR_le in Hz.
      rewrite !Rabs_pos_eq by lra. lra.
    + assert (Hz' : IZR (Zfloor x) <= -1) by (apply IZR_le; lia).
      rewrite !Rabs_left1 by lra. lra.
  - assert (Hne : IZR (Zfloor x) <> x) by lra.
    pose proof (Zceil_floor_neq x Hne) as Hce.
    rewrite Hce, plus_IZR in Hh. rewrite Rabs_left1 in Hh by lra. lra.
Qed.

(* ------------------------------------------------------------------ *)
(** * The overflow threshold

    "The rounded value reaches 2^1024" is a condition on the exact value: it holds
    exactly from the midpoint between the largest double and 2^1024 on, that is from
    2^1024 - 2^970 (the midpoint itself rounds to the even neighbour, 2^1024). *)

Definition ovf_thr : Z := (2 ^ 54 - 1) * 2 ^ 970.

Lemma ovf_thr_eq : ovf_thr = (2 ^ 1024 - 2 ^ 970)%Z.
Proof. reflexivity. Qed.

Lemma mag_max_f64 : mag radix2 (IZR max_f64_Z) = 1024%Z :> Z.
Proof.
  apply mag_unique. rewrite <- abs_IZR. rewrite <- !(IZR_Zpower radix2) by lia.
  split; [apply IZR_le|apply IZR_lt]; vm_compute; [discriminate|reflexivity].
Qed.

Lemma mag_ovf_thr : mag radix2 (IZR ovf_thr) = 1024%Z :> Z.
Proof.
  apply mag_unique. rewrite <- abs_IZR. rewrite <- !(IZR_Zpower radix2) by lia.
  split; [apply IZR_le|apply IZR_lt]; vm_compute; [discriminate|reflexivity].
Qed.

Lemma max_f64_pos : 0 < IZR max_f64_Z.
Proof. apply IZR_lt. reflexivity. Qed.

Lemma succ_max_f64 : succ radix2 fexp64 (IZR max_f64_Z) = bmax.
Proof.
  rewrite succ_eq_pos by (apply Rlt_le, max_f64_pos).
  rewrite ulp_neq_0 by (apply Rgt_not_eq, max_f64_pos).
  unfold cexp. rewrite mag_max_f64. change (fexp64 1024) with 971%Z.
  rewrite <- !(IZR_Zpower radix2) by lia. rewrite <- plus_IZR.
  f_equal.
Qed.

Lemma midpoint_eq : (IZR max_f64_Z + bmax) / 2 = IZR ovf_thr.
Proof.
  rewrite <- (IZR_Zpower radix2 1024) by lia. rewrite <- plus_IZR.
  replace (max_f64_Z + radix2 ^ 1024)%Z with (2 * ovf_thr)%Z by reflexivity.
  rewrite mult_IZR. field.
Qed.

(** below the threshold the rounding stays finite ... *)
Lemma rnd64_below_thr : forall r, Rabs r < IZR ovf_thr -> Rabs (rnd64 r) < bmax.
Proof.
  intros r Hr. rewrite <- round_NE_abs by typeclasses eauto.
  apply Rle_lt_trans with (IZR max_f64_Z); [|apply max_f64_lt].
  apply round_N_le_midp; [typeclasses eauto|apply max_f64_format|].
  rewrite succ_max_f64, midpoint_eq. exact Hr.
Qed.

(** ... the threshold itself is a tie and goes to the even neighbour 2^1024 ... *)
Lemma rnd64_thr : rnd64 (IZR ovf_thr) = bmax.
Proof.
  unfold round, scaled_mantissa, cexp. rewrite mag_ovf_thr.
  change (fexp64 1024) with 971%Z.
  assert (Es : IZR ovf_thr * bpow radix2 (- (971)) = IZR (2 ^ 53 - 1) + / 2).
  { unfold ovf_thr. rewrite mult_IZR.
    replace (- (971))%Z with (- (970) + - (1))%Z by reflexivity.
    rewrite bpow_plus. rewrite (bpow_neg_IZR (- (970))) by lia.
    change (- - (970))%Z with 970%Z.
    change (bpow radix2 (- (1))) with (/ 2).
    replace (2 ^ 54 - 1)%Z with (2 * (2 ^ 53 - 1) + 1)%Z by reflexivity.
    rewrite plus_IZR, mult_IZR.
    assert (HP : IZR (2 ^ 970) <> 0).
    { apply not_0_IZR. pose proof (pow2_pos 970 ltac:(lia)). lia. }
    set (P := IZR (2 ^ 970)) in *. set (K := IZR (2 ^ 53 - 1)). field. exact HP. }
  rewrite Es.
  assert (Ef : Zfloor (IZR (2 ^ 53 - 1) + / 2) = (2 ^ 53 - 1)%Z).
  { apply Zfloor_imp. rewrite plus_IZR. lra. }
  assert (Ec : Zceil (IZR (2 ^ 53 - 1) + / 2) = (2 ^ 53)%Z).
  { rewrite Zceil_floor_neq; [rewrite Ef; reflexivity|]. rewrite Ef. lra. }
  unfold Znearest. rewrite Ef, Ec.
  rewrite Rcompare_Eq by ring.
  change (negb (Z.even (2 ^ 53 - 1))) with true. cbv iota.
  unfold F2R. cbn [Fnum Fexp].
  rewrite <- !(IZR_Zpower radix2) by lia. rewrite <- mult_IZR. f_equal.
Qed.

(** ... and from the threshold on the rounding reaches 2^1024. *)
Lemma rnd64_above_thr : forall r, IZR ovf_thr <= Rabs r -> bmax <= Rabs (rnd64 r).
Proof.
  intros r Hr. rewrite <- round_NE_abs by typeclasses eauto.
  rewrite <- rnd64_thr. apply round_le; [typeclasses eauto|typeclasses eauto|exact Hr].
Qed.

Theorem rnd64_overflow_iff : forall r, bmax <= Rabs (rnd64 r) <-> IZR ovf_thr <= Rabs r.
Proof.
  intros r. split.
  - intros H. destruct (Rle_or_lt (IZR ovf_thr) (Rabs r)) as [Hc|Hc]; [exact Hc|].
    apply rnd64_below_thr in Hc. lra.
  - apply rnd64_above_thr.
Qed.

(** float64(z): exact characterisation of when the conversion is finite *)
Theorem f_of_Z_correct_sharp : forall z : Z, (Z.abs z < 2 ^ 1024 - 2 ^ 970)%Z ->
  B2R (f_of_Z z) = rnd64 (IZR z) /\ is_finite (f_of_Z z) = true.
Proof.
  intros z Hz. pose proof (f_of_Z_correct_gen z) as H.
  rewrite Rlt_bool_true in H.
  - destruct H as (H1 & H2 & _). split; assumption.
  - apply rnd64_below_thr. rewrite <- abs_IZR. apply IZR_lt. rewrite ovf_thr_eq. exact Hz.
Qed.

Theorem f_of_Z_overflow : forall z : Z, (2 ^ 1024 - 2 ^ 970 <= Z.abs z)%Z ->
  f_of_Z z = B754_infinity (z <? 0)%Z.
Proof.
  intros z Hz. pose proof (f_of_Z_correct_gen z) as H.
  rewrite Rlt_bool_false in H; [exact H|].
  apply rnd64_above_thr. rewrite <- abs_IZR. apply IZR_le. rewrite ovf_thr_eq. exact Hz.
Qed.

(** a literal is out of range exactly when its exact value is at least 2^1024 - 2^970 *)
Theorem literal_value_none_iff : forall ip fp,
  literal_value ip fp = None <-> IZR ovf_thr <= literal_real ip fp.
Proof.
  intros ip fp. rewrite literal_value_none, rnd64_overflow_iff.
  assert (H0 : 0 <= literal_real ip fp).
  { unfold literal_real. apply Rmult_le_pos.
    - apply IZR_le. apply digits_val_nonneg.
    - apply Rlt_le, Rinv_0_lt_compat, IZR_lt. apply Z.pow_pos_nonneg; lia. }
  rewrite Rabs_pos_eq by exact H0. tauto.
Qed.

Print Assumptions dec_to_f64_correct.
Print Assumptions literal_value_spec.
Print Assumptions literal_value_none_iff.
Print Assumptions literal_value_script_invariance.
Print Assumptions to_int64_spec.
Print Assumptions f_of_Z_correct_sharp.
Print Assumptions f_add_correct.
Print Assumptions f_round_correct.
