(** The command line and the REPL (property C19, C20): exit status and streams of a
    script run, what ইনপুট reads, argument handling, the REPL as a map over lines,
    the kinds of events a run can emit. *)
From Borno Require Import Base Num Unicode Token Lexer Ast Parser Value Eval Cli.
From Borno Require Import EvalEqs ParserTotal ParserPrefix EvalMeta.
Open Scope N_scope.

(* ------------------------------------------------------------------ *)
(** * 1. A fatal parser result carries a diagnostic *)

(** a parse that ends with a fatal error has issued at least one diagnostic *)
Lemma parse_err_has_diag eofl f ts ds : pprogram eofl f ts = PErr ds -> ds <> [].
Proof.
  intros H. destruct (first_error_point eofl f ts ds H) as (pre & rem & ds0 & k & _ & E & _).
  rewrite E. intros C. apply app_eq_nil in C. destruct C as [_ C]. discriminate C.
Qed.

(** so "no tree" always comes with an explanation *)
Lemma parse_none_has_diag ts eofl : pr_prog (parse ts eofl) = None -> pr_diags (parse ts eofl) <> [].
Proof.
  unfold parse. pose proof (parse_total eofl ts) as NF.
  destruct (pprogram eofl (parse_fuel ts) ts) as [ss r ds|ds|] eqn:E; simpl.
  - discriminate.
  - intros _. eapply parse_err_has_diag; exact E.
  - exfalso. apply NF. reflexivity.
Qed.

(** the parse of a source text *)
Definition src_parse (src : list N) : parsed := parse (lx_tokens (lex src)) (lx_eof_line (lex src)).

(** "no lexical or syntax error" *)
Definition front_ok (src : list N) : Prop :=
  lx_diags (lex src) = [] /\ pr_diags (parse (lx_tokens (lex src)) (lx_eof_line (lex src))) = [].

Lemma front_ok_dec src : front_ok src \/ ~ front_ok src.
Proof.
  unfold front_ok. destruct (lx_diags (lex src)) as [|d ld].
  - destruct (pr_diags (parse (lx_tokens (lex src)) (lx_eof_line (lex src)))) as [|d pd].
    + left. split; reflexivity.
    + right. intros (_ & C). discriminate C.
  - right. intros (C & _). discriminate C.
Qed.

Lemma front_items_nil ld pd : front_items ld pd = [] -> ld = [] /\ pd = [].
Proof.
  unfold front_items. intros H. apply app_eq_nil in H. destruct H as (H1 & H2).
  split; [destruct ld|destruct pd]; try reflexivity; discriminate.
Qed.

(** every item the front end reports is a lexical or a syntax diagnostic *)
Definition is_front_item (d : stderr_item) : Prop :=
  (exists l x, d = DLex l x) \/ (exists x, d = DParse x).

Lemma front_items_kind ld pd : Forall is_front_item (front_items ld pd).
Proof.
  unfold front_items. apply Forall_app. split; apply Forall_forall; intros d Hin;
    apply in_map_iff in Hin; destruct Hin as (x & <- & _).
  - left. eauto.
  - right. eauto.
Qed.

Section CliFacts.
Variable libm : N -> f64 -> f64 -> f64.
Variable clock : f64.
Variable sched : N -> list (list N * value) -> list (list N * value).
Variable fuel : nat.

Notation run_source := (Cli.run_source libm clock sched fuel).
Notation run_file := (Cli.run_file libm clock sched fuel).
Notation repl_lines := (Cli.repl_lines libm clock sched fuel).
Notation repl := (Cli.repl libm clock sched fuel).
Notation main := (Cli.main libm clock sched fuel).
Notation run_stmts := (Eval.run_stmts libm clock sched).
Notation eval := (Eval.eval libm clock sched).
Notation eval_list := (Eval.eval_list libm clock sched).
Notation eval_props := (Eval.eval_props libm clock sched).
Notation exec := (Eval.exec libm clock sched).
Notation exec_var := (Eval.exec_var libm clock sched).
Notation exec_vars := (Eval.exec_vars libm clock sched).
Notation exec_list := (Eval.exec_list libm clock sched).
Notation exec_while := (Eval.exec_while libm clock sched).
Notation exec_for := (Eval.exec_for libm clock sched).
Notation call_native := (Eval.call_native libm clock sched).

(* ------------------------------------------------------------------ *)
(** * 2. Exit status and streams of a script run *)

(** what the evaluator's outcome becomes *)
Definition of_run (r : res unit) : run_result :=
  match r with
  | Ok _ s => RDone s
  | Err e l s => RRuntime e l s
  | Crash s => RCrash s
  | Fuel => RFuel
  | Stuck => RStuck
  end.

(** The pipeline has exactly two shapes: the text is rejected by the front end and
    nothing at all is run, or it is accepted, there is a tree, and the result is the
    evaluator's. *)
Lemma run_source_cases rp src stdin :
  (~ front_ok src /\
   run_source rp src stdin = RFront (lx_diags (lex src)) (pr_diags (src_parse src)) /\
   front_items (lx_diags (lex src)) (pr_diags (src_parse src)) <> []) \/
  (front_ok src /\ exists prog,
     pr_prog (src_parse src) = Some prog /\
     run_source rp src stdin = of_run (run_stmts fuel rp prog (init_state stdin))).
Proof.
  unfold Cli.run_source, front_ok, src_parse. cbv zeta.
  rewrite parse_never_out_of_fuel.
  pose proof (parse_none_has_diag (lx_tokens (lex src)) (lx_eof_line (lex src))) as PN.
  destruct (lx_diags (lex src)) as [|d ld].
  - destruct (pr_diags (parse (lx_tokens (lex src)) (lx_eof_line (lex src)))) as [|d pd].
    + destruct (pr_prog (parse (lx_tokens (lex src)) (lx_eof_line (lex src)))) as [prog|].
      * right. split; [split; reflexivity|]. exists prog. split; [reflexivity|].
        destruct (run_stmts fuel rp prog (init_state stdin)); reflexivity.
      * exfalso. apply PN; reflexivity.
    + left. split; [intros (_ & C); discriminate C|]. split; [reflexivity|].
      intros C. apply front_items_nil in C. destruct C as (_ & C). discriminate C.
  - left. split; [intros (C & _); discriminate C|]. split; [reflexivity|].
    intros C. apply front_items_nil in C. destruct C as (C & _). discriminate C.
Qed.

(** the parser's own budget is never the reason for a missing result *)
Lemma run_source_never_parse_fuel rp src stdin : run_source rp src stdin <> RParseFuel.
Proof.
  destruct (run_source_cases rp src stdin) as [(_ & E & _)|(_ & prog & _ & E)]; rewrite E.
  - discriminate.
  - destruct (run_stmts fuel rp prog (init_state stdin)); discriminate.
Qed.

Lemma run_source_front_iff rp src stdin :
  (exists ld pd, run_source rp src stdin = RFront ld pd) <-> ~ front_ok src.
Proof.
  destruct (run_source_cases rp src stdin) as [(NF & E & _)|(F & prog & _ & E)].
  - split; [intros _; exact NF|intros _; eauto].
  - split.
    + intros (ld & pd & E'). rewrite E' in E.
      destruct (run_stmts fuel rp prog (init_state stdin)); discriminate E.
    + intros NF. exfalso. apply NF. exact F.
Qed.

(** a rejected text: nothing is executed; the outcome is the front end's
    diagnostics on stderr, empty stdout, status 65 -- whatever the input, the
    oracles and the evaluation budget are *)
Theorem reject_runs_nothing src stdin :
  ~ front_ok src ->
  run_file src stdin =
    PExit (mkProc [] (front_items (lx_diags (lex src)) (pr_diags (src_parse src))) 65) /\
  front_items (lx_diags (lex src)) (pr_diags (src_parse src)) <> [].
Proof.
  intros NF. destruct (run_source_cases false src stdin) as [(_ & E & NE)|(F & _)].
  - split; [|exact NE]. unfold Cli.run_file. rewrite E. reflexivity.
  - exfalso. apply NF. exact F.
Qed.

(** the same in the existential form *)
Corollary reject_runs_nothing_ex src stdin :
  ~ front_ok src ->
  exists ld pd, run_file src stdin = PExit (mkProc [] (front_items ld pd) 65) /\ front_items ld pd <> [].
Proof. intros NF. destruct (reject_runs_nothing src stdin NF) as (E & NE). eauto. Qed.

(** an accepted text: the outcome is the evaluator's *)
Lemma accept_runs src stdin :
  front_ok src -> exists prog,
    pr_prog (src_parse src) = Some prog /\
    run_source false src stdin = of_run (run_stmts fuel false prog (init_state stdin)).
Proof.
  intros F. destruct (run_source_cases false src stdin) as [(NF & _)|(_ & H)]; [|exact H].
  exfalso. apply NF. exact F.
Qed.

(** the process result is the streams of the run *)
Lemma run_file_exit src stdin p :
  run_file src stdin = PExit p ->
  result_streams (run_source false src stdin) = Some (p_stdout p, p_stderr p, p_status p).
Proof.
  unfold Cli.run_file. destruct (result_streams (run_source false src stdin)) as [[[o e] st]|]; intros H.
  - inversion H; subst. reflexivity.
  - discriminate H.
Qed.

(** Classification.  A script run has no result only when *evaluation* ran out of
    budget or got stuck (the latter is excluded by the safety theorem); otherwise
    the process exits with one of four statuses. *)
Theorem run_file_cases src stdin :
  (exists p, run_file src stdin = PExit p /\
     (p_status p = 0 \/ p_status p = 65 \/ p_status p = 70 \/ p_status p = 2)) \/
  (front_ok src /\ exists prog, pr_prog (src_parse src) = Some prog /\
     ((run_file src stdin = PNoResult RFuel /\ run_stmts fuel false prog (init_state stdin) = Fuel) \/
      (run_file src stdin = PNoResult RStuck /\ run_stmts fuel false prog (init_state stdin) = Stuck))).
Proof.
  destruct (run_source_cases false src stdin) as [(NF & E & _)|(F & prog & P & E)].
  - left. eexists. split; [unfold Cli.run_file; rewrite E; reflexivity|]. simpl. auto.
  - unfold Cli.run_file. rewrite E.
    destruct (run_stmts fuel false prog (init_state stdin)) as [u s|e l s| | |s] eqn:R; simpl.
    + left. eexists. split; [reflexivity|]. simpl. auto.
    + left. eexists. split; [reflexivity|]. simpl. auto.
    + right. split; [exact F|]. exists prog. split; [exact P|]. left. split; [reflexivity|exact R].
    + right. split; [exact F|]. exists prog. split; [exact P|]. right. split; [reflexivity|exact R].
    + left. eexists. split; [reflexivity|]. simpl. auto.
Qed.

Corollary run_file_no_result src stdin w :
  run_file src stdin = PNoResult w ->
  front_ok src /\ w <> RParseFuel /\
  ((w = RFuel /\ run_source false src stdin = RFuel) \/ (w = RStuck /\ run_source false src stdin = RStuck)).
Proof.
  unfold Cli.run_file. pose proof (run_source_never_parse_fuel false src stdin) as NP.
  destruct (run_source_cases false src stdin) as [(NF & E & _)|(F & prog & P & E)].
  - rewrite E. simpl. discriminate.
  - destruct (run_source false src stdin) as [ld pd|s|e l s|s| | |] eqn:R; simpl; intros H;
      try discriminate H; inversion H; subst.
    + split; [exact F|]. split; [discriminate|]. left. split; reflexivity.
    + split; [exact F|]. split; [discriminate|]. right. split; reflexivity.
    + exfalso. apply NP. reflexivity.
Qed.

(** status 65 = the front end rejected the text *)
Theorem status_65_iff_front_error src stdin p :
  run_file src stdin = PExit p -> (p_status p = 65 <-> ~ front_ok src).
Proof.
  intros H. apply run_file_exit in H.
  destruct (run_source_cases false src stdin) as [(NF & E & _)|(F & prog & _ & E)]; rewrite E in H.
  - simpl in H. inversion H. split; [intros _; exact NF|reflexivity].
  - split.
    + intros S65. rewrite S65 in H.
      destruct (run_stmts fuel false prog (init_state stdin)); simpl in H; discriminate H.
    + intros NF. exfalso. apply NF. exact F.
Qed.

(** ... and then nothing was printed and stderr holds only lexical and syntax diagnostics *)
Theorem status_65_streams src stdin p :
  run_file src stdin = PExit p -> p_status p = 65 ->
  p_stdout p = [] /\ p_stderr p <> [] /\ Forall is_front_item (p_stderr p) /\
  p_stderr p = front_items (lx_diags (lex src)) (pr_diags (src_parse src)).
Proof.
  intros H S65. pose proof (proj1 (status_65_iff_front_error src stdin p H) S65) as NF.
  destruct (reject_runs_nothing src stdin NF) as (E & NE). rewrite E in H. inversion H; subst p. simpl.
  split; [reflexivity|]. split; [exact NE|]. split; [apply front_items_kind|reflexivity].
Qed.

(** status 0 = the program ran to its end *)
Theorem status_0_iff_clean src stdin p :
  run_file src stdin = PExit p ->
  (p_status p = 0 <-> exists s, run_source false src stdin = RDone s).
Proof.
  intros H. apply run_file_exit in H.
  destruct (run_source false src stdin) as [ld pd|s|e l s|s| | |]; simpl in H;
    inversion H as [[Ho He Hs]]; split; intros C;
    try discriminate C; try (rewrite <- Hs in C; discriminate C); try (destruct C as (s' & C); discriminate C); eauto.
Qed.

Theorem status_0_streams src stdin p :
  run_file src stdin = PExit p -> p_status p = 0 ->
  front_ok src /\ p_stderr p = [] /\
  exists s, run_source false src stdin = RDone s /\ p_stdout p = rev (out s).
Proof.
  intros H S0. destruct (proj1 (status_0_iff_clean src stdin p H) S0) as (s & R).
  apply run_file_exit in H. rewrite R in H. simpl in H. inversion H.
  split; [|split; [congruence|exists s; split; [exact R|congruence]]].
  destruct (front_ok_dec src) as [F|NF]; [exact F|].
  apply (run_source_front_iff false src stdin) in NF. destruct NF as (ld & pd & C).
  rewrite C in R. discriminate R.
Qed.

(** stderr is empty exactly when the status is 0 *)
Theorem stderr_empty_iff_0 src stdin p :
  run_file src stdin = PExit p -> (p_stderr p = [] <-> p_status p = 0).
Proof.
  intros H. pose proof H as H0. apply run_file_exit in H.
  destruct (run_source_cases false src stdin) as [(NF & E & NE)|(F & prog & _ & E)]; rewrite E in H.
  - simpl in H. inversion H. split; [intros C; exfalso; apply NE; congruence|intros C; discriminate C].
  - destruct (run_stmts fuel false prog (init_state stdin)); simpl in H; inversion H; split;
      try discriminate; reflexivity.
Qed.

(** status 70 = a runtime error: exactly one runtime diagnostic, and everything
    printed before it is kept *)
Theorem status_70_iff_runtime src stdin p :
  run_file src stdin = PExit p ->
  (p_status p = 70 <-> exists e l s, run_source false src stdin = RRuntime e l s).
Proof.
  intros H. apply run_file_exit in H.
  destruct (run_source false src stdin) as [ld pd|s|e l s|s| | |]; simpl in H;
    inversion H as [[Ho He Hs]]; split; intros C;
    try discriminate C; try (rewrite <- Hs in C; discriminate C); try (destruct C as (e' & l' & s' & C); discriminate C); eauto.
Qed.

Theorem status_70_streams src stdin p :
  run_file src stdin = PExit p -> p_status p = 70 ->
  front_ok src /\
  exists e l s, run_source false src stdin = RRuntime e l s /\
    p_stderr p = [DRuntime e l] /\ p_stdout p = rev (out s).
Proof.
  intros H S70. destruct (proj1 (status_70_iff_runtime src stdin p H) S70) as (e & l & s & R).
  apply run_file_exit in H. rewrite R in H. simpl in H. inversion H.
  split; [|exists e, l, s; split; [exact R|split; congruence]].
  destruct (front_ok_dec src) as [F|NF]; [exact F|].
  apply (run_source_front_iff false src stdin) in NF. destruct NF as (ld & pd & C).
  rewrite C in R. discriminate R.
Qed.

(** status 2 = the host dies printing a value that contains itself *)
Theorem status_2_iff_crash src stdin p :
  run_file src stdin = PExit p ->
  (p_status p = 2 <-> exists s, run_source false src stdin = RCrash s).
Proof.
  intros H. apply run_file_exit in H.
  destruct (run_source false src stdin) as [ld pd|s|e l s|s| | |]; simpl in H;
    inversion H as [[Ho He Hs]]; split; intros C;
    try discriminate C; try (rewrite <- Hs in C; discriminate C); try (destruct C as (s' & C); discriminate C); eauto.
Qed.

Theorem status_2_streams src stdin p :
  run_file src stdin = PExit p -> p_status p = 2 ->
  front_ok src /\
  exists s, run_source false src stdin = RCrash s /\ p_stderr p = [DGoCrash] /\ p_stdout p = rev (out s).
Proof.
  intros H S2. destruct (proj1 (status_2_iff_crash src stdin p H) S2) as (s & R).
  apply run_file_exit in H. rewrite R in H. simpl in H. inversion H.
  split; [|exists s; split; [exact R|split; congruence]].
  destruct (front_ok_dec src) as [F|NF]; [exact F|].
  apply (run_source_front_iff false src stdin) in NF. destruct NF as (ld & pd & C).
  rewrite C in R. discriminate R.
Qed.

(** a script never exits with another status *)
Theorem run_file_status src stdin p :
  run_file src stdin = PExit p ->
  p_status p = 0 \/ p_status p = 65 \/ p_status p = 70 \/ p_status p = 2.
Proof.
  intros H. destruct (run_file_cases src stdin) as [(p' & E & S)|(_ & prog & _ & [(E & _)|(E & _)])];
    rewrite E in H; try discriminate H. inversion H; subst. exact S.
Qed.

(* ------------------------------------------------------------------ *)
(** * 5. The command line *)

(** two or more arguments: the usage line on stdout, status 64, nothing is run *)
Theorem main_two_or_more_args args fs stdin :
  (2 <= length args)%nat -> main args fs stdin = PExit (mkProc [EvText s_usage] [] 64).
Proof.
  destruct args as [|a [|b r]]; simpl; intros L; try lia. reflexivity.
Qed.

(** one argument whose extension is not ".bn": the file is not even opened *)
Theorem main_bad_extension path fs stdin :
  str_eqb (filepath_ext path) ext_bn = false ->
  main [path] fs stdin = PExit (mkProc [EvText s_badext] [] 64).
Proof. intros E. unfold Cli.main. rewrite E. reflexivity. Qed.

(** a ".bn" path that cannot be read *)
Theorem main_unreadable path fs stdin :
  str_eqb (filepath_ext path) ext_bn = true -> fs path = FileErr ->
  main [path] fs stdin = PExit (mkProc [] [DFileError] 1).
Proof. intros E F. unfold Cli.main. rewrite E, F. reflexivity. Qed.

(** a readable ".bn" path: the script pipeline on its content *)
Theorem main_script path fs stdin src :
  str_eqb (filepath_ext path) ext_bn = true -> fs path = FileOk src ->
  main [path] fs stdin = run_file src stdin.
Proof. intros E F. unfold Cli.main. rewrite E, F. reflexivity. Qed.

(** no argument: the REPL *)
Theorem main_no_args fs stdin : main [] fs stdin = repl stdin.
Proof. reflexivity. Qed.

(** every exit status of the process *)
Theorem main_status args fs stdin p :
  main args fs stdin = PExit p ->
  p_status p = 0 \/ p_status p = 1 \/ p_status p = 2 \/ p_status p = 64 \/ p_status p = 65 \/ p_status p = 70.
Proof.
  destruct args as [|path [|b r]]; simpl.
  - unfold Cli.repl. destruct (repl_lines (scan_lines stdin)) as [[o e]|]; intros H; inversion H; simpl; auto.
  - destruct (str_eqb (filepath_ext path) ext_bn).
    + destruct (fs path) as [src|].
      * intros H. apply run_file_status in H. intuition.
      * intros H; inversion H; simpl; auto.
    + intros H; inversion H; simpl; auto 10.
  - intros H; inversion H; simpl; auto 10.
Qed.

(* ------------------------------------------------------------------ *)
(** * 6. The REPL *)

(** what one line contributes: its stdout events, its stderr items (and a status nobody looks at) *)
Definition respond (l : list N) : option (list event * list stderr_item * N) :=
  result_streams (run_source true l []).
Definition resp_out (l : list N) : list event :=
  match respond l with Some (o, _, _) => o | None => [] end.
Definition resp_err (l : list N) : list stderr_item :=
  match respond l with Some (_, e, _) => e | None => [] end.

(** a session that has a result: every line had one, stdout is the prompt-prefixed
    responses in order followed by a last prompt, stderr the concatenated diagnostics *)
Theorem repl_is_map_respond : forall ls o e,
  repl_lines ls = Some (o, e) ->
  Forall (fun l => respond l <> None) ls /\
  o = concat (map (fun l => EvPrompt s_prompt :: resp_out l) ls) ++ [EvPrompt s_prompt] /\
  e = concat (map resp_err ls).
Proof.
  induction ls as [|l ls IH]; intros o e H; simpl in H.
  - inversion H; subst. split; [constructor|]. split; reflexivity.
  - fold (respond l) in H. destruct (respond l) as [[[ol el] st]|] eqn:R; [|discriminate H].
    destruct (repl_lines ls) as [[o' e']|] eqn:RL; [|discriminate H].
    inversion H; subst. destruct (IH o' e' eq_refl) as (A & -> & ->).
    split; [constructor; [rewrite R; discriminate|exact A]|].
    unfold resp_out, resp_err. simpl. rewrite R. split; [|reflexivity].
    rewrite <- app_assoc. reflexivity.
Qed.

(** conversely a session in which every line has a result has one *)
Theorem repl_lines_total : forall ls,
  Forall (fun l => respond l <> None) ls ->
  repl_lines ls = Some (concat (map (fun l => EvPrompt s_prompt :: resp_out l) ls) ++ [EvPrompt s_prompt],
                        concat (map resp_err ls)).
Proof.
  induction ls as [|l ls IH]; intros A; simpl.
  - reflexivity.
  - inversion A as [|l' ls' Hl Hls]; subst. fold (respond l). rewrite (IH Hls).
    unfold resp_out, resp_err. destruct (respond l) as [[[ol el] st]|] eqn:R.
    + simpl. rewrite <- app_assoc. reflexivity.
    + exfalso. apply Hl. reflexivity.
Qed.

Corollary repl_lines_some_iff ls :
  repl_lines ls <> None <-> Forall (fun l => respond l <> None) ls.
Proof.
  split.
  - intros H. destruct (repl_lines ls) as [[o e]|] eqn:E; [|exfalso; apply H; reflexivity].
    apply (repl_is_map_respond ls o e E).
  - intros A. rewrite (repl_lines_total ls A). discriminate.
Qed.

(** The response to a line is the same after any history -- in particular after
    lines that failed -- and it is what the line produces as the first line of a
    fresh session. *)
Theorem line_independence h l o e :
  repl_lines (h ++ [l]) = Some (o, e) ->
  exists oh eh ol el st,
    repl_lines h = Some (oh ++ [EvPrompt s_prompt], eh) /\
    respond l = Some (ol, el, st) /\
    repl_lines [l] = Some (EvPrompt s_prompt :: ol ++ [EvPrompt s_prompt], el) /\
    o = oh ++ EvPrompt s_prompt :: ol ++ [EvPrompt s_prompt] /\
    e = eh ++ el.
Proof.
  intros H. destruct (repl_is_map_respond _ _ _ H) as (A & Ho & He).
  apply Forall_app in A. destruct A as (Ah & Al).
  inversion Al as [|l' ls' Hl _]; subst l' ls'.
  destruct (respond l) as [[[ol el] st]|] eqn:R; [|exfalso; apply Hl; reflexivity].
  exists (concat (map (fun l0 => EvPrompt s_prompt :: resp_out l0) h)), (concat (map resp_err h)), ol, el, st.
  split; [apply repl_lines_total; exact Ah|]. split; [reflexivity|].
  split.
  - simpl. fold (respond l). rewrite R. rewrite app_nil_r. reflexivity.
  - rewrite Ho, He. rewrite !map_app, !concat_app. simpl. unfold resp_out, resp_err. rewrite R.
    rewrite !app_nil_r. split; [|reflexivity]. rewrite <- app_assoc. reflexivity.
Qed.

(** the REPL always exits with status 0, whatever the lines did *)
Theorem repl_status_0 stdin p : repl stdin = PExit p -> p_status p = 0.
Proof.
  unfold Cli.repl. destruct (repl_lines (scan_lines stdin)) as [[o e]|]; intros H; inversion H. reflexivity.
Qed.

(** the session never stops early: stdout is, for every line of the input in order,
    the prompt and the line's response, then a final prompt at end of input *)
Theorem repl_never_stops_early stdin p :
  repl stdin = PExit p ->
  p_stdout p = concat (map (fun l => EvPrompt s_prompt :: resp_out l) (scan_lines stdin)) ++ [EvPrompt s_prompt] /\
  p_stderr p = concat (map resp_err (scan_lines stdin)).
Proof.
  unfold Cli.repl. destruct (repl_lines (scan_lines stdin)) as [[o e]|] eqn:E; intros H; inversion H; subst p.
  simpl. destruct (repl_is_map_respond _ _ _ E) as (_ & Ho & He). split; assumption.
Qed.

Definition is_repl_prompt (ev : event) : bool :=
  match ev with EvPrompt t => str_eqb t s_prompt | _ => false end.
Definition count_prompts (o : list event) : nat := length (filter is_repl_prompt o).

Lemma count_prompts_app a b : count_prompts (a ++ b) = (count_prompts a + count_prompts b)%nat.
Proof. unfold count_prompts. rewrite filter_app, app_length. reflexivity. Qed.

Lemma count_prompts_session (f : list N -> list event) : forall ls,
  count_prompts (concat (map (fun l => EvPrompt s_prompt :: f l) ls)) =
  (length ls + count_prompts (concat (map f ls)))%nat.
Proof.
  induction ls as [|l ls IH]; simpl; [reflexivity|].
  change (EvPrompt s_prompt :: f l ++ concat (map (fun l0 => EvPrompt s_prompt :: f l0) ls))
    with ([EvPrompt s_prompt] ++ f l ++ concat (map (fun l0 => EvPrompt s_prompt :: f l0) ls)).
  rewrite !count_prompts_app, IH.
  change (count_prompts [EvPrompt s_prompt]) with 1%nat. lia.
Qed.

(** the number of ">> " prompts on stdout: one per line, one at end of input, plus
    those the lines themselves wrote (ইনপুট(">> ") inside a line writes such an event) *)
Theorem repl_prompt_count stdin p :
  repl stdin = PExit p ->
  count_prompts (p_stdout p) =
    (length (scan_lines stdin) + 1 + count_prompts (concat (map resp_out (scan_lines stdin))))%nat.
Proof.
  intros H. destruct (repl_never_stops_early stdin p H) as (Ho & _). rewrite Ho.
  rewrite count_prompts_app, count_prompts_session.
  change (count_prompts [EvPrompt s_prompt]) with 1%nat. lia.
Qed.

Corollary repl_prompt_count_ge stdin p :
  repl stdin = PExit p -> (length (scan_lines stdin) + 1 <= count_prompts (p_stdout p))%nat.
Proof. intros H. rewrite (repl_prompt_count stdin p H). lia. Qed.

(* ------------------------------------------------------------------ *)
(** * 4. What ইনপুট reads *)

Lemma read_line_nl r : forall l,
  forallb (fun c => negb (c =? 10)) l = true -> read_line (l ++ 10 :: r) = (l ++ [10], r).
Proof.
  induction l as [|c l IH]; simpl; intros H; [reflexivity|].
  apply andb_prop in H. destruct H as (Hc & Hl).
  destruct (c =? 10); [discriminate Hc|]. rewrite (IH Hl). reflexivity.
Qed.

Lemma read_line_last : forall l,
  forallb (fun c => negb (c =? 10)) l = true -> read_line l = (l, []).
Proof.
  induction l as [|c l IH]; simpl; intros H; [reflexivity|].
  apply andb_prop in H. destruct H as (Hc & Hl).
  destruct (c =? 10); [discriminate Hc|]. rewrite (IH Hl). reflexivity.
Qed.

(** ইনপুট() takes exactly one line off the input: the text up to the first newline,
    trimmed, is the value; what follows the newline stays unread *)
Theorem input_consumes_one_line s l r :
  inp s = l ++ 10 :: r -> forallb (fun c => negb (c =? 10)) l = true ->
  call_native NInput [] s = NOk (VStr (trim_space (l ++ [10]))) (set_inp r s).
Proof.
  intros I H. unfold Eval.call_native. rewrite I, (read_line_nl r l H).
  destruct l; reflexivity.
Qed.

(** with a prompt: the prompt is written first *)
Theorem input_prompt_consumes_one_line s pr l r :
  inp s = l ++ 10 :: r -> forallb (fun c => negb (c =? 10)) l = true ->
  call_native NInput [VStr pr] s =
    NOk (VStr (trim_space (l ++ [10]))) (set_inp r (emit (EvPrompt pr) s)).
Proof.
  intros I H. unfold Eval.call_native.
  change (inp (emit (EvPrompt pr) s)) with (inp s). rewrite I, (read_line_nl r l H).
  destruct l; reflexivity.
Qed.

(** a last line without newline is still a line *)
Theorem input_last_line s l :
  inp s = l -> l <> [] -> forallb (fun c => negb (c =? 10)) l = true ->
  call_native NInput [] s = NOk (VStr (trim_space l)) (set_inp [] s).
Proof.
  intros I NE H. unfold Eval.call_native. rewrite I, (read_line_last l H).
  destruct l; [exfalso; apply NE; reflexivity|reflexivity].
Qed.

Theorem input_prompt_last_line s pr l :
  inp s = l -> l <> [] -> forallb (fun c => negb (c =? 10)) l = true ->
  call_native NInput [VStr pr] s = NOk (VStr (trim_space l)) (set_inp [] (emit (EvPrompt pr) s)).
Proof.
  intros I NE H. unfold Eval.call_native.
  change (inp (emit (EvPrompt pr) s)) with (inp s). rewrite I, (read_line_last l H).
  destruct l; [exfalso; apply NE; reflexivity|reflexivity].
Qed.

(** at end of input the call fails (after writing its prompt, if it has one) *)
Theorem input_at_eof s : inp s = [] -> call_native NInput [] s = NFail NfInputEOF.
Proof. intros I. unfold Eval.call_native. rewrite I. reflexivity. Qed.

Theorem input_prompt_at_eof s pr :
  inp s = [] ->
  call_native NInput [VStr pr] s = NFail NfInputEOF /\
  native_fail_state NInput [VStr pr] s = emit (EvPrompt pr) s.
Proof.
  intros I. unfold Eval.call_native. change (inp (emit (EvPrompt pr) s)) with (inp s).
  rewrite I. split; reflexivity.
Qed.

(* ------------------------------------------------------------------ *)
(** * 7. The REPL echo *)

(** in the REPL a bare expression statement writes exactly the text of its value *)
Theorem echo_bare_expression f e rho s v s1 t :
  eval f e rho s = Ok v s1 -> text_of s1 v = TOk t ->
  exec (S f) true (SExpr e) rho s = Ok SigNone (emit (EvEcho t) s1).
Proof. intros E T. rewrite exec_S, E. cbn [bind]. rewrite T. reflexivity. Qed.

(** in a script it writes nothing *)
Theorem no_echo_in_script f e rho s v s1 :
  eval f e rho s = Ok v s1 -> exec (S f) false (SExpr e) rho s = Ok SigNone s1.
Proof. intros E. rewrite exec_S, E. reflexivity. Qed.

(** দেখাও writes a print event, REPL or not *)
Theorem print_emits_print f rp e rho s v s1 t :
  eval f e rho s = Ok v s1 -> text_of s1 v = TOk t ->
  exec (S f) rp (SPrint e) rho s = Ok SigNone (emit (EvPrint t) s1).
Proof. intros E T. rewrite exec_S, E. cbn [bind]. rewrite T. reflexivity. Qed.

(** the other simple statement forms do not look at the REPL flag at all *)
Definition no_own_echo (st : stmt) : Prop :=
  match st with
  | SPrint _ | SVar _ | SVarList _ | SFun _ _ _ | SBreak _ | SContinue _ | SReturn _ _ => True
  | _ => False
  end.

Theorem echo_only_for_expression f st rho s :
  no_own_echo st -> exec f true st rho s = exec f false st rho s.
Proof.
  intros H. destruct f as [|f]; [reflexivity|]. rewrite !exec_S.
  destruct st; try contradiction; reflexivity.
Qed.

Theorem var_no_echo f rp d rho s : exec (S f) rp (SVar d) rho s = exec_var f d rho s.
Proof. rewrite exec_S. reflexivity. Qed.

Theorem break_no_echo f rp line rho s : exec (S f) rp (SBreak line) rho s = Ok (SigBreak line) s.
Proof. rewrite exec_S. reflexivity. Qed.

Theorem fun_no_echo f rp name ps body rho s sig s' :
  exec (S f) rp (SFun name ps body) rho s = Ok sig s' -> sig = SigNone /\ out s' = out s.
Proof.
  rewrite exec_S. unfold alloc_env, alloc_fun.
  match goal with |- context [env_define ?a ?b ?c ?d] => destruct (env_define a b c d) as [s3|] eqn:E end;
    intros H; inversion H; subst.
  split; [reflexivity|]. apply env_define_io in E. destruct E as (O & _). exact O.
Qed.

(* ------------------------------------------------------------------ *)
(** * 3. The kinds of events a run can emit *)

(** [ev_ok rp]: a print or a prompt; an echo only when [rp] (the REPL flag); never a fixed text line *)
Definition ev_ok (rp : bool) (ev : event) : bool :=
  match ev with EvPrint _ | EvPrompt _ => true | EvEcho _ => rp | EvText _ => false end.

Definition pgrows (rp : bool) (s s' : state) : Prop :=
  exists d, out s' = d ++ out s /\ forallb (ev_ok rp) d = true.

Lemma pgrows_refl rp s : pgrows rp s s.
Proof. exists []. split; reflexivity. Qed.

Lemma pgrows_trans rp s1 s2 s3 : pgrows rp s1 s2 -> pgrows rp s2 s3 -> pgrows rp s1 s3.
Proof.
  intros (d1 & O1 & F1) (d2 & O2 & F2). exists (d2 ++ d1). split.
  - rewrite O2, O1, app_assoc. reflexivity.
  - rewrite forallb_app, F1, F2. reflexivity.
Qed.

Lemma ev_ok_weaken rp ev : ev_ok false ev = true -> ev_ok rp ev = true.
Proof. destruct ev; simpl; intros H; try reflexivity; discriminate H. Qed.

Lemma pgrows_weaken rp s s' : pgrows false s s' -> pgrows rp s s'.
Proof.
  intros (d & O & F). exists d. split; [exact O|].
  rewrite forallb_forall in F |- *. intros ev Hin. apply ev_ok_weaken. apply F. exact Hin.
Qed.

Lemma pgrows_emit rp ev s : ev_ok rp ev = true -> pgrows rp s (emit ev s).
Proof. intros H. exists [ev]. split; [reflexivity|]. simpl. rewrite H. reflexivity. Qed.

Lemma sameio_pgrows rp s s' : sameio s s' -> pgrows rp s s'.
Proof. intros (O & _). exists []. split; [exact O|reflexivity]. Qed.

Ltac break_hyp H :=
  repeat match type of H with
  | context [match ?x with _ => _ end] => destruct x eqn:?; try discriminate H
  end.

(** a built-in writes at most its prompt *)
Lemma call_native_pgrows n args s v s' : call_native n args s = NOk v s' -> pgrows false s s'.
Proof.
  intros H. destruct n; simpl in H;
    unfold math1, min_max, alloc_arr, iterate_sorted in H.
  17: { destruct args as [|a [|b r]]; [| |discriminate H].
        - destruct (inp s) eqn:I; [discriminate H|]. rewrite <- I in H.
          destruct (read_line (inp s)) as [line rest] eqn:R. inversion H; subst.
          exists []. split; reflexivity.
        - destruct a as [| | |pr| | | |]; try discriminate H.
          remember (emit (EvPrompt pr) s) as s1 eqn:E1.
          destruct (inp s1) eqn:I; [discriminate H|]. rewrite <- I in H.
          destruct (read_line (inp s1)) as [line rest] eqn:R. inversion H; subst.
          exists [EvPrompt pr]. split; reflexivity. }
  all: break_hyp H; inversion H; subst; exists []; split; reflexivity.
Qed.

Lemma native_fail_pgrows n args s : pgrows false s (native_fail_state n args s).
Proof.
  unfold native_fail_state. destruct n; try apply pgrows_refl.
  repeat match goal with |- context [match ?x with _ => _ end] => destruct x end;
    try apply pgrows_refl; apply pgrows_emit; reflexivity.
Qed.

Definition PG {A} (rp : bool) (s : state) (r : res A) : Prop :=
  match r with Ok _ s' | Err _ _ s' | Crash s' => pgrows rp s s' | _ => True end.

Lemma PG_bind {A B} rp s (r : res A) (k : A -> state -> res B) :
  PG rp s r -> (forall a s1, PG rp s1 (k a s1)) -> PG rp s (bind r k).
Proof.
  intros H K. destruct r as [a s1|e l s1| | |s1]; simpl in *; try exact H; try exact I.
  specialize (K a s1). destruct (k a s1); simpl in *; try exact I; eapply pgrows_trans; eassumption.
Qed.

Lemma PG_trans {A} rp s s1 (r : res A) : pgrows rp s s1 -> PG rp s1 r -> PG rp s r.
Proof. intros G H. destruct r; simpl in *; try exact I; eapply pgrows_trans; eassumption. Qed.

Lemma PG_same {A} rp s s1 (r : res A) : sameio s s1 -> PG rp s1 r -> PG rp s r.
Proof. intros G. apply PG_trans. apply sameio_pgrows; exact G. Qed.

Lemma PG_weaken {A} rp s (r : res A) : PG false s r -> PG rp s r.
Proof. destruct r; simpl; try (intros; exact I); apply pgrows_weaken. Qed.

(** expressions (hence calls, which run their body with the flag off) emit only
    prints and prompts; statements may add echoes when the flag is on *)
Definition events_at (f : nat) : Prop :=
  (forall e rho s, PG false s (eval f e rho s)) /\
  (forall es rho s, PG false s (eval_list f es rho s)) /\
  (forall ps rho s, PG false s (eval_props f ps rho s)) /\
  (forall rp st rho s, PG rp s (exec f rp st rho s)) /\
  (forall d rho s, PG false s (exec_var f d rho s)) /\
  (forall ds rho s, PG false s (exec_vars f ds rho s)) /\
  (forall rp ss rho s, PG rp s (exec_list f rp ss rho s)) /\
  (forall rp c b rho s, PG rp s (exec_while f rp c b rho s)) /\
  (forall rp c inc b rho s, PG rp s (exec_for f rp c inc b rho s)).

Ltac pg_leaf :=
  simpl; first
    [ exact I
    | apply pgrows_refl
    | apply pgrows_emit; reflexivity
    | apply pgrows_weaken; apply native_fail_pgrows
    | apply pgrows_weaken; eapply call_native_pgrows; eassumption
    | apply sameio_pgrows;
      first [ eapply env_assign_io; eassumption
            | eapply env_define_io; eassumption
            | split; reflexivity ] ].

Ltac pg_go :=
  repeat first
    [ match goal with H : forall _, _ |- PG _ _ _ => apply H end
    | match goal with H : forall _, _ |- PG _ _ _ => apply PG_weaken; apply H end
    | match goal with |- PG _ _ (bind _ _) => apply PG_bind; [ | intros ? ? ] end
    | match goal with
      | E : alloc_env _ ?s = (_, ?s') |- PG ?rp ?s _ =>
          apply (PG_same rp s s'); [eapply alloc_env_io; exact E|]
      | E : alloc_arr _ ?s = (_, ?s') |- PG ?rp ?s _ =>
          apply (PG_same rp s s'); [eapply alloc_arr_io; exact E|]
      | E : alloc_obj _ ?s = (_, ?s') |- PG ?rp ?s _ =>
          apply (PG_same rp s s'); [eapply alloc_obj_io; exact E|]
      | E : alloc_fun _ ?s = (_, ?s') |- PG ?rp ?s _ =>
          apply (PG_same rp s s'); [eapply alloc_fun_io; exact E|]
      | E : env_define _ _ _ ?s = Some ?s' |- PG ?rp ?s (match _ with _ => _ end) =>
          apply (PG_same rp s s'); [eapply env_define_io; exact E|]
      | E : bind_params _ _ _ ?s = Some ?s' |- PG ?rp ?s _ =>
          apply (PG_same rp s s'); [eapply bind_params_io; exact E|]
      end
    | match goal with |- PG _ _ (match ?x with _ => _ end) => destruct x eqn:? end
    | progress unfold lift_ores
    | pg_leaf ].

Lemma events_all : forall f, events_at f.
Proof.
  induction f as [|f IH].
  - unfold events_at. repeat split; intros;
      rewrite ?eval_0, ?eval_list_0, ?eval_props_0, ?exec_0, ?exec_var_0, ?exec_vars_0,
        ?exec_list_0, ?exec_while_0, ?exec_for_0; exact I.
  - destruct IH as (Hev & Hel & Hep & Hex & Hxv & Hxvs & Hxl & Hxw & Hxf).
    unfold events_at.
    split; [|split; [|split; [|split; [|split; [|split; [|split; [|split]]]]]]].
    + intros e rho s. rewrite eval_S. destruct e; pg_go.
    + intros es rho s. rewrite eval_list_S. destruct es; pg_go.
    + intros ps rho s. rewrite eval_props_S. destruct ps as [|[k e] ps]; pg_go.
    + intros rp st rho s. rewrite exec_S. destruct st; pg_go.
    + intros d rho s. rewrite exec_var_S. destruct d as [[x init] line]; pg_go.
    + intros ds rho s. rewrite exec_vars_S. destruct ds; pg_go.
    + intros rp ss rho s. rewrite exec_list_S. destruct ss; pg_go.
    + intros rp c b rho s. rewrite exec_while_S. pg_go.
    + intros rp c inc b rho s. rewrite exec_for_S. pg_go.
Qed.

Lemma run_stmts_PG f rp : forall p s, PG rp s (run_stmts f rp p s).
Proof.
  destruct (events_all f) as (_ & _ & _ & Hex & _).
  induction p as [|st p IH]; intros s; simpl.
  - apply pgrows_refl.
  - apply PG_bind; [apply Hex|]. intros sig s1. destruct sig; simpl; try apply pgrows_refl. apply IH.
Qed.

Lemma PG_final {A} rp s (r : res A) s' : PG rp s r -> final_state r = Some s' -> pgrows rp s s'.
Proof. destruct r; simpl; intros G H; inversion H; subst; exact G. Qed.

(** Whatever a computation does and however it ends, the events it added to the
    output are prints and prompts -- plus echoes for statements run with the REPL
    flag on; a fixed text line ([EvText]) is never emitted by the evaluator. *)
Theorem events_kind f :
  (forall e rho s s', final_state (eval f e rho s) = Some s' -> pgrows false s s') /\
  (forall es rho s s', final_state (eval_list f es rho s) = Some s' -> pgrows false s s') /\
  (forall ps rho s s', final_state (eval_props f ps rho s) = Some s' -> pgrows false s s') /\
  (forall rp st rho s s', final_state (exec f rp st rho s) = Some s' -> pgrows rp s s') /\
  (forall d rho s s', final_state (exec_var f d rho s) = Some s' -> pgrows false s s') /\
  (forall ds rho s s', final_state (exec_vars f ds rho s) = Some s' -> pgrows false s s') /\
  (forall rp ss rho s s', final_state (exec_list f rp ss rho s) = Some s' -> pgrows rp s s') /\
  (forall rp c b rho s s', final_state (exec_while f rp c b rho s) = Some s' -> pgrows rp s s') /\
  (forall rp c inc b rho s s', final_state (exec_for f rp c inc b rho s) = Some s' -> pgrows rp s s') /\
  (forall rp p s s', final_state (run_stmts f rp p s) = Some s' -> pgrows rp s s').
Proof.
  destruct (events_all f) as (H1 & H2 & H3 & H4 & H5 & H6 & H7 & H8 & H9).
  do 9 (split; [intros; eapply PG_final; [|eassumption]; auto|]).
  intros rp p s s' H; eapply PG_final; [|exact H]. apply run_stmts_PG.
Qed.

Definition is_print_or_prompt (ev : event) : Prop :=
  (exists t, ev = EvPrint t) \/ (exists t, ev = EvPrompt t).

Lemma ev_ok_false_spec ev : ev_ok false ev = true -> is_print_or_prompt ev.
Proof. destruct ev; simpl; intros H; try discriminate H; [left|right]; eauto. Qed.

(** the stdout of one run of the pipeline, as a list of allowed events *)
Lemma result_streams_events rp src stdin o e st :
  result_streams (run_source rp src stdin) = Some (o, e, st) -> forallb (ev_ok rp) o = true.
Proof.
  destruct (run_source_cases rp src stdin) as [(_ & E & _)|(_ & prog & _ & E)]; rewrite E.
  - simpl. intros H; inversion H. reflexivity.
  - destruct (events_kind fuel) as (_ & _ & _ & _ & _ & _ & _ & _ & _ & G).
    specialize (G rp prog (init_state stdin)).
    destruct (run_stmts fuel rp prog (init_state stdin)) as [u s|er l s| | |s]; simpl;
      intros H; inversion H; subst;
      destruct (G s eq_refl) as (d & O & F); rewrite O; simpl; rewrite app_nil_r;
      rewrite forallb_forall in F |- *; intros ev Hin; apply F; apply in_rev; exact Hin.
Qed.

(** C19: the stdout of a script run consists of prints and ইনপুট prompts only *)
Theorem stdout_is_prints_and_prompts src stdin p :
  run_file src stdin = PExit p -> Forall is_print_or_prompt (p_stdout p).
Proof.
  intros H. apply run_file_exit in H. apply result_streams_events in H.
  apply Forall_forall. intros ev Hin. apply ev_ok_false_spec.
  rewrite forallb_forall in H. apply H. exact Hin.
Qed.

(** C20: the stdout of a REPL session consists of prompts, prints and echoes *)
Theorem repl_stdout_events stdin p :
  repl stdin = PExit p -> forallb (ev_ok true) (p_stdout p) = true.
Proof.
  intros H. destruct (repl_never_stops_early stdin p H) as (-> & _).
  rewrite forallb_app. simpl. rewrite andb_true_r.
  induction (scan_lines stdin) as [|l ls IH]; simpl; [reflexivity|].
  rewrite forallb_app, IH, andb_true_r.
  unfold resp_out, respond. destruct (result_streams (run_source true l [])) as [[[o e] st]|] eqn:R; [|reflexivity].
  eapply result_streams_events; exact R.
Qed.

End CliFacts.

(* ------------------------------------------------------------------ *)
(** * strings.TrimSpace *)

Lemma drop_space_split : forall t, exists a, t = a ++ drop_space t /\ forallb is_space a = true.
Proof.
  induction t as [|c t (a & E & F)]; simpl.
  - exists []. split; reflexivity.
  - destruct (is_space c) eqn:C.
    + exists (c :: a). split; [simpl; f_equal; exact E|simpl; rewrite C; exact F].
    + exists []. split; reflexivity.
Qed.

Lemma drop_space_head : forall t, match drop_space t with c :: _ => is_space c = false | [] => True end.
Proof.
  induction t as [|c t IH]; simpl; [exact I|].
  destruct (is_space c) eqn:C; [exact IH|exact C].
Qed.

(** [trim_space t] is [t] without a leading and a trailing run of white space, and
    neither begins nor ends with a white-space character *)
Theorem trim_space_spec t :
  (exists a b, t = a ++ trim_space t ++ b /\ forallb is_space a = true /\ forallb is_space b = true) /\
  match trim_space t with c :: _ => is_space c = false | [] => True end /\
  match rev (trim_space t) with c :: _ => is_space c = false | [] => True end.
Proof.
  unfold trim_space.
  destruct (drop_space_split t) as (a & Et & Fa).
  destruct (drop_space_split (rev (drop_space t))) as (b' & Eu & Fb).
  assert (Eu' : drop_space t = rev (drop_space (rev (drop_space t))) ++ rev b').
  { rewrite <- rev_app_distr, <- Eu, rev_involutive. reflexivity. }
  split; [|split].
  - exists a, (rev b'). split; [|split; [exact Fa|]].
    + rewrite <- Eu'. exact Et.
    + rewrite forallb_forall in Fb |- *. intros c Hin. apply Fb. apply in_rev. exact Hin.
  - pose proof (drop_space_head t) as Hd. rewrite Eu' in Hd.
    destruct (rev (drop_space (rev (drop_space t)))) as [|c r]; [exact I|exact Hd].
  - rewrite rev_involutive. apply drop_space_head.
Qed.

Lemma drop_space_app_nl : forall l,
  drop_space (l ++ [10]) = match drop_space l with [] => [] | d => d ++ [10] end.
Proof.
  induction l as [|c l IH]; simpl; [reflexivity|].
  destruct (is_space c); [exact IH|reflexivity].
Qed.

(** the newline that ends an input line is trimmed with the rest *)
Theorem trim_space_newline l : trim_space (l ++ [10]) = trim_space l.
Proof.
  unfold trim_space. rewrite drop_space_app_nl.
  destruct (drop_space l) as [|c d]; [reflexivity|].
  rewrite rev_app_distr. reflexivity.
Qed.

(* ------------------------------------------------------------------ *)
(** * filepath.Ext *)

Lemma ext_rev_skip rest : forall l acc,
  (forall c, In c l -> c <> 46 /\ c <> 47) -> ext_rev (l ++ rest) acc = ext_rev rest (rev l ++ acc).
Proof.
  induction l as [|c l IH]; intros acc H; simpl; [reflexivity|].
  destruct (H c (or_introl eq_refl)) as (H46 & H47).
  apply N.eqb_neq in H46, H47. rewrite H46, H47.
  rewrite IH by (intros c' Hin; apply H; right; exact Hin).
  rewrite <- app_assoc. reflexivity.
Qed.

(** the extension is the suffix from the last '.' of the last path element *)
Theorem ext_spec d e :
  (forall c, In c e -> c <> 46 /\ c <> 47) -> filepath_ext (d ++ 46 :: e) = 46 :: e.
Proof.
  intros H. unfold filepath_ext. rewrite rev_app_distr. simpl. rewrite <- app_assoc. simpl.
  rewrite ext_rev_skip by (intros c Hin; apply H; apply in_rev; exact Hin).
  simpl. rewrite rev_involutive, app_nil_r. reflexivity.
Qed.

Lemma ext_rev_no_dot : forall l acc, ~ In 46 l -> ext_rev l acc = [].
Proof.
  induction l as [|c l IH]; intros acc H; simpl; [reflexivity|].
  destruct (c =? 47); [reflexivity|].
  destruct (c =? 46) eqn:C; [apply N.eqb_eq in C; subst; exfalso; apply H; left; reflexivity|].
  apply IH. intros Hin. apply H. right. exact Hin.
Qed.

Lemma ext_rev_no_dot_slash rest : forall l acc, ~ In 46 l -> ext_rev (l ++ 47 :: rest) acc = [].
Proof.
  induction l as [|c l IH]; intros acc H; simpl; [reflexivity|].
  destruct (c =? 47); [reflexivity|].
  destruct (c =? 46) eqn:C; [apply N.eqb_eq in C; subst; exfalso; apply H; left; reflexivity|].
  apply IH. intros Hin. apply H. right. exact Hin.
Qed.

(** no '.' in the path, or none after the last '/': no extension *)
Theorem ext_none p : ~ In 46 p -> filepath_ext p = [].
Proof. intros H. apply ext_rev_no_dot. intros Hin. apply H. apply in_rev. exact Hin. Qed.

Theorem ext_none_last_element d e : ~ In 46 e -> filepath_ext (d ++ 47 :: e) = [].
Proof.
  intros H. unfold filepath_ext. rewrite rev_app_distr. simpl. rewrite <- app_assoc. simpl.
  apply ext_rev_no_dot_slash. intros Hin. apply H. apply in_rev. exact Hin.
Qed.

(** "x.bn", "x.BN", "x.bn.txt", ".bn", "x", "d.bn/x", "dir/p.bn" *)
Example ext_ex1 : str_eqb (filepath_ext [120;46;98;110]) ext_bn = true. Proof. vm_compute. reflexivity. Qed.
Example ext_ex2 : str_eqb (filepath_ext [120;46;66;78]) ext_bn = false. Proof. vm_compute. reflexivity. Qed.
Example ext_ex3 : filepath_ext [120;46;98;110;46;116;120;116] = [46;116;120;116]. Proof. vm_compute. reflexivity. Qed.
Example ext_ex4 : str_eqb (filepath_ext [46;98;110]) ext_bn = true. Proof. vm_compute. reflexivity. Qed.
Example ext_ex5 : filepath_ext [120] = []. Proof. vm_compute. reflexivity. Qed.
Example ext_ex6 : filepath_ext [100;46;98;110;47;120] = []. Proof. vm_compute. reflexivity. Qed.
Example ext_ex7 : str_eqb (filepath_ext [100;105;114;47;112;46;98;110]) ext_bn = true. Proof. vm_compute. reflexivity. Qed.

(* ------------------------------------------------------------------ *)
(** * 8. bufio.ScanLines *)

Definition no_nl (l : list N) : Prop := forallb (fun c => negb (c =? 10)) l = true.
Definition no_cr_end (l : list N) : Prop := forall p, l <> p ++ [13].

Lemma split_lines_line rest : forall l cur,
  no_nl l -> split_lines_aux (l ++ 10 :: rest) cur = (rev cur ++ l) :: split_lines_aux rest [].
Proof.
  unfold no_nl. induction l as [|c l IH]; intros cur H; simpl.
  - rewrite app_nil_r. reflexivity.
  - simpl in H. apply andb_prop in H. destruct H as (Hc & Hl).
    destruct (c =? 10); [discriminate Hc|]. rewrite (IH (c :: cur) Hl). simpl.
    rewrite <- app_assoc. reflexivity.
Qed.

Lemma split_lines_last : forall l cur,
  no_nl l -> rev cur ++ l <> [] -> split_lines_aux l cur = [rev cur ++ l].
Proof.
  unfold no_nl. induction l as [|c l IH]; intros cur H NE; simpl.
  - rewrite app_nil_r in NE |- *. destruct cur; [exfalso; apply NE; reflexivity|reflexivity].
  - simpl in H. apply andb_prop in H. destruct H as (Hc & Hl).
    destruct (c =? 10); [discriminate Hc|].
    rewrite (IH (c :: cur) Hl); simpl; rewrite <- app_assoc; [reflexivity|exact NE].
Qed.

Lemma split_lines_lines tail : forall ls,
  Forall no_nl ls ->
  split_lines_aux (concat (map (fun l => l ++ [10]) ls) ++ tail) [] = ls ++ split_lines_aux tail [].
Proof.
  induction ls as [|l ls IH]; intros H; simpl; [reflexivity|].
  inversion H as [|l' ls' Hl Hls]; subst.
  rewrite <- !app_assoc. simpl. rewrite (split_lines_line _ l [] Hl). simpl. f_equal. apply IH. exact Hls.
Qed.

Lemma drop_cr_id l : no_cr_end l -> drop_cr l = l.
Proof.
  unfold no_cr_end, drop_cr. intros H. destruct (rev l) as [|c r] eqn:E; [reflexivity|].
  destruct (c =? 13) eqn:C; [|reflexivity].
  apply N.eqb_eq in C. subst c. exfalso. apply (H (rev r)).
  rewrite <- (rev_involutive l), E. reflexivity.
Qed.

(** a carriage return before the newline is dropped with it *)
Lemma drop_cr_crlf p : drop_cr (p ++ [13]) = p.
Proof. unfold drop_cr. rewrite rev_app_distr. simpl. apply rev_involutive. Qed.

Lemma map_drop_cr_id ls : Forall no_cr_end ls -> map drop_cr ls = ls.
Proof.
  induction ls as [|l ls IH]; intros H; simpl; [reflexivity|].
  inversion H as [|l' ls' Hl Hls]; subst. rewrite (drop_cr_id l Hl), (IH Hls). reflexivity.
Qed.

(** newline-terminated lines are returned as they are *)
Theorem scan_lines_spec ls :
  Forall no_nl ls -> Forall no_cr_end ls ->
  scan_lines (concat (map (fun l => l ++ [10]) ls)) = ls.
Proof.
  intros H1 H2. unfold scan_lines.
  rewrite <- (app_nil_r (concat _)), (split_lines_lines [] ls H1). simpl. rewrite app_nil_r.
  apply map_drop_cr_id. exact H2.
Qed.

(** ... and a last non-empty line without newline is still returned *)
Theorem scan_lines_spec_last ls last :
  Forall no_nl ls -> Forall no_cr_end ls -> no_nl last -> no_cr_end last -> last <> [] ->
  scan_lines (concat (map (fun l => l ++ [10]) ls) ++ last) = ls ++ [last].
Proof.
  intros H1 H2 L1 L2 NE. unfold scan_lines.
  rewrite (split_lines_lines last ls H1), (split_lines_last last [] L1 NE). simpl.
  apply map_drop_cr_id. apply Forall_app. split; [exact H2|constructor; [exact L2|constructor]].
Qed.

Theorem scan_lines_crlf ls :
  Forall no_nl ls -> 
  scan_lines (concat (map (fun l => l ++ [10]) ls)) = map drop_cr ls.
Proof.
  intros H1. unfold scan_lines.
  rewrite <- (app_nil_r (concat _)), (split_lines_lines [] ls H1). simpl. rewrite app_nil_r. reflexivity.
Qed.

(* ------------------------------------------------------------------ *)
(** * A counter-example: the number of ">> " events is not [lines + 1]

    The one-line session  ইনপুট(">> ");  shows three ">> " prompt events for one
    line: the REPL's prompt, the prompt ইনপুট writes before it finds the input at
    its end, and the final prompt.  ([repl_prompt_count] is the exact count.) *)
Definition ex_input_line : list N := [2439;2472;2474;2497;2463;40;34;62;62;32;34;41;59].

Example repl_prompt_count_counterexample :
  Cli.repl (fun _ x _ => x) f_zero (fun _ l => l) 50 (ex_input_line ++ [10]) =
  PExit (mkProc [EvPrompt s_prompt; EvPrompt s_prompt; EvPrompt s_prompt]
                [DRuntime (RCallFailed NfInputEOF) 1] 0).
Proof. vm_compute. reflexivity. Qed.

Print Assumptions parse_none_has_diag.
Print Assumptions run_file_cases.
Print Assumptions status_65_iff_front_error.
Print Assumptions reject_runs_nothing.
Print Assumptions stdout_is_prints_and_prompts.
Print Assumptions line_independence.
Print Assumptions repl_never_stops_early.
Print Assumptions input_consumes_one_line.
Print Assumptions scan_lines_spec.
Print Assumptions main_status.
