(** The digits printed for a double are the SHORTEST decimal that reads back as it.

    Level 1 (Proofs/NumShortestDefs.v, integers/rationals only): the digits found by
    [shortest_from] lie in the rounding interval computed by [interval], and no decimal in
    that interval has fewer significant digits.
    This file: (a) the same for [shortest_digits f] on a double [f];
               (b) Level 2 (Flocq): a decimal that [dec_to_f64] reads back as |f| lies in that
                   interval, hence has at least as many significant digits as the printed one. *)
From Coq Require Import ZArith NArith List Bool Lia QArith Reals Lra.
From Flocq Require Import Core BinarySingleNaN.
From Borno Require Import Base Num NumFacts NumPrint NumShortestDefs.
Import ListNotations.
Open Scope Z_scope.

(* ------------------------------------------------------------------ *)
(** * From [bounded] to the range of binary exponents *)

Lemma digits2_pos_size : forall p, SpecFloat.digits2_pos p = Pos.size p.
Proof. induction p as [p IH|p IH|]; cbn; [rewrite IH|rewrite IH|]; reflexivity. Qed.

Lemma digits2_log2 : forall m, Zpos (SpecFloat.digits2_pos m) = Z.log2 (Zpos m) + 1.
Proof.
  intros m. rewrite digits2_pos_size. destruct m as [p|p|]; cbn [Pos.size Z.log2]; lia.
Qed.

(** a valid double m*2^e has -1074 <= e <= 971 and m < 2^53 *)
Lemma bounded_range : forall m e, SpecFloat.bounded prec emax m e = true ->
  -1074 <= e <= 971 /\ 0 <= Z.log2 (Zpos m) <= 52 /\
  e = Z.max (Z.log2 (Zpos m) + 1 + e - 53) (-1074).
Proof.
  intros m e Hb. unfold SpecFloat.bounded in Hb. apply andb_true_iff in Hb.
  destruct Hb as [Hc He]. apply Z.leb_le in He.
  unfold SpecFloat.canonical_mantissa in Hc. apply Zeq_bool_eq in Hc.
  unfold SpecFloat.fexp, SpecFloat.emin in Hc. rewrite digits2_log2 in Hc.
  unfold prec, emax in *. pose proof (Z.log2_nonneg (Zpos m)). lia.
Qed.

Corollary bounded_log2_range : forall m e, SpecFloat.bounded prec emax m e = true ->
  -1074 <= Z.log2 (Zpos m) + e <= 1023.
Proof. intros m e Hb. pose proof (bounded_range m e Hb). lia. Qed.

(* ------------------------------------------------------------------ *)
(** * Level 1 on doubles *)

(** Is the decimal d * 10^x inside the rounding interval of |f| (as computed by the model)? *)
Definition in_f64_interval (f : f64) (d x : Z) : bool :=
  match f with
  | B754_finite _ m e _ =>
      let '(lo, mid, hi, den, incl) := interval m e in in_interval lo hi den incl d x
  | _ => false
  end.

(** the printed digits are in the interval ... *)
Theorem shortest_digits_in_interval : forall (f : f64) d x,
  shortest_digits f = Some (d, x) -> 0 < d /\ in_f64_interval f d x = true.
Proof.
  intros f d x H. destruct f as [s|s| |s m e Hb]; try discriminate.
  cbn [shortest_digits] in H.
  destruct (shortest_candidate m e) as [[d0 x0]|] eqn:Ec; [|discriminate].
  destruct (f_same (dec_to_f64 d0 x0) (Babs (B754_finite s m e Hb))); [|discriminate].
  injection H as -> ->.
  pose proof (shortest_candidate_minimal m e d x (bounded_log2_range m e Hb) Ec) as Hm.
  cbn [in_f64_interval].
  destruct (interval m e) as [[[[lo mid] hi] den] incl].
  destruct Hm as (Hd & Hin & _). split; assumption.
Qed.

(** ... and no decimal in the interval has fewer significant digits. *)
Theorem shortest_digits_minimal_interval : forall (f : f64) d x,
  shortest_digits f = Some (d, x) ->
  forall d' x', 0 < d' -> in_f64_interval f d' x' = true -> sigdigits d <= sigdigits d'.
Proof.
  intros f d x H d' x' Hd' Hin'. destruct f as [s|s| |s m e Hb]; try discriminate.
  cbn [shortest_digits] in H.
  destruct (shortest_candidate m e) as [[d0 x0]|] eqn:Ec; [|discriminate].
  destruct (f_same (dec_to_f64 d0 x0) (Babs (B754_finite s m e Hb))); [|discriminate].
  injection H as -> ->.
  pose proof (shortest_candidate_minimal m e d x (bounded_log2_range m e Hb) Ec) as Hm.
  cbn [in_f64_interval] in Hin'.
  destruct (interval m e) as [[[[lo mid] hi] den] incl].
  destruct Hm as (_ & _ & Hmin). apply (Hmin d' x' Hd' Hin').
Qed.

(** the printed digits carry no trailing zero: [sigdigits d] is their number of digits,
    i.e. the number of digit characters that [layout] places *)
Theorem shortest_digits_stripped : forall (f : f64) d x,
  shortest_digits f = Some (d, x) -> d mod 10 <> 0 /\ sigdigits d = ndigits d.
Proof.
  intros f d x H. destruct f as [s|s| |s m e Hb]; try discriminate.
  cbn [shortest_digits] in H.
  destruct (shortest_candidate m e) as [[d1 x1]|] eqn:Ec; [|discriminate].
  destruct (f_same (dec_to_f64 d1 x1) (Babs (B754_finite s m e Hb))); [|discriminate].
  injection H as -> ->.
  pose proof (shortest_candidate_minimal m e d x (bounded_log2_range m e Hb) Ec) as Hm.
  unfold shortest_candidate in Ec.
  pose proof (interval_spec m e) as HI.
  destruct (log10_floor_ratio m e (bounded_log2_range m e Hb)) as (Hq & L1 & L2).
  destruct (interval m e) as [[[[lo mid] hi] den] incl].
  destruct (ratio m e) as [p q]. cbn [fst snd] in *.
  destruct HI as (Hden & Hord & _ & Hmid & _).
  destruct (shortest_from 18 1 lo mid hi den incl (log10_floor p q)) as [[d0 x0]|] eqn:Es; [|discriminate].
  pose proof (Some_inj _ _ _ Ec) as Hs. clear Ec.
  assert (Ev : (fr mid den == fr p q)%Q) by (apply fr_eq; assumption).
  apply (le10b_Q _ _ _ Hq) in L1. apply (lt10b_Q _ _ _ Hq) in L2.
  rewrite <- Ev in L1, L2.
  (* d0 <= 10^18: strip0 25 removes every zero *)
  destruct (shortest_from_inv _ _ _ _ _ _ _ _ _ _ Es) as (n & Hn & _ & _ & _ & _).
  destruct (shortest_from_digits_bound 18 1 lo mid hi den incl (log10_floor p q) d0 x0 Hden ltac:(lia) L1 L2 Es)
    as (Hd0 & Hd18).
  assert (Hfuel : 0 < d0 < 10 ^ Z.of_nat 25).
  { split; [exact Hd0|]. eapply Z.le_lt_trans; [exact Hd18|]. vm_compute. reflexivity. }
  destruct (strip0_full 25 d0 x0 d x Hfuel Hs) as (j & Hj & _ & Ed & Hdpos & Hd10).
  split; [exact Hd10|].
  destruct (ndigits_spec d Hdpos) as [N1 N2].
  replace d with (d * 10 ^ 0) at 1 by (simpl; lia).
  apply sigdigits_char; try assumption; lia.
Qed.

(* ------------------------------------------------------------------ *)
(** * Examples (by computation): the hypotheses are satisfiable *)

Example shortest_0_1 : shortest_digits (f_of_bits 4591870180066957722) = Some (1, -1).
Proof. vm_compute. reflexivity. Qed.
Example shortest_1e21 : shortest_digits (f_of_bits 4921056587992461136) = Some (1, 21).
Proof. vm_compute. reflexivity. Qed.
Example shortest_1e23 : shortest_digits (f_of_bits 4950912855330343670) = Some (1, 23).
Proof. vm_compute. reflexivity. Qed.
(** the smallest subnormal, 5e-324 *)
Example shortest_min_subnormal : shortest_digits (f_of_bits 1) = Some (5, -324).
Proof. vm_compute. reflexivity. Qed.
(** the smallest normal double 2^-1022 = 2.2250738585072014e-308 (m = 2^52, e = -1074) *)
Example shortest_min_normal :
  shortest_digits (f_of_bits 4503599627370496) = Some (22250738585072014, -324).
Proof. vm_compute. reflexivity. Qed.
(** the largest double, 1.7976931348623157e308 *)
Example shortest_max : shortest_digits (f_of_bits 9218868437227405311) = Some (17976931348623157, 292).
Proof. vm_compute. reflexivity. Qed.
(** 2^53 + 2 *)
Example shortest_2p53_2 : shortest_digits (f_of_bits 4845873199050653697) = Some (9007199254740994, 0).
Proof. vm_compute. reflexivity. Qed.
(** 2^54, a binade boundary (narrower lower half-gap) *)
Example shortest_2p54 : shortest_digits (f_of_bits 4850376798678024192) = Some (18014398509481984, 0).
Proof. vm_compute. reflexivity. Qed.
Example sigdigits_examples :
  sigdigits 1 = 1 /\ sigdigits 1200 = 2 /\ sigdigits 17976931348623157 = 17 /\ sigdigits 1000000 = 1.
Proof. vm_compute. repeat split; reflexivity. Qed.
(** 0.1 is in the interval of the double nearest to 0.1; 0.10000000000000002 is not *)
Example in_interval_0_1 :
  in_f64_interval (f_of_bits 4591870180066957722) 1 (-1) = true /\
  in_f64_interval (f_of_bits 4591870180066957722) 10000000000000002 (-17) = false.
Proof. vm_compute. split; reflexivity. Qed.

(* ------------------------------------------------------------------ *)
(** * Level 2: a decimal that reads back as the double lies in its rounding interval *)

#[local] Instance prec53_gt_0' : Prec_gt_0 53.
Proof. unfold Prec_gt_0. lia. Qed.
#[local] Instance fexp64_valid' : Valid_exp fexp64 := FLT_exp_valid (-1074) 53.
#[local] Instance exists_NE_64 : Exists_NE radix2 fexp64.
Proof. apply exists_NE_FLT. right. lia. Qed.

Local Open Scope R_scope.

(** fractions of integers, over the reals *)
Lemma Rfrac_le : forall a b c d : Z, (0 < b)%Z -> (0 < d)%Z ->
  (IZR a / IZR b <= IZR c / IZR d <-> (a * d <= c * b)%Z).
Proof.
  intros a b c d Hb Hd.
  assert (Rb : 0 < IZR b) by (apply IZR_lt; exact Hb).
  assert (Rd : 0 < IZR d) by (apply IZR_lt; exact Hd).
  split; intro H.
  - apply le_IZR. rewrite !mult_IZR.
    apply (Rmult_le_compat_r (IZR b * IZR d)) in H; [|nra].
    replace (IZR a / IZR b * (IZR b * IZR d)) with (IZR a * IZR d) in H by (field; lra).
    replace (IZR c / IZR d * (IZR b * IZR d)) with (IZR c * IZR b) in H by (field; lra).
    exact H.
  - apply IZR_le in H. rewrite !mult_IZR in H.
    apply (Rmult_le_reg_r (IZR b * IZR d)); [nra|].
    replace (IZR a / IZR b * (IZR b * IZR d)) with (IZR a * IZR d) by (field; lra).
    replace (IZR c / IZR d * (IZR b * IZR d)) with (IZR c * IZR b) by (field; lra).
    exact H.
Qed.

Lemma Rfrac_lt : forall a b c d : Z, (0 < b)%Z -> (0 < d)%Z ->
  (IZR a / IZR b < IZR c / IZR d <-> (a * d < c * b)%Z).
Proof.
  intros a b c d Hb Hd.
  pose proof (Rfrac_le c d a b Hd Hb) as H.
  split; intro K.
  - apply Z.nle_gt. intro K'. apply H in K'. lra.
  - apply Rnot_le_lt. intro K'. apply H in K'. lia.
Qed.

(** the decimal d * 10^x as a fraction of integers *)
Lemma dec_real_frac : forall d x,
  dec_real d x = IZR (fst (decfrac d x)) / IZR (snd (decfrac d x)).
Proof.
  intros d x. unfold dec_real, decfrac. destruct (0 <=? x)%Z; cbn [fst snd].
  - unfold Rdiv. rewrite Rinv_1, Rmult_1_r. reflexivity.
  - reflexivity.
Qed.

(** [in_interval] over the reals *)
Lemma in_interval_R : forall lo hi den incl d x, (0 < den)%Z ->
  (in_interval lo hi den incl d x = true <->
   if incl then IZR lo / IZR den <= dec_real d x <= IZR hi / IZR den
   else IZR lo / IZR den < dec_real d x < IZR hi / IZR den).
Proof.
  intros lo hi den incl d x Hden. rewrite dec_real_frac.
  pose proof (decfrac_den_pos d x) as Hb.
  unfold in_interval. unfold decfrac in *.
  destruct (0 <=? x)%Z; cbn [fst snd] in *.
  - destruct incl.
    + rewrite andb_true_iff, !Z.leb_le, !Rfrac_le by lia. lia.
    + rewrite andb_true_iff, !Z.ltb_lt, !Rfrac_lt by lia. lia.
  - destruct incl.
    + rewrite andb_true_iff, !Z.leb_le, !Rfrac_le by lia. lia.
    + rewrite andb_true_iff, !Z.ltb_lt, !Rfrac_lt by lia. lia.
Qed.

(** the shape of [interval m e] *)
Definition iv_boundary (m : positive) (e : Z) : bool :=
  (Pos.eqb m 4503599627370496 && negb (e =? -1074)%Z)%bool.
Definition iv_u4n (e : Z) : Z := if (0 <=? e - 2)%Z then (2 ^ (e - 2))%Z else 1%Z.
Definition iv_den (e : Z) : Z := if (0 <=? e - 2)%Z then 1%Z else (2 ^ (2 - e))%Z.

Lemma interval_shape : forall m e, exists P : Z,
  interval m e =
  ((P - (if iv_boundary m e then iv_u4n e else 2 * iv_u4n e))%Z, P, (P + 2 * iv_u4n e)%Z,
   iv_den e, Z.even (Zpos m)).
Proof.
  intros m e. unfold interval, iv_boundary, iv_u4n, iv_den.
  destruct (ratio m e) as [p q]. destruct (0 <=? e - 2)%Z; eexists; reflexivity.
Qed.

(** a quarter ulp: u4n / den = 2^(e-2) *)
Lemma iv_quarter : forall e, (0 < iv_den e)%Z /\ IZR (iv_u4n e) / IZR (iv_den e) = bpow radix2 (e - 2).
Proof.
  intros e. unfold iv_u4n, iv_den. destruct (Z.leb_spec 0 (e - 2)) as [H|H].
  - split; [lia|]. rewrite bpow_nonneg_IZR by exact H. unfold Rdiv. rewrite Rinv_1. ring.
  - split; [apply pow2_pos; lia|]. rewrite bpow_neg_IZR by exact H.
    replace (- (e - 2))%Z with (2 - e)%Z by lia. unfold Rdiv. ring.
Qed.

(** the reader returns a given positive finite double as soon as the exact decimal rounds to it *)
Lemma dec_to_f64_of_round : forall d' x' (g : f64), (0 <= d')%Z ->
  is_finite g = true -> Bsign g = false -> 0 < B2R g ->
  rnd64 (dec_real d' x') = B2R g -> dec_to_f64 d' x' = g.
Proof.
  intros d' x' g Hd' Hfin Hsg Hpos Hr.
  pose proof (dec_to_f64_correct d' x' Hd') as Hc. cbv zeta in Hc.
  rewrite Rlt_bool_true in Hc by (rewrite Hr; apply abs_B2R_lt_emax).
  destruct Hc as [Hc1 Hc2].
  apply B2R_Bsign_inj; [exact Hc2|exact Hfin|rewrite Hc1; exact Hr|].
  rewrite Hsg. rewrite Hr in Hc1.
  destruct (dec_to_f64 d' x') as [s'|s'| |s' m' e' Hb']; try discriminate.
  - exfalso. cbn [B2R] in Hc1. lra.
  - cbn [Bsign]. destruct s'; [exfalso|reflexivity].
    rewrite B2R_finite in Hc1. cbn [cond_Zopp] in Hc1.
    pose proof (bpow_gt_0 radix2 e') as P1.
    assert (P2 : 0 < IZR (Z.pos m')) by (apply IZR_lt; lia).
    pose proof (Rmult_lt_0_compat _ _ P2 P1) as P3.
    change (Z.neg m') with (- Z.pos m')%Z in Hc1. rewrite opp_IZR in Hc1. lra.
Qed.

Section Level2.
Variables (m : positive) (e : Z).
Hypothesis Hb : SpecFloat.bounded prec emax m e = true.

Let F : R := IZR (Zpos m) * bpow radix2 e.
Let fl : float radix2 := Float radix2 (Zpos m) e.

Lemma F_F2R : F = F2R fl.
Proof. reflexivity. Qed.

Lemma F_canonical : canonical radix2 fexp64 fl.
Proof. exact (canonical_bounded prec emax false m e Hb). Qed.

Lemma F_pos : 0 < F.
Proof. unfold F. apply Rmult_lt_0_compat; [apply IZR_lt; lia|apply bpow_gt_0]. Qed.

Lemma F_format : generic_format radix2 fexp64 F.
Proof. rewrite F_F2R. apply generic_format_canonical. exact F_canonical. Qed.

Lemma F_ulp : ulp radix2 fexp64 F = bpow radix2 e.
Proof. rewrite F_F2R. apply ulp_canonical; [discriminate|exact F_canonical]. Qed.

Lemma F_succ : succ radix2 fexp64 F = F + bpow radix2 e.
Proof. rewrite succ_eq_pos by (apply Rlt_le, F_pos). rewrite F_ulp. reflexivity. Qed.

Lemma F_mag : (mag radix2 F = Z.log2 (Zpos m) + 1 + e :> Z)%Z.
Proof.
  rewrite F_F2R. unfold fl. rewrite mag_F2R_Zdigits by discriminate.
  rewrite <- Zpos_digits2_pos, digits2_log2. reflexivity.
Qed.

(** the predecessor: one ulp below, except at a binade boundary (m = 2^52 above the
    subnormal range) where it is half an ulp below *)
Lemma F_pred :
  pred radix2 fexp64 F = F - (if iv_boundary m e then bpow radix2 (e - 1) else bpow radix2 e).
Proof.
  rewrite pred_eq_pos by (apply Rlt_le, F_pos). unfold pred_pos. rewrite F_mag.
  destruct (bounded_range m e Hb) as (He & HL & Hc).
  set (L := Z.log2 (Zpos m)) in *.
  replace (L + 1 + e - 1)%Z with (L + e)%Z by lia.
  assert (Hpow : bpow radix2 (L + e) = IZR (2 ^ L) * bpow radix2 e).
  { rewrite bpow_plus, bpow_nonneg_IZR by lia. reflexivity. }
  unfold iv_boundary.
  destruct (Z.eq_dec (Zpos m) (2 ^ L)) as [Em|Nm].
  - (* a power of two *)
    rewrite Req_bool_true by (rewrite Hpow; unfold F; rewrite Em; reflexivity).
    f_equal. unfold FLT_exp.
    destruct (Z.eq_dec L 52) as [E52|N52].
    + assert (Em' : m = 4503599627370496%positive).
      { rewrite E52 in Em. change (2 ^ 52)%Z with 4503599627370496%Z in Em. congruence. }
      rewrite Em', Pos.eqb_refl. cbn [andb].
      destruct (Z.eqb_spec e (-1074)) as [Ee|Ne]; cbn [negb]; f_equal; lia.
    + assert (Ne : (m =? 4503599627370496)%positive = false).
      { apply Pos.eqb_neq. intro K. apply N52. unfold L. rewrite K. reflexivity. }
      rewrite Ne. cbn [andb]. f_equal. lia.
  - rewrite Req_bool_false.
    + rewrite F_ulp.
      assert (Ne : (m =? 4503599627370496)%positive = false).
      { apply Pos.eqb_neq. intro K. apply Nm. subst L. rewrite K. reflexivity. }
      rewrite Ne. reflexivity.
    + rewrite Hpow. unfold F. intro K.
      apply Rmult_eq_reg_r in K; [|apply Rgt_not_eq, bpow_gt_0].
      apply eq_IZR in K. contradiction.
Qed.

(** the model's interval is [ (pred F + F)/2 , (F + succ F)/2 ] *)
Lemma interval_R :
  let '(lo, mid, hi, den, incl) := interval m e in
  (0 < den)%Z /\
  IZR lo / IZR den = (pred radix2 fexp64 F + F) / 2 /\
  IZR hi / IZR den = (F + succ radix2 fexp64 F) / 2 /\
  incl = Z.even (Zpos m).
Proof.
  pose proof (interval_spec m e) as HI.
  destruct (interval_shape m e) as [P HS]. rewrite HS in *. cbv zeta in HI.
  destruct HI as (Hden & _ & Hq & Hmid & _).
  destruct (iv_quarter e) as [_ Hu].
  assert (Rden : 0 < IZR (iv_den e)) by (apply IZR_lt; exact Hden).
  (* mid / den = F *)
  assert (HP : IZR P / IZR (iv_den e) = F).
  { assert (Rq : 0 < IZR (snd (ratio m e))) by (apply IZR_lt; exact Hq).
    apply (f_equal IZR) in Hmid. rewrite !mult_IZR in Hmid.
    assert (HF : IZR (fst (ratio m e)) = F * IZR (snd (ratio m e))).
    { unfold ratio, F. destruct (Z.leb_spec 0 e) as [H|H]; cbn [fst snd].
      - rewrite mult_IZR, bpow_nonneg_IZR by exact H. ring.
      - rewrite bpow_neg_IZR by exact H.
        assert (0 < IZR (2 ^ (- e))) by (apply IZR_lt, pow2_pos; lia). field. lra. }
    rewrite HF in Hmid.
    assert (EP : IZR P = F * IZR (iv_den e)).
    { apply (Rmult_eq_reg_r (IZR (snd (ratio m e)))); [rewrite Hmid; ring|lra]. }
    rewrite EP. field. lra. }
  assert (H2 : bpow radix2 (e - 1) = 2 * bpow radix2 (e - 2)).
  { replace (e - 1)%Z with (e - 2 + 1)%Z by lia. rewrite bpow_plus.
    change (bpow radix2 1) with 2. ring. }
  assert (H3 : bpow radix2 e = 4 * bpow radix2 (e - 2)).
  { replace e with (e - 2 + 2)%Z at 1 by lia. rewrite bpow_plus.
    change (bpow radix2 2) with 4. ring. }
  split; [exact Hden|]. split; [|split; [|reflexivity]].
  - rewrite F_pred. rewrite minus_IZR.
    replace (IZR (P - 0)) with (IZR P) by (f_equal; lia).
    unfold Rdiv at 1. rewrite Rmult_minus_distr_r. fold (IZR P / IZR (iv_den e)). rewrite HP.
    destruct (iv_boundary m e).
    + fold (IZR (iv_u4n e) / IZR (iv_den e)). rewrite Hu. lra.
    + rewrite mult_IZR. replace (2 * IZR (iv_u4n e) * / IZR (iv_den e))
        with (2 * (IZR (iv_u4n e) / IZR (iv_den e))) by (unfold Rdiv; ring).
      rewrite Hu. lra.
  - rewrite F_succ. rewrite plus_IZR, mult_IZR.
    unfold Rdiv at 1. rewrite Rmult_plus_distr_r. fold (IZR P / IZR (iv_den e)). rewrite HP.
    replace (2 * IZR (iv_u4n e) * / IZR (iv_den e))
      with (2 * (IZR (iv_u4n e) / IZR (iv_den e))) by (unfold Rdiv; ring).
    rewrite Hu. lra.
Qed.

(** a tie: if another double is exactly as near to r as F, round-to-even picks F only
    when F's mantissa is even *)
Lemma tie_even : forall r G, generic_format radix2 fexp64 G -> G <> F ->
  Rabs (G - r) = Rabs (F - r) -> rnd64 r = F -> Z.even (Zpos m) = true.
Proof.
  intros r G HG Hne Habs Hr.
  pose proof (round_NE_pt radix2 fexp64 r) as Hpt. rewrite Hr in Hpt.
  destruct Hpt as [HN [HE|HU]].
  - destruct HE as (g & Hg1 & Hg2 & Hg3).
    assert (Eg : g = fl).
    { apply (canonical_unique radix2 fexp64); [exact Hg2|exact F_canonical|].
      rewrite <- Hg1. apply F_F2R. }
    rewrite Eg in Hg3. exact Hg3.
  - exfalso. apply Hne. apply HU. split; [exact HG|].
    intros g Hg. rewrite Habs. apply (proj2 HN). exact Hg.
Qed.

(** if r rounds to F then r is in [ (pred F + F)/2 , (F + succ F)/2 ], and strictly inside
    when the mantissa is odd *)
Lemma round_in_interval : forall r, rnd64 r = F ->
  (pred radix2 fexp64 F + F) / 2 <= r <= (F + succ radix2 fexp64 F) / 2 /\
  (Z.even (Zpos m) = false ->
   (pred radix2 fexp64 F + F) / 2 < r < (F + succ radix2 fexp64 F) / 2).
Proof.
  intros r Hr.
  pose proof F_format as HF. pose proof F_pos as HF0.
  assert (Hps : pred radix2 fexp64 F < F) by (apply pred_lt_id; lra).
  assert (Hss : F < succ radix2 fexp64 F) by (apply succ_gt_id; lra).
  assert (Hlo : (pred radix2 fexp64 F + F) / 2 <= r).
  { apply Rnot_lt_le. intro K.
    pose proof (round_N_le_midp radix2 fexp64 (fun t => negb (Z.even t)) (pred radix2 fexp64 F) r
                  (generic_format_pred radix2 fexp64 F HF)) as Hle.
    rewrite (succ_pred radix2 fexp64 F HF) in Hle. specialize (Hle K).
    change (round radix2 fexp64 (Znearest (fun t => negb (Z.even t))) r) with (rnd64 r) in Hle.
    lra. }
  assert (Hhi : r <= (F + succ radix2 fexp64 F) / 2).
  { apply Rnot_lt_le. intro K.
    pose proof (round_N_ge_midp radix2 fexp64 (fun t => negb (Z.even t)) (succ radix2 fexp64 F) r
                  (generic_format_succ radix2 fexp64 F HF)) as Hle.
    rewrite (pred_succ radix2 fexp64 F HF) in Hle.
    assert (K' : (succ radix2 fexp64 F + F) / 2 < r) by lra.
    specialize (Hle K').
    change (round radix2 fexp64 (Znearest (fun t => negb (Z.even t))) r) with (rnd64 r) in Hle.
    lra. }
  split; [split; assumption|]. intro Hodd.
  split.
  - destruct Hlo as [Hlt|Heq]; [exact Hlt|exfalso].
    assert (Hev : Z.even (Zpos m) = true).
    { apply (tie_even r (pred radix2 fexp64 F));
        [exact (generic_format_pred radix2 fexp64 F HF)|lra| |exact Hr].
      rewrite <- Heq. rewrite Rabs_left by lra. rewrite Rabs_right by lra. lra. }
    congruence.
  - destruct Hhi as [Hlt|Heq]; [exact Hlt|exfalso].
    assert (Hev : Z.even (Zpos m) = true).
    { apply (tie_even r (succ radix2 fexp64 F));
        [exact (generic_format_succ radix2 fexp64 F HF)|lra| |exact Hr].
      rewrite Heq. rewrite Rabs_right by lra. rewrite Rabs_left by lra. lra. }
    congruence.
Qed.

(** Level 2, the direction needed: a decimal that the reader maps to the double m*2^e lies
    in the model's rounding interval of that double. *)
Theorem reads_back_in_interval : forall d' x', (0 <= d')%Z ->
  dec_to_f64 d' x' = B754_finite false m e Hb ->
  in_f64_interval (B754_finite false m e Hb) d' x' = true.
Proof.
  intros d' x' Hd' Hrd.
  assert (Hr : rnd64 (dec_real d' x') = F).
  { pose proof (dec_to_f64_correct d' x' Hd') as Hc. cbv zeta in Hc.
    destruct (Rlt_bool (Rabs (rnd64 (dec_real d' x'))) bmax).
    - destruct Hc as [Hc _]. rewrite <- Hc, Hrd. reflexivity.
    - rewrite Hrd in Hc. discriminate. }
  destruct (round_in_interval _ Hr) as [Hcl Hop].
  cbn [in_f64_interval].
  pose proof interval_R as HI.
  destruct (interval m e) as [[[[lo mid] hi] den] incl].
  destruct HI as (Hden & Hlo & Hhi & Hincl).
  apply (in_interval_R lo hi den incl d' x' Hden). rewrite Hlo, Hhi.
  destruct incl; [exact Hcl|]. apply Hop. symmetry. exact Hincl.
Qed.

(** conversely: F is a nearest double of every r in the closed interval ... *)
Lemma F_nearest : forall r,
  (pred radix2 fexp64 F + F) / 2 <= r <= (F + succ radix2 fexp64 F) / 2 ->
  Rnd_N_pt (generic_format radix2 fexp64) r F.
Proof.
  intros r [Hlo Hhi]. pose proof F_format as HF. pose proof F_pos as HF0.
  assert (Hps : pred radix2 fexp64 F < F) by (apply pred_lt_id; lra).
  assert (Hss : F < succ radix2 fexp64 F) by (apply succ_gt_id; lra).
  split; [exact HF|]. intros g Hg.
  destruct (Rtotal_order g F) as [Hlt|[Heq|Hgt]].
  - pose proof (pred_ge_gt radix2 fexp64 g F Hg HF Hlt) as Hp.
    unfold Rabs. destruct (Rcase_abs (F - r)); destruct (Rcase_abs (g - r)); lra.
  - rewrite Heq. apply Rle_refl.
  - pose proof (succ_le_lt radix2 fexp64 F g HF Hg Hgt) as Hp.
    unfold Rabs. destruct (Rcase_abs (F - r)); destruct (Rcase_abs (g - r)); lra.
Qed.

(** ... and the one chosen by round-to-nearest-even, if r is strictly inside or m is even *)
Lemma round_to_F : forall r,
  (pred radix2 fexp64 F + F) / 2 <= r <= (F + succ radix2 fexp64 F) / 2 ->
  (Z.even (Zpos m) = false ->
   (pred radix2 fexp64 F + F) / 2 < r < (F + succ radix2 fexp64 F) / 2) ->
  rnd64 r = F.
Proof.
  intros r Hcl Hop. pose proof F_format as HF.
  destruct (Z.even (Zpos m)) eqn:Ev.
  - apply (round_unique (Rnd_NE_pt radix2 fexp64) (proj2 (Rnd_NE_pt_round radix2 fexp64)) r).
    + exact (round_NE_pt radix2 fexp64 r).
    + split; [apply F_nearest; exact Hcl|]. left. exists fl.
      split; [apply F_F2R|]. split; [exact F_canonical|exact Ev].
  - destruct (Hop eq_refl) as [H1 H2]. apply Rle_antisym.
    + exact (round_N_le_midp radix2 fexp64 (fun t => negb (Z.even t)) F r HF H2).
    + apply (round_N_ge_midp radix2 fexp64 (fun t => negb (Z.even t)) F r HF). lra.
Qed.

(** a decimal inside the model's interval is read back as the double *)
Theorem in_interval_reads_back : forall d' x', (0 <= d')%Z ->
  in_f64_interval (B754_finite false m e Hb) d' x' = true ->
  dec_to_f64 d' x' = B754_finite false m e Hb.
Proof.
  intros d' x' Hd' Hin. cbn [in_f64_interval] in Hin.
  pose proof interval_R as HI.
  destruct (interval m e) as [[[[lo mid] hi] den] incl].
  destruct HI as (Hden & Hlo & Hhi & Hincl).
  apply (in_interval_R lo hi den incl d' x' Hden) in Hin. rewrite Hlo, Hhi in Hin.
  apply dec_to_f64_of_round; [exact Hd'|reflexivity|reflexivity|exact F_pos|].
  change (B2R (B754_finite false m e Hb)) with F.
  apply round_to_F.
  - destruct incl; lra.
  - intro Hodd. destruct incl; [congruence|exact Hin].
Qed.

End Level2.

Local Close Scope R_scope.

(** Level 2: the printed digits are the shortest decimal that reads back as |f|.
    If [shortest_digits f = Some (d, x)] then any decimal d' * 10^x' (d' > 0) that
    [dec_to_f64] -- the correctly rounded decimal reader -- maps to |f| has at least as many
    significant digits as d. *)
Theorem shortest_digits_minimal : forall (f : f64) d x d' x',
  shortest_digits f = Some (d, x) -> 0 < d' ->
  f_same (dec_to_f64 d' x') (Babs f) = true ->
  sigdigits d <= sigdigits d'.
Proof.
  intros f d x d' x' H Hd' Hsame.
  apply f_same_eq in Hsame.
  destruct f as [s|s| |s m e Hb]; try discriminate.
  assert (Hin : in_f64_interval (B754_finite s m e Hb) d' x' = true).
  { change (in_f64_interval (B754_finite s m e Hb) d' x')
      with (in_f64_interval (B754_finite false m e Hb) d' x').
    apply reads_back_in_interval; [lia|exact Hsame]. }
  exact (shortest_digits_minimal_interval _ d x H d' x' Hd' Hin).
Qed.

(** Level 2, characterisation of the interval: for a finite non-zero double f, the decimals
    d' * 10^x' (d' > 0) that the reader maps to |f| are exactly those that [in_interval]
    accepts for [interval m e]. *)
Theorem reads_back_iff_in_interval : forall (f : f64) d' x',
  is_finite_strict f = true -> 0 < d' ->
  (f_same (dec_to_f64 d' x') (Babs f) = true <-> in_f64_interval f d' x' = true).
Proof.
  intros f d' x' Hf Hd'. destruct f as [s|s| |s m e Hb]; try discriminate.
  change (in_f64_interval (B754_finite s m e Hb) d' x')
    with (in_f64_interval (B754_finite false m e Hb) d' x').
  cbn [Babs]. rewrite f_same_iff. split; intro H.
  - apply reads_back_in_interval; [lia|exact H].
  - apply in_interval_reads_back; [lia|exact H].
Qed.

(** the same with real numbers: any positive decimal whose correctly rounded double is |f| *)
Corollary shortest_digits_minimal_real : forall (f : f64) d x d' x',
  shortest_digits f = Some (d, x) -> 0 < d' ->
  rnd64 (dec_real d' x') = Rabs (B2R f) ->
  sigdigits d <= sigdigits d'.
Proof.
  intros f d x d' x' H Hd' Hr.
  apply (shortest_digits_minimal f d x d' x' H Hd').
  apply f_same_iff.
  destruct f as [s|s| |s m e Hb]; try discriminate.
  apply dec_to_f64_of_round; [lia|reflexivity|reflexivity| |].
  - cbn [Babs]. rewrite B2R_finite. cbn [cond_Zopp].
    apply Rmult_lt_0_compat; [apply IZR_lt; lia|apply bpow_gt_0].
  - rewrite Hr. symmetry. apply B2R_Babs.
Qed.

(** consequently the run-time check inside [shortest_digits] never rejects the candidate:
    on a finite non-zero double, [shortest_digits] fails only if the 18-step search does *)
Corollary shortest_digits_check_redundant : forall s m e (Hb : SpecFloat.bounded prec emax m e = true) d x,
  shortest_candidate m e = Some (d, x) ->
  shortest_digits (B754_finite s m e Hb) = Some (d, x).
Proof.
  intros s m e Hb d x Hc. cbn [shortest_digits]. rewrite Hc.
  pose proof (shortest_candidate_minimal m e d x (bounded_log2_range m e Hb) Hc) as Hm.
  assert (Hin : in_f64_interval (B754_finite false m e Hb) d x = true /\ 0 < d).
  { cbn [in_f64_interval]. destruct (interval m e) as [[[[lo mid] hi] den] incl].
    destruct Hm as (Hd & Hin & _). split; assumption. }
  destruct Hin as [Hin Hd].
  cbn [Babs]. rewrite (in_interval_reads_back m e Hb d x ltac:(lia) Hin).
  rewrite f_same_refl. reflexivity.
Qed.

Print Assumptions shortest_digits_minimal_interval.
Print Assumptions reads_back_in_interval.
Print Assumptions shortest_digits_minimal.
Print Assumptions reads_back_iff_in_interval.
Print Assumptions shortest_digits_minimal_real.
