(** The token list returned by a successful parser call is a suffix of its input
    (whatever the fuel): [F f ts = POk a r ds -> exists pre, ts = pre ++ r]. *)
From Borno Require Import Base Num Token Ast Parser.
From Borno Require Import ParserEqs.
Open Scope nat_scope.

(** * Suffixes *)

Definition suffix (r ts : list token) : Prop := exists pre, ts = pre ++ r.

Lemma suffix_refl r : suffix r r.
Proof. exists []. reflexivity. Qed.

Lemma suffix_cons r t ts : suffix r ts -> suffix r (t :: ts).
Proof. intros (pre & E). exists (t :: pre). subst ts. reflexivity. Qed.

Lemma suffix_trans r m ts : suffix r m -> suffix m ts -> suffix r ts.
Proof. intros (p1 & E1) (p2 & E2). exists (p2 ++ p1). subst. apply app_assoc. Qed.

Lemma suffix_tl r ts : suffix r ts -> suffix (tl r) ts.
Proof.
  intros H. apply suffix_trans with (m := r); [|exact H].
  destruct r as [|x r]; [apply suffix_refl|]. apply suffix_cons, suffix_refl.
Qed.

Lemma suffix_length r ts : suffix r ts -> length r <= length ts.
Proof. intros (pre & E). subst ts. rewrite app_length. lia. Qed.

Lemma suffix_uncons t r ts : suffix (t :: r) ts -> suffix r ts.
Proof. intros H. apply (suffix_tl (t :: r) ts H). Qed.

#[export] Hint Resolve suffix_refl suffix_cons suffix_tl suffix_uncons : psuffix.

(** * The outcome predicate: on success the rest is a suffix of [ts] *)

Definition sfx {A} (ts : list token) (r : pres A) : Prop :=
  match r with POk _ rest _ => suffix rest ts | _ => True end.

Lemma sfx_ok {A} ts (a : A) rest ds : suffix rest ts -> sfx ts (POk a rest ds).
Proof. intros H. exact H. Qed.

Lemma sfx_bind {A B} ts (r : pres A) (k : A -> list token -> pres B) :
  sfx ts r -> (forall a rest, suffix rest ts -> sfx ts (k a rest)) -> sfx ts (pbind r k).
Proof.
  intros Hr Hk. destruct r as [a rest ds| ds|]; simpl in *; [|exact I|exact I].
  specialize (Hk a rest Hr). destruct (k a rest) as [b rest' ds'| ds'|]; simpl in *; auto.
Qed.

Lemma sfx_trans {A} ts' ts (r : pres A) : sfx ts' r -> suffix ts' ts -> sfx ts r.
Proof.
  intros Hr Hs. destruct r as [a rest ds| ds|]; simpl in *; auto.
  eapply suffix_trans; eauto.
Qed.

(** * Proof automation *)

Ltac sfx_side := solve [eauto 6 with psuffix].

(** close the goal with a fact from the context (induction hypotheses, earlier lemmas) *)
Ltac sfx_hyp := match goal with H : _ |- _ => eapply sfx_trans; [apply H | sfx_side] end.

Ltac sfx_leaf :=
  lazymatch goal with
  | |- sfx _ (POk _ _ _) => apply sfx_ok; sfx_side
  | |- sfx _ (PErr _) => exact I
  | |- sfx _ (Parser.perr_at _ _ _) => exact I
  | |- sfx _ _ => sfx_hyp
  end.

Ltac sfx_step :=
  lazymatch goal with
  | |- sfx _ (pbind (match _ with _ => _ end) _) =>
      apply sfx_bind; [| intros ? ? ?; cbv beta zeta]
  | |- sfx _ (pbind _ _) =>
      apply sfx_bind; [sfx_leaf | intros ? ? ?; cbv beta zeta]
  | |- sfx ?ts (match Parser.consume_lenient ?e ?k ?pk ?r with _ => _ end) =>
      let H := fresh "Hcl" in
      assert (H : fst (Parser.consume_lenient e k pk r) = r \/ fst (Parser.consume_lenient e k pk r) = tl r)
        by (unfold Parser.consume_lenient; destruct r as [|? ?]; [|destruct (tkind_eqb _ _)]; simpl; auto);
      destruct (Parser.consume_lenient e k pk r); cbn [fst] in H; destruct H; subst
  | |- sfx _ (match ?x with _ => _ end) => destruct x
  | |- sfx _ _ => sfx_leaf
  end.
Ltac sfx_all := cbv beta zeta; repeat sfx_step.

Section Suffix.
Variable eofl : N.

Notation pexpr := (Parser.pexpr eofl).
Notation plevel := (Parser.plevel eofl).
Notation ploop := (Parser.ploop eofl).
Notation punary := (Parser.punary eofl).
Notation pcallloop := (Parser.pcallloop eofl).
Notation pargs := (Parser.pargs eofl).
Notation pprimary := (Parser.pprimary eofl).
Notation pprops := (Parser.pprops eofl).
Notation pvardecls := (Parser.pvardecls eofl).
Notation pparams := (Parser.pparams eofl).
Notation pdecl := (Parser.pdecl eofl).
Notation pstmt := (Parser.pstmt eofl).
Notation pblock := (Parser.pblock eofl).
Notation pprogram := (Parser.pprogram eofl).
Notation pvar := (Parser.pvar eofl).
Notation pexprstmt := (Parser.pexprstmt eofl).
Notation consume := (Parser.consume eofl).
Notation consume_lenient := (Parser.consume_lenient eofl).
Notation perr_at := (Parser.perr_at eofl).
Notation diag_at := (Parser.diag_at eofl).
Notation peek_line := (Parser.peek_line eofl).

Lemma consume_sfx k pk ts : sfx ts (consume k pk ts).
Proof.
  unfold Parser.consume. destruct ts as [|t r]; [exact I|].
  destruct (tkind_eqb (tk t) k); [|exact I]. simpl. apply suffix_cons, suffix_refl.
Qed.

(** * The expression block *)

Definition ExprSfx (f : nat) : Prop :=
  (forall ts, sfx ts (pexpr f ts)) /\
  (forall lv ts, sfx ts (plevel f lv ts)) /\
  (forall l lv e ts, sfx ts (ploop f l lv e ts)) /\
  (forall ts, sfx ts (punary f ts)) /\
  (forall e ts, sfx ts (pcallloop f e ts)) /\
  (forall ts, sfx ts (pargs f ts)) /\
  (forall ts, sfx ts (pprimary f ts)) /\
  (forall acc ts, sfx ts (pprops f acc ts)).

Lemma expr_sfx_all : forall f, ExprSfx f.
Proof.
  induction f as [|f (Ie & Il & Ilo & Iu & Ic & Ia & Ipr & Ipp)].
  - split; [|split; [|split; [|split; [|split; [|split; [|split]]]]]]; intros; exact I.
  - pose proof consume_sfx as Hcons.
    split; [|split; [|split; [|split; [|split; [|split; [|split]]]]]].
    + intros ts. rewrite pexpr_S. sfx_all.
    + intros lv ts. rewrite plevel_S. sfx_all.
    + intros l lv e ts. rewrite ploop_S. sfx_all.
    + intros ts. rewrite punary_S. sfx_all.
    + intros e ts. rewrite pcallloop_S. sfx_all.
    + intros ts. rewrite pargs_S. sfx_all.
    + intros ts. rewrite pprimary_S. sfx_all.
    + intros acc ts. rewrite pprops_S. sfx_all.
Qed.

Lemma pexpr_sfx f ts : sfx ts (pexpr f ts).
Proof. apply (expr_sfx_all f). Qed.
Lemma plevel_sfx f lv ts : sfx ts (plevel f lv ts).
Proof. apply (expr_sfx_all f). Qed.
Lemma ploop_sfx f l lv e ts : sfx ts (ploop f l lv e ts).
Proof. apply (expr_sfx_all f). Qed.
Lemma punary_sfx f ts : sfx ts (punary f ts).
Proof. apply (expr_sfx_all f). Qed.
Lemma pcallloop_sfx f e ts : sfx ts (pcallloop f e ts).
Proof. apply (expr_sfx_all f). Qed.
Lemma pargs_sfx f ts : sfx ts (pargs f ts).
Proof. apply (expr_sfx_all f). Qed.
Lemma pprimary_sfx f ts : sfx ts (pprimary f ts).
Proof. apply (expr_sfx_all f). Qed.
Lemma pprops_sfx f acc ts : sfx ts (pprops f acc ts).
Proof. apply (expr_sfx_all f). Qed.

(** * Declarators, parameters, the two wrappers *)

Lemma pvardecls_sfx : forall f l0 ts, sfx ts (pvardecls f l0 ts).
Proof.
  induction f as [|f IH]; intros l0 ts; [exact I|].
  pose proof consume_sfx as Hcons. pose proof (pexpr_sfx f) as He.
  rewrite pvardecls_S. sfx_all.
Qed.

Lemma pparams_sfx : forall f n ts, sfx ts (pparams f n ts).
Proof.
  induction f as [|f IH]; intros n ts; [exact I|].
  pose proof consume_sfx as Hcons.
  rewrite pparams_S. sfx_all.
Qed.

Lemma pvar_sfx f ts : sfx ts (pvar f ts).
Proof.
  pose proof consume_sfx as Hcons. pose proof (pvardecls_sfx f) as Hv.
  unfold Parser.pvar. sfx_all.
Qed.

Lemma pexprstmt_sfx f ts : sfx ts (pexprstmt f ts).
Proof.
  pose proof (pexpr_sfx f) as He.
  unfold Parser.pexprstmt. sfx_all.
Qed.

(** * The statement block *)

Definition StmtSfx (f : nat) : Prop :=
  (forall ts, sfx ts (pdecl f ts)) /\
  (forall ts, sfx ts (pstmt f ts)) /\
  (forall ts, sfx ts (pblock f ts)).

Lemma stmt_sfx_all : forall f, StmtSfx f.
Proof.
  induction f as [|f (Id & Is & Ib)].
  - split; [|split]; intros; exact I.
  - pose proof consume_sfx as Hcons. pose proof (pexpr_sfx f) as He.
    pose proof (pparams_sfx f) as Hp. pose proof (pvar_sfx f) as Hv.
    pose proof (pexprstmt_sfx f) as Hx.
    split; [|split].
    + intros ts. rewrite pdecl_S. sfx_all.
    + intros ts. rewrite pstmt_S. sfx_all.
    + intros ts. rewrite pblock_S. sfx_all.
Qed.

Lemma pdecl_sfx f ts : sfx ts (pdecl f ts).
Proof. apply (stmt_sfx_all f). Qed.
Lemma pstmt_sfx f ts : sfx ts (pstmt f ts).
Proof. apply (stmt_sfx_all f). Qed.
Lemma pblock_sfx f ts : sfx ts (pblock f ts).
Proof. apply (stmt_sfx_all f). Qed.

Lemma pprogram_sfx : forall f ts, sfx ts (pprogram f ts).
Proof.
  induction f as [|f IH]; intros ts; [exact I|].
  pose proof (pdecl_sfx f) as Hd.
  rewrite pprogram_S. sfx_all.
Qed.

(** * The exported statements *)

Lemma sfx_inv {A} ts (x : pres A) a r ds : sfx ts x -> x = POk a r ds -> exists pre, ts = pre ++ r.
Proof. intros H E. subst x. exact H. Qed.

Theorem pexpr_rest_suffix f ts e r ds : pexpr f ts = POk e r ds -> exists pre, ts = pre ++ r.
Proof. apply sfx_inv, pexpr_sfx. Qed.
Theorem plevel_rest_suffix f lv ts e r ds : plevel f lv ts = POk e r ds -> exists pre, ts = pre ++ r.
Proof. apply sfx_inv, plevel_sfx. Qed.
Theorem ploop_rest_suffix f l lv e0 ts e r ds : ploop f l lv e0 ts = POk e r ds -> exists pre, ts = pre ++ r.
Proof. apply sfx_inv, ploop_sfx. Qed.
Theorem punary_rest_suffix f ts e r ds : punary f ts = POk e r ds -> exists pre, ts = pre ++ r.
Proof. apply sfx_inv, punary_sfx. Qed.
Theorem pcallloop_rest_suffix f e0 ts e r ds : pcallloop f e0 ts = POk e r ds -> exists pre, ts = pre ++ r.
Proof. apply sfx_inv, pcallloop_sfx. Qed.
Theorem pargs_rest_suffix f ts es r ds : pargs f ts = POk es r ds -> exists pre, ts = pre ++ r.
Proof. apply sfx_inv, pargs_sfx. Qed.
Theorem pprimary_rest_suffix f ts e r ds : pprimary f ts = POk e r ds -> exists pre, ts = pre ++ r.
Proof. apply sfx_inv, pprimary_sfx. Qed.
Theorem pprops_rest_suffix f acc ts ps r ds : pprops f acc ts = POk ps r ds -> exists pre, ts = pre ++ r.
Proof. apply sfx_inv, pprops_sfx. Qed.
Theorem pvardecls_rest_suffix f l0 ts vs r ds : pvardecls f l0 ts = POk vs r ds -> exists pre, ts = pre ++ r.
Proof. apply sfx_inv, pvardecls_sfx. Qed.
Theorem pparams_rest_suffix f n ts ps r ds : pparams f n ts = POk ps r ds -> exists pre, ts = pre ++ r.
Proof. apply sfx_inv, pparams_sfx. Qed.
Theorem pvar_rest_suffix f ts s r ds : pvar f ts = POk s r ds -> exists pre, ts = pre ++ r.
Proof. apply sfx_inv, pvar_sfx. Qed.
Theorem pexprstmt_rest_suffix f ts s r ds : pexprstmt f ts = POk s r ds -> exists pre, ts = pre ++ r.
Proof. apply sfx_inv, pexprstmt_sfx. Qed.
Theorem pdecl_rest_suffix f ts s r ds : pdecl f ts = POk s r ds -> exists pre, ts = pre ++ r.
Proof. apply sfx_inv, pdecl_sfx. Qed.
Theorem pstmt_rest_suffix f ts s r ds : pstmt f ts = POk s r ds -> exists pre, ts = pre ++ r.
Proof. apply sfx_inv, pstmt_sfx. Qed.
Theorem pblock_rest_suffix f ts ss r ds : pblock f ts = POk ss r ds -> exists pre, ts = pre ++ r.
Proof. apply sfx_inv, pblock_sfx. Qed.
Theorem pprogram_rest_suffix f ts ss r ds : pprogram f ts = POk ss r ds -> exists pre, ts = pre ++ r.
Proof. apply sfx_inv, pprogram_sfx. Qed.

End Suffix.

Print Assumptions pexpr_rest_suffix.
Print Assumptions pstmt_rest_suffix.
Print Assumptions pblock_rest_suffix.
Print Assumptions pprogram_rest_suffix.
