(** Alpha-renaming from tokens to observable behaviour.

    Proofs/RenameParse.v: parsing the token list in which every identifier lexeme is
    renamed gives the tree in which every name is renamed -- property names and
    object-literal keys included ([ren_stmt_all]).  Proofs/Rename.v: the evaluator
    commutes with the renaming of variables, parameters (and function names, which must
    be fixed because [<function NAME>] is printed) -- property names and keys NOT
    included ([ren_stmt]); they are data: object cells are kept sorted by key and keys
    are printed, so renaming them is observable ([key_renaming_is_observable]).

    The two meet on token lists in which the renaming fixes every identifier lexeme in
    property / key position.  [prop_names ts] collects the lexemes of the identifier
    tokens that immediately follow a [.] or are immediately followed by a [:]; the
    parser stores a lexeme as a property name or key only from such a position
    ([pprogram_keys]: every property name / key of the parsed tree is in [prop_names ts]).

    1. the names in property / key position; the parser invariant;
    2. [rename_tokens_run], [rename_tokens_swap]: from tokens to observables;
    3. examples and counter-examples by computation. *)
From Coq Require Import Lia.
From Borno Require Import Base Num Unicode Token Ast Parser ParserEqs Lexer Value Eval EnvLaws RenameDefs Rename RenameParse.
Local Open Scope N_scope.

(* ================================================================ *)
(** * 1. Names in property / key position *)

Definition is_kind (k : tkind) (t : token) : bool := tkind_eqb (tk t) k.

(** lexemes of the identifier tokens immediately preceded by a DOT token or immediately
    followed by a COLON token *)
Fixpoint prop_names (ts : list token) : list (list N) :=
  match ts with
  | [] => []
  | t :: rest =>
      match rest with
      | n :: _ =>
          (if is_kind TDOT t && is_kind TIDENTIFIER n then [tlex n] else []) ++
          (if is_kind TIDENTIFIER t && is_kind TCOLON n then [tlex t] else [])
      | [] => []
      end ++ prop_names rest
  end.

Section Keys.
(** a property of names, e.g. "fixed by the renaming" or "occurs in [prop_names ts]" *)
Variable K : list N -> Prop.

Definition pn_ok (ts : list token) : Prop := forall x, In x (prop_names ts) -> K x.

Lemma pn_ok_cons t ts : pn_ok (t :: ts) -> pn_ok ts.
Proof. unfold pn_ok. intros H x Hx. apply H. cbn [prop_names]. apply in_or_app. right. exact Hx. Qed.

Lemma pn_ok_tl ts : pn_ok ts -> pn_ok (tl ts).
Proof. destruct ts as [|t ts]; [auto|apply pn_ok_cons]. Qed.

Lemma pn_dot d n ts : pn_ok (d :: n :: ts) -> tk d = TDOT -> tk n = TIDENTIFIER -> K (tlex n).
Proof.
  unfold pn_ok. intros H Hd Hn. apply H. cbn [prop_names]. unfold is_kind. rewrite Hd, Hn.
  cbn. left. reflexivity.
Qed.

Lemma pn_colon n c ts : pn_ok (n :: c :: ts) -> tk n = TIDENTIFIER -> tk c = TCOLON -> K (tlex n).
Proof.
  unfold pn_ok. intros H Hn Hc. apply H. cbn [prop_names]. unfold is_kind. rewrite Hn, Hc.
  cbn. left. reflexivity.
Qed.

(** every property name and object-literal key of a tree satisfies [K] *)
Fixpoint keys_expr (e : expr) : Prop :=
  match e with
  | ELit _ _ => True
  | EId _ _ => True
  | EGroup e' _ => keys_expr e'
  | EUnary _ e' _ => keys_expr e'
  | EBinary _ a b _ => keys_expr a /\ keys_expr b
  | ELogical _ a b => keys_expr a /\ keys_expr b
  | EAssign _ _ v _ => keys_expr v
  | EArrAssign a i v _ => keys_expr a /\ keys_expr i /\ keys_expr v
  | EPropAssign o p v _ => keys_expr o /\ K p /\ keys_expr v
  | ECall c _ args => keys_expr c /\ all_P keys_expr args
  | EIndex a i _ => keys_expr a /\ keys_expr i
  | EProp o p _ => keys_expr o /\ K p
  | EArray es => all_P keys_expr es
  | EObject ps => all_P (fun kv => K (fst kv) /\ keys_expr (snd kv)) ps
  end.

Definition keys_props (ps : list (list N * expr)) : Prop :=
  all_P (fun kv => K (fst kv) /\ keys_expr (snd kv)) ps.

Definition keys_oexpr (o : option expr) : Prop :=
  match o with Some e => keys_expr e | None => True end.

Definition keys_vdecl (d : vdecl) : Prop := let '(_, init, _) := d in keys_oexpr init.

Fixpoint keys_stmt (st : stmt) : Prop :=
  match st with
  | SExpr e => keys_expr e
  | SPrint e => keys_expr e
  | SVar d => keys_vdecl d
  | SVarList ds => all_P keys_vdecl ds
  | SBlock ss => all_P keys_stmt ss
  | SIf c t e => keys_expr c /\ keys_stmt t /\ match e with Some e' => keys_stmt e' | None => True end
  | SWhile c b => keys_expr c /\ keys_stmt b
  | SFor init c inc b =>
      match init with Some i => keys_stmt i | None => True end /\ keys_expr c /\ keys_oexpr inc /\ keys_stmt b
  | SBreak _ => True
  | SContinue _ => True
  | SReturn _ v => keys_oexpr v
  | SFun _ _ body => all_P keys_stmt body
  end.

Definition keys_ostmt (o : option stmt) : Prop :=
  match o with Some s => keys_stmt s | None => True end.

Lemma keys_mk_bin b op e1 e2 : keys_expr e1 -> keys_expr e2 -> keys_expr (mk_bin b op e1 e2).
Proof. intros H1 H2. unfold mk_bin. destruct b; cbn [keys_expr]; split; assumption. Qed.

Lemma keys_props_put acc k v : keys_props acc -> K k -> keys_expr v -> keys_props (props_put acc k v).
Proof.
  unfold keys_props. intros Ha Hk Hv. induction acc as [|[k' v'] acc IH]; cbn [props_put all_P fst snd].
  - auto.
  - cbn [all_P fst snd] in Ha. destruct Ha as [[Hk' Hv'] Ha].
    destruct (str_eqb k k'); cbn [all_P fst snd]; auto.
Qed.

(* ---------------------------------------------------------------- *)
(** ** the parser invariant *)

Section WithEof.
Variable eofl : N.

Notation pexpr := (Parser.pexpr eofl).
Notation plevel := (Parser.plevel eofl).
Notation ploop := (Parser.ploop eofl).
Notation punary := (Parser.punary eofl).
Notation pcallloop := (Parser.pcallloop eofl).
Notation pargs := (Parser.pargs eofl).
Notation pprimary := (Parser.pprimary eofl).
Notation pprops := (Parser.pprops eofl).
Notation pvardecls := (Parser.pvardecls eofl).
Notation pparams := (Parser.pparams eofl).
Notation pdecl := (Parser.pdecl eofl).
Notation pstmt := (Parser.pstmt eofl).
Notation pblock := (Parser.pblock eofl).
Notation pprogram := (Parser.pprogram eofl).
Notation pvar := (Parser.pvar eofl).
Notation pexprstmt := (Parser.pexprstmt eofl).
Notation consume := (Parser.consume eofl).
Notation consume_lenient := (Parser.consume_lenient eofl).
Notation perr_at := (Parser.perr_at eofl).

(** a successful result has a good value and a good rest *)
Definition pinv {A} (P : A -> Prop) (x : pres A) : Prop :=
  match x with POk a rest _ => P a /\ pn_ok rest | _ => True end.

Lemma pinv_bind {A B} (P : A -> Prop) (Q : B -> Prop) (x : pres A) (k : A -> list token -> pres B) :
  pinv P x ->
  (forall a rest ds, x = POk a rest ds -> P a -> pn_ok rest -> pinv Q (k a rest)) ->
  pinv Q (pbind x k).
Proof.
  intros H Hk. destruct x as [a rest ds|ds|]; simpl; try exact I.
  destruct H as [Ha Hr]. specialize (Hk a rest ds eq_refl Ha Hr).
  destruct (k a rest); simpl; auto.
Qed.

Lemma pinv_consume k pk ts : pn_ok ts -> pinv (fun _ : token => True) (consume k pk ts).
Proof.
  intros H. unfold Parser.consume, Parser.perr_at. destruct ts as [|t ts]; [exact I|].
  destruct (tkind_eqb (tk t) k); [|exact I]. split; [exact I|]. eapply pn_ok_cons. exact H.
Qed.

Lemma pinv_lenient {A} (P : A -> Prop) k pk (a : A) ts : P a -> pn_ok ts ->
  pinv P (let '(r2, ds) := consume_lenient k pk ts in POk a r2 ds).
Proof.
  intros Ha H. unfold Parser.consume_lenient. destruct ts as [|t ts]; [split; assumption|].
  destruct (tkind_eqb (tk t) k); split; try assumption. eapply pn_ok_cons. exact H.
Qed.

Lemma pinv_perr_at {A} (P : A -> Prop) k ts : pinv P (perr_at ts k).
Proof. exact I. Qed.

(** the invariant of a parsed value, by its type *)
Ltac inv_for A :=
  lazymatch A with
  | token => constr:(fun _ : token => True)
  | expr => constr:(keys_expr)
  | list expr => constr:(all_P keys_expr)
  | option expr => constr:(keys_oexpr)
  | list (list N * expr) => constr:(keys_props)
  | list vdecl => constr:(all_P keys_vdecl)
  | list (list N * option expr * N) => constr:(all_P keys_vdecl)
  | list (list N) => constr:(fun _ : list (list N) => True)
  | stmt => constr:(keys_stmt)
  | option stmt => constr:(keys_ostmt)
  | list stmt => constr:(all_P keys_stmt)
  end.

Ltac k_open :=
  cbn [keys_expr keys_stmt keys_oexpr keys_ostmt keys_vdecl keys_props all_P fst snd] in *;
  repeat match goal with H : _ /\ _ |- _ => destruct H end.

Ltac k_side :=
  k_open;
  repeat match goal with |- _ /\ _ => split end;
  first
  [ exact I
  | assumption
  | eapply pn_ok_tl; eassumption
  | eapply pn_ok_cons; eassumption
  | eapply pn_dot; eassumption
  | eapply pn_colon; eassumption
  | apply keys_mk_bin; assumption
  | apply keys_props_put; k_side ].

Ltac k_leaf :=
  first
  [ exact I
  | match goal with IH : forall _, _ |- pinv _ _ => apply IH; k_side end
  | apply pinv_consume; k_side
  | apply pinv_lenient; k_side
  | match goal with |- pinv _ (POk _ _ _) =>
      try match goal with |- context [SFor _ (match ?o with Some _ => _ | None => _ end) _ _] => destruct o end;
      cbn [pinv]; split; k_side end ].

Ltac k_step :=
  cbv zeta;
  match goal with
  | |- pinv _ (@pbind ?A _ _ _) =>
      let P := inv_for A in
      let a := fresh "a" in let rest := fresh "rest" in let ds := fresh "ds" in
      let E := fresh "E" in let Ha := fresh "Ha" in let Hr := fresh "Hr" in
      eapply (pinv_bind P);
        [ | intros a rest ds E Ha Hr;
            first [ apply consume_inv in E; destruct E as (E & ? & _); try (injection E as ? ?); subst
                  | clear E ] ]
  | |- pinv _ (match ?x with _ => _ end) =>
      first [ apply pinv_lenient; k_side
            | is_var x; destruct x; k_open
            | let K := fresh "K" in destruct x eqn:K ]
  | |- pinv _ (if ?x then _ else _) =>
      let K := fresh "K" in destruct x eqn:K
  | |- pinv _ _ => k_leaf
  end.

Ltac k_go := repeat k_step.

Definition ExprKeys (f : nat) : Prop :=
  (forall ts, pn_ok ts -> pinv keys_expr (pexpr f ts)) /\
  (forall lv ts, pn_ok ts -> pinv keys_expr (plevel f lv ts)) /\
  (forall l lv e ts, keys_expr e -> pn_ok ts -> pinv keys_expr (ploop f l lv e ts)) /\
  (forall ts, pn_ok ts -> pinv keys_expr (punary f ts)) /\
  (forall e ts, keys_expr e -> pn_ok ts -> pinv keys_expr (pcallloop f e ts)) /\
  (forall ts, pn_ok ts -> pinv (all_P keys_expr) (pargs f ts)) /\
  (forall ts, pn_ok ts -> pinv keys_expr (pprimary f ts)) /\
  (forall acc ts, keys_props acc -> pn_ok ts -> pinv keys_props (pprops f acc ts)).

Lemma expr_keys_all : forall f, ExprKeys f.
Proof.
  induction f as [|f IH].
  - unfold ExprKeys. repeat split; intros; exact I.
  - destruct IH as (Ie & Il & Ilo & Iu & Ic & Ia & Ipr & Ipp).
    unfold ExprKeys. split; [|split; [|split; [|split; [|split; [|split; [|split]]]]]].
    + intros ts H. rewrite pexpr_S. k_go.
    + intros lv ts H. rewrite plevel_S. k_go.
    + intros l lv e ts He H. rewrite ploop_S. k_go.
    + intros ts H. rewrite punary_S. k_go.
    + intros e ts He H. rewrite pcallloop_S. k_go.
    + intros ts H. rewrite pargs_S. k_go.
    + intros ts H. rewrite pprimary_S. k_go.
    + intros acc ts Hacc H. rewrite pprops_S. k_go.
Qed.

Lemma pexpr_keys_inv f ts : pn_ok ts -> pinv keys_expr (pexpr f ts).
Proof. apply (expr_keys_all f). Qed.

Lemma pvardecls_keys : forall f l0 ts, pn_ok ts -> pinv (all_P keys_vdecl) (pvardecls f l0 ts).
Proof.
  induction f as [|f IH]; intros l0 ts H; [exact I|].
  pose proof (pexpr_keys_inv f) as Ie. specialize (IH l0).
  rewrite pvardecls_S. k_go.
Qed.

Lemma pvar_keys f ts : pn_ok ts -> pinv keys_stmt (pvar f ts).
Proof.
  intros H. pose proof (pvardecls_keys f) as Iv. unfold Parser.pvar. k_go.
Qed.

Lemma pexprstmt_keys f ts : pn_ok ts -> pinv keys_stmt (pexprstmt f ts).
Proof.
  intros H. pose proof (pexpr_keys_inv f) as Ie. unfold Parser.pexprstmt. k_go.
Qed.

Lemma pparams_keys : forall f n ts, pn_ok ts -> pinv (fun _ : list (list N) => True) (pparams f n ts).
Proof.
  induction f as [|f IH]; intros n ts H; [exact I|].
  rewrite pparams_S. k_go.
Qed.

Definition StmtKeys (f : nat) : Prop :=
  (forall ts, pn_ok ts -> pinv keys_stmt (pdecl f ts)) /\
  (forall ts, pn_ok ts -> pinv keys_stmt (pstmt f ts)) /\
  (forall ts, pn_ok ts -> pinv (all_P keys_stmt) (pblock f ts)).

Lemma stmt_keys_all : forall f, StmtKeys f.
Proof.
  induction f as [|f IH].
  - unfold StmtKeys. repeat split; intros; exact I.
  - destruct IH as (Id & Is & Ib).
    pose proof (pexpr_keys_inv f) as Ie. pose proof (pvar_keys f) as Iv.
    pose proof (pexprstmt_keys f) as Ix. pose proof (pparams_keys f) as Ip.
    unfold StmtKeys. split; [|split].
    + intros ts H. rewrite pdecl_S. k_go.
    + intros ts H. rewrite pstmt_S. k_go.
    + intros ts H. rewrite pblock_S. k_go.
Qed.

Lemma pprogram_keys_inv : forall f ts, pn_ok ts -> pinv (all_P keys_stmt) (pprogram f ts).
Proof.
  induction f as [|f IH]; intros ts H; [exact I|].
  pose proof (proj1 (stmt_keys_all f)) as Id.
  rewrite pprogram_S. k_go.
Qed.

End WithEof.
End Keys.

(** Every property name and object-literal key of a parsed expression / program is the
    lexeme of an identifier token right after a [.] or right before a [:]. *)
Theorem pexpr_keys eofl f ts e rest ds :
  pexpr eofl f ts = POk e rest ds -> keys_expr (fun x => In x (prop_names ts)) e.
Proof.
  intros H. pose proof (pexpr_keys_inv (fun x => In x (prop_names ts)) eofl f ts (fun x Hx => Hx)) as P.
  rewrite H in P. exact (proj1 P).
Qed.

Theorem pprogram_keys eofl f ts ss rest ds :
  pprogram eofl f ts = POk ss rest ds -> Forall (keys_stmt (fun x => In x (prop_names ts))) ss.
Proof.
  intros H. pose proof (pprogram_keys_inv (fun x => In x (prop_names ts)) eofl f ts (fun x Hx => Hx)) as P.
  rewrite H in P. apply all_P_Forall. exact (proj1 P).
Qed.

Theorem parse_keys eofl ts prog :
  pr_prog (parse ts eofl) = Some prog -> Forall (keys_stmt (fun x => In x (prop_names ts))) prog.
Proof.
  unfold parse. destruct (pprogram eofl (parse_fuel ts) ts) as [ss rest ds|ds|] eqn:E; cbn [pr_prog]; try discriminate.
  intros H. injection H as <-. eapply pprogram_keys. exact E.
Qed.

(* ---------------------------------------------------------------- *)
(** ** when the renaming fixes the property names and keys, the two tree renamings agree *)

Section Fixed.
Variable r : list N -> list N.
Notation fixed := (fun x : list N => r x = x).

Fixpoint ren_expr_all_fixed (e : expr) {struct e} :
  keys_expr fixed e -> ren_expr_all r e = ren_expr r e.
Proof.
  destruct e as [v line|x line|e' line|op e' line|op a b line|op a b|x nline v line|a i v line|o p v line
                |c pline args|a i line|o p line|es|ps];
    cbn [keys_expr ren_expr_all ren_expr]; intros H.
  - reflexivity.
  - reflexivity.
  - rewrite (ren_expr_all_fixed e' H). reflexivity.
  - rewrite (ren_expr_all_fixed e' H). reflexivity.
  - destruct H as [H1 H2]. rewrite (ren_expr_all_fixed a H1), (ren_expr_all_fixed b H2). reflexivity.
  - destruct H as [H1 H2]. rewrite (ren_expr_all_fixed a H1), (ren_expr_all_fixed b H2). reflexivity.
  - rewrite (ren_expr_all_fixed v H). reflexivity.
  - destruct H as (H1 & H2 & H3).
    rewrite (ren_expr_all_fixed a H1), (ren_expr_all_fixed i H2), (ren_expr_all_fixed v H3). reflexivity.
  - destruct H as (H1 & H2 & H3).
    rewrite (ren_expr_all_fixed o H1), (ren_expr_all_fixed v H3), H2. reflexivity.
  - destruct H as [H1 H2]. rewrite (ren_expr_all_fixed c H1). f_equal.
    induction args as [|a args IHa]; cbn [map all_P] in *; [reflexivity|].
    destruct H2 as [Ha Hargs]. rewrite (ren_expr_all_fixed a Ha), (IHa Hargs). reflexivity.
  - destruct H as [H1 H2]. rewrite (ren_expr_all_fixed a H1), (ren_expr_all_fixed i H2). reflexivity.
  - destruct H as [H1 H2]. rewrite (ren_expr_all_fixed o H1), H2. reflexivity.
  - f_equal. induction es as [|a es IHa]; cbn [map all_P] in *; [reflexivity|].
    destruct H as [Ha Hes]. rewrite (ren_expr_all_fixed a Ha), (IHa Hes). reflexivity.
  - f_equal. induction ps as [|[k v] ps IHp]; cbn [map all_P fst snd] in *; [reflexivity|].
    destruct H as [[Hk Hv] Hps]. rewrite (ren_expr_all_fixed v Hv), Hk, (IHp Hps). reflexivity.
Qed.

Lemma ren_oexpr_all_fixed o : keys_oexpr fixed o -> option_map (ren_expr_all r) o = ren_oexpr r o.
Proof. destruct o as [e|]; cbn; intros H; [rewrite (ren_expr_all_fixed e H)|]; reflexivity. Qed.

Lemma ren_vdecl_all_fixed d : keys_vdecl fixed d -> ren_vdecl_all r d = ren_vdecl r d.
Proof.
  destruct d as [[x init] line]. cbn [keys_vdecl ren_vdecl_all ren_vdecl]. intros H.
  rewrite (ren_oexpr_all_fixed init H). reflexivity.
Qed.

Fixpoint ren_stmt_all_fixed (st : stmt) {struct st} :
  keys_stmt fixed st -> ren_stmt_all r st = ren_stmt r st.
Proof.
  destruct st as [e|e|d|ds|ss|c t el|c b|init c inc b|line|line|kw v|name params body];
    cbn [keys_stmt ren_stmt_all ren_stmt]; intros H.
  - rewrite (ren_expr_all_fixed e H). reflexivity.
  - rewrite (ren_expr_all_fixed e H). reflexivity.
  - rewrite (ren_vdecl_all_fixed d H). reflexivity.
  - f_equal. induction ds as [|d ds IHd]; cbn [map all_P] in *; [reflexivity|].
    destruct H as [Hd Hds]. rewrite (ren_vdecl_all_fixed d Hd), (IHd Hds). reflexivity.
  - f_equal. induction ss as [|a ss IHs]; cbn [map all_P] in *; [reflexivity|].
    destruct H as [Ha Hss]. rewrite (ren_stmt_all_fixed a Ha), (IHs Hss). reflexivity.
  - destruct H as (H1 & H2 & H3). rewrite (ren_expr_all_fixed c H1), (ren_stmt_all_fixed t H2).
    destruct el as [e'|]; [rewrite (ren_stmt_all_fixed e' H3)|]; reflexivity.
  - destruct H as (H1 & H2). rewrite (ren_expr_all_fixed c H1), (ren_stmt_all_fixed b H2). reflexivity.
  - destruct H as (H1 & H2 & H3 & H4).
    rewrite (ren_expr_all_fixed c H2), (ren_oexpr_all_fixed inc H3), (ren_stmt_all_fixed b H4).
    destruct init as [i|]; [rewrite (ren_stmt_all_fixed i H1)|]; reflexivity.
  - reflexivity.
  - reflexivity.
  - rewrite (ren_oexpr_all_fixed v H). reflexivity.
  - f_equal. induction body as [|a body IHb]; cbn [map all_P] in *; [reflexivity|].
    destruct H as [Ha Hb]. rewrite (ren_stmt_all_fixed a Ha), (IHb Hb). reflexivity.
Qed.

End Fixed.

(* ================================================================ *)
(** * 2. From tokens to observable behaviour *)

Section Run.
Variable r : list N -> list N.
Hypothesis r_inj : forall a b, r a = r b -> a = b.
Hypothesis r_native : forall n, r (native_name n) = native_name n.
Hypothesis r_input : r input_ascii = input_ascii.

Variable libm : N -> f64 -> f64 -> f64.
Variable clock : f64.
Variable sched : N -> list (list N * value) -> list (list N * value).

Let r_reserved : forall x, In (r x) reserved_names <-> In x reserved_names :=
  r_reserved_of_native r r_inj r_native r_input.

(** An accepted token list whose property names and keys the renaming fixes: the
    renamed token list is accepted, and its tree is the [ren_stmt]-renamed tree (the
    renaming the evaluator theorem is about). *)
Theorem parse_rename_fixed eofl ts prog :
  (forall x, In x (prop_names ts) -> r x = x) ->
  accepts eofl ts prog ->
  accepts eofl (map (ren_tok r) ts) (map (ren_stmt r) prog).
Proof.
  intros Hpn Hacc.
  pose proof (parse_rename_accepted r eofl r_inj r_reserved ts prog Hacc) as H.
  replace (map (ren_stmt r) prog) with (map (ren_stmt_all r) prog); [exact H|].
  destruct Hacc as [_ Hp]. unfold parse in Hp.
  pose proof (pprogram_keys_inv (fun x => r x = x) eofl (parse_fuel ts) ts Hpn) as Kp.
  destruct (pprogram eofl (parse_fuel ts) ts) as [ss rest ds|ds|]; cbn [pr_prog] in Hp; try discriminate Hp.
  injection Hp as <-. destruct Kp as [Kp _]. clear H.
  induction ss as [|st ss IH]; cbn [map all_P] in *; [reflexivity|].
  destruct Kp as [K1 K2]. rewrite (ren_stmt_all_fixed r st K1), (IH K2). reflexivity.
Qed.

(** (P3) Alpha-renaming from tokens to behaviour.  [ts] is accepted with tree [prog];
    [r] is injective, fixes the built-in names and the word input, the function names
    of [prog] and the identifier lexemes of [ts] in property / key position.  Then the
    token list with every identifier lexeme renamed is accepted too, and the program
    parsed from it, run from the initial store on the same input, has the same
    observables: same ending (same runtime diagnostic at the same line), same output,
    same unread input, same iteration count. *)
Theorem rename_tokens_run f repl eofl ts prog stdin :
  accepts eofl ts prog ->
  Forall (nf_stmt r) prog ->
  (forall x, In x (prop_names ts) -> r x = x) ->
  exists prog',
    accepts eofl (map (ren_tok r) ts) prog' /\
    prog' = map (ren_stmt r) prog /\
    observables (run_stmts libm clock sched f repl prog' (init_state stdin)) =
    observables (run_stmts libm clock sched f repl prog (init_state stdin)).
Proof.
  intros Hacc Hnf Hpn. exists (map (ren_stmt r) prog).
  split; [apply parse_rename_fixed; assumption|]. split; [reflexivity|].
  apply rename_run_observables; assumption.
Qed.

(** the same, read off the result of [parse] on the renamed token list *)
Corollary rename_tokens_run_parse f repl eofl ts prog stdin :
  pr_diags (parse ts eofl) = [] -> pr_prog (parse ts eofl) = Some prog ->
  Forall (nf_stmt r) prog ->
  (forall x, In x (prop_names ts) -> r x = x) ->
  pr_diags (parse (map (ren_tok r) ts) eofl) = [] /\
  match pr_prog (parse (map (ren_tok r) ts) eofl) with
  | Some prog' =>
      observables (run_stmts libm clock sched f repl prog' (init_state stdin)) =
      observables (run_stmts libm clock sched f repl prog (init_state stdin))
  | None => False
  end.
Proof.
  intros Hd Hp Hnf Hpn.
  destruct (rename_tokens_run f repl eofl ts prog stdin (conj Hd Hp) Hnf Hpn) as (prog' & [Hd' Hp'] & _ & Ho).
  split; [exact Hd'|]. rewrite Hp'. exact Ho.
Qed.

End Run.

(** the swap of two names that are not reserved words, not function names of the
    program and not in property / key position in the token list *)
Section SwapTokens.
Variable libm : N -> f64 -> f64 -> f64.
Variable clock : f64.
Variable sched : N -> list (list N * value) -> list (list N * value).
Variables x y : list N.
Hypothesis x_not_reserved : ~ In x reserved_names.
Hypothesis y_not_reserved : ~ In y reserved_names.

Lemma swap_fixes_reserved z : In z reserved_names -> swap x y z = z.
Proof. intros Hz. apply swap_fix; intros ->; contradiction. Qed.

Lemma swap_native_name n : swap x y (native_name n) = native_name n.
Proof. apply swap_fixes_reserved. apply reserved_names_char. right. exists n. reflexivity. Qed.

Lemma swap_input : swap x y input_ascii = input_ascii.
Proof. apply swap_fixes_reserved. apply reserved_names_char. left. reflexivity. Qed.

Theorem rename_tokens_swap f repl eofl ts prog stdin :
  accepts eofl ts prog ->
  Forall (fun_names_ok (fun n => n <> x /\ n <> y)) prog ->
  ~ In x (prop_names ts) -> ~ In y (prop_names ts) ->
  exists prog',
    accepts eofl (map (ren_tok (swap x y)) ts) prog' /\
    prog' = map (ren_stmt (swap x y)) prog /\
    observables (run_stmts libm clock sched f repl prog' (init_state stdin)) =
    observables (run_stmts libm clock sched f repl prog (init_state stdin)).
Proof.
  intros Hacc Hfn Hx Hy.
  apply (rename_tokens_run (swap x y) (swap_inj x y) swap_native_name swap_input); [exact Hacc| |].
  - eapply Forall_impl; [|exact Hfn]. intros st Hst.
    apply (nf_stmt_of_ok (swap x y) (fun n => n <> x /\ n <> y)); [|exact Hst].
    intros n [H1 H2]. apply swap_fix; assumption.
  - intros z Hz. apply swap_fix; intros ->; contradiction.
Qed.

End SwapTokens.

(* ================================================================ *)
(** * 3. A concrete text, lexed, renamed, parsed and run both ways *)


(**  ধরি a = "hi"; ধরি o = {k: a}; ফাংশন f(p) { ফেরত p + o.k; } দেখাও f(a); দেখাও o;
     (a = 97, b = 98, f = 102, j = 106, k = 107, o = 111, p = 112) *)
Definition ex_src : list N :=
  [2471;2480;2495;32;97;32;61;32;34;104;105;34;59;32;
   2471;2480;2495;32;111;32;61;32;123;107;58;32;97;125;59;32;
   2475;2494;2434;2486;2472;32;102;40;112;41;32;123;32;2475;2503;2480;2468;32;112;32;43;32;111;46;107;59;32;125;32;
   2470;2503;2454;2494;2451;32;102;40;97;41;59;32;
   2470;2503;2454;2494;2451;32;111;59].

Definition ex_toks : list token := lx_tokens (lex ex_src).
Definition ex_eofl : N := lx_eof_line (lex ex_src).
Definition ex_prog : list stmt :=
  match pr_prog (parse ex_toks ex_eofl) with Some p => p | None => [] end.

Example ex_lexes : lx_diags (lex ex_src) = [] /\ length ex_toks = 37%nat.
Proof. split; vm_compute; reflexivity. Qed.

Example ex_accepts : accepts ex_eofl ex_toks ex_prog.
Proof. split; vm_compute; reflexivity. Qed.

(** the only identifier lexeme in property / key position is k (twice) *)
Example ex_prop_names : prop_names ex_toks = [[107]; [107]].
Proof. vm_compute. reflexivity. Qed.

(** the swap a <-> b changes six tokens ... *)
Example ex_renamed_lexemes :
  map tlex (filter (is_kind TIDENTIFIER) ex_toks) =
    [[97]; [111]; [107]; [97]; [102]; [112]; [112]; [111]; [107]; [102]; [97]; [111]] /\
  map tlex (filter (is_kind TIDENTIFIER) (map (ren_tok (swap [97] [98])) ex_toks)) =
    [[98]; [111]; [107]; [98]; [102]; [112]; [112]; [111]; [107]; [102]; [98]; [111]].
Proof. split; vm_compute; reflexivity. Qed.

(** ... and parsing the renamed tokens gives the renamed tree (by computation) ... *)
Example ex_parse_renamed :
  pr_prog (parse (map (ren_tok (swap [97] [98])) ex_toks) ex_eofl) = Some (map (ren_stmt (swap [97] [98])) ex_prog) /\
  pr_diags (parse (map (ren_tok (swap [97] [98])) ex_toks) ex_eofl) = [] /\
  map (ren_stmt (swap [97] [98])) ex_prog <> ex_prog.
Proof.
  split; [vm_compute; reflexivity|]. split; [vm_compute; reflexivity|].
  vm_compute. discriminate.
Qed.

(** ... both programs print "hihi" and "map[k:hi]" (by computation, dummy oracles) ... *)
Example ex_runs :
  observables (run_stmts libm_d f_zero sched_d 50 false ex_prog (init_state [])) =
    (EndOk, Some ([EvPrint [109;97;112;91;107;58;104;105;93]; EvPrint [104;105;104;105]], [], 0)) /\
  match pr_prog (parse (map (ren_tok (swap [97] [98])) ex_toks) ex_eofl) with
  | Some prog' =>
      observables (run_stmts libm_d f_zero sched_d 50 false prog' (init_state [])) =
        (EndOk, Some ([EvPrint [109;97;112;91;107;58;104;105;93]; EvPrint [104;105;104;105]], [], 0))
  | None => False
  end.
Proof. split; vm_compute; reflexivity. Qed.

(** ... and by the theorem: for every oracle, fuel, mode and input *)
Example ex_fun_names_ok : Forall (fun_names_ok (fun n => n <> [97] /\ n <> [98])) ex_prog.
Proof.
  unfold ex_prog. set (p := pr_prog (parse ex_toks ex_eofl)). vm_compute in p. subst p. cbv beta iota.
  repeat first [ exact I | discriminate | split | constructor ].
Qed.

Example ex_invariant libm clock sched f repl stdin :
  exists prog',
    accepts ex_eofl (map (ren_tok (swap [97] [98])) ex_toks) prog' /\
    prog' = map (ren_stmt (swap [97] [98])) ex_prog /\
    observables (run_stmts libm clock sched f repl prog' (init_state stdin)) =
    observables (run_stmts libm clock sched f repl ex_prog (init_state stdin)).
Proof.
  apply rename_tokens_swap.
  - vm_compute. intuition discriminate.
  - vm_compute. intuition discriminate.
  - exact ex_accepts.
  - exact ex_fun_names_ok.
  - rewrite ex_prop_names. cbn. intuition discriminate.
  - rewrite ex_prop_names. cbn. intuition discriminate.
Qed.

(** a computable test for [fixes_other_lexemes] *)
Lemma fixes_other_check (r : list N -> list N) ts :
  forallb (fun t => tkind_eqb (tk t) TIDENTIFIER || str_eqb (r (tlex t)) (tlex t)) ts = true ->
  fixes_other_lexemes r ts.
Proof.
  intros H t Ht Hk. rewrite forallb_forall in H. specialize (H t Ht).
  apply Bool.orb_true_iff in H. destruct H as [H|H].
  - apply tkind_eqb_eq in H. contradiction.
  - apply str_eqb_eq. exact H.
Qed.

(** a text with a syntax error at an identifier:  দেখাও a a;  -- the diagnostic "expected
    ; after value" quotes a; in the renamed text it quotes b (by the theorem, then by
    computation) *)
Definition ex_bad : list N := [2470;2503;2454;2494;2451;32;97;32;97;59].

Example ex_bad_diags_thm :
  let ts := lx_tokens (lex ex_bad) in
  pr_diags (parse (map (ren_tok (swap [97] [98])) ts) 1) = map (map_pd (swap [97] [98])) (pr_diags (parse ts 1)).
Proof.
  intros ts.
  assert (R : forall x, In (swap [97] [98] x) reserved_names <-> In x reserved_names).
  { apply r_reserved_of_native; [apply swap_inj| |].
    - intros n. destruct n; vm_compute; reflexivity.
    - vm_compute. reflexivity. }
  apply (parse_rename_eq (swap [97] [98]) 1 (swap_inj [97] [98]) R ts).
  apply fixes_other_check. vm_compute. reflexivity.
Qed.

Example ex_bad_diags :
  let ts := lx_tokens (lex ex_bad) in
  pr_diags (parse ts 1) = [mkPD 1 (Some [97]) PSemiAfterValue] /\
  pr_diags (parse (map (ren_tok (swap [97] [98])) ts) 1) = [mkPD 1 (Some [98]) PSemiAfterValue].
Proof. split; vm_compute; reflexivity. Qed.

(* ---------------------------------------------------------------- *)
(** ** why the hypotheses are there *)

(** Keys are data.  The swap j <-> k is injective and fixes every reserved word and
    function name, and the renamed token list is accepted with the fully renamed tree
    ([parse_rename_accepted]) -- but that tree is not the [ren_stmt]-renamed one, and it
    prints "map[j:hi]" instead of "map[k:hi]". *)
Example key_renaming_is_observable :
  pr_prog (parse (map (ren_tok (swap [106] [107])) ex_toks) ex_eofl) = Some (map (ren_stmt_all (swap [106] [107])) ex_prog) /\
  map (ren_stmt_all (swap [106] [107])) ex_prog <> map (ren_stmt (swap [106] [107])) ex_prog /\
  observables (run_stmts libm_d f_zero sched_d 50 false (map (ren_stmt_all (swap [106] [107])) ex_prog) (init_state [])) =
    (EndOk, Some ([EvPrint [109;97;112;91;106;58;104;105;93]; EvPrint [104;105;104;105]], [], 0)) /\
  observables (run_stmts libm_d f_zero sched_d 50 false (map (ren_stmt_all (swap [106] [107])) ex_prog) (init_state [])) <>
  observables (run_stmts libm_d f_zero sched_d 50 false ex_prog (init_state [])).
Proof.
  split; [vm_compute; reflexivity|]. split; [vm_compute; discriminate|].
  split; [vm_compute; reflexivity|]. vm_compute. discriminate.
Qed.

(** The reserved-word hypothesis.  The swap a <-> input is injective and fixes the 17
    built-in names (the hypotheses of the evaluator theorem), but "input" may not be
    declared: the renamed text is rejected. *)
Example reserved_word_counterexample :
  (forall n, swap [97] input_ascii (native_name n) = native_name n) /\
  pr_diags (parse ex_toks ex_eofl) = [] /\
  pr_prog (parse (map (ren_tok (swap [97] input_ascii)) ex_toks) ex_eofl) = None /\
  pr_diags (parse (map (ren_tok (swap [97] input_ascii)) ex_toks) ex_eofl) = [mkPD 1 (Some input_ascii) PReservedVar].
Proof.
  split; [intros n; destruct n; vm_compute; reflexivity|].
  split; [vm_compute; reflexivity|]. split; vm_compute; reflexivity.
Qed.

(** The diagnostics of the renamed token list are not [map_pd r] ([option_map r] on the
    quoted lexeme) of the original ones: a diagnostic may quote a token that is not an
    identifier, and such a token is not renamed.  Here [r] swaps the lexemes ";" and
    "a", the text is ";" alone.  ([pprogram_rename_eq] needs [fixes_other_lexemes].) *)
Example map_pd_is_false :
  let ts := lx_tokens (lex [59]) in
  let r := swap [59] [97] in
  pr_diags (parse ts 1) = [mkPD 1 (Some [59]) PExpectExpr] /\
  pr_diags (parse (map (ren_tok r) ts) 1) = [mkPD 1 (Some [59]) PExpectExpr] /\
  map (map_pd r) (pr_diags (parse ts 1)) = [mkPD 1 (Some [97]) PExpectExpr].
Proof. split; [|split]; vm_compute; reflexivity. Qed.

(* ---------------------------------------------------------------- *)
Print Assumptions pprogram_keys.
Print Assumptions parse_keys.
Print Assumptions parse_rename_fixed.
Print Assumptions rename_tokens_run.
Print Assumptions rename_tokens_swap.
Print Assumptions ex_invariant.
