(** Facts about the scanner model [Model/Lexer.v], for ALL texts (no length bound).

    Scheme (as in design_spikes/LexerSpike.v): one exact characterisation of a single
    scanner step ([scan1_iff]: [scan1] is the relation [step], one constructor per
    branch, carrying the branch's path condition), per-step lemmas read off it, then
    short inductions over the item list.

    The end-of-input token is not an element of the token list in the model: it is
    represented by [lx_eof_line] (see [lex_total] at the end). *)
From Borno Require Import Base Num Unicode Token Lexer.
Open Scope N_scope.

Arguments is_alpha : simpl never.
Arguments is_digit : simpl never.
Arguments is_alnum : simpl never.
Arguments is_letter : simpl never.
Arguments is_mark : simpl never.
Arguments literal_value : simpl never.
Arguments keyword_of : simpl never.
Arguments two_char : simpl never.
Arguments one_char : simpl never.
Arguments count_nl : simpl never.

(* ------------------------------------------------------------------ *)
(** * [span] *)

Lemma span_app {A} (p : A -> bool) : forall l a b, span p l = (a, b) -> l = a ++ b.
Proof.
  induction l as [|c r IH]; simpl; intros a b H.
  - inversion H; reflexivity.
  - destruct (p c).
    + destruct (span p r) as [a' b'] eqn:E. inversion H; subst a b. simpl. f_equal. apply IH. reflexivity.
    + inversion H; reflexivity.
Qed.

Lemma span_forallb {A} (p : A -> bool) : forall l a b, span p l = (a, b) -> forallb p a = true.
Proof.
  induction l as [|c r IH]; simpl; intros a b H.
  - inversion H; reflexivity.
  - destruct (p c) eqn:PC.
    + destruct (span p r) as [a' b'] eqn:E. inversion H; subst a b. simpl. rewrite PC. simpl. eapply IH. reflexivity.
    + inversion H; reflexivity.
Qed.

Lemma span_rest {A} (p : A -> bool) : forall l a b, span p l = (a, b) ->
  b = [] \/ exists c r, b = c :: r /\ p c = false.
Proof.
  induction l as [|c r IH]; simpl; intros a b H.
  - inversion H; auto.
  - destruct (p c) eqn:PC.
    + destruct (span p r) as [a' b'] eqn:E. inversion H; subst a b. eapply IH. reflexivity.
    + inversion H; subst a b. right. exists c, r. auto.
Qed.

(** what [span] computes: the longest prefix satisfying [p] *)
Lemma span_spec {A} (p : A -> bool) l a b : span p l = (a, b) ->
  l = a ++ b /\ forallb p a = true /\ (b = [] \/ exists c r, b = c :: r /\ p c = false).
Proof.
  intros H. split; [|split]; [eapply span_app|eapply span_forallb|eapply span_rest]; exact H.
Qed.

(** conversely a prefix satisfying [p] followed by nothing or by a [p]-failing element is what [span] returns *)
Lemma span_intro {A} (p : A -> bool) : forall a b, forallb p a = true ->
  match b with c :: _ => p c = false | [] => True end -> span p (a ++ b) = (a, b).
Proof.
  induction a as [|x a IH]; simpl; intros b Ha Hb.
  - destruct b as [|c r]; simpl; [reflexivity|]. rewrite Hb. reflexivity.
  - apply andb_true_iff in Ha. destruct Ha as [Hx Ha]. rewrite Hx. rewrite (IH b Ha Hb). reflexivity.
Qed.

Lemma span_rest_hd {A} (p : A -> bool) l a b : span p l = (a, b) ->
  match b with c :: _ => p c = false | [] => True end.
Proof.
  intros H. destruct (span_rest p l a b H) as [->|(c & r & -> & Hc)]; auto.
Qed.

(* ------------------------------------------------------------------ *)
(** * [count_nl] *)

Lemma count_nl_nil : count_nl [] = 0.
Proof. reflexivity. Qed.

Lemma count_nl_app a b : count_nl (a ++ b) = count_nl a + count_nl b.
Proof. unfold count_nl. rewrite filter_app, app_length. lia. Qed.

Lemma count_nl_cons_nl l : count_nl (10 :: l) = 1 + count_nl l.
Proof. change (10 :: l) with ([10] ++ l). rewrite count_nl_app. reflexivity. Qed.

Lemma count_nl_cons c l : (c =? 10) = false -> count_nl (c :: l) = count_nl l.
Proof. intros H. unfold count_nl. simpl. rewrite H. reflexivity. Qed.

Lemma count_nl_single c : (c =? 10) = false -> count_nl [c] = 0.
Proof. intros H. rewrite count_nl_cons by exact H. reflexivity. Qed.

Lemma count_nl_forallb (p : N -> bool) : (forall x, p x = true -> (x =? 10) = false) ->
  forall l, forallb p l = true -> count_nl l = 0.
Proof.
  intros Hp. induction l as [|x l IH]; simpl; intros H; [reflexivity|].
  apply andb_true_iff in H. destruct H as [Hx Hl]. rewrite count_nl_cons by (apply Hp; exact Hx). apply IH; exact Hl.
Qed.

(* ------------------------------------------------------------------ *)
(** * [block_comment] *)

Lemma block_comment_eq c r : block_comment (c :: r) =
  match r with
  | d :: r' => if (c =? 42) && (d =? 47) then Some ([c; d], r')
               else match block_comment r with Some (b, rest) => Some (c :: b, rest) | None => None end
  | [] => None
  end.
Proof. reflexivity. Qed.

(** a terminated comment body is a prefix of the text and ends with the closer [*/] *)
Lemma block_comment_spec : forall l b rest, block_comment l = Some (b, rest) ->
  l = b ++ rest /\ exists b0, b = b0 ++ [42; 47].
Proof.
  induction l as [|c r IH]; intros b rest H; [discriminate|].
  rewrite block_comment_eq in H. destruct r as [|d r']; [discriminate|].
  destruct ((c =? 42) && (d =? 47)) eqn:E.
  - apply andb_true_iff in E. destruct E as [E1 E2]. apply N.eqb_eq in E1, E2. subst c d.
    inversion H; subst b rest. split; [reflexivity|]. exists []. reflexivity.
  - destruct (block_comment (d :: r')) as [[b' rest']|] eqn:EB; [|discriminate].
    inversion H; subst b rest. destruct (IH b' rest' eq_refl) as [P (b0 & Q)].
    split; [simpl; f_equal; exact P|]. exists (c :: b0). rewrite Q. reflexivity.
Qed.

(** the comment found does not depend on what follows its closer *)
Lemma block_comment_local : forall l b rest, block_comment l = Some (b, rest) ->
  forall rest2, block_comment (b ++ rest2) = Some (b, rest2).
Proof.
  induction l as [|c r IH]; intros b rest H rest2; [discriminate|].
  rewrite block_comment_eq in H. destruct r as [|d r']; [discriminate|].
  destruct ((c =? 42) && (d =? 47)) eqn:E.
  - inversion H; subst b rest. simpl app. rewrite block_comment_eq. rewrite E. reflexivity.
  - destruct (block_comment (d :: r')) as [[b' rest']|] eqn:EB; [|discriminate].
    inversion H; subst b rest. pose proof (IH b' rest' eq_refl rest2) as IH2.
    destruct (block_comment_spec _ _ _ EB) as [P (b0 & Q)].
    destruct b' as [|d' b'']; [destruct b0; discriminate Q|].
    simpl in P. inversion P; subst d'.
    simpl app. rewrite block_comment_eq. simpl app in IH2. rewrite E. rewrite IH2. reflexivity.
Qed.

(** an unterminated comment stays unterminated when a character other than [/] is appended *)
Lemma block_comment_none_snoc : forall l w, block_comment l = None -> (w =? 47) = false ->
  block_comment (l ++ [w]) = None.
Proof.
  induction l as [|c r IH]; intros w H Hw; [reflexivity|].
  rewrite block_comment_eq in H. simpl app. rewrite block_comment_eq.
  destruct r as [|d r'].
  - simpl. rewrite Hw. rewrite andb_false_r. reflexivity.
  - destruct ((c =? 42) && (d =? 47)) eqn:E; [discriminate|].
    destruct (block_comment (d :: r')) as [[b' rest']|] eqn:EB; [discriminate|].
    change ((d :: r') ++ [w]) with (d :: (r' ++ [w])). cbv iota. rewrite E.
    change (d :: (r' ++ [w])) with ((d :: r') ++ [w]). rewrite (IH w eq_refl Hw). reflexivity.
Qed.

(* ------------------------------------------------------------------ *)
(** * One scanner step as a relation *)

(** the two inline look-ahead computations of [scan1], named *)
Definition two_look (c : N) (r : list N) : option (tkind * N * list N) :=
  match r with
  | d :: r' => match two_char c d with Some k => Some (k, d, r') | None => None end
  | [] => None
  end.

Definition frac (rest : list N) : list N * list N :=
  match rest with
  | p :: e :: rest0 =>
      if (p =? 46) && is_digit e then
        let '(fs, rest1) := span is_digit (e :: rest0) in (p :: fs, rest1)
      else ([], rest)
  | _ => ([], rest)
  end.

Lemma scan1_cons c r line : scan1 (c :: r) line =
  if c =? 10 then Some (mkItem INewline [c] (line + 1), r, line + 1)
  else if (c =? 32) || (c =? 13) || (c =? 9) then Some (mkItem IBlank [c] line, r, line)
  else if c =? 47 then
    match r with
    | d :: r' =>
        if d =? 47 then
          let '(body, rest) := span not_nl r' in
          Some (mkItem ILineComment (c :: d :: body) line, rest, line)
        else if d =? 42 then
          match block_comment r' with
          | Some (body, rest) =>
              Some (mkItem IBlockComment (c :: d :: body) (line + count_nl body), rest, line + count_nl body)
          | None =>
              Some (mkItem (IBad LexUnterminatedComment) (c :: d :: r') (line + count_nl r'), [], line + count_nl r')
          end
        else Some (mkItem (IToken TSLASH LNone) [c] line, r, line)
    | [] => Some (mkItem (IToken TSLASH LNone) [c] line, r, line)
    end
  else if c =? 34 then
    let '(body, rest) := span not_quote r in
    match rest with
    | q :: rest' => Some (mkItem (IToken TSTRING (LStr body)) (c :: body ++ [q]) (line + count_nl body), rest', line + count_nl body)
    | [] => Some (mkItem (IBad LexUnterminatedString) (c :: body) (line + count_nl body), [], line + count_nl body)
    end
  else
    match two_look c r with
    | Some (k, d, r') => Some (mkItem (IToken k LNone) [c; d] line, r', line)
    | None =>
        match one_char c with
        | Some k => Some (mkItem (IToken k LNone) [c] line, r, line)
        | None =>
            if is_digit c then
              let '(ds, rest) := span is_digit r in
              let '(fs, rest') := frac rest in
              match literal_value (translit_str (c :: ds)) (translit_str (tl fs)) with
              | Some v => Some (mkItem (IToken TNUMBER (LNum v)) ((c :: ds) ++ fs) line, rest', line)
              | None => Some (mkItem (IBad LexBadNumber) ((c :: ds) ++ fs) line, rest', line)
              end
            else if is_alpha c then
              let '(cs, rest) := span is_alnum r in
              Some (mkItem (IToken (match keyword_of (c :: cs) with Some k => k | None => TIDENTIFIER end) LNone) (c :: cs) line, rest, line)
            else Some (mkItem (IBad LexUnexpectedChar) [c] line, r, line)
        end
    end.
Proof. reflexivity. Qed.

(** [c] is none of newline, blank, slash, double quote: the four tests made before the operator tables *)
Definition plain (c : N) : Prop :=
  (c =? 10) = false /\ ((c =? 32) || (c =? 13) || (c =? 9)) = false /\ (c =? 47) = false /\ (c =? 34) = false.

Definition word_kind (s : list N) : tkind :=
  match keyword_of s with Some k => k | None => TIDENTIFIER end.

Inductive step : list N -> N -> item -> list N -> N -> Prop :=
| St_newline r line :
    step (10 :: r) line (mkItem INewline [10] (line + 1)) r (line + 1)
| St_blank c r line :
    (c =? 10) = false -> ((c =? 32) || (c =? 13) || (c =? 9)) = true ->
    step (c :: r) line (mkItem IBlank [c] line) r line
| St_linecomment r' body rest line :
    span not_nl r' = (body, rest) ->
    step (47 :: 47 :: r') line (mkItem ILineComment (47 :: 47 :: body) line) rest line
| St_blockcomment r' body rest line :
    block_comment r' = Some (body, rest) ->
    step (47 :: 42 :: r') line (mkItem IBlockComment (47 :: 42 :: body) (line + count_nl body)) rest (line + count_nl body)
| St_untermcomment r' line :
    block_comment r' = None ->
    step (47 :: 42 :: r') line (mkItem (IBad LexUnterminatedComment) (47 :: 42 :: r') (line + count_nl r')) [] (line + count_nl r')
| St_slash r line :
    match r with d :: _ => (d =? 47) = false /\ (d =? 42) = false | [] => True end ->
    step (47 :: r) line (mkItem (IToken TSLASH LNone) [47] line) r line
| St_string r body rest' line :
    span not_quote r = (body, 34 :: rest') ->
    step (34 :: r) line (mkItem (IToken TSTRING (LStr body)) (34 :: body ++ [34]) (line + count_nl body)) rest' (line + count_nl body)
| St_untermstring r body line :
    span not_quote r = (body, []) ->
    step (34 :: r) line (mkItem (IBad LexUnterminatedString) (34 :: body) (line + count_nl body)) [] (line + count_nl body)
| St_two c d r' k line :
    plain c -> two_char c d = Some k ->
    step (c :: d :: r') line (mkItem (IToken k LNone) [c; d] line) r' line
| St_one c r k line :
    plain c -> two_look c r = None -> one_char c = Some k ->
    step (c :: r) line (mkItem (IToken k LNone) [c] line) r line
| St_number c r ds rest fs rest' v line :
    plain c -> two_look c r = None -> one_char c = None -> is_digit c = true ->
    span is_digit r = (ds, rest) -> frac rest = (fs, rest') ->
    literal_value (translit_str (c :: ds)) (translit_str (tl fs)) = Some v ->
    step (c :: r) line (mkItem (IToken TNUMBER (LNum v)) ((c :: ds) ++ fs) line) rest' line
| St_badnumber c r ds rest fs rest' line :
    plain c -> two_look c r = None -> one_char c = None -> is_digit c = true ->
    span is_digit r = (ds, rest) -> frac rest = (fs, rest') ->
    literal_value (translit_str (c :: ds)) (translit_str (tl fs)) = None ->
    step (c :: r) line (mkItem (IBad LexBadNumber) ((c :: ds) ++ fs) line) rest' line
| St_word c r cs rest line :
    plain c -> two_look c r = None -> one_char c = None -> is_digit c = false -> is_alpha c = true ->
    span is_alnum r = (cs, rest) ->
    step (c :: r) line (mkItem (IToken (word_kind (c :: cs)) LNone) (c :: cs) line) rest line
| St_badchar c r line :
    plain c -> two_look c r = None -> one_char c = None -> is_digit c = false -> is_alpha c = false ->
    step (c :: r) line (mkItem (IBad LexUnexpectedChar) [c] line) r line.

Ltac inv_some H := inversion H; subst; clear H.

(** [scan1] is exactly [step] *)
Lemma scan1_step_rel l line it rest line' :
  scan1 l line = Some (it, rest, line') -> step l line it rest line'.
Proof.
  destruct l as [|c r]; [discriminate|]. rewrite scan1_cons.
  destruct (c =? 10) eqn:E10.
  { apply N.eqb_eq in E10. subst c. intros H. inv_some H. constructor. }
  destruct ((c =? 32) || (c =? 13) || (c =? 9)) eqn:EB.
  { intros H. inv_some H. constructor; assumption. }
  destruct (c =? 47) eqn:E47.
  { apply N.eqb_eq in E47. subst c. destruct r as [|d r'].
    - intros H. inv_some H. constructor. exact I.
    - destruct (d =? 47) eqn:D47.
      + apply N.eqb_eq in D47. subst d. destruct (span not_nl r') as [body rest0] eqn:ES.
        intros H. inv_some H. constructor. exact ES.
      + destruct (d =? 42) eqn:D42.
        * apply N.eqb_eq in D42. subst d. destruct (block_comment r') as [[body rest0]|] eqn:EC.
          -- intros H. inv_some H. constructor. exact EC.
          -- intros H. inv_some H. constructor. exact EC.
        * intros H. inv_some H. constructor. split; assumption. }
  destruct (c =? 34) eqn:E34.
  { apply N.eqb_eq in E34. subst c. destruct (span not_quote r) as [body rest0] eqn:ES.
    destruct rest0 as [|q rest1].
    - intros H. inv_some H. constructor. exact ES.
    - pose proof (span_rest_hd _ _ _ _ ES) as HQ. simpl in HQ. unfold not_quote in HQ.
      apply negb_false_iff, N.eqb_eq in HQ. subst q.
      intros H. inv_some H. constructor. exact ES. }
  assert (P : plain c) by (unfold plain; auto).
  destruct (two_look c r) as [[[k d] r']|] eqn:E2.
  { unfold two_look in E2. destruct r as [|d0 r0]; [discriminate|].
    destruct (two_char c d0) as [k0|] eqn:ET; [|discriminate]. inv_some E2.
    intros H. inv_some H. constructor; assumption. }
  destruct (one_char c) as [k|] eqn:E1.
  { intros H. inv_some H. constructor; assumption. }
  destruct (is_digit c) eqn:ED.
  { destruct (span is_digit r) as [ds rest0] eqn:ES. destruct (frac rest0) as [fs rest1] eqn:EF.
    destruct (literal_value (translit_str (c :: ds)) (translit_str (tl fs))) as [v|] eqn:EV.
    - intros H. inv_some H. econstructor; eassumption.
    - intros H. inv_some H. econstructor; eassumption. }
  destruct (is_alpha c) eqn:EA.
  { destruct (span is_alnum r) as [cs rest0] eqn:ES.
    intros H. inv_some H. apply St_word; assumption. }
  intros H. inv_some H. constructor; assumption.
Qed.

Lemma step_scan1 l line it rest line' :
  step l line it rest line' -> scan1 l line = Some (it, rest, line').
Proof.
  intros S. destruct S as
    [ r line | c r line H10 HB | r' body rest line ES | r' body rest line EC | r' line EC
    | r line HS | r body rest' line ES | r body line ES
    | c d r' k line P ET | c r k line P E2 E1
    | c r ds rest fs rest' v line P E2 E1 ED ES EF EV
    | c r ds rest fs rest' line P E2 E1 ED ES EF EV
    | c r cs rest line P E2 E1 ED EA ES
    | c r line P E2 E1 ED EA ];
  rewrite scan1_cons.
  - reflexivity.
  - rewrite H10, HB. reflexivity.
  - simpl. rewrite ES. reflexivity.
  - simpl. rewrite EC. reflexivity.
  - simpl. rewrite EC. reflexivity.
  - simpl. destruct r as [|d r0]; [reflexivity|]. destruct HS as [H1 H2]. rewrite H1, H2. reflexivity.
  - simpl. rewrite ES. reflexivity.
  - simpl. rewrite ES. reflexivity.
  - destruct P as (P1 & P2 & P3 & P4). rewrite P1, P2, P3, P4. unfold two_look. rewrite ET. reflexivity.
  - destruct P as (P1 & P2 & P3 & P4). rewrite P1, P2, P3, P4, E2, E1. reflexivity.
  - destruct P as (P1 & P2 & P3 & P4). rewrite P1, P2, P3, P4, E2, E1, ED, ES, EF, EV. reflexivity.
  - destruct P as (P1 & P2 & P3 & P4). rewrite P1, P2, P3, P4, E2, E1, ED, ES, EF, EV. reflexivity.
  - destruct P as (P1 & P2 & P3 & P4). rewrite P1, P2, P3, P4, E2, E1, ED, EA, ES. reflexivity.
  - destruct P as (P1 & P2 & P3 & P4). rewrite P1, P2, P3, P4, E2, E1, ED, EA. reflexivity.
Qed.

Theorem scan1_iff l line it rest line' :
  scan1 l line = Some (it, rest, line') <-> step l line it rest line'.
Proof. split; [apply scan1_step_rel|apply step_scan1]. Qed.

Lemma scan1_none l line : scan1 l line = None -> l = [].
Proof.
  destruct l as [|c r]; [reflexivity|]. rewrite scan1_cons.
  destruct (c =? 10); [discriminate|].
  destruct ((c =? 32) || (c =? 13) || (c =? 9)); [discriminate|].
  destruct (c =? 47).
  { destruct r as [|d r']; [discriminate|]. destruct (d =? 47).
    - destruct (span not_nl r'); discriminate.
    - destruct (d =? 42); [|discriminate]. destruct (block_comment r') as [[b0 r0]|]; discriminate. }
  destruct (c =? 34). { destruct (span not_quote r) as [b0 [|q r0]]; discriminate. }
  destruct (two_look c r) as [[[k d] r']|]; [discriminate|].
  destruct (one_char c); [discriminate|].
  destruct (is_digit c).
  { destruct (span is_digit r) as [ds r0]. destruct (frac r0) as [fs r1].
    destruct (literal_value _ _); discriminate. }
  destruct (is_alpha c); [|discriminate]. destruct (span is_alnum r); discriminate.
Qed.

Lemma scan1_nil line : scan1 [] line = None.
Proof. reflexivity. Qed.

(* ------------------------------------------------------------------ *)
(** * Character facts (by computation on the tables) *)

Lemma plain_nl c : plain c -> (c =? 10) = false.
Proof. intros P. apply P. Qed.

Lemma is_digit_cases c : is_digit c = true ->
  In c [48; 49; 50; 51; 52; 53; 54; 55; 56; 57; 2534; 2535; 2536; 2537; 2538; 2539; 2540; 2541; 2542; 2543].
Proof.
  unfold is_digit. rewrite orb_true_iff, !andb_true_iff, !N.leb_le. intros H. simpl.
  assert (c = 48 \/ c = 49 \/ c = 50 \/ c = 51 \/ c = 52 \/ c = 53 \/ c = 54 \/ c = 55 \/ c = 56 \/ c = 57 \/
          c = 2534 \/ c = 2535 \/ c = 2536 \/ c = 2537 \/ c = 2538 \/ c = 2539 \/ c = 2540 \/ c = 2541 \/
          c = 2542 \/ c = 2543) as K by lia.
  repeat (destruct K as [K|K]; [subst c; auto 25|]). subst c. auto 25.
Qed.

(** a property of all digits, checked on the twenty of them *)
Lemma digit_all (P : N -> bool) :
  forallb P [48; 49; 50; 51; 52; 53; 54; 55; 56; 57; 2534; 2535; 2536; 2537; 2538; 2539; 2540; 2541; 2542; 2543] = true ->
  forall c, is_digit c = true -> P c = true.
Proof. intros H c Hc. rewrite forallb_forall in H. apply H. apply is_digit_cases. exact Hc. Qed.

Lemma digit_nl c : is_digit c = true -> (c =? 10) = false.
Proof. intros H. apply (digit_all (fun c => negb (c =? 10))) in H; [|vm_compute; reflexivity]. apply negb_true_iff in H. exact H. Qed.

Lemma digit_not_alpha c : is_digit c = true -> is_alpha c = false.
Proof. intros H. apply (digit_all (fun c => negb (is_alpha c))) in H; [|vm_compute; reflexivity]. apply negb_true_iff in H. exact H. Qed.

Lemma digit_not_dot c : is_digit c = true -> (c =? 46) = false.
Proof. intros H. apply (digit_all (fun c => negb (c =? 46))) in H; [|vm_compute; reflexivity]. apply negb_true_iff in H. exact H. Qed.

Lemma digit_alnum c : is_digit c = true -> is_alnum c = true.
Proof. intros H. unfold is_alnum. rewrite H. apply orb_true_r. Qed.

Lemma digit_plain c : is_digit c = true -> plain c.
Proof.
  intros H. apply (digit_all (fun c => negb (c =? 10) && negb ((c =? 32) || (c =? 13) || (c =? 9)) && negb (c =? 47) && negb (c =? 34))) in H;
    [|vm_compute; reflexivity].
  rewrite !andb_true_iff, !negb_true_iff in H. unfold plain. tauto.
Qed.

Lemma digit_one_char c : is_digit c = true -> one_char c = None.
Proof.
  intros H. apply (digit_all (fun c => match one_char c with None => true | Some _ => false end)) in H; [|vm_compute; reflexivity].
  destruct (one_char c); [discriminate|reflexivity].
Qed.

Lemma alnum_nl c : is_alnum c = true -> (c =? 10) = false.
Proof. intros H. destruct (N.eqb_spec c 10) as [->|_]; [vm_compute in H; discriminate|reflexivity]. Qed.

Lemma not_nl_nl c : not_nl c = true -> (c =? 10) = false.
Proof. unfold not_nl. intros H. apply negb_true_iff in H. exact H. Qed.

(** first and second characters of the nine two-character operators *)
Lemma two_char_chars c d k : two_char c d = Some k ->
  In c [124; 38; 42; 33; 61; 60; 62] /\ In d [124; 38; 42; 61; 60; 62].
Proof.
  unfold two_char. intros H.
  repeat match type of H with
  | context [?a =? ?n] => destruct (N.eqb_spec a n) as [->|?]; simpl in H
  end; try discriminate; simpl; auto 15.
Qed.

Lemma two_char_plain c d k : two_char c d = Some k -> plain c.
Proof.
  intros H. destruct (two_char_chars c d k H) as [Hc _]. simpl in Hc.
  repeat (destruct Hc as [Hc|Hc]; [subst c; vm_compute; auto|]). contradiction.
Qed.

Lemma two_char_not_alpha c d k : two_char c d = Some k -> is_alpha c = false.
Proof.
  intros H. destruct (two_char_chars c d k H) as [Hc _]. simpl in Hc.
  repeat (destruct Hc as [Hc|Hc]; [subst c; vm_compute; auto|]). contradiction.
Qed.

Lemma two_char_second_nl c d k : two_char c d = Some k -> (d =? 10) = false.
Proof.
  intros H. destruct (two_char_chars c d k H) as [_ Hd]. simpl in Hd.
  repeat (destruct Hd as [Hd|Hd]; [subst d; vm_compute; auto|]). contradiction.
Qed.

Lemma one_char_cases c k : one_char c = Some k ->
  In c [40; 41; 123; 125; 91; 93; 44; 46; 45; 58; 43; 59; 124; 38; 94; 126; 42; 33; 61; 60; 62; 37].
Proof.
  unfold one_char. intros H.
  repeat match type of H with
  | (if (?a =? ?n) then _ else _) = _ => destruct (N.eqb_spec a n) as [->|?]; [simpl; auto 30|]
  end. discriminate.
Qed.

Lemma one_char_not_alpha c k : one_char c = Some k -> is_alpha c = false.
Proof.
  intros H. apply one_char_cases in H. simpl in H.
  repeat (destruct H as [H|H]; [subst c; vm_compute; auto|]). contradiction.
Qed.

(** blanks and the newline are not word or number characters, nor operator characters *)
Definition is_ws (w : N) : Prop := w = 32 \/ w = 9 \/ w = 13 \/ w = 10.

Lemma ws_facts w : is_ws w ->
  is_alnum w = false /\ is_digit w = false /\ is_alpha w = false /\ (w =? 46) = false /\ (w =? 47) = false /\
  (w =? 42) = false /\ (w =? 34) = false /\ (forall c, two_char c w = None).
Proof.
  intros [->|[->|[->| ->]]]; (repeat split; try (vm_compute; reflexivity));
    intros c; destruct (two_char c _) as [k|] eqn:E; auto;
    destruct (two_char_chars _ _ _ E) as [_ Hd]; simpl in Hd; intuition discriminate.
Qed.

Lemma alpha_plain c : is_alpha c = true -> plain c.
Proof.
  intros H. unfold plain.
  destruct (N.eqb_spec c 10) as [->|_]; [vm_compute in H; discriminate|].
  destruct (N.eqb_spec c 32) as [->|_]; [vm_compute in H; discriminate|].
  destruct (N.eqb_spec c 13) as [->|_]; [vm_compute in H; discriminate|].
  destruct (N.eqb_spec c 9) as [->|_]; [vm_compute in H; discriminate|].
  destruct (N.eqb_spec c 47) as [->|_]; [vm_compute in H; discriminate|].
  destruct (N.eqb_spec c 34) as [->|_]; [vm_compute in H; discriminate|].
  auto.
Qed.

(* ------------------------------------------------------------------ *)
(** * The fraction look-ahead of a number *)

Definition dig_hd (l : list N) : bool := match l with e :: _ => is_digit e | [] => false end.

Lemma frac_spec rest fs rest' : frac rest = (fs, rest') ->
  rest = fs ++ rest' /\
  ((fs = [] /\ forall e t, rest' = 46 :: e :: t -> is_digit e = false) \/
   (exists e more, fs = 46 :: e :: more /\ forallb is_digit (e :: more) = true /\ dig_hd rest' = false)).
Proof.
  unfold frac. destruct rest as [|p [|e rest0]].
  - intros H. inv_some H. split; [reflexivity|]. left. split; [reflexivity|]. intros e t Hc. discriminate.
  - intros H. inv_some H. split; [reflexivity|]. left. split; [reflexivity|]. intros e t Hc. discriminate.
  - destruct ((p =? 46) && is_digit e) eqn:E.
    + apply andb_true_iff in E. destruct E as [E1 E2]. apply N.eqb_eq in E1. subst p.
      destruct (span is_digit (e :: rest0)) as [fs0 rest1] eqn:ES.
      intros H. inv_some H. destruct (span_spec _ _ _ _ ES) as (SA & SF & SR).
      split; [simpl; f_equal; exact SA|]. right.
      simpl in ES. rewrite E2 in ES. destruct (span is_digit rest0) as [a0 b0] eqn:ES0. inv_some ES.
      exists e, a0. split; [reflexivity|]. split; [exact SF|].
      destruct SR as [->|(c & r & -> & Hc)]; [reflexivity|exact Hc].
    + intros H. inv_some H. split; [reflexivity|]. left. split; [reflexivity|].
      intros e0 t Hc. inv_some Hc. simpl in E. exact E.
Qed.

Lemma frac_none rest : (forall e t, rest = 46 :: e :: t -> is_digit e = false) -> frac rest = ([], rest).
Proof.
  intros H. unfold frac. destruct rest as [|p [|e rest0]]; try reflexivity.
  destruct (N.eqb_spec p 46) as [->|_]; [|reflexivity]. rewrite (H e rest0 eq_refl). reflexivity.
Qed.

Lemma frac_some e more rest' : forallb is_digit (e :: more) = true -> dig_hd rest' = false ->
  frac (46 :: (e :: more) ++ rest') = (46 :: e :: more, rest').
Proof.
  intros HF HR. unfold frac. simpl app. pose proof HF as HF'. simpl in HF'. apply andb_true_iff in HF'. destruct HF' as [He _].
  rewrite He. simpl andb. cbv iota.
  change (e :: more ++ rest') with ((e :: more) ++ rest').
  rewrite (span_intro is_digit (e :: more) rest' HF); [reflexivity|].
  destruct rest' as [|c r]; [exact I|exact HR].
Qed.

Lemma frac_text_no_nl rest fs rest' : frac rest = (fs, rest') -> count_nl fs = 0.
Proof.
  intros H. destruct (frac_spec _ _ _ H) as (_ & [(-> & _)|(e & more & -> & HF & _)]); [reflexivity|].
  rewrite count_nl_cons by reflexivity. apply (count_nl_forallb is_digit digit_nl). exact HF.
Qed.

(* ------------------------------------------------------------------ *)
(** * Item 1: what one step does to the text and the line counter *)

(** The item's text is a non-empty prefix of the input, the rest is what follows it, the
    line counter advances by the number of newlines in the item's text, and the item
    carries the counter *after* its text. *)
Theorem scan1_step l line it rest line' :
  scan1 l line = Some (it, rest, line') ->
  l = itext it ++ rest /\ itext it <> [] /\ line' = line + count_nl (itext it) /\ iline it = line'.
Proof.
  intros H. apply scan1_step_rel in H.
  destruct H as
    [ r line | c r line H10 HB | r' body rest line ES | r' body rest line EC | r' line EC
    | r line HS | r body rest' line ES | r body line ES
    | c d r' k line P ET | c r k line P E2 E1
    | c r ds rest fs rest' v line P E2 E1 ED ES EF EV
    | c r ds rest fs rest' line P E2 E1 ED ES EF EV
    | c r cs rest line P E2 E1 ED EA ES
    | c r line P E2 E1 ED EA ]; cbn [itext iline].
  - split; [reflexivity|]. split; [discriminate|]. split; [|reflexivity]. rewrite count_nl_cons_nl, count_nl_nil. lia.
  - split; [reflexivity|]. split; [discriminate|]. split; [|reflexivity]. rewrite count_nl_single by exact H10. lia.
  - destruct (span_spec _ _ _ _ ES) as (SA & SF & _).
    split; [simpl; rewrite SA; reflexivity|]. split; [discriminate|]. split; [|reflexivity].
    rewrite !count_nl_cons by reflexivity. rewrite (count_nl_forallb not_nl not_nl_nl body SF). lia.
  - destruct (block_comment_spec _ _ _ EC) as [SA _].
    split; [simpl; rewrite SA; reflexivity|]. split; [discriminate|]. split; [|reflexivity].
    rewrite !count_nl_cons by reflexivity. reflexivity.
  - split; [rewrite app_nil_r; reflexivity|]. split; [discriminate|]. split; [|reflexivity].
    rewrite !count_nl_cons by reflexivity. reflexivity.
  - split; [reflexivity|]. split; [discriminate|]. split; [|reflexivity]. rewrite count_nl_single by reflexivity. lia.
  - pose proof (span_app _ _ _ _ ES) as SA.
    split; [simpl; rewrite <- app_assoc; simpl; rewrite SA; reflexivity|]. split; [discriminate|]. split; [|reflexivity].
    rewrite count_nl_cons by reflexivity. rewrite count_nl_app, count_nl_single by reflexivity. lia.
  - pose proof (span_app _ _ _ _ ES) as SA. rewrite app_nil_r in SA.
    split; [rewrite app_nil_r, SA; reflexivity|]. split; [discriminate|]. split; [|reflexivity].
    rewrite count_nl_cons by reflexivity. reflexivity.
  - split; [reflexivity|]. split; [discriminate|]. split; [|reflexivity].
    rewrite count_nl_cons by (apply plain_nl; exact P). rewrite count_nl_single by (eapply two_char_second_nl; exact ET). lia.
  - split; [reflexivity|]. split; [discriminate|]. split; [|reflexivity].
    rewrite count_nl_single by (apply plain_nl; exact P). lia.
  - destruct (span_spec _ _ _ _ ES) as (SA & SF & _). destruct (frac_spec _ _ _ EF) as (FA & _).
    split; [simpl; rewrite <- app_assoc, <- FA, <- SA; reflexivity|]. split; [discriminate|]. split; [|reflexivity].
    rewrite count_nl_app, (frac_text_no_nl _ _ _ EF). rewrite count_nl_cons by (apply plain_nl; exact P).
    rewrite (count_nl_forallb is_digit digit_nl ds SF). lia.
  - destruct (span_spec _ _ _ _ ES) as (SA & SF & _). destruct (frac_spec _ _ _ EF) as (FA & _).
    split; [simpl; rewrite <- app_assoc, <- FA, <- SA; reflexivity|]. split; [discriminate|]. split; [|reflexivity].
    rewrite count_nl_app, (frac_text_no_nl _ _ _ EF). rewrite count_nl_cons by (apply plain_nl; exact P).
    rewrite (count_nl_forallb is_digit digit_nl ds SF). lia.
  - destruct (span_spec _ _ _ _ ES) as (SA & SF & _).
    split; [simpl; rewrite <- SA; reflexivity|]. split; [discriminate|]. split; [|reflexivity].
    rewrite count_nl_cons by (apply plain_nl; exact P). rewrite (count_nl_forallb is_alnum alnum_nl cs SF). lia.
  - split; [reflexivity|]. split; [discriminate|]. split; [|reflexivity].
    rewrite count_nl_single by (apply plain_nl; exact P). lia.
Qed.

(* ------------------------------------------------------------------ *)
(** * The whole text: fuel, decomposition at an item boundary *)

Lemma scan_S f l line : scan (S f) l line =
  match scan1 l line with
  | None => ([], line)
  | Some (it, rest, line') => let '(its, fin) := scan f rest line' in (it :: its, fin)
  end.
Proof. reflexivity. Qed.

Lemma scan_0 l line : scan 0 l line = ([], line).
Proof. reflexivity. Qed.

Lemma scan1_shorter l line it rest line' :
  scan1 l line = Some (it, rest, line') -> (length rest < length l)%nat.
Proof.
  intros H. destruct (scan1_step _ _ _ _ _ H) as (P & NE & _ & _). rewrite P, app_length.
  destruct (itext it); [congruence|simpl; lia].
Qed.

(** any fuel at least the length of the text gives the same result: every item is non-empty *)
Lemma scan_fuel : forall f1 f2 l line, (length l <= f1)%nat -> (length l <= f2)%nat ->
  scan f1 l line = scan f2 l line.
Proof.
  induction f1 as [|f1 IH]; intros f2 l line H1 H2.
  - destruct l; [|simpl in H1; lia]. destruct f2; reflexivity.
  - destruct f2 as [|f2].
    + destruct l; [|simpl in H2; lia]. reflexivity.
    + rewrite !scan_S. destruct (scan1 l line) as [[[it rest] line']|] eqn:E; [|reflexivity].
      pose proof (scan1_shorter _ _ _ _ _ E) as HL. rewrite (IH f2 rest line') by lia. reflexivity.
Qed.

(** the scan with exactly enough fuel *)
Definition scan_all (l : list N) (line : N) : list item * N := scan (length l) l line.

Lemma lex_items_scan_all src : lex_items src = scan_all src 1.
Proof. reflexivity. Qed.

Lemma scan_scan_all f l line : (length l <= f)%nat -> scan f l line = scan_all l line.
Proof. intros H. apply scan_fuel; [exact H|lia]. Qed.

Lemma scan_all_nil line : scan_all [] line = ([], line).
Proof. reflexivity. Qed.

Lemma scan_all_unfold l line : scan_all l line =
  match scan1 l line with
  | None => ([], line)
  | Some (it, rest, line') => let '(its, fin) := scan_all rest line' in (it :: its, fin)
  end.
Proof.
  destruct l as [|c r]; [reflexivity|]. unfold scan_all at 1. cbn [length]. rewrite scan_S.
  destruct (scan1 (c :: r) line) as [[[it rest] line']|] eqn:E; [|reflexivity].
  pose proof (scan1_shorter _ _ _ _ _ E) as HL. cbn [length] in HL.
  rewrite (scan_scan_all (length r) rest line') by lia. reflexivity.
Qed.

Lemma scan_all_step l line it rest line' : scan1 l line = Some (it, rest, line') ->
  fst (scan_all l line) = it :: fst (scan_all rest line') /\ snd (scan_all l line) = snd (scan_all rest line').
Proof.
  intros H. rewrite (scan_all_unfold l line), H. destruct (scan_all rest line') as [its fin]. split; reflexivity.
Qed.

Lemma scan_all_cons_inv l line it its : fst (scan_all l line) = it :: its ->
  exists rest line', scan1 l line = Some (it, rest, line') /\ fst (scan_all rest line') = its /\
                     snd (scan_all rest line') = snd (scan_all l line).
Proof.
  intros H. rewrite scan_all_unfold in H |- *. destruct (scan1 l line) as [[[it0 rest] line']|] eqn:E; [|discriminate].
  destruct (scan_all rest line') as [its0 fin] eqn:E2. simpl in H. inv_some H.
  exists rest, line'. rewrite E2. simpl. auto.
Qed.

Lemma scan_all_empty_inv l line : fst (scan_all l line) = [] -> l = [] /\ snd (scan_all l line) = line.
Proof.
  intros H. rewrite scan_all_unfold in H |- *. destruct (scan1 l line) as [[[it0 rest] line']|] eqn:E.
  - destruct (scan_all rest line'). discriminate.
  - apply scan1_none in E. auto.
Qed.

(** Decomposition: if the items of [l] are [i1 ++ i2] then [l] is the text of [i1] followed by
    some [b] whose items (scanned from the line reached after [i1]) are [i2]. *)
Lemma scan_all_split : forall i1 i2 l line, fst (scan_all l line) = i1 ++ i2 ->
  exists b, l = concat (map itext i1) ++ b /\
            fst (scan_all b (line + count_nl (concat (map itext i1)))) = i2 /\
            snd (scan_all b (line + count_nl (concat (map itext i1)))) = snd (scan_all l line).
Proof.
  induction i1 as [|it i1 IH]; intros i2 l line H.
  - exists l. simpl. rewrite count_nl_nil, N.add_0_r. auto.
  - simpl in H. destruct (scan_all_cons_inv _ _ _ _ H) as (rest & line' & E & Hr & Hs).
    destruct (scan1_step _ _ _ _ _ E) as (P & _ & LN & _).
    destruct (IH i2 rest line' Hr) as (b & Pb & Hb & Hsb).
    exists b. cbn [map concat]. rewrite count_nl_app, N.add_assoc, <- LN.
    split; [rewrite P, Pb, app_assoc; reflexivity|]. split; [exact Hb|]. rewrite Hsb. exact Hs.
Qed.

(** every item in the list was produced by a [scan1] step on the text that remains at its position *)
Lemma scan_all_nth i1 it i2 l line : fst (scan_all l line) = i1 ++ it :: i2 ->
  l = concat (map itext i1) ++ itext it ++ concat (map itext i2) /\
  scan1 (itext it ++ concat (map itext i2)) (line + count_nl (concat (map itext i1))) =
    Some (it, concat (map itext i2), iline it) /\
  fst (scan_all (concat (map itext i2)) (iline it)) = i2.
Proof.
  intros H. destruct (scan_all_split i1 (it :: i2) l line H) as (b & Pb & Hb & _).
  destruct (scan_all_cons_inv _ _ _ _ Hb) as (rest & line' & E & Hr & _).
  destruct (scan1_step _ _ _ _ _ E) as (P & _ & _ & IL). subst line'.
  destruct (scan_all_split i2 [] rest (iline it)) as (b2 & Pb2 & Hb2 & _); [rewrite app_nil_r; exact Hr|].
  apply scan_all_empty_inv in Hb2. destruct Hb2 as [-> _]. rewrite app_nil_r in Pb2. subst rest.
  split; [rewrite Pb, P; reflexivity|]. split; [rewrite <- P; exact E|exact Hr].
Qed.

(* ------------------------------------------------------------------ *)
(** * Items 2 and 3: partition of the source, line of the end-of-input token *)

Lemma scan_all_partition l line :
  concat (map itext (fst (scan_all l line))) = l /\ snd (scan_all l line) = line + count_nl l.
Proof.
  destruct (scan_all_split (fst (scan_all l line)) [] l line) as (b & Pb & Hb & Hs); [rewrite app_nil_r; reflexivity|].
  apply scan_all_empty_inv in Hb. destruct Hb as [-> Hfin]. rewrite app_nil_r in Pb.
  split; [symmetry; exact Pb|]. rewrite <- Hs, Hfin, <- Pb. reflexivity.
Qed.

(** with fuel at least the length of the text the whole text is consumed *)
Theorem scan_all_consumed f l line : (length l <= f)%nat ->
  concat (map itext (fst (scan f l line))) = l /\ snd (scan f l line) = line + count_nl l.
Proof. intros H. rewrite (scan_scan_all f l line H). apply scan_all_partition. Qed.

(** The texts of the items, in order, are exactly the source: nothing dropped, duplicated or reordered. *)
Theorem lex_items_partition src : concat (map itext (fst (lex_items src))) = src.
Proof. apply scan_all_partition. Qed.

(** The end-of-input token is on line 1 + the number of newlines of the source. *)
Theorem eof_line_items src : snd (lex_items src) = 1 + count_nl src.
Proof. apply scan_all_partition. Qed.

Lemma lex_eq src : lex src = mkLexed (tokens_of (fst (lex_items src))) (snd (lex_items src)) (lexdiags_of (fst (lex_items src))).
Proof. unfold lex. destruct (lex_items src) as [its fin]. reflexivity. Qed.

Theorem eof_line src : lx_eof_line (lex src) = 1 + count_nl src.
Proof. rewrite lex_eq. simpl. apply eof_line_items. Qed.

(* ------------------------------------------------------------------ *)
(** * Item 4: the line of every item *)

(** An item carries 1 + the number of newlines in the source up to and including its own text. *)
Theorem line_spec src i1 it i2 : fst (lex_items src) = i1 ++ it :: i2 ->
  iline it = 1 + count_nl (concat (map itext i1) ++ itext it).
Proof.
  intros H. rewrite lex_items_scan_all in H. destruct (scan_all_nth _ _ _ _ _ H) as (_ & E & _).
  destruct (scan1_step _ _ _ _ _ E) as (_ & _ & LN & _). rewrite count_nl_app, N.add_assoc. exact LN.
Qed.

(** every item of [lex_items src] is the result of some scanner step *)
Definition produced (it : item) (rest : list N) : Prop := exists l line line', scan1 l line = Some (it, rest, line').

Lemma lex_items_produced src i1 it i2 : fst (lex_items src) = i1 ++ it :: i2 ->
  produced it (concat (map itext i2)).
Proof.
  intros H. rewrite lex_items_scan_all in H. destruct (scan_all_nth _ _ _ _ _ H) as (_ & E & _).
  eexists _, _, _. exact E.
Qed.

(** the text of a token never ends with a newline *)
Lemma token_last_not_nl l line it rest line' k lit : scan1 l line = Some (it, rest, line') ->
  ik it = IToken k lit -> exists x c, itext it = x ++ [c] /\ (c =? 10) = false.
Proof.
  intros H. apply scan1_step_rel in H.
  destruct H as
    [ r line | c r line H10 HB | r' body rest line ES | r' body rest line EC | r' line EC
    | r line HS | r body rest' line ES | r body line ES
    | c d r' k0 line P ET | c r k0 line P E2 E1
    | c r ds rest fs rest' v line P E2 E1 ED ES EF EV
    | c r ds rest fs rest' line P E2 E1 ED ES EF EV
    | c r cs rest line P E2 E1 ED EA ES
    | c r line P E2 E1 ED EA ]; cbn [ik itext]; intros K; try discriminate K.
  - exists [], 47. auto.
  - exists (34 :: body), 34. auto.
  - exists [c], d. split; [reflexivity|]. eapply two_char_second_nl; exact ET.
  - exists [], c. split; [reflexivity|]. apply plain_nl; exact P.
  - assert (Hall : forallb (fun x => negb (x =? 10)) ((c :: ds) ++ fs) = true).
    { rewrite forallb_app. apply andb_true_iff. split.
      - simpl. rewrite (plain_nl c P). simpl. pose proof (span_forallb _ _ _ _ ES) as SF.
        rewrite forallb_forall in SF |- *. intros x Hx. rewrite (digit_nl x (SF x Hx)). reflexivity.
      - destruct (frac_spec _ _ _ EF) as (_ & [(-> & _)|(e & more & -> & HF & _)]); [reflexivity|].
        simpl. rewrite forallb_forall in HF. rewrite (digit_nl e (HF e (or_introl eq_refl))). simpl.
        rewrite forallb_forall. intros x Hx. rewrite (digit_nl x (HF x (or_intror Hx))). reflexivity. }
    destruct (exists_last (l := (c :: ds) ++ fs)) as (x & y & Hxy); [discriminate|].
    exists x, y. split; [exact Hxy|]. rewrite Hxy, forallb_app in Hall. apply andb_true_iff in Hall.
    destruct Hall as [_ Hy]. simpl in Hy. rewrite andb_true_r in Hy. apply negb_true_iff in Hy. exact Hy.
  - pose proof (span_forallb _ _ _ _ ES) as SF.
    destruct (exists_last (l := c :: cs)) as (x & y & Hxy); [discriminate|].
    exists x, y. split; [exact Hxy|].
    destruct x as [|x0 x]; simpl in Hxy; inv_some Hxy; [apply plain_nl; exact P|].
    rewrite forallb_app in SF. apply andb_true_iff in SF. destruct SF as [_ Hy]. simpl in Hy.
    rewrite andb_true_r in Hy. apply alnum_nl; exact Hy.
Qed.

(** A token is on line 1 + the number of newlines that precede its last character. *)
Theorem token_line_spec src i1 it i2 k lit : fst (lex_items src) = i1 ++ it :: i2 ->
  ik it = IToken k lit ->
  iline it = 1 + count_nl (concat (map itext i1) ++ removelast (itext it)).
Proof.
  intros H K. rewrite (line_spec src i1 it i2 H).
  destruct (lex_items_produced _ _ _ _ H) as (l & line & line' & E).
  destruct (token_last_not_nl _ _ _ _ _ _ _ E K) as (x & c & Hx & Hc).
  rewrite Hx, removelast_last. rewrite !count_nl_app, count_nl_single by exact Hc. lia.
Qed.

(* ------------------------------------------------------------------ *)
(** * Item 5: tokens and diagnostics are the projections of the items *)

Theorem tokens_of_lex src : lx_tokens (lex src) = tokens_of (fst (lex_items src)).
Proof. rewrite lex_eq. reflexivity. Qed.

Theorem diags_of_lex src : lx_diags (lex src) = lexdiags_of (fst (lex_items src)).
Proof. rewrite lex_eq. reflexivity. Qed.

(** order is preserved: projecting commutes with concatenation *)
Theorem tokens_of_app a b : tokens_of (a ++ b) = tokens_of a ++ tokens_of b.
Proof.
  induction a as [|it a IH]; [reflexivity|]. simpl. destruct (token_of_item it); simpl; rewrite IH; reflexivity.
Qed.

Theorem lexdiags_of_app a b : lexdiags_of (a ++ b) = lexdiags_of a ++ lexdiags_of b.
Proof.
  induction a as [|it a IH]; [reflexivity|]. simpl. destruct (diag_of_item it); simpl; rewrite IH; reflexivity.
Qed.

(** every token item appears as a token with the item's kind, text, literal and line *)
Theorem token_fields items it k l : In it items -> ik it = IToken k l ->
  In (mkTok k (itext it) l (iline it)) (tokens_of items).
Proof.
  intros HI K. apply in_split in HI. destruct HI as (a & b & ->). rewrite tokens_of_app. apply in_or_app. right.
  simpl. unfold token_of_item. rewrite K. left. reflexivity.
Qed.

(** conversely every token comes from a token item *)
Theorem token_origin items t : In t (tokens_of items) ->
  exists it, In it items /\ ik it = IToken (tk t) (tlit t) /\ tlex t = itext it /\ tline t = iline it.
Proof.
  induction items as [|it items IH]; simpl; [contradiction|].
  unfold token_of_item. destruct (ik it) as [k l| | | | |d] eqn:K;
    try (intros H; destruct (IH H) as (it' & HI & R); exists it'; split; [right; exact HI|exact R]).
  intros [<-|H].
  - exists it. simpl. auto.
  - destruct (IH H) as (it' & HI & R). exists it'. split; [right; exact HI|exact R].
Qed.

Theorem diag_fields items it d : In it items -> ik it = IBad d -> In (iline it, d) (lexdiags_of items).
Proof.
  intros HI K. apply in_split in HI. destruct HI as (a & b & ->). rewrite lexdiags_of_app. apply in_or_app. right.
  simpl. unfold diag_of_item. rewrite K. left. reflexivity.
Qed.

(** The same, stated on the token list of [lex] alone: each token's lexeme occurs in the source,
    and its line is 1 + the number of newlines before the lexeme's last character. *)
Theorem token_line_src src t : In t (lx_tokens (lex src)) ->
  exists pre post, src = pre ++ tlex t ++ post /\ tline t = 1 + count_nl (pre ++ removelast (tlex t)).
Proof.
  rewrite tokens_of_lex. intros HT. destruct (token_origin _ _ HT) as (it & HI & K & TL & LN).
  apply in_split in HI. destruct HI as (i1 & i2 & H).
  exists (concat (map itext i1)), (concat (map itext i2)). rewrite TL, LN. split.
  - rewrite <- (lex_items_partition src) at 1. rewrite H, map_app, concat_app. reflexivity.
  - eapply token_line_spec; eassumption.
Qed.

(* ------------------------------------------------------------------ *)
(** * Item 6: classification of the items *)

(** What an item of each kind looks like ([rest] is the text that follows it).  The kinds
    are the constructors of [ikind], so exactly one clause applies to any item. *)
Definition item_ok (it : item) (rest : list N) : Prop :=
  match ik it with
  | IToken k l => token_of_item it = Some (mkTok k (itext it) l (iline it)) /\ diag_of_item it = None
  | IBlank => (itext it = [32] \/ itext it = [13] \/ itext it = [9]) /\ token_of_item it = None /\ diag_of_item it = None
  | INewline => itext it = [10] /\ token_of_item it = None /\ diag_of_item it = None
  | ILineComment =>
      (exists body, itext it = 47 :: 47 :: body /\ forallb not_nl body = true) /\
      (rest = [] \/ exists r, rest = 10 :: r) /\ token_of_item it = None /\ diag_of_item it = None
  | IBlockComment =>
      (exists body0, itext it = 47 :: 42 :: body0 ++ [42; 47]) /\ token_of_item it = None /\ diag_of_item it = None
  | IBad d =>
      token_of_item it = None /\ diag_of_item it = Some (iline it, d) /\
      match d with
      | LexUnexpectedChar =>
          exists c, itext it = [c] /\ is_digit c = false /\ is_alpha c = false /\ one_char c = None /\ plain c
      | LexUnterminatedString =>
          exists body, itext it = 34 :: body /\ forallb not_quote body = true /\ rest = []
      | LexUnterminatedComment =>
          exists r, itext it = 47 :: 42 :: r /\ block_comment r = None /\ rest = []
      | LexBadNumber =>
          exists c ds fs, itext it = (c :: ds) ++ fs /\ is_digit c = true /\ forallb is_digit ds = true /\
                          literal_value (translit_str (c :: ds)) (translit_str (tl fs)) = None
      end
  end.

Lemma blank_cases c : ((c =? 32) || (c =? 13) || (c =? 9)) = true -> c = 32 \/ c = 13 \/ c = 9.
Proof. rewrite !orb_true_iff, !N.eqb_eq. tauto. Qed.

Theorem scan1_classify l line it rest line' : scan1 l line = Some (it, rest, line') -> item_ok it rest.
Proof.
  intros H. apply scan1_step_rel in H. unfold item_ok, token_of_item, diag_of_item.
  destruct H as
    [ r line | c r line H10 HB | r' body rest line ES | r' body rest line EC | r' line EC
    | r line HS | r body rest' line ES | r body line ES
    | c d r' k0 line P ET | c r k0 line P E2 E1
    | c r ds rest fs rest' v line P E2 E1 ED ES EF EV
    | c r ds rest fs rest' line P E2 E1 ED ES EF EV
    | c r cs rest line P E2 E1 ED EA ES
    | c r line P E2 E1 ED EA ]; cbn [ik itext iline]; auto.
  - split; [|auto]. apply blank_cases in HB. destruct HB as [->|[->| ->]]; auto.
  - destruct (span_spec _ _ _ _ ES) as (_ & SF & SR). split; [exists body; auto|]. split; [|auto].
    destruct SR as [->|(c & r & -> & Hc)]; [left; reflexivity|right].
    unfold not_nl in Hc. apply negb_false_iff, N.eqb_eq in Hc. subst c. exists r. reflexivity.
  - destruct (block_comment_spec _ _ _ EC) as (_ & b0 & ->). split; [exists b0; reflexivity|auto].
  - split; [reflexivity|]. split; [reflexivity|]. exists r'. auto.
  - split; [reflexivity|]. split; [reflexivity|]. exists body. split; [reflexivity|]. split; [|reflexivity].
    eapply span_forallb; exact ES.
  - split; [reflexivity|]. split; [reflexivity|]. exists c, ds, fs. split; [reflexivity|]. split; [exact ED|].
    split; [eapply span_forallb; exact ES|exact EV].
  - split; [reflexivity|]. split; [reflexivity|]. exists c. auto.
Qed.

(** lifted to every item of a source text *)
Theorem lex_items_classify src i1 it i2 : fst (lex_items src) = i1 ++ it :: i2 ->
  item_ok it (concat (map itext i2)).
Proof.
  intros H. destruct (lex_items_produced _ _ _ _ H) as (l & line & line' & E). eapply scan1_classify; exact E.
Qed.

Theorem lex_items_all_ok src : Forall (fun it => exists rest, item_ok it rest) (fst (lex_items src)).
Proof.
  apply Forall_forall. intros it HI. apply in_split in HI. destruct HI as (i1 & i2 & H).
  exists (concat (map itext i2)). eapply lex_items_classify; exact H.
Qed.

(** an unterminated string or comment swallows the rest of the text: it is the last item *)
Theorem unterminated_is_last src i1 it i2 : fst (lex_items src) = i1 ++ it :: i2 ->
  ik it = IBad LexUnterminatedString \/ ik it = IBad LexUnterminatedComment -> i2 = [].
Proof.
  intros H K. pose proof (lex_items_classify _ _ _ _ H) as C. unfold item_ok in C.
  assert (R : concat (map itext i2) = []).
  { destruct K as [K|K]; rewrite K in C; destruct C as (_ & _ & x & _ & _ & R); exact R. }
  rewrite lex_items_scan_all in H. destruct (scan_all_nth _ _ _ _ _ H) as (_ & _ & H2).
  rewrite R in H2. rewrite scan_all_nil in H2. symmetry. exact H2.
Qed.

(** every rejected piece yields exactly one diagnostic, every other item none:
    the diagnostics are in one-to-one correspondence with the [IBad] items, in order *)
Theorem lexdiags_of_spec items :
  lexdiags_of items = flat_map (fun it => match ik it with IBad d => [(iline it, d)] | _ => [] end) items.
Proof.
  induction items as [|it items IH]; [reflexivity|]. simpl. unfold diag_of_item.
  destruct (ik it); simpl; rewrite IH; reflexivity.
Qed.

(* ------------------------------------------------------------------ *)
(** * Item 7: keywords *)

Lemma str_eqb_eq : forall a b, str_eqb a b = true <-> a = b.
Proof.
  induction a as [|x a IH]; destruct b as [|y b]; simpl; split; intros H; try reflexivity; try discriminate.
  - apply andb_true_iff in H. destruct H as [H1 H2]. apply N.eqb_eq in H1. apply IH in H2. congruence.
  - inv_some H. rewrite N.eqb_refl. simpl. apply IH. reflexivity.
Qed.

Lemma assoc_in {A} s (l : list (list N * A)) v : assoc s l = Some v -> In (s, v) l.
Proof.
  induction l as [|[k' v'] l IH]; simpl; [discriminate|].
  destruct (str_eqb s k') eqn:E.
  - intros H. inv_some H. apply str_eqb_eq in E. subst k'. left. reflexivity.
  - intros H. right. apply IH. exact H.
Qed.

Lemma in_assoc {A} s (l : list (list N * A)) v : NoDup (map fst l) -> In (s, v) l -> assoc s l = Some v.
Proof.
  induction l as [|[k' v'] l IH]; simpl; intros ND HI; [contradiction|].
  inversion ND as [|x xs NI ND']; subst x xs.
  destruct HI as [HI|HI].
  - inv_some HI. destruct (str_eqb s s) eqn:E; [reflexivity|].
    assert (str_eqb s s = true) by (apply str_eqb_eq; reflexivity). congruence.
  - destruct (str_eqb s k') eqn:E; [|apply IH; assumption].
    apply str_eqb_eq in E. subst k'. exfalso. apply NI. apply (in_map fst) in HI. exact HI.
Qed.

Theorem keywords_length : length keywords = 15%nat.
Proof. reflexivity. Qed.

Theorem keywords_nodup : NoDup (map fst keywords).
Proof.
  unfold keywords. cbn [map fst].
  repeat (apply NoDup_cons; [cbn [In]; intuition discriminate|]). apply NoDup_nil.
Qed.

(** a word is a keyword exactly when it is one of the 15 spellings of the table *)
Theorem keyword_of_iff s k : keyword_of s = Some k <-> In (s, k) keywords.
Proof. unfold keyword_of. split; [apply assoc_in|apply in_assoc; exact keywords_nodup]. Qed.

Lemma keyword_not_identifier s k : keyword_of s = Some k -> k <> TIDENTIFIER.
Proof.
  intros H. apply keyword_of_iff in H. unfold keywords in H. cbn [In] in H.
  intros ->. intuition discriminate.
Qed.

(** the identifier branch: an [is_alpha] first character always leads there (maximal munch, item 9b, included) *)
Theorem scan1_word c r line it rest line' : is_alpha c = true ->
  scan1 (c :: r) line = Some (it, rest, line') ->
  exists cs, span is_alnum r = (cs, rest) /\ it = mkItem (IToken (word_kind (c :: cs)) LNone) (c :: cs) line /\ line' = line.
Proof.
  intros HA H. apply scan1_step_rel in H.
  inversion H as
    [ r0 line0 | c0 r0 line0 H10 HB | r' body rest0 line0 ES | r' body rest0 line0 EC | r' line0 EC
    | r0 line0 HS | r0 body rest' line0 ES | r0 body line0 ES
    | c0 d r' k0 line0 P ET | c0 r0 k0 line0 P E2 E1
    | c0 r0 ds rest0 fs rest' v line0 P E2 E1 ED ES EF EV
    | c0 r0 ds rest0 fs rest' line0 P E2 E1 ED ES EF EV
    | c0 r0 cs rest0 line0 P E2 E1 ED EA ES
    | c0 r0 line0 P E2 E1 ED EA ]; subst;
    try (vm_compute in HA; discriminate HA).
  - apply blank_cases in HB. destruct HB as [->|[->| ->]]; vm_compute in HA; discriminate HA.
  - rewrite (two_char_not_alpha _ _ _ ET) in HA. discriminate.
  - rewrite (one_char_not_alpha _ _ E1) in HA. discriminate.
  - rewrite (digit_not_alpha _ ED) in HA. discriminate.
  - rewrite (digit_not_alpha _ ED) in HA. discriminate.
  - exists cs. auto.
  - congruence.
Qed.

(** first characters of the token items that are not words *)
Lemma token_first_char l line it rest line' k lit : scan1 l line = Some (it, rest, line') ->
  ik it = IToken k lit -> is_alpha (hd 0 (itext it)) = true ->
  exists c r, l = c :: r /\ is_alpha c = true.
Proof.
  intros H K HA. destruct (scan1_step _ _ _ _ _ H) as (P & NE & _ & _).
  destruct (itext it) as [|c x] eqn:T; [congruence|]. simpl in HA. exists c, (x ++ rest). split; [exact P|exact HA].
Qed.

(** A word token (first character [is_alpha]) has kind [word_kind lexeme]; it is a keyword
    token exactly when its lexeme is one of the spellings in [keywords]. *)
Theorem keyword_iff l line it rest line' k lit : scan1 l line = Some (it, rest, line') ->
  ik it = IToken k lit -> is_alpha (hd 0 (itext it)) = true ->
  lit = LNone /\ k = word_kind (itext it) /\
  (k <> TIDENTIFIER <-> exists k', keyword_of (itext it) = Some k' /\ k = k').
Proof.
  intros H K HA. destruct (token_first_char _ _ _ _ _ _ _ H K HA) as (c & r & -> & HC).
  destruct (scan1_word _ _ _ _ _ _ HC H) as (cs & _ & -> & _). cbn [ik itext] in *. inv_some K.
  split; [reflexivity|]. split; [reflexivity|]. unfold word_kind.
  destruct (keyword_of (c :: cs)) as [k0|] eqn:EK.
  - split; [intros _; exists k0; auto|]. intros _. eapply keyword_not_identifier; exact EK.
  - split; [congruence|]. intros (k' & Hk & _). discriminate.
Qed.

Corollary keyword_iff_in l line it rest line' k lit : scan1 l line = Some (it, rest, line') ->
  ik it = IToken k lit -> is_alpha (hd 0 (itext it)) = true ->
  (k <> TIDENTIFIER <-> In (itext it, k) keywords).
Proof.
  intros H K HA. destruct (keyword_iff _ _ _ _ _ _ _ H K HA) as (_ & _ & Q). rewrite Q.
  split; [intros (k' & Hk & ->); apply keyword_of_iff; exact Hk|].
  intros HI. exists k. split; [apply keyword_of_iff; exact HI|reflexivity].
Qed.

(* ------------------------------------------------------------------ *)
(** * Item 8: string tokens *)

(** The value of a string token is the text between the quotes, which contains no quote. *)
Theorem string_value l line it rest line' body : scan1 l line = Some (it, rest, line') ->
  ik it = IToken TSTRING (LStr body) -> itext it = 34 :: body ++ [34] /\ forallb not_quote body = true.
Proof.
  intros H. apply scan1_step_rel in H.
  destruct H as
    [ r line | c r line H10 HB | r' body0 rest line ES | r' body0 rest line EC | r' line EC
    | r line HS | r body0 rest' line ES | r body0 line ES
    | c d r' k0 line P ET | c r k0 line P E2 E1
    | c r ds rest fs rest' v line P E2 E1 ED ES EF EV
    | c r ds rest fs rest' line P E2 E1 ED ES EF EV
    | c r cs rest line P E2 E1 ED EA ES
    | c r line P E2 E1 ED EA ]; cbn [ik itext]; intros K; try discriminate K.
  inv_some K. split; [reflexivity|]. eapply span_forallb; exact ES.
Qed.

(** and string tokens are the only tokens with a string literal; the kind TSTRING always carries one *)
Theorem string_kind l line it rest line' k lit : scan1 l line = Some (it, rest, line') ->
  ik it = IToken k lit -> (k = TSTRING <-> exists body, lit = LStr body).
Proof.
  intros H. apply scan1_step_rel in H.
  destruct H as
    [ r line | c r line H10 HB | r' body0 rest line ES | r' body0 rest line EC | r' line EC
    | r line HS | r body0 rest' line ES | r body0 line ES
    | c d r' k0 line P ET | c r k0 line P E2 E1
    | c r ds rest fs rest' v line P E2 E1 ED ES EF EV
    | c r ds rest fs rest' line P E2 E1 ED ES EF EV
    | c r cs rest line P E2 E1 ED EA ES
    | c r line P E2 E1 ED EA ]; cbn [ik itext]; intros K; try discriminate K; inv_some K.
  - split; [discriminate|]. intros (b & Hb). discriminate.
  - split; [intros _; exists body0; reflexivity|reflexivity].
  - split; [|intros (b & Hb); discriminate]. intros ->. unfold two_char in ET.
    repeat match type of ET with (if ?x then _ else _) = _ => destruct x; [discriminate|] end. discriminate.
  - split; [|intros (b & Hb); discriminate]. intros ->. unfold one_char in E1.
    repeat match type of E1 with (if ?x then _ else _) = _ => destruct x; [discriminate|] end. discriminate.
  - split; [discriminate|]. intros (b & Hb). discriminate.
  - split; [|intros (b & Hb); discriminate]. intros Hk. exfalso. unfold word_kind in Hk.
    destruct (keyword_of (c :: cs)) as [k0|] eqn:EK; [|discriminate].
    apply keyword_of_iff in EK. subst k0. unfold keywords in EK. cbn [In] in EK. intuition discriminate.
Qed.

(* ------------------------------------------------------------------ *)
(** * Item 9: maximal munch *)

(** (a) a two-character operator is taken whenever its two characters are next; no side
    condition is needed: its first character is none of newline, blank, slash, quote. *)
Theorem two_char_first c d r line k : two_char c d = Some k ->
  scan1 (c :: d :: r) line = Some (mkItem (IToken k LNone) [c; d] line, r, line).
Proof. intros H. apply step_scan1. apply St_two; [eapply two_char_plain; exact H|exact H]. Qed.

Theorem two_char_side_conditions c d k : two_char c d = Some k ->
  c <> 10 /\ c <> 32 /\ c <> 13 /\ c <> 9 /\ c <> 47 /\ c <> 34.
Proof.
  intros H. destruct (two_char_chars _ _ _ H) as [Hc _]. simpl in Hc.
  repeat split; intros ->; intuition discriminate.
Qed.

(** (b) identifiers and keywords are maximal: the lexeme is the first character followed by
    the longest run of [is_alnum] characters; what follows does not start with one. *)
Theorem word_maximal c r line it rest line' : is_alpha c = true ->
  scan1 (c :: r) line = Some (it, rest, line') ->
  exists cs, itext it = c :: cs /\ ik it = IToken (word_kind (c :: cs)) LNone /\
             forallb is_alnum cs = true /\ r = cs ++ rest /\
             match rest with d :: _ => is_alnum d = false | [] => True end.
Proof.
  intros HA H. destruct (scan1_word _ _ _ _ _ _ HA H) as (cs & ES & -> & _).
  exists cs. cbn [ik itext]. split; [reflexivity|]. split; [reflexivity|].
  destruct (span_spec _ _ _ _ ES) as (SA & SF & _). split; [exact SF|]. split; [exact SA|].
  eapply span_rest_hd; exact ES.
Qed.

(** (c) numbers are maximal: digits, then a fraction only if the point is followed by a
    digit; "a point not followed by a digit is not part of the number". *)
Theorem number_maximal c r line it rest line' : is_digit c = true ->
  scan1 (c :: r) line = Some (it, rest, line') ->
  exists ds fs, itext it = (c :: ds) ++ fs /\ r = ds ++ fs ++ rest /\ forallb is_digit ds = true /\
    (ik it = IBad LexBadNumber \/ exists v, ik it = IToken TNUMBER (LNum v)) /\
    ((fs = [] /\ dig_hd rest = false /\ forall e t, rest = 46 :: e :: t -> is_digit e = false) \/
     (exists e more, fs = 46 :: e :: more /\ forallb is_digit (e :: more) = true /\ dig_hd rest = false)).
Proof.
  intros HD H. apply scan1_step_rel in H.
  assert (Num : forall ds rest0 fs, span is_digit r = (ds, rest0) -> frac rest0 = (fs, rest) ->
     r = ds ++ fs ++ rest /\ forallb is_digit ds = true /\
     ((fs = [] /\ dig_hd rest = false /\ forall e t, rest = 46 :: e :: t -> is_digit e = false) \/
      (exists e more, fs = 46 :: e :: more /\ forallb is_digit (e :: more) = true /\ dig_hd rest = false))).
  { intros ds rest0 fs ES EF. destruct (span_spec _ _ _ _ ES) as (SA & SF & _). pose proof (span_rest_hd _ _ _ _ ES) as SR.
    destruct (frac_spec _ _ _ EF) as (FA & FC). split; [rewrite SA, FA; reflexivity|]. split; [exact SF|].
    destruct FC as [(-> & FN)|FC]; [|right; exact FC]. left. split; [reflexivity|]. split; [|exact FN].
    simpl in FA. subst rest0. destruct rest as [|x y]; [reflexivity|exact SR]. }
  inversion H as
    [ r0 line0 | c0 r0 line0 H10 HB | r' body rest0 line0 ES | r' body rest0 line0 EC | r' line0 EC
    | r0 line0 HS | r0 body rest' line0 ES | r0 body line0 ES
    | c0 d r' k0 line0 P ET | c0 r0 k0 line0 P E2 E1
    | c0 r0 ds rest0 fs rest' v line0 P E2 E1 ED ES EF EV
    | c0 r0 ds rest0 fs rest' line0 P E2 E1 ED ES EF EV
    | c0 r0 cs rest0 line0 P E2 E1 ED EA ES
    | c0 r0 line0 P E2 E1 ED EA ]; subst;
    try (vm_compute in HD; discriminate HD); try congruence.
  - apply blank_cases in HB. destruct HB as [->|[->| ->]]; vm_compute in HD; discriminate HD.
  - destruct (two_char_chars _ _ _ ET) as [Hc _]. simpl in Hc.
    repeat (destruct Hc as [Hc|Hc]; [subst c; vm_compute in HD; discriminate HD|]). contradiction.
  - rewrite (digit_one_char _ HD) in E1. discriminate.
  - exists ds, fs. cbn [ik itext]. destruct (Num ds rest0 fs ES EF) as (A & B & C).
    split; [reflexivity|]. split; [exact A|]. split; [exact B|]. split; [right; exists v; reflexivity|exact C].
  - exists ds, fs. cbn [ik itext]. destruct (Num ds rest0 fs ES EF) as (A & B & C).
    split; [reflexivity|]. split; [exact A|]. split; [exact B|]. split; [left; reflexivity|exact C].
Qed.

(** a one-character operator is taken only when no two-character operator starts here *)
Theorem one_char_only_if_no_two c d r line it rest line' k :
  scan1 (c :: d :: r) line = Some (it, rest, line') -> two_char c d = Some k ->
  it = mkItem (IToken k LNone) [c; d] line /\ rest = r.
Proof.
  intros H T. rewrite (two_char_first c d r line k T) in H. inv_some H. auto.
Qed.

(* ------------------------------------------------------------------ *)
(** * Item 10: totality; the end-of-input token *)

(** [lex] is a total function (a Gallina definition): every text has a token list, an
    end-of-input line and a diagnostics list.  The end-of-input token is NOT an element
    of [lx_tokens]; it is represented by [lx_eof_line] alone, so "exactly one EOF token,
    at the end" holds by construction of the representation, and its line is given by
    [eof_line]. *)
Theorem lex_total src : exists toks fin ds, lex src = mkLexed toks fin ds /\ fin = 1 + count_nl src.
Proof.
  exists (lx_tokens (lex src)), (lx_eof_line (lex src)), (lx_diags (lex src)).
  split; [destruct (lex src); reflexivity|apply eof_line].
Qed.

Print Assumptions scan1_iff.
Print Assumptions scan1_step.
Print Assumptions lex_items_partition.
Print Assumptions eof_line.
Print Assumptions token_line_spec.
Print Assumptions token_line_src.
Print Assumptions lex_items_classify.
Print Assumptions keyword_iff_in.
Print Assumptions number_maximal.
