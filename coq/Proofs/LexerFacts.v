(** Facts about the scanner model [Model/Lexer.v], for ALL texts (no length bound).

    Scheme (as in design_spikes/LexerSpike.v): one exact characterisation of a single
    scanner step ([scan1_iff]: [scan1] is the relation [step], one constructor per
    branch, carrying the branch's path condition), per-step lemmas read off it, then
    short inductions over the item list.

    The end-of-input token is not an element of the token list in the model: it is
    represented by [lx_eof_line] (see [lex_total] at the end). *)
From Borno Require Import Base Num Unicode Token Lexer.
Open Scope N_scope.

Arguments is_alpha : simpl never.
Arguments is_digit : simpl never.
Arguments is_alnum : simpl never.
Arguments is_letter : simpl never.
Arguments is_mark : simpl never.
Arguments literal_value : simpl never.
Arguments keyword_of : simpl never.
Arguments two_char : simpl never.
Arguments one_char : simpl never.
Arguments count_nl : simpl never.

(* ------------------------------------------------------------------ *)
(** * [span] *)

Lemma span_app {A} (p : A -> bool) : forall l a b, span p l = (a, b) -> l = a ++ b.
Proof.
  induction l as [|c r IH]; simpl; intros a b H.
  - inversion H; reflexivity.
  - destruct (p c).
    + destruct (span p r) as [a' b'] eqn:E. inversion H; subst a b. simpl. f_equal. apply IH. reflexivity.
    + inversion H; reflexivity.
Qed.

Lemma span_forallb {A} (p : A -> bool) : forall l a b, span p l = (a, b) -> forallb p a = true.
Proof.
  induction l as [|c r IH]; simpl; intros a b H.
  - inversion H; reflexivity.
  - destruct (p c) eqn:PC.
    + destruct (span p r) as [a' b'] eqn:E. inversion H; subst a b. simpl. rewrite PC. simpl. eapply IH. reflexivity.
    + inversion H; reflexivity.
Qed.

Lemma span_rest {A} (p : A -> bool) : forall l a b, span p l = (a, b) ->
  b = [] \/ exists c r, b = c :: r /\ p c = false.
Proof.
  induction l as [|c r IH]; simpl; intros a b H.
  - inversion H; auto.
  - destruct (p c) eqn:PC.
    + destruct (span p r) as [a' b'] eqn:E. inversion H; subst a b. eapply IH. reflexivity.
    + inversion H; subst a b. right. exists c, r. auto.
Qed.

(** what [span] computes: the longest prefix satisfying [p] *)
Lemma span_spec {A} (p : A -> bool) l a b : span p l = (a, b) ->
  l = a ++ b /\ forallb p a = true /\ (b = [] \/ exists c r, b = c :: r /\ p c = false).
Proof.
  intros H. split; [|split]; [eapply span_app|eapply span_forallb|eapply span_rest]; exact H.
Qed.

(** conversely a prefix satisfying [p] followed by nothing or by a [p]-failing element is what [span] returns *)
Lemma span_intro {A} (p : A -> bool) : forall a b, forallb p a = true ->
  match b with c :: _ => p c = false | [] => True end -> span p (a ++ b) = (a, b).
Proof.
  induction a as [|x a IH]; simpl; intros b Ha Hb.
  - destruct b as [|c r]; simpl; [reflexivity|]. rewrite Hb. reflexivity.
  - apply andb_true_iff in Ha. destruct Ha as [Hx Ha]. rewrite Hx. rewrite (IH b Ha Hb). reflexivity.
Qed.

Lemma span_rest_hd {A} (p : A -> bool) l a b : span p l = (a, b) ->
  match b with c :: _ => p c = false | [] => True end.
Proof.
  intros H. destruct (span_rest p l a b H) as [->|(c & r & -> & Hc)]; auto.
Qed.

(* ------------------------------------------------------------------ *)
(** * [count_nl] *)

Lemma count_nl_nil : count_nl [] = 0.
Proof. reflexivity. Qed.

Lemma count_nl_app a b : count_nl (a ++ b) = count_nl a + count_nl b.
Proof. unfold count_nl. rewrite filter_app, app_length. lia. Qed.

Lemma count_nl_cons_nl l : count_nl (10 :: l) = 1 + count_nl l.
Proof. change (10 :: l) with ([10] ++ l). rewrite count_nl_app. reflexivity. Qed.

Lemma count_nl_cons c l : (c =? 10) = false -> count_nl (c :: l) = count_nl l.
Proof. intros H. unfold count_nl. simpl. rewrite H. reflexivity. Qed.

Lemma count_nl_single c : (c =? 10) = false -> count_nl [c] = 0.
Proof. intros H. rewrite count_nl_cons by exact H. reflexivity. Qed.

Lemma count_nl_forallb (p : N -> bool) : (forall x, p x = true -> (x =? 10) = false) ->
  forall l, forallb p l = true -> count_nl l = 0.
Proof.
  intros Hp. induction l as [|x l IH]; simpl; intros H; [reflexivity|].
  apply andb_true_iff in H. destruct H as [Hx Hl]. rewrite count_nl_cons by (apply Hp; exact Hx). apply IH; exact Hl.
Qed.

(* ------------------------------------------------------------------ *)
(** * [block_comment] *)

Lemma block_comment_eq c r : block_comment (c :: r) =
  match r with
  | d :: r' => if (c =? 42) && (d =? 47) then Some ([c; d], r')
               else match block_comment r with Some (b, rest) => Some (c :: b, rest) | None => None end
  | [] => None
  end.
Proof. reflexivity. Qed.

(** a terminated comment body is a prefix of the text and ends with the closer [*/] *)
Lemma block_comment_spec : forall l b rest, block_comment l = Some (b, rest) ->
  l = b ++ rest /\ exists b0, b = b0 ++ [42; 47].
Proof.
  induction l as [|c r IH]; intros b rest H; [discriminate|].
  rewrite block_comment_eq in H. destruct r as [|d r']; [discriminate|].
  destruct ((c =? 42) && (d =? 47)) eqn:E.
  - apply andb_true_iff in E. destruct E as [E1 E2]. apply N.eqb_eq in E1, E2. subst c d.
    inversion H; subst b rest. split; [reflexivity|]. exists []. reflexivity.
  - destruct (block_comment (d :: r')) as [[b' rest']|] eqn:EB; [|discriminate].
    inversion H; subst b rest. destruct (IH b' rest' eq_refl) as [P (b0 & Q)].
    split; [simpl; f_equal; exact P|]. exists (c :: b0). rewrite Q. reflexivity.
Qed.

(** the comment found does not depend on what follows its closer *)
Lemma block_comment_local : forall l b rest, block_comment l = Some (b, rest) ->
  forall rest2, block_comment (b ++ rest2) = Some (b, rest2).
Proof.
  induction l as [|c r IH]; intros b rest H rest2; [discriminate|].
  rewrite block_comment_eq in H. destruct r as [|d r']; [discriminate|].
  destruct ((c =? 42) && (d =? 47)) eqn:E.
  - inversion H; subst b rest. simpl app. rewrite block_comment_eq. rewrite E. reflexivity.
  - destruct (block_comment (d :: r')) as [[b' rest']|] eqn:EB; [|discriminate].
    inversion H; subst b rest. pose proof (IH b' rest' eq_refl rest2) as IH2.
    destruct (block_comment_spec _ _ _ EB) as [P (b0 & Q)].
    destruct b' as [|d' b'']; [destruct b0; discriminate Q|].
    simpl in P. inversion P; subst d'.
    simpl app. rewrite block_comment_eq. simpl app in IH2. rewrite E. rewrite IH2. reflexivity.
Qed.

(** an unterminated comment stays unterminated when a character other than [/] is appended *)
Lemma block_comment_none_snoc : forall l w, block_comment l = None -> (w =? 47) = false ->
  block_comment (l ++ [w]) = None.
Proof.
  induction l as [|c r IH]; intros w H Hw; [reflexivity|].
  rewrite block_comment_eq in H. simpl app. rewrite block_comment_eq.
  destruct r as [|d r'].
  - simpl. rewrite Hw. rewrite andb_false_r. reflexivity.
  - destruct ((c =? 42) && (d =? 47)) eqn:E; [discriminate|].
    destruct (block_comment (d :: r')) as [[b' rest']|] eqn:EB; [discriminate|].
    change ((d :: r') ++ [w]) with (d :: (r' ++ [w])). cbv iota. rewrite E.
    change (d :: (r' ++ [w])) with ((d :: r') ++ [w]). rewrite (IH w eq_refl Hw). reflexivity.
Qed.

(* ------------------------------------------------------------------ *)
(** * One scanner step as a relation *)

(** the two inline look-ahead computations of [scan1], named *)
Definition two_look (c : N) (r : list N) : option (tkind * N * list N) :=
  match r with
  | d :: r' => match two_char c d with Some k => Some (k, d, r') | None => None end
  | [] => None
  end.

Definition frac (rest : list N) : list N * list N :=
  match rest with
  | p :: e :: rest0 =>
      if (p =? 46) && is_digit e then
        let '(fs, rest1) := span is_digit (e :: rest0) in (p :: fs, rest1)
      else ([], rest)
  | _ => ([], rest)
  end.

Lemma scan1_cons c r line : scan1 (c :: r) line =
  if c =? 10 then Some (mkItem INewline [c] (line + 1), r, line + 1)
  else if (c =? 32) || (c =? 13) || (c =? 9) then Some (mkItem IBlank [c] line, r, line)
  else if c =? 47 then
    match r with
    | d :: r' =>
        if d =? 47 then
          let '(body, rest) := span not_nl r' in
          Some (mkItem ILineComment (c :: d :: body) line, rest, line)
        else if d =? 42 then
          match block_comment r' with
          | Some (body, rest) =>
              Some (mkItem IBlockComment (c :: d :: body) (line + count_nl body), rest, line + count_nl body)
          | None =>
              Some (mkItem (IBad LexUnterminatedComment) (c :: d :: r') (line + count_nl r'), [], line + count_nl r')
          end
        else Some (mkItem (IToken TSLASH LNone) [c] line, r, line)
    | [] => Some (mkItem (IToken TSLASH LNone) [c] line, r, line)
    end
  else if c =? 34 then
    let '(body, rest) := span not_quote r in
    match rest with
    | q :: rest' => Some (mkItem (IToken TSTRING (LStr body)) (c :: body ++ [q]) (line + count_nl body), rest', line + count_nl body)
    | [] => Some (mkItem (IBad LexUnterminatedString) (c :: body) (line + count_nl body), [], line + count_nl body)
    end
  else
    match two_look c r with
    | Some (k, d, r') => Some (mkItem (IToken k LNone) [c; d] line, r', line)
    | None =>
        match one_char c with
        | Some k => Some (mkItem (IToken k LNone) [c] line, r, line)
        | None =>
            if is_digit c then
              let '(ds, rest) := span is_digit r in
              let '(fs, rest') := frac rest in
              match literal_value (translit_str (c :: ds)) (translit_str (tl fs)) with
              | Some v => Some (mkItem (IToken TNUMBER (LNum v)) ((c :: ds) ++ fs) line, rest', line)
              | None => Some (mkItem (IBad LexBadNumber) ((c :: ds) ++ fs) line, rest', line)
              end
            else if is_alpha c then
              let '(cs, rest) := span is_alnum r in
              Some (mkItem (IToken (match keyword_of (c :: cs) with Some k => k | None => TIDENTIFIER end) LNone) (c :: cs) line, rest, line)
            else Some (mkItem (IBad LexUnexpectedChar) [c] line, r, line)
        end
    end.
Proof. reflexivity. Qed.

(** [c] is none of newline, blank, [/], ["]: the four tests made before the operator tables *)
Definition plain (c : N) : Prop :=
  (c =? 10) = false /\ ((c =? 32) || (c =? 13) || (c =? 9)) = false /\ (c =? 47) = false /\ (c =? 34) = false.

Definition word_kind (s : list N) : tkind :=
  match keyword_of s with Some k => k | None => TIDENTIFIER end.

Inductive step : list N -> N -> item -> list N -> N -> Prop :=
| St_newline r line :
    step (10 :: r) line (mkItem INewline [10] (line + 1)) r (line + 1)
| St_blank c r line :
    (c =? 10) = false -> ((c =? 32) || (c =? 13) || (c =? 9)) = true ->
    step (c :: r) line (mkItem IBlank [c] line) r line
| St_linecomment r' body rest line :
    span not_nl r' = (body, rest) ->
    step (47 :: 47 :: r') line (mkItem ILineComment (47 :: 47 :: body) line) rest line
| St_blockcomment r' body rest line :
    block_comment r' = Some (body, rest) ->
    step (47 :: 42 :: r') line (mkItem IBlockComment (47 :: 42 :: body) (line + count_nl body)) rest (line + count_nl body)
| St_untermcomment r' line :
    block_comment r' = None ->
    step (47 :: 42 :: r') line (mkItem (IBad LexUnterminatedComment) (47 :: 42 :: r') (line + count_nl r')) [] (line + count_nl r')
| St_slash r line :
    match r with d :: _ => (d =? 47) = false /\ (d =? 42) = false | [] => True end ->
    step (47 :: r) line (mkItem (IToken TSLASH LNone) [47] line) r line
| St_string r body rest' line :
    span not_quote r = (body, 34 :: rest') ->
    step (34 :: r) line (mkItem (IToken TSTRING (LStr body)) (34 :: body ++ [34]) (line + count_nl body)) rest' (line + count_nl body)
| St_untermstring r body line :
    span not_quote r = (body, []) ->
    step (34 :: r) line (mkItem (IBad LexUnterminatedString) (34 :: body) (line + count_nl body)) [] (line + count_nl body)
| St_two c d r' k line :
    plain c -> two_char c d = Some k ->
    step (c :: d :: r') line (mkItem (IToken k LNone) [c; d] line) r' line
| St_one c r k line :
    plain c -> two_look c r = None -> one_char c = Some k ->
    step (c :: r) line (mkItem (IToken k LNone) [c] line) r line
| St_number c r ds rest fs rest' v line :
    plain c -> two_look c r = None -> one_char c = None -> is_digit c = true ->
    span is_digit r = (ds, rest) -> frac rest = (fs, rest') ->
    literal_value (translit_str (c :: ds)) (translit_str (tl fs)) = Some v ->
    step (c :: r) line (mkItem (IToken TNUMBER (LNum v)) ((c :: ds) ++ fs) line) rest' line
| St_badnumber c r ds rest fs rest' line :
    plain c -> two_look c r = None -> one_char c = None -> is_digit c = true ->
    span is_digit r = (ds, rest) -> frac rest = (fs, rest') ->
    literal_value (translit_str (c :: ds)) (translit_str (tl fs)) = None ->
    step (c :: r) line (mkItem (IBad LexBadNumber) ((c :: ds) ++ fs) line) rest' line
| St_word c r cs rest line :
    plain c -> two_look c r = None -> one_char c = None -> is_digit c = false -> is_alpha c = true ->
    span is_alnum r = (cs, rest) ->
    step (c :: r) line (mkItem (IToken (word_kind (c :: cs)) LNone) (c :: cs) line) rest line
| St_badchar c r line :
    plain c -> two_look c r = None -> one_char c = None -> is_digit c = false -> is_alpha c = false ->
    step (c :: r) line (mkItem (IBad LexUnexpectedChar) [c] line) r line.

Ltac inv_some H := inversion H; subst; clear H.

(** [scan1] is exactly [step] *)
Lemma scan1_step_rel l line it rest line' :
  scan1 l line = Some (it, rest, line') -> step l line it rest line'.
Proof.
  destruct l as [|c r]; [discriminate|]. rewrite scan1_cons.
  destruct (c =? 10) eqn:E10.
  { apply N.eqb_eq in E10. subst c. intros H. inv_some H. constructor. }
  destruct ((c =? 32) || (c =? 13) || (c =? 9)) eqn:EB.
  { intros H. inv_some H. constructor; assumption. }
  destruct (c =? 47) eqn:E47.
  { apply N.eqb_eq in E47. subst c. destruct r as [|d r'].
    - intros H. inv_some H. constructor. exact I.
    - destruct (d =? 47) eqn:D47.
      + apply N.eqb_eq in D47. subst d. destruct (span not_nl r') as [body rest0] eqn:ES.
        intros H. inv_some H. constructor. exact ES.
      + destruct (d =? 42) eqn:D42.
        * apply N.eqb_eq in D42. subst d. destruct (block_comment r') as [[body rest0]|] eqn:EC.
          -- intros H. inv_some H. constructor. exact EC.
          -- intros H. inv_some H. constructor. exact EC.
        * intros H. inv_some H. constructor. split; assumption. }
  destruct (c =? 34) eqn:E34.
  { apply N.eqb_eq in E34. subst c. destruct (span not_quote r) as [body rest0] eqn:ES.
    destruct rest0 as [|q rest1].
    - intros H. inv_some H. constructor. exact ES.
    - pose proof (span_rest_hd _ _ _ _ ES) as HQ. simpl in HQ. unfold not_quote in HQ.
      apply negb_false_iff, N.eqb_eq in HQ. subst q.
      intros H. inv_some H. constructor. exact ES. }
  assert (P : plain c) by (unfold plain; auto).
  destruct (two_look c r) as [[[k d] r']|] eqn:E2.
  { unfold two_look in E2. destruct r as [|d0 r0]; [discriminate|].
    destruct (two_char c d0) as [k0|] eqn:ET; [|discriminate]. inv_some E2.
    intros H. inv_some H. constructor; assumption. }
  destruct (one_char c) as [k|] eqn:E1.
  { intros H. inv_some H. constructor; assumption. }
  destruct (is_digit c) eqn:ED.
  { destruct (span is_digit r) as [ds rest0] eqn:ES. destruct (frac rest0) as [fs rest1] eqn:EF.
    destruct (literal_value (translit_str (c :: ds)) (translit_str (tl fs))) as [v|] eqn:EV.
    - intros H. inv_some H. econstructor; eassumption.
    - intros H. inv_some H. econstructor; eassumption. }
  destruct (is_alpha c) eqn:EA.
  { destruct (span is_alnum r) as [cs rest0] eqn:ES.
    intros H. inv_some H. apply St_word; assumption. }
  intros H. inv_some H. constructor; assumption.
Qed.

Lemma step_scan1 l line it rest line' :
  step l line it rest line' -> scan1 l line = Some (it, rest, line').
Proof.
  intros S. destruct S as
    [ r line | c r line H10 HB | r' body rest line ES | r' body rest line EC | r' line EC
    | r line HS | r body rest' line ES | r body line ES
    | c d r' k line P ET | c r k line P E2 E1
    | c r ds rest fs rest' v line P E2 E1 ED ES EF EV
    | c r ds rest fs rest' line P E2 E1 ED ES EF EV
    | c r cs rest line P E2 E1 ED EA ES
    | c r line P E2 E1 ED EA ];
  rewrite scan1_cons.
  - reflexivity.
  - rewrite H10, HB. reflexivity.
  - simpl. rewrite ES. reflexivity.
  - simpl. rewrite EC. reflexivity.
  - simpl. rewrite EC. reflexivity.
  - simpl. destruct r as [|d r0]; [reflexivity|]. destruct HS as [H1 H2]. rewrite H1, H2. reflexivity.
  - simpl. rewrite ES. reflexivity.
  - simpl. rewrite ES. reflexivity.
  - destruct P as (P1 & P2 & P3 & P4). rewrite P1, P2, P3, P4. unfold two_look. rewrite ET. reflexivity.
  - destruct P as (P1 & P2 & P3 & P4). rewrite P1, P2, P3, P4, E2, E1. reflexivity.
  - destruct P as (P1 & P2 & P3 & P4). rewrite P1, P2, P3, P4, E2, E1, ED, ES, EF, EV. reflexivity.
  - destruct P as (P1 & P2 & P3 & P4). rewrite P1, P2, P3, P4, E2, E1, ED, ES, EF, EV. reflexivity.
  - destruct P as (P1 & P2 & P3 & P4). rewrite P1, P2, P3, P4, E2, E1, ED, EA, ES. reflexivity.
  - destruct P as (P1 & P2 & P3 & P4). rewrite P1, P2, P3, P4, E2, E1, ED, EA. reflexivity.
Qed.

Theorem scan1_iff l line it rest line' :
  scan1 l line = Some (it, rest, line') <-> step l line it rest line'.
Proof. split; [apply scan1_step_rel|apply step_scan1]. Qed.

Lemma scan1_none l line : scan1 l line = None -> l = [].
Proof.
  destruct l as [|c r]; [reflexivity|]. rewrite scan1_cons.
  destruct (c =? 10); [discriminate|].
  destruct ((c =? 32) || (c =? 13) || (c =? 9)); [discriminate|].
  destruct (c =? 47).
  { destruct r as [|d r']; [discriminate|]. destruct (d =? 47).
    - destruct (span not_nl r'); discriminate.
    - destruct (d =? 42); [|discriminate]. destruct (block_comment r') as [[b0 r0]|]; discriminate. }
  destruct (c =? 34). { destruct (span not_quote r) as [b0 [|q r0]]; discriminate. }
  destruct (two_look c r) as [[[k d] r']|]; [discriminate|].
  destruct (one_char c); [discriminate|].
  destruct (is_digit c).
  { destruct (span is_digit r) as [ds r0]. destruct (frac r0) as [fs r1].
    destruct (literal_value _ _); discriminate. }
  destruct (is_alpha c); [|discriminate]. destruct (span is_alnum r); discriminate.
Qed.

Lemma scan1_nil line : scan1 [] line = None.
Proof. reflexivity. Qed.
