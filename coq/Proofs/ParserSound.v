(** Soundness of the expression parser for the published grammar:
    whatever [pexpr] accepts is (after erasing line numbers) a ladder-shaped tree
    ([WFfull]) and the consumed tokens are a writing of it ([Yields]).
    One statement per expression function, proved together by induction on the fuel. *)
From Borno Require Import Base Num Token Ast Parser ParserEqs ParserMono Grammar ParserSC_Base.
Local Open Scope nat_scope.

Ltac lnorm := repeat (progress (rewrite <- ?app_assoc; cbn [app])).

(** * The canonical writing is a writing *)

Lemma YieldsList_flat es :
  Forall (fun e => Yields e (flat_e e)) es -> YieldsList es (join_comma (map flat_e es)).
Proof.
  induction 1 as [|e es He Hes IH]; [constructor|].
  destruct es as [|e2 es]; [apply YL_one; exact He|].
  change (join_comma (map flat_e (e :: e2 :: es)))
    with (flat_e e ++ Sym TCOMMA :: join_comma (map flat_e (e2 :: es))).
  apply YL_cons; [exact He|discriminate|exact IH].
Qed.

Lemma YieldsRaw_flat ps :
  Forall (fun e => Yields e (flat_e e)) (map snd ps) ->
  YieldsRaw ps (join_comma (map (fun kv => let '(k, v) := kv in SymId k :: Sym TCOLON :: flat_e v) ps)).
Proof.
  induction ps as [|[k v] ps IH]; intros H; [constructor|].
  simpl in H. inv H.
  destruct ps as [|kv2 ps]; [apply YR_one; assumption|].
  match goal with |- YieldsRaw _ (join_comma (map ?g _)) =>
    change (YieldsRaw ((k, v) :: kv2 :: ps)
              ((SymId k :: Sym TCOLON :: flat_e v) ++ Sym TCOMMA :: join_comma (map g (kv2 :: ps)))) end.
  cbn [app]. apply YR_cons; [assumption|]. apply IH. assumption.
Qed.

(** every well-formed tree is written by its canonical writing *)
Lemma WF_Yields_flat_all :
  (forall e, WFfull e -> Yields e (flat_e e)) /\ (forall k e, WFk k e -> Yields e (flat_e e)).
Proof.
  assert (H : forall n e, esize e <= n ->
              (WFfull e -> Yields e (flat_e e)) /\ (forall k, WFk k e -> Yields e (flat_e e))).
  { apply WF_ind_size; intros; cbn [flat_e].
    - apply Y_lit.
    - apply Y_id.
    - apply Y_group; assumption.
    - apply Y_unary; assumption.
    - apply Y_binary; assumption.
    - apply Y_logical; assumption.
    - apply Y_assign; assumption.
    - apply Y_arrassign; assumption.
    - apply Y_propassign; assumption.
    - apply Y_call; [assumption|]. apply YieldsList_flat; assumption.
    - apply Y_index; assumption.
    - apply Y_prop; assumption.
    - apply Y_array. apply YieldsList_flat; assumption.
    - apply (Y_object ps); [apply YieldsRaw_flat; assumption|].
      rewrite fold_put_nodup; [reflexivity|assumption]. }
  split.
  - intros e. apply (H (esize e) e (le_n _)).
  - intros k e. apply (H (esize e) e (le_n _)).
Qed.

Lemma WF_Yields_flat e : WFfull e -> Yields e (flat_e e).
Proof. apply WF_Yields_flat_all. Qed.

(** * Helpers about [mk_bin] and property tables *)

Lemma Yields_mk_bin b op l r sl sr :
  Yields (erase_e l) sl -> Yields (erase_e r) sr ->
  Yields (erase_e (mk_bin b op l r)) (sl ++ Sym (tk op) :: sr).
Proof. intros Yl Yr. rewrite erase_mk_bin. destruct b; constructor; assumption. Qed.

Lemma WFk_mk_bin k b op l r :
  op_level (tk op) = Some k -> level_logical k = b ->
  WFk k (erase_e l) -> WFk (S k) (erase_e r) -> WFk k (erase_e (mk_bin b op l r)).
Proof.
  intros Ho Hb Wl Wr. rewrite erase_mk_bin. destruct b.
  - eapply WF_logical; eauto.
  - eapply WF_binary; eauto.
Qed.

Lemma fold_put_keys_nodup raw : forall acc : list (list N * expr),
  NoDup (map fst acc) -> NoDup (map fst (fold_left put_kv raw acc)).
Proof.
  induction raw as [|[k v] raw IH]; intros acc H; simpl; [exact H|].
  apply IH. unfold put_kv. simpl. apply props_put_nodup. exact H.
Qed.

Lemma props_put_Forall (P : expr -> Prop) ps k v :
  Forall P (map snd ps) -> P v -> Forall P (map snd (props_put ps k v)).
Proof.
  induction ps as [|[k' v'] ps IH]; simpl; intros H Hv; [constructor; [exact Hv|constructor]|].
  inv H. destruct (str_eqb k k'); simpl; constructor; auto.
Qed.

Lemma fold_put_Forall (P : expr -> Prop) raw : forall acc,
  Forall P (map snd acc) -> Forall P (map snd raw) -> Forall P (map snd (fold_left put_kv raw acc)).
Proof.
  induction raw as [|[k v] raw IH]; intros acc Ha Hr; simpl; [exact Ha|].
  simpl in Hr. inv Hr. apply IH; [|assumption]. unfold put_kv. simpl. apply props_put_Forall; assumption.
Qed.

(** * Soundness of the expression functions *)

Section Sound.
Variable eofl : N.

Notation pexpr := (Parser.pexpr eofl).
Notation plevel := (Parser.plevel eofl).
Notation ploop := (Parser.ploop eofl).
Notation punary := (Parser.punary eofl).
Notation pcallloop := (Parser.pcallloop eofl).
Notation pargs := (Parser.pargs eofl).
Notation pprimary := (Parser.pprimary eofl).
Notation pprops := (Parser.pprops eofl).
Notation consume := (Parser.consume eofl).

(** a function that reads a whole operand: no diagnostics, the erased tree has
    shape [W] and the consumed symbols are a writing of it *)
Definition Res (W : expr -> Prop) (ts : list token) (e : expr) (r : list token) (ds : list pdiag) : Prop :=
  ds = [] /\ W (erase_e e) /\ exists s, SymPre s ts r /\ Yields (erase_e e) s.

(** a loop that extends the accumulator [a]: the symbols it consumes, appended to
    any writing of the accumulator, are a writing of the result *)
Definition ResLoop (W : expr -> Prop) (a : expr) (ts : list token) (e : expr) (r : list token) (ds : list pdiag) : Prop :=
  ds = [] /\ W (erase_e e) /\
  exists s', SymPre s' ts r /\ forall sa, Yields (erase_e a) sa -> Yields (erase_e e) (sa ++ s').

Definition ResList (ts : list token) (es : list expr) (r : list token) (ds : list pdiag) : Prop :=
  ds = [] /\ Forall WFfull (map erase_e es) /\ exists s, SymPre s ts r /\ YieldsList (map erase_e es) s.

Definition SoundAt (f : nat) : Prop :=
  (forall ts e r ds, pexpr f ts = POk e r ds -> Res WFfull ts e r ds) /\
  (forall k ts e r ds, k <= nlev -> plevel f (skipn k ladder) ts = POk e r ds -> Res (WFk k) ts e r ds) /\
  (forall k a ts e r ds, k < nlev -> ploop f (lvl k) (skipn (S k) ladder) a ts = POk e r ds ->
      WFk k (erase_e a) -> ResLoop (WFk k) a ts e r ds) /\
  (forall ts e r ds, punary f ts = POk e r ds -> Res (WFk nlev) ts e r ds) /\
  (forall a ts e r ds, pcallloop f a ts = POk e r ds ->
      WFk (S nlev) (erase_e a) -> ResLoop (WFk (S nlev)) a ts e r ds) /\
  (forall ts es r ds, pargs f ts = POk es r ds -> es <> [] /\ ResList ts es r ds) /\
  (forall ts e r ds, pprimary f ts = POk e r ds -> Res (WFk (S nlev)) ts e r ds) /\
  (forall acc ts ps r ds, pprops f acc ts = POk ps r ds ->
      ds = [] /\ exists raw s, SymPre s ts r /\ YieldsRaw (map erase_kv raw) s /\
                               ps = fold_left put_kv raw acc /\
                               Forall (fun v => WFfull (erase_e v)) (map snd raw)).

Lemma ResLoop_stop (W : expr -> Prop) a ts e r ds :
  POk a ts [] = POk e r ds -> W (erase_e a) -> ResLoop W a ts e r ds.
Proof.
  intros H Wa. inv H. split; [reflexivity|split; [exact Wa|]].
  exists []. split; [apply SymPre_nil|]. intros sa Ya. rewrite app_nil_r. exact Ya.
Qed.

Lemma sound_all : forall f, SoundAt f.
Proof.
  induction f as [|f (Ie & Il & Ilo & Iu & Ic & Ia & Ipr & Ips)]; unfold SoundAt.
  { split; [|split; [|split; [|split; [|split; [|split; [|split]]]]]]; intros; discriminate. }
  (* optional bracketed lists: "( )" / "[ ]" or pargs *)
  assert (Iopt : forall close ts es r ds,
            (if check close ts then POk [] ts [] else pargs f ts) = POk es r ds -> ResList ts es r ds).
  { intros close ts es r ds H. destruct (check close ts).
    - inv H. split; [reflexivity|split; [constructor|]]. exists []. split; [apply SymPre_nil|constructor].
    - apply Ia in H. apply H. }
  split; [|split; [|split; [|split; [|split; [|split; [|split]]]]]].
  - (* pexpr *)
    intros ts e r ds H. rewrite pexpr_S in H. bd H as e0 r0 d1 d2 E Ed.
    destruct (Il 0 _ _ _ _ (Nat.le_0_l _) E) as (-> & W0 & s0 & P0 & Y0).
    simpl in Ed. subst d2.
    assert (Plain : POk e0 r0 [] = POk e r ds -> Res WFfull ts e r ds).
    { intros H1. inv H1. split; [reflexivity|split; [apply WF_level; exact W0|]]. exists s0. auto. }
    destruct r0 as [|eq r1]; [apply Plain; exact H|].
    destruct (tkind_eqb (tk eq) TEQUAL) eqn:Eq; [|apply Plain; exact H].
    apply tkind_eqb_eq in Eq.
    bd H as v r2 d3 d4 E1 Ed1.
    destruct (Ie _ _ _ _ E1) as (-> & Wv & sv & Pv & Yv). simpl in Ed1. subst d4.
    assert (PP : SymPre (s0 ++ Sym TEQUAL :: sv) ts r2).
    { eapply SymPre_app; [exact P0|]. apply SymPre_cons; [apply sym_of_tk; [exact Eq|reflexivity]|exact Pv]. }
    destruct e0; try discriminate H; inv H; cbn [erase_e] in *.
    + inv Y0. split; [reflexivity|split; [apply WF_assign; exact Wv|]].
      eexists. split; [exact PP|]. cbn [app]. apply Y_assign. exact Yv.
    + inv Y0. inv W0. split; [reflexivity|split; [apply WF_arrassign; assumption|]].
      eexists. split; [exact PP|]. lnorm. apply Y_arrassign; assumption.
    + inv Y0. inv W0. split; [reflexivity|split; [apply WF_propassign; assumption|]].
      eexists. split; [exact PP|]. lnorm. apply Y_propassign; assumption.
  - (* plevel *)
    intros k ts e r ds Hk H. rewrite plevel_S in H.
    destruct (Nat.eq_dec k nlev) as [->|Hne].
    + rewrite ladder_skipn_all in H. apply Iu in H. exact H.
    + assert (Hlt : k < nlev) by lia. rewrite (ladder_skipn k Hlt) in H.
      bd H as e0 r0 d1 d2 E Ed.
      destruct (Il (S k) _ _ _ _ Hlt E) as (-> & W0 & s0 & P0 & Y0).
      simpl in Ed. subst d2.
      destruct (Ilo k _ _ _ _ _ Hlt H (WFk_le _ _ _ W0 (Nat.le_succ_diag_r k))) as (-> & W1 & s1 & P1 & Y1).
      split; [reflexivity|split; [exact W1|]]. exists (s0 ++ s1). split; [eapply SymPre_app; eassumption|].
      apply Y1. exact Y0.
  - (* ploop *)
    intros k a ts e r ds Hk H Wa. rewrite ploop_S in H.
    destruct ts as [|op ts']; [apply ResLoop_stop; assumption|].
    destruct (kind_in (tk op) (fst (lvl k))) eqn:Kin; [|apply ResLoop_stop; assumption].
    apply (level_ops_spec _ _ Hk) in Kin.
    bd H as rhs r1 d1 d2 E Ed.
    destruct (Il (S k) _ _ _ _ Hk E) as (-> & Wr & sr & Pr & Yr). simpl in Ed. subst d2.
    assert (Wb : WFk k (erase_e (mk_bin (snd (lvl k)) op a rhs))).
    { apply WFk_mk_bin; auto. }
    destruct (Ilo k _ _ _ _ _ Hk H Wb) as (-> & W1 & s1 & P1 & Y1).
    split; [reflexivity|split; [exact W1|]].
    exists (Sym (tk op) :: sr ++ s1). split.
    + apply SymPre_cons; [apply sym_of_plain; eapply op_level_plain; exact Kin|].
      eapply SymPre_app; eassumption.
    + intros sa Ya. specialize (Y1 (sa ++ Sym (tk op) :: sr) (Yields_mk_bin _ _ _ _ _ _ Ya Yr)).
      revert Y1. lnorm. intros Y1. exact Y1.
  - (* punary *)
    intros ts e r ds H. rewrite punary_S in H.
    assert (Post : forall ts0, pbind (pprimary f ts0) (fun e r' => pcallloop f e r') = POk e r ds ->
                               Res (WFk nlev) ts0 e r ds).
    { intros ts0 H0. bd H0 as e0 r0 d1 d2 E Ed.
      destruct (Ipr _ _ _ _ E) as (-> & W0 & s0 & P0 & Y0). simpl in Ed. subst d2.
      destruct (Ic _ _ _ _ _ H0 W0) as (-> & W1 & s1 & P1 & Y1).
      split; [reflexivity|split; [eapply WFk_le; [exact W1|lia]|]].
      exists (s0 ++ s1). split; [eapply SymPre_app; eassumption|]. apply Y1, Y0. }
    destruct ts as [|op ts']; [apply Post; exact H|].
    destruct (kind_in (tk op) unary_ops) eqn:U; [|apply Post; exact H].
    bd H as e0 r0 d1 d2 E Ed. inv H.
    destruct (Iu _ _ _ _ E) as (-> & W0 & s0 & P0 & Y0).
    split; [reflexivity|]. cbn [erase_e]. split; [apply WF_unary; [exact U|lia|exact W0]|].
    exists (Sym (tk op) :: s0). split.
    + apply SymPre_cons; [apply sym_of_plain, is_unop_plain; exact U|exact P0].
    + apply Y_unary. exact Y0.
  - (* pcallloop *)
    intros a ts e r ds H Wa. rewrite pcallloop_S in H.
    destruct ts as [|t ts']; [apply ResLoop_stop; assumption|].
    destruct (tk t) eqn:K; try (apply ResLoop_stop; assumption).
    + (* call *)
      bd H as args r1 d1 d2 E Ed. bd H as paren r2 d3 d4 E2 Ed2.
      apply consume_ok in E2. destruct E2 as (-> & Kp & ->).
      destruct (Iopt _ _ _ _ _ E) as (-> & Wargs & sa & Pa & Ya).
      simpl in Ed2. subst d2. simpl in Ed. subst d4.
      assert (Wc : WFk (S nlev) (erase_e (ECall a (tline paren) args))).
      { cbn [erase_e]. apply WF_call; assumption. }
      destruct (Ic _ _ _ _ _ H Wc) as (-> & W1 & s1 & P1 & Y1).
      split; [reflexivity|split; [exact W1|]].
      exists (Sym TLEFT_PAREN :: sa ++ Sym TRIGHT_PAREN :: s1). split.
      * apply SymPre_cons; [apply sym_of_tk; [exact K|reflexivity]|].
        eapply SymPre_app; [exact Pa|]. apply SymPre_cons; [apply sym_of_tk; [exact Kp|reflexivity]|exact P1].
      * intros s0 Y0. specialize (Y1 (s0 ++ Sym TLEFT_PAREN :: sa ++ [Sym TRIGHT_PAREN])).
        revert Y1. lnorm. intros Y1. apply Y1. cbn [erase_e].
        apply Y_call; assumption.
    + (* index *)
      bd H as i r1 d1 d2 E Ed. bd H as rb r2 d3 d4 E2 Ed2.
      apply consume_ok in E2. destruct E2 as (-> & Kp & ->).
      destruct (Ie _ _ _ _ E) as (-> & Wi & si & Pi & Yi).
      simpl in Ed2. subst d2. simpl in Ed. subst d4.
      assert (Wc : WFk (S nlev) (erase_e (EIndex a i (tline rb)))).
      { cbn [erase_e]. apply WF_index; assumption. }
      destruct (Ic _ _ _ _ _ H Wc) as (-> & W1 & s1 & P1 & Y1).
      split; [reflexivity|split; [exact W1|]].
      exists (Sym TLEFT_BRACKET :: si ++ Sym TRIGHT_BRACKET :: s1). split.
      * apply SymPre_cons; [apply sym_of_tk; [exact K|reflexivity]|].
        eapply SymPre_app; [exact Pi|]. apply SymPre_cons; [apply sym_of_tk; [exact Kp|reflexivity]|exact P1].
      * intros s0 Y0. specialize (Y1 (s0 ++ Sym TLEFT_BRACKET :: si ++ [Sym TRIGHT_BRACKET])).
        revert Y1. lnorm. intros Y1. apply Y1. cbn [erase_e].
        apply Y_index; assumption.
    + (* property *)
      bd H as nm r1 d1 d2 E Ed.
      apply consume_ok in E. destruct E as (-> & Kn & ->). simpl in Ed. subst d2.
      assert (Wc : WFk (S nlev) (erase_e (EProp a (tlex nm) (tline nm)))).
      { cbn [erase_e]. apply WF_prop; assumption. }
      destruct (Ic _ _ _ _ _ H Wc) as (-> & W1 & s1 & P1 & Y1).
      split; [reflexivity|split; [exact W1|]].
      exists (Sym TDOT :: SymId (tlex nm) :: s1). split.
      * apply SymPre_cons; [apply sym_of_tk; [exact K|reflexivity]|].
        apply SymPre_cons; [apply sym_of_ident; exact Kn|exact P1].
      * intros s0 Y0. specialize (Y1 (s0 ++ [Sym TDOT; SymId (tlex nm)])).
        revert Y1. lnorm. intros Y1. apply Y1. cbn [erase_e].
        apply Y_prop; assumption.
  - (* pargs *)
    intros ts es r ds H. rewrite pargs_S in H. bd H as e r0 d1 d2 E Ed.
    destruct (Ie _ _ _ _ E) as (-> & We & se & Pe & Ye). simpl in Ed. subst d2.
    destruct (check TCOMMA r0) eqn:C.
    + apply check_true in C. destruct C as (c & r1 & -> & Kc). cbn [tl] in H.
      bd H as more r2 d3 d4 E1 Ed1. inv H.
      destruct (Ia _ _ _ _ E1) as (Hne & -> & Wm & sm & Pm & Ym).
      split; [discriminate|]. split; [reflexivity|]. cbn [map]. split; [constructor; assumption|].
      exists (se ++ Sym TCOMMA :: sm). split.
      * eapply SymPre_app; [exact Pe|]. apply SymPre_cons; [apply sym_of_tk; [exact Kc|reflexivity]|exact Pm].
      * apply YL_cons; [exact Ye| |exact Ym]. destruct more; [contradiction|discriminate].
    + inv H. split; [discriminate|]. split; [reflexivity|]. cbn [map]. split; [constructor; [exact We|constructor]|].
      exists se. split; [exact Pe|apply YL_one; exact Ye].
  - (* pprimary *)
    intros ts e r ds H. rewrite pprimary_S in H. unfold perr_at in H.
    destruct ts as [|t ts']; [discriminate|].
    destruct (tk t) eqn:K; try discriminate.
    + (* ( *)
      bd H as e0 r1 d1 d2 E Ed. bd H as rp r2 d3 d4 E2 Ed2. inv H.
      apply consume_ok in E2. destruct E2 as (-> & Kp & ->).
      destruct (Ie _ _ _ _ E) as (-> & W0 & s0 & P0 & Y0).
      split; [reflexivity|]. cbn [erase_e]. split; [apply WF_group; exact W0|].
      exists (Sym TLEFT_PAREN :: s0 ++ [Sym TRIGHT_PAREN]). split.
      * apply SymPre_cons; [apply sym_of_tk; [exact K|reflexivity]|].
        eapply SymPre_app; [exact P0|]. apply SymPre_one. apply sym_of_tk; [exact Kp|reflexivity].
      * apply Y_group. exact Y0.
    + (* { *)
      bd H as ps r1 d1 d2 E Ed. bd H as rb r2 d3 d4 E2 Ed2. inv H.
      apply consume_ok in E2. destruct E2 as (-> & Kp & ->).
      destruct (Ips _ _ _ _ _ E) as (-> & raw & s0 & P0 & Y0 & -> & Wraw).
      split; [reflexivity|]. rewrite erase_object. split.
      * apply WF_object.
        -- rewrite map_fst_erase. apply fold_put_keys_nodup. constructor.
        -- rewrite map_snd_erase. apply Forall_map. apply fold_put_Forall; [constructor|exact Wraw].
      * exists (Sym TLEFT_BRACE :: s0 ++ [Sym TRIGHT_BRACE]). split.
        -- apply SymPre_cons; [apply sym_of_tk; [exact K|reflexivity]|].
           eapply SymPre_app; [exact P0|]. apply SymPre_one. apply sym_of_tk; [exact Kp|reflexivity].
        -- apply (Y_object (map erase_kv raw)); [exact Y0|].
           unfold erase_kv. rewrite (fold_put_map erase_e raw []). reflexivity.
    + (* [ *)
      bd H as es r1 d1 d2 E Ed. bd H as rb r2 d3 d4 E2 Ed2. inv H.
      apply consume_ok in E2. destruct E2 as (-> & Kp & ->).
      destruct (Iopt _ _ _ _ _ E) as (-> & Wes & ss & Pes & Yes).
      split; [reflexivity|]. cbn [erase_e]. split; [apply WF_array; exact Wes|].
      exists (Sym TLEFT_BRACKET :: ss ++ [Sym TRIGHT_BRACKET]). split.
      * apply SymPre_cons; [apply sym_of_tk; [exact K|reflexivity]|].
        eapply SymPre_app; [exact Pes|]. apply SymPre_one. apply sym_of_tk; [exact Kp|reflexivity].
      * apply Y_array. exact Yes.
    + (* identifier *)
      inv H. split; [reflexivity|]. cbn [erase_e]. split; [apply WF_id|].
      exists [SymId (tlex t)]. split; [apply SymPre_one, sym_of_ident; exact K|apply Y_id].
    + (* string *)
      inv H. split; [reflexivity|]. cbn [erase_e]. split; [apply WF_lit|].
      exists [sym_of t]. split; [apply SymPre_one; reflexivity|].
      unfold sym_of. rewrite K. destruct (tlit t); [apply Y_nil_str|apply Y_nil_str|apply (Y_lit (LitStr s))].
    + (* number *)
      inv H. split; [reflexivity|]. cbn [erase_e]. split; [apply WF_lit|].
      exists [sym_of t]. split; [apply SymPre_one; reflexivity|].
      unfold sym_of. rewrite K. destruct (tlit t); [apply Y_nil_num|apply (Y_lit (LitNum f0))|apply Y_nil_num].
    + (* false *)
      inv H. split; [reflexivity|]. cbn [erase_e]. split; [apply WF_lit|].
      exists [Sym TFALSE]. split; [apply SymPre_one, sym_of_tk; [exact K|reflexivity]|apply (Y_lit (LitBool false))].
    + (* nil *)
      inv H. split; [reflexivity|]. cbn [erase_e]. split; [apply WF_lit|].
      exists [Sym TNIL]. split; [apply SymPre_one, sym_of_tk; [exact K|reflexivity]|apply (Y_lit LitNil)].
    + (* true *)
      inv H. split; [reflexivity|]. cbn [erase_e]. split; [apply WF_lit|].
      exists [Sym TTRUE]. split; [apply SymPre_one, sym_of_tk; [exact K|reflexivity]|apply (Y_lit (LitBool true))].
  - (* pprops *)
    intros acc ts ps r ds H. rewrite pprops_S in H.
    assert (Stop : POk acc ts [] = POk ps r ds ->
              ds = [] /\ exists raw s, SymPre s ts r /\ YieldsRaw (map erase_kv raw) s /\
                               ps = fold_left put_kv raw acc /\
                               Forall (fun v => WFfull (erase_e v)) (map snd raw)).
    { intros H1. inv H1. split; [reflexivity|]. exists [], []. split; [apply SymPre_nil|].
      split; [constructor|split; [reflexivity|constructor]]. }
    destruct ts as [|t ts']; [apply Stop; exact H|].
    destruct (tkind_eqb (tk t) TRIGHT_BRACE); [apply Stop; exact H|]. clear Stop.
    bd H as nm r1 d1 d2 E Ed. apply consume_ok in E. destruct E as (E & Kn & ->). injection E as <- <-.
    bd H as col r2 d3 d4 E2 Ed2. apply consume_ok in E2. destruct E2 as (-> & Kc & ->).
    bd H as v r3 d5 d6 E3 Ed3.
    destruct (Ie _ _ _ _ E3) as (-> & Wv & sv & Pv & Yv).
    simpl in Ed3. subst d6. simpl in Ed2. subst d2. simpl in Ed. subst d4.
    destruct (check TCOMMA r3) eqn:C.
    + apply check_true in C. destruct C as (c & r4 & -> & Kcm). cbn [tl] in H.
      destruct (Ips _ _ _ _ _ H) as (-> & raw & s & P & Y & -> & Wraw).
      split; [reflexivity|]. exists ((tlex t, v) :: raw), (SymId (tlex t) :: Sym TCOLON :: sv ++ Sym TCOMMA :: s).
      split; [|split; [|split]].
      * apply SymPre_cons; [apply sym_of_ident; exact Kn|].
        apply SymPre_cons; [apply sym_of_tk; [exact Kc|reflexivity]|].
        eapply SymPre_app; [exact Pv|]. apply SymPre_cons; [apply sym_of_tk; [exact Kcm|reflexivity]|exact P].
      * cbn [map erase_kv]. apply YR_cons; assumption.
      * reflexivity.
      * cbn [map snd]. constructor; assumption.
    + inv H. split; [reflexivity|]. exists [(tlex t, v)], (SymId (tlex t) :: Sym TCOLON :: sv).
      split; [|split; [|split]].
      * apply SymPre_cons; [apply sym_of_ident; exact Kn|].
        apply SymPre_cons; [apply sym_of_tk; [exact Kc|reflexivity]|exact Pv].
      * cbn [map erase_kv]. apply YR_one; assumption.
      * reflexivity.
      * cbn [map snd]. constructor; [assumption|constructor].
Qed.

(** ** A. Soundness of [pexpr]: an accepted expression comes without diagnostics,
    its erased tree is the ladder-shaped tree of the grammar, and the consumed
    tokens are a writing of that tree. *)
Theorem pexpr_sound f ts e r ds :
  pexpr f ts = POk e r ds ->
  ds = [] /\ WFfull (erase_e e) /\ exists pre, ts = pre ++ r /\ Yields (erase_e e) (map sym_of pre).
Proof.
  intros H. destruct (sound_all f) as (Ie & _). destruct (Ie _ _ _ _ H) as (-> & W & s & (pre & -> & <-) & Y).
  split; [reflexivity|split; [exact W|]]. exists pre. split; [reflexivity|exact Y].
Qed.

(** the same for each level of the ladder, … *)
Theorem plevel_sound f k ts e r ds :
  k <= nlev -> plevel f (skipn k ladder) ts = POk e r ds ->
  ds = [] /\ WFk k (erase_e e) /\ exists pre, ts = pre ++ r /\ Yields (erase_e e) (map sym_of pre).
Proof.
  intros Hk H. destruct (sound_all f) as (_ & Il & _). destruct (Il _ _ _ _ _ Hk H) as (-> & W & s & (pre & -> & <-) & Y).
  split; [reflexivity|split; [exact W|]]. exists pre. split; [reflexivity|exact Y].
Qed.

(** … the unary level and the postfix/primary level *)
Theorem punary_sound f ts e r ds :
  punary f ts = POk e r ds ->
  ds = [] /\ WFk nlev (erase_e e) /\ exists pre, ts = pre ++ r /\ Yields (erase_e e) (map sym_of pre).
Proof.
  intros H. destruct (sound_all f) as (_ & _ & _ & Iu & _). destruct (Iu _ _ _ _ H) as (-> & W & s & (pre & -> & <-) & Y).
  split; [reflexivity|split; [exact W|]]. exists pre. split; [reflexivity|exact Y].
Qed.

Theorem pprimary_sound f ts e r ds :
  pprimary f ts = POk e r ds ->
  ds = [] /\ WFk (S nlev) (erase_e e) /\ exists pre, ts = pre ++ r /\ Yields (erase_e e) (map sym_of pre).
Proof.
  intros H. destruct (sound_all f) as (_ & _ & _ & _ & _ & _ & Ip & _). destruct (Ip _ _ _ _ H) as (-> & W & s & (pre & -> & <-) & Y).
  split; [reflexivity|split; [exact W|]]. exists pre. split; [reflexivity|exact Y].
Qed.

(** the loop invariants: whatever writes the accumulator, extended by the consumed
    tokens, writes the result; the result stays in the level of the loop *)
Theorem ploop_sound f k a ts e r ds :
  k < nlev -> ploop f (lvl k) (skipn (S k) ladder) a ts = POk e r ds -> WFk k (erase_e a) ->
  ds = [] /\ WFk k (erase_e e) /\
  exists pre, ts = pre ++ r /\ forall sa, Yields (erase_e a) sa -> Yields (erase_e e) (sa ++ map sym_of pre).
Proof.
  intros Hk H Wa. destruct (sound_all f) as (_ & _ & Ilo & _).
  destruct (Ilo _ _ _ _ _ _ Hk H Wa) as (-> & W & s & (pre & -> & <-) & Y).
  split; [reflexivity|split; [exact W|]]. exists pre. split; [reflexivity|exact Y].
Qed.

Theorem pcallloop_sound f a ts e r ds :
  pcallloop f a ts = POk e r ds -> WFk (S nlev) (erase_e a) ->
  ds = [] /\ WFk (S nlev) (erase_e e) /\
  exists pre, ts = pre ++ r /\ forall sa, Yields (erase_e a) sa -> Yields (erase_e e) (sa ++ map sym_of pre).
Proof.
  intros H Wa. destruct (sound_all f) as (_ & _ & _ & _ & Ic & _).
  destruct (Ic _ _ _ _ _ H Wa) as (-> & W & s & (pre & -> & <-) & Y).
  split; [reflexivity|split; [exact W|]]. exists pre. split; [reflexivity|exact Y].
Qed.

(** internal form, used by the statement level *)
Lemma pexpr_sound_pre f ts e r ds : pexpr f ts = POk e r ds -> Res WFfull ts e r ds.
Proof. intros H. destruct (sound_all f) as (Ie & _). apply Ie, H. Qed.

End Sound.

(** * B. Soundness of the statement parser

    Statement functions may succeed with diagnostics (a missing [;] after an
    expression / print statement, a missing [}]); soundness speaks about results
    with an empty diagnostics list, where all sub-results had none either. *)

Lemma pbind_ok_nil {A B} (x : pres A) (k : A -> list token -> pres B) b r :
  pbind x k = POk b r [] -> exists a r1, x = POk a r1 [] /\ k a r1 = POk b r [].
Proof.
  intros H. apply pbind_ok in H. destruct H as (a & r1 & d1 & d2 & E & H & Ed).
  symmetry in Ed. apply app_eq_nil in Ed. destruct Ed as (-> & ->). eauto.
Qed.

Tactic Notation "bdn" hyp(H) "as" ident(a) ident(r) ident(E) :=
  apply pbind_ok_nil in H; destruct H as (a & r & E & H); cbv beta in H.

Ltac sym_tk := first [ apply sym_of_tk; [eassumption|reflexivity] | apply sym_of_ident; eassumption | reflexivity ].
Ltac sympre :=
  repeat first [ eassumption | apply SymPre_nil | apply SymPre_cons; [sym_tk|] | eapply SymPre_app; [eassumption|] ].

Definition var_stmt (ds : list vdecl) : stmt := match ds with [d] => SVar d | _ => SVarList ds end.

Lemma var_stmt_facts ds y :
  ds <> [] -> Forall WFd (map erase_d ds) -> YieldsDs (map erase_d ds) y ->
  WFs (erase_s (var_stmt ds)) /\
  YieldsS (erase_s (var_stmt ds)) (Sym TVAR :: y ++ [Sym TSEMICOLON]) /\
  WFinit (Some (erase_s (var_stmt ds))) /\ is_decl (erase_s (var_stmt ds)) = true.
Proof.
  intros Hne HW HY. destruct ds as [|d [|d2 ds']]; [congruence| |].
  - cbn [var_stmt erase_s map] in *. apply Forall_cons_iff in HW. destruct HW as (Wd & _).
    assert (Yd : YieldsD (erase_d d) y).
    { inversion HY as [d0 s0 Y0|d0 ds0 s0 ss0 Y0 Y1]; subst; [exact Y0|inversion Y1]. }
    split; [apply WFs_var; exact Wd|]. split; [apply YS_var; exact Yd|]. split; [exact Wd|reflexivity].
  - cbn [var_stmt erase_s] in *.
    assert (L : 2 <= length (map erase_d (d :: d2 :: ds'))) by (simpl; lia).
    split; [apply WFs_varlist; assumption|]. split; [apply YS_varlist; exact HY|].
    split; [split; assumption|reflexivity].
Qed.

Section SoundStmt.
Variable eofl : N.

Notation pexpr := (Parser.pexpr eofl).
Notation pvardecls := (Parser.pvardecls eofl).
Notation pvar := (Parser.pvar eofl).
Notation pexprstmt := (Parser.pexprstmt eofl).
Notation pparams := (Parser.pparams eofl).
Notation pdecl := (Parser.pdecl eofl).
Notation pstmt := (Parser.pstmt eofl).
Notation pblock := (Parser.pblock eofl).
Notation pprogram := (Parser.pprogram eofl).
Notation consume := (Parser.consume eofl).

Lemma pexpr_nil f ts e r :
  pexpr f ts = POk e r [] -> WFfull (erase_e e) /\ exists y, SymPre y ts r /\ Yields (erase_e e) y.
Proof. intros H. apply pexpr_sound_pre in H. destruct H as (_ & W & H). auto. Qed.

Lemma pvardecls_sound : forall f l0 ts ds r dg,
  pvardecls f l0 ts = POk ds r dg ->
  dg = [] /\ ds <> [] /\ Forall WFd (map erase_d ds) /\ exists y, SymPre y ts r /\ YieldsDs (map erase_d ds) y.
Proof.
  induction f as [|f IH]; intros l0 ts ds r dg H; [discriminate|].
  rewrite pvardecls_S in H. bd H as nm r1 d1 d2 E Ed.
  apply consume_ok in E. destruct E as (-> & Kn & ->). simpl in Ed. subst d2.
  destruct (is_reserved (tlex nm)) eqn:R; [discriminate|].
  bd H as init r2 d3 d4 E2 Ed2.
  assert (Init : d3 = [] /\ WFd (erase_d (tlex nm, init, tline nm)) /\
                 exists y, SymPre y (nm :: r1) r2 /\ YieldsD (erase_d (tlex nm, init, tline nm)) y).
  { destruct (check TEQUAL r1) eqn:C.
    - apply check_true in C. destruct C as (teq & r1' & -> & Keq). cbn [tl] in E2.
      bd E2 as e r3 d5 d6 E3 Ed3. inv E2.
      apply pexpr_sound_pre in E3. destruct E3 as (-> & We & y & Pe & Ye).
      split; [reflexivity|]. cbn [erase_d option_map]. split; [split; assumption|].
      exists (SymId (tlex nm) :: Sym TEQUAL :: y). split; [sympre|constructor; exact Ye].
    - inv E2. split; [reflexivity|]. cbn [erase_d option_map]. split; [split; [assumption|exact I]|].
      exists [SymId (tlex nm)]. split; [sympre|constructor]. }
  destruct Init as (-> & Wd & y & Py & Yd). simpl in Ed2. subst d4.
  destruct (negb (is_lit_container init) && negb (N.eqb (peek_line eofl r2) l0)); [discriminate|].
  destruct (check TCOMMA r2) eqn:C.
  - apply check_true in C. destruct C as (tc & r2' & -> & Kc). cbn [tl] in H.
    bd H as more r3 d5 d6 E3 Ed3. inv H.
    destruct (IH _ _ _ _ _ E3) as (-> & Hne & Wm & ym & Pm & Ym).
    split; [reflexivity|]. split; [discriminate|]. cbn [map]. split; [constructor; assumption|].
    exists (y ++ Sym TCOMMA :: ym). split; [sympre|apply YDs_cons; assumption].
  - inv H. split; [reflexivity|]. split; [discriminate|]. cbn [map]. split; [constructor; [assumption|constructor]|].
    exists y. split; [exact Py|apply YDs_one; exact Yd].
Qed.

Lemma pvar_sound f ts s r :
  pvar f ts = POk s r [] ->
  exists ds y, s = var_stmt ds /\ ds <> [] /\ Forall WFd (map erase_d ds) /\ YieldsDs (map erase_d ds) y /\
               SymPre (y ++ [Sym TSEMICOLON]) ts r.
Proof.
  unfold Parser.pvar. intros H. bdn H as ds r1 E. bdn H as sc r2 E2.
  apply consume_ok in E2. destruct E2 as (-> & Ks & _).
  apply pvardecls_sound in E. destruct E as (_ & Hne & W & y & Py & Y).
  assert (Hs : s = var_stmt ds /\ r = r2) by (destruct ds as [|d [|d2 ds']]; inv H; split; reflexivity).
  destruct Hs as (-> & ->).
  exists ds, y. split; [reflexivity|split; [exact Hne|split; [exact W|split; [exact Y|sympre]]]].
Qed.

Lemma pexprstmt_sound f ts s r :
  pexprstmt f ts = POk s r [] ->
  exists e y, s = SExpr e /\ WFfull (erase_e e) /\ Yields (erase_e e) y /\ SymPre (y ++ [Sym TSEMICOLON]) ts r.
Proof.
  unfold Parser.pexprstmt. intros H. bdn H as e r1 E.
  destruct (consume_lenient eofl TSEMICOLON PSemiAfterValue r1) as [r2 dl] eqn:CL. inv H.
  apply consume_lenient_nil in CL. destruct CL as (tsc & -> & Ks).
  apply pexpr_nil in E. destruct E as (W & y & Py & Y).
  exists e, y. split; [reflexivity|split; [exact W|split; [exact Y|sympre]]].
Qed.

Lemma pparams_sound : forall f n ts ps r dg,
  pparams f n ts = POk ps r dg ->
  dg = [] /\ ps <> [] /\ n + length ps <= max_params /\
  SymPre (join_comma (map (fun p => [SymId p]) ps)) ts r.
Proof.
  induction f as [|f IH]; intros n ts ps r dg H; [discriminate|].
  rewrite pparams_S in H. destruct (Nat.leb max_params n) eqn:L; [discriminate|].
  apply Nat.leb_gt in L.
  bd H as p r1 d1 d2 E Ed. apply consume_ok in E. destruct E as (-> & Kp & ->). simpl in Ed. subst d2.
  destruct (check TCOMMA r1) eqn:C.
  - apply check_true in C. destruct C as (tc & r1' & -> & Kc). cbn [tl] in H.
    bd H as more r2 d3 d4 E2 Ed2. inv H.
    destruct (IH _ _ _ _ _ E2) as (-> & Hne & Hlen & Pm).
    split; [reflexivity|]. split; [discriminate|]. split; [simpl; lia|].
    destruct more as [|p2 more]; [congruence|].
    change (join_comma (map (fun p0 => [SymId p0]) (tlex p :: p2 :: more)))
      with ([SymId (tlex p)] ++ Sym TCOMMA :: join_comma (map (fun p0 => [SymId p0]) (p2 :: more))).
    cbn [app]. sympre.
  - inv H. split; [reflexivity|]. split; [discriminate|]. split; [simpl; lia|].
    cbn [map join_comma]. sympre.
Qed.

(** an optional expression clause: absent iff the next token is [stop] *)
Lemma popt_sound f stop ts v r :
  (if check stop ts then POk None ts [] else pbind (pexpr f ts) (fun e r' => POk (Some e) r' [])) = POk v r [] ->
  WFopt (option_map erase_e v) /\ exists y, SymPre y ts r /\ YieldsOpt (option_map erase_e v) y.
Proof.
  destruct (check stop ts); intros H.
  - inv H. split; [exact I|]. exists []. split; [apply SymPre_nil|constructor].
  - bdn H as e r1 E. inv H. apply pexpr_nil in E. destruct E as (W & y & Py & Y).
    split; [exact W|]. exists y. split; [exact Py|constructor; exact Y].
Qed.

(** a statement result: well-formed and written by the consumed tokens *)
Definition ResS (ts : list token) (s : stmt) (r : list token) : Prop :=
  WFs (erase_s s) /\ exists y, SymPre y ts r /\ YieldsS (erase_s s) y.

Definition SoundS (f : nat) : Prop :=
  (forall ts s r, pdecl f ts = POk s r [] -> ResS ts s r) /\
  (forall ts s r, pstmt f ts = POk s r [] ->
     ResS ts s r /\ is_decl (erase_s s) = false /\ (open_if (erase_s s) = true -> check TELSE r = false)) /\
  (forall ts ss r, pblock f ts = POk ss r [] ->
     Forall WFs (map erase_s ss) /\
     exists y, SymPre (y ++ [Sym TRIGHT_BRACE]) ts r /\ YieldsSs (map erase_s ss) y).

Lemma Yields_first_brace e : forall y, Yields e y ->
  exists x y', y = x :: y' /\ (leftmost_obj e = true -> x = Sym TLEFT_BRACE).
Proof.
  induction e; intros y Y; inv Y; cbn [leftmost_obj];
    try (eexists; eexists; split; [reflexivity|]; intros; (discriminate || reflexivity)).
  - destruct (IHe1 _ ltac:(eassumption)) as (x & y' & -> & Hx). eexists; eexists; split; [reflexivity|exact Hx].
  - destruct (IHe1 _ ltac:(eassumption)) as (x & y' & -> & Hx). eexists; eexists; split; [reflexivity|exact Hx].
  - destruct (IHe1 _ ltac:(eassumption)) as (x & y' & -> & Hx). eexists; eexists; split; [reflexivity|exact Hx].
  - destruct (IHe1 _ ltac:(eassumption)) as (x & y' & -> & Hx). eexists; eexists; split; [reflexivity|exact Hx].
  - destruct (IHe _ ltac:(eassumption)) as (x & y' & -> & Hx). eexists; eexists; split; [reflexivity|exact Hx].
  - destruct (IHe1 _ ltac:(eassumption)) as (x & y' & -> & Hx). eexists; eexists; split; [reflexivity|exact Hx].
  - destruct (IHe _ ltac:(eassumption)) as (x & y' & -> & Hx). eexists; eexists; split; [reflexivity|exact Hx].
Qed.

Lemma sound_stmt_all : forall f, SoundS f.
Proof.
  induction f as [|f (Id & Is & Ib)]; unfold SoundS.
  { split; [|split]; intros; discriminate. }
  split; [|split].
  - (* pdecl *)
    intros ts s r H. rewrite pdecl_S in H.
    destruct ts as [|t ts']; [apply Is in H; apply H|].
    destruct (tk t) eqn:K; try (apply Is in H; apply H).
    + (* function *)
      bdn H as nm r1 E1. apply consume_ok in E1. destruct E1 as (-> & Kn & _).
      destruct (is_reserved (tlex nm)) eqn:R; [discriminate|].
      bdn H as lp r2 E2. apply consume_ok in E2. destruct E2 as (-> & Klp & _).
      bdn H as ps r3 E3. bdn H as rp r4 E4. apply consume_ok in E4. destruct E4 as (-> & Krp & _).
      bdn H as lb r5 E5. apply consume_ok in E5. destruct E5 as (-> & Klb & _).
      bdn H as body r6 E6. inv H.
      assert (Ps : length ps <= max_params /\ SymPre (join_comma (map (fun p => [SymId p]) ps)) r2 (rp :: lb :: r5)).
      { destruct (check TRIGHT_PAREN r2).
        - inv E3. split; [unfold max_params; simpl; lia|apply SymPre_nil].
        - apply pparams_sound in E3. destruct E3 as (_ & _ & L & P). split; [simpl in L; exact L|exact P]. }
      destruct Ps as (Lps & Pps).
      destruct (Ib _ _ _ E6) as (Wb & yb & Pb & Yb).
      split; cbn [erase_s].
      * apply WFs_fun; assumption.
      * eexists. split; [|apply YS_fun; exact Yb]. sympre.
    + (* var *)
      apply pvar_sound in H. destruct H as (ds & y & -> & Hne & W & Y & P).
      destruct (var_stmt_facts ds y Hne W Y) as (Ws & Ys & _ & _).
      split; [exact Ws|]. eexists. split; [|exact Ys]. sympre.
  - (* pstmt *)
    intros ts s r H. rewrite pstmt_S in H.
    assert (Default : forall ts0, (forall t0 r0, ts0 = t0 :: r0 -> tk t0 <> TLEFT_BRACE) ->
              pexprstmt f ts0 = POk s r [] ->
              ResS ts0 s r /\ is_decl (erase_s s) = false /\ (open_if (erase_s s) = true -> check TELSE r = false)).
    { intros ts0 Hnb H0. apply pexprstmt_sound in H0. destruct H0 as (e & y & -> & W & Y & P).
      cbn [erase_s is_decl open_if]. split; [|split; [reflexivity|discriminate]]. split.
      - apply WFs_expr; [exact W|].
        destruct (leftmost_obj (erase_e e)) eqn:LO; [|reflexivity]. exfalso.
        destruct (Yields_first_brace _ _ Y) as (x & y' & -> & Hx). specialize (Hx LO). subst x.
        cbn [app] in P. apply SymPre_cons_inv in P. destruct P as (t0 & ts1 & -> & S0 & _).
        apply (Hnb t0 ts1 eq_refl). apply (sym_of_kind _ _ S0).
      - eexists. split; [exact P|apply YS_expr; exact Y]. }
    destruct ts as [|t ts']; [apply Default; [intros t0 r0 E0; discriminate E0|exact H]|].
    destruct (tk t) eqn:K;
      try (apply Default; [intros t0 r0 E0; inv E0; rewrite K; discriminate|exact H]); clear Default.
    + (* block *)
      bdn H as ss r1 E1. inv H. destruct (Ib _ _ _ E1) as (Wb & yb & Pb & Yb).
      cbn [erase_s is_decl open_if]. split; [|split; [reflexivity|discriminate]].
      split; [apply WFs_block; exact Wb|]. eexists. split; [|apply YS_block; exact Yb]. sympre.
    + (* break *)
      bdn H as sc r1 E1. apply consume_ok in E1. destruct E1 as (-> & Ks & _). inv H.
      cbn [erase_s is_decl open_if]. split; [|split; [reflexivity|discriminate]].
      split; [constructor|]. eexists. split; [|apply YS_break]. sympre.
    + (* continue *)
      bdn H as sc r1 E1. apply consume_ok in E1. destruct E1 as (-> & Ks & _). inv H.
      cbn [erase_s is_decl open_if]. split; [|split; [reflexivity|discriminate]].
      split; [constructor|]. eexists. split; [|apply YS_continue]. sympre.
    + (* for *)
      bdn H as lp r1 E1. apply consume_ok in E1. destruct E1 as (-> & Klp & _).
      bdn H as init r2 E2. bdn H as c r3 E3. bdn H as sc r4 E4. apply consume_ok in E4. destruct E4 as (-> & Ksc & _).
      bdn H as inc r5 E5. bdn H as rp r6 E6. apply consume_ok in E6. destruct E6 as (-> & Krp & _).
      bdn H as b r7 E7. inv H.
      assert (Init : WFinit (match init with Some s => Some (erase_s s) | None => None end) /\
                     exists yi, SymPre yi r1 r2 /\
                       YieldsInit (match init with Some s => Some (erase_s s) | None => None end) yi).
      { destruct (check TSEMICOLON r1) eqn:C1.
        - apply check_true in C1. destruct C1 as (t1 & r1' & -> & K1). cbn [tl] in E2. inv E2.
          split; [exact I|]. exists [Sym TSEMICOLON]. split; [sympre|constructor].
        - destruct (check TVAR r1) eqn:C2.
          + apply check_true in C2. destruct C2 as (t1 & r1' & -> & K1). cbn [tl] in E2.
            bdn E2 as s0 r2' E2'. inv E2.
            apply pvar_sound in E2'. destruct E2' as (ds & y & -> & Hne & W & Y & P).
            destruct (var_stmt_facts ds y Hne W Y) as (_ & Ys & Wi & _).
            split; [exact Wi|]. eexists. split; [|apply YI_some; exact Ys]. sympre.
          + bdn E2 as s0 r2' E2'. inv E2.
            apply pexprstmt_sound in E2'. destruct E2' as (e & y & -> & W & Y & P).
            cbn [erase_s]. split; [exact W|]. eexists. split; [exact P|apply YI_some, YS_expr; exact Y]. }
      destruct Init as (Wi & yi & Pi & Yi).
      assert (Cond : WFfull (erase_e (match c with Some c0 => c0 | None => ELit (LitBool true) 0%N end)) /\
                     exists yc, SymPre yc r2 (sc :: r4) /\
                       YieldsCond (erase_e (match c with Some c0 => c0 | None => ELit (LitBool true) 0%N end)) yc).
      { apply popt_sound in E3. destruct E3 as (Wc & yc & Pc & Yc). destruct c as [c0|]; cbn [option_map] in *.
        - split; [exact Wc|]. exists yc. split; [exact Pc|]. inv Yc. apply YC_written. assumption.
        - cbn [erase_e]. split; [apply WF_level, WF_lit|]. inv Yc. exists []. split; [exact Pc|apply YC_absent]. }
      destruct Cond as (Wc & yc & Pc & Yc).
      apply popt_sound in E5. destruct E5 as (Winc & yinc & Pinc & Yinc).
      destruct (Is _ _ _ E7) as ((Wb & yb & Pb & Yb) & Db & Ob).
      cbn [erase_s is_decl open_if]. split; [|split; [reflexivity|exact Ob]]. split.
      * apply WFs_for; assumption.
      * eexists. split; [|apply YS_for; eassumption]. sympre.
    + (* if *)
      bdn H as lp r1 E1. apply consume_ok in E1. destruct E1 as (-> & Klp & _).
      bdn H as c r2 E2. apply pexpr_nil in E2. destruct E2 as (Wc & yc & Pc & Yc).
      bdn H as rp r3 E3. apply consume_ok in E3. destruct E3 as (-> & Krp & _).
      bdn H as th r4 E4. destruct (Is _ _ _ E4) as ((Wt & yt & Pt & Yt) & Dt & Ot).
      destruct (check TELSE r4) eqn:C.
      * assert (Oth : open_if (erase_s th) = false).
        { destruct (open_if (erase_s th)); [|reflexivity]. specialize (Ot eq_refl). congruence. }
        apply check_true in C. destruct C as (tel & r4' & -> & Kel). cbn [tl] in H.
        bdn H as el r5 E5. inv H. destruct (Is _ _ _ E5) as ((We & ye & Pe & Ye) & De & Oe).
        cbn [erase_s is_decl open_if]. split; [|split; [reflexivity|exact Oe]]. split.
        -- apply WFs_ifelse; assumption.
        -- eexists. split; [|apply YS_ifelse; eassumption]. sympre.
      * inv H. cbn [erase_s is_decl open_if]. split; [|split; [reflexivity|intros _; exact C]]. split.
        -- apply WFs_if; assumption.
        -- eexists. split; [|apply YS_if; eassumption]. sympre.
    + (* print *)
      bdn H as e r1 E1. apply pexpr_nil in E1. destruct E1 as (We & ye & Pe & Ye).
      destruct (consume_lenient eofl TSEMICOLON PSemiAfterValue r1) as [r2 dl] eqn:CL. inv H.
      apply consume_lenient_nil in CL. destruct CL as (tsc & -> & Ks).
      cbn [erase_s is_decl open_if]. split; [|split; [reflexivity|discriminate]]. split.
      * apply WFs_print; assumption.
      * eexists. split; [|apply YS_print; eassumption]. sympre.
    + (* return *)
      bdn H as v r1 E1. apply popt_sound in E1. destruct E1 as (Wv & yv & Pv & Yv).
      bdn H as sc r2 E2. apply consume_ok in E2. destruct E2 as (-> & Ks & _). inv H.
      cbn [erase_s is_decl open_if]. split; [|split; [reflexivity|discriminate]]. split.
      * apply WFs_return; assumption.
      * eexists. split; [|apply YS_return; eassumption]. sympre.
    + (* while *)
      bdn H as lp r1 E1. apply consume_ok in E1. destruct E1 as (-> & Klp & _).
      bdn H as c r2 E2. apply pexpr_nil in E2. destruct E2 as (Wc & yc & Pc & Yc).
      bdn H as rp r3 E3. apply consume_ok in E3. destruct E3 as (-> & Krp & _).
      bdn H as b r4 E4. inv H. destruct (Is _ _ _ E4) as ((Wb & yb & Pb & Yb) & Db & Ob).
      cbn [erase_s is_decl open_if]. split; [|split; [reflexivity|exact Ob]]. split.
      * apply WFs_while; assumption.
      * eexists. split; [|apply YS_while; eassumption]. sympre.
  - (* pblock *)
    intros ts ss r H. rewrite pblock_S in H.
    destruct ts as [|t ts']; [discriminate|].
    destruct (tkind_eqb (tk t) TRIGHT_BRACE) eqn:K.
    + apply tkind_eqb_eq in K. inv H. split; [constructor|]. exists []. split; [cbn [app]; sympre|constructor].
    + bdn H as s r1 E1. bdn H as more r2 E2. inv H.
      destruct (Id _ _ _ E1) as (Ws & ys & Ps & Ys). destruct (Ib _ _ _ E2) as (Wm & ym & Pm & Ym).
      cbn [map]. split; [constructor; assumption|].
      exists (ys ++ ym). split; [rewrite <- app_assoc; sympre|constructor; assumption].
Qed.

Lemma pprogram_sound_pre : forall f ts ss r,
  pprogram f ts = POk ss r [] ->
  r = [] /\ Forall WFs (map erase_s ss) /\ exists y, SymPre y ts [] /\ YieldsSs (map erase_s ss) y.
Proof.
  induction f as [|f IH]; intros ts ss r H; [discriminate|].
  rewrite pprogram_S in H. destruct ts as [|t ts'].
  - inv H. split; [reflexivity|]. split; [constructor|]. exists []. split; [apply SymPre_nil|constructor].
  - bdn H as s r1 E1. bdn H as more r2 E2. inv H.
    destruct (sound_stmt_all f) as (Id & _). destruct (Id _ _ _ E1) as (Ws & ys & Ps & Ys).
    destruct (IH _ _ _ E2) as (-> & Wm & ym & Pm & Ym).
    split; [reflexivity|]. cbn [map]. split; [constructor; assumption|].
    exists (ys ++ ym). split; [sympre|constructor; assumption].
Qed.

(** ** B. Soundness of [pprogram]: a program accepted without diagnostics is
    consumed entirely, its (erased) statements are well-formed statements of the
    grammar and the token sequence is a writing of them. *)
Theorem pprogram_sound f ts ss r :
  pprogram f ts = POk ss r [] ->
  r = [] /\ Forall WFs (map erase_s ss) /\ YieldsProg (map erase_s ss) (map sym_of ts).
Proof.
  intros H. apply pprogram_sound_pre in H. destruct H as (-> & W & y & (pre & -> & <-) & Y).
  split; [reflexivity|]. split; [exact W|]. rewrite app_nil_r. exact Y.
Qed.

(** the same for one declaration or statement *)
Theorem pdecl_sound f ts s r :
  pdecl f ts = POk s r [] ->
  WFs (erase_s s) /\ exists pre, ts = pre ++ r /\ YieldsS (erase_s s) (map sym_of pre).
Proof.
  intros H. destruct (sound_stmt_all f) as (Id & _). destruct (Id _ _ _ H) as (W & y & (pre & -> & <-) & Y).
  split; [exact W|]. exists pre. split; [reflexivity|exact Y].
Qed.

End SoundStmt.

Print Assumptions pexpr_sound.
Print Assumptions pprogram_sound.
