(** Headline scenarios of several properties, run INSIDE THE KERNEL from their source text ([vm_compute] of the whole
    pipeline lex -> parse -> run); the expected transcripts are what the real interpreter printed for the same text when
    this file was generated (tools: harness/py + the borno binary).  Non-vacuity and readability only: the general
    statements are in Properties/. *)
From Borno Require Import Base Num Unicode Token Lexer Ast Parser Value Eval Cli.
Open Scope N_scope.

Definition libm_s (_ : N) (x _ : f64) : f64 := x.
Definition sched_s (_ : N) (l : list (list N * value)) := l.
Definition transcript (src : list N) : option (list (list N) * N) :=
  match result_streams (run_source libm_s (f_of_bits 0) sched_s 400 false src []) with
  | Some (o, _, st) => Some (map (fun e => match e with EvPrint t => t | EvEcho t => t | EvPrompt t => t | EvText t => t end) o, st)
  | None => None
  end.

(** shadowing (C03).  Source:
      ধরি x = 1;
      { ধরি x = 2; { x = 3; দেখাও x; } দেখাও x; }
      দেখাও x;
      ফর (ধরি x = 10; x < 11; x = x + 1) { দেখাও x; }
      দেখাও x;
    The interpreter printed: 3 | 3 | 1 | 10 | 1 ; exit status 0 *)
Definition src_shadowing : list N := [2471; 2480; 2495; 32; 120; 32; 61; 32; 49; 59; 10; 123; 32; 2471; 2480; 2495; 32; 120; 32; 61; 32; 50; 59; 32; 123; 32; 120; 32; 61; 32; 51; 59; 32; 2470; 2503; 2454; 2494; 2451; 32; 120; 59; 32; 125; 32; 2470; 2503; 2454; 2494; 2451; 32; 120; 59; 32; 125; 10; 2470; 2503; 2454; 2494; 2451; 32; 120; 59; 10; 2475; 2480; 32; 40; 2471; 2480; 2495; 32; 120; 32; 61; 32; 49; 48; 59; 32; 120; 32; 60; 32; 49; 49; 59; 32; 120; 32; 61; 32; 120; 32; 43; 32; 49; 41; 32; 123; 32; 2470; 2503; 2454; 2494; 2451; 32; 120; 59; 32; 125; 10; 2470; 2503; 2454; 2494; 2451; 32; 120; 59; 10].
Example scenario_shadowing : transcript src_shadowing = Some ([[51]; [51]; [49]; [49; 48]; [49]], 0).
Proof. vm_compute. reflexivity. Qed.

(** break_continue (C05).  Source:
      ফর (ধরি i = 0; i < 6; i = i + 1) { যদি (i == 1) { চালিয়ে_যাও; } যদি (i == 4) { থামো; } দেখাও i; }
      দেখাও "done";
    The interpreter printed: 0 | 2 | 3 | done ; exit status 0 *)
Definition src_break_continue : list N := [2475; 2480; 32; 40; 2471; 2480; 2495; 32; 105; 32; 61; 32; 48; 59; 32; 105; 32; 60; 32; 54; 59; 32; 105; 32; 61; 32; 105; 32; 43; 32; 49; 41; 32; 123; 32; 2479; 2470; 2495; 32; 40; 105; 32; 61; 61; 32; 49; 41; 32; 123; 32; 2458; 2494; 2482; 2495; 2527; 2503; 95; 2479; 2494; 2451; 59; 32; 125; 32; 2479; 2470; 2495; 32; 40; 105; 32; 61; 61; 32; 52; 41; 32; 123; 32; 2469; 2494; 2478; 2507; 59; 32; 125; 32; 2470; 2503; 2454; 2494; 2451; 32; 105; 59; 32; 125; 10; 2470; 2503; 2454; 2494; 2451; 32; 34; 100; 111; 110; 101; 34; 59; 10].
Example scenario_break_continue : transcript src_break_continue = Some ([[48]; [50]; [51]; [100; 111; 110; 101]], 0).
Proof. vm_compute. reflexivity. Qed.

(** array_alias (C11).  Source:
      ধরি a = [1, 2, 3];
      ধরি b = a;
      b[0] = 9;
      দেখাও a;
      ধরি c = এড(a, 4);
      c[1] = 8;
      দেখাও a;
      দেখাও c;
      দেখাও লেন(a);
    The interpreter printed: [9 2 3] | [9 2 3] | [9 8 3 4] | 3 ; exit status 0 *)
Definition src_array_alias : list N := [2471; 2480; 2495; 32; 97; 32; 61; 32; 91; 49; 44; 32; 50; 44; 32; 51; 93; 59; 10; 2471; 2480; 2495; 32; 98; 32; 61; 32; 97; 59; 10; 98; 91; 48; 93; 32; 61; 32; 57; 59; 10; 2470; 2503; 2454; 2494; 2451; 32; 97; 59; 10; 2471; 2480; 2495; 32; 99; 32; 61; 32; 2447; 2465; 40; 97; 44; 32; 52; 41; 59; 10; 99; 91; 49; 93; 32; 61; 32; 56; 59; 10; 2470; 2503; 2454; 2494; 2451; 32; 97; 59; 10; 2470; 2503; 2454; 2494; 2451; 32; 99; 59; 10; 2470; 2503; 2454; 2494; 2451; 32; 2482; 2503; 2472; 40; 97; 41; 59; 10].
Example scenario_array_alias : transcript src_array_alias = Some ([[91; 57; 32; 50; 32; 51; 93]; [91; 57; 32; 50; 32; 51; 93]; [91; 57; 32; 56; 32; 51; 32; 52; 93]; [51]], 0).
Proof. vm_compute. reflexivity. Qed.

(** object_listing (C12).  Source:
      ধরি o = {b: 2, a: 1};
      o.c = 3;
      কি_রিমুভ(o, "b");
      দেখাও অব্জেক্ট_কি(o);
      দেখাও অব্জেক্ট_মান(o);
      দেখাও o;
    The interpreter printed: [a c] | [1 3] | map[a:1 c:3] ; exit status 0 *)
Definition src_object_listing : list N := [2471; 2480; 2495; 32; 111; 32; 61; 32; 123; 98; 58; 32; 50; 44; 32; 97; 58; 32; 49; 125; 59; 10; 111; 46; 99; 32; 61; 32; 51; 59; 10; 2453; 2495; 95; 2480; 2495; 2478; 2497; 2477; 40; 111; 44; 32; 34; 98; 34; 41; 59; 10; 2470; 2503; 2454; 2494; 2451; 32; 2437; 2476; 2509; 2460; 2503; 2453; 2509; 2463; 95; 2453; 2495; 40; 111; 41; 59; 10; 2470; 2503; 2454; 2494; 2451; 32; 2437; 2476; 2509; 2460; 2503; 2453; 2509; 2463; 95; 2478; 2494; 2472; 40; 111; 41; 59; 10; 2470; 2503; 2454; 2494; 2451; 32; 111; 59; 10].
Example scenario_object_listing : transcript src_object_listing = Some ([[91; 97; 32; 99; 93]; [91; 49; 32; 51; 93]; [109; 97; 112; 91; 97; 58; 49; 32; 99; 58; 51; 93]], 0).
Proof. vm_compute. reflexivity. Qed.

(** left_to_right (C14).  Source:
      ফাংশন p(t, v) { দেখাও t; ফেরত v; }
      দেখাও [p("a", 1), p("b", 2)][p("i", 0)] + p("c", 3);
      দেখাও p("l", 0) || p("r", 7);
    The interpreter printed: a | b | i | c | 4 | l | r | 7 ; exit status 0 *)
Definition src_left_to_right : list N := [2475; 2494; 2434; 2486; 2472; 32; 112; 40; 116; 44; 32; 118; 41; 32; 123; 32; 2470; 2503; 2454; 2494; 2451; 32; 116; 59; 32; 2475; 2503; 2480; 2468; 32; 118; 59; 32; 125; 10; 2470; 2503; 2454; 2494; 2451; 32; 91; 112; 40; 34; 97; 34; 44; 32; 49; 41; 44; 32; 112; 40; 34; 98; 34; 44; 32; 50; 41; 93; 91; 112; 40; 34; 105; 34; 44; 32; 48; 41; 93; 32; 43; 32; 112; 40; 34; 99; 34; 44; 32; 51; 41; 59; 10; 2470; 2503; 2454; 2494; 2451; 32; 112; 40; 34; 108; 34; 44; 32; 48; 41; 32; 124; 124; 32; 112; 40; 34; 114; 34; 44; 32; 55; 41; 59; 10].
Example scenario_left_to_right : transcript src_left_to_right = Some ([[97]; [98]; [105]; [99]; [52]; [108]; [114]; [55]], 0).
Proof. vm_compute. reflexivity. Qed.

(** error_stops (C06).  Source:
      দেখাও "before";
      ফাংশন f() { ফেরত 1 / 0; }
      যতক্ষণ (সত্য) { f(); দেখাও "after"; }
      দেখাও "never";
    The interpreter printed: before ; exit status 70 *)
Definition src_error_stops : list N := [2470; 2503; 2454; 2494; 2451; 32; 34; 98; 101; 102; 111; 114; 101; 34; 59; 10; 2475; 2494; 2434; 2486; 2472; 32; 102; 40; 41; 32; 123; 32; 2475; 2503; 2480; 2468; 32; 49; 32; 47; 32; 48; 59; 32; 125; 10; 2479; 2468; 2453; 2509; 2487; 2467; 32; 40; 2488; 2468; 2509; 2479; 41; 32; 123; 32; 102; 40; 41; 59; 32; 2470; 2503; 2454; 2494; 2451; 32; 34; 97; 102; 116; 101; 114; 34; 59; 32; 125; 10; 2470; 2503; 2454; 2494; 2451; 32; 34; 110; 101; 118; 101; 114; 34; 59; 10].
Example scenario_error_stops : transcript src_error_stops = Some ([[98; 101; 102; 111; 114; 101]], 70).
Proof. vm_compute. reflexivity. Qed.
