(** A finite sweep, by computation inside Coq ([vm_compute]), of the integer-level claim
    behind "small integers print plainly": for 0 < z < 1000000 the fmt %v layout of the
    digits of z (trailing zeros stripped into the exponent) is the plain decimal numeral.
    Only [Z]/lists: closed under the global context.  Compiles in about two minutes. *)
From Coq Require Import ZArith NArith List Bool Lia.
From Borno Require Import Base Num.
Import ListNotations.
Open Scope Z_scope.

(** equality test on code-point strings *)
Lemma str_eqb_eq : forall a b : list N, str_eqb a b = true -> a = b.
Proof.
  induction a as [|x a IH]; intros [|y b] H; cbn [str_eqb] in H; try discriminate.
  - reflexivity.
  - apply andb_true_iff in H. destruct H as [H1 H2].
    apply N.eqb_eq in H1. apply IH in H2. subst. reflexivity.
Qed.

(** the integer-level claim checked by computation: for z > 0 the layout of the stripped
    digits is the plain decimal numeral of z *)
Definition plain_ok (z : Z) : bool :=
  let '(d, x) := strip0 25 z 0 in str_eqb (layout false d x) (decimal_of_Z z).

(** a boolean predicate on all of [lo, lo + 2^k) *)
Fixpoint check_range (p : Z -> bool) (k : nat) (lo : Z) : bool :=
  match k with
  | O => p lo
  | S k' => check_range p k' lo && check_range p k' (lo + 2 ^ Z.of_nat k')
  end.

Lemma check_range_sound : forall p k lo, check_range p k lo = true ->
  forall z, lo <= z < lo + 2 ^ Z.of_nat k -> p z = true.
Proof.
  intros p. induction k as [|k IH]; intros lo H z Hz.
  - simpl in Hz. cbn [check_range] in H. replace z with lo by lia. exact H.
  - cbn [check_range] in H. apply andb_true_iff in H. destruct H as [H1 H2].
    rewrite Nat2Z.inj_succ, Z.pow_succ_r in Hz by lia.
    destruct (Z_lt_le_dec z (lo + 2 ^ Z.of_nat k)) as [Hl|Hl].
    + apply (IH lo H1). lia.
    + apply (IH _ H2). lia.
Qed.

(** finite sweep over 1 .. 999999, by computation (the range 1 .. 2^20 with the
    numbers from one million on masked out) *)
Definition plain_ok_below (z : Z) : bool := (1000000 <=? z) || plain_ok z.

Lemma plain_sweep : check_range plain_ok_below 20 1 = true.
Proof. vm_cast_no_check (eq_refl true). Qed.

Lemma plain_ok_small : forall z, 0 < z < 1000000 -> plain_ok z = true.
Proof.
  intros z Hz.
  assert (H : plain_ok_below z = true).
  { apply (check_range_sound plain_ok_below 20 1 plain_sweep).
    change (2 ^ Z.of_nat 20) with 1048576. lia. }
  unfold plain_ok_below in H. apply orb_true_iff in H. destruct H as [H|H]; [|exact H].
  apply Z.leb_le in H. lia.
Qed.

Print Assumptions plain_ok_small.
