(** * Parentheses never change what a program does (C01, last sentence; C18 e)

    [EvalCongr.v] has one-hole congruence; [InvFacts.group_transparent] says that one
    pair of parentheses is transparent.  Here the two are put together, by induction over
    the whole tree, for ANY NUMBER of parentheses at ANY depth:

    - [strip_groups_equiv]: every expression is observationally equivalent to the
      expression with all its parentheses removed (in both directions: same value or
      same error at the same line, same final store, same output, same input
      consumption; only the fuel differs);
    - [paren_all_equiv]: so writing a tree out fully parenthesised changes nothing;
    - [same_strip_equiv]: two trees that differ only in parentheses are equivalent;
    - [same_strip_program]: ... also inside any statement of any program (conditions,
      printed values, declarations, loop parts, returns, at any nesting of blocks,
      branches and loop bodies).

    Function BODIES are outside the statement-level corollary for the reason given at
    [EvalCongr.stframe]: a declaration stores its body, so the two stores differ in that
    closure (equivalent, not equal).  For those the correspondence stream of C01
    (fully parenthesised programs against the real interpreter) remains the evidence. *)

From Coq Require Import List NArith Lia.
Import ListNotations.
From Borno Require Import Base Num Unicode Token Lexer Ast Parser Value Eval Cli EvalEqs EvalMeta.
From Borno Require Import Grammar ParserSC_Base ParserSC_Paren EvalCongr.

Section Paren.
Variable libm : N -> f64 -> f64 -> f64.
Variable clock : f64.
Variable sched : N -> list (list N * value) -> list (list N * value).

Notation equiv_e := (equiv_e libm clock sched).
Notation equiv_s := (equiv_s libm clock sched).
Notation equiv_p := (equiv_p libm clock sched).

Local Lemma tr e1 e2 e3 : equiv_e e1 e2 -> equiv_e e2 e3 -> equiv_e e1 e3.
Proof. apply equiv_e_trans. Qed.

Local Lemma fr F e1 e2 : equiv_e e1 e2 -> equiv_e (plug1 F e1) (plug1 F e2).
Proof. apply frame_congruence. Qed.

(** one pair of parentheses *)
Lemma group_equiv e line : equiv_e (EGroup e line) e.
Proof.
  split; intros f rho s r H NF.
  - destruct f as [|f]; [rewrite eval_0 in H; exfalso; apply NF; symmetry; exact H|].
    rewrite eval_S in H. cbn in H. exists f. exact H.
  - exists (S f). rewrite eval_S. cbn. exact H.
Qed.

(** replacing the elements of a list position one after the other *)
Section Lists.
Variable g : expr -> expr.

Lemma call_args_equiv c pl : forall args before,
  Forall (fun a => equiv_e a (g a)) args ->
  equiv_e (ECall c pl (before ++ args)) (ECall c pl (before ++ map g args)).
Proof.
  induction args as [|a args IH]; intros before HF; cbn [map]; [apply equiv_e_refl|].
  inversion HF as [|? ? Ha Hr]; subst.
  eapply tr.
  - exact (fr (FCallArg c pl before args) a (g a) Ha).
  - cbn [plug1].
    replace (before ++ g a :: args) with ((before ++ [g a]) ++ args) by (rewrite <- app_assoc; reflexivity).
    replace (before ++ g a :: map g args) with ((before ++ [g a]) ++ map g args) by (rewrite <- app_assoc; reflexivity).
    apply IH. exact Hr.
Qed.

Lemma array_els_equiv : forall es before,
  Forall (fun a => equiv_e a (g a)) es ->
  equiv_e (EArray (before ++ es)) (EArray (before ++ map g es)).
Proof.
  induction es as [|a es IH]; intros before HF; cbn [map]; [apply equiv_e_refl|].
  inversion HF as [|? ? Ha Hr]; subst.
  eapply tr.
  - exact (fr (FArrayEl before es) a (g a) Ha).
  - cbn [plug1].
    replace (before ++ g a :: es) with ((before ++ [g a]) ++ es) by (rewrite <- app_assoc; reflexivity).
    replace (before ++ g a :: map g es) with ((before ++ [g a]) ++ map g es) by (rewrite <- app_assoc; reflexivity).
    apply IH. exact Hr.
Qed.

Definition gkv (kv : list N * expr) : list N * expr := let '(k, v) := kv in (k, g v).

Lemma object_vals_equiv : forall ps before,
  Forall (fun a => equiv_e a (g a)) (map snd ps) ->
  equiv_e (EObject (before ++ ps)) (EObject (before ++ map gkv ps)).
Proof.
  induction ps as [|[k v] ps IH]; intros before HF; cbn [map]; [apply equiv_e_refl|].
  cbn [map snd] in HF. inversion HF as [|? ? Ha Hr]; subst.
  eapply tr.
  - exact (fr (FObjectVal before k ps) v (g v) Ha).
  - cbn [plug1 gkv].
    replace (before ++ (k, g v) :: ps) with ((before ++ [(k, g v)]) ++ ps) by (rewrite <- app_assoc; reflexivity).
    replace (before ++ (k, g v) :: map gkv ps) with ((before ++ [(k, g v)]) ++ map gkv ps) by (rewrite <- app_assoc; reflexivity).
    apply IH. exact Hr.
Qed.
End Lists.

(** ** every expression is equivalent to itself without any parentheses *)
Theorem strip_groups_equiv : forall e, equiv_e e (strip_groups e).
Proof.
  induction e as [v ln | x ln | e ln IHe | op e ln IHe | op l r ln IHl IHr | op l r IHl IHr
                  | x nl v ln IHv | a i v ln IHa IHi IHv | o p v ln IHo IHv | c pl args IHc HF
                  | a i ln IHa IHi | o p ln IHo | es HF | ps HF] using expr_ind'; cbn [strip_groups].
  - apply equiv_e_refl.
  - apply equiv_e_refl.
  - eapply tr; [apply group_equiv|exact IHe].
  - exact (fr (FUnary op ln) _ _ IHe).
  - eapply tr; [exact (fr (FBinL op r ln) _ _ IHl)|]. exact (fr (FBinR op _ ln) _ _ IHr).
  - eapply tr; [exact (fr (FLogL op r) _ _ IHl)|]. exact (fr (FLogR op _) _ _ IHr).
  - exact (fr (FAssign x nl ln) _ _ IHv).
  - eapply tr; [exact (fr (FArrAssignA i v ln) _ _ IHa)|].
    eapply tr; [exact (fr (FArrAssignI _ v ln) _ _ IHi)|]. exact (fr (FArrAssignV _ _ ln) _ _ IHv).
  - eapply tr; [exact (fr (FPropAssignO p v ln) _ _ IHo)|]. exact (fr (FPropAssignV _ p ln) _ _ IHv).
  - eapply tr; [exact (fr (FCallee pl args) _ _ IHc)|].
    exact (call_args_equiv strip_groups (strip_groups c) pl args [] HF).
  - eapply tr; [exact (fr (FIndexA i ln) _ _ IHa)|]. exact (fr (FIndexI _ ln) _ _ IHi).
  - exact (fr (FProp p ln) _ _ IHo).
  - exact (array_els_equiv strip_groups es [] HF).
  - exact (object_vals_equiv strip_groups ps [] HF).
Qed.

(** two trees that differ only in parentheses *)
Corollary same_strip_equiv e1 e2 : strip_groups e1 = strip_groups e2 -> equiv_e e1 e2.
Proof.
  intros E. eapply tr; [apply strip_groups_equiv|]. rewrite E. apply equiv_e_sym, strip_groups_equiv.
Qed.

(** the fully parenthesised writing of a tree *)
Corollary paren_all_equiv e : equiv_e (paren_all e) e.
Proof. apply same_strip_equiv. apply strip_paren_all. Qed.

(** ... in every expression context, *)
Corollary same_strip_context K e1 e2 :
  strip_groups e1 = strip_groups e2 -> equiv_e (plug K e1) (plug K e2).
Proof. intros E. apply context_congruence, same_strip_equiv, E. Qed.

(** ... in every statement that consumes an expression, under any nesting of blocks,
    branches and loops, *)
Corollary same_strip_stmt SK e1 e2 :
  strip_groups e1 = strip_groups e2 -> equiv_s (splug_ctx SK e1) (splug_ctx SK e2).
Proof. intros E. apply sctx_congruence, same_strip_equiv, E. Qed.

(** ... and in whole programs: the run - output, input consumption, final store, first
    diagnostic with its line - is the same *)
Corollary same_strip_program before after SK e1 e2 :
  strip_groups e1 = strip_groups e2 ->
  equiv_p (before ++ splug_ctx SK e1 :: after) (before ++ splug_ctx SK e2 :: after).
Proof. intros E. apply program_context_congruence, same_strip_equiv, E. Qed.

Corollary paren_all_program before after SK e :
  equiv_p (before ++ splug_ctx SK (paren_all e) :: after) (before ++ splug_ctx SK e :: after).
Proof. apply same_strip_program, strip_paren_all. Qed.

End Paren.

Print Assumptions strip_groups_equiv.
Print Assumptions paren_all_program.
