(** Non-vacuity of the refinement theorems of FlagRefine.v / FlagRefineCli.v: three closed
    runs of both evaluators, by computation.  The oracles are dummies (no example calls a
    built-in). *)
From Coq Require Import List ZArith NArith.
From Borno Require Import Base Num Unicode Token Lexer Ast Parser Value Eval Cli FlagEval FlagCli.
Import ListNotations.
Open Scope N_scope.

Definition xlibm : N -> f64 -> f64 -> f64 := fun _ x _ => x.
Definition xclock : f64 := f_of_bits 0%Z.
Definition xsched : N -> list (list N * value) -> list (list N * value) := fun _ l => l.

Notation frun := (frun_stmts xlibm xclock xsched).
Notation run := (run_stmts xlibm xclock xsched).

(** what a user sees of an outcome of FlagEval / of Eval *)
Definition fsummary (r : fres unit) : option (bool * list (rterr * N) * list event) :=
  match r with FOk _ fs => Some (fs_flag fs, fs_diags fs, rev (out (fs_st fs))) | _ => None end.
Definition summary (r : res unit) : option (option (rterr * N) * list event) :=
  match r with
  | Ok _ s => Some (None, rev (out s))
  | Err e l s => Some (Some (e, l), rev (out s))
  | _ => None
  end.
Definition same_final (fr : fres unit) (r : res unit) : Prop :=
  match fr, r with FOk _ fs, Ok _ s => fs_st fs = s | _, _ => False end.

(* ---------------------------------------------------------------- *)
(** (a) no error:  ধরি x = "hi"; { দেখাও x; }  -- flag down, no diagnostic, and literally the
    same final state as Eval *)
Definition prog_a : list stmt :=
  [SVar ([120], Some (ELit (LitStr [104; 105]) 1), 1);
   SBlock [SPrint (EId [120] 2)]].

Example ex_a_flag : fsummary (frun 20 false prog_a (fclean (init_state []))) = Some (false, [], [EvPrint [104; 105]]).
Proof. vm_compute; reflexivity. Qed.
Example ex_a_eval : summary (run 20 false prog_a (init_state [])) = Some (None, [EvPrint [104; 105]]).
Proof. vm_compute; reflexivity. Qed.
Example ex_a_state : same_final (frun 20 false prog_a (fclean (init_state []))) (run 20 false prog_a (init_state [])).
Proof. vm_compute; reflexivity. Qed.

(* ---------------------------------------------------------------- *)
(** (b) one diagnostic, through lexer and parser:
      দেখাও "a";  দেখাও nope;  দেখাও "b";
    "a" is printed, the undefined variable is reported at line 2, "b" is not printed *)
Definition kw_print : list N := [2470; 2503; 2454; 2494; 2451].
Definition src_b : list N :=
  kw_print ++ [32; 34; 97; 34; 59; 10] ++
  kw_print ++ [32; 110; 111; 112; 101; 59; 10] ++
  kw_print ++ [32; 34; 98; 34; 59; 10].

Example ex_b_parse :
  pr_prog (parse (lx_tokens (lex src_b)) (lx_eof_line (lex src_b))) =
    Some [SPrint (ELit (LitStr [97]) 1); SPrint (EId [110; 111; 112; 101] 2); SPrint (ELit (LitStr [98]) 3)].
Proof. vm_compute; reflexivity. Qed.
Example ex_b_flag :
  fresult_streams (frun_source xlibm xclock xsched 100 false src_b []) =
    Some ([EvPrint [97]], [DRuntime RUndefinedVar 2], 70).
Proof. vm_compute; reflexivity. Qed.
Example ex_b_eval :
  result_streams (run_source xlibm xclock xsched 100 false src_b []) =
    Some ([EvPrint [97]], [DRuntime RUndefinedVar 2], 70).
Proof. vm_compute; reflexivity. Qed.

(* ---------------------------------------------------------------- *)
(** (c) TWO diagnostics:  x.p = "v";  দেখাও "b";  with [x] undefined.  FlagEval reports the
    undefined variable, goes on with nil, finds that nil is not an object and reports that
    too; Eval stops at the first.  Nothing is printed in either. *)
Definition prog_c : list stmt :=
  [SExpr (EPropAssign (EId [120] 1) [112] (ELit (LitStr [118]) 1) 1);
   SPrint (ELit (LitStr [98]) 2)].

Example ex_c_flag :
  fsummary (frun 20 false prog_c (fclean (init_state []))) =
    Some (true, [(RUndefinedVar, 1); (RNotObjectAssign, 1)], []).
Proof. vm_compute; reflexivity. Qed.
Example ex_c_eval : summary (run 20 false prog_c (init_state [])) = Some (Some (RUndefinedVar, 1), []).
Proof. vm_compute; reflexivity. Qed.

(** (c') the stray signal at top level:  ফেরত nope;  -- the undefined variable, and then the
    stray return as well; Eval gives the first *)
Definition prog_c' : list stmt := [SReturn 1 (Some (EId [110; 111; 112; 101] 1))].
Example ex_c'_flag :
  fsummary (frun 20 false prog_c' (fclean (init_state []))) =
    Some (true, [(RUndefinedVar, 1); (RStrayReturn, 1)], []).
Proof. vm_compute; reflexivity. Qed.
Example ex_c'_eval : summary (run 20 false prog_c' (init_state [])) = Some (Some (RUndefinedVar, 1), []).
Proof. vm_compute; reflexivity. Qed.

(** (d) a store write after the flag is up:  ধরি a = ["z"]; a[0] = nope; দেখাও a;
    FlagEval stores nil into the cell (Eval does not), yet nothing observable differs *)
Definition prog_d : list stmt :=
  [SVar ([97], Some (EArray [ELit (LitStr [122]) 1]), 1);
   SExpr (EArrAssign (EId [97] 2) (ELit (LitStr [48]) 2) (EId [110; 111; 112; 101] 2) 2);
   SPrint (EId [97] 3)].
Example ex_d_flag :
  match frun 20 false prog_d (fclean (init_state [])) with
  | FOk _ fs => Some (fs_flag fs, fs_diags fs, rev (out (fs_st fs)), arrs (fs_st fs))
  | _ => None
  end = Some (true, [(RUndefinedVar, 2)], [], [[VNil]]).
Proof. vm_compute; reflexivity. Qed.
Example ex_d_eval :
  match run 20 false prog_d (init_state []) with
  | Err e l s => Some (e, l, rev (out s), arrs s)
  | _ => None
  end = Some (RUndefinedVar, 2, [], [[VStr [122]]]).
Proof. vm_compute; reflexivity. Qed.

(* ---------------------------------------------------------------- *)
(** (e) why the converse (Proofs/FlagConverse.v, [frun_total]) needs a well-formed start
    store: with [a] bound to an array location that does not exist,  a[0] = nope;  is a
    plain run-time error in Eval (the undefined variable is met before the array cell is
    looked at), while FlagEval goes on with nil, looks the cell up, and is stuck. *)
Definition s_dangling : state :=
  mkState [(globals_bindings, None); ([([97], VArr 5)], Some 0%nat)] [] [] [] [] [] 0.
Definition prog_e : list stmt :=
  [SExpr (EArrAssign (EId [97] 1) (ELit (LitStr [48]) 1) (EId [110; 111; 112; 101] 1) 1)].
Example ex_e_eval : summary (run 20 false prog_e s_dangling) = Some (Some (RUndefinedVar, 1), []).
Proof. vm_compute; reflexivity. Qed.
Example ex_e_flag : frun 20 false prog_e (fclean s_dangling) = FStuck.
Proof. vm_compute; reflexivity. Qed.

(** (f) FlagEval can need more fuel than Eval: in  [nope, "a", "b", "c", "d"]  the error is
    at the first element; Eval stops there, FlagEval still walks over the four others
    (each returns at once at the entry poll, but costs one unit of fuel) *)
Definition prog_f : list stmt :=
  [SExpr (EArray [EId [110; 111; 112; 101] 1; ELit (LitStr [97]) 1; ELit (LitStr [98]) 1;
                  ELit (LitStr [99]) 1; ELit (LitStr [100]) 1])].
Example ex_f_eval : summary (run 4 false prog_f (init_state [])) = Some (Some (RUndefinedVar, 1), []).
Proof. vm_compute; reflexivity. Qed.
Example ex_f_flag4 : frun 4 false prog_f (fclean (init_state [])) = FFuel.
Proof. vm_compute; reflexivity. Qed.
Example ex_f_flag8 : fsummary (frun 8 false prog_f (fclean (init_state []))) = Some (true, [(RUndefinedVar, 1)], []).
Proof. vm_compute; reflexivity. Qed.
