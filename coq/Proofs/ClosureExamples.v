(** The counter factory of property C04, evaluated inside the kernel: two calls of [mk] give two functions with
    separate, non-interfering variables; each keeps its variable alive after [mk] has returned and observes its own
    later updates.  (The general statements are [call_activation_chain], [block_scope_is_fresh], [assign_frame],
    [exec_frame_final]; this file shows them at work on the program a user would write.) *)
From Borno Require Import Base Num Unicode Token Lexer Ast Parser Value Eval Cli.
Open Scope N_scope.

(* ফাংশন mk() { ধরি c = 0; ফাংশন inc() { c = c + 1; ফেরত c; } ফেরত inc; } ধরি a = mk(); ধরি b = mk(); দেখাও a(); দেখাও a(); দেখাও b(); দেখাও a(); দেখাও b();  *)
Definition counter_factory_src : list N := [2475; 2494; 2434; 2486; 2472; 32; 109; 107; 40; 41; 32; 123; 32; 2471; 2480; 2495; 32; 99; 32; 61; 32; 48; 59; 32; 2475; 2494; 2434; 2486; 2472; 32; 105; 110; 99; 40; 41; 32; 123; 32; 99; 32; 61; 32; 99; 32; 43; 32; 49; 59; 32; 2475; 2503; 2480; 2468; 32; 99; 59; 32; 125; 32; 2475; 2503; 2480; 2468; 32; 105; 110; 99; 59; 32; 125; 10; 2471; 2480; 2495; 32; 97; 32; 61; 32; 109; 107; 40; 41; 59; 32; 2471; 2480; 2495; 32; 98; 32; 61; 32; 109; 107; 40; 41; 59; 10; 2470; 2503; 2454; 2494; 2451; 32; 97; 40; 41; 59; 32; 2470; 2503; 2454; 2494; 2451; 32; 97; 40; 41; 59; 32; 2470; 2503; 2454; 2494; 2451; 32; 98; 40; 41; 59; 32; 2470; 2503; 2454; 2494; 2451; 32; 97; 40; 41; 59; 32; 2470; 2503; 2454; 2494; 2451; 32; 98; 40; 41; 59; 10].

Definition libm_d (_ : N) (x _ : f64) : f64 := x.
Definition sched_d (_ : N) (l : list (list N * value)) := l.

Definition printed (r : run_result) : option (list (list N)) :=
  match result_streams r with
  | Some (o, [], 0) => Some (map (fun e => match e with EvPrint t => t | EvEcho t => t | EvPrompt t => t | EvText t => t end) o)
  | _ => None
  end.

(** a() a() b() a() b()  prints  1 2 1 3 2 *)
Example counter_factory :
  printed (run_source libm_d (f_of_bits 0) sched_d 200 false counter_factory_src []) = Some [[49]; [50]; [49]; [51]; [50]].
Proof. vm_compute. reflexivity. Qed.
