(** Vocabulary for the refinement between the exception-style evaluator (Model/Eval.v)
    and the flag-level evaluator (Model/FlagEval.v):

    - [obs_eq]: two stores agree on what a user can observe (output, unread input, the
      index into the map-iteration schedule);
    - [ext fs fs']: [fs'] is [fs] after some silent steps with the flag up;
    - [after fs r]: the outcome [r] of a computation started at [fs] is silent;
    - [same fs r]: the computation did nothing at all (strong form, at an entry poll);
    - [sim r ds fr]: the outcome [fr] of FlagEval simulates the outcome [r] of Eval,
      [ds] being the diagnostics already written when both started.  It determines [r]
      from [fr] except when FlagEval, going on after an error, runs out of fuel or meets
      a dangling location: then [r] is only known to be that error.

    and the algebra of these predicates over [bind] / [fbind]. *)
From Coq Require Import List Bool.
From Borno Require Import Base Num Unicode Token Ast Value Eval FlagEval.
Import ListNotations.
Open Scope N_scope.

Definition obs_eq (s s' : state) : Prop := out s = out s' /\ inp s = inp s' /\ tick s = tick s'.

Lemma obs_refl s : obs_eq s s.
Proof. unfold obs_eq; auto. Qed.
Lemma obs_sym s s' : obs_eq s s' -> obs_eq s' s.
Proof. unfold obs_eq; intros (A & B & C); auto. Qed.
Lemma obs_trans s1 s2 s3 : obs_eq s1 s2 -> obs_eq s2 s3 -> obs_eq s1 s3.
Proof. unfold obs_eq; intros (A & B & C) (A' & B' & C'); repeat split; congruence. Qed.

(** the store operations that can still happen once the flag is up *)
Lemma alloc_arr_obs vs s l s' : alloc_arr vs s = (l, s') -> obs_eq s s'.
Proof. unfold alloc_arr; intros H; inversion H; subst; unfold obs_eq; simpl; auto. Qed.
Lemma alloc_obj_obs ps s l s' : alloc_obj ps s = (l, s') -> obs_eq s s'.
Proof. unfold alloc_obj; intros H; inversion H; subst; unfold obs_eq; simpl; auto. Qed.
Lemma alloc_env_obs p s l s' : alloc_env p s = (l, s') -> obs_eq s s'.
Proof. unfold alloc_env; intros H; inversion H; subst; unfold obs_eq; simpl; auto. Qed.
Lemma alloc_fun_obs c s l s' : alloc_fun c s = (l, s') -> obs_eq s s'.
Proof. unfold alloc_fun; intros H; inversion H; subst; unfold obs_eq; simpl; auto. Qed.
Lemma set_arr_obs l vs s : obs_eq s (set_arr l vs s).
Proof. unfold obs_eq, set_arr; simpl; auto. Qed.
Lemma set_obj_obs l ps s : obs_eq s (set_obj l ps s).
Proof. unfold obs_eq, set_obj; simpl; auto. Qed.
Lemma env_define_obs rho x v s s' : env_define rho x v s = Some s' -> obs_eq s s'.
Proof.
  unfold env_define. destruct (nth_error (envs s) rho) as [[b p]|]; intros H; inversion H; subst.
  unfold obs_eq, set_envs; simpl; auto.
Qed.

(* ---------------------------------------------------------------- *)
(** ** silent continuation *)

Definition ext (fs fs' : fstate) : Prop :=
  obs_eq (fs_st fs) (fs_st fs') /\ fs_flag fs' = true /\ exists more, fs_diags fs' = fs_diags fs ++ more.

Definition after {A} (fs : fstate) (fr : fres A) : Prop :=
  match fr with
  | FOk _ fs' => ext fs fs'
  | FCrash _ => False
  | _ => True
  end.

Definition same {A} (fs : fstate) (fr : fres A) : Prop :=
  match fr with
  | FOk _ fs' => fs' = fs
  | FFuel => True
  | _ => False
  end.

Lemma ext_refl fs : fs_flag fs = true -> ext fs fs.
Proof. intros H. split; [apply obs_refl|]. split; [exact H|]. exists []. rewrite app_nil_r. reflexivity. Qed.

Lemma ext_trans fs1 fs2 fs3 : ext fs1 fs2 -> ext fs2 fs3 -> ext fs1 fs3.
Proof.
  intros (O1 & F1 & m1 & D1) (O2 & F2 & m2 & D2).
  split; [eapply obs_trans; eassumption|]. split; [exact F2|].
  exists (m1 ++ m2). rewrite D2, D1, app_assoc. reflexivity.
Qed.

Lemma ext_report e l fs : ext fs (report e l fs).
Proof. split; [apply obs_refl|]. split; [reflexivity|]. exists [(e, l)]. reflexivity. Qed.

Lemma ext_upd fs s : fs_flag fs = true -> obs_eq (fs_st fs) s -> ext fs (upd fs s).
Proof. intros H O. split; [exact O|]. split; [exact H|]. exists []. simpl. rewrite app_nil_r. reflexivity. Qed.

Lemma after_ret {A} (a : A) fs : fs_flag fs = true -> after fs (FOk a fs).
Proof. apply ext_refl. Qed.
Lemma after_report {A} (a : A) e l fs : after fs (FOk a (report e l fs)).
Proof. apply ext_report. Qed.
Lemma after_upd {A} (a : A) fs s : fs_flag fs = true -> obs_eq (fs_st fs) s -> after fs (FOk a (upd fs s)).
Proof. apply ext_upd. Qed.

Lemma after_ext {A} fs fs1 (fr : fres A) : ext fs fs1 -> after fs1 fr -> after fs fr.
Proof. intros E H. destruct fr; simpl in *; auto. eapply ext_trans; eassumption. Qed.

Lemma after_bind {A B} fs (fr : fres A) (fk : A -> fstate -> fres B) :
  after fs fr ->
  (forall a fs1, fs_flag fs1 = true -> after fs1 (fk a fs1)) ->
  after fs (fbind fr fk).
Proof.
  intros H K. destruct fr as [a fs1| | |fs1]; simpl in *; auto.
  eapply after_ext; [exact H|]. apply K. destruct H as (_ & F & _). exact F.
Qed.

Lemma same_after {A} fs (fr : fres A) : fs_flag fs = true -> same fs fr -> after fs fr.
Proof. intros F H. destruct fr; simpl in *; auto. subst. apply ext_refl; exact F. Qed.

Lemma same_bind {A B} fs (fr : fres A) (fk : A -> fstate -> fres B) :
  same fs fr -> (forall a, same fs (fk a fs)) -> same fs (fbind fr fk).
Proof. intros H K. destruct fr as [a fs1| | |fs1]; simpl in *; auto. subst. apply K. Qed.

(* ---------------------------------------------------------------- *)
(** ** simulation of outcomes *)

Definition sim {A} (r : res A) (ds : list (rterr * N)) (fr : fres A) : Prop :=
  match fr with
  | FOk v fs' =>
      if fs_flag fs' then
        exists e0 l0 s0 more,
          r = Err e0 l0 s0 /\ obs_eq s0 (fs_st fs') /\ fs_diags fs' = ds ++ (e0, l0) :: more
      else r = Ok v (fs_st fs') /\ fs_diags fs' = ds
  | FCrash fs' => fs_flag fs' = false /\ fs_diags fs' = ds /\ r = Crash (fs_st fs')
  | FFuel => r = Fuel \/ exists e0 l0 s0, r = Err e0 l0 s0
  | FStuck => r = Stuck \/ exists e0 l0 s0, r = Err e0 l0 s0
  end.

Lemma sim_fuel {A} ds : sim (A:=A) Fuel ds FFuel.
Proof. left; reflexivity. Qed.
Lemma sim_stuck {A} ds : sim (A:=A) Stuck ds FStuck.
Proof. left; reflexivity. Qed.

Lemma sim_ret {A} (a : A) fs s ds :
  fs_st fs = s -> fs_diags fs = ds -> fs_flag fs = false -> sim (Ok a s) ds (FOk a fs).
Proof. intros <- <- F. simpl. rewrite F. split; reflexivity. Qed.

Lemma sim_report {A} (a : A) e l fs s ds :
  fs_st fs = s -> fs_diags fs = ds -> sim (A:=A) (Err e l s) ds (FOk a (report e l fs)).
Proof. intros <- <-. simpl. exists e, l, (fs_st fs), []. split; [reflexivity|]. split; [apply obs_refl|reflexivity]. Qed.

Lemma sim_crash {A} fs s ds :
  fs_st fs = s -> fs_diags fs = ds -> fs_flag fs = false -> sim (A:=A) (Crash s) ds (FCrash fs).
Proof. intros <- <- F. simpl. auto. Qed.

Lemma sim_bind {A B} (r : res A) (k : A -> state -> res B) ds (fr : fres A) (fk : A -> fstate -> fres B) :
  sim r ds fr ->
  (forall a fs1, fs_flag fs1 = false -> sim (k a (fs_st fs1)) (fs_diags fs1) (fk a fs1)) ->
  (forall a fs1, fs_flag fs1 = true -> after fs1 (fk a fs1)) ->
  sim (bind r k) ds (fbind fr fk).
Proof.
  intros H K1 K2. destruct fr as [a fs1| | |fs1]; simpl in H |- *.
  - destruct (fs_flag fs1) eqn:F.
    + destruct H as (e0 & l0 & s0 & more & -> & O & D). simpl.
      specialize (K2 a fs1 F). destruct (fk a fs1) as [b fs2| | |fs2]; simpl in K2 |- *;
        try contradiction; try (right; eauto; fail).
      destruct K2 as (O2 & F2 & m2 & D2). rewrite F2.
      exists e0, l0, s0, (more ++ m2). split; [reflexivity|]. split; [eapply obs_trans; eassumption|].
      rewrite D2, D, <- app_assoc. reflexivity.
    + destruct H as (-> & D). simpl. subst ds. apply K1; exact F.
  - destruct H as [-> | (e0 & l0 & s0 & ->)]; simpl; [left; reflexivity | right; eauto].
  - destruct H as [-> | (e0 & l0 & s0 & ->)]; simpl; [left; reflexivity | right; eauto].
  - destruct H as (F & D & ->). simpl. auto.
Qed.

(* ---------------------------------------------------------------- *)
(** ** reading [sim] from Eval's side *)

Lemma sim_ok_inv {A} (r : res A) ds fr v s' :
  sim r ds fr -> r = Ok v s' ->
  exists fs', fr = FOk v fs' /\ fs_flag fs' = false /\ fs_st fs' = s' /\ fs_diags fs' = ds.
Proof.
  intros H E. subst r. destruct fr as [a fs1| | |fs1]; simpl in H.
  - destruct (fs_flag fs1) eqn:F.
    + destruct H as (e0 & l0 & s0 & more & R & _); discriminate R.
    + destruct H as (R & D). inversion R; subst. exists fs1. auto.
  - destruct H as [R | (e0 & l0 & s0 & R)]; discriminate R.
  - destruct H as [R | (e0 & l0 & s0 & R)]; discriminate R.
  - destruct H as (_ & _ & R); discriminate R.
Qed.

Lemma sim_crash_inv {A} (r : res A) ds fr s' :
  sim r ds fr -> r = Crash s' ->
  exists fs', fr = FCrash fs' /\ fs_flag fs' = false /\ fs_st fs' = s' /\ fs_diags fs' = ds.
Proof.
  intros H E. subst r. destruct fr as [a fs1| | |fs1]; simpl in H.
  - destruct (fs_flag fs1) eqn:F.
    + destruct H as (e0 & l0 & s0 & more & R & _); discriminate R.
    + destruct H as (R & D). discriminate R.
  - destruct H as [R | (e0 & l0 & s0 & R)]; discriminate R.
  - destruct H as [R | (e0 & l0 & s0 & R)]; discriminate R.
  - destruct H as (F & D & R). inversion R; subst. exists fs1. auto.
Qed.

Lemma sim_fuel_inv {A} (r : res A) ds fr : sim r ds fr -> r = Fuel -> fr = FFuel.
Proof.
  intros H E. subst r. destruct fr as [a fs1| | |fs1]; simpl in H.
  - destruct (fs_flag fs1) eqn:F.
    + destruct H as (e0 & l0 & s0 & more & R & _); discriminate R.
    + destruct H as (R & D). discriminate R.
  - reflexivity.
  - destruct H as [R | (e0 & l0 & s0 & R)]; discriminate R.
  - destruct H as (_ & _ & R); discriminate R.
Qed.

Lemma sim_stuck_inv {A} (r : res A) ds fr : sim r ds fr -> r = Stuck -> fr = FStuck.
Proof.
  intros H E. subst r. destruct fr as [a fs1| | |fs1]; simpl in H.
  - destruct (fs_flag fs1) eqn:F.
    + destruct H as (e0 & l0 & s0 & more & R & _); discriminate R.
    + destruct H as (R & D). discriminate R.
  - destruct H as [R | (e0 & l0 & s0 & R)]; discriminate R.
  - reflexivity.
  - destruct H as (_ & _ & R); discriminate R.
Qed.

Lemma sim_err_inv {A} (r : res A) ds fr e l s0 :
  sim r ds fr -> r = Err e l s0 ->
  match fr with
  | FOk _ fs' => fs_flag fs' = true /\ obs_eq s0 (fs_st fs') /\ exists more, fs_diags fs' = ds ++ (e, l) :: more
  | FCrash _ => False
  | FFuel | FStuck => True
  end.
Proof.
  intros H E. subst r. destruct fr as [a fs1| | |fs1]; simpl in H; auto.
  - destruct (fs_flag fs1) eqn:F.
    + destruct H as (e0 & l0 & s1 & more & R & O & D). inversion R; subst. eauto.
    + destruct H as (R & D). discriminate R.
  - destruct H as (_ & _ & R); discriminate R.
Qed.

Lemma fclean_eq fs s : fs_flag fs = false -> fs_st fs = s -> fs_diags fs = [] -> fs = fclean s.
Proof. destruct fs; simpl; intros; subst; reflexivity. Qed.
