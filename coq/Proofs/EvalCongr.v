(** Context congruence: "a value behaves the same however it was produced".

    In the model a value is its type and content ([Value.value] has no provenance
    field), so what a program does with a value cannot depend on which expression
    computed it.  The formal content is compositionality of the evaluator:

    - [equiv_e e1 e2]: in every scope and store the two expressions yield the same
      result (same value, same final state -- hence same output / input effects --
      or the same error at the same line), up to fuel;
    - [frame_congruence] / [context_congruence]: [equiv_e] is preserved by every
      one-hole expression context [plug K];
    - [stmt_congruence]: ... and by the statement frames that contain an expression
      (print, expression statement, declaration, return, the conditions of if / while / for);
    - [concat_producer], [sum_producer], ... and the [producers_agree_*] examples: concrete
      pairs of different producers of the same value, which are [equiv_e]. *)
From Coq Require Import Lia ZArith.
From Flocq Require Import Core BinarySingleNaN.
From Borno Require Import Base Num Unicode Token Lexer Ast Parser Value Eval Cli EvalEqs EvalMeta.
From Borno Require HeapLaws.
Open Scope N_scope.

(* ================================================================ *)
(** * 0. Approximation of a result by a fuel-indexed family *)

Definition mono {B} (c : nat -> res B) : Prop :=
  forall g g', (g <= g')%nat -> le_res (c g) (c g').

(** [lim x c]: some member of the family [c] agrees with [x], unless [x] is [Fuel] *)
Definition lim {B} (x : res B) (c : nat -> res B) : Prop := exists g, le_res x (c g).

Lemma le_res_trans {B} (a b c : res B) : le_res a b -> le_res b c -> le_res a c.
Proof.
  intros H1 H2 N. pose proof (H1 N) as E. rewrite <- E. apply H2. rewrite E. exact N.
Qed.

Lemma lim_fuel {B} (c : nat -> res B) : lim Fuel c.
Proof. exists 0%nat. apply le_fuel. Qed.

Lemma lim_shift {B} (x : res B) (c : nat -> res B) : lim x (fun g => c (S g)) -> lim x c.
Proof. intros [g L]. exists (S g). exact L. Qed.

Lemma lim_ext {B} (x : res B) (c c' : nat -> res B) : (forall g, c g = c' g) -> lim x c' -> lim x c.
Proof. intros E [g L]. exists g. rewrite E. exact L. Qed.

(** [bind] is compositional for [lim] *)
Lemma lim_bind {A B} (x : res A) (p : nat -> res A) (k : A -> state -> res B)
      (K : nat -> A -> state -> res B) :
  lim x p -> mono p ->
  (forall a s1, x = Ok a s1 -> lim (k a s1) (fun g => K g a s1)) ->
  (forall a s1, mono (fun g => K g a s1)) ->
  lim (bind x k) (fun g => bind (p g) (K g)).
Proof.
  intros [g1 L1] Mp HK MK.
  destruct x as [a s1|e l s1| | |s1].
  - destruct (HK a s1 eq_refl) as [g2 L2].
    assert (E1 : p g1 = Ok a s1) by (apply L1; discriminate).
    assert (Em : p (Nat.max g1 g2) = Ok a s1).
    { rewrite <- E1. apply (Mp g1 (Nat.max g1 g2)); [lia|rewrite E1; discriminate]. }
    exists (Nat.max g1 g2). simpl. rewrite Em. simpl.
    eapply le_res_trans; [exact L2|]. apply (MK a s1 g2 (Nat.max g1 g2)). lia.
  - exists g1. simpl. rewrite (L1 ltac:(discriminate)). simpl. apply le_refl.
  - apply lim_fuel.
  - exists g1. simpl. rewrite (L1 ltac:(discriminate)). simpl. apply le_refl.
  - exists g1. simpl. rewrite (L1 ltac:(discriminate)). simpl. apply le_refl.
Qed.

Section Congr.
Variable libm : N -> f64 -> f64 -> f64.
Variable clock : f64.
Variable sched : N -> list (list N * value) -> list (list N * value).

Notation eval := (eval libm clock sched).
Notation eval_list := (eval_list libm clock sched).
Notation eval_props := (eval_props libm clock sched).
Notation exec := (exec libm clock sched).
Notation exec_var := (exec_var libm clock sched).
Notation exec_vars := (exec_vars libm clock sched).
Notation exec_list := (exec_list libm clock sched).
Notation exec_while := (exec_while libm clock sched).
Notation exec_for := (exec_for libm clock sched).

(* ================================================================ *)
(** * 1. Observational equivalence *)

(** whatever [e1] evaluates to (a value, an error, a crash -- with its final state),
    [e2] evaluates to the same, given enough fuel *)
Definition refines (e1 e2 : expr) : Prop :=
  forall f rho s r, eval f e1 rho s = r -> r <> Fuel -> exists f', eval f' e2 rho s = r.

Definition equiv_e (e1 e2 : expr) : Prop := refines e1 e2 /\ refines e2 e1.

Definition refines_s (st1 st2 : stmt) : Prop :=
  forall f repl rho s r, exec f repl st1 rho s = r -> r <> Fuel -> exists f', exec f' repl st2 rho s = r.

Definition equiv_s (st1 st2 : stmt) : Prop := refines_s st1 st2 /\ refines_s st2 st1.

Lemma equiv_e_refl e : equiv_e e e.
Proof. split; intros f rho s r H N; exists f; exact H. Qed.

Lemma equiv_e_sym e1 e2 : equiv_e e1 e2 -> equiv_e e2 e1.
Proof. intros [A B]. split; assumption. Qed.

Lemma refines_trans e1 e2 e3 : refines e1 e2 -> refines e2 e3 -> refines e1 e3.
Proof.
  intros A B f rho s r H N. destruct (A f rho s r H N) as [f' H']. exact (B f' rho s r H' N).
Qed.

Lemma equiv_e_trans e1 e2 e3 : equiv_e e1 e2 -> equiv_e e2 e3 -> equiv_e e1 e3.
Proof. intros [A B] [C D]. split; eapply refines_trans; eauto. Qed.

Lemma refines_lim e1 e2 :
  refines e1 e2 <-> forall g rho s, lim (eval g e1 rho s) (fun g' => eval g' e2 rho s).
Proof.
  split.
  - intros R g rho s. destruct (eval g e1 rho s) as [a s1|e l s1| | |s1] eqn:E; try apply lim_fuel;
      (destruct (R g rho s _ E ltac:(discriminate)) as [g' E']; exists g'; intros _; exact E').
  - intros L f rho s r H N. destruct (L f rho s) as [g' Lg]. exists g'. rewrite <- H. apply Lg.
    rewrite H. exact N.
Qed.

Lemma refines_s_lim st1 st2 :
  refines_s st1 st2 <-> forall g repl rho s, lim (exec g repl st1 rho s) (fun g' => exec g' repl st2 rho s).
Proof.
  split.
  - intros R g repl rho s. destruct (exec g repl st1 rho s) as [a s1|e l s1| | |s1] eqn:E; try apply lim_fuel;
      (destruct (R g repl rho s _ E ltac:(discriminate)) as [g' E']; exists g'; intros _; exact E').
  - intros L f repl rho s r H N. destruct (L f repl rho s) as [g' Lg]. exists g'. rewrite <- H. apply Lg.
    rewrite H. exact N.
Qed.

(* ---------------------------------------------------------------- *)
(** ** automation *)

Ltac mono_go Mev Mel Mep Mex Mxv Mxvs Mxl Mxw Mxf :=
  repeat first
    [ apply le_refl
    | first [apply Mev|apply Mel|apply Mep|apply Mex|apply Mxv|apply Mxvs|apply Mxl|apply Mxw|apply Mxf]
    | apply run_stmts_le; assumption
    | apply le_bind; [ | intros ? ? ]
    | match goal with |- le_res (match ?x with _ => _ end) _ => destruct x end ].

Ltac mono_tac :=
  let g := fresh "g" in let g' := fresh "g'" in let L := fresh "L" in
  let Mev := fresh "Mev" in let Mel := fresh "Mel" in let Mep := fresh "Mep" in
  let Mex := fresh "Mex" in let Mxv := fresh "Mxv" in let Mxvs := fresh "Mxvs" in
  let Mxl := fresh "Mxl" in let Mxw := fresh "Mxw" in let Mxf := fresh "Mxf" in
  unfold mono; intros g g' L;
  destruct (mono_all libm clock sched g g' L) as (Mev & Mel & Mep & Mex & Mxv & Mxvs & Mxl & Mxw & Mxf);
  cbv beta;
  mono_go Mev Mel Mep Mex Mxv Mxvs Mxl Mxw Mxf.

Ltac lim_leaf :=
  unfold lim;
  first [ match goal with g : nat |- _ => exists g; apply le_refl end
        | exists 0%nat; apply le_refl ].

Ltac lim_go :=
  repeat first
    [ match goal with H : _ |- lim _ _ => apply H end
    | match goal with |- lim (bind _ _) _ =>
        eapply lim_bind; [ | mono_tac | intros ? ? ? | intros ? ?; mono_tac ] end
    | match goal with |- lim (match ?x with _ => _ end) _ => destruct x eqn:? end
    | lim_leaf ].

(* ================================================================ *)
(** * 2. One-hole expression contexts *)

Inductive frame :=
  | FGroup (line : N)
  | FUnary (op : tkind) (line : N)
  | FBinL (op : tkind) (r : expr) (line : N)
  | FBinR (op : tkind) (l : expr) (line : N)
  | FLogL (op : tkind) (r : expr)
  | FLogR (op : tkind) (l : expr)
  | FAssign (x : list N) (nline line : N)
  | FArrAssignA (i v : expr) (line : N)
  | FArrAssignI (a v : expr) (line : N)
  | FArrAssignV (a i : expr) (line : N)
  | FPropAssignO (p : list N) (v : expr) (line : N)
  | FPropAssignV (o : expr) (p : list N) (line : N)
  | FCallee (pline : N) (args : list expr)
  | FCallArg (callee : expr) (pline : N) (before after : list expr)
  | FIndexA (i : expr) (line : N)
  | FIndexI (a : expr) (line : N)
  | FProp (p : list N) (line : N)
  | FArrayEl (before after : list expr)
  | FObjectVal (before : list (list N * expr)) (k : list N) (after : list (list N * expr)).

Definition plug1 (F : frame) (e : expr) : expr :=
  match F with
  | FGroup line => EGroup e line
  | FUnary op line => EUnary op e line
  | FBinL op r line => EBinary op e r line
  | FBinR op l line => EBinary op l e line
  | FLogL op r => ELogical op e r
  | FLogR op l => ELogical op l e
  | FAssign x nline line => EAssign x nline e line
  | FArrAssignA i v line => EArrAssign e i v line
  | FArrAssignI a v line => EArrAssign a e v line
  | FArrAssignV a i line => EArrAssign a i e line
  | FPropAssignO p v line => EPropAssign e p v line
  | FPropAssignV o p line => EPropAssign o p e line
  | FCallee pline args => ECall e pline args
  | FCallArg callee pline before after => ECall callee pline (before ++ e :: after)
  | FIndexA i line => EIndex e i line
  | FIndexI a line => EIndex a e line
  | FProp p line => EProp e p line
  | FArrayEl before after => EArray (before ++ e :: after)
  | FObjectVal before k after => EObject (before ++ (k, e) :: after)
  end.

(** a context is the hole, or a frame around a context *)
Inductive ctx := CHole | CFrame (F : frame) (K : ctx).

Fixpoint plug (K : ctx) (e : expr) : expr :=
  match K with
  | CHole => e
  | CFrame F K' => plug1 F (plug K' e)
  end.

(** composition of contexts: [K1] around [K2] *)
Fixpoint ctx_comp (K1 K2 : ctx) : ctx :=
  match K1 with
  | CHole => K2
  | CFrame F K => CFrame F (ctx_comp K K2)
  end.

Lemma plug_comp K1 K2 e : plug (ctx_comp K1 K2) e = plug K1 (plug K2 e).
Proof. induction K1 as [|F K IH]; simpl; [reflexivity|]. rewrite IH. reflexivity. Qed.

(* ---------------------------------------------------------------- *)
(** ** list positions: a hole in the i-th argument / element / property *)

Section Hole.
Variables e1 e2 : expr.
Hypothesis HR : forall g rho s, lim (eval g e1 rho s) (fun g' => eval g' e2 rho s).

Lemma list_hole before after : forall g rho s,
  lim (eval_list g (before ++ e1 :: after) rho s) (fun g' => eval_list g' (before ++ e2 :: after) rho s).
Proof.
  induction before as [|p before IH]; intros g rho s;
    (destruct g as [|g]; [rewrite eval_list_0; apply lim_fuel|]);
    apply lim_shift; cbn [app];
    (eapply lim_ext; [intros g'; rewrite eval_list_S; reflexivity|]);
    rewrite eval_list_S; lim_go.
Qed.

Lemma props_hole before k after : forall g rho s,
  lim (eval_props g (before ++ (k, e1) :: after) rho s)
      (fun g' => eval_props g' (before ++ (k, e2) :: after) rho s).
Proof.
  induction before as [|[k0 p] before IH]; intros g rho s;
    (destruct g as [|g]; [rewrite eval_props_0; apply lim_fuel|]);
    apply lim_shift; cbn [app];
    (eapply lim_ext; [intros g'; rewrite eval_props_S; reflexivity|]);
    rewrite eval_props_S; lim_go.
Qed.

Lemma hole_length before after : length (before ++ e1 :: after) = length (before ++ e2 :: after).
Proof. rewrite !app_length. reflexivity. Qed.

Lemma frame_lim F : forall g rho s,
  lim (eval g (plug1 F e1) rho s) (fun g' => eval g' (plug1 F e2) rho s).
Proof.
  intros g rho s. destruct g as [|g]; [rewrite eval_0; apply lim_fuel|].
  apply lim_shift.
  destruct F; cbn [plug1];
    try pose proof (list_hole before after) as HL;
    try pose proof (props_hole before k after) as HP;
    (eapply lim_ext; [intros g'; rewrite eval_S; reflexivity|]);
    rewrite eval_S; try rewrite (hole_length before after); lim_go.
Qed.

(* ---------------------------------------------------------------- *)
(** ** statement frames *)

(** the loops re-evaluate the condition at every iteration: inner induction on fuel *)
Lemma while_hole repl b rho : forall g s,
  lim (exec_while g repl e1 b rho s) (fun g' => exec_while g' repl e2 b rho s).
Proof.
  induction g as [|g IH]; intros s; [rewrite exec_while_0; apply lim_fuel|].
  apply lim_shift.
  (eapply lim_ext; [intros g'; rewrite exec_while_S; reflexivity|]).
  rewrite exec_while_S. lim_go.
Qed.

Lemma for_hole_cond repl inc b rho : forall g s,
  lim (exec_for g repl e1 inc b rho s) (fun g' => exec_for g' repl e2 inc b rho s).
Proof.
  induction g as [|g IH]; intros s; [rewrite exec_for_0; apply lim_fuel|].
  apply lim_shift.
  (eapply lim_ext; [intros g'; rewrite exec_for_S; reflexivity|]).
  rewrite exec_for_S. lim_go.
Qed.

Lemma for_hole_inc repl c b rho : forall g s,
  lim (exec_for g repl c (Some e1) b rho s) (fun g' => exec_for g' repl c (Some e2) b rho s).
Proof.
  induction g as [|g IH]; intros s; [rewrite exec_for_0; apply lim_fuel|].
  apply lim_shift.
  (eapply lim_ext; [intros g'; rewrite exec_for_S; reflexivity|]).
  rewrite exec_for_S. lim_go.
Qed.

Lemma var_hole x line rho : forall g s,
  lim (exec_var g (x, Some e1, line) rho s) (fun g' => exec_var g' (x, Some e2, line) rho s).
Proof.
  intros g s. destruct g as [|g]; [rewrite exec_var_0; apply lim_fuel|].
  apply lim_shift.
  (eapply lim_ext; [intros g'; rewrite exec_var_S; reflexivity|]).
  rewrite exec_var_S. lim_go.
Qed.

End Hole.

(** one-hole statement frames: the places where a statement contains an expression *)
Inductive sframe :=
  | SFExpr
  | SFPrint
  | SFVar (x : list N) (line : N)
  | SFIf (t : stmt) (e : option stmt)
  | SFWhile (b : stmt)
  | SFForCond (init : option stmt) (inc : option expr) (b : stmt)
  | SFForInc (init : option stmt) (c : expr) (b : stmt)
  | SFReturn (kw : N).

Definition splug (F : sframe) (e : expr) : stmt :=
  match F with
  | SFExpr => SExpr e
  | SFPrint => SPrint e
  | SFVar x line => SVar (x, Some e, line)
  | SFIf t el => SIf e t el
  | SFWhile b => SWhile e b
  | SFForCond init inc b => SFor init e inc b
  | SFForInc init c b => SFor init c (Some e) b
  | SFReturn kw => SReturn kw (Some e)
  end.

Lemma sframe_lim e1 e2 F :
  (forall g rho s, lim (eval g e1 rho s) (fun g' => eval g' e2 rho s)) ->
  forall g repl rho s,
  lim (exec g repl (splug F e1) rho s) (fun g' => exec g' repl (splug F e2) rho s).
Proof.
  intros HR g repl rho s. destruct g as [|g]; [rewrite exec_0; apply lim_fuel|].
  apply lim_shift.
  pose proof (while_hole e1 e2 HR) as HW.
  pose proof (for_hole_cond e1 e2 HR) as HFc.
  pose proof (for_hole_inc e1 e2 HR) as HFi.
  pose proof (var_hole e1 e2 HR) as HV.
  destruct F; cbn [splug];
    (eapply lim_ext; [intros g'; rewrite exec_S; reflexivity|]);
    rewrite exec_S; lim_go.
Qed.

(* ---------------------------------------------------------------- *)
(** ** a statement hole inside a statement, and inside a program *)

Section SHole.
Variables st1 st2 : stmt.
Hypothesis HS : forall g repl rho s, lim (exec g repl st1 rho s) (fun g' => exec g' repl st2 rho s).

Lemma block_hole before after : forall g repl rho s,
  lim (exec_list g repl (before ++ st1 :: after) rho s)
      (fun g' => exec_list g' repl (before ++ st2 :: after) rho s).
Proof.
  induction before as [|p before IH]; intros g repl rho s;
    (destruct g as [|g]; [rewrite exec_list_0; apply lim_fuel|]);
    apply lim_shift; cbn [app];
    (eapply lim_ext; [intros g'; rewrite exec_list_S; reflexivity|]);
    rewrite exec_list_S; lim_go.
Qed.

Lemma while_body_hole repl c rho : forall g s,
  lim (exec_while g repl c st1 rho s) (fun g' => exec_while g' repl c st2 rho s).
Proof.
  induction g as [|g IH]; intros s; [rewrite exec_while_0; apply lim_fuel|].
  apply lim_shift.
  (eapply lim_ext; [intros g'; rewrite exec_while_S; reflexivity|]).
  rewrite exec_while_S. lim_go.
Qed.

Lemma for_body_hole repl c inc rho : forall g s,
  lim (exec_for g repl c inc st1 rho s) (fun g' => exec_for g' repl c inc st2 rho s).
Proof.
  induction g as [|g IH]; intros s; [rewrite exec_for_0; apply lim_fuel|].
  apply lim_shift.
  (eapply lim_ext; [intros g'; rewrite exec_for_S; reflexivity|]).
  rewrite exec_for_S. lim_go.
Qed.

(** the top level of a program *)
Lemma program_hole repl before after : forall g s,
  lim (run_stmts libm clock sched g repl (before ++ st1 :: after) s)
      (fun g' => run_stmts libm clock sched g' repl (before ++ st2 :: after) s).
Proof.
  induction before as [|p before IH]; intros g s; cbn [app run_stmts]; lim_go.
Qed.

End SHole.

(** statement frames around a statement hole.  (No frame for function bodies: a
    declaration stores its body in the closure, so two programs that differ inside a
    body reach stores that differ in that closure -- equivalent, but not equal.) *)
Inductive stframe :=
  | TIfThen (c : expr) (e : option stmt)
  | TIfElse (c : expr) (t : stmt)
  | TWhileBody (c : expr)
  | TForInit (c : expr) (inc : option expr) (b : stmt)
  | TForBody (init : option stmt) (c : expr) (inc : option expr)
  | TBlock (before after : list stmt).

Definition stplug (F : stframe) (st : stmt) : stmt :=
  match F with
  | TIfThen c e => SIf c st e
  | TIfElse c t => SIf c t (Some st)
  | TWhileBody c => SWhile c st
  | TForInit c inc b => SFor (Some st) c inc b
  | TForBody init c inc => SFor init c inc st
  | TBlock before after => SBlock (before ++ st :: after)
  end.

Lemma stframe_lim st1 st2 F :
  (forall g repl rho s, lim (exec g repl st1 rho s) (fun g' => exec g' repl st2 rho s)) ->
  forall g repl rho s,
  lim (exec g repl (stplug F st1) rho s) (fun g' => exec g' repl (stplug F st2) rho s).
Proof.
  intros HS g repl rho s. destruct g as [|g]; [rewrite exec_0; apply lim_fuel|].
  apply lim_shift.
  pose proof (while_body_hole st1 st2 HS) as HW.
  pose proof (for_body_hole st1 st2 HS) as HF.
  destruct F; cbn [stplug];
    try pose proof (block_hole st1 st2 HS before after) as HB;
    (eapply lim_ext; [intros g'; rewrite exec_S; reflexivity|]);
    rewrite exec_S; lim_go.
Qed.

(** statement contexts: an expression context inside a statement frame, inside any
    number of enclosing statements *)
Inductive sctx :=
  | SCExpr (F : sframe) (K : ctx)
  | SCStmt (F : stframe) (SK : sctx).

Fixpoint splug_ctx (SK : sctx) (e : expr) : stmt :=
  match SK with
  | SCExpr F K => splug F (plug K e)
  | SCStmt F SK' => stplug F (splug_ctx SK' e)
  end.

Definition refines_p (p1 p2 : list stmt) : Prop :=
  forall f repl s r, run_stmts libm clock sched f repl p1 s = r -> r <> Fuel ->
    exists f', run_stmts libm clock sched f' repl p2 s = r.
Definition equiv_p (p1 p2 : list stmt) : Prop := refines_p p1 p2 /\ refines_p p2 p1.

Lemma refines_p_lim p1 p2 :
  refines_p p1 p2 <->
  forall g repl s, lim (run_stmts libm clock sched g repl p1 s) (fun g' => run_stmts libm clock sched g' repl p2 s).
Proof.
  split.
  - intros R g repl s. destruct (run_stmts libm clock sched g repl p1 s) as [a s1|e l s1| | |s1] eqn:E;
      try apply lim_fuel;
      (destruct (R g repl s _ E ltac:(discriminate)) as [g' E']; exists g'; intros _; exact E').
  - intros L f repl s r H N. destruct (L f repl s) as [g' Lg]. exists g'. rewrite <- H. apply Lg.
    rewrite H. exact N.
Qed.

(* ================================================================ *)
(** * 3. The congruence theorems *)

(** a single frame around the hole *)
Theorem frame_congruence F e1 e2 : equiv_e e1 e2 -> equiv_e (plug1 F e1) (plug1 F e2).
Proof.
  intros [A B]. split; apply refines_lim; apply frame_lim; apply refines_lim; assumption.
Qed.

(** Two expressions that are observationally equivalent remain so inside every
    expression context: whatever consumes the value cannot tell which of the two
    produced it. *)
Theorem context_congruence K e1 e2 : equiv_e e1 e2 -> equiv_e (plug K e1) (plug K e2).
Proof.
  intros H. induction K as [|F K IH]; cbn [plug]; [exact H|]. apply frame_congruence. exact IH.
Qed.

(** ... and inside the statements that consume an expression: what is printed, echoed,
    declared, returned, and which way if / while / for go, is the same *)
Theorem stmt_congruence F e1 e2 : equiv_e e1 e2 -> equiv_s (splug F e1) (splug F e2).
Proof.
  intros [A B]. split; apply refines_s_lim; apply sframe_lim; apply refines_lim; assumption.
Qed.

Corollary stmt_context_congruence F K e1 e2 :
  equiv_e e1 e2 -> equiv_s (splug F (plug K e1)) (splug F (plug K e2)).
Proof. intros H. apply stmt_congruence. apply context_congruence. exact H. Qed.

(** one statement frame around a statement *)
Theorem stframe_congruence F st1 st2 : equiv_s st1 st2 -> equiv_s (stplug F st1) (stplug F st2).
Proof.
  intros [A B]. split; apply refines_s_lim; apply stframe_lim; apply refines_s_lim; assumption.
Qed.

(** any depth of enclosing statements (blocks, branches, loop bodies, for-initialisers) *)
Theorem sctx_congruence SK e1 e2 : equiv_e e1 e2 -> equiv_s (splug_ctx SK e1) (splug_ctx SK e2).
Proof.
  intros H. induction SK as [F K|F SK IH]; cbn [splug_ctx].
  - apply stmt_context_congruence. exact H.
  - apply stframe_congruence. exact IH.
Qed.

(** a whole program: replacing a top-level statement by an equivalent one leaves the
    run unchanged -- same output, same final store, same first diagnostic *)
Theorem program_congruence before after st1 st2 :
  equiv_s st1 st2 -> equiv_p (before ++ st1 :: after) (before ++ st2 :: after).
Proof.
  intros [A B]. split; apply refines_p_lim; intros g repl s; apply program_hole; apply refines_s_lim; assumption.
Qed.

Corollary program_context_congruence before after SK e1 e2 :
  equiv_e e1 e2 ->
  equiv_p (before ++ splug_ctx SK e1 :: after) (before ++ splug_ctx SK e2 :: after).
Proof. intros H. apply program_congruence. apply sctx_congruence. exact H. Qed.

(* ================================================================ *)
(** * 4. Different producers of the same value *)

(** [e] evaluates to [v] without touching the store, in every scope *)
Definition produces (e : expr) (v : value) : Prop :=
  exists f0, forall rho s, eval f0 e rho s = Ok v s.

Lemma produces_refines e e' v : produces e v -> produces e' v -> refines e e'.
Proof.
  intros [f0 H0] [f0' H0'] f rho s r H N. exists f0'. rewrite H0'.
  pose proof (eval_mono libm clock sched f (Nat.max f f0) e rho s r (Nat.le_max_l f f0) H N) as A.
  assert (NF : Ok v s <> @Fuel value) by discriminate.
  pose proof (eval_mono libm clock sched f0 (Nat.max f f0) e rho s (Ok v s) (Nat.le_max_r f f0) (H0 rho s) NF) as B.
  congruence.
Qed.

(** two pure producers of the same value are observationally equivalent ... *)
Theorem producers_equiv e1 e2 v : produces e1 v -> produces e2 v -> equiv_e e1 e2.
Proof. intros A B. split; eapply produces_refines; eauto. Qed.

(** ... hence interchangeable in every context, statement and program *)
Corollary producers_interchangeable e1 e2 v K :
  produces e1 v -> produces e2 v -> equiv_e (plug K e1) (plug K e2).
Proof. intros A B. apply context_congruence. eapply producers_equiv; eauto. Qed.

(** concatenation of two string literals and the literal of the concatenation: the
    same value and the same (untouched) state, for ALL strings *)
Lemma concat_producer f a b l1 l2 l l' rho s :
  eval (S (S f)) (EBinary TPLUS (ELit (LitStr a) l1) (ELit (LitStr b) l2) l) rho s = Ok (VStr (a ++ b)) s /\
  eval (S f) (ELit (LitStr (a ++ b)) l') rho s = Ok (VStr (a ++ b)) s.
Proof. split; reflexivity. Qed.

Lemma sum_producer f x y l1 l2 l l' rho s :
  eval (S (S f)) (EBinary TPLUS (ELit (LitNum x) l1) (ELit (LitNum y) l2) l) rho s = Ok (VNum (f_add x y)) s /\
  eval (S f) (ELit (LitNum (f_add x y)) l') rho s = Ok (VNum (f_add x y)) s.
Proof. split; reflexivity. Qed.

(** the integer operators on two number literals that are int64 values *)
Lemma bitwise_producer f op x y a b l1 l2 l rho s :
  to_int64 x = Some a -> to_int64 y = Some b ->
  eval (S (S f)) (EBinary op (ELit (LitNum x) l1) (ELit (LitNum y) l2) l) rho s =
    lift_ores (binop libm s op (VNum x) (VNum y)) l s (fun r => Ok r s) /\
  bitwise TAND (VNum x) (VNum y) = OVal (VNum (f_of_Z (Z.land a b))) /\
  bitwise TOR (VNum x) (VNum y) = OVal (VNum (f_of_Z (Z.lor a b))).
Proof.
  intros Ha Hb. split; [reflexivity|].
  unfold bitwise, to_int, to_number. rewrite Ha, Hb. split; reflexivity.
Qed.

Theorem concat_equiv a b l1 l2 l l' :
  equiv_e (EBinary TPLUS (ELit (LitStr a) l1) (ELit (LitStr b) l2) l) (ELit (LitStr (a ++ b)) l').
Proof.
  apply producers_equiv with (VStr (a ++ b)); [exists 2%nat|exists 1%nat]; intros rho s; reflexivity.
Qed.

Theorem sum_equiv x y l1 l2 l l' :
  equiv_e (EBinary TPLUS (ELit (LitNum x) l1) (ELit (LitNum y) l2) l) (ELit (LitNum (f_add x y)) l').
Proof.
  apply producers_equiv with (VNum (f_add x y)); [exists 2%nat|exists 1%nat]; intros rho s; reflexivity.
Qed.

Theorem and_equiv x y a b l1 l2 l l' :
  to_int64 x = Some a -> to_int64 y = Some b ->
  equiv_e (EBinary TAND (ELit (LitNum x) l1) (ELit (LitNum y) l2) l) (ELit (LitNum (f_of_Z (Z.land a b))) l').
Proof.
  intros Ha Hb. destruct (bitwise_producer 0 TAND x y a b l1 l2 l 0%nat (init_state []) Ha Hb) as (_ & E & _).
  apply producers_equiv with (VNum (f_of_Z (Z.land a b))); [exists 2%nat|exists 1%nat]; intros rho s; [|reflexivity].
  transitivity (lift_ores (bitwise TAND (VNum x) (VNum y)) l s (fun r => Ok r s)); [reflexivity|].
  rewrite E. reflexivity.
Qed.

Theorem or_equiv x y a b l1 l2 l l' :
  to_int64 x = Some a -> to_int64 y = Some b ->
  equiv_e (EBinary TOR (ELit (LitNum x) l1) (ELit (LitNum y) l2) l) (ELit (LitNum (f_of_Z (Z.lor a b))) l').
Proof.
  intros Ha Hb. destruct (bitwise_producer 0 TOR x y a b l1 l2 l 0%nat (init_state []) Ha Hb) as (_ & _ & E).
  apply producers_equiv with (VNum (f_of_Z (Z.lor a b))); [exists 2%nat|exists 1%nat]; intros rho s; [|reflexivity].
  transitivity (lift_ores (bitwise TOR (VNum x) (VNum y)) l s (fun r => Ok r s)); [reflexivity|].
  rewrite E. reflexivity.
Qed.

(* ---------------------------------------------------------------- *)
(** ** a producer that allocates: reading a property of a fresh object literal *)

(** Same value, same output, same unread input, same scopes; the object store may
    have grown.  Heap growth is unobservable: a cell is reachable only through a
    [VObj l] / [VArr l] value, the fresh cell's location is returned to nobody (the
    result is the property's value), existing locations keep their content
    ([alloc_obj] appends), and no operation enumerates or counts cells (the cycle bound
    [print_fuel] only grows with the store).  So [equiv_v] compares what a Borno program
    can see.  (This is the informal reading of the definition; the file proves the
    statements below about [equiv_v], not a general unobservability theorem.) *)
Definition same_obs (s1 s2 : state) : Prop := out s1 = out s2 /\ inp s1 = inp s2 /\ envs s1 = envs s2.

Definition refines_v (e1 e2 : expr) : Prop :=
  forall f rho s v s1, eval f e1 rho s = Ok v s1 ->
    exists f' s2, eval f' e2 rho s = Ok v s2 /\ same_obs s1 s2.

Definition equiv_v (e1 e2 : expr) : Prop := refines_v e1 e2 /\ refines_v e2 e1.

Lemma equiv_e_equiv_v e1 e2 : equiv_e e1 e2 -> equiv_v e1 e2.
Proof.
  intros [A B]. split; intros f rho s v s1 H.
  - destruct (A f rho s _ H ltac:(discriminate)) as [f' H']. exists f', s1.
    split; [exact H'|]. split; [reflexivity|split; reflexivity].
  - destruct (B f rho s _ H ltac:(discriminate)) as [f' H']. exists f', s1.
    split; [exact H'|]. split; [reflexivity|split; reflexivity].
Qed.

Lemma prop_producer f k lit l0 l1 rho s :
  eval (S (S (S (S f)))) (EProp (EObject [(k, ELit lit l0)]) k l1) rho s =
    Ok (value_of_lit lit) (snd (alloc_obj [(k, value_of_lit lit)] s)).
Proof.
  assert (E : eval (S (S (S f))) (EObject [(k, ELit lit l0)]) rho s =
              Ok (VObj (length (objs s))) (snd (alloc_obj [(k, value_of_lit lit)] s))) by reflexivity.
  rewrite eval_S, E. cbn [bind].
  unfold get_obj, alloc_obj. cbn [snd objs].
  rewrite nth_error_app2 by lia. rewrite Nat.sub_diag. cbn [nth_error assoc].
  rewrite HeapLaws.str_eqb_refl. reflexivity.
Qed.

Theorem prop_of_literal_equiv_v k lit l0 l1 l2 :
  equiv_v (EProp (EObject [(k, ELit lit l0)]) k l1) (ELit lit l2).
Proof.
  split; intros f rho s v s1 H.
  - assert (N1 : Ok v s1 <> @Fuel value) by discriminate.
    pose proof (eval_mono libm clock sched f (Nat.max f 4) _ rho s _ (Nat.le_max_l f 4) H N1) as A.
    assert (N2 : Ok (value_of_lit lit) (snd (alloc_obj [(k, value_of_lit lit)] s)) <> @Fuel value) by discriminate.
    pose proof (eval_mono libm clock sched 4 (Nat.max f 4) _ rho s _ (Nat.le_max_r f 4)
                  (prop_producer 0 k lit l0 l1 rho s) N2) as B.
    rewrite A in B. injection B as -> ->.
    exists 1%nat, s. split; [reflexivity|]. split; [reflexivity|split; reflexivity].
  - destruct f as [|f]; [rewrite eval_0 in H; discriminate|]. rewrite eval_S in H. injection H as <- <-.
    exists 4%nat, (snd (alloc_obj [(k, value_of_lit lit)] s)).
    split; [apply prop_producer|]. split; [reflexivity|split; reflexivity].
Qed.

End Congr.

(* ================================================================ *)
(** * 5. Concrete examples ([producers_agree]) *)

(** structural identity decides equality of doubles (the [bounded] proof is irrelevant) *)
Lemma f_same_eq' (a b : f64) : f_same a b = true -> a = b.
Proof.
  intros H. apply B2SF_inj.
  destruct a as [s1|s1| |s1 m1 e1 H1], b as [s2|s2| |s2 m2 e2 H2];
    cbn [f_same] in H; try discriminate; cbn [B2SF].
  - apply Bool.eqb_prop in H. rewrite H. reflexivity.
  - apply Bool.eqb_prop in H. rewrite H. reflexivity.
  - reflexivity.
  - apply Bool.andb_true_iff in H. destruct H as [H He].
    apply Bool.andb_true_iff in H. destruct H as [Hs Hm].
    apply Bool.eqb_prop in Hs. apply Pos.eqb_eq in Hm. apply Z.eqb_eq in He.
    rewrite Hs, Hm, He. reflexivity.
Qed.

Section Examples.
Variable libm : N -> f64 -> f64 -> f64.
Variable clock : f64.
Variable sched : N -> list (list N * value) -> list (list N * value).

Definition str_ab : list N := [97; 98].
Definition str_c : list N := [99].
Definition str_abc : list N := [97; 98; 99].
Definition str_k : list N := [107].
Definition num (z : Z) : lit := LitNum (f_of_Z z).

(** "ab" + "c"  and  "abc" *)
Example producers_agree_concat l1 l2 l l' :
  equiv_e libm clock sched (EBinary TPLUS (ELit (LitStr str_ab) l1) (ELit (LitStr str_c) l2) l)
                           (ELit (LitStr str_abc) l').
Proof. exact (concat_equiv libm clock sched str_ab str_c l1 l2 l l'). Qed.

Lemma one_plus_two : f_add (f_of_Z 1) (f_of_Z 2) = f_of_Z 3.
Proof. apply f_same_eq'. vm_compute. reflexivity. Qed.

(** 1 + 2  and  3 *)
Example producers_agree_sum l1 l2 l l' :
  equiv_e libm clock sched (EBinary TPLUS (ELit (num 1) l1) (ELit (num 2) l2) l) (ELit (num 3) l').
Proof.
  unfold num. rewrite <- one_plus_two. apply sum_equiv.
Qed.

Lemma int_7 : to_int64 (f_of_Z 7) = Some 7%Z. Proof. vm_compute. reflexivity. Qed.
Lemma int_3 : to_int64 (f_of_Z 3) = Some 3%Z. Proof. vm_compute. reflexivity. Qed.
Lemma int_0 : to_int64 (f_of_Z 0) = Some 0%Z. Proof. vm_compute. reflexivity. Qed.

(** 7 & 3  and  3 *)
Example producers_agree_and l1 l2 l l' :
  equiv_e libm clock sched (EBinary TAND (ELit (num 7) l1) (ELit (num 3) l2) l) (ELit (num 3) l').
Proof. exact (and_equiv libm clock sched _ _ 7%Z 3%Z l1 l2 l l' int_7 int_3). Qed.

(** 3 | 0  and  3 *)
Example producers_agree_or l1 l2 l l' :
  equiv_e libm clock sched (EBinary TOR (ELit (num 3) l1) (ELit (num 0) l2) l) (ELit (num 3) l').
Proof. exact (or_equiv libm clock sched _ _ 3%Z 0%Z l1 l2 l l' int_3 int_0). Qed.

(** ({k: "abc"}).k  and  "abc": same value and observable state; one more object cell *)
Example producers_agree_prop l0 l1 l2 :
  equiv_v libm clock sched (EProp (EObject [(str_k, ELit (LitStr str_abc) l0)]) str_k l1)
                           (ELit (LitStr str_abc) l2).
Proof. apply prop_of_literal_equiv_v. Qed.

(** all five producers of "abc" / 3 behave alike under any consumer, e.g. [দেখাও (□ + x)] *)
Example producers_agree_in_context l1 l2 l l' K F :
  equiv_s libm clock sched
    (splug F (plug K (EBinary TPLUS (ELit (LitStr str_ab) l1) (ELit (LitStr str_c) l2) l)))
    (splug F (plug K (ELit (LitStr str_abc) l'))).
Proof. apply stmt_context_congruence. apply producers_agree_concat. Qed.

End Examples.

(** the same, by running the model ([vm_compute]) with dummy oracles *)
Definition libm0 : N -> f64 -> f64 -> f64 := fun _ x _ => x.
Definition sched0 : N -> list (list N * value) -> list (list N * value) := fun _ l => l.

Example run_concat :
  Eval.eval libm0 f_zero sched0 5 (EBinary TPLUS (ELit (LitStr str_ab) 1) (ELit (LitStr str_c) 1) 1)
            top_env (init_state [])
  = Eval.eval libm0 f_zero sched0 5 (ELit (LitStr str_abc) 1) top_env (init_state []).
Proof. vm_compute. reflexivity. Qed.

Example run_print_concat :
  Eval.run_stmts libm0 f_zero sched0 9 false
    [SPrint (EBinary TPLUS (ELit (LitStr str_ab) 1) (ELit (LitStr str_c) 1) 1)] (init_state [])
  = Eval.run_stmts libm0 f_zero sched0 9 false [SPrint (ELit (LitStr str_abc) 1)] (init_state []).
Proof. vm_compute. reflexivity. Qed.

(** value, output, input and scopes of a result *)
Definition obs (r : res value) : option (value * list event * list N * list scope) :=
  match r with Ok v s => Some (v, out s, inp s, envs s) | _ => None end.

Example run_prop :
  obs (Eval.eval libm0 f_zero sched0 9 (EProp (EObject [(str_k, ELit (LitStr str_abc) 1)]) str_k 1)
         top_env (init_state []))
  = obs (Eval.eval libm0 f_zero sched0 9 (ELit (LitStr str_abc) 1) top_env (init_state [])).
Proof. vm_compute. reflexivity. Qed.

(* ---------------------------------------------------------------- *)
Print Assumptions frame_congruence.
Print Assumptions context_congruence.
Print Assumptions stmt_congruence.
Print Assumptions program_context_congruence.
Print Assumptions concat_equiv.
Print Assumptions prop_of_literal_equiv_v.
