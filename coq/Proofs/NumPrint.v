(** Printing of doubles ([text_num], [shortest_digits], [layout]) in the Borno model. *)
From Coq Require Import ZArith NArith List Bool Lia Reals Lra.
From Flocq Require Import Core BinarySingleNaN.
From Borno Require Import Base Unicode Num NumInt NumFacts NumSweep.
Import ListNotations.
Open Scope Z_scope.

(* ------------------------------------------------------------------ *)
(** * Structural identity *)

(** [f_same] decides Leibniz equality of doubles (the [bounded] proof inside
    [B754_finite] is irrelevant: Flocq's [B2SF_inj]). *)
Theorem f_same_eq : forall a b : f64, f_same a b = true -> a = b.
Proof.
  intros a b H. apply B2SF_inj.
  destruct a as [s1|s1| |s1 m1 e1 H1], b as [s2|s2| |s2 m2 e2 H2];
    cbn [f_same] in H; try discriminate; cbn [B2SF].
  - apply eqb_prop in H. rewrite H. reflexivity.
  - apply eqb_prop in H. rewrite H. reflexivity.
  - reflexivity.
  - apply andb_true_iff in H. destruct H as [H He].
    apply andb_true_iff in H. destruct H as [Hs Hm].
    apply eqb_prop in Hs. apply Pos.eqb_eq in Hm. apply Z.eqb_eq in He.
    rewrite Hs, Hm, He. reflexivity.
Qed.

Theorem f_same_refl : forall a : f64, f_same a a = true.
Proof.
  intros a. destruct a as [s|s| |s m e H]; cbn [f_same]; try reflexivity.
  - apply eqb_reflx.
  - apply eqb_reflx.
  - rewrite eqb_reflx, Pos.eqb_refl, Z.eqb_refl. reflexivity.
Qed.

Corollary f_same_iff : forall a b : f64, f_same a b = true <-> a = b.
Proof.
  intros a b. split; [apply f_same_eq|]. intros ->. apply f_same_refl.
Qed.

(* ------------------------------------------------------------------ *)
(** * Shortest digits: whatever is returned reads back as the same double *)

Theorem shortest_digits_sound : forall (f : f64) d x,
  shortest_digits f = Some (d, x) -> dec_to_f64 d x = Babs f.
Proof.
  intros f d x H. unfold shortest_digits in H.
  destruct f as [s|s| |s m e Hb]; try discriminate.
  destruct (shortest_candidate m e) as [[d' x']|]; [|discriminate].
  destruct (f_same (dec_to_f64 d' x') (Babs (B754_finite s m e Hb))) eqn:E; [|discriminate].
  inversion H; subst d' x'. apply f_same_eq. exact E.
Qed.

Lemma shortest_digits_finite : forall (f : f64) d x,
  shortest_digits f = Some (d, x) -> is_finite_strict f = true.
Proof.
  intros f d x H. destruct f as [s|s| |s m e Hb]; try discriminate. reflexivity.
Qed.

(** the digits denote a positive number *)
Lemma shortest_digits_pos : forall (f : f64) d x,
  shortest_digits f = Some (d, x) -> 0 < d.
Proof.
  intros f d x H. pose proof (shortest_digits_sound f d x H) as Hs.
  destruct f as [s|s| |s m e Hb]; try discriminate. cbn [Babs] in Hs.
  destruct (Z.compare_spec d 0) as [Hd|Hd|Hd]; [| |exact Hd].
  - subst d. unfold dec_to_f64 in Hs. destruct (0 <=? x); discriminate.
  - unfold dec_to_f64 in Hs. destruct (Z.leb_spec 0 x) as [Hx|Hx].
    + pose proof (f_of_Z_correct_gen (d * pow10 x)) as Hc.
      assert (Hneg : (d * pow10 x <? 0) = true).
      { apply Z.ltb_lt. apply Z.mul_neg_pos; [exact Hd|apply pow10_pos; exact Hx]. }
      rewrite Hneg in Hc.
      destruct (Rlt_bool _ _).
      * destruct Hc as (_ & _ & Hsg). rewrite Hs in Hsg. discriminate.
      * rewrite Hs in Hc. discriminate.
    + destruct d; try lia. discriminate.
Qed.

(** Round trip: the decimal [d * 10^x] printed for [f] rounds (to nearest even) to |f|. *)
Theorem shortest_digits_roundtrip : forall (f : f64) d x,
  shortest_digits f = Some (d, x) ->
  0 < d /\ rnd64 (dec_real d x) = Rabs (B2R f) /\ (Rabs (rnd64 (dec_real d x)) < bmax)%R.
Proof.
  intros f d x H.
  pose proof (shortest_digits_pos f d x H) as Hd.
  pose proof (shortest_digits_sound f d x H) as Hs.
  pose proof (shortest_digits_finite f d x H) as Hf.
  split; [exact Hd|].
  pose proof (dec_to_f64_correct d x ltac:(lia)) as Hc. cbv zeta in Hc.
  destruct (Rlt_bool_spec (Rabs (rnd64 (dec_real d x))) bmax) as [Hlt|Hge].
  - destruct Hc as [H1 _]. rewrite Hs, B2R_Babs in H1. split; [symmetry; exact H1|exact Hlt].
  - rewrite Hs in Hc. destruct f; discriminate.
Qed.

(* ------------------------------------------------------------------ *)
(** * [strip0]: removing trailing zeros keeps the value *)

Lemma strip0_value : forall fuel d x d' x', 0 <= x ->
  strip0 fuel d x = (d', x') -> d' * 10 ^ x' = d * 10 ^ x /\ x <= x'.
Proof.
  induction fuel as [|fuel IH]; intros d x d' x' Hx H; cbn [strip0] in H.
  - inversion H. split; lia.
  - destruct ((d mod 10 =? 0) && negb (d =? 0)) eqn:E.
    + apply andb_true_iff in E. destruct E as [E _]. apply Z.eqb_eq in E.
      apply IH in H; [|lia]. destruct H as [H1 H2]. split; [|lia].
      rewrite H1. rewrite Z.pow_add_r by lia. change (10 ^ 1) with 10.
      pose proof (Z.div_mod d 10 ltac:(lia)) as Hdm. rewrite E in Hdm.
      rewrite Hdm at 2. ring.
    + inversion H. split; lia.
Qed.

Lemma strip0_pos : forall fuel d x d' x', 0 < d ->
  strip0 fuel d x = (d', x') -> 0 < d'.
Proof.
  induction fuel as [|fuel IH]; intros d x d' x' Hd H; cbn [strip0] in H.
  - inversion H. lia.
  - destruct ((d mod 10 =? 0) && negb (d =? 0)) eqn:E.
    + apply andb_true_iff in E. destruct E as [E _]. apply Z.eqb_eq in E.
      apply IH in H; [exact H|].
      pose proof (Z.div_mod d 10 ltac:(lia)) as Hdm. lia.
    + inversion H. lia.
Qed.

(* ------------------------------------------------------------------ *)
(** * The text of a double *)

(** the five special texts *)
Theorem text_num_special :
  text_num B754_nan = Some s_NaN /\
  text_num (B754_infinity false) = Some s_pInf /\
  text_num (B754_infinity true) = Some s_nInf /\
  text_num (B754_zero false) = Some [48%N] /\
  text_num (B754_zero true) = Some [45%N; 48%N].
Proof. repeat split. Qed.

(** a finite non-zero double whose magnitude is an integer [z] below 2^53 is printed from
    the decimal digits of [z] itself (trailing zeros moved to the exponent): the printed
    digits [d] and exponent [x] satisfy [d * 10^x = z] exactly. *)
Theorem text_num_int : forall s m e (Hb : SpecFloat.bounded prec emax m e = true) z,
  f_to_Z (Babs (B754_finite s m e Hb)) = Some z -> z < 2 ^ 53 ->
  exists d x, strip0 25 z 0 = (d, x) /\
    text_num (B754_finite s m e Hb) = Some (layout s d x) /\
    d * 10 ^ x = z /\ 0 <= x.
Proof.
  intros s m e Hb z Hz Hlt. cbn [text_num]. rewrite Hz.
  assert (E : (z <? 9007199254740992) = true).
  { apply Z.ltb_lt. change 9007199254740992 with (2 ^ 53). exact Hlt. }
  rewrite E. destruct (strip0 25 z 0) as [d x] eqn:Es.
  exists d, x. split; [reflexivity|split; [reflexivity|]].
  apply strip0_value in Es; [|lia]. destruct Es as [H1 H2].
  split; [|exact H2]. rewrite H1. simpl (10 ^ 0). lia.
Qed.

Theorem text_num_cases : forall f : f64,
  (f = B754_nan /\ text_num f = Some s_NaN) \/
  (f = B754_infinity false /\ text_num f = Some s_pInf) \/
  (f = B754_infinity true /\ text_num f = Some s_nInf) \/
  (f = B754_zero false /\ text_num f = Some [48%N]) \/
  (f = B754_zero true /\ text_num f = Some [45%N; 48%N]) \/
  (is_finite_strict f = true /\
   forall z, B2R (Babs f) = IZR z -> z < 2 ^ 53 ->
     exists d x, text_num f = Some (layout (Bsign f) d x) /\ d * 10 ^ x = z /\ 0 <= x).
Proof.
  intros f. destruct f as [[|]|[|]| |s m e Hb]; auto 10.
  right. right. right. right. right. split; [reflexivity|].
  intros z Hz Hlt.
  assert (Hf : f_to_Z (Babs (B754_finite s m e Hb)) = Some z).
  { apply f_to_Z_spec. split; [reflexivity|exact Hz]. }
  destruct (text_num_int s m e Hb z Hf Hlt) as (d & x & _ & H2 & H3 & H4).
  exists d, x. cbn [Bsign]. auto.
Qed.

(* ------------------------------------------------------------------ *)
(** * Small integers print plainly *)

(** float64(z) for 0 < |z| < 2^53 is a finite non-zero double with the sign of z *)
Lemma f_of_Z_shape : forall z, z <> 0 -> Z.abs z < 2 ^ 53 ->
  exists m e Hb, f_of_Z z = B754_finite (z <? 0) m e Hb.
Proof.
  intros z Hz Hlt.
  destruct (f_of_Z_exact z ltac:(lia)) as [HR HF].
  pose proof (f_of_Z_correct_gen z) as Hg.
  assert (Hm : 2 ^ 53 <= max_f64_Z) by (vm_compute; discriminate).
  rewrite Rlt_bool_true in Hg.
  2:{ apply rnd64_bound. rewrite <- abs_IZR. apply IZR_le. lia. }
  destruct Hg as (_ & _ & Hs).
  destruct (f_of_Z z) as [s|s| |s m e Hb]; try discriminate.
  - exfalso. cbn [B2R] in HR. apply (eq_IZR 0 z) in HR. lia.
  - cbn [Bsign] in Hs. subst s. exists m, e, Hb. reflexivity.
Qed.

Lemma layout_neg : forall d x, layout true d x = 45%N :: layout false d x.
Proof. intros d x. reflexivity. Qed.

(** the text of float64(z), 0 < |z| < 2^53, in terms of integer operations only *)
Theorem text_num_of_Z : forall z, z <> 0 -> Z.abs z < 2 ^ 53 ->
  text_num (f_of_Z z) =
  Some (let '(d, x) := strip0 25 (Z.abs z) 0 in layout (z <? 0) d x).
Proof.
  intros z Hz Hlt.
  destruct (f_of_Z_exact z ltac:(lia)) as [HR HF].
  destruct (f_of_Z_shape z Hz Hlt) as (m & e & Hb & E).
  rewrite E in *.
  assert (Hf : f_to_Z (Babs (B754_finite (z <? 0) m e Hb)) = Some (Z.abs z)).
  { apply f_to_Z_spec. split; [reflexivity|].
    rewrite B2R_Babs, HR. symmetry. apply abs_IZR. }
  destruct (text_num_int _ m e Hb (Z.abs z) Hf Hlt) as (d & x & H1 & H2 & _).
  rewrite H2, H1. reflexivity.
Qed.

(** Integers of magnitude below one million print as their plain decimal numeral
    (Go: fmt %v switches to the exponent form at 1e+06), negative ones with a leading '-'. *)
Theorem small_int_plain : forall z, 0 <= z < 1000000 ->
  text_num (f_of_Z z) = Some (decimal_of_Z z).
Proof.
  intros z Hz. destruct (Z.eq_dec z 0) as [->|Hn]; [reflexivity|].
  assert (Hlt : Z.abs z < 2 ^ 53).
  { assert (1000000 < 2 ^ 53) by reflexivity. lia. }
  rewrite (text_num_of_Z z Hn Hlt).
  assert (Hs : (z <? 0) = false) by (apply Z.ltb_ge; lia).
  rewrite Hs, Z.abs_eq by lia.
  pose proof (plain_ok_small z ltac:(lia)) as Hp. unfold plain_ok in Hp.
  destruct (strip0 25 z 0) as [d x]. apply str_eqb_eq in Hp. rewrite Hp. reflexivity.
Qed.

Theorem small_int_plain_neg : forall z, 0 < z < 1000000 ->
  text_num (f_of_Z (- z)) = Some (45%N :: decimal_of_Z z).
Proof.
  intros z Hz.
  assert (Hlt : Z.abs (- z) < 2 ^ 53).
  { assert (1000000 < 2 ^ 53) by reflexivity. lia. }
  rewrite (text_num_of_Z (- z) ltac:(lia) Hlt).
  assert (Hs : (- z <? 0) = true) by (apply Z.ltb_lt; lia).
  rewrite Hs, Z.abs_neq, Z.opp_involutive by lia.
  pose proof (plain_ok_small z ltac:(lia)) as Hp. unfold plain_ok in Hp.
  destruct (strip0 25 z 0) as [d x]. apply str_eqb_eq in Hp.
  rewrite layout_neg, Hp. reflexivity.
Qed.

Lemma decimal_of_Z_neg : forall z, 0 < z -> decimal_of_Z (- z) = 45%N :: decimal_of_Z z.
Proof.
  intros z Hz. unfold decimal_of_Z.
  assert (H1 : (- z <? 0) = true) by (apply Z.ltb_lt; lia).
  assert (H2 : (z <? 0) = false) by (apply Z.ltb_ge; lia).
  rewrite H1, H2, Z.opp_involutive. reflexivity.
Qed.

Corollary small_int_plain_signed : forall z, -1000000 < z < 1000000 ->
  text_num (f_of_Z z) = Some (decimal_of_Z z).
Proof.
  intros z Hz. destruct (Z_lt_le_dec z 0) as [Hneg|Hpos].
  - replace z with (- (- z)) by lia. rewrite decimal_of_Z_neg by lia.
    apply small_int_plain_neg. lia.
  - apply small_int_plain. lia.
Qed.

Print Assumptions f_same_eq.
Print Assumptions shortest_digits_sound.
Print Assumptions shortest_digits_roundtrip.
Print Assumptions text_num_cases.
Print Assumptions plain_ok_small.
Print Assumptions small_int_plain_signed.
