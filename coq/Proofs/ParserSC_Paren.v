(** F. Full parenthesisation: for any tree whose operators are used in their proper
    node form (no ladder shape required), [paren_all e] is ladder-shaped, stripping
    its groups gives back [e] (minus the groups [e] had), and parsing its canonical
    writing returns a tree whose stripped form is [e]. *)
From Borno Require Import Base Num Token Ast Parser ParserEqs ParserMono Grammar ParserSC_Base ParserComplete.
Local Open Scope nat_scope.

(** every operator sits in the node form of its ladder level, unary operators are
    unary operators, object keys are distinct *)
Inductive ops_ok : expr -> Prop :=
  | OK_lit v ln : ops_ok (ELit v ln)
  | OK_id x ln : ops_ok (EId x ln)
  | OK_group e ln : ops_ok e -> ops_ok (EGroup e ln)
  | OK_unary op e ln : is_unop op = true -> ops_ok e -> ops_ok (EUnary op e ln)
  | OK_binary op j l r ln :
      op_level op = Some j -> level_logical j = false -> ops_ok l -> ops_ok r -> ops_ok (EBinary op l r ln)
  | OK_logical op j l r :
      op_level op = Some j -> level_logical j = true -> ops_ok l -> ops_ok r -> ops_ok (ELogical op l r)
  | OK_assign x nl v ln : ops_ok v -> ops_ok (EAssign x nl v ln)
  | OK_arrassign a i v ln : ops_ok a -> ops_ok i -> ops_ok v -> ops_ok (EArrAssign a i v ln)
  | OK_propassign o p v ln : ops_ok o -> ops_ok v -> ops_ok (EPropAssign o p v ln)
  | OK_call c pl args : ops_ok c -> Forall ops_ok args -> ops_ok (ECall c pl args)
  | OK_index a i ln : ops_ok a -> ops_ok i -> ops_ok (EIndex a i ln)
  | OK_prop o p ln : ops_ok o -> ops_ok (EProp o p ln)
  | OK_array es : Forall ops_ok es -> ops_ok (EArray es)
  | OK_object ps : NoDup (map fst ps) -> Forall ops_ok (map snd ps) -> ops_ok (EObject ps).

Lemma WFk_grp k e : WFfull e -> WFk k (grp e).
Proof. intros W. apply WF_group. exact W. Qed.

Lemma Forall_grp (es : list expr) :
  Forall (fun e => ops_ok e -> WFfull (paren_all e)) es -> Forall ops_ok es ->
  Forall WFfull (map (fun a => grp (paren_all a)) es).
Proof.
  intros H1 H2. apply Forall_map. rewrite Forall_forall in *. intros x Hx.
  apply WF_level, WFk_grp. apply H1; [exact Hx|apply H2, Hx].
Qed.

Theorem paren_all_WF e : ops_ok e -> WFfull (paren_all e).
Proof.
  induction e using expr_ind'; intros OK; inv OK; cbn [paren_all].
  - apply WF_level, WF_lit.
  - apply WF_level, WF_id.
  - apply WF_level, WF_group. auto.
  - apply WF_level, WF_unary; [assumption|lia|apply WFk_grp; auto].
  - apply WF_level. eapply WF_binary; try eassumption; [lia|apply WFk_grp; auto|apply WFk_grp; auto].
  - apply WF_level. eapply WF_logical; try eassumption; [lia|apply WFk_grp; auto|apply WFk_grp; auto].
  - apply WF_assign. apply WF_level, WFk_grp. auto.
  - apply WF_arrassign; [apply WFk_grp; auto|apply WF_level, WFk_grp; auto|apply WF_level, WFk_grp; auto].
  - apply WF_propassign; [apply WFk_grp; auto|apply WF_level, WFk_grp; auto].
  - apply WF_level, WF_call; [apply WFk_grp; auto|apply Forall_grp; assumption].
  - apply WF_level, WF_index; [apply WFk_grp; auto|apply WF_level, WFk_grp; auto].
  - apply WF_level, WF_prop. apply WFk_grp; auto.
  - apply WF_level, WF_array. apply Forall_grp; assumption.
  - apply WF_level, WF_object.
    + rewrite map_map. erewrite map_ext; [eassumption|]. intros [k v]. reflexivity.
    + rewrite map_map.
      match goal with H : Forall _ (map snd ps), H' : Forall ops_ok (map snd ps) |- _ =>
        rewrite Forall_map in H, H'; rewrite Forall_forall in H, H' end.
      apply Forall_map. apply Forall_forall. intros [k v] Hin. cbn [snd].
      apply WF_level, WFk_grp.
      match goal with H : forall x, In x ps -> ops_ok (snd x) -> _ |- _ => apply (H (k, v) Hin) end.
      match goal with H' : forall x, In x ps -> ops_ok (snd x) |- _ => apply (H' (k, v) Hin) end.
Qed.

Lemma map_ext_Forall {A B} (f g : A -> B) (l : list A) : Forall (fun x => f x = g x) l -> map f l = map g l.
Proof. induction 1; cbn [map]; [reflexivity|]. f_equal; assumption. Qed.

Lemma map_kv_ext (f g : expr -> expr) (ps : list (list N * expr)) :
  Forall (fun v => f v = g v) (map snd ps) ->
  map (fun kv => let '(k, v) := kv in (k, f v)) ps = map (fun kv => let '(k, v) := kv in (k, g v)) ps.
Proof.
  intros H. rewrite Forall_map in H. apply map_ext_Forall. eapply Forall_impl; [|exact H].
  intros [k v] E. cbn [snd] in E. rewrite E. reflexivity.
Qed.

(** stripping the groups of [paren_all e] leaves [e] without the groups it had *)
Theorem strip_paren_all e : strip_groups (paren_all e) = strip_groups e.
Proof.
  induction e using expr_ind'; cbn [paren_all strip_groups grp]; try congruence.
  - f_equal; [assumption|]. rewrite map_map. apply map_ext_Forall. assumption.
  - f_equal. rewrite map_map. apply map_ext_Forall. assumption.
  - f_equal. rewrite map_map.
    match goal with |- map ?F ps = _ =>
      transitivity (map (fun kv => let '(k, v) := kv in (k, strip_groups (paren_all v))) ps) end.
    + apply map_ext. intros [k v]. reflexivity.
    + apply map_kv_ext. assumption.
Qed.

Corollary strip_paren_all_id e : strip_groups e = e -> strip_groups (paren_all e) = e.
Proof. intros H. rewrite strip_paren_all. exact H. Qed.

Lemma strip_erase e : strip_groups (erase_e e) = erase_e (strip_groups e).
Proof.
  induction e using expr_ind'; cbn [erase_e strip_groups]; try congruence.
  - f_equal; [assumption|]. rewrite !map_map. apply map_ext_Forall. assumption.
  - f_equal. rewrite !map_map. apply map_ext_Forall. assumption.
  - f_equal. rewrite !map_map.
    match goal with |- map ?F ps = map ?G ps =>
      transitivity (map (fun kv => let '(k, v) := kv in (k, strip_groups (erase_e v))) ps);
      [apply map_ext; intros [k v]; reflexivity|
       transitivity (map (fun kv => let '(k, v) := kv in (k, erase_e (strip_groups v))) ps);
       [apply map_kv_ext; assumption|apply map_ext; intros [k v]; reflexivity]] end.
Qed.

(** F. Writing any tree with all parentheses and parsing it gives the tree back
    (up to line numbers and the parentheses).  For a line-free, group-free [e] the
    right-hand side is [e] itself. *)
Theorem paren_roundtrip eofl e :
  ops_ok e ->
  forall pre r, map sym_of pre = flat_e (paren_all e) -> follow_ok r ->
  exists f e', pexpr eofl f (pre ++ r) = POk e' r [] /\ strip_groups (erase_e e') = erase_e (strip_groups e).
Proof.
  intros OK pre r Hpre Hf.
  destruct (pexpr_complete_gen eofl (paren_all e) (paren_all_WF e OK) pre r Hpre Hf) as (f & e' & H & Er).
  exists f, e'. split; [exact H|]. rewrite Er, strip_erase, strip_paren_all. reflexivity.
Qed.

Corollary paren_roundtrip_plain eofl e :
  ops_ok e -> erase_e e = e -> strip_groups e = e ->
  forall pre r, map sym_of pre = flat_e (paren_all e) -> follow_ok r ->
  exists f e', pexpr eofl f (pre ++ r) = POk e' r [] /\ strip_groups (erase_e e') = e.
Proof.
  intros OK E1 E2 pre r Hpre Hf. destruct (paren_roundtrip eofl e OK pre r Hpre Hf) as (f & e' & H & Er).
  exists f, e'. split; [exact H|]. rewrite Er, E2. exact E1.
Qed.

Print Assumptions paren_roundtrip.
