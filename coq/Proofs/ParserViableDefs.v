(** Viable prefixes, part 1: the predicate [Via] and its combinators.

    [Via ne C run f ts] (for a fuel-indexed family [run : nat -> list token -> pres A])
    describes what [run f] does on [ts]:

    - clean success [POk a r0 []] (clause [OKv]): it consumed a prefix [p]
      ([ts = p ++ r0]; [p <> []] when the flag [ne] is set); on [p] followed by
      any [u] that either starts with the same token as [r0] or satisfies the
      stop condition [C] of the function, with any fuel [>= f], it returns the
      same value and leaves [u];
    - a first diagnostic [d], fatal or lenient (clause [FDv]): it was issued
      after consuming some [pre], looking at the head of [rem]
      ([ts = pre ++ rem], [d = diag_at rem _]).  The position is exact ([NC]):
      [pre] followed by anything that starts like [rem] never parses cleanly.
      And, when [pre <> []], either
        + [pre] is still viable ([Viab]): there is a completion [w] (all its
          tokens on the end-of-input line) such that on [pre ++ w ++ u], for
          every [u] with [C u], the function succeeds without diagnostics and
          leaves [u]; or
        + the diagnostic is late ([Late]): [pre = a' ++ t0 :: b] where [a'] is
          viable, [a' ++ [t0]] is already hopeless ([NC]), and [t0] is either an
          [=] after a complete left side that is not assignable (the parser
          reports it only after reading the right side) or the comma after the
          255th parameter (reported at the 256th parameter).

    A function that fails at its very first token ([pre = []]) promises
    nothing; its caller supplies the completion through a "from nothing"
    witness ([FN], [FNw]). *)
From Borno Require Import Base Num Token Ast Parser.
From Borno Require Import ParserEqs ParserMono Grammar ParserSC_Base ParserPrefixDefs.
Open Scope nat_scope.

(** * Non-assignable left sides *)

Definition is_target (e : expr) : bool :=
  match e with EId _ _ | EIndex _ _ _ | EProp _ _ _ => true | _ => false end.

(** [a'] ends with the tokens of a complete level-0 tree that is not an
    identifier / index / property access *)
Definition LhsBad (a' : list token) : Prop :=
  exists a p l, a' = a ++ p /\ WFk 0 l /\ Yields l (map sym_of p) /\ is_target l = false.

Lemma LhsBad_app x a' : LhsBad a' -> LhsBad (x ++ a').
Proof.
  intros (a & p & l & -> & W & Y & T). exists (x ++ a), p, l. rewrite <- app_assoc. auto.
Qed.

Lemma is_target_erase e : is_target (erase_e e) = is_target e.
Proof. destruct e; reflexivity. Qed.

Lemma samehead_app_ne p (r r' : list token) : p <> [] -> samehead (p ++ r) (p ++ r').
Proof. destruct p; [congruence|]. intros _. reflexivity. Qed.

Section WithEof.
Variable eofl : N.
(** [lt]: are the late [PTooManyParams] diagnostics excepted (statement level) or
    excluded (expression level, where they cannot occur) *)
Variable lt : bool.
Notation diag_at := (Parser.diag_at eofl).
Notation peek_line := (Parser.peek_line eofl).
Notation consume := (Parser.consume eofl).
Notation consume_lenient := (Parser.consume_lenient eofl).
Notation perr_at := (Parser.perr_at eofl).

(** * Completion tokens: all on the end-of-input line *)

Definition online (l : list token) : Prop := Forall (fun t => tline t = eofl) l.
Definition mk (k : tkind) : token := mkTok k [] LNone eofl.
Definition idtok : token := mkTok TIDENTIFIER [120%N] LNone eofl.

Lemma online_nil : online [].
Proof. constructor. Qed.
Lemma online_app a b : online a -> online b -> online (a ++ b).
Proof. intros; apply Forall_app; auto. Qed.
Lemma online_mk k l : online l -> online (mk k :: l).
Proof. intros; constructor; auto. Qed.
Lemma online_id l : online l -> online (idtok :: l).
Proof. intros; constructor; auto. Qed.
Lemma online_app_r a b : online (a ++ b) -> online b.
Proof. intros H. apply Forall_app in H. apply H. Qed.
Lemma online_app_l a b : online (a ++ b) -> online a.
Proof. intros H. apply Forall_app in H. apply H. Qed.
Lemma online_peek l : online l -> peek_line l = eofl.
Proof. destruct l; simpl; [reflexivity|]. intros H. inversion H; auto. Qed.

(** * Stop conditions *)

Definition stopk (P : tkind -> bool) (u : list token) : Prop :=
  match u with [] => True | t :: _ => P (tk t) = true end.
Definition in_lv (lv : list (list tkind * bool)) (k : tkind) : bool :=
  existsb (fun l => kind_in k (fst l)) lv.
Definition post_stop (k : tkind) : bool :=
  match k with TLEFT_PAREN | TLEFT_BRACKET | TDOT => false | _ => true end.
Definition lv_stop lv (k : tkind) : bool := negb (in_lv lv k) && post_stop k.
Definition e_stop (k : tkind) : bool := lv_stop ladder k && negb (tkind_eqb k TEQUAL).
Definition a_stop (k : tkind) : bool := e_stop k && negb (tkind_eqb k TCOMMA).

Definition C_any (u : list token) : Prop := True.
Definition C_lv lv : list token -> Prop := stopk (lv_stop lv).
Definition C_post : list token -> Prop := stopk post_stop.
Definition C_e : list token -> Prop := stopk e_stop.
Definition C_args : list token -> Prop := stopk a_stop.
Definition C_head (k : tkind) (u : list token) : Prop :=
  match u with [] => False | t :: _ => tk t = k end.
Definition C_props (u : list token) : Prop :=
  match u with [] => True | t :: _ => tk t = TRIGHT_BRACE end.

Lemma stopk_sub (P Q : tkind -> bool) u : (forall k, P k = true -> Q k = true) -> stopk P u -> stopk Q u.
Proof. destruct u; simpl; auto. Qed.

Lemma C_lv_cons l lv u : C_lv (l :: lv) u -> C_lv lv u.
Proof.
  apply stopk_sub. intros k. unfold lv_stop. simpl.
  destruct (kind_in k (fst l)); simpl; [discriminate|auto].
Qed.
Lemma C_lv_nil u : C_post u -> C_lv [] u.
Proof. apply stopk_sub. intros k H. unfold lv_stop. simpl. exact H. Qed.
Lemma C_lv_post lv u : C_lv lv u -> C_post u.
Proof. apply stopk_sub. intros k. unfold lv_stop. intros H. apply andb_true_iff in H. apply H. Qed.
Lemma C_e_lv u : C_e u -> C_lv ladder u.
Proof. apply stopk_sub. intros k. unfold e_stop. intros H. apply andb_true_iff in H. apply H. Qed.
Lemma C_args_e u : C_args u -> C_e u.
Proof. apply stopk_sub. intros k. unfold a_stop. intros H. apply andb_true_iff in H. apply H. Qed.
Lemma C_e_post u : C_e u -> C_post u.
Proof. intros H. eapply C_lv_post, C_e_lv, H. Qed.
Lemma C_lv_head_out l lv t r : C_lv (l :: lv) (t :: r) -> kind_in (tk t) (fst l) = false.
Proof.
  unfold C_lv, stopk, lv_stop. simpl. destruct (kind_in (tk t) (fst l)); simpl; [discriminate|reflexivity].
Qed.
Lemma C_e_not_eq t r : C_e (t :: r) -> tkind_eqb (tk t) TEQUAL = false.
Proof.
  unfold C_e, stopk, e_stop. intros H. apply andb_true_iff in H. destruct H as (_ & H).
  destruct (tkind_eqb (tk t) TEQUAL); [discriminate|reflexivity].
Qed.
Lemma C_args_not_comma u : C_args u -> check TCOMMA u = false.
Proof.
  destruct u as [|t r]; [reflexivity|]. unfold C_args, stopk, a_stop. intros H.
  apply andb_true_iff in H. destruct H as (_ & H). simpl.
  destruct (tkind_eqb (tk t) TCOMMA); [discriminate|reflexivity].
Qed.
(** a token of a kind that stops an argument list does so *)
Lemma C_args_kind k u t : tk t = k -> a_stop k = true -> C_args (t :: u).
Proof. intros <- H. exact H. Qed.
Lemma C_e_kind k u t : tk t = k -> e_stop k = true -> C_e (t :: u).
Proof. intros <- H. exact H. Qed.
Lemma C_head_args k u : a_stop k = true -> C_head k u -> C_args u.
Proof. destruct u as [|t r]; simpl; [contradiction|]. intros H <-. exact H. Qed.
Lemma C_props_args u : C_props u -> C_args u.
Proof. destruct u as [|t r]; simpl; [auto|]. intros ->. reflexivity. Qed.
Lemma C_head_check k u : C_head k u -> check k u = true.
Proof. destruct u as [|t r]; simpl; [contradiction|]. intros <-. apply tkind_eqb_refl. Qed.

Lemma pb_ret0 {A B} (a : A) r (k : A -> list token -> pres B) : pbind (POk a r []) k = k a r.
Proof. simpl. destruct (k a r); reflexivity. Qed.

(** * The clauses *)

(** "with enough fuel [run] succeeds on [x] without diagnostics and leaves [u]" *)
Definition EvOk {A} (run : nat -> list token -> pres A) (x u : list token) : Prop :=
  exists g0 a, forall g, g0 <= g -> run g x = POk a u [].

Definition OKv {A} (ne : bool) (C : list token -> Prop) (run : nat -> list token -> pres A)
    (f : nat) (ts : list token) (a : A) (r0 : list token) : Prop :=
  exists p, ts = p ++ r0 /\ (ne = true -> p <> []) /\
    forall g u, f <= g -> samehead r0 u \/ C u -> run g (p ++ u) = POk a u [].

(** "no clean success": a diagnostic was issued, or the run is out of fuel *)
Definition notclean {A} (r : pres A) : Prop := match r with POk _ _ [] => False | _ => True end.

Lemma notclean_bind_l {A B} (r : pres A) (k : A -> list token -> pres B) : notclean r -> notclean (pbind r k).
Proof.
  destruct r as [a rest [|d ds]| ds|]; simpl; auto; try contradiction.
  intros _. destruct (k a rest); simpl; auto.
Qed.
Lemma notclean_bind_r {A B} (a : A) rest (k : A -> list token -> pres B) :
  notclean (k a rest) -> notclean (pbind (POk a rest []) k).
Proof. rewrite pb_ret0. auto. Qed.

(** the position is exact: [pre] followed by anything that starts like [rem]
    never parses cleanly *)
Definition NC {A} (run : nat -> list token -> pres A) (f : nat) (pre rem : list token) : Prop :=
  forall g rem', f <= g -> samehead rem rem' -> notclean (run g (pre ++ rem')).

(** [pre0] is viable *)
Definition Viab {A} (C : list token -> Prop) (run : nat -> list token -> pres A) (pre0 : list token) : Prop :=
  exists w, online w /\ forall u, C u -> EvOk run (pre0 ++ w ++ u) u.

(** the two late diagnostics *)
Definition LateK (t0 : token) (a' : list token) : Prop :=
  (tk t0 = TEQUAL /\ LhsBad a') \/ (lt = true /\ tk t0 = TCOMMA).
Definition Late {A} (C : list token -> Prop) (run : nat -> list token -> pres A) (f : nat) (pre : list token) : Prop :=
  exists a' t0 b, pre = a' ++ t0 :: b /\ LateK t0 a' /\ NC run f a' [t0] /\ (a' <> [] -> Viab C run a').

Definition FDv {A} (C : list token -> Prop) (run : nat -> list token -> pres A)
    (f : nat) (ts : list token) (d : pdiag) : Prop :=
  exists pre rem, ts = pre ++ rem /\ d = diag_at rem (pd_kind d) /\ NC run f pre rem /\
    (pre <> [] -> Late C run f pre \/ Viab C run pre).

Definition Via {A} (ne : bool) (C : list token -> Prop) (run : nat -> list token -> pres A)
    (f : nat) (ts : list token) : Prop :=
  match run f ts with
  | PFuel => True
  | POk a r0 [] => OKv ne C run f ts a r0
  | POk _ _ (d :: _) => FDv C run f ts d
  | PErr [] => False
  | PErr (d :: _) => FDv C run f ts d
  end.

(** completions from nothing *)
Definition FN {A} (C : list token -> Prop) (run : nat -> list token -> pres A) (w0 : list token) : Prop :=
  online w0 /\ forall u, C u -> EvOk run (w0 ++ u) u.
Definition FNw {A B} (C' C : list token -> Prop) (Y : nat -> A -> list token -> pres B) (w0 : list token) : Prop :=
  online w0 /\ forall u, C u -> C' (w0 ++ u) /\ forall a, EvOk (fun g => Y g a) (w0 ++ u) u.

Lemma LateK_app x t0 a' : LateK t0 a' -> LateK t0 (x ++ a').
Proof. intros [(K & L)|H]; [left; split; [exact K|apply LhsBad_app, L]|right; exact H]. Qed.

Section Clauses.
Context {A : Type}.
Implicit Types run : nat -> list token -> pres A.

Lemma EvOk_ext run run' x u : (forall g, run g x = run' g x) -> EvOk run' x u -> EvOk run x u.
Proof. intros E (g0 & a & H). exists g0, a. intros g Hg. rewrite E. auto. Qed.

(** ** Transport of the three ingredients

    [P] is the set of inputs on which the two runs are known to agree (with fuel
    [>= f]): everything, or the lists with the same head as the input. *)

Lemma NC_ext (P : list token -> Prop) run run' f pre rem :
  (forall g y, f <= g -> P y -> run g y = run' g y) -> (forall rem', samehead rem rem' -> P (pre ++ rem')) ->
  NC run' f pre rem -> NC run f pre rem.
Proof. intros E HP N g rem' Hg S. rewrite E; [apply N; auto|exact Hg|apply HP, S]. Qed.

Lemma Viab_ext (P : list token -> Prop) C run run' f pre0 :
  (forall g y, f <= g -> P y -> run g y = run' g y) -> (forall x, P (pre0 ++ x)) ->
  Viab C run' pre0 -> Viab C run pre0.
Proof.
  intros E HP (w & O & Hc). exists w. split; [exact O|]. intros u Cu.
  destruct (Hc u Cu) as (g0 & a & R). exists (max g0 f), a. intros g Hg.
  rewrite E; [apply R; lia|lia|apply HP].
Qed.

Lemma Late_ext (P : list token -> Prop) C run run' f pre :
  (forall g y, f <= g -> P y -> run g y = run' g y) ->
  (forall x y, x <> [] -> (exists b, pre = x ++ b) -> P (x ++ y)) ->
  Late C run' f pre -> Late C run f pre.
Proof.
  intros E HP (a' & t0 & b & Ep & K & N & V). exists a', t0, b.
  split; [exact Ep|]. split; [exact K|]. split.
  - eapply NC_ext; [exact E| |exact N]. intros rem' S. same_head S.
    replace (a' ++ t0 :: r2) with ((a' ++ [t0]) ++ r2) by (rewrite <- app_assoc; reflexivity).
    apply HP; [destruct a'; discriminate|]. exists b. rewrite Ep, <- app_assoc. reflexivity.
  - intros Hne. eapply Viab_ext; [exact E| |exact (V Hne)]. intros x. apply HP; [exact Hne|].
    exists (t0 :: b). exact Ep.
Qed.

Lemma FDv_ext (P : list token -> Prop) C run run' f ts d :
  (forall g y, f <= g -> P y -> run g y = run' g y) ->
  (forall y, samehead ts y -> P y) ->
  FDv C run' f ts d -> FDv C run f ts d.
Proof.
  intros E HP (pre & rem & Ets & Ed & N & H). exists pre, rem. split; [exact Ets|]. split; [exact Ed|].
  split.
  { eapply NC_ext; [exact E| |exact N]. intros rem' S. apply HP. subst ts. apply samehead_app, S. }
  intros Hne. destruct (H Hne) as [L|V]; [left|right].
  - eapply Late_ext; [exact E| |exact L]. intros a' x Hna (b & Ep). apply HP. subst ts pre.
    rewrite <- app_assoc. apply samehead_app_ne, Hna.
  - eapply Viab_ext; [exact E| |exact V]. intros x. apply HP. subst ts. apply samehead_app_ne, Hne.
Qed.

Lemma NC_cons run run' f t pre rem :
  (forall g x, run g (t :: x) = run' g x) -> NC run' f pre rem -> NC run f (t :: pre) rem.
Proof. intros E N g rem' Hg S. rewrite <- app_comm_cons, E. apply N; auto. Qed.
Lemma Viab_cons C run run' t pre0 :
  (forall g x, run g (t :: x) = run' g x) -> Viab C run' pre0 -> Viab C run (t :: pre0).
Proof.
  intros E (w & O & Hc). exists w. split; [exact O|]. intros u Cu. destruct (Hc u Cu) as (g0 & a & R).
  exists g0, a. intros g Hg. rewrite <- app_comm_cons, E. apply R, Hg.
Qed.
Lemma Late_cons C run run' f t pre :
  (forall g x, run g (t :: x) = run' g x) -> Viab C run [t] -> Late C run' f pre -> Late C run f (t :: pre).
Proof.
  intros E V0 (a' & t0 & b & -> & K & N & V). exists (t :: a'), t0, b.
  split; [reflexivity|]. split; [apply (LateK_app [t]), K|].
  split; [eapply NC_cons; eauto|]. intros _. destruct a' as [|t1 a1]; [exact V0|].
  eapply Viab_cons; [exact E|]. apply V. discriminate.
Qed.

Lemma NC_shift run f pre rem : NC (fun g => run (S g)) f pre rem -> NC run (S f) pre rem.
Proof. intros N g rem' Hg S0. destruct g as [|g']; [lia|]. apply N; [lia|exact S0]. Qed.
Lemma Viab_shift C run pre0 : Viab C (fun g => run (S g)) pre0 -> Viab C run pre0.
Proof.
  intros (w & O & Hc). exists w. split; [exact O|]. intros u Cu. destruct (Hc u Cu) as (g0 & a & R).
  exists (S g0), a. intros g Hg. destruct g as [|g']; [lia|]. apply R. lia.
Qed.
Lemma Late_shift C run f pre : Late C (fun g => run (S g)) f pre -> Late C run (S f) pre.
Proof.
  intros (a' & t0 & b & Ep & K & N & V). exists a', t0, b.
  split; [exact Ep|]. split; [exact K|]. split; [apply NC_shift, N|intros Hne; apply Viab_shift, V, Hne].
Qed.

Lemma Viab_sub (C C2 : list token -> Prop) run pre0 : (forall u, C2 u -> C u) -> Viab C run pre0 -> Viab C2 run pre0.
Proof. intros S (w & O & Hc). exists w. split; auto. Qed.
Lemma Late_sub (C C2 : list token -> Prop) run f pre : (forall u, C2 u -> C u) -> Late C run f pre -> Late C2 run f pre.
Proof.
  intros S (a' & t0 & b & Ep & K & N & V). exists a', t0, b.
  split; [exact Ep|]. split; [exact K|]. split; [exact N|intros Hne; eapply Viab_sub; eauto].
Qed.

(** ** The combinators *)

Lemma Via_fuel ne C run f ts : run f ts = PFuel -> Via ne C run f ts.
Proof. intros E. unfold Via. rewrite E. exact I. Qed.

Lemma OKv_weaken ne C run f ts a r0 : OKv true C run f ts a r0 -> OKv ne C run f ts a r0.
Proof. intros (p & E & Hne & R). exists p. split; [auto|]. split; [auto|]. exact R. Qed.
Lemma Via_weaken ne C run f ts : Via true C run f ts -> Via ne C run f ts.
Proof.
  unfold Via. destruct (run f ts) as [a r0 [|d ds]| [|d ds]|]; auto. apply OKv_weaken.
Qed.

Lemma FDv_sub (C C2 : list token -> Prop) run f ts d : (forall u, C2 u -> C u) -> FDv C run f ts d -> FDv C2 run f ts d.
Proof.
  intros S (pre & rem & E & Ed & N & H). exists pre, rem. split; [auto|]. split; [auto|]. split; [exact N|].
  intros Hne. destruct (H Hne) as [L|V]; [left; eapply Late_sub; eauto|right; eapply Viab_sub; eauto].
Qed.
Lemma Via_sub ne (C C2 : list token -> Prop) run f ts : (forall u, C2 u -> C u) -> Via ne C run f ts -> Via ne C2 run f ts.
Proof.
  intros S. unfold Via. destruct (run f ts) as [a r0 [|d ds]| [|d ds]|]; auto; try apply FDv_sub; auto.
  intros (p & E & Hne & R). exists p. split; [auto|]. split; [auto|].
  intros g u Hg [H|H]; apply R; auto.
Qed.

Lemma Via_ext_all ne C run run' f ts :
  (forall g y, run g y = run' g y) -> Via ne C run' f ts -> Via ne C run f ts.
Proof.
  intros E. unfold Via. rewrite E.
  assert (FD : forall d, FDv C run' f ts d -> FDv C run f ts d).
  { intros d. apply (FDv_ext (fun _ => True)); auto. }
  destruct (run' f ts) as [a r0 [|d ds]| [|d ds]|]; auto.
  intros (p & Ets & Hne & R). exists p. split; [auto|]. split; [auto|]. intros. rewrite E. auto.
Qed.

(** the two runs agree on lists with the same head: enough when at least one
    token is consumed *)
Lemma Via_ext_head C run run' f ts :
  (forall g y, f <= g -> samehead ts y -> run g y = run' g y) -> Via true C run' f ts -> Via true C run f ts.
Proof.
  intros E. unfold Via. rewrite (E f ts (le_n _) (samehead_refl _)).
  assert (FD : forall d, FDv C run' f ts d -> FDv C run f ts d).
  { intros d. apply (FDv_ext (fun y => samehead ts y)); auto. }
  destruct (run' f ts) as [a r0 [|d ds]| [|d ds]|]; auto.
  intros (p & Ets & Hne & R). exists p. split; [auto|]. split; [auto|]. intros g u Hg Hu.
  rewrite E; auto. subst ts. apply samehead_app_ne. auto.
Qed.

(** ** Consuming one token *)

Lemma Via_cons ne' C run run' f t r w0 :
  (forall g x, run g (t :: x) = run' g x) -> FN C run' w0 -> Via ne' C run' f r -> Via true C run f (t :: r).
Proof.
  intros E (O0 & H0). unfold Via. rewrite E.
  assert (FD : forall d, FDv C run' f r d -> FDv C run f (t :: r) d).
  { intros d (pre & rem & Ets & Ed & N & H). exists (t :: pre), rem. split; [subst r; reflexivity|]. split; [auto|].
    split; [eapply NC_cons; eauto|].
    assert (V0 : Viab C run [t]).
    { exists w0. split; auto. intros u Cu. destruct (H0 u Cu) as (g0 & a & R).
      exists g0, a. intros g Hg. cbn [app]. rewrite E. apply R; auto. }
    intros _. destruct pre as [|t' pre']; [right; exact V0|].
    destruct (H ltac:(discriminate)) as [L|V]; [left; eapply Late_cons; eauto|right; eapply Viab_cons; eauto]. }
  destruct (run' f r) as [a r0 [|d ds]| [|d ds]|]; auto.
  intros (p & Ets & _ & R). exists (t :: p). split; [subst r; reflexivity|]. split; [discriminate|].
  intros g u Hg Hu. rewrite <- app_comm_cons. rewrite E. auto.
Qed.

(** ** Stopping after a peek at the head *)

Lemma Via_stop_ok C run (a : A) f ts :
  (forall g y, samehead ts y \/ C y -> run g y = POk a y []) -> Via false C run f ts.
Proof.
  intros E. unfold Via. rewrite (E f ts (or_introl (samehead_refl _))).
  exists []. split; [reflexivity|]. split; [discriminate|]. intros g u _ Hu. apply E. exact Hu.
Qed.

Lemma Via_ret ne (C : list token -> Prop) (a : A) f ts : ne = false -> Via ne C (fun _ x => POk a x []) f ts.
Proof. intros ->. apply (Via_stop_ok _ _ a). reflexivity. Qed.

(** a fatal diagnostic at the first token, decided by that token *)
Lemma Via_fail_now ne C run f ts (k : pkind) :
  (forall g y, samehead ts y -> run g y = PErr [diag_at y k]) -> Via ne C run f ts.
Proof.
  intros E. unfold Via. rewrite (E f ts (samehead_refl _)). exists [], ts. split; [reflexivity|].
  split; [rewrite pd_kind_diag_at; reflexivity|]. split; [|congruence].
  intros g rem' _ S. cbn [app]. rewrite (E g rem' S). exact I.
Qed.
(** the same for a lenient one *)
Lemma Via_len_now ne C run f ts (a : A) (k : pkind) :
  (forall g y, samehead ts y -> run g y = POk a y [diag_at y k]) -> Via ne C run f ts.
Proof.
  intros E. unfold Via. rewrite (E f ts (samehead_refl _)). exists [], ts. split; [reflexivity|].
  split; [rewrite pd_kind_diag_at; reflexivity|]. split; [|congruence].
  intros g rem' _ S. cbn [app]. rewrite (E g rem' S). exact I.
Qed.

(** ** The fuel index *)

Lemma Via_shift ne C run f ts : Via ne C (fun g => run (S g)) f ts -> Via ne C run (S f) ts.
Proof.
  unfold Via.
  assert (FD : forall d, FDv C (fun g => run (S g)) f ts d -> FDv C run (S f) ts d).
  { intros d (pre & rem & Ets & Ed & N & H). exists pre, rem. split; [auto|]. split; [auto|].
    split; [apply NC_shift, N|].
    intros Hne. destruct (H Hne) as [L|V]; [left; apply Late_shift, L|right; apply Viab_shift, V]. }
  destruct (run (S f) ts) as [a r0 [|d ds]| [|d ds]|]; auto.
  intros (p & Ets & Hne & R). exists p. split; [auto|]. split; [auto|].
  intros g u Hg Hu. destruct g as [|g']; [lia|]. apply R; auto. lia.
Qed.

Lemma FN_shift C run w0 : FN C (fun g => run (S g)) w0 -> FN C run w0.
Proof.
  intros (O & H). split; auto. intros u Cu. destruct (H u Cu) as (g0 & a & R).
  exists (S g0), a. intros g Hg. destruct g as [|g']; [lia|]. apply R. lia.
Qed.
Lemma FN_ext C run run' w0 : (forall g y, run g y = run' g y) -> FN C run' w0 -> FN C run w0.
Proof. intros E (O & H). split; auto. intros u Cu. eapply EvOk_ext; [|apply H; auto]. intros; apply E. Qed.
Lemma FN_cons C run run' t w0 :
  tline t = eofl -> (forall g x, run g (t :: x) = run' g x) -> FN C run' w0 -> FN C run (t :: w0).
Proof.
  intros Lt E (O & H). split; [constructor; auto|]. intros u Cu. destruct (H u Cu) as (g0 & a & R).
  exists g0, a. intros g Hg. rewrite <- app_comm_cons. rewrite E. auto.
Qed.
Lemma FN_ret (C : list token -> Prop) (a : A) : FN C (fun _ x => POk a x []) [].
Proof. split; [constructor|]. intros u _. exists 0, a. reflexivity. Qed.
Lemma FN_sub (C C2 : list token -> Prop) run w0 : (forall u, C2 u -> C u) -> FN C run w0 -> FN C2 run w0.
Proof. intros S (O & H). split; auto. Qed.

End Clauses.

(** ** Sequencing *)

Lemma FN_bind {A B} (C' C : list token -> Prop) (X : nat -> list token -> pres A) (Y : nat -> A -> list token -> pres B) w1 w2 :
  FN C' X w1 -> FNw C' C Y w2 -> FN C (fun g x => pbind (X g x) (Y g)) (w1 ++ w2).
Proof.
  intros (O1 & H1) (O2 & H2). split; [apply online_app; auto|].
  intros u Cu. destruct (H2 u Cu) as (C'u & HY).
  destruct (H1 _ C'u) as (g1 & a & R1). destruct (HY a) as (g2 & b & R2).
  exists (max g1 g2), b. intros g Hg. rewrite <- app_assoc.
  rewrite R1 by lia. simpl. rewrite R2 by lia. reflexivity.
Qed.

Lemma FNw_bind {A B D} (C' Cm C : list token -> Prop) (Y1 : nat -> A -> list token -> pres B)
    (Y2 : A -> nat -> B -> list token -> pres D) w1 w2 :
  FNw C' Cm Y1 w1 -> online w2 -> (forall u, C u -> Cm (w2 ++ u)) ->
  (forall a b u, C u -> EvOk (fun g => Y2 a g b) (w2 ++ u) u) ->
  FNw C' C (fun g a x => pbind (Y1 g a x) (Y2 a g)) (w1 ++ w2).
Proof.
  intros (O1 & H1) O2 HC H2. split; [apply online_app; auto|].
  intros u Cu. rewrite <- app_assoc. destruct (H1 _ (HC u Cu)) as (C'u & HY). split; [exact C'u|].
  intros a. destruct (HY a) as (g1 & b & R1). destruct (H2 a b u Cu) as (g2 & d & R2).
  exists (max g1 g2), d. intros g Hg. rewrite R1 by lia. simpl. rewrite R2 by lia. reflexivity.
Qed.

Lemma FNw_ret {A B} (C : list token -> Prop) (k : A -> B) : FNw C C (fun _ a x => POk (k a) x []) [].
Proof.
  split; [constructor|]. intros u Cu. split; [exact Cu|]. intros a. exists 0, (k a). reflexivity.
Qed.

Lemma FNw_sub {A B} (C' C C2' C2 : list token -> Prop) (Y : nat -> A -> list token -> pres B) w0 :
  (forall u, C2 u -> C u) -> (forall u, C' u -> C2' u) -> FNw C' C Y w0 -> FNw C2' C2 Y w0.
Proof.
  intros S1 S2 (O & H). split; auto. intros u Cu. destruct (H u (S1 u Cu)) as (H1 & H2). auto.
Qed.

(** [consume k] followed by [Z]; the completion supplies the token [t0] *)
Lemma FNw_consume {A B} (C' C : list token -> Prop) k pk (Z : A -> nat -> token -> list token -> pres B) t0 w2 :
  tk t0 = k -> tline t0 = eofl -> online w2 -> (forall u, C u -> C' (t0 :: w2 ++ u)) ->
  (forall a t u, C u -> EvOk (fun g => Z a g t) (w2 ++ u) u) ->
  FNw C' C (fun g a x => pbind (consume k pk x) (Z a g)) (t0 :: w2).
Proof.
  intros K0 L0 O2 HC HZ. split; [constructor; auto|]. intros u Cu. split; [apply HC; auto|].
  intros a. destruct (HZ a t0 u Cu) as (g0 & b & R). exists g0, b. intros g Hg.
  cbn [app]. unfold Parser.consume. rewrite K0, tkind_eqb_refl. simpl. rewrite R by lia. reflexivity.
Qed.

Lemma pb_ret {A B} (a : A) r (k : A -> list token -> pres B) : pbind (POk a r []) k = k a r.
Proof. apply pb_ret0. Qed.

(** transport through a sequence: the first parser has the diagnostic ... *)
Lemma NC_bind_l {A B} (X : nat -> list token -> pres A) (Y : nat -> A -> list token -> pres B) f pre rem :
  NC X f pre rem -> NC (fun g x => pbind (X g x) (Y g)) f pre rem.
Proof. intros N g rem' Hg S. apply notclean_bind_l, N; auto. Qed.
Lemma Viab_bind_l {A B} (C' C : list token -> Prop) (X : nat -> list token -> pres A) (Y : nat -> A -> list token -> pres B) pre0 w0 :
  FNw C' C Y w0 -> Viab C' X pre0 -> Viab C (fun g x => pbind (X g x) (Y g)) pre0.
Proof.
  intros (O0 & H0) (w & O & Hc). exists (w ++ w0). split; [apply online_app; auto|].
  intros u Cu. destruct (H0 u Cu) as (C'u & HY).
  destruct (Hc _ C'u) as (g1 & a & R1). destruct (HY a) as (g2 & b & R2).
  exists (max g1 g2), b. intros g Hg. rewrite <- app_assoc.
  rewrite R1 by lia. simpl. rewrite R2 by lia. reflexivity.
Qed.
Lemma Late_bind_l {A B} (C' C : list token -> Prop) (X : nat -> list token -> pres A) (Y : nat -> A -> list token -> pres B) f pre w0 :
  FNw C' C Y w0 -> Late C' X f pre -> Late C (fun g x => pbind (X g x) (Y g)) f pre.
Proof.
  intros FY (a' & t0 & b & Ep & K & N & V). exists a', t0, b.
  split; [exact Ep|]. split; [exact K|].
  split; [apply NC_bind_l, N|intros Hne; eapply Viab_bind_l; eauto].
Qed.

(** ... or the first parser succeeded cleanly (on [p1], replaceably) and the second has it *)
Section BindR.
Context {A B : Type}.
Variables (C' C : list token -> Prop) (X : nat -> list token -> pres A) (Y : nat -> A -> list token -> pres B).
Variables (f : nat) (p1 r1 : list token) (a : A).
Hypothesis R1 : forall g u, f <= g -> samehead r1 u \/ C' u -> X g (p1 ++ u) = POk a u [].

Lemma NC_bind_r pre2 rem x : r1 = pre2 ++ x -> (pre2 = [] -> forall rem', samehead rem rem' -> samehead x rem') ->
  NC (fun g => Y g a) f pre2 rem -> NC (fun g x => pbind (X g x) (Y g)) f (p1 ++ pre2) rem.
Proof.
  intros Er Hx N g rem' Hg S. rewrite <- app_assoc.
  rewrite R1; [apply notclean_bind_r, N; auto|exact Hg|]. left. subst r1.
  destruct pre2 as [|t2 pre2']; [apply (Hx eq_refl), S|reflexivity].
Qed.
Lemma Viab_bind_r pre2 x : r1 = pre2 ++ x -> pre2 <> [] ->
  Viab C (fun g => Y g a) pre2 -> Viab C (fun g x => pbind (X g x) (Y g)) (p1 ++ pre2).
Proof.
  intros Er Hne (w & O & Hc). exists w. split; [exact O|]. intros u Cu. destruct (Hc u Cu) as (g2 & b & R2).
  exists (max f g2), b. intros g Hg. rewrite <- app_assoc.
  rewrite R1; [|lia|left; subst r1; apply samehead_app_ne, Hne]. simpl. rewrite R2 by lia. reflexivity.
Qed.
Lemma Late_bind_r pre2 x : r1 = pre2 ++ x -> (p1 <> [] -> Viab C (fun g x => pbind (X g x) (Y g)) p1) ->
  Late C (fun g => Y g a) f pre2 -> Late C (fun g x => pbind (X g x) (Y g)) f (p1 ++ pre2).
Proof.
  intros Er V1 (a' & t0 & b & -> & K & N & V). exists (p1 ++ a'), t0, b.
  split; [rewrite <- app_assoc; reflexivity|].
  split; [apply LateK_app, K|].
  rewrite <- app_assoc in Er. split.
  - eapply NC_bind_r; [exact Er| |exact N]. intros _ rem' S. same_head S. reflexivity.
  - intros Hne. destruct a' as [|t1 a1].
    + rewrite app_nil_r in *. apply V1, Hne.
    + eapply Viab_bind_r; [exact Er|discriminate|apply V; discriminate].
Qed.
End BindR.

Lemma Via_bind {A B} neX neY (C' C : list token -> Prop) (X : nat -> list token -> pres A) (Y : nat -> A -> list token -> pres B) f ts w0 :
  Via neX C' X f ts ->
  (forall a r1, X f ts = POk a r1 [] -> (exists p, ts = p ++ r1) -> Via neY C (fun g => Y g a) f r1) ->
  (neY = true \/ forall u, C u -> C' u) ->
  FNw C' C Y w0 ->
  Via (neX || neY) C (fun g x => pbind (X g x) (Y g)) f ts.
Proof.
  intros VX VY Sub FY.
  (* a first diagnostic of [X] is the first diagnostic of the sequence *)
  assert (FDl : forall d, FDv C' X f ts d -> FDv C (fun g x => pbind (X g x) (Y g)) f ts d).
  { intros d (pre & rem & Ets & Ed & N & H). exists pre, rem. split; [auto|]. split; [auto|].
    split; [apply NC_bind_l, N|].
    intros Hne. destruct (H Hne) as [L|V]; [left; eapply Late_bind_l; eauto|right; eapply Viab_bind_l; eauto]. }
  unfold Via in VX |- *. destruct (X f ts) as [a r1 [|d1 ds1]| [|d1 ds1]|] eqn:EX; simpl; auto.
  - (* X clean *)
    destruct VX as (p1 & Ets & Hne1 & R1).
    specialize (VY a r1 eq_refl (ex_intro _ p1 Ets)). unfold Via in VY.
    assert (FDr : forall d, FDv C (fun g => Y g a) f r1 d -> FDv C (fun g x => pbind (X g x) (Y g)) f ts d).
    { intros d (pre2 & rem & Er1 & Ed & N & H). exists (p1 ++ pre2), rem.
      split; [subst ts r1; rewrite app_assoc; reflexivity|]. split; [auto|].
      split; [eapply (NC_bind_r C' X Y f p1 r1 a R1); [exact Er1|intros _ rem' S; exact S|exact N]|].
      (* complete [Y] from nothing after [p1] *)
      assert (V1 : Viab C (fun g x => pbind (X g x) (Y g)) p1).
      { destruct FY as (O0 & H0). exists w0. split; auto.
        intros u Cu. destruct (H0 u Cu) as (C'u & HY). destruct (HY a) as (g2 & b & R2).
        exists (max f g2), b. intros g Hg.
        rewrite R1; [|lia|right; exact C'u]. simpl. rewrite R2 by lia. reflexivity. }
      intros Hne. destruct pre2 as [|t2 pre2'].
      - rewrite app_nil_r in *. right. exact V1.
      - destruct (H ltac:(discriminate)) as [L|V]; [left|right].
        + eapply (Late_bind_r C' C X Y f p1 r1 a R1); [exact Er1|intros _; exact V1|exact L].
        + eapply (Viab_bind_r C' C X Y f p1 r1 a R1); [exact Er1|discriminate|exact V]. }
    destruct (Y f a r1) as [b r [|d2 ds2]| [|d2 ds2]|] eqn:EY; simpl; auto.
    destruct VY as (p2 & Er1 & Hne2 & R2). exists (p1 ++ p2).
    split; [subst ts r1; rewrite app_assoc; reflexivity|]. split.
    { intros Hne. apply orb_true_iff in Hne. intros E0. apply app_eq_nil in E0. destruct E0 as (E1 & E2).
      destruct Hne as [Hn|Hn]; [apply (Hne1 Hn E1)|apply (Hne2 Hn E2)]. }
    intros g u Hg Hu. rewrite <- app_assoc. rewrite R1; [simpl; rewrite (R2 g u Hg Hu); reflexivity|exact Hg|].
    destruct p2 as [|t2 p2'].
    + simpl in Er1 |- *. subst r1. destruct Hu as [Hu|Hu]; [left; exact Hu|].
      destruct Sub as [Sub|Sub]; [exfalso; apply (Hne2 Sub); reflexivity|right; apply Sub, Hu].
    + left. subst r1. reflexivity.
  - destruct (Y f a r1) as [b r ds2| ds2|]; simpl; auto.
Qed.

(** ** The primitive parsers *)

Lemma Via_consume (C : list token -> Prop) k pk f ts : Via true C (fun _ x => consume k pk x) f ts.
Proof.
  destruct ts as [|t r].
  - apply (Via_fail_now _ _ _ _ _ pk). intros g y S. same_head S. reflexivity.
  - destruct (tkind_eqb (tk t) k) eqn:E.
    + apply (Via_cons false C _ (fun _ x => POk t x []) f t r []).
      * intros g x. unfold Parser.consume. rewrite E. reflexivity.
      * apply FN_ret.
      * apply Via_ret. reflexivity.
    + apply (Via_fail_now _ _ _ _ _ pk). intros g y S. same_head S. unfold Parser.consume. rewrite E. reflexivity.
Qed.

(** [consume_lenient] followed by a return *)
Lemma Via_lenient {A} (C : list token -> Prop) (a : A) k pk f ts :
  Via true C (fun _ x => let '(r2, ds) := consume_lenient k pk x in POk a r2 ds) f ts.
Proof.
  destruct ts as [|t r].
  - apply (Via_len_now _ _ _ _ _ a pk). intros g y S. same_head S. reflexivity.
  - destruct (tkind_eqb (tk t) k) eqn:E.
    + apply (Via_cons false C _ (fun _ x => POk a x []) f t r []).
      * intros g x. unfold Parser.consume_lenient. rewrite E. reflexivity.
      * apply FN_ret.
      * apply Via_ret. reflexivity.
    + apply (Via_len_now _ _ _ _ _ a pk). intros g y S. same_head S. unfold Parser.consume_lenient. rewrite E. reflexivity.
Qed.

(** the comma that admits no further parameter: whatever follows it is rejected *)
Lemma Via_late_now {A} ne (C : list token -> Prop) (run : nat -> list token -> pres A) f t0 r :
  lt = true -> tk t0 = TCOMMA ->
  (forall g y, f <= g -> run g (t0 :: y) = PErr [diag_at y PTooManyParams]) -> Via ne C run f (t0 :: r).
Proof.
  intros Hl K E. unfold Via. rewrite (E f r (le_n _)). exists [t0], r. split; [reflexivity|].
  split; [rewrite pd_kind_diag_at; reflexivity|]. split.
  - intros g rem' Hg _. cbn [app]. rewrite (E g rem' Hg). exact I.
  - intros _. left. exists [], t0, []. split; [reflexivity|]. split; [right; auto|]. split; [|congruence].
    intros g rem' Hg S. same_head S. cbn [app]. rewrite (E g r2 Hg). exact I.
Qed.

(** a parser followed by a pure function of its value *)
Lemma Via_map {A B} ne (C : list token -> Prop) (X : nat -> list token -> pres A) (k : A -> B) f ts :
  Via ne C X f ts -> Via ne C (fun g x => pbind (X g x) (fun a r => POk (k a) r [])) f ts.
Proof.
  intros V. rewrite <- (orb_false_r ne).
  apply (Via_bind ne false C C X (fun _ a r => POk (k a) r []) f ts []).
  - exact V.
  - intros a r1 _ _. apply Via_ret. reflexivity.
  - right. auto.
  - apply (FNw_ret C k).
Qed.
Lemma FN_map {A B} (C : list token -> Prop) (X : nat -> list token -> pres A) (k : A -> B) w0 :
  FN C X w0 -> FN C (fun g x => pbind (X g x) (fun a r => POk (k a) r [])) w0.
Proof.
  intros H. rewrite <- (app_nil_r w0).
  apply (FN_bind C C X (fun _ a r => POk (k a) r []) w0 []); [exact H|apply (FNw_ret C k)].
Qed.

(** ** Bracketed constructs: [X], then the closer, then [Z] *)

Lemma via_then_close {A B} neX (C' C : list token -> Prop) (X : nat -> list token -> pres A) close pk
    (Z : A -> nat -> token -> list token -> pres B) f r wX :
  Via neX C' X f r -> FN C' X wX -> (forall u, C' (mk close :: u)) ->
  (forall a paren r2, Via false C (fun g => Z a g paren) f r2) ->
  (forall a t u, C u -> EvOk (fun g => Z a g t) u u) ->
  Via true C (fun g x => pbind (X g x) (fun a r1 => pbind (consume close pk r1) (Z a g))) f r /\
  FN C (fun g x => pbind (X g x) (fun a r1 => pbind (consume close pk r1) (Z a g))) (wX ++ [mk close]).
Proof.
  intros VX FX Hcl VZ HZ.
  assert (FY : FNw C' C (fun g a r1 => pbind (consume close pk r1) (Z a g)) [mk close]).
  { apply (FNw_consume C' C close pk Z (mk close) []); try reflexivity; [constructor| |].
    - intros u _. apply Hcl.
    - intros a t u Cu. apply HZ, Cu. }
  split.
  - rewrite <- (orb_true_r neX).
    apply (Via_bind neX true C' C X (fun g a r1 => pbind (consume close pk r1) (Z a g)) f r [mk close]).
    + exact VX.
    + intros a r1 _ _.
      apply (Via_bind true false C_any C (fun _ x => consume close pk x) (fun g => Z a g) f r1 []).
      * apply Via_consume.
      * intros paren r2 _ _. apply VZ.
      * right. intros; exact I.
      * split; [constructor|]. intros u Cu. split; [exact I|]. intros t. apply HZ, Cu.
    + left. reflexivity.
    + exact FY.
  - apply (FN_bind C' C X (fun g a r1 => pbind (consume close pk r1) (Z a g)) wX [mk close]); assumption.
Qed.


(** ** A few more "from nothing" facts *)

Lemma FNw_of_FN {A B} (C' C : list token -> Prop) (Y : nat -> A -> list token -> pres B) w0 :
  online w0 -> (forall a, FN C (fun g => Y g a) w0) -> (forall u, C u -> C' (w0 ++ u)) -> FNw C' C Y w0.
Proof.
  intros O HF HC. split; [exact O|]. intros u Cu. split; [apply HC, Cu|]. intros a. apply (HF a), Cu.
Qed.

Lemma FN_tok {B} (C : list token -> Prop) k pk (Z : nat -> token -> list token -> pres B) t0 wZ :
  tk t0 = k -> tline t0 = eofl -> online wZ -> (forall t, FN C (fun g => Z g t) wZ) ->
  FN C (fun g x => pbind (consume k pk x) (Z g)) (t0 :: wZ).
Proof.
  intros K0 L0 O HZ. split; [constructor; auto|]. intros u Cu.
  destruct (HZ t0) as (_ & H). destruct (H u Cu) as (g0 & b & R). exists g0, b. intros g Hg.
  cbn [app]. unfold Parser.consume. rewrite K0, tkind_eqb_refl, pb_ret. apply R, Hg.
Qed.

(** * The one-line variant: [ViaL] = [Via] for token lists on the end-of-input line *)

Definition ViaL {A} (ne : bool) (C : list token -> Prop) (run : nat -> list token -> pres A) (f : nat) (ts : list token) : Prop :=
  online ts -> Via ne C run f ts.

Lemma ViaL_of {A} ne C (run : nat -> list token -> pres A) f ts : Via ne C run f ts -> ViaL ne C run f ts.
Proof. intros V _. exact V. Qed.

Lemma ViaL_bind {A B} neX neY (C' C : list token -> Prop) (X : nat -> list token -> pres A) (Y : nat -> A -> list token -> pres B) f ts w0 :
  ViaL neX C' X f ts ->
  (forall a r1, ViaL neY C (fun g => Y g a) f r1) ->
  (neY = true \/ forall u, C u -> C' u) ->
  FNw C' C Y w0 ->
  ViaL (neX || neY) C (fun g x => pbind (X g x) (Y g)) f ts.
Proof.
  intros VX VY Sub FY O. apply (Via_bind neX neY C' C X Y f ts w0); auto.
  intros a r1 _ (p & E). apply VY. subst ts. eapply online_app_r, O.
Qed.

Lemma ViaL_cons {A} ne' (C : list token -> Prop) (run run' : nat -> list token -> pres A) f t r w0 :
  (forall g x, run g (t :: x) = run' g x) -> FN C run' w0 -> ViaL ne' C run' f r -> ViaL true C run f (t :: r).
Proof. intros E F V O. eapply Via_cons; eauto. apply V. inversion O; auto. Qed.

Lemma ViaL_ext_head {A} (C : list token -> Prop) (run run' : nat -> list token -> pres A) f ts :
  (forall g y, f <= g -> samehead ts y -> run g y = run' g y) -> ViaL true C run' f ts -> ViaL true C run f ts.
Proof. intros E V O. eapply Via_ext_head; eauto. Qed.
Lemma ViaL_ext_all {A} ne (C : list token -> Prop) (run run' : nat -> list token -> pres A) f ts :
  (forall g y, run g y = run' g y) -> ViaL ne C run' f ts -> ViaL ne C run f ts.
Proof. intros E V O. eapply Via_ext_all; eauto. Qed.
Lemma ViaL_shift {A} ne (C : list token -> Prop) (run : nat -> list token -> pres A) f ts :
  ViaL ne C (fun g => run (S g)) f ts -> ViaL ne C run (S f) ts.
Proof. intros V O. apply Via_shift, V, O. Qed.
Lemma ViaL_weaken {A} ne (C : list token -> Prop) (run : nat -> list token -> pres A) f ts :
  ViaL true C run f ts -> ViaL ne C run f ts.
Proof. intros V O. apply Via_weaken, V, O. Qed.
Lemma ViaL_sub {A} ne (C C2 : list token -> Prop) (run : nat -> list token -> pres A) f ts :
  (forall u, C2 u -> C u) -> ViaL ne C run f ts -> ViaL ne C2 run f ts.
Proof. intros S V O. eapply Via_sub; eauto. Qed.
Lemma ViaL_map {A B} ne (C : list token -> Prop) (X : nat -> list token -> pres A) (k : A -> B) f ts :
  ViaL ne C X f ts -> ViaL ne C (fun g x => pbind (X g x) (fun a r => POk (k a) r [])) f ts.
Proof. intros V O. apply Via_map, V, O. Qed.

(** [consume k] then [Z] *)
Lemma ViaL_tok {B} ne (C : list token -> Prop) k pk (Z : nat -> token -> list token -> pres B) f ts wZ :
  (forall t r1, ViaL ne C (fun g => Z g t) f r1) -> online wZ -> (forall t, FN C (fun g => Z g t) wZ) ->
  ViaL true C (fun g x => pbind (consume k pk x) (Z g)) f ts.
Proof.
  intros VZ O HZ.
  apply (ViaL_bind true ne C_any C (fun _ x => consume k pk x) Z f ts wZ).
  - apply ViaL_of, Via_consume.
  - exact VZ.
  - right. intros; exact I.
  - apply FNw_of_FN; auto. intros; exact I.
Qed.

End WithEof.

(** the expression-level statements (no late parameter diagnostics) imply the
    statement-level ones *)
Lemma FDv_late {A} eofl (C : list token -> Prop) (run : nat -> list token -> pres A) f ts d :
  FDv eofl false C run f ts d -> FDv eofl true C run f ts d.
Proof.
  intros (pre & rem & E & Ed & N & H). exists pre, rem. split; [auto|]. split; [auto|]. split; [exact N|].
  intros Hne. destruct (H Hne) as [(a' & t0 & b & Ep & K & Na & V)|V]; [left|right; exact V].
  exists a', t0, b. split; [exact Ep|]. split; [|split; [exact Na|exact V]].
  destruct K as [K|(L & _)]; [left; exact K|discriminate L].
Qed.
Lemma Via_late {A} eofl ne (C : list token -> Prop) (run : nat -> list token -> pres A) f ts :
  Via eofl false ne C run f ts -> Via eofl true ne C run f ts.
Proof.
  unfold Via. destruct (run f ts) as [a r0 [|d ds]| [|d ds]|]; auto using FDv_late.
Qed.

Print Assumptions Via_bind.
Print Assumptions via_then_close.
