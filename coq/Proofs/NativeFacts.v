(** Property C17 -- the math built-ins compute their mathematical function on the coerced
    arguments; misuse (wrong number of arguments, a non-number, an empty array) is a
    reported error, never a value.  (Model/Eval.v: [call_native], [math1], [min_max].) *)
From Coq Require Import ZArith NArith List Bool Lia Reals Lra.
From Flocq Require Import Core BinarySingleNaN.
From Borno Require Import Base Num Unicode Token Ast Value Eval EvalEqs NumInt NumFacts.
Import ListNotations.
Open Scope N_scope.

(* ------------------------------------------------------------------ *)
(** * The order on doubles that are not NaN (local number facts) *)

Lemma loc_f_cmp_swap (a b : f64) :
  f_cmp b a = match f_cmp a b with Some c => Some (CompOpp c) | None => None end.
Proof. unfold f_cmp. apply Bcompare_swap. Qed.

(** any two non-NaN doubles are comparable (infinities included) *)
Lemma loc_f_cmp_total (a b : f64) : a <> B754_nan -> b <> B754_nan -> f_cmp a b <> None.
Proof.
  intros Ha Hb.
  destruct (is_finite a) eqn:Fa, (is_finite b) eqn:Fb.
  - rewrite (f_cmp_correct a b Fa Fb). discriminate.
  - destruct b as [sb|sb| |sb mb eb Bb]; try discriminate Fb; [|exfalso; apply Hb; reflexivity].
    destruct a as [sa|sa| |sa ma ea Ba]; try discriminate Fa; destruct sb; cbn; discriminate.
  - destruct a as [sa|sa| |sa ma ea Ba]; try discriminate Fa; [|exfalso; apply Ha; reflexivity].
    destruct b as [sb|sb| |sb mb eb Bb]; try discriminate Fb; destruct sa; cbn; discriminate.
  - destruct a as [sa|sa| |sa ma ea Ba]; try discriminate Fa; [|exfalso; apply Ha; reflexivity].
    destruct b as [sb|sb| |sb mb eb Bb]; try discriminate Fb; [|exfalso; apply Hb; reflexivity].
    destruct sa, sb; cbn; discriminate.
Qed.

Lemma loc_f_leb_not_nan (a b : f64) : f_leb a b = true -> a <> B754_nan /\ b <> B754_nan.
Proof.
  intros H. split; intros E; subst.
  - destruct (f_leb_nan b) as [H1 _]. congruence.
  - destruct (f_leb_nan a) as [_ H1]. congruence.
Qed.

Lemma loc_f_leb_refl (a : f64) : a <> B754_nan -> f_leb a a = true.
Proof. intros Ha. unfold f_leb. rewrite (f_cmp_refl a Ha). reflexivity. Qed.

Lemma loc_f_ltb_leb (a b : f64) : f_ltb a b = true -> f_leb a b = true.
Proof. unfold f_ltb, f_leb. destruct (f_cmp a b) as [[| |]|]; intros H; try discriminate H; reflexivity. Qed.

Lemma loc_f_gtb_leb (a b : f64) : f_gtb a b = true -> f_leb b a = true.
Proof.
  unfold f_gtb, f_leb. rewrite (loc_f_cmp_swap a b).
  destruct (f_cmp a b) as [[| |]|]; intros H; try discriminate H; reflexivity.
Qed.

Lemma loc_f_not_ltb_leb (a b : f64) : a <> B754_nan -> b <> B754_nan ->
  f_ltb a b = false -> f_leb b a = true.
Proof.
  intros Ha Hb. pose proof (loc_f_cmp_total a b Ha Hb) as Ht.
  unfold f_ltb, f_leb. rewrite (loc_f_cmp_swap a b).
  destruct (f_cmp a b) as [[| |]|]; intros H; try discriminate H; try reflexivity.
  exfalso. apply Ht. reflexivity.
Qed.

Lemma loc_f_not_gtb_leb (a b : f64) : a <> B754_nan -> b <> B754_nan ->
  f_gtb a b = false -> f_leb a b = true.
Proof.
  intros Ha Hb. pose proof (loc_f_cmp_total a b Ha Hb) as Ht.
  unfold f_gtb, f_leb.
  destruct (f_cmp a b) as [[| |]|]; intros H; try discriminate H; try reflexivity.
  exfalso. apply Ht. reflexivity.
Qed.

(** [<=] is transitive (on all doubles: a NaN makes a premise false) *)
Lemma loc_f_leb_trans (a b c : f64) : f_leb a b = true -> f_leb b c = true -> f_leb a c = true.
Proof.
  intros H1 H2.
  destruct (is_finite a) eqn:Fa, (is_finite b) eqn:Fb, (is_finite c) eqn:Fc.
  - rewrite f_leb_correct in * by assumption.
    destruct (Rle_bool_spec (B2R a) (B2R b)) as [L1|L1]; [|discriminate H1].
    destruct (Rle_bool_spec (B2R b) (B2R c)) as [L2|L2]; [|discriminate H2].
    destruct (Rle_bool_spec (B2R a) (B2R c)) as [L3|L3]; [reflexivity|lra].
  - destruct c as [sc|sc| |sc mc ec Bc]; try discriminate Fc.
    + destruct sc.
      * destruct b as [sb|sb| |sb mb eb Bb]; try discriminate Fb; cbn in H2; discriminate H2.
      * destruct a as [sa|sa| |sa ma ea Ba]; try discriminate Fa; reflexivity.
    + destruct (loc_f_leb_not_nan _ _ H2) as [_ Hc]. exfalso. apply Hc. reflexivity.
  - destruct b as [sb|sb| |sb mb eb Bb]; try discriminate Fb.
    + destruct sb.
      * destruct a as [sa|sa| |sa ma ea Ba]; try discriminate Fa; cbn in H1; discriminate H1.
      * destruct c as [sc|sc| |sc mc ec Bc]; try discriminate Fc; cbn in H2; discriminate H2.
    + destruct (loc_f_leb_not_nan _ _ H1) as [_ Hb]. exfalso. apply Hb. reflexivity.
  - destruct b as [sb|sb| |sb mb eb Bb]; try discriminate Fb.
    + destruct sb.
      * destruct a as [sa|sa| |sa ma ea Ba]; try discriminate Fa; cbn in H1; discriminate H1.
      * destruct c as [sc|sc| |sc mc ec Bc]; try discriminate Fc.
        -- destruct sc; [cbn in H2; discriminate H2|].
           destruct a as [sa|sa| |sa ma ea Ba]; try discriminate Fa; reflexivity.
        -- destruct (loc_f_leb_not_nan _ _ H2) as [_ Hc]. exfalso. apply Hc. reflexivity.
    + destruct (loc_f_leb_not_nan _ _ H1) as [_ Hb]. exfalso. apply Hb. reflexivity.
  - destruct a as [sa|sa| |sa ma ea Ba]; try discriminate Fa.
    + destruct sa.
      * destruct c as [sc|sc| |sc mc ec Bc]; try discriminate Fc; reflexivity.
      * destruct b as [sb|sb| |sb mb eb Bb]; try discriminate Fb; cbn in H1; discriminate H1.
    + destruct (loc_f_leb_not_nan _ _ H1) as [Ha _]. exfalso. apply Ha. reflexivity.
  - destruct a as [sa|sa| |sa ma ea Ba]; try discriminate Fa.
    + destruct sa.
      * destruct c as [sc|sc| |sc mc ec Bc]; try discriminate Fc.
        -- destruct sc; reflexivity.
        -- destruct (loc_f_leb_not_nan _ _ H2) as [_ Hc]. exfalso. apply Hc. reflexivity.
      * destruct b as [sb|sb| |sb mb eb Bb]; try discriminate Fb; cbn in H1; discriminate H1.
    + destruct (loc_f_leb_not_nan _ _ H1) as [Ha _]. exfalso. apply Ha. reflexivity.
  - destruct a as [sa|sa| |sa ma ea Ba]; try discriminate Fa.
    + destruct sa.
      * destruct c as [sc|sc| |sc mc ec Bc]; try discriminate Fc; reflexivity.
      * destruct b as [sb|sb| |sb mb eb Bb]; try discriminate Fb.
        -- destruct sb; [cbn in H1; discriminate H1|].
           destruct c as [sc|sc| |sc mc ec Bc]; try discriminate Fc; cbn in H2; discriminate H2.
        -- destruct (loc_f_leb_not_nan _ _ H1) as [_ Hb]. exfalso. apply Hb. reflexivity.
    + destruct (loc_f_leb_not_nan _ _ H1) as [Ha _]. exfalso. apply Ha. reflexivity.
  - destruct a as [sa|sa| |sa ma ea Ba]; try discriminate Fa.
    + destruct sa.
      * destruct c as [sc|sc| |sc mc ec Bc]; try discriminate Fc.
        -- destruct sc; reflexivity.
        -- destruct (loc_f_leb_not_nan _ _ H2) as [_ Hc]. exfalso. apply Hc. reflexivity.
      * destruct b as [sb|sb| |sb mb eb Bb]; try discriminate Fb.
        -- destruct sb; [cbn in H1; discriminate H1|].
           destruct c as [sc|sc| |sc mc ec Bc]; try discriminate Fc.
           ++ destruct sc; [cbn in H2; discriminate H2|reflexivity].
           ++ destruct (loc_f_leb_not_nan _ _ H2) as [_ Hc]. exfalso. apply Hc. reflexivity.
        -- destruct (loc_f_leb_not_nan _ _ H1) as [_ Hb]. exfalso. apply Hb. reflexivity.
    + destruct (loc_f_leb_not_nan _ _ H1) as [Ha _]. exfalso. apply Ha. reflexivity.
Qed.

(* ------------------------------------------------------------------ *)
(** * B.2  the least and greatest of a NaN-free list *)

(** the result is one of the numbers, and it is below every one of them *)
Theorem least_spec : forall xs x,
  Forall (fun y : f64 => y <> B754_nan) (x :: xs) ->
  In (least xs x) (x :: xs) /\ forall y, In y (x :: xs) -> f_leb (least xs x) y = true.
Proof.
  unfold least. induction xs as [|a xs IH]; intros x Hn.
  - cbn [fold_left]. inversion Hn as [|x0 l0 Hx Hr]; subst. split; [left; reflexivity|].
    intros y [E|[]]. subst y. apply loc_f_leb_refl. exact Hx.
  - cbn [fold_left].
    inversion Hn as [|x0 l0 Hx Hr]; subst. inversion Hr as [|a0 l1 Ha Hxs]; subst.
    set (m := if f_ltb a x then a else x).
    assert (Hm : m <> B754_nan) by (unfold m; destruct (f_ltb a x); assumption).
    destruct (IH m (Forall_cons m Hm Hxs)) as [Hin Hle].
    assert (Hmx : f_leb m x = true /\ f_leb m a = true /\ (m = a \/ m = x)).
    { unfold m. destruct (f_ltb a x) eqn:E.
      - split; [apply loc_f_ltb_leb; exact E|]. split; [apply loc_f_leb_refl; exact Ha|left; reflexivity].
      - split; [apply loc_f_leb_refl; exact Hx|]. split; [|right; reflexivity].
        apply loc_f_not_ltb_leb; assumption. }
    destruct Hmx as [Hmx [Hma Hmem]].
    pose proof (Hle m (or_introl Logic.eq_refl)) as Hrm.
    split.
    + destruct Hin as [E|Hin].
      * rewrite <- E. destruct Hmem as [E'|E']; rewrite E'; [right; left|left]; reflexivity.
      * right. right. exact Hin.
    + intros y [E|[E|Hy]].
      * subst y. apply (loc_f_leb_trans _ m _ Hrm Hmx).
      * subst y. apply (loc_f_leb_trans _ m _ Hrm Hma).
      * apply Hle. right. exact Hy.
Qed.

Theorem greatest_spec : forall xs x,
  Forall (fun y : f64 => y <> B754_nan) (x :: xs) ->
  In (greatest xs x) (x :: xs) /\ forall y, In y (x :: xs) -> f_leb y (greatest xs x) = true.
Proof.
  unfold greatest. induction xs as [|a xs IH]; intros x Hn.
  - cbn [fold_left]. inversion Hn as [|x0 l0 Hx Hr]; subst. split; [left; reflexivity|].
    intros y [E|[]]. subst y. apply loc_f_leb_refl. exact Hx.
  - cbn [fold_left].
    inversion Hn as [|x0 l0 Hx Hr]; subst. inversion Hr as [|a0 l1 Ha Hxs]; subst.
    set (m := if f_gtb a x then a else x).
    assert (Hm : m <> B754_nan) by (unfold m; destruct (f_gtb a x); assumption).
    destruct (IH m (Forall_cons m Hm Hxs)) as [Hin Hle].
    assert (Hmx : f_leb x m = true /\ f_leb a m = true /\ (m = a \/ m = x)).
    { unfold m. destruct (f_gtb a x) eqn:E.
      - split; [apply loc_f_gtb_leb; exact E|]. split; [apply loc_f_leb_refl; exact Ha|left; reflexivity].
      - split; [apply loc_f_leb_refl; exact Hx|]. split; [|right; reflexivity].
        apply loc_f_not_gtb_leb; assumption. }
    destruct Hmx as [Hmx [Hma Hmem]].
    pose proof (Hle m (or_introl Logic.eq_refl)) as Hrm.
    split.
    + destruct Hin as [E|Hin].
      * rewrite <- E. destruct Hmem as [E'|E']; rewrite E'; [right; left|left]; reflexivity.
      * right. right. exact Hin.
    + intros y [E|[E|Hy]].
      * subst y. apply (loc_f_leb_trans _ m _ Hmx Hrm).
      * subst y. apply (loc_f_leb_trans _ m _ Hma Hrm).
      * apply Hle. right. exact Hy.
Qed.

(** on finite numbers this is the order of the reals *)
Corollary least_spec_real xs x :
  Forall (fun y : f64 => is_finite y = true) (x :: xs) ->
  is_finite (least xs x) = true /\ In (least xs x) (x :: xs) /\
  forall y, In y (x :: xs) -> (B2R (least xs x) <= B2R y)%R.
Proof.
  intros Hf.
  assert (Hn : Forall (fun y : f64 => y <> B754_nan) (x :: xs)).
  { apply Forall_forall. intros y Hy E. subst y.
    apply (proj1 (Forall_forall _ _) Hf) in Hy. discriminate Hy. }
  destruct (least_spec xs x Hn) as [Hin Hle].
  assert (Hfr : is_finite (least xs x) = true) by (apply (proj1 (Forall_forall _ _) Hf); exact Hin).
  split; [exact Hfr|]. split; [exact Hin|]. intros y Hy.
  assert (Hfy : is_finite y = true) by (apply (proj1 (Forall_forall _ _) Hf); exact Hy).
  specialize (Hle y Hy). rewrite (f_leb_correct _ _ Hfr Hfy) in Hle.
  destruct (Rle_bool_spec (B2R (least xs x)) (B2R y)) as [L|L]; [exact L|discriminate Hle].
Qed.

Corollary greatest_spec_real xs x :
  Forall (fun y : f64 => is_finite y = true) (x :: xs) ->
  is_finite (greatest xs x) = true /\ In (greatest xs x) (x :: xs) /\
  forall y, In y (x :: xs) -> (B2R y <= B2R (greatest xs x))%R.
Proof.
  intros Hf.
  assert (Hn : Forall (fun y : f64 => y <> B754_nan) (x :: xs)).
  { apply Forall_forall. intros y Hy E. subst y.
    apply (proj1 (Forall_forall _ _) Hf) in Hy. discriminate Hy. }
  destruct (greatest_spec xs x Hn) as [Hin Hle].
  assert (Hfr : is_finite (greatest xs x) = true) by (apply (proj1 (Forall_forall _ _) Hf); exact Hin).
  split; [exact Hfr|]. split; [exact Hin|]. intros y Hy.
  assert (Hfy : is_finite y = true) by (apply (proj1 (Forall_forall _ _) Hf); exact Hy).
  specialize (Hle y Hy). rewrite (f_leb_correct _ _ Hfy Hfr) in Hle.
  destruct (Rle_bool_spec (B2R y) (B2R (greatest xs x))) as [L|L]; [exact L|discriminate Hle].
Qed.

(* ------------------------------------------------------------------ *)
(** * B.3  the arity table *)

Lemma arity_table :
  map (fun n => (n, native_arity n)) all_natives =
    [(NClock, Some 0); (NLen, Some 1); (NAppend, None); (NRemove, Some 2); (NDelete, Some 2);
     (NKeys, Some 1); (NValues, Some 1); (NAbs, Some 1); (NSqrt, Some 1); (NPow, Some 2);
     (NSin, Some 1); (NCos, Some 1); (NTan, Some 1); (NMin, None); (NMax, None);
     (NRound, Some 1); (NInput, None)]%nat.
Proof. reflexivity. Qed.

Lemma all_natives_complete n : In n all_natives.
Proof. destruct n; cbn; tauto. Qed.

(** the one-argument math built-ins *)
Definition is_math1 (n : native) : Prop := In n [NAbs; NSqrt; NRound; NSin; NCos; NTan].

Lemma numbers_of_single_arr l : numbers_of [VArr l] = None.
Proof. reflexivity. Qed.

Lemma numbers_of_length vs xs : numbers_of vs = Some xs -> length xs = length vs.
Proof.
  revert xs. induction vs as [|v r IH]; intros xs H.
  - cbn [numbers_of] in H. inversion H. reflexivity.
  - cbn [numbers_of] in H. destruct (to_number v) as [x|]; [|discriminate H].
    destruct (numbers_of r) as [ys|]; [|discriminate H]. inversion H.
    cbn [length]. f_equal. apply IH. reflexivity.
Qed.

(** [numbers_of] coerces every argument, in order *)
Lemma numbers_of_spec vs xs :
  numbers_of vs = Some xs <-> Forall2 (fun v x => to_number v = Some x) vs xs.
Proof.
  revert xs. induction vs as [|v r IH]; intros xs.
  - cbn [numbers_of]. split.
    + intros H. inversion H. constructor.
    + intros H. inversion H. reflexivity.
  - cbn [numbers_of]. split.
    + intros H. destruct (to_number v) as [x|] eqn:Ev; [|discriminate H].
      destruct (numbers_of r) as [ys|] eqn:Er; [|discriminate H]. inversion H.
      constructor; [exact Ev|]. apply IH. reflexivity.
    + intros H. inversion H as [|v0 x0 r0 ys Hv Hr E1 E2]. subst.
      rewrite Hv. rewrite (proj2 (IH ys) Hr). reflexivity.
Qed.

Section Natives.
Variable libm : N -> f64 -> f64 -> f64.
Variable clock : f64.
Variable sched : N -> list (list N * value) -> list (list N * value).

Notation eval := (eval libm clock sched).
Notation eval_list := (eval_list libm clock sched).
Notation call_native := (call_native libm clock sched).
Notation binop := (binop libm).

(* ------------------------------------------------------------------ *)
(** * B.1  each built-in applies its function to the coerced argument *)

Lemma abs_spec v x s : to_number v = Some x -> call_native NAbs [v] s = NOk (VNum (f_abs x)) s.
Proof. intros H. cbn [Eval.call_native math1]. rewrite H. reflexivity. Qed.
Lemma sqrt_spec v x s : to_number v = Some x -> call_native NSqrt [v] s = NOk (VNum (f_sqrt x)) s.
Proof. intros H. cbn [Eval.call_native math1]. rewrite H. reflexivity. Qed.
Lemma round_spec v x s : to_number v = Some x -> call_native NRound [v] s = NOk (VNum (f_round x)) s.
Proof. intros H. cbn [Eval.call_native math1]. rewrite H. reflexivity. Qed.
(** sine, cosine, tangent: the host's libm receives the coerced argument; its result is
    returned unchanged *)
Lemma sin_spec v x s : to_number v = Some x -> call_native NSin [v] s = NOk (VNum (libm 1 x x)) s.
Proof. intros H. cbn [Eval.call_native math1]. rewrite H. reflexivity. Qed.
Lemma cos_spec v x s : to_number v = Some x -> call_native NCos [v] s = NOk (VNum (libm 2 x x)) s.
Proof. intros H. cbn [Eval.call_native math1]. rewrite H. reflexivity. Qed.
Lemma tan_spec v x s : to_number v = Some x -> call_native NTan [v] s = NOk (VNum (libm 3 x x)) s.
Proof. intros H. cbn [Eval.call_native math1]. rewrite H. reflexivity. Qed.

Lemma pow_spec a b x y s : to_number a = Some x -> to_number b = Some y ->
  call_native NPow [a; b] s = NOk (VNum (libm 0 x y)) s.
Proof. intros Ha Hb. cbn [Eval.call_native]. rewrite Ha, Hb. reflexivity. Qed.

(** the built-in and the [**] operator are the same function *)
Theorem pow_is_power_operator a b x y s v : to_number a = Some x -> to_number b = Some y ->
  (call_native NPow [a; b] s = NOk v s <-> binop s TPOWER a b = OVal v).
Proof.
  intros Ha Hb. rewrite (pow_spec a b x y s Ha Hb).
  unfold Eval.binop, Eval.arith. rewrite Ha, Hb. unfold f_pow.
  split; intros H; inversion H; reflexivity.
Qed.

(** none of the math built-ins touches the store *)
Lemma math_pure n args s v s' :
  In n [NAbs; NSqrt; NRound; NSin; NCos; NTan; NPow; NMin; NMax] ->
  call_native n args s = NOk v s' -> s' = s.
Proof.
  intros Hn H. cbn [In] in Hn.
  assert (M1 : forall fn, math1 fn args s = NOk v s' -> s' = s).
  { intros fn. unfold math1. destruct args as [|a [|b r]]; try discriminate.
    destruct (to_number a); [|discriminate]. intros E. inversion E. reflexivity. }
  assert (MM : forall m, min_max m args s = NOk v s' -> s' = s).
  { intros m. unfold min_max. destruct args as [|a r]; [discriminate|].
    match goal with |- match ?F with _ => _ end = _ -> _ => destruct F as [[|w ws]|] end;
      try discriminate.
    destruct (numbers_of (w :: ws)) as [[|x xs]|]; try discriminate.
    intros E. inversion E. reflexivity. }
  destruct Hn as [E|[E|[E|[E|[E|[E|[E|[E|[E|[]]]]]]]]]]; subst n; cbn [Eval.call_native] in H;
    try (apply (M1 _ H)); try (apply (MM _ H)).
  destruct args as [|a [|b [|c r]]]; try discriminate H.
  destruct (to_number a); [|discriminate H]. destruct (to_number b); [|discriminate H].
  inversion H. reflexivity.
Qed.

(* ------------------------------------------------------------------ *)
(** * B.2  minimum and maximum *)

(** when all arguments coerce (so they are not a single array), the result is [least] /
    [greatest] of the coerced numbers *)
Lemma min_max_spec m args s x xs : numbers_of args = Some (x :: xs) ->
  min_max m args s = NOk (VNum (if m then least xs x else greatest xs x)) s.
Proof.
  intros H. destruct args as [|a r]; [discriminate H|].
  assert (E : match a :: r with [VArr l] => get_arr l s | _ => Some (a :: r) end = Some (a :: r)).
  { destruct a; try reflexivity. destruct r; [|reflexivity].
    rewrite numbers_of_single_arr in H. discriminate H. }
  cbv beta iota zeta delta [min_max]. rewrite E, H. reflexivity.
Qed.

Theorem min_spec args s x xs : numbers_of args = Some (x :: xs) ->
  call_native NMin args s = NOk (VNum (least xs x)) s.
Proof. intros H. cbn [Eval.call_native]. apply (min_max_spec true args s x xs H). Qed.

Theorem max_spec args s x xs : numbers_of args = Some (x :: xs) ->
  call_native NMax args s = NOk (VNum (greatest xs x)) s.
Proof. intros H. cbn [Eval.call_native]. apply (min_max_spec false args s x xs H). Qed.

(** a single array argument stands for its elements -- unless it holds exactly one
    element that is itself an array (then the call on the elements would flatten once
    more, whereas the call on the array reports a non-number) *)
Lemma min_max_array_form m l s vs :
  get_arr l s = Some vs -> vs <> [] -> (forall l', vs <> [VArr l']) ->
  min_max m [VArr l] s = min_max m vs s.
Proof.
  intros Hl Hne Hna. destruct vs as [|a r]; [exfalso; apply Hne; reflexivity|].
  assert (E : match a :: r with [VArr l0] => get_arr l0 s | _ => Some (a :: r) end = Some (a :: r)).
  { destruct a; try reflexivity. destruct r; [|reflexivity].
    exfalso. apply (Hna l0). reflexivity. }
  cbv beta iota zeta delta [min_max]. rewrite Hl, E. reflexivity.
Qed.

Theorem min_array_form l s vs :
  get_arr l s = Some vs -> vs <> [] -> (forall l', vs <> [VArr l']) ->
  call_native NMin [VArr l] s = call_native NMin vs s.
Proof. intros Hl Hne Hna. cbn [Eval.call_native]. apply min_max_array_form; assumption. Qed.

Theorem max_array_form l s vs :
  get_arr l s = Some vs -> vs <> [] -> (forall l', vs <> [VArr l']) ->
  call_native NMax [VArr l] s = call_native NMax vs s.
Proof. intros Hl Hne Hna. cbn [Eval.call_native]. apply min_max_array_form; assumption. Qed.

(** the excluded case: an array whose only element is an array is not flattened twice *)
Lemma min_nested_array l l' s : get_arr l s = Some [VArr l'] ->
  call_native NMin [VArr l] s = NFail NfNotNumber /\ call_native NMax [VArr l] s = NFail NfNotNumber.
Proof.
  intros Hl. cbn [Eval.call_native]. cbv beta iota zeta delta [min_max]. rewrite Hl.
  rewrite numbers_of_single_arr. split; reflexivity.
Qed.

Corollary min_array_spec l s vs x xs :
  get_arr l s = Some vs -> numbers_of vs = Some (x :: xs) ->
  call_native NMin [VArr l] s = NOk (VNum (least xs x)) s /\
  call_native NMax [VArr l] s = NOk (VNum (greatest xs x)) s.
Proof.
  intros Hl Hn.
  assert (Hne : vs <> []) by (intros E; subst vs; discriminate Hn).
  assert (Hna : forall l', vs <> [VArr l']).
  { intros l' E. subst vs. rewrite numbers_of_single_arr in Hn. discriminate Hn. }
  rewrite (min_array_form l s vs Hl Hne Hna), (max_array_form l s vs Hl Hne Hna).
  split; [apply min_spec|apply max_spec]; exact Hn.
Qed.

(* ------------------------------------------------------------------ *)
(** * B.3  misuse is a reported error *)

Lemma native_wrong_type n v s : is_math1 n -> to_number v = None ->
  call_native n [v] s = NFail NfNotNumber.
Proof.
  intros Hn Hv. unfold is_math1 in Hn. cbn [In] in Hn.
  destruct Hn as [E|[E|[E|[E|[E|[E|[]]]]]]]; subst n; cbn [Eval.call_native math1];
    rewrite Hv; reflexivity.
Qed.

Lemma native_wrong_count n args s : is_math1 n -> length args <> 1%nat ->
  call_native n args s = NFail NfArgCount.
Proof.
  intros Hn Hl. unfold is_math1 in Hn. cbn [In] in Hn.
  destruct args as [|a [|b r]]; [|exfalso; apply Hl; reflexivity|];
    destruct Hn as [E|[E|[E|[E|[E|[E|[]]]]]]]; subst n; reflexivity.
Qed.

Lemma pow_wrong_type a b s : to_number a = None \/ to_number b = None ->
  call_native NPow [a; b] s = NFail NfNotNumber.
Proof.
  intros H. cbn [Eval.call_native]. destruct H as [H|H]; rewrite H; [reflexivity|].
  destruct (to_number a); reflexivity.
Qed.

Lemma pow_wrong_count args s : length args <> 2%nat -> call_native NPow args s = NFail NfArgCount.
Proof.
  intros Hl. destruct args as [|a [|b [|c r]]]; try reflexivity. exfalso. apply Hl. reflexivity.
Qed.

Lemma min_nothing s : call_native NMin [] s = NFail NfArgCount.
Proof. reflexivity. Qed.
Lemma max_nothing s : call_native NMax [] s = NFail NfArgCount.
Proof. reflexivity. Qed.

Lemma min_empty_array l s : get_arr l s = Some [] -> call_native NMin [VArr l] s = NFail NfEmpty.
Proof. intros Hl. cbn [Eval.call_native]. cbv beta iota zeta delta [min_max]. rewrite Hl. reflexivity. Qed.
Lemma max_empty_array l s : get_arr l s = Some [] -> call_native NMax [VArr l] s = NFail NfEmpty.
Proof. intros Hl. cbn [Eval.call_native]. cbv beta iota zeta delta [min_max]. rewrite Hl. reflexivity. Qed.

(** an argument (or array element) that is not a number *)
Lemma min_max_wrong_type m args s :
  args <> [] -> (forall l, args <> [VArr l]) -> numbers_of args = None ->
  min_max m args s = NFail NfNotNumber.
Proof.
  intros Hne Hna Hn. destruct args as [|a r]; [exfalso; apply Hne; reflexivity|].
  assert (E : match a :: r with [VArr l] => get_arr l s | _ => Some (a :: r) end = Some (a :: r)).
  { destruct a; try reflexivity. destruct r; [|reflexivity]. exfalso. apply (Hna l). reflexivity. }
  cbv beta iota zeta delta [min_max]. rewrite E, Hn. reflexivity.
Qed.

Lemma min_wrong_type args s :
  args <> [] -> (forall l, args <> [VArr l]) -> numbers_of args = None ->
  call_native NMin args s = NFail NfNotNumber /\ call_native NMax args s = NFail NfNotNumber.
Proof. intros H1 H2 H3. cbn [Eval.call_native]. split; apply min_max_wrong_type; assumption. Qed.

Lemma min_array_wrong_type l s vs :
  get_arr l s = Some vs -> vs <> [] -> numbers_of vs = None ->
  call_native NMin [VArr l] s = NFail NfNotNumber /\ call_native NMax [VArr l] s = NFail NfNotNumber.
Proof.
  intros Hl Hne Hn. cbn [Eval.call_native]. cbv beta iota zeta delta [min_max]. rewrite Hl.
  destruct vs as [|a r]; [exfalso; apply Hne; reflexivity|]. rewrite Hn. split; reflexivity.
Qed.

(** a call of a built-in with the wrong number of arguments is rejected before any
    argument is evaluated: the state is the one left by evaluating the callee, and
    nothing is assumed about the arguments *)
Theorem eval_call_arity f ce pline args rho s n s1 k :
  eval f ce rho s = Ok (VNative n) s1 -> native_arity n = Some k -> length args <> k ->
  eval (S f) (ECall ce pline args) rho s = Err RArity pline s1.
Proof.
  intros Hc Hk Hl. rewrite eval_S, Hc. cbn [bind]. rewrite Hk. cbn [arity_ok].
  destruct (Nat.eqb_spec k (length args)) as [E|E]; [exfalso; apply Hl; symmetry; exact E|].
  reflexivity.
Qed.

(** the same for a user function *)
Theorem eval_call_fun_arity f ce pline args rho s l clo s1 :
  eval f ce rho s = Ok (VFun l) s1 -> get_fun l s1 = Some clo ->
  length (c_params clo) <> length args ->
  eval (S f) (ECall ce pline args) rho s = Err RArity pline s1.
Proof.
  intros Hc Hg Hl. rewrite eval_S, Hc. cbn [bind]. rewrite Hg.
  destruct (Nat.eqb_spec (length (c_params clo)) (length args)) as [E|E]; [contradiction|].
  reflexivity.
Qed.

(** a built-in that fails becomes a run-time error at the call's parenthesis *)
Theorem eval_call_native_fail f ce pline args rho s n s1 vs s2 why :
  eval f ce rho s = Ok (VNative n) s1 ->
  arity_ok (native_arity n) (length args) = true ->
  eval_list f args rho s1 = Ok vs s2 ->
  call_native n vs s2 = NFail why ->
  eval (S f) (ECall ce pline args) rho s = Err (RCallFailed why) pline (native_fail_state n vs s2).
Proof.
  intros Hc Ha Hl Hn. rewrite eval_S, Hc. cbn [bind]. rewrite Ha. cbn [negb].
  rewrite Hl. cbn [bind]. rewrite Hn. reflexivity.
Qed.

(** for the math built-ins the failing call leaves the store untouched *)
Lemma native_fail_state_math n vs s : n <> NInput -> native_fail_state n vs s = s.
Proof. intros Hn. destruct n; try reflexivity. exfalso. apply Hn. reflexivity. Qed.

Theorem eval_call_native_ok f ce pline args rho s n s1 vs s2 v s3 :
  eval f ce rho s = Ok (VNative n) s1 ->
  arity_ok (native_arity n) (length args) = true ->
  eval_list f args rho s1 = Ok vs s2 ->
  call_native n vs s2 = NOk v s3 ->
  eval (S f) (ECall ce pline args) rho s = Ok v s3.
Proof.
  intros Hc Ha Hl Hn. rewrite eval_S, Hc. cbn [bind]. rewrite Ha. cbn [negb].
  rewrite Hl. cbn [bind]. rewrite Hn. reflexivity.
Qed.

(* ------------------------------------------------------------------ *)
(** * B.4  the clock *)

Lemma clock_is_now s : call_native NClock [] s = NOk (VNum clock) s.
Proof. reflexivity. Qed.

End Natives.

Print Assumptions least_spec.
Print Assumptions greatest_spec.
Print Assumptions pow_is_power_operator.
Print Assumptions min_array_form.
Print Assumptions eval_call_arity.
Print Assumptions eval_call_native_fail.
Print Assumptions arity_table.
