(** The evaluator never reaches [Stuck] (a dangling location or scope id): from a
    well-formed store every one of the nine mutually recursive functions returns a
    well-formed, only-grown store and well-formed values, for every fuel.  Hence a run
    of a whole program is never [Stuck] / [RStuck]: "no program can make the
    interpreter terminate abnormally" is not an artefact of the store encoding.
    Definitions and primitive lemmas: Proofs/EvalSafeDefs.v. *)
From Borno Require Import Base Num Unicode Token Lexer Ast Parser Value Eval Cli.
From Borno.Proofs Require Import EvalEqs EvalSafeDefs.
From Coq Require Import Lia List Arith Permutation.
Local Open Scope nat_scope.

(* ---------------------------------------------------------------- *)
(** ** the result predicate *)

(** [Good P s r]: started in [s], the result [r] is not [Stuck]; a final store is
    well-formed and has only grown; a returned value satisfies [P] in the final store *)
Definition Good {A} (P : state -> A -> Prop) (s : state) (r : res A) : Prop :=
  match r with
  | Ok a s' => wf_state s' /\ grows s s' /\ P s' a
  | Err _ _ s' => wf_state s' /\ grows s s'
  | Crash s' => wf_state s' /\ grows s s'
  | Fuel => True
  | Stuck => False
  end.

Lemma Good_bind {A B} (P : state -> A -> Prop) (Q : state -> B -> Prop) s r k :
  Good P s r ->
  (forall a s1, wf_state s1 -> grows s s1 -> P s1 a -> Good Q s1 (k a s1)) ->
  Good Q s (bind r k).
Proof.
  destruct r as [a s0|e l s0| | |s0]; simpl; auto.
  intros (W & G & Pa) Hk. specialize (Hk _ _ W G Pa).
  destruct (k a s0) as [b s1|e l s1| | |s1]; simpl in *; auto.
  - destruct Hk as (W' & G' & Q'). split; [exact W'|split; [exact (grows_trans _ _ _ G G')|exact Q']].
  - destruct Hk as (W' & G'). split; [exact W'|exact (grows_trans _ _ _ G G')].
  - destruct Hk as (W' & G'). split; [exact W'|exact (grows_trans _ _ _ G G')].
Qed.

Lemma Good_ok {A} (P : state -> A -> Prop) s a s' :
  wf_state s' -> grows s s' -> P s' a -> Good P s (Ok a s').
Proof. simpl; auto. Qed.
Lemma Good_err {A} (P : state -> A -> Prop) s e l s' :
  wf_state s' -> grows s s' -> Good P s (Err e l s').
Proof. simpl; auto. Qed.
Lemma Good_crash {A} (P : state -> A -> Prop) s s' :
  wf_state s' -> grows s s' -> Good P s (Crash s').
Proof. simpl; auto. Qed.

(** the start state may be moved back *)
Lemma Good_rebase {A} (P : state -> A -> Prop) s0 s r : grows s0 s -> Good P s r -> Good P s0 r.
Proof.
  intros G. destruct r as [a s1|e l s1| | |s1]; simpl; auto.
  - intros (W & G' & Pa). split; [exact W|split; [exact (grows_trans _ _ _ G G')|exact Pa]].
  - intros (W & G'). split; [exact W|exact (grows_trans _ _ _ G G')].
  - intros (W & G'). split; [exact W|exact (grows_trans _ _ _ G G')].
Qed.

Lemma Good_weaken {A} (P Q : state -> A -> Prop) s r :
  (forall s' a, P s' a -> Q s' a) -> Good P s r -> Good Q s r.
Proof. intros H. destruct r; simpl; auto. intros (W & G & Pa). auto. Qed.

(** reading a [Good] result *)
Lemma Good_elim {A} (P : state -> A -> Prop) s r : Good P s r ->
  r <> Stuck /\
  (forall a s', r = Ok a s' -> wf_state s' /\ grows s s' /\ P s' a) /\
  (forall e l s', r = Err e l s' -> wf_state s' /\ grows s s') /\
  (forall s', r = Crash s' -> wf_state s' /\ grows s s').
Proof.
  intros H. split; [intros ->; exact H|]. split; [|split].
  - intros a s' ->. exact H.
  - intros e l s' ->. exact H.
  - intros s' ->. exact H.
Qed.

Definition Pv (s : state) (v : value) : Prop := wf_value s v.
Definition Pvs (s : state) (vs : list value) : Prop := wf_vals s vs.
Definition Pkvs (s : state) (kvs : list (list N * value)) : Prop := wf_binds s kvs.
Definition Psig (s : state) (sg : signal) : Prop :=
  match sg with SigReturn _ v => wf_value s v | _ => True end.

Lemma index_of_bound vs i n : index_of vs i = Some (Some n) -> n < length vs.
Proof.
  unfold index_of. destruct (to_int i) as [z|]; [|discriminate].
  destruct ((z <? 0)%Z || (Z.of_nat (length vs) <=? z)%Z)%bool eqn:B; [discriminate|].
  intros H. inv H. apply Bool.orb_false_iff in B as (B1 & B2).
  apply Z.ltb_ge in B1. apply Z.leb_gt in B2. lia.
Qed.

Lemma value_of_lit_scalar l : scalar (value_of_lit l).
Proof. destruct l; exact I. Qed.

Section Safe.
Variable libm : N -> f64 -> f64 -> f64.
Variable clock : f64.
Variable sched : N -> list (list N * value) -> list (list N * value).
(** The only assumption on the host's map-iteration order: it invents no entries.
    (A permutation of the content satisfies it: see [sched_perm_incl] below.) *)
Hypothesis sched_incl : forall n l x, In x (sched n l) -> In x l.

Notation eval := (eval libm clock sched).
Notation eval_list := (eval_list libm clock sched).
Notation eval_props := (eval_props libm clock sched).
Notation exec := (exec libm clock sched).
Notation exec_var := (exec_var libm clock sched).
Notation exec_vars := (exec_vars libm clock sched).
Notation exec_list := (exec_list libm clock sched).
Notation exec_while := (exec_while libm clock sched).
Notation exec_for := (exec_for libm clock sched).
Notation run_stmts := (run_stmts libm clock sched).

Definition SafeAt (f : nat) : Prop :=
  (forall e rho s, wf_state s -> rho < length (envs s) -> Good Pv s (eval f e rho s)) /\
  (forall es rho s, wf_state s -> rho < length (envs s) -> Good Pvs s (eval_list f es rho s)) /\
  (forall ps rho s, wf_state s -> rho < length (envs s) -> Good Pkvs s (eval_props f ps rho s)) /\
  (forall repl st rho s, wf_state s -> rho < length (envs s) -> Good Psig s (exec f repl st rho s)) /\
  (forall d rho s, wf_state s -> rho < length (envs s) -> Good Psig s (exec_var f d rho s)) /\
  (forall ds rho s, wf_state s -> rho < length (envs s) -> Good Psig s (exec_vars f ds rho s)) /\
  (forall repl ss rho s, wf_state s -> rho < length (envs s) -> Good Psig s (exec_list f repl ss rho s)) /\
  (forall repl c b rho s, wf_state s -> rho < length (envs s) -> Good Psig s (exec_while f repl c b rho s)) /\
  (forall repl c inc b rho s, wf_state s -> rho < length (envs s) -> Good Psig s (exec_for f repl c inc b rho s)).

Ltac rho_ok := unfold grows in *; lia.
Ltac ok := apply Good_ok; [assumption|auto using grows_refl|try exact I; try assumption].
Ltac er := apply Good_err; [assumption|auto using grows_refl].
Tactic Notation "gb" constr(IH) "as" ident(a) ident(s1) ident(W1) ident(G1) ident(P1) :=
  eapply Good_bind; [apply IH; [assumption|rho_ok]|intros a s1 W1 G1 P1].

(** Main induction: all nine functions are safe, for every fuel. *)
Lemma safe_all : forall f, SafeAt f.
Proof.
  induction f as [|f (IHe & IHl & IHp & IHs & IHv & IHvs & IHss & IHw & IHf)]; unfold SafeAt.
  { repeat split; intros; exact I. }
  split; [|split; [|split; [|split; [|split; [|split; [|split; [|split]]]]]]].
  - (* eval *)
    intros e rho s W Hr. rewrite eval_S.
    destruct e as [l ln|x ln|e' ln|op e' ln|op l r ln|op l r|x nl ve ln|ae ie ve ln|oe p ve ln|ce pl args|ae ie ln|oe p ln|es|ps];
      cbv beta iota.
    + (* ELit *) ok. apply scalar_wf, value_of_lit_scalar.
    + (* EId *)
      pose proof (env_get_safe s rho x W Hr) as G.
      destruct (env_get rho x s) as [[v|]|]; [ok|er|exact G].
    + (* EGroup *) apply IHe; assumption.
    + (* EUnary *)
      gb IHe as v s1 W1 G1 P1.
      destruct (unop op v) as [r|er0|] eqn:U; unfold lift_ores; [|er|exact I].
      ok. apply scalar_wf. eapply unop_scalar; exact U.
    + (* EBinary *)
      gb IHe as a s1 W1 G1 P1. gb IHe as b s2 W2 G2 P2.
      destruct (binop libm s2 op a b) as [v|er0|] eqn:U; unfold lift_ores; [|er|exact I].
      ok. apply scalar_wf. eapply binop_scalar; exact U.
    + (* ELogical *)
      gb IHe as a s1 W1 G1 P1.
      destruct (tkind_eqb op TLOGICAL_OR); destruct (truthy a);
        first [ok | apply IHe; [assumption|rho_ok]].
    + (* EAssign *)
      gb IHe as v s1 W1 G1 P1.
      pose proof (env_assign_safe s1 rho x v W1 ltac:(rho_ok) P1) as A.
      destruct (env_assign rho x v s1) as [[s2|]|]; [|er|exact A].
      destruct A as (W2 & G2). apply Good_ok; [exact W2|exact G2|]. exact (wf_value_mono _ _ _ G2 P1).
    + (* EArrAssign *)
      gb IHe as a s1 W1 G1 P1. gb IHe as i s2 W2 G2 P2. gb IHe as v s3 W3 G3 P3.
      destruct a as [|b|x|t|l|l|l|n]; try er.
      assert (Pl : wf_value s3 (VArr l)).
      { apply (wf_value_mono s2 s3 _ G3). apply (wf_value_mono s1 s2 _ G2). exact P1. }
      destruct (get_arr_some _ _ Pl) as [vs E]. rewrite E.
      destruct (index_of vs i) as [[n|]|]; [|er|er].
      destruct (wf_set_arr s3 l (set_nth n v vs) W3) as (W4 & G4).
      { apply Forall_set_nth; [exact P3|]. exact (wf_arrs _ W3 _ _ E). }
      apply Good_ok; [exact W4|exact G4|]. exact (wf_value_mono _ _ _ G4 P3).
    + (* EPropAssign *)
      gb IHe as o s1 W1 G1 P1.
      destruct o as [|b|x|t|l|l|l|n]; try er.
      gb IHe as v s2 W2 G2 P2.
      assert (Pl : wf_value s2 (VObj l)) by exact (wf_value_mono s1 s2 _ G2 P1).
      destruct (get_obj_some _ _ Pl) as [ps E]. rewrite E.
      destruct (wf_set_obj s2 l (sorted_put p v ps) W2) as (W3 & G3).
      { apply (sorted_put_Forall (wf_value s2)); [exact P2|]. exact (wf_objs _ W2 _ _ E). }
      apply Good_ok; [exact W3|exact G3|]. exact (wf_value_mono _ _ _ G3 P2).
    + (* ECall *)
      gb IHe as c s1 W1 G1 P1.
      destruct c as [|b|x|t|l|l|l|n]; try er.
      * (* a closure *)
        destruct (get_fun_some _ _ P1) as [clo EC]. rewrite EC.
        destruct (negb (length (c_params clo) =? length args)); [er|].
        gb IHl as vs s2 W2 G2 P2.
        pose proof (wf_funs _ W1 _ _ EC) as Hcenv.
        destruct (alloc_env (Some (c_env clo)) s2) as [act s3] eqn:EA.
        assert (Hpar : forall q, Some (c_env clo) = Some q -> q < length (envs s2))
          by (intros q Hq; inv Hq; rho_ok).
        destruct (wf_alloc_env s2 (Some (c_env clo)) act s3 W2 Hpar EA) as (W3 & G3 & Hact & L3).
        cbv beta iota.
        destruct (env_define_total act (c_name clo) (VFun l) s3 L3) as [s4 ED]. rewrite ED.
        assert (Pl : wf_value s3 (VFun l)).
        { apply (wf_value_mono s2 s3 _ G3). apply (wf_value_mono s1 s2 _ G2). exact P1. }
        destruct (wf_env_define s3 act (c_name clo) (VFun l) s4 W3 Pl ED) as (W4 & G4 & L4).
        assert (Hact4 : act < length (envs s4)) by lia.
        destruct (bind_params_total act (c_params clo) vs s4 Hact4) as [s5 EB]. rewrite EB.
        assert (Pvs4 : wf_vals s4 vs).
        { apply (wf_vals_mono s3 s4 _ G4). apply (wf_vals_mono s2 s3 _ G3). exact P2. }
        destruct (wf_bind_params act (c_params clo) vs s4 s5 W4 Pvs4 EB) as (W5 & G5).
        assert (G25 : grows s2 s5) by exact (grows_trans _ _ _ G3 (grows_trans _ _ _ G4 G5)).
        apply (Good_rebase Pv s2 s5 _ G25).
        eapply Good_bind; [apply IHss; [exact W5|rho_ok]|]. intros sg s6 W6 G6 P6.
        destruct sg as [|bl|cl|rl rv]; ok.
      * (* a built-in *)
        destruct (negb (arity_ok (native_arity n) (length args))); [er|].
        gb IHl as vs s2 W2 G2 P2.
        pose proof (call_native_safe libm clock sched sched_incl n vs s2 W2 P2) as NG.
        destruct (call_native libm clock sched n vs s2) as [v s3|why|]; [|
          destruct (wf_native_fail_state n vs s2 W2) as (W3 & G3); apply Good_err; assumption|exact NG].
        destruct NG as (W3 & G3 & P3). apply Good_ok; assumption.
    + (* EIndex *)
      gb IHe as a s1 W1 G1 P1. gb IHe as i s2 W2 G2 P2.
      destruct a as [|b|x|t|l|l|l|n]; try er.
      assert (Pl : wf_value s2 (VArr l)) by exact (wf_value_mono s1 s2 _ G2 P1).
      destruct (get_arr_some _ _ Pl) as [vs E]. rewrite E.
      destruct (index_of vs i) as [[n|]|] eqn:EI; [|er|er].
      destruct (nth_error_ex vs n (index_of_bound _ _ _ EI)) as [v EN]. rewrite EN.
      ok. exact (Forall_nth_error _ _ _ _ (wf_arrs _ W2 _ _ E) EN).
    + (* EProp *)
      gb IHe as o s1 W1 G1 P1.
      destruct o as [|b|x|t|l|l|l|n]; try er.
      destruct (get_obj_some _ _ P1) as [ps E]. rewrite E.
      destruct (assoc p ps) as [v|] eqn:EA; [|er].
      ok. exact (assoc_Forall (wf_value s1) p ps v (wf_objs _ W1 _ _ E) EA).
    + (* EArray *)
      gb IHl as vs s1 W1 G1 P1.
      destruct (alloc_arr vs s1) as [l s2] eqn:EA. cbv beta iota.
      destruct (wf_alloc_arr s1 vs l s2 W1 P1 EA) as (W2 & G2 & V2). apply Good_ok; assumption.
    + (* EObject *)
      gb IHp as kvs s1 W1 G1 P1.
      destruct (alloc_obj (build_obj kvs) s1) as [l s2] eqn:EA. cbv beta iota.
      destruct (wf_alloc_obj s1 (build_obj kvs) l s2 W1 (build_obj_Forall (wf_value s1) kvs P1) EA)
        as (W2 & G2 & V2). apply Good_ok; assumption.
  - (* eval_list *)
    intros es rho s W Hr. rewrite eval_list_S. destruct es as [|e r].
    + ok. constructor.
    + gb IHe as v s1 W1 G1 P1. gb IHl as vs s2 W2 G2 P2.
      ok. constructor; [exact (wf_value_mono _ _ _ G2 P1)|exact P2].
  - (* eval_props *)
    intros ps rho s W Hr. rewrite eval_props_S. destruct ps as [|[k e] r].
    + ok. constructor.
    + gb IHe as v s1 W1 G1 P1. gb IHp as kvs s2 W2 G2 P2.
      ok. constructor; [exact (wf_value_mono _ _ _ G2 P1)|exact P2].
  - (* exec *)
    intros repl st rho s W Hr. rewrite exec_S.
    destruct st as [e|e|d|ds|ss|c t e|c b|init c inc b|ln|ln|kw ve|name params body]; cbv beta iota.
    + (* SExpr *)
      gb IHe as v s1 W1 G1 P1. destruct repl; [|ok].
      pose proof (text_of_not_stuck s1 v W1 P1) as T.
      destruct (text_of s1 v) as [t| | |]; [|apply Good_crash; auto using grows_refl|congruence|exact I].
      destruct (wf_emit (EvEcho t) s1 W1) as (W2 & G2). apply Good_ok; [exact W2|exact G2|exact I].
    + (* SPrint *)
      gb IHe as v s1 W1 G1 P1.
      pose proof (text_of_not_stuck s1 v W1 P1) as T.
      destruct (text_of s1 v) as [t| | |]; [|apply Good_crash; auto using grows_refl|congruence|exact I].
      destruct (wf_emit (EvPrint t) s1 W1) as (W2 & G2). apply Good_ok; [exact W2|exact G2|exact I].
    + apply IHv; assumption.
    + apply IHvs; assumption.
    + (* SBlock *)
      destruct (alloc_env (Some rho) s) as [rho' s1] eqn:EA.
      assert (Hpar : forall q, Some rho = Some q -> q < length (envs s)) by (intros q Hq; inv Hq; exact Hr).
      destruct (wf_alloc_env s (Some rho) rho' s1 W Hpar EA) as (W1 & G1 & _ & L1). cbv beta iota.
      apply (Good_rebase Psig s s1 _ G1). apply IHss; assumption.
    + (* SIf *)
      gb IHe as cv s1 W1 G1 P1.
      destruct (truthy cv); [apply IHs; [assumption|rho_ok]|].
      destruct e as [e'|]; [apply IHs; [assumption|rho_ok]|ok].
    + apply IHw; assumption.
    + (* SFor *)
      destruct (alloc_env (Some rho) s) as [rho' s1] eqn:EA.
      assert (Hpar : forall q, Some rho = Some q -> q < length (envs s)) by (intros q Hq; inv Hq; exact Hr).
      destruct (wf_alloc_env s (Some rho) rho' s1 W Hpar EA) as (W1 & G1 & _ & L1). cbv beta iota.
      apply (Good_rebase Psig s s1 _ G1).
      eapply (Good_bind Psig); [destruct init as [i|]; [apply IHs; assumption|ok]|].
      intros sg s2 W2 G2 P2.
      destruct sg as [|bl|cl|rl rv]; [apply IHf; [assumption|rho_ok]|ok|ok|ok].
    + ok.
    + ok.
    + (* SReturn *)
      destruct ve as [e|]; [|ok]. gb IHe as v s1 W1 G1 P1. ok.
    + (* SFun *)
      destruct (alloc_env (Some rho) s) as [cenv s1] eqn:EA.
      assert (Hpar : forall q, Some rho = Some q -> q < length (envs s)) by (intros q Hq; inv Hq; exact Hr).
      destruct (wf_alloc_env s (Some rho) cenv s1 W Hpar EA) as (W1 & G1 & _ & L1). cbv beta iota.
      destruct (alloc_fun (mkClo name params body cenv) s1) as [l s2] eqn:EF.
      destruct (wf_alloc_fun s1 (mkClo name params body cenv) l s2 W1 L1 EF) as (W2 & G2 & V2 & L2).
      cbv beta iota.
      assert (Hr2 : rho < length (envs s2)) by rho_ok.
      destruct (env_define_total rho name (VFun l) s2 Hr2) as [s3 ED]. rewrite ED.
      destruct (wf_env_define s2 rho name (VFun l) s3 W2 V2 ED) as (W3 & G3 & _).
      apply Good_ok; [exact W3|exact (grows_trans _ _ _ G1 (grows_trans _ _ _ G2 G3))|exact I].
  - (* exec_var *)
    intros d rho s W Hr. rewrite exec_var_S. destruct d as [[x init] ln]. cbv beta iota.
    eapply (Good_bind Pv); [destruct init as [e|]; [apply IHe; assumption|ok]|].
    intros v s1 W1 G1 P1.
    assert (Hr1 : rho < length (envs s1)) by rho_ok.
    pose proof (env_get_here_total rho x s1 Hr1) as T.
    destruct (env_get_here rho x s1) as [[w|]|]; [er| |congruence].
    destruct (env_define_total rho x v s1 Hr1) as [s2 ED]. rewrite ED.
    destruct (wf_env_define s1 rho x v s2 W1 P1 ED) as (W2 & G2 & _).
    apply Good_ok; [exact W2|exact G2|exact I].
  - (* exec_vars *)
    intros ds rho s W Hr. rewrite exec_vars_S. destruct ds as [|d r]; [ok|].
    gb IHv as sg s1 W1 G1 P1. apply IHvs; [assumption|rho_ok].
  - (* exec_list *)
    intros repl ss rho s W Hr. rewrite exec_list_S. destruct ss as [|st r]; [ok|].
    gb IHs as sg s1 W1 G1 P1.
    destruct sg as [|bl|cl|rl rv]; [apply IHss; [assumption|rho_ok]|ok|ok|ok].
  - (* exec_while *)
    intros repl c b rho s W Hr. rewrite exec_while_S.
    gb IHe as cv s1 W1 G1 P1. destruct (truthy cv); [|ok].
    gb IHs as sg s2 W2 G2 P2.
    destruct sg as [|bl|cl|rl rv]; [apply IHw; [assumption|rho_ok]|ok|apply IHw; [assumption|rho_ok]|ok].
  - (* exec_for *)
    intros repl c inc b rho s W Hr. rewrite exec_for_S.
    gb IHe as cv s1 W1 G1 P1. destruct (truthy cv); [|ok].
    gb IHs as sg s2 W2 G2 P2.
    destruct sg as [|bl|cl|rl rv]; [|ok| |ok].
    + eapply (Good_bind Pv); [destruct inc as [i|]; [apply IHe; [assumption|rho_ok]|ok]|].
      intros v3 s3 W3 G3 P3. apply IHf; [assumption|rho_ok].
    + eapply (Good_bind Pv); [destruct inc as [i|]; [apply IHe; [assumption|rho_ok]|ok]|].
      intros v3 s3 W3 G3 P3. apply IHf; [assumption|rho_ok].
Qed.

(* ---------------------------------------------------------------- *)
(** ** the main theorem, spelled out *)

(** what is claimed about one call: not [Stuck]; every final store is
    well-formed and has only grown; returned values are well-formed in it *)
Definition safe_result {A} (P : state -> A -> Prop) (s : state) (r : res A) : Prop :=
  r <> Stuck /\
  (forall a s', r = Ok a s' -> wf_state s' /\ grows s s' /\ P s' a) /\
  (forall e l s', r = Err e l s' -> wf_state s' /\ grows s s') /\
  (forall s', r = Crash s' -> wf_state s' /\ grows s s').

(** [never_stuck]: for every fuel and each of the nine evaluator functions, from a well-formed
    store and an existing scope the result is never [Stuck]; the store a result carries is
    well-formed and has only grown, expression values are well-formed, and so is the value of
    a [SigReturn] signal. *)
Theorem never_stuck : forall f,
  (forall e rho s, wf_state s -> rho < length (envs s) ->
     safe_result (fun s' v => wf_value s' v) s (eval f e rho s)) /\
  (forall es rho s, wf_state s -> rho < length (envs s) ->
     safe_result (fun s' vs => Forall (wf_value s') vs) s (eval_list f es rho s)) /\
  (forall ps rho s, wf_state s -> rho < length (envs s) ->
     safe_result (fun s' kvs => Forall (fun kv => wf_value s' (snd kv)) kvs) s (eval_props f ps rho s)) /\
  (forall repl st rho s, wf_state s -> rho < length (envs s) ->
     safe_result Psig s (exec f repl st rho s)) /\
  (forall d rho s, wf_state s -> rho < length (envs s) ->
     safe_result Psig s (exec_var f d rho s)) /\
  (forall ds rho s, wf_state s -> rho < length (envs s) ->
     safe_result Psig s (exec_vars f ds rho s)) /\
  (forall repl ss rho s, wf_state s -> rho < length (envs s) ->
     safe_result Psig s (exec_list f repl ss rho s)) /\
  (forall repl c b rho s, wf_state s -> rho < length (envs s) ->
     safe_result Psig s (exec_while f repl c b rho s)) /\
  (forall repl c inc b rho s, wf_state s -> rho < length (envs s) ->
     safe_result Psig s (exec_for f repl c inc b rho s)).
Proof.
  intros f. destruct (safe_all f) as (He & Hl & Hp & Hs & Hv & Hvs & Hss & Hw & Hf).
  split; [|split; [|split; [|split; [|split; [|split; [|split; [|split]]]]]]]; intros.
  - apply (Good_elim Pv); apply He; assumption.
  - apply (Good_elim Pvs); apply Hl; assumption.
  - apply (Good_elim Pkvs); apply Hp; assumption.
  - apply (Good_elim Psig); apply Hs; assumption.
  - apply (Good_elim Psig); apply Hv; assumption.
  - apply (Good_elim Psig); apply Hvs; assumption.
  - apply (Good_elim Psig); apply Hss; assumption.
  - apply (Good_elim Psig); apply Hw; assumption.
  - apply (Good_elim Psig); apply Hf; assumption.
Qed.

(** the two most used instances *)
Corollary eval_never_stuck f e rho s : wf_state s -> rho < length (envs s) ->
  safe_result (fun s' v => wf_value s' v) s (eval f e rho s).
Proof. apply (never_stuck f). Qed.

Corollary exec_never_stuck f repl st rho s : wf_state s -> rho < length (envs s) ->
  safe_result Psig s (exec f repl st rho s).
Proof. apply (never_stuck f). Qed.

(* ---------------------------------------------------------------- *)
(** ** whole programs *)

Lemma run_stmts_good f repl : forall prog s, wf_state s -> top_env < length (envs s) ->
  Good (fun _ (_ : unit) => True) s (run_stmts f repl prog s).
Proof.
  induction prog as [|st r IH]; intros s W Ht; cbn [Eval.run_stmts].
  - apply Good_ok; [exact W|apply grows_refl|exact I].
  - eapply Good_bind; [apply (safe_all f); assumption|]. intros sg s1 W1 G1 P1.
    destruct sg as [|bl|cl|rl rv]; [|er|er|er].
    apply IH; [exact W1|]. unfold grows in G1. lia.
Qed.

(** Running a program from any well-formed store: never [Stuck], and whatever store the run
    ends with (normally, with a runtime error, or in the cyclic-print crash) is well-formed. *)
Theorem run_stmts_safe f repl prog s : wf_state s -> top_env < length (envs s) ->
  safe_result (fun _ (_ : unit) => True) s (run_stmts f repl prog s).
Proof. intros W Ht. apply Good_elim. apply run_stmts_good; assumption. Qed.

(** Corollary: a program started in the initial store never gets stuck. *)
Theorem run_never_stuck f repl prog stdin : run_stmts f repl prog (init_state stdin) <> Stuck.
Proof. apply (run_stmts_safe f repl prog (init_state stdin) (wf_init stdin) (top_env_init stdin)). Qed.

(** ... hence the command-line pipeline never yields [RStuck]. *)
Theorem run_source_never_stuck fuel repl src stdin :
  run_source libm clock sched fuel repl src stdin <> RStuck.
Proof.
  unfold run_source.
  destruct (pr_fuel_out (parse (lx_tokens (lex src)) (lx_eof_line (lex src)))); [discriminate|].
  destruct (lx_diags (lex src)); [|discriminate].
  destruct (pr_diags (parse (lx_tokens (lex src)) (lx_eof_line (lex src)))); [|discriminate].
  destruct (pr_prog (parse (lx_tokens (lex src)) (lx_eof_line (lex src)))) as [prog|]; [|discriminate].
  pose proof (run_never_stuck fuel repl prog stdin) as H.
  destruct (run_stmts fuel repl prog (init_state stdin)); try discriminate. congruence.
Qed.

End Safe.

(* ---------------------------------------------------------------- *)
(** ** schedules that satisfy the hypothesis *)

Lemma sched_perm_incl (sched : N -> list (list N * value) -> list (list N * value)) :
  (forall n l, Permutation (sched n l) l) -> forall n l x, In x (sched n l) -> In x l.
Proof. intros H n l x Hx. eapply Permutation_in; [apply H|exact Hx]. Qed.

(** the statement with the permutation hypothesis *)
Theorem run_source_never_stuck_perm libm clock sched :
  (forall n l, Permutation (sched n l) l) ->
  forall fuel repl src stdin, run_source libm clock sched fuel repl src stdin <> RStuck.
Proof. intros H. apply run_source_never_stuck. apply sched_perm_incl; exact H. Qed.

(** the concrete rotation schedule of Model/Cli.v qualifies *)
Lemma rotate_sched_perm seed n l : Permutation (rotate_sched seed n l) l.
Proof.
  unfold rotate_sched. destruct l as [|a r]; [constructor|].
  set (k := N.to_nat ((seed + n * 7) mod N.of_nat (length (a :: r)))).
  rewrite <- (firstn_skipn k (a :: r)) at 3. apply Permutation_app_comm.
Qed.

(** The four axioms printed below are those of the Coq standard library's real numbers,
    which Flocq's definition of binary64 arithmetic (Model/Num.v: [f_add] ...) already depends on:
    [Print Assumptions Eval.eval] (a definition) prints the same list.  The lemmas about the
    store alone (e.g. [wf_env_define]) are closed under the global context. *)
Print Assumptions Eval.eval.
Print Assumptions wf_env_define.
Print Assumptions never_stuck.
Print Assumptions run_never_stuck.
Print Assumptions run_source_never_stuck.
Print Assumptions run_source_never_stuck_perm.
