(** Algebraic laws of the scope chain (environment/environment.go): [Get] finds the
    innermost binding, [Assign] updates exactly the binding [Get] sees, [Define]
    touches the current scope only, allocation is append-only.  All laws are about
    the primitives of Model/Value.v and hold for all states. *)
From Borno Require Import Base Num Unicode Token Ast Value Eval EvalEqs.
Local Open Scope nat_scope.

(* ---------------------------------------------------------------- *)
(** ** names *)

Lemma str_eqb_eq a b : str_eqb a b = true <-> a = b.
Proof.
  revert b; induction a as [|x a IH]; intros [|y b]; simpl; split; intro H; try discriminate; auto.
  - apply andb_true_iff in H. destruct H as [H1 H2]. apply N.eqb_eq in H1. apply IH in H2. congruence.
  - injection H as H1 H2. subst. rewrite N.eqb_refl. simpl. apply IH. reflexivity.
Qed.

Lemma str_eqb_refl a : str_eqb a a = true.
Proof. apply str_eqb_eq. reflexivity. Qed.

Lemma str_eqb_neq a b : str_eqb a b = false <-> a <> b.
Proof.
  split.
  - intros H E. apply str_eqb_eq in E. congruence.
  - intros H. destruct (str_eqb a b) eqn:E; [|reflexivity]. apply str_eqb_eq in E. contradiction.
Qed.

Lemma str_eq_dec (a b : list N) : {a = b} + {a <> b}.
Proof.
  destruct (str_eqb a b) eqn:E; [left; apply str_eqb_eq; exact E | right; apply str_eqb_neq; exact E].
Qed.

(* ---------------------------------------------------------------- *)
(** ** lists *)

Lemma set_nth_length {A} n (x : A) l : length (set_nth n x l) = length l.
Proof. revert n; induction l as [|y l IH]; intros [|n]; simpl; auto. Qed.

Lemma nth_error_set_nth_same {A} n (x : A) l : n < length l -> nth_error (set_nth n x l) n = Some x.
Proof.
  revert n; induction l as [|y l IH]; intros [|n] H; simpl in *; try lia; auto.
  apply IH. lia.
Qed.

Lemma nth_error_set_nth_other {A} n m (x : A) l : m <> n -> nth_error (set_nth n x l) m = nth_error l m.
Proof.
  revert n m; induction l as [|y l IH]; intros [|n] [|m] H; simpl; auto; try congruence.
Qed.

Lemma nth_error_lt {A} (l : list A) i a : nth_error l i = Some a -> i < length l.
Proof. intros H. apply nth_error_Some. congruence. Qed.

Lemma assoc_alist_set_same {A} k (v : A) l : assoc k (alist_set k v l) = Some v.
Proof.
  induction l as [|[k' v'] r IH]; simpl.
  - rewrite str_eqb_refl. reflexivity.
  - destruct (str_eqb k k') eqn:E; simpl; rewrite E; auto.
Qed.

Lemma assoc_alist_set_other {A} k k' (v : A) l : k' <> k -> assoc k' (alist_set k v l) = assoc k' l.
Proof.
  intros Hne. induction l as [|[k0 v0] r IH]; simpl.
  - apply str_eqb_neq in Hne. rewrite Hne. reflexivity.
  - destruct (str_eqb k k0) eqn:E; simpl.
    + apply str_eqb_eq in E. subst k0. apply str_eqb_neq in Hne. rewrite Hne. reflexivity.
    + rewrite IH. reflexivity.
Qed.

(** [Define] overwrites in place, or appends the new name at the end *)
Lemma dom_alist_set {A} k (v : A) l :
  map fst (alist_set k v l) = match assoc k l with Some _ => map fst l | None => map fst l ++ [k] end.
Proof.
  induction l as [|[k0 v0] r IH]; simpl; auto.
  destruct (str_eqb k k0) eqn:E; simpl; auto.
  rewrite IH. destruct (assoc k r); reflexivity.
Qed.

Lemma assoc_In_dom {A} k (l : list (list N * A)) : (exists v, assoc k l = Some v) <-> In k (map fst l).
Proof.
  induction l as [|[k0 v0] r IH]; simpl.
  - split; [intros [v H]; discriminate | tauto].
  - destruct (str_eqb k k0) eqn:E.
    + apply str_eqb_eq in E. subst. split; eauto.
    + apply str_eqb_neq in E. rewrite IH. split; [tauto|]. intros [H|H]; [congruence|exact H].
Qed.

(* ---------------------------------------------------------------- *)
(** ** observations of a store's scopes *)

Definition binds_of (s : state) (i : nat) : list (list N * value) :=
  match nth_error (envs s) i with Some (b, _) => b | None => [] end.
(** the names scope [i] declares, oldest first *)
Definition edom (s : state) (i : nat) : list (list N) := map fst (binds_of s i).
(** [Some p] = the scope exists and its parent is [p] *)
Definition epar (s : state) (i : nat) : option (option nat) := option_map snd (nth_error (envs s) i).
(** the binding of [x] in scope [i] itself *)
Definition bind_of (s : state) (i : nat) (x : list N) : option value := assoc x (binds_of s i).

(** every parent is older than its child *)
Definition wf_envs (s : state) : Prop :=
  forall i b p, nth_error (envs s) i = Some (b, Some p) -> p < i.

(** [chain s rho l]: [l] is the parent chain of [rho], from [rho] itself to a root *)
Inductive chain (s : state) : nat -> list nat -> Prop :=
  | chain_root rho b : nth_error (envs s) rho = Some (b, None) -> chain s rho [rho]
  | chain_step rho b p l : nth_error (envs s) rho = Some (b, Some p) -> chain s p l -> chain s rho (rho :: l).

(** the first scope of a list that binds [x] *)
Fixpoint first_binding (s : state) (x : list N) (l : list nat) : option (nat * value) :=
  match l with
  | [] => None
  | i :: r => match bind_of s i x with Some v => Some (i, v) | None => first_binding s x r end
  end.

Lemma env_get_here_bind_of rho x s :
  env_get_here rho x s = if Nat.ltb rho (length (envs s)) then Some (bind_of s rho x) else None.
Proof.
  unfold env_get_here, bind_of, binds_of.
  destruct (nth_error (envs s) rho) as [[b p]|] eqn:E.
  - apply nth_error_lt in E. apply Nat.ltb_lt in E. rewrite E. reflexivity.
  - apply nth_error_None in E. destruct (Nat.ltb_spec rho (length (envs s))); [lia|reflexivity].
Qed.

Lemma chain_func s rho l : chain s rho l -> forall l', chain s rho l' -> l = l'.
Proof.
  induction 1 as [rho b H|rho b p l H C IH]; intros l' C'; inversion C' as [r1 b1 H1|r1 b1 p1 l1 H1 C1]; subst.
  - reflexivity.
  - congruence.
  - congruence.
  - rewrite H in H1. injection H1 as _ Hp. subst p1. f_equal. apply IH. exact C1.
Qed.

Lemma chain_head s rho l : chain s rho l -> exists r, l = rho :: r.
Proof. destruct 1; eauto. Qed.

Lemma chain_allocated s rho l : chain s rho l -> forall i, In i l -> i < length (envs s).
Proof.
  induction 1 as [rho b H|rho b p l H C IH]; intros i Hi; simpl in Hi.
  - destruct Hi as [<-|[]]. eapply nth_error_lt; eauto.
  - destruct Hi as [<-|Hi]; [eapply nth_error_lt; eauto | auto].
Qed.

(** under [wf_envs] a chain descends strictly: every scope on it is at most [rho], ... *)
Lemma chain_le s rho l : wf_envs s -> chain s rho l -> forall i, In i l -> i <= rho.
Proof.
  intros W. induction 1 as [rho b H|rho b p l H C IH]; intros i Hi; simpl in Hi.
  - destruct Hi as [<-|[]]. lia.
  - destruct Hi as [<-|Hi]; [lia|]. apply W in H. apply IH in Hi. lia.
Qed.

(** ... hence it has at most [rho + 1] members, ... *)
Lemma chain_length s rho l : wf_envs s -> chain s rho l -> length l <= S rho.
Proof.
  intros W. induction 1 as [rho b H|rho b p l H C IH]; simpl; [lia|].
  apply W in H. lia.
Qed.

(** ... and every allocated scope has one *)
Lemma chain_exists s : wf_envs s -> forall rho, rho < length (envs s) -> exists l, chain s rho l.
Proof.
  intros W rho. induction rho as [rho IH] using lt_wf_ind. intros Hlt.
  destruct (nth_error (envs s) rho) as [[b [p|]]|] eqn:E.
  - pose proof (W _ _ _ E) as Hp. destruct (IH p Hp ltac:(lia)) as [l C].
    exists (rho :: l). eapply chain_step; eauto.
  - exists [rho]. eapply chain_root; eauto.
  - apply nth_error_None in E. lia.
Qed.

Lemma first_binding_some s x l q v :
  first_binding s x l = Some (q, v) <->
  exists l1 l2, l = l1 ++ q :: l2 /\ bind_of s q x = Some v /\ forall i, In i l1 -> bind_of s i x = None.
Proof.
  induction l as [|i r IH]; simpl.
  - split; [discriminate|]. intros (l1 & l2 & H & _). destruct l1; discriminate.
  - destruct (bind_of s i x) as [w|] eqn:E.
    + split.
      * intros H. injection H as -> ->. exists [], r. split; [reflexivity|split; [exact E|intros j []]].
      * intros (l1 & l2 & H & Hq & Hn). destruct l1 as [|j l1]; simpl in H; injection H as Hij Hr; subst.
        -- congruence.
        -- rewrite (Hn j (or_introl eq_refl)) in E. discriminate.
    + rewrite IH. split.
      * intros (l1 & l2 & -> & Hq & Hn). exists (i :: l1), l2. split; [reflexivity|split; [exact Hq|]].
        intros j [<-|Hj]; auto.
      * intros (l1 & l2 & H & Hq & Hn). destruct l1 as [|j l1]; simpl in H; injection H as Hij Hr; subst.
        -- congruence.
        -- exists l1, l2. split; [reflexivity|split; [exact Hq|]]. intros k Hk. apply Hn. right. exact Hk.
Qed.

Lemma first_binding_none s x l :
  first_binding s x l = None <-> forall i, In i l -> bind_of s i x = None.
Proof.
  induction l as [|i r IH]; simpl.
  - split; [intros _ j []|reflexivity].
  - destruct (bind_of s i x) as [w|] eqn:E.
    + split; [discriminate|]. intros H. rewrite (H i (or_introl eq_refl)) in E. discriminate.
    + rewrite IH. split; [intros H j [<-|Hj]; auto | intros H j Hj; apply H; right; exact Hj].
Qed.

(** [env_lookup] with enough fuel computes the first binding on the chain *)
Lemma env_lookup_chain s x rho l :
  chain s rho l -> forall f, length l <= f -> env_lookup f rho x s = Some (first_binding s x l).
Proof.
  induction 1 as [rho b H|rho b p l H C IH]; intros f Hf; (destruct f as [|f]; [simpl in Hf; lia|]);
    simpl; rewrite H; unfold bind_of, binds_of; rewrite H.
  - destruct (assoc x b); reflexivity.
  - destruct (assoc x b); [reflexivity|]. apply IH. simpl in Hf. lia.
Qed.

Lemma env_lookup_chain_wf s x rho l :
  wf_envs s -> chain s rho l -> env_lookup (S (length (envs s))) rho x s = Some (first_binding s x l).
Proof.
  intros W C. apply env_lookup_chain; [exact C|].
  pose proof (chain_length _ _ _ W C) as HL.
  destruct (chain_head _ _ _ C) as [r ->].
  pose proof (chain_allocated _ _ _ C rho (or_introl eq_refl)). lia.
Qed.

Lemma env_get_chain s x rho l :
  wf_envs s -> chain s rho l -> env_get rho x s = Some (option_map snd (first_binding s x l)).
Proof.
  intros W C. unfold env_get. rewrite (env_lookup_chain_wf _ x _ _ W C).
  destruct (first_binding s x l) as [[q v]|]; reflexivity.
Qed.

(** A1. [Get] returns the binding of the innermost scope on the chain that binds the
    name; it reports "undefined" exactly when no scope on the chain binds it; and on a
    well-formed store it never dangles.  (The fuel [S (length (envs s))] is adequate.) *)
Theorem env_get_innermost rho x s :
  wf_envs s -> rho < length (envs s) ->
  exists l, chain s rho l /\
    (forall v, env_get rho x s = Some (Some v) <->
       exists l1 q l2, l = l1 ++ q :: l2 /\ bind_of s q x = Some v /\ forall i, In i l1 -> bind_of s i x = None) /\
    (env_get rho x s = Some None <-> forall i, In i l -> bind_of s i x = None) /\
    env_get rho x s <> None.
Proof.
  intros W Hlt. destruct (chain_exists _ W _ Hlt) as [l C]. exists l. split; [exact C|].
  rewrite (env_get_chain _ x _ _ W C). split; [|split].
  - intros v. split.
    + intros H. destruct (first_binding s x l) as [[q w]|] eqn:E; simpl in H; [|discriminate].
      injection H as ->. apply first_binding_some in E. destruct E as (l1 & l2 & E). exists l1, q, l2. exact E.
    + intros (l1 & q & l2 & E).
      assert (F : first_binding s x l = Some (q, v)) by (apply first_binding_some; exists l1, l2; exact E).
      rewrite F. reflexivity.
  - rewrite <- first_binding_none. destruct (first_binding s x l) as [[q w]|]; simpl; split; congruence.
  - discriminate.
Qed.

(** the same for the scope [env_lookup] reports *)
Theorem env_lookup_innermost rho x s l :
  wf_envs s -> chain s rho l ->
  forall q v, env_lookup (S (length (envs s))) rho x s = Some (Some (q, v)) <->
    exists l1 l2, l = l1 ++ q :: l2 /\ bind_of s q x = Some v /\ forall i, In i l1 -> bind_of s i x = None.
Proof.
  intros W C q v. rewrite (env_lookup_chain_wf _ x _ _ W C). rewrite <- first_binding_some.
  split; congruence.
Qed.

(* ---------------------------------------------------------------- *)
(** ** [Define] *)

Lemma env_define_inv rho x v s s' :
  env_define rho x v s = Some s' ->
  exists b p, nth_error (envs s) rho = Some (b, p) /\
              s' = set_envs s (set_nth rho (alist_set x v b, p) (envs s)).
Proof.
  unfold env_define. destruct (nth_error (envs s) rho) as [[b p]|] eqn:E; [|discriminate].
  intros H. injection H as <-. eauto.
Qed.

Lemma env_define_some rho x v s : rho < length (envs s) -> exists s', env_define rho x v s = Some s'.
Proof.
  intros H. unfold env_define. destruct (nth_error (envs s) rho) as [[b p]|] eqn:E; [eauto|].
  apply nth_error_None in E. lia.
Qed.

Lemma env_define_nth rho x v s s' :
  env_define rho x v s = Some s' ->
  exists b p, nth_error (envs s) rho = Some (b, p) /\
    nth_error (envs s') rho = Some (alist_set x v b, p) /\
    (forall i, i <> rho -> nth_error (envs s') i = nth_error (envs s) i) /\
    length (envs s') = length (envs s).
Proof.
  intros H. destruct (env_define_inv _ _ _ _ _ H) as (b & p & E & ->). exists b, p.
  pose proof (nth_error_lt _ _ _ E) as Hlt. cbn [set_envs envs].
  split; [exact E|split; [|split]].
  - apply nth_error_set_nth_same. exact Hlt.
  - intros i Hi. apply nth_error_set_nth_other. exact Hi.
  - apply set_nth_length.
Qed.

Lemma env_define_rest rho x v s s' :
  env_define rho x v s = Some s' ->
  arrs s' = arrs s /\ objs s' = objs s /\ funs s' = funs s /\ out s' = out s /\ inp s' = inp s /\ tick s' = tick s.
Proof.
  intros H. destruct (env_define_inv _ _ _ _ _ H) as (b & p & E & ->). cbn. tauto.
Qed.

(** A5. [Define] touches the current scope only: afterwards [rho] maps [x] to [v];
    every other binding of [rho] and every other scope is unchanged; the domain of
    [rho] gains [x] at the end, or is unchanged if [x] was bound (overwrite); parents,
    the number of scopes and the rest of the store are unchanged. *)
Theorem define_only_current rho x v s s' :
  env_define rho x v s = Some s' ->
  bind_of s' rho x = Some v /\
  (forall y, y <> x -> bind_of s' rho y = bind_of s rho y) /\
  (forall i, i <> rho -> nth_error (envs s') i = nth_error (envs s) i) /\
  edom s' rho = (match bind_of s rho x with Some _ => edom s rho | None => edom s rho ++ [x] end) /\
  (forall i, epar s' i = epar s i) /\
  length (envs s') = length (envs s) /\
  arrs s' = arrs s /\ objs s' = objs s /\ funs s' = funs s /\ out s' = out s /\ inp s' = inp s /\ tick s' = tick s.
Proof.
  intros H. destruct (env_define_nth _ _ _ _ _ H) as (b & p & E & E' & Ho & Hl).
  pose proof (env_define_rest _ _ _ _ _ H) as R.
  unfold bind_of, edom, binds_of, epar. rewrite E, E'.
  split; [apply assoc_alist_set_same|].
  split; [intros y Hy; apply assoc_alist_set_other; exact Hy|].
  split; [exact Ho|].
  split; [apply dom_alist_set|].
  split; [|split; [exact Hl|exact R]].
  intros i. destruct (Nat.eq_dec i rho) as [->|Hi]; [rewrite E, E'; reflexivity|rewrite (Ho i Hi); reflexivity].
Qed.

(** consequences in the vocabulary of [edom]/[epar]/[bind_of] for arbitrary scopes *)
Lemma define_bind_of_other rho x v s s' i y :
  env_define rho x v s = Some s' -> (i, y) <> (rho, x) -> bind_of s' i y = bind_of s i y.
Proof.
  intros H Hne. destruct (define_only_current _ _ _ _ _ H) as (_ & Hy & Ho & _).
  destruct (Nat.eq_dec i rho) as [->|Hi].
  - apply Hy. intros ->. apply Hne. reflexivity.
  - unfold bind_of, binds_of. rewrite (Ho i Hi). reflexivity.
Qed.

Lemma define_edom_other rho x v s s' i :
  env_define rho x v s = Some s' -> i <> rho -> edom s' i = edom s i.
Proof.
  intros H Hi. destruct (define_only_current _ _ _ _ _ H) as (_ & _ & Ho & _).
  unfold edom, binds_of. rewrite (Ho i Hi). reflexivity.
Qed.

Lemma define_edom_ext rho x v s s' i :
  env_define rho x v s = Some s' -> exists ext, edom s' i = edom s i ++ ext.
Proof.
  intros H. destruct (Nat.eq_dec i rho) as [->|Hi].
  - destruct (define_only_current _ _ _ _ _ H) as (_ & _ & _ & Hd & _). rewrite Hd.
    destruct (bind_of s rho x); [exists []; rewrite app_nil_r; reflexivity | exists [x]; reflexivity].
  - exists []. rewrite app_nil_r. eapply define_edom_other; eauto.
Qed.

(** overwriting a bound name leaves every domain as it was *)
Lemma define_bound_edom rho x v s s' old i :
  env_define rho x v s = Some s' -> bind_of s rho x = Some old -> edom s' i = edom s i.
Proof.
  intros H Hb. destruct (Nat.eq_dec i rho) as [->|Hi].
  - destruct (define_only_current _ _ _ _ _ H) as (_ & _ & _ & Hd & _). rewrite Hd, Hb. reflexivity.
  - eapply define_edom_other; eauto.
Qed.

Lemma wf_envs_define rho x v s s' : env_define rho x v s = Some s' -> wf_envs s -> wf_envs s'.
Proof.
  intros H W i b p Hi. destruct (env_define_nth _ _ _ _ _ H) as (b0 & p0 & E & E' & Ho & _).
  destruct (Nat.eq_dec i rho) as [->|Hne].
  - rewrite E' in Hi. injection Hi as _ ->. eapply W; eauto.
  - rewrite (Ho i Hne) in Hi. eapply W; eauto.
Qed.

(* ---------------------------------------------------------------- *)
(** ** [Assign] *)

Lemma env_lookup_found f : forall rho x s q old,
  env_lookup f rho x s = Some (Some (q, old)) -> bind_of s q x = Some old.
Proof.
  induction f as [|f IH]; intros rho x s q old H; simpl in H; [discriminate|].
  destruct (nth_error (envs s) rho) as [[b p]|] eqn:E; [|discriminate].
  destruct (assoc x b) as [w|] eqn:A.
  - injection H as <- <-. unfold bind_of, binds_of. rewrite E. exact A.
  - destruct p as [p|]; [eauto|discriminate].
Qed.

Lemma env_lookup_after_define f : forall rho x v s s' q old,
  env_lookup f rho x s = Some (Some (q, old)) -> env_define q x v s = Some s' ->
  env_lookup f rho x s' = Some (Some (q, v)).
Proof.
  induction f as [|f IH]; intros rho x v s s' q old H D; simpl in H |- *; [discriminate|].
  destruct (env_define_nth _ _ _ _ _ D) as (bq & pq & Eq & Eq' & Ho & _).
  destruct (Nat.eq_dec rho q) as [->|Hne].
  - rewrite Eq'. rewrite assoc_alist_set_same. reflexivity.
  - rewrite (Ho rho Hne).
    destruct (nth_error (envs s) rho) as [[b p]|] eqn:E; [|discriminate].
    destruct (assoc x b) as [w|] eqn:A.
    + injection H as H1 H2. congruence.
    + destruct p as [p|]; [eauto|discriminate].
Qed.

(** a lookup of another name, or one that stops elsewhere, is not disturbed *)
Lemma env_lookup_define_other f : forall rho x y v s s' q,
  env_define q x v s = Some s' -> y <> x -> env_lookup f rho y s' = env_lookup f rho y s.
Proof.
  induction f as [|f IH]; intros rho x y v s s' q D Hy; simpl; [reflexivity|].
  destruct (env_define_nth _ _ _ _ _ D) as (bq & pq & Eq & Eq' & Ho & _).
  destruct (Nat.eq_dec rho q) as [->|Hne].
  - rewrite Eq', Eq. rewrite (assoc_alist_set_other x y v bq Hy).
    destruct (assoc y bq); [reflexivity|]. destruct pq; [eauto|reflexivity].
  - rewrite (Ho rho Hne). destruct (nth_error (envs s) rho) as [[b p]|]; [|reflexivity].
    destruct (assoc y b); [reflexivity|]. destruct p; [eauto|reflexivity].
Qed.

Lemma env_assign_inv rho x v s s' :
  env_assign rho x v s = Some (Some s') ->
  exists q old, env_lookup (S (length (envs s))) rho x s = Some (Some (q, old)) /\ env_define q x v s = Some s'.
Proof.
  unfold env_assign. destruct (env_lookup (S (length (envs s))) rho x s) as [[[q old]|]|]; try discriminate.
  destruct (env_define q x v s) as [s1|] eqn:D; [|discriminate].
  intros H. injection H as <-. eauto.
Qed.

(** A2. After a successful [Assign], [Get] from the same scope sees the new value, and
    the scope that changed is the one the lookup found. *)
Theorem assign_updates_what_get_sees rho x v s s' :
  env_assign rho x v s = Some (Some s') ->
  env_get rho x s' = Some (Some v) /\
  exists q old, env_lookup (S (length (envs s))) rho x s = Some (Some (q, old)) /\ env_define q x v s = Some s'.
Proof.
  intros H. destruct (env_assign_inv _ _ _ _ _ H) as (q & old & L & D). split; [|eauto].
  unfold env_get. destruct (env_define_nth _ _ _ _ _ D) as (_ & _ & _ & _ & _ & Hl). rewrite Hl.
  rewrite (env_lookup_after_define _ _ _ _ _ _ _ _ L D). reflexivity.
Qed.

(** A3. [Assign] changes one value and nothing else: the number of scopes, every
    parent and every domain are unchanged; every binding other than [x] in the scope
    [q] that was found is unchanged; the heap, the output and the input are unchanged. *)
Theorem assign_frame rho x v s s' :
  env_assign rho x v s = Some (Some s') ->
  exists q old, env_lookup (S (length (envs s))) rho x s = Some (Some (q, old)) /\
  length (envs s') = length (envs s) /\
  (forall i, epar s' i = epar s i /\ edom s' i = edom s i) /\
  (forall i y, (i, y) <> (q, x) -> bind_of s' i y = bind_of s i y) /\
  bind_of s q x = Some old /\ bind_of s' q x = Some v /\
  arrs s' = arrs s /\ objs s' = objs s /\ funs s' = funs s /\ out s' = out s /\ inp s' = inp s /\ tick s' = tick s.
Proof.
  intros H. destruct (env_assign_inv _ _ _ _ _ H) as (q & old & L & D). exists q, old.
  pose proof (env_lookup_found _ _ _ _ _ _ L) as Hb.
  destruct (define_only_current _ _ _ _ _ D) as (Hv & _ & _ & _ & Hp & Hl & R).
  split; [exact L|split; [exact Hl|split; [|split; [|split; [exact Hb|split; [exact Hv|exact R]]]]]].
  - intros i. split; [apply Hp|]. eapply define_bound_edom; eauto.
  - intros i y Hne. eapply define_bind_of_other; eauto.
Qed.

(** A4. [Assign] fails with "undefined" exactly when [Get] does (no well-formedness needed) *)
Theorem get_none_iff_assign_fails rho x v s :
  env_get rho x s = Some None <-> env_assign rho x v s = Some None.
Proof.
  unfold env_get, env_assign.
  destruct (env_lookup (S (length (envs s))) rho x s) as [[[q old]|]|]; try tauto.
  - destruct (env_define q x v s); split; discriminate.
  - split; discriminate.
Qed.

(** under [wf_envs], an [Assign] to an allocated scope never dangles either *)
Lemma env_assign_total rho x v s :
  wf_envs s -> rho < length (envs s) -> env_assign rho x v s <> None.
Proof.
  intros W Hlt. destruct (chain_exists _ W _ Hlt) as [l C].
  unfold env_assign. rewrite (env_lookup_chain_wf _ x _ _ W C).
  destruct (first_binding s x l) as [[q old]|] eqn:F; [|discriminate].
  apply first_binding_some in F. destruct F as (l1 & l2 & -> & _ & _).
  assert (Hq : q < length (envs s)) by (eapply chain_allocated; [exact C|apply in_or_app; right; left; reflexivity]).
  destruct (env_define_some q x v s Hq) as [s' ->]. discriminate.
Qed.

Lemma wf_envs_assign rho x v s s' : env_assign rho x v s = Some (Some s') -> wf_envs s -> wf_envs s'.
Proof.
  intros H W. destruct (env_assign_inv _ _ _ _ _ H) as (q & old & _ & D). eapply wf_envs_define; eauto.
Qed.

(* ---------------------------------------------------------------- *)
(** ** allocation *)

(** A6. A new scope gets the next id, is empty, has the requested parent, and no
    existing scope is touched. *)
Theorem alloc_env_fresh p s i s' :
  alloc_env p s = (i, s') ->
  i = length (envs s) /\ nth_error (envs s') i = Some ([], p) /\
  (forall j, j < i -> nth_error (envs s') j = nth_error (envs s) j) /\
  length (envs s') = S (length (envs s)) /\
  arrs s' = arrs s /\ objs s' = objs s /\ funs s' = funs s /\ out s' = out s /\ inp s' = inp s /\ tick s' = tick s.
Proof.
  unfold alloc_env. intros H. injection H as <- <-. cbn [envs arrs objs funs out inp tick].
  split; [reflexivity|split; [|split; [|split]]].
  - rewrite nth_error_app2 by lia. rewrite Nat.sub_diag. reflexivity.
  - intros j Hj. apply nth_error_app1. exact Hj.
  - rewrite app_length. simpl. lia.
  - tauto.
Qed.

Lemma wf_envs_alloc p s i s' :
  alloc_env p s = (i, s') -> (forall q, p = Some q -> q < length (envs s)) -> wf_envs s -> wf_envs s'.
Proof.
  intros H Hp W j b q Hj. destruct (alloc_env_fresh _ _ _ _ H) as (-> & Hn & Ho & Hl & _).
  destruct (Nat.lt_ge_cases j (length (envs s))) as [Hlt|Hge].
  - rewrite (Ho j Hlt) in Hj. eapply W; eauto.
  - pose proof (nth_error_lt _ _ _ Hj) as Hj'. assert (j = length (envs s)) by lia. subst j.
    rewrite Hn in Hj. injection Hj as _ ->. apply Hp. reflexivity.
Qed.

Lemma wf_envs_same_envs s s' : envs s' = envs s -> wf_envs s -> wf_envs s'.
Proof. intros E W i b p H. rewrite E in H. eapply W; eauto. Qed.

Lemma wf_envs_alloc_arr vs s : wf_envs s -> wf_envs (snd (alloc_arr vs s)).
Proof. apply wf_envs_same_envs. reflexivity. Qed.
Lemma wf_envs_alloc_obj ps s : wf_envs s -> wf_envs (snd (alloc_obj ps s)).
Proof. apply wf_envs_same_envs. reflexivity. Qed.
Lemma wf_envs_alloc_fun c s : wf_envs s -> wf_envs (snd (alloc_fun c s)).
Proof. apply wf_envs_same_envs. reflexivity. Qed.
Lemma wf_envs_set_arr l vs s : wf_envs s -> wf_envs (set_arr l vs s).
Proof. apply wf_envs_same_envs. reflexivity. Qed.
Lemma wf_envs_set_obj l ps s : wf_envs s -> wf_envs (set_obj l ps s).
Proof. apply wf_envs_same_envs. reflexivity. Qed.
Lemma wf_envs_emit e s : wf_envs s -> wf_envs (emit e s).
Proof. apply wf_envs_same_envs. reflexivity. Qed.
Lemma wf_envs_set_inp i s : wf_envs s -> wf_envs (set_inp i s).
Proof. apply wf_envs_same_envs. reflexivity. Qed.
Lemma wf_envs_bump_tick s : wf_envs s -> wf_envs (bump_tick s).
Proof. apply wf_envs_same_envs. reflexivity. Qed.

Lemma wf_envs_init stdin : wf_envs (init_state stdin).
Proof.
  intros i b p H. unfold init_state in H. cbn [envs] in H.
  destruct i as [|[|i]]; simpl in H; try discriminate.
  - injection H as _ <-. lia.
  - destruct i; discriminate.
Qed.

(** a chain only looks at the scopes below its start: it survives any change that
    keeps those scopes' parents *)
Lemma chain_preserved s s' rho l :
  chain s rho l -> wf_envs s -> (forall i, i <= rho -> epar s' i = epar s i) -> chain s' rho l.
Proof.
  intros C W. induction C as [rho b H|rho b p l H C IH]; intros Hp.
  - pose proof (Hp rho (le_n _)) as E. unfold epar in E. rewrite H in E.
    destruct (nth_error (envs s') rho) as [[b' p']|] eqn:E'; simpl in E; [|discriminate].
    injection E as ->. eapply chain_root; eauto.
  - pose proof (Hp rho (le_n _)) as E. unfold epar in E. rewrite H in E.
    destruct (nth_error (envs s') rho) as [[b' p']|] eqn:E'; simpl in E; [|discriminate].
    injection E as ->. eapply chain_step; [exact E'|]. apply IH.
    intros i Hi. apply Hp. apply W in H. lia.
Qed.

(* ---------------------------------------------------------------- *)
(** ** [ধরি]: redeclaration is an error only in the very same scope *)

Section Redeclare.
Variable libm : N -> f64 -> f64 -> f64.
Variable clock : f64.
Variable sched : N -> list (list N * value) -> list (list N * value).
Notation eval := (eval libm clock sched).
Notation exec_var := (exec_var libm clock sched).

(** the initializer of a declarator, evaluated in [rho] ([nil] if there is none) *)
Definition eval_init (f : nat) (init : option expr) (rho : nat) (s : state) : res value :=
  match init with Some e => eval f e rho s | None => Ok VNil s end.

(** A7. Once the initializer has evaluated to [v] in store [s1]:
    - if [x] is bound in scope [rho] itself, the result is [Err RRedeclare] at the
      declarator's line, carrying [s1] unchanged;
    - otherwise -- whether or not an enclosing scope binds [x]: shadowing is never an
      error -- [x] is defined in [rho], and only there ([define_only_current]);
    - if the initializer itself fails or crashes, so does the declaration, identically. *)
Theorem exec_var_redeclare f x init line rho s :
  (forall v s1, eval_init f init rho s = Ok v s1 ->
     (forall old, env_get_here rho x s1 = Some (Some old) ->
        exec_var (S f) (x, init, line) rho s = Err RRedeclare line s1) /\
     (env_get_here rho x s1 = Some None ->
        exists s2, exec_var (S f) (x, init, line) rho s = Ok SigNone s2 /\
          env_define rho x v s1 = Some s2 /\
          bind_of s2 rho x = Some v /\ edom s2 rho = edom s1 rho ++ [x] /\
          (forall i, i <> rho -> nth_error (envs s2) i = nth_error (envs s1) i) /\
          (forall y, y <> x -> bind_of s2 rho y = bind_of s1 rho y) /\
          (forall i, epar s2 i = epar s1 i))) /\
  (forall e l s1, eval_init f init rho s = Err e l s1 -> exec_var (S f) (x, init, line) rho s = Err e l s1) /\
  (forall s1, eval_init f init rho s = Crash s1 -> exec_var (S f) (x, init, line) rho s = Crash s1).
Proof.
  rewrite exec_var_S. fold (eval_init f init rho s).
  split; [|split].
  - intros v s1 E. rewrite E. cbn [bind]. split.
    + intros old H. rewrite H. reflexivity.
    + intros H. rewrite H.
      assert (Hr : rho < length (envs s1)).
      { unfold env_get_here in H. destruct (nth_error (envs s1) rho) eqn:En; [|discriminate].
        eapply nth_error_lt; eauto. }
      destruct (env_define_some rho x v s1 Hr) as [s2 D]. rewrite D. exists s2.
      destruct (define_only_current _ _ _ _ _ D) as (A1 & A2 & A3 & A4 & A5 & _).
      assert (Hb : bind_of s1 rho x = None).
      { rewrite env_get_here_bind_of in H. apply Nat.ltb_lt in Hr. rewrite Hr in H. congruence. }
      rewrite Hb in A4. auto 10.
  - intros e l s1 E. rewrite E. reflexivity.
  - intros s1 E. rewrite E. reflexivity.
Qed.

(** the converse: a redeclaration error raised by the declaration itself (not by its
    initializer) means the name is bound in the current scope *)
Theorem exec_var_redeclare_only_if f x init line rho s v s1 l s' :
  eval_init f init rho s = Ok v s1 ->
  exec_var (S f) (x, init, line) rho s = Err RRedeclare l s' ->
  l = line /\ s' = s1 /\ exists old, env_get_here rho x s1 = Some (Some old).
Proof.
  intros E H. rewrite exec_var_S in H. fold (eval_init f init rho s) in H. rewrite E in H. cbn [bind] in H.
  destruct (env_get_here rho x s1) as [[old|]|]; try discriminate.
  - injection H as -> ->. eauto.
  - destruct (env_define rho x v s1); discriminate.
Qed.

(** shadowing: an outer binding of [x] does not matter *)
Corollary exec_var_shadows f x init line rho s v s1 outer :
  eval_init f init rho s = Ok v s1 -> env_get_here rho x s1 = Some None ->
  env_get rho x s1 = Some (Some outer) ->
  exists s2, exec_var (S f) (x, init, line) rho s = Ok SigNone s2 /\ env_get_here rho x s2 = Some (Some v).
Proof.
  intros E H _. destruct (exec_var_redeclare f x init line rho s) as (A & _).
  destruct (A v s1 E) as (_ & B). destruct (B H) as (s2 & R & D & Hb & _).
  exists s2. split; [exact R|]. rewrite env_get_here_bind_of.
  destruct (env_define_nth _ _ _ _ _ D) as (b & p & E1 & _ & _ & Hl).
  apply nth_error_lt in E1. rewrite Hl. apply Nat.ltb_lt in E1. rewrite E1, Hb. reflexivity.
Qed.

End Redeclare.

Print Assumptions env_get_innermost.
Print Assumptions assign_updates_what_get_sees.
Print Assumptions assign_frame.
Print Assumptions define_only_current.
Print Assumptions alloc_env_fresh.
Print Assumptions exec_var_redeclare.
