(** Evaluation order: operands are evaluated once, left to right; the logical
    operators short-circuit on truthiness and yield the deciding operand's value;
    checks happen at fixed points of that order. *)
From Borno Require Import Base Num Unicode Token Ast Value Eval EvalEqs EvalMeta.
Open Scope N_scope.

(* ------------------------------------------------------------------ *)
(** * C1. Truthiness *)

(** Falsy values are exactly: nil, false, the number zero (either sign), the empty
    string.  So NaN, every non-zero number, every non-empty string (including "0"
    and "false"), every array and object (empty or not), every function and
    built-in are truthy. *)
Theorem truthy_spec v :
  truthy v = false <->
  v = VNil \/ v = VBool false \/ (exists x, v = VNum x /\ f_is_zero x = true) \/ v = VStr [].
Proof.
  split.
  - destruct v as [|b|x|t|l|l|l|n]; simpl; intros H; try discriminate H.
    + left; reflexivity.
    + right; left. rewrite H; reflexivity.
    + right; right; left. exists x. split; [reflexivity|].
      destruct (f_is_zero x); [reflexivity|discriminate H].
    + right; right; right. destruct t; [reflexivity|discriminate H].
  - intros [-> | [-> | [(x & -> & Hx) | ->]]]; simpl; try reflexivity.
    rewrite Hx; reflexivity.
Qed.

Corollary truthy_true_cases v :
  truthy v = true <->
  v = VBool true \/ (exists x, v = VNum x /\ f_is_zero x = false) \/
  (exists c t, v = VStr (c :: t)) \/ (exists l, v = VArr l) \/ (exists l, v = VObj l) \/
  (exists l, v = VFun l) \/ (exists n, v = VNative n).
Proof.
  split.
  - destruct v as [|b|x|t|l|l|l|n]; simpl; intros H; try discriminate H.
    + left. rewrite H; reflexivity.
    + right; left. exists x. split; [reflexivity|]. destruct (f_is_zero x); [discriminate H|reflexivity].
    + right; right; left. destruct t as [|c t]; [discriminate H|]. eauto.
    + right; right; right; left. eauto.
    + right; right; right; right; left. eauto.
    + right; right; right; right; right; left. eauto.
    + right; right; right; right; right; right. eauto.
  - intros [-> | [(x & -> & Hx) | [(c & t & ->) | [(l & ->) | [(l & ->) | [(l & ->) | (n & ->)]]]]]]; simpl; try reflexivity.
    rewrite Hx; reflexivity.
Qed.

(* ------------------------------------------------------------------ *)
(** * Failures, retyped *)

(** the ways a computation can end without a value *)
Inductive failure := FErr (e : rterr) (l : N) (s : state) | FCrash (s : state) | FFuel | FStuck.

Definition fail_res {A} (x : failure) : res A :=
  match x with FErr e l s => Err e l s | FCrash s => Crash s | FFuel => Fuel | FStuck => Stuck end.

Lemma bind_fail {A B} x (k : A -> state -> res B) : bind (fail_res x) k = fail_res x.
Proof. destruct x; reflexivity. Qed.

Lemma fail_not_ok {A} x (a : A) s : fail_res x <> Ok a s.
Proof. destruct x; discriminate. Qed.

Lemma res_cases {A} (r : res A) : (exists a s, r = Ok a s) \/ (exists x, r = fail_res x).
Proof.
  destruct r as [a s|e l s| | |s].
  - left; eauto.
  - right; exists (FErr e l s); reflexivity.
  - right; exists FFuel; reflexivity.
  - right; exists FStuck; reflexivity.
  - right; exists (FCrash s); reflexivity.
Qed.

(** a continuation that always succeeds cannot be the source of a failure *)
Lemma bind_total_fail {A B} (r : res A) (g : A -> B) x :
  bind r (fun a s => Ok (g a) s) = fail_res x -> r = fail_res x.
Proof. destruct r; destruct x; simpl; intros H; try discriminate H; inversion H; reflexivity. Qed.

Lemma bind_assoc {A B C} (r : res A) (k1 : A -> state -> res B) (k2 : B -> state -> res C) :
  bind (bind r k1) k2 = bind r (fun a s => bind (k1 a s) k2).
Proof. destruct r; reflexivity. Qed.

Section Order.
Variable libm : N -> f64 -> f64 -> f64.
Variable clock : f64.
Variable sched : N -> list (list N * value) -> list (list N * value).

Notation eval := (eval libm clock sched).
Notation eval_list := (eval_list libm clock sched).
Notation eval_props := (eval_props libm clock sched).
Notation exec := (exec libm clock sched).
Notation exec_var := (exec_var libm clock sched).
Notation exec_vars := (exec_vars libm clock sched).
Notation exec_list := (exec_list libm clock sched).
Notation exec_while := (exec_while libm clock sched).
Notation exec_for := (exec_for libm clock sched).
Notation call_native := (call_native libm clock sched).

(* ------------------------------------------------------------------ *)
(** * C2. Short-circuit *)

(** [l || r]: a truthy left operand IS the result, in the state the left operand
    left: the right operand is not evaluated. *)
Theorem or_short f l r rho s a s1 :
  eval f l rho s = Ok a s1 -> truthy a = true ->
  eval (S f) (ELogical TLOGICAL_OR l r) rho s = Ok a s1.
Proof. intros E T. rewrite eval_S, E. cbn [bind]. rewrite T. reflexivity. Qed.

(** a falsy left operand is dropped: the result is exactly the right operand's
    evaluation (its own value, not a boolean), started in the left operand's state *)
Theorem or_right f l r rho s a s1 :
  eval f l rho s = Ok a s1 -> truthy a = false ->
  eval (S f) (ELogical TLOGICAL_OR l r) rho s = eval f r rho s1.
Proof. intros E T. rewrite eval_S, E. cbn [bind]. rewrite T. reflexivity. Qed.

(** every other operator kind in an [ELogical] node behaves as [&&] (the parser only
    builds [TLOGICAL_AND] there): a falsy left operand is the result, and the right
    operand is not evaluated *)
Theorem and_short f op l r rho s a s1 :
  tkind_eqb op TLOGICAL_OR = false ->
  eval f l rho s = Ok a s1 -> truthy a = false ->
  eval (S f) (ELogical op l r) rho s = Ok a s1.
Proof. intros O E T. rewrite eval_S, E. cbn [bind]. rewrite O, T. reflexivity. Qed.

Theorem and_right f op l r rho s a s1 :
  tkind_eqb op TLOGICAL_OR = false ->
  eval f l rho s = Ok a s1 -> truthy a = true ->
  eval (S f) (ELogical op l r) rho s = eval f r rho s1.
Proof. intros O E T. rewrite eval_S, E. cbn [bind]. rewrite O, T. reflexivity. Qed.

Corollary and_short_and f l r rho s a s1 :
  eval f l rho s = Ok a s1 -> truthy a = false ->
  eval (S f) (ELogical TLOGICAL_AND l r) rho s = Ok a s1.
Proof. apply and_short; reflexivity. Qed.

Corollary and_right_and f l r rho s a s1 :
  eval f l rho s = Ok a s1 -> truthy a = true ->
  eval (S f) (ELogical TLOGICAL_AND l r) rho s = eval f r rho s1.
Proof. apply and_right; reflexivity. Qed.

Theorem logical_left_fails f op l r rho s x :
  eval f l rho s = fail_res x -> eval (S f) (ELogical op l r) rho s = fail_res x.
Proof. intros E. rewrite eval_S, E. apply bind_fail. Qed.

(** summary: the value of a logical node is always the value of one of its operands *)
Theorem logical_value f op l r rho s v s' :
  eval (S f) (ELogical op l r) rho s = Ok v s' ->
  (eval f l rho s = Ok v s') \/
  (exists a s1, eval f l rho s = Ok a s1 /\ eval f r rho s1 = Ok v s').
Proof.
  rewrite eval_S. intros H. bdo H as a s1 E.
  destruct (tkind_eqb op TLOGICAL_OR); destruct (truthy a).
  - inversion H; subst. left; exact E.
  - right. exists a, s1. split; [exact E|exact H].
  - right. exists a, s1. split; [exact E|exact H].
  - inversion H; subst. left; exact E.
Qed.

(* ------------------------------------------------------------------ *)
(** * C3. Strict nodes: left to right, each operand once *)

Lemma group_transparent f e line rho s : eval (S f) (EGroup e line) rho s = eval f e rho s.
Proof. rewrite eval_S; reflexivity. Qed.

(** ** unary *)
Theorem unary_operand_fails f op e line rho s x :
  eval f e rho s = fail_res x -> eval (S f) (EUnary op e line) rho s = fail_res x.
Proof. intros E. rewrite eval_S, E. apply bind_fail. Qed.

Theorem unary_ok f op e line rho s v s1 :
  eval f e rho s = Ok v s1 ->
  eval (S f) (EUnary op e line) rho s = lift_ores (unop op v) line s1 (fun r => Ok r s1).
Proof. intros E. rewrite eval_S, E. reflexivity. Qed.

(** ** binary: left operand, then right operand (in the left one's state), then the operator *)
Theorem binary_left_to_right f op l r line rho s :
  eval (S f) (EBinary op l r line) rho s =
    (let* (a, s1) := eval f l rho s in
     let* (b, s2) := eval f r rho s1 in
     lift_ores (binop libm s2 op a b) line s2 (fun v => Ok v s2)).
Proof. rewrite eval_S; reflexivity. Qed.

Theorem binary_left_fails f op l r line rho s x :
  eval f l rho s = fail_res x -> eval (S f) (EBinary op l r line) rho s = fail_res x.
Proof. intros E. rewrite eval_S, E. apply bind_fail. Qed.

(** the instance asked for: an error in the left operand is the node's error; the
    right operand is never evaluated *)
Corollary binary_left_err f op l r line rho s e ln s1 :
  eval f l rho s = Err e ln s1 -> eval (S f) (EBinary op l r line) rho s = Err e ln s1.
Proof. intros E. exact (binary_left_fails f op l r line rho s (FErr e ln s1) E). Qed.

Theorem binary_right_fails f op l r line rho s a s1 x :
  eval f l rho s = Ok a s1 -> eval f r rho s1 = fail_res x ->
  eval (S f) (EBinary op l r line) rho s = fail_res x.
Proof. intros E1 E2. rewrite eval_S, E1. cbn [bind]. rewrite E2. apply bind_fail. Qed.

Theorem binary_ok f op l r line rho s a s1 b s2 :
  eval f l rho s = Ok a s1 -> eval f r rho s1 = Ok b s2 ->
  eval (S f) (EBinary op l r line) rho s = lift_ores (binop libm s2 op a b) line s2 (fun v => Ok v s2).
Proof. intros E1 E2. rewrite eval_S, E1. cbn [bind]. rewrite E2. reflexivity. Qed.

(** ** index: array expression, then index expression, then the checks *)
Theorem index_arr_fails f ae ie line rho s x :
  eval f ae rho s = fail_res x -> eval (S f) (EIndex ae ie line) rho s = fail_res x.
Proof. intros E. rewrite eval_S, E. apply bind_fail. Qed.

Theorem index_idx_fails f ae ie line rho s a s1 x :
  eval f ae rho s = Ok a s1 -> eval f ie rho s1 = fail_res x ->
  eval (S f) (EIndex ae ie line) rho s = fail_res x.
Proof. intros E1 E2. rewrite eval_S, E1. cbn [bind]. rewrite E2. apply bind_fail. Qed.

(** even when the first operand is not an array, the index expression is evaluated
    (with its effects) before that is reported *)
Theorem index_not_array_after_index f ae ie line rho s a s1 i s2 :
  eval f ae rho s = Ok a s1 -> eval f ie rho s1 = Ok i s2 -> (forall l, a <> VArr l) ->
  eval (S f) (EIndex ae ie line) rho s = Err RNotArrayAccess line s2.
Proof.
  intros E1 E2 N. rewrite eval_S, E1. cbn [bind]. rewrite E2. cbn [bind].
  destruct a; try reflexivity. exfalso; eapply N; reflexivity.
Qed.

Theorem index_ok f ae ie line rho s l s1 i s2 :
  eval f ae rho s = Ok (VArr l) s1 -> eval f ie rho s1 = Ok i s2 ->
  eval (S f) (EIndex ae ie line) rho s =
    match get_arr l s2 with
    | Some vs =>
        match index_of vs i with
        | None => Err RIndexInteger line s2
        | Some None => Err RIndexBounds line s2
        | Some (Some n) => match nth_error vs n with Some v => Ok v s2 | None => Stuck end
        end
    | None => Stuck
    end.
Proof. intros E1 E2. rewrite eval_S, E1. cbn [bind]. rewrite E2. reflexivity. Qed.

(** ** element assignment: array, index, value, and only then the checks *)
Theorem arrassign_arr_fails f ae ie ve line rho s x :
  eval f ae rho s = fail_res x -> eval (S f) (EArrAssign ae ie ve line) rho s = fail_res x.
Proof. intros E. rewrite eval_S, E. apply bind_fail. Qed.

Theorem arrassign_idx_fails f ae ie ve line rho s a s1 x :
  eval f ae rho s = Ok a s1 -> eval f ie rho s1 = fail_res x ->
  eval (S f) (EArrAssign ae ie ve line) rho s = fail_res x.
Proof. intros E1 E2. rewrite eval_S, E1. cbn [bind]. rewrite E2. apply bind_fail. Qed.

Theorem arrassign_val_fails f ae ie ve line rho s a s1 i s2 x :
  eval f ae rho s = Ok a s1 -> eval f ie rho s1 = Ok i s2 -> eval f ve rho s2 = fail_res x ->
  eval (S f) (EArrAssign ae ie ve line) rho s = fail_res x.
Proof.
  intros E1 E2 E3. rewrite eval_S, E1. cbn [bind]. rewrite E2. cbn [bind]. rewrite E3. apply bind_fail.
Qed.

Theorem arrassign_checks f ae ie ve line rho s a s1 i s2 v s3 :
  eval f ae rho s = Ok a s1 -> eval f ie rho s1 = Ok i s2 -> eval f ve rho s2 = Ok v s3 ->
  eval (S f) (EArrAssign ae ie ve line) rho s =
    match a with
    | VArr l =>
        match get_arr l s3 with
        | Some vs =>
            match index_of vs i with
            | None => Err RIndexInteger line s3
            | Some None => Err RIndexBounds line s3
            | Some (Some n) => Ok v (set_arr l (set_nth n v vs) s3)
            end
        | None => Stuck
        end
    | _ => Err RNotArrayAssign line s3
    end.
Proof.
  intros E1 E2 E3. rewrite eval_S, E1. cbn [bind]. rewrite E2. cbn [bind]. rewrite E3. reflexivity.
Qed.

(** ** property read *)
Theorem prop_obj_fails f oe p line rho s x :
  eval f oe rho s = fail_res x -> eval (S f) (EProp oe p line) rho s = fail_res x.
Proof. intros E. rewrite eval_S, E. apply bind_fail. Qed.

(** ** property assignment: object, the not-an-object check, THEN the value *)
Theorem propassign_obj_fails f oe p ve line rho s x :
  eval f oe rho s = fail_res x -> eval (S f) (EPropAssign oe p ve line) rho s = fail_res x.
Proof. intros E. rewrite eval_S, E. apply bind_fail. Qed.

Theorem propassign_not_object f oe p ve line rho s o s1 :
  eval f oe rho s = Ok o s1 -> (forall l, o <> VObj l) ->
  eval (S f) (EPropAssign oe p ve line) rho s = Err RNotObjectAssign line s1.
Proof.
  intros E N. rewrite eval_S, E. cbn [bind].
  destruct o; try reflexivity. exfalso; eapply N; reflexivity.
Qed.

Theorem propassign_val_fails f oe p ve line rho s l s1 x :
  eval f oe rho s = Ok (VObj l) s1 -> eval f ve rho s1 = fail_res x ->
  eval (S f) (EPropAssign oe p ve line) rho s = fail_res x.
Proof. intros E1 E2. rewrite eval_S, E1. cbn [bind]. rewrite E2. apply bind_fail. Qed.

Theorem propassign_ok f oe p ve line rho s l s1 v s2 :
  eval f oe rho s = Ok (VObj l) s1 -> eval f ve rho s1 = Ok v s2 ->
  eval (S f) (EPropAssign oe p ve line) rho s =
    match get_obj l s2 with
    | Some ps => Ok v (set_obj l (sorted_put p v ps) s2)
    | None => Stuck
    end.
Proof. intros E1 E2. rewrite eval_S, E1. cbn [bind]. rewrite E2. reflexivity. Qed.

(** ** variable assignment: the value first, then the store *)
Theorem assign_val_fails f x nline ve line rho s y :
  eval f ve rho s = fail_res y -> eval (S f) (EAssign x nline ve line) rho s = fail_res y.
Proof. intros E. rewrite eval_S, E. apply bind_fail. Qed.

Theorem assign_ok f x nline ve line rho s v s1 :
  eval f ve rho s = Ok v s1 ->
  eval (S f) (EAssign x nline ve line) rho s =
    match env_assign rho x v s1 with
    | Some (Some s2) => Ok v s2
    | Some None => Err RUndefinedAssign nline s1
    | None => Stuck
    end.
Proof. intros E. rewrite eval_S, E. reflexivity. Qed.

(** ** calls: callee, callable check, arity check BEFORE any argument, arguments
    left to right, then the call *)
Theorem call_callee_fails f ce pline args rho s x :
  eval f ce rho s = fail_res x -> eval (S f) (ECall ce pline args) rho s = fail_res x.
Proof. intros E. rewrite eval_S, E. apply bind_fail. Qed.

Theorem call_not_callable f ce pline args rho s c s1 :
  eval f ce rho s = Ok c s1 -> (forall l, c <> VFun l) -> (forall n, c <> VNative n) ->
  eval (S f) (ECall ce pline args) rho s = Err RNotCallable pline s1.
Proof.
  intros E N1 N2. rewrite eval_S, E. cbn [bind].
  destruct c; try reflexivity; exfalso; [eapply N1|eapply N2]; reflexivity.
Qed.

(** wrong argument count: reported in the callee's state - no argument was evaluated *)
Theorem call_arity_user f ce pline args rho s l s1 clo :
  eval f ce rho s = Ok (VFun l) s1 -> get_fun l s1 = Some clo ->
  length (c_params clo) <> length args ->
  eval (S f) (ECall ce pline args) rho s = Err RArity pline s1.
Proof.
  intros E G N. rewrite eval_S, E. cbn [bind]. rewrite G.
  apply Nat.eqb_neq in N. rewrite N. reflexivity.
Qed.

Theorem call_arity_native f ce pline args rho s n s1 :
  eval f ce rho s = Ok (VNative n) s1 -> arity_ok (native_arity n) (length args) = false ->
  eval (S f) (ECall ce pline args) rho s = Err RArity pline s1.
Proof. intros E N. rewrite eval_S, E. cbn [bind]. rewrite N. reflexivity. Qed.

Theorem call_args_fail_user f ce pline args rho s l s1 clo x :
  eval f ce rho s = Ok (VFun l) s1 -> get_fun l s1 = Some clo ->
  length (c_params clo) = length args ->
  eval_list f args rho s1 = fail_res x ->
  eval (S f) (ECall ce pline args) rho s = fail_res x.
Proof.
  intros E G A El. rewrite eval_S, E. cbn [bind]. rewrite G.
  apply Nat.eqb_eq in A. rewrite A. cbn [negb]. rewrite El. apply bind_fail.
Qed.

Theorem call_args_fail_native f ce pline args rho s n s1 x :
  eval f ce rho s = Ok (VNative n) s1 -> arity_ok (native_arity n) (length args) = true ->
  eval_list f args rho s1 = fail_res x ->
  eval (S f) (ECall ce pline args) rho s = fail_res x.
Proof.
  intros E A El. rewrite eval_S, E. cbn [bind]. rewrite A. cbn [negb]. rewrite El. apply bind_fail.
Qed.

Theorem call_native_after_args f ce pline args rho s n s1 vs s2 :
  eval f ce rho s = Ok (VNative n) s1 -> arity_ok (native_arity n) (length args) = true ->
  eval_list f args rho s1 = Ok vs s2 ->
  eval (S f) (ECall ce pline args) rho s =
    match call_native n vs s2 with
    | NOk v s3 => Ok v s3
    | NFail why => Err (RCallFailed why) pline (native_fail_state n vs s2)
    | NStuck => Stuck
    end.
Proof.
  intros E A El. rewrite eval_S, E. cbn [bind]. rewrite A. cbn [negb]. rewrite El. reflexivity.
Qed.

(** (the user-function case after the arguments is [call_user_fwd] / [call_returns_value] in EvalMeta) *)

(** ** array literals and argument lists: [eval_list], left to right *)

Theorem array_elems_fail f es rho s x :
  eval_list f es rho s = fail_res x -> eval (S f) (EArray es) rho s = fail_res x.
Proof. intros E. rewrite eval_S, E. apply bind_fail. Qed.

Theorem array_ok f es rho s vs s1 :
  eval_list f es rho s = Ok vs s1 ->
  eval (S f) (EArray es) rho s = Ok (VArr (length (arrs s1))) (snd (alloc_arr vs s1)).
Proof. intros E. rewrite eval_S, E. reflexivity. Qed.

Lemma eval_list_length : forall f es rho s vs s',
  eval_list f es rho s = Ok vs s' -> length vs = length es.
Proof.
  induction f as [|f IH]; intros es rho s vs s' H; [rewrite eval_list_0 in H; discriminate H|].
  rewrite eval_list_S in H. destruct es as [|e es].
  - inversion H; reflexivity.
  - bdo H as v s1 E1. bdo H as vs' s2 E2. inversion H; subst. simpl. f_equal. eapply IH; exact E2.
Qed.

(** a failure among the first elements is the failure of the whole list: the
    elements after it are not evaluated (same fuel) *)
Theorem eval_list_app_fails : forall f es1 es2 rho s x,
  eval_list f es1 rho s = fail_res x -> eval_list f (es1 ++ es2) rho s = fail_res x.
Proof.
  induction f as [|f IH]; intros es1 es2 rho s x H.
  - rewrite eval_list_0 in H |- *. exact H.
  - rewrite eval_list_S in H. destruct es1 as [|e es1].
    + exfalso. eapply fail_not_ok. symmetry. exact H.
    + simpl app. rewrite eval_list_S.
      destruct (res_cases (eval f e rho s)) as [(v & s1 & E)|(y & E)]; rewrite E in H |- *.
      * cbn [bind] in H |- *. apply bind_total_fail with (g := fun vs => v :: vs) in H.
        rewrite (IH _ es2 _ _ _ H). apply bind_fail.
      * rewrite bind_fail in H |- *. exact H.
Qed.

(** the first elements evaluated fine: the rest is evaluated from the state they left,
    and the values are concatenated *)
Lemma eval_list_app_le es2 rho : forall es1 f g s vs1 s1,
  eval_list f es1 rho s = Ok vs1 s1 ->
  le_res (let* (vs2, s2) := eval_list g es2 rho s1 in Ok (vs1 ++ vs2) s2)
         (eval_list (f + g) (es1 ++ es2) rho s).
Proof.
  induction es1 as [|e es1 IH]; intros f g s vs1 s1 H.
  - destruct f as [|f]; [rewrite eval_list_0 in H; discriminate H|].
    rewrite eval_list_S in H. inversion H; subst. simpl app.
    destruct (mono_all libm clock sched g (S f + g) ltac:(lia)) as (_ & Hel & _).
    intros N. rewrite Hel.
    + destruct (eval_list g es2 rho s1); reflexivity.
    + intros C. apply N. rewrite C. reflexivity.
  - destruct f as [|f]; [rewrite eval_list_0 in H; discriminate H|].
    rewrite eval_list_S in H. bdo H as v s0 E. bdo H as vs' s1' E'. inversion H; subst.
    simpl app. replace (S f + g)%nat with (S (f + g)) by lia. rewrite eval_list_S.
    rewrite (eval_mono libm clock sched f (f + g) e rho s _ ltac:(lia) E ltac:(discriminate)). cbn [bind].
    pose proof (IH f g s0 vs' s1 E') as L.
    apply le_bind with (k := fun vs s2 => Ok (v :: vs) s2) (k' := fun vs s2 => Ok (v :: vs) s2) in L;
      [|intros; apply le_refl].
    rewrite bind_assoc in L. exact L.
Qed.

Theorem eval_list_app f g es1 es2 rho s vs1 s1 vs2 s2 :
  eval_list f es1 rho s = Ok vs1 s1 -> eval_list g es2 rho s1 = Ok vs2 s2 ->
  eval_list (f + g) (es1 ++ es2) rho s = Ok (vs1 ++ vs2) s2.
Proof.
  intros H1 H2. pose proof (eval_list_app_le es2 rho es1 f g s vs1 s1 H1) as L.
  rewrite H2 in L. cbn [bind] in L. apply L. discriminate.
Qed.

Theorem eval_list_app_rest_fails f g es1 es2 rho s vs1 s1 x :
  eval_list f es1 rho s = Ok vs1 s1 -> eval_list g es2 rho s1 = fail_res x -> x <> FFuel ->
  eval_list (f + g) (es1 ++ es2) rho s = fail_res x.
Proof.
  intros H1 H2 N. pose proof (eval_list_app_le es2 rho es1 f g s vs1 s1 H1) as L.
  rewrite H2, bind_fail in L. apply L. destruct x; try discriminate. exfalso; apply N; reflexivity.
Qed.

(** an error at position i: the elements before it were evaluated, the ones after it are not *)
Corollary eval_list_error_at f g es1 e es2 rho s vs1 s1 er ln s2 :
  eval_list f es1 rho s = Ok vs1 s1 -> eval g e rho s1 = Err er ln s2 ->
  eval_list (f + S g) (es1 ++ e :: es2) rho s = Err er ln s2.
Proof.
  intros H1 H2.
  apply (eval_list_app_rest_fails f (S g) es1 (e :: es2) rho s vs1 s1 (FErr er ln s2) H1); [|discriminate].
  rewrite eval_list_S, H2. reflexivity.
Qed.

(** conversely every successful evaluation of [es1 ++ es2] is one of [es1] followed by one of [es2] *)
Theorem eval_list_app_inv es2 : forall f es1 rho s vs s',
  eval_list f (es1 ++ es2) rho s = Ok vs s' ->
  exists vs1 s1 vs2, eval_list f es1 rho s = Ok vs1 s1 /\ eval_list f es2 rho s1 = Ok vs2 s' /\ vs = vs1 ++ vs2.
Proof.
  induction f as [|f IH]; intros es1 rho s vs s' H; [rewrite eval_list_0 in H; discriminate H|].
  destruct es1 as [|e es1].
  - exists [], s, vs. split; [rewrite eval_list_S; reflexivity|]. split; [exact H|reflexivity].
  - simpl app in H. rewrite eval_list_S in H. bdo H as v s0 E. bdo H as vs' s2 E'. inversion H; subst.
    destruct (IH _ _ _ _ _ E') as (vs1 & s1 & vs2 & H1 & H2 & ->).
    exists (v :: vs1), s1, vs2. split; [|split; [|reflexivity]].
    + rewrite eval_list_S, E. cbn [bind]. rewrite H1. reflexivity.
    + eapply eval_list_mono; [|exact H2|discriminate]. lia.
Qed.

(** ** object literals: [eval_props], in source order *)

Theorem object_props_fail f ps rho s x :
  eval_props f ps rho s = fail_res x -> eval (S f) (EObject ps) rho s = fail_res x.
Proof. intros E. rewrite eval_S, E. apply bind_fail. Qed.

Theorem object_ok f ps rho s kvs s1 :
  eval_props f ps rho s = Ok kvs s1 ->
  eval (S f) (EObject ps) rho s = Ok (VObj (length (objs s1))) (snd (alloc_obj (build_obj kvs) s1)).
Proof. intros E. rewrite eval_S, E. reflexivity. Qed.

(** the evaluated properties come in the order of the source, with the same keys *)
Lemma eval_props_keys : forall f ps rho s kvs s',
  eval_props f ps rho s = Ok kvs s' -> map fst kvs = map fst ps.
Proof.
  induction f as [|f IH]; intros ps rho s kvs s' H; [rewrite eval_props_0 in H; discriminate H|].
  rewrite eval_props_S in H. destruct ps as [|[k e] ps].
  - inversion H; reflexivity.
  - bdo H as v s1 E1. bdo H as kvs' s2 E2. inversion H; subst. simpl. f_equal. eapply IH; exact E2.
Qed.

Theorem eval_props_app_fails : forall f ps1 ps2 rho s x,
  eval_props f ps1 rho s = fail_res x -> eval_props f (ps1 ++ ps2) rho s = fail_res x.
Proof.
  induction f as [|f IH]; intros ps1 ps2 rho s x H.
  - rewrite eval_props_0 in H |- *. exact H.
  - rewrite eval_props_S in H. destruct ps1 as [|[k e] ps1].
    + exfalso. eapply fail_not_ok. symmetry. exact H.
    + simpl app. rewrite eval_props_S.
      destruct (res_cases (eval f e rho s)) as [(v & s1 & E)|(y & E)]; rewrite E in H |- *.
      * cbn [bind] in H |- *. apply bind_total_fail with (g := fun kvs => (k, v) :: kvs) in H.
        rewrite (IH _ ps2 _ _ _ H). apply bind_fail.
      * rewrite bind_fail in H |- *. exact H.
Qed.

Lemma eval_props_app_le ps2 rho : forall ps1 f g s kvs1 s1,
  eval_props f ps1 rho s = Ok kvs1 s1 ->
  le_res (let* (kvs2, s2) := eval_props g ps2 rho s1 in Ok (kvs1 ++ kvs2) s2)
         (eval_props (f + g) (ps1 ++ ps2) rho s).
Proof.
  induction ps1 as [|[k e] ps1 IH]; intros f g s kvs1 s1 H.
  - destruct f as [|f]; [rewrite eval_props_0 in H; discriminate H|].
    rewrite eval_props_S in H. inversion H; subst. simpl app.
    destruct (mono_all libm clock sched g (S f + g) ltac:(lia)) as (_ & _ & Hep & _).
    intros N. rewrite Hep.
    + destruct (eval_props g ps2 rho s1); reflexivity.
    + intros C. apply N. rewrite C. reflexivity.
  - destruct f as [|f]; [rewrite eval_props_0 in H; discriminate H|].
    rewrite eval_props_S in H. bdo H as v s0 E. bdo H as kvs' s1' E'. inversion H; subst.
    simpl app. replace (S f + g)%nat with (S (f + g)) by lia. rewrite eval_props_S.
    rewrite (eval_mono libm clock sched f (f + g) e rho s _ ltac:(lia) E ltac:(discriminate)). cbn [bind].
    pose proof (IH f g s0 kvs' s1 E') as L.
    apply le_bind with (k := fun kvs s2 => Ok ((k, v) :: kvs) s2) (k' := fun kvs s2 => Ok ((k, v) :: kvs) s2) in L;
      [|intros; apply le_refl].
    rewrite bind_assoc in L. exact L.
Qed.

Theorem eval_props_app f g ps1 ps2 rho s kvs1 s1 kvs2 s2 :
  eval_props f ps1 rho s = Ok kvs1 s1 -> eval_props g ps2 rho s1 = Ok kvs2 s2 ->
  eval_props (f + g) (ps1 ++ ps2) rho s = Ok (kvs1 ++ kvs2) s2.
Proof.
  intros H1 H2. pose proof (eval_props_app_le ps2 rho ps1 f g s kvs1 s1 H1) as L.
  rewrite H2 in L. cbn [bind] in L. apply L. discriminate.
Qed.

Theorem eval_props_app_rest_fails f g ps1 ps2 rho s kvs1 s1 x :
  eval_props f ps1 rho s = Ok kvs1 s1 -> eval_props g ps2 rho s1 = fail_res x -> x <> FFuel ->
  eval_props (f + g) (ps1 ++ ps2) rho s = fail_res x.
Proof.
  intros H1 H2 N. pose proof (eval_props_app_le ps2 rho ps1 f g s kvs1 s1 H1) as L.
  rewrite H2, bind_fail in L. apply L. destruct x; try discriminate. exfalso; apply N; reflexivity.
Qed.

Theorem eval_props_app_inv ps2 : forall f ps1 rho s kvs s',
  eval_props f (ps1 ++ ps2) rho s = Ok kvs s' ->
  exists kvs1 s1 kvs2, eval_props f ps1 rho s = Ok kvs1 s1 /\ eval_props f ps2 rho s1 = Ok kvs2 s' /\ kvs = kvs1 ++ kvs2.
Proof.
  induction f as [|f IH]; intros ps1 rho s kvs s' H; [rewrite eval_props_0 in H; discriminate H|].
  destruct ps1 as [|[k e] ps1].
  - exists [], s, kvs. split; [rewrite eval_props_S; reflexivity|]. split; [exact H|reflexivity].
  - simpl app in H. rewrite eval_props_S in H. bdo H as v s0 E. bdo H as kvs' s2 E'. inversion H; subst.
    destruct (IH _ _ _ _ _ E') as (kvs1 & s1 & kvs2 & H1 & H2 & ->).
    exists ((k, v) :: kvs1), s1, kvs2. split; [|split; [|reflexivity]].
    + rewrite eval_props_S, E. cbn [bind]. rewrite H1. reflexivity.
    + eapply eval_props_mono; [|exact H2|discriminate]. lia.
Qed.

End Order.


(* ------------------------------------------------------------------ *)
(** * C4. Probe order: the opaque sub-expressions are evaluated once each, left to right *)

(** The strict node forms are traversed; every call, logical node and variable
    assignment is an opaque leaf (its own evaluation may do anything).  [leaves_lr e]
    lists the maximal opaque sub-expressions of [e] in source order. *)
Fixpoint leaves_lr (e : expr) : list expr :=
  match e with
  | ELit _ _ | EId _ _ => []
  | EGroup e1 _ => leaves_lr e1
  | EUnary _ e1 _ => leaves_lr e1
  | EBinary _ l r _ => leaves_lr l ++ leaves_lr r
  | EIndex a i _ => leaves_lr a ++ leaves_lr i
  | EProp o _ _ => leaves_lr o
  | EArrAssign a i v _ => leaves_lr a ++ leaves_lr i ++ leaves_lr v
  | EPropAssign o _ v _ => leaves_lr o ++ leaves_lr v
  | EArray es => flat_map leaves_lr es
  | EObject ps => flat_map (fun p => leaves_lr (snd p)) ps
  | ECall _ _ _ | ELogical _ _ _ | EAssign _ _ _ _ => [e]
  end.

(** a step that leaves scopes, closures, output and input alone (it may allocate or
    update array and object cells) *)
Definition quiet (s s' : state) : Prop :=
  envs s' = envs s /\ funs s' = funs s /\ out s' = out s /\ inp s' = inp s.

Lemma quiet_refl s : quiet s s.
Proof. repeat split. Qed.

Lemma quiet_trans s1 s2 s3 : quiet s1 s2 -> quiet s2 s3 -> quiet s1 s3.
Proof. intros (A1 & B1 & C1 & D1) (A2 & B2 & C2 & D2). repeat split; congruence. Qed.

Section Probe.
Variable libm : N -> f64 -> f64 -> f64.
Variable clock : f64.
Variable sched : N -> list (list N * value) -> list (list N * value).

Notation eval := (eval libm clock sched).
Notation eval_list := (eval_list libm clock sched).
Notation eval_props := (eval_props libm clock sched).

(** [chain rho es s s']: from [s] to [s'] the expressions [es] are evaluated, each
    once, in this order, in scope [rho], with only quiet steps before, between and after *)
Inductive chain (rho : nat) : list expr -> state -> state -> Prop :=
  | chain_nil s s' : quiet s s' -> chain rho [] s s'
  | chain_cons e es s s0 f v s1 s' :
      quiet s s0 -> eval f e rho s0 = Ok v s1 -> chain rho es s1 s' -> chain rho (e :: es) s s'.

Lemma chain_quiet_l rho es s s0 s' : quiet s s0 -> chain rho es s0 s' -> chain rho es s s'.
Proof.
  intros Q C. inversion C; subst.
  - apply chain_nil. eapply quiet_trans; eassumption.
  - eapply chain_cons; [eapply quiet_trans; eassumption|eassumption|eassumption].
Qed.

Lemma chain_quiet_r rho es : forall s s1 s', chain rho es s s1 -> quiet s1 s' -> chain rho es s s'.
Proof.
  intros s s1 s' C. revert s'. induction C as [s s1 Q|e es s s0 f v s1 s2 Q E C IH]; intros s' Q'.
  - apply chain_nil. eapply quiet_trans; eassumption.
  - eapply chain_cons; [exact Q|exact E|apply IH; exact Q'].
Qed.

Lemma chain_app rho es1 es2 : forall s s1 s',
  chain rho es1 s s1 -> chain rho es2 s1 s' -> chain rho (es1 ++ es2) s s'.
Proof.
  intros s s1 s' C. revert s'. induction C as [s s1 Q|e es s s0 f v s1 s2 Q E C IH]; intros s' C'.
  - simpl. eapply chain_quiet_l; eassumption.
  - simpl. eapply chain_cons; [exact Q|exact E|apply IH; exact C'].
Qed.

Lemma chain_one rho f e s v s' : eval f e rho s = Ok v s' -> chain rho [e] s s'.
Proof. intros E. eapply chain_cons; [apply quiet_refl|exact E|apply chain_nil; apply quiet_refl]. Qed.

Lemma chain_refl rho s : chain rho [] s s.
Proof. apply chain_nil; apply quiet_refl. Qed.

Definition order_at (f : nat) : Prop :=
  (forall e rho s v s', eval f e rho s = Ok v s' -> chain rho (leaves_lr e) s s') /\
  (forall es rho s vs s', eval_list f es rho s = Ok vs s' -> chain rho (flat_map leaves_lr es) s s') /\
  (forall ps rho s kvs s', eval_props f ps rho s = Ok kvs s' ->
     chain rho (flat_map (fun p => leaves_lr (snd p)) ps) s s').

Lemma order_all : forall f, order_at f.
Proof.
  induction f as [|f (IHe & IHl & IHp)].
  - split; [|split].
    + intros e rho s v s' H. rewrite eval_0 in H. discriminate H.
    + intros es rho s vs s' H. rewrite eval_list_0 in H. discriminate H.
    + intros ps rho s kvs s' H. rewrite eval_props_0 in H. discriminate H.
  - split; [|split].
    + intros e rho s v s' H. pose proof H as H0. rewrite eval_S in H.
      destruct e as [lt ln|x ln|e1 ln|op e1 ln|op l r ln|op l r|x nl ve ln|ae ie ve ln|oe p ve ln|ce pl args|ae ie ln|oe p ln|es|ps];
        cbn [leaves_lr].
      * inversion H; subst. apply chain_refl.
      * destruct (env_get rho x s) as [[w|]|]; inversion H; subst. apply chain_refl.
      * apply IHe in H. exact H.
      * bdo H as a s1 E1. unfold lift_ores in H. destruct (unop op a); inversion H; subst.
        apply IHe in E1. exact E1.
      * bdo H as a s1 E1. bdo H as b s2 E2. unfold lift_ores in H.
        destruct (binop libm s2 op a b); inversion H; subst.
        eapply chain_app; [apply IHe in E1; exact E1|apply IHe in E2; exact E2].
      * eapply chain_one; exact H0.
      * eapply chain_one; exact H0.
      * bdo H as a s1 E1. bdo H as i s2 E2. bdo H as w s3 E3.
        apply IHe in E1. apply IHe in E2. apply IHe in E3.
        assert (Q : quiet s3 s').
        { destruct a; try discriminate H. destruct (get_arr l s3) as [vs|]; [|discriminate H].
          destruct (index_of vs i) as [[n|]|]; inversion H; subst. repeat split. }
        eapply chain_app; [exact E1|]. eapply chain_app; [exact E2|]. eapply chain_quiet_r; [exact E3|exact Q].
      * bdo H as o s1 E1. destruct o; try discriminate H. bdo H as w s2 E2.
        apply IHe in E1. apply IHe in E2.
        assert (Q : quiet s2 s').
        { destruct (get_obj l s2) as [qs|]; inversion H; subst. repeat split. }
        eapply chain_app; [exact E1|]. eapply chain_quiet_r; [exact E2|exact Q].
      * eapply chain_one; exact H0.
      * bdo H as a s1 E1. bdo H as i s2 E2. apply IHe in E1. apply IHe in E2.
        assert (Q : s' = s2).
        { destruct a; try discriminate H. destruct (get_arr l s2) as [vs|]; [|discriminate H].
          destruct (index_of vs i) as [[n|]|]; try discriminate H.
          destruct (nth_error vs n); inversion H; reflexivity. }
        subst s'. eapply chain_app; [exact E1|exact E2].
      * bdo H as o s1 E1. apply IHe in E1.
        assert (Q : s' = s1).
        { destruct o; try discriminate H. destruct (get_obj l s1) as [qs|]; [|discriminate H].
          destruct (assoc p qs); inversion H; reflexivity. }
        subst s'. exact E1.
      * bdo H as vs s1 E1. apply IHl in E1. unfold alloc_arr in H. inversion H; subst.
        eapply chain_quiet_r; [exact E1|repeat split].
      * bdo H as kvs s1 E1. apply IHp in E1. unfold alloc_obj in H. inversion H; subst.
        eapply chain_quiet_r; [exact E1|repeat split].
    + intros es rho s vs s' H. rewrite eval_list_S in H. destruct es as [|e es]; simpl flat_map.
      * inversion H; subst. apply chain_refl.
      * bdo H as v s1 E1. bdo H as vs' s2 E2. inversion H; subst.
        eapply chain_app; [apply IHe in E1; exact E1|apply IHl in E2; exact E2].
    + intros ps rho s kvs s' H. rewrite eval_props_S in H. destruct ps as [|[k e] ps]; simpl flat_map.
      * inversion H; subst. apply chain_refl.
      * bdo H as v s1 E1. bdo H as kvs' s2 E2. inversion H; subst.
        eapply chain_app; [apply IHe in E1; exact E1|apply IHp in E2; exact E2].
Qed.

(** In every successful evaluation of [e], the opaque sub-expressions of [e] are
    evaluated exactly once each, in source order, in the same scope, and between
    them nothing touches scopes, closures, output or input. *)
Theorem leaves_in_order f e rho s v s' :
  eval f e rho s = Ok v s' -> chain rho (leaves_lr e) s s'.
Proof. destruct (order_all f) as (H & _). apply H. Qed.

(** Probe form: if every leaf is a "probe" - evaluated in a state satisfying [I] it
    keeps [I] and writes exactly one event, its tag - and [I] is insensitive to
    quiet steps, then the output of the whole expression is the tags of its leaves
    in left-to-right order (newest first in [out], hence the [rev]). *)
Theorem probe_order rho (I : state -> Prop) (tag : expr -> event) e :
  (forall s s', I s -> quiet s s' -> I s') ->
  (forall lf, In lf (leaves_lr e) -> forall f s v s',
     I s -> eval f lf rho s = Ok v s' -> I s' /\ out s' = tag lf :: out s) ->
  forall f s v s', I s -> eval f e rho s = Ok v s' ->
    I s' /\ out s' = rev (map tag (leaves_lr e)) ++ out s.
Proof.
  intros HQ HL f s v s' HI H. apply leaves_in_order in H.
  revert HL HI H. generalize (leaves_lr e). intros ls HL HI H.
  induction H as [s s1 Q|lf es s s0 g w s1 s2 Q E C IH].
  - split; [eapply HQ; eassumption|]. destruct Q as (_ & _ & O & _). exact O.
  - assert (HI0 : I s0) by (eapply HQ; eassumption).
    destruct (HL lf (or_introl eq_refl) _ _ _ _ HI0 E) as (HI1 & O1).
    destruct IH as (HI2 & O2); [intros lf' Hin; apply HL; right; exact Hin|exact HI1|].
    split; [exact HI2|].
    rewrite O2, O1. destruct Q as (_ & _ & O & _). rewrite O.
    simpl. rewrite <- app_assoc. reflexivity.
Qed.

End Probe.

(** A concrete probe, to tie [leaves_lr] to a run:
    [ফাংশন p(x) { দেখাও x; ফেরত x; }] and the expression
    [[p(1) + p(2), -(p(3)), {a: p(4)}][p(0) * p(5)]]. *)
Definition pr_libm (_ : N) (x _ : f64) : f64 := x.
Definition pr_clock : f64 := f_of_Z 0.
Definition pr_sched (_ : N) (l : list (list N * value)) : list (list N * value) := l.
Definition pr_p : list N := [112].
Definition pr_x : list N := [120].
Definition probe (k : Z) : expr := ECall (EId pr_p 1) 1 [ELit (LitNum (f_of_Z k)) 1].
Definition probe_fun : stmt :=
  SFun pr_p [pr_x] [SPrint (EId pr_x 1); SReturn 1 (Some (EId pr_x 1))].
Definition probe_expr : expr :=
  EIndex (EArray [EBinary TPLUS (probe 1) (probe 2) 1;
                  EUnary TMINUS (EGroup (probe 3) 1) 1;
                  EObject [([97], probe 4)]])
         (EBinary TSTAR (probe 0) (probe 5) 1) 1.

Example probe_leaves : leaves_lr probe_expr = map probe [1; 2; 3; 4; 0; 5]%Z.
Proof. reflexivity. Qed.

Example probe_run :
  match run_stmts pr_libm pr_clock pr_sched 60 false [probe_fun; SExpr probe_expr] (init_state []) with
  | Ok _ s => Some (rev (out s))
  | _ => None
  end
  = Some (map (fun k => EvPrint [48 + k]) [1; 2; 3; 4; 0; 5]).
Proof. vm_compute. reflexivity. Qed.

Print Assumptions truthy_spec.
Print Assumptions or_short.
Print Assumptions binary_left_fails.
Print Assumptions eval_list_app.
Print Assumptions eval_list_app_inv.
Print Assumptions leaves_in_order.
Print Assumptions probe_order.
