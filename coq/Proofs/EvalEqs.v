(** Unfolding equations of the fuelled evaluator, by [reflexivity].  Proofs use these
    (and [Opaque]-style discipline) instead of [simpl] on the mutual fixpoint. *)
From Borno Require Import Base Num Unicode Token Ast Value Eval.
Open Scope N_scope.

Section Eqs.
Variable libm : N -> f64 -> f64 -> f64.
Variable clock : f64.
Variable sched : N -> list (list N * value) -> list (list N * value).

Notation eval := (eval libm clock sched).
Notation eval_list := (eval_list libm clock sched).
Notation eval_props := (eval_props libm clock sched).
Notation exec := (exec libm clock sched).
Notation exec_var := (exec_var libm clock sched).
Notation exec_vars := (exec_vars libm clock sched).
Notation exec_list := (exec_list libm clock sched).
Notation exec_while := (exec_while libm clock sched).
Notation exec_for := (exec_for libm clock sched).

Lemma eval_0 e rho s : eval 0 e rho s = Fuel. Proof. reflexivity. Qed.
Lemma eval_list_0 es rho s : eval_list 0 es rho s = Fuel. Proof. reflexivity. Qed.
Lemma eval_props_0 ps rho s : eval_props 0 ps rho s = Fuel. Proof. reflexivity. Qed.
Lemma exec_0 r st rho s : exec 0 r st rho s = Fuel. Proof. reflexivity. Qed.
Lemma exec_var_0 d rho s : exec_var 0 d rho s = Fuel. Proof. reflexivity. Qed.
Lemma exec_vars_0 d rho s : exec_vars 0 d rho s = Fuel. Proof. reflexivity. Qed.
Lemma exec_list_0 r ss rho s : exec_list 0 r ss rho s = Fuel. Proof. reflexivity. Qed.
Lemma exec_while_0 r c b rho s : exec_while 0 r c b rho s = Fuel. Proof. reflexivity. Qed.
Lemma exec_for_0 r c i b rho s : exec_for 0 r c i b rho s = Fuel. Proof. reflexivity. Qed.

Lemma eval_S f e rho s :
  eval (S f) e rho s =
    match e with
    | ELit l _ => Ok (value_of_lit l) s
    | EId x line =>
        match env_get rho x s with
        | Some (Some v) => Ok v s
        | Some None => Err RUndefinedVar line s
        | None => Stuck
        end
    | EGroup e' _ => eval f e' rho s
    | EUnary op e' line =>
        let* (v, s1) := eval f e' rho s in
        lift_ores (unop op v) line s1 (fun r => Ok r s1)
    | EBinary op l r line =>
        let* (a, s1) := eval f l rho s in
        let* (b, s2) := eval f r rho s1 in
        lift_ores (binop libm s2 op a b) line s2 (fun r => Ok r s2)
    | ELogical op l r =>
        let* (a, s1) := eval f l rho s in
        if tkind_eqb op TLOGICAL_OR then (if truthy a then Ok a s1 else eval f r rho s1)
        else (if truthy a then eval f r rho s1 else Ok a s1)
    | EAssign x nline ve _ =>
        let* (v, s1) := eval f ve rho s in
        match env_assign rho x v s1 with
        | Some (Some s2) => Ok v s2
        | Some None => Err RUndefinedAssign nline s1
        | None => Stuck
        end
    | EArrAssign ae ie ve line =>
        let* (a, s1) := eval f ae rho s in
        let* (i, s2) := eval f ie rho s1 in
        let* (v, s3) := eval f ve rho s2 in
        match a with
        | VArr l =>
            match get_arr l s3 with
            | Some vs =>
                match index_of vs i with
                | None => Err RIndexInteger line s3
                | Some None => Err RIndexBounds line s3
                | Some (Some n) => Ok v (set_arr l (set_nth n v vs) s3)
                end
            | None => Stuck
            end
        | _ => Err RNotArrayAssign line s3
        end
    | EPropAssign oe p ve line =>
        let* (o, s1) := eval f oe rho s in
        match o with
        | VObj l =>
            let* (v, s2) := eval f ve rho s1 in
            match get_obj l s2 with
            | Some ps => Ok v (set_obj l (sorted_put p v ps) s2)
            | None => Stuck
            end
        | _ => Err RNotObjectAssign line s1
        end
    | ECall ce pline args =>
        let* (c, s1) := eval f ce rho s in
        match c with
        | VFun l =>
            match get_fun l s1 with
            | Some clo =>
                if negb (Nat.eqb (length (c_params clo)) (length args)) then Err RArity pline s1
                else
                  let* (vs, s2) := eval_list f args rho s1 in
                  let '(act, s3) := alloc_env (Some (c_env clo)) s2 in
                  match env_define act (c_name clo) (VFun l) s3 with
                  | Some s4 =>
                      match bind_params act (c_params clo) vs s4 with
                      | Some s5 =>
                          let* (sig, s6) := exec_list f false (c_body clo) act s5 in
                          Ok (match sig with SigReturn _ v => v | _ => VNil end) s6
                      | None => Stuck
                      end
                  | None => Stuck
                  end
            | None => Stuck
            end
        | VNative n =>
            if negb (arity_ok (native_arity n) (length args)) then Err RArity pline s1
            else
              let* (vs, s2) := eval_list f args rho s1 in
              match call_native libm clock sched n vs s2 with
              | NOk v s3 => Ok v s3
              | NFail why => Err (RCallFailed why) pline (native_fail_state n vs s2)
              | NStuck => Stuck
              end
        | _ => Err RNotCallable pline s1
        end
    | EIndex ae ie line =>
        let* (a, s1) := eval f ae rho s in
        let* (i, s2) := eval f ie rho s1 in
        match a with
        | VArr l =>
            match get_arr l s2 with
            | Some vs =>
                match index_of vs i with
                | None => Err RIndexInteger line s2
                | Some None => Err RIndexBounds line s2
                | Some (Some n) => match nth_error vs n with Some v => Ok v s2 | None => Stuck end
                end
            | None => Stuck
            end
        | _ => Err RNotArrayAccess line s2
        end
    | EProp oe p line =>
        let* (o, s1) := eval f oe rho s in
        match o with
        | VObj l =>
            match get_obj l s1 with
            | Some ps => match assoc p ps with Some v => Ok v s1 | None => Err RNoProperty line s1 end
            | None => Stuck
            end
        | _ => Err RNotObjectAccess line s1
        end
    | EArray es =>
        let* (vs, s1) := eval_list f es rho s in
        let '(l, s2) := alloc_arr vs s1 in Ok (VArr l) s2
    | EObject ps =>
        let* (kvs, s1) := eval_props f ps rho s in
        let '(l, s2) := alloc_obj (build_obj kvs) s1 in Ok (VObj l) s2
    end.
Proof. reflexivity. Qed.

Lemma eval_list_S f es rho s :
  eval_list (S f) es rho s =
    match es with
    | [] => Ok [] s
    | e :: r =>
        let* (v, s1) := eval f e rho s in
        let* (vs, s2) := eval_list f r rho s1 in
        Ok (v :: vs) s2
    end.
Proof. reflexivity. Qed.

Lemma eval_props_S f ps rho s :
  eval_props (S f) ps rho s =
    match ps with
    | [] => Ok [] s
    | (k, e) :: r =>
        let* (v, s1) := eval f e rho s in
        let* (kvs, s2) := eval_props f r rho s1 in
        Ok ((k, v) :: kvs) s2
    end.
Proof. reflexivity. Qed.

Lemma exec_S f repl st rho s :
  exec (S f) repl st rho s =
    match st with
    | SExpr e =>
        let* (v, s1) := eval f e rho s in
        if repl then
          match text_of s1 v with
          | TOk t => Ok SigNone (emit (EvEcho t) s1)
          | TCycle => Crash s1
          | TStuck => Stuck
          | TNoText => Fuel
          end
        else Ok SigNone s1
    | SPrint e =>
        let* (v, s1) := eval f e rho s in
        match text_of s1 v with
        | TOk t => Ok SigNone (emit (EvPrint t) s1)
        | TCycle => Crash s1
        | TStuck => Stuck
        | TNoText => Fuel
        end
    | SVar d => exec_var f d rho s
    | SVarList ds => exec_vars f ds rho s
    | SBlock ss =>
        let '(rho', s1) := alloc_env (Some rho) s in
        exec_list f repl ss rho' s1
    | SIf c t e =>
        let* (cv, s1) := eval f c rho s in
        if truthy cv then exec f repl t rho s1
        else match e with Some e' => exec f repl e' rho s1 | None => Ok SigNone s1 end
    | SWhile c b => exec_while f repl c b rho s
    | SFor init c inc b =>
        let '(rho', s1) := alloc_env (Some rho) s in
        let* (sig, s2) := (match init with Some i => exec f repl i rho' s1 | None => Ok SigNone s1 end) in
        match sig with
        | SigNone => exec_for f repl c inc b rho' s2
        | _ => Ok sig s2
        end
    | SBreak line => Ok (SigBreak line) s
    | SContinue line => Ok (SigContinue line) s
    | SReturn kw ve =>
        match ve with
        | Some e => let* (v, s1) := eval f e rho s in Ok (SigReturn kw v) s1
        | None => Ok (SigReturn kw VNil) s
        end
    | SFun name params body =>
        let '(cenv, s1) := alloc_env (Some rho) s in
        let '(l, s2) := alloc_fun (mkClo name params body cenv) s1 in
        match env_define rho name (VFun l) s2 with
        | Some s3 => Ok SigNone s3
        | None => Stuck
        end
    end.
Proof. reflexivity. Qed.

Lemma exec_var_S f d rho s :
  exec_var (S f) d rho s =
    let '(x, init, line) := d in
    let* (v, s1) := (match init with Some e => eval f e rho s | None => Ok VNil s end) in
    match env_get_here rho x s1 with
    | Some None => match env_define rho x v s1 with Some s2 => Ok SigNone s2 | None => Stuck end
    | Some (Some _) => Err RRedeclare line s1
    | None => Stuck
    end.
Proof. reflexivity. Qed.

Lemma exec_vars_S f ds rho s :
  exec_vars (S f) ds rho s =
    match ds with
    | [] => Ok SigNone s
    | d :: r => let* (_x, s1) := exec_var f d rho s in exec_vars f r rho s1
    end.
Proof. reflexivity. Qed.

Lemma exec_list_S f repl ss rho s :
  exec_list (S f) repl ss rho s =
    match ss with
    | [] => Ok SigNone s
    | st :: r =>
        let* (sig, s1) := exec f repl st rho s in
        match sig with
        | SigNone => exec_list f repl r rho s1
        | _ => Ok sig s1
        end
    end.
Proof. reflexivity. Qed.

Lemma exec_while_S f repl c b rho s :
  exec_while (S f) repl c b rho s =
    let* (cv, s1) := eval f c rho s in
    if truthy cv then
      let* (sig, s2) := exec f repl b rho s1 in
      match sig with
      | SigBreak _ => Ok SigNone s2
      | SigReturn _ _ => Ok sig s2
      | _ => exec_while f repl c b rho s2
      end
    else Ok SigNone s1.
Proof. reflexivity. Qed.

Lemma exec_for_S f repl c inc b rho s :
  exec_for (S f) repl c inc b rho s =
    let* (cv, s1) := eval f c rho s in
    if truthy cv then
      let* (sig, s2) := exec f repl b rho s1 in
      match sig with
      | SigBreak _ => Ok SigNone s2
      | SigReturn _ _ => Ok sig s2
      | _ =>
          let* (_v, s3) := (match inc with Some i => eval f i rho s2 | None => Ok VNil s2 end) in
          exec_for f repl c inc b rho s3
      end
    else Ok SigNone s1.
Proof. reflexivity. Qed.

End Eqs.
