(** C12, tie (A): the two listing built-ins sort what they read from the map. *)
From Coq Require Import String ZArith.
From Borno Require Import Base Num Unicode Token Lexer Ast Parser Value Eval GenTables Tables.
Open Scope string_scope.

Lemma listings_sorted : gen_map_ranges = map_ranges_expected.
Proof. vm_compute. reflexivity. Qed.

(** the bodies of কি_রিমুভ / অব্জেক্ট_কি / অব্জেক্ট_মান are the ones Model/Eval.v's [call_native] transcribes (Spec/NativeMechanism.v) *)
From Borno Require Import NativeMechanism.
Lemma native_bodies_match_C12 : pick object_natives gen_native_trace = pick object_natives native_trace_expected.
Proof. vm_compute. reflexivity. Qed.
