(** C12, tie (A): the two listing built-ins sort what they read from the map. *)
From Coq Require Import String ZArith.
From Borno Require Import Base Num Unicode Token Lexer Ast Parser Value Eval GenTables Tables.
Open Scope string_scope.

Lemma listings_sorted : gen_map_ranges = map_ranges_expected.
Proof. vm_compute. reflexivity. Qed.
